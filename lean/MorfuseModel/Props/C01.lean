import MorfuseModel.Emit.Model
import MorfuseModel.Emit.Master
import MorfuseModel.Emit.MasterLemmas
import MorfuseModel.Emit.Fixup
/-!
# C01 — compilation is total: any source text is accepted or cleanly rejected

Property theorems only.  The model (`Emit/Model.lean`) is the compiler proper — `ScriptEmitter` with the
counting and the program manager, `ScriptCompiler::Preallocate`, and the registry logic of
`ScriptMaster::GetProgramScript`; the generated lexer / parser is covered by the correspondence run (outcome
classes under ASan with hook H3), not by a theorem.
-/
namespace Morfuse.Props.C01
open Morfuse.Emit

/-- **Termination of the emitter is a checked obligation.**  `emit`, `emitList`, `emitRef` (and the
sub-emitter runs inside `try` / `switch`) are ordinary Lean definitions by structural recursion over the
parse tree — no `partial`, no fuel —, so for every tree and every emitter state they return: a new state or
one of the listed errors. -/
theorem emit_total (n : Node) (s : St) : (∃ s', emit n s = .ok s') ∨ (∃ e, emit n s = .error e) := by
  cases h : emit n s with
  | ok s' => exact .inl ⟨s', rfl⟩
  | error e => exact .inr ⟨e, rfl⟩

/-- the same for a whole compile (counting pass, `Preallocate`, program pass) -/
theorem compile_total (dev : Bool) (root : Node) :
    (∃ c, compile dev root = .ok c) ∨ (∃ e, compile dev root = .error e) := by
  cases h : compile dev root with
  | ok c => exact .inl ⟨c, rfl⟩
  | error e => exact .inr ⟨e, rfl⟩

set_option maxRecDepth 100000 in
example : (match emit (.list (.cons (.while_ (.int 1) (.list (.cons .brk .nil)) .none) .nil)) (St.init true) with
    | .ok s' => s'.info.progLength == 18 | .error _ => false) = true := by decide

/-- **The break / continue fix-up tables are never indexed outside their capacity.**
(`apucBreakJumpLocations[BREAK_JUMP_LOCATION_COUNT]`, `apucContinueJumpLocations[CONTINUE_JUMP_LOCATION_COUNT]`; the
capacities are regenerated from `Compiler.h` into `Gen/EmitConsts.lean`.)  For **every** parse tree and every emitter
state whose two counters are within the tables — in particular the initial state of either pass and of the
counting sub-emitters of `try` / `switch` —
1. the emitter (either manager) never reads or writes `apucBreakJumpLocations[i]` / `apucContinueJumpLocations[i]`
   with `i ≥` capacity (the model's `Ub.breakIndex` / `Ub.continueIndex` outcomes), and leaves both counters
   within the tables;
2. the same for a whole compile (counting pass, `Preallocate`, program pass);
3. `AddBreakJumpLocation` / `AddContinueJumpLocation` store only below the capacity, and at capacity raise the
   modelled `BreakJumpLocOverflow` / `ContinueJumpLocOverflow` instead of storing. -/
theorem C01_fixup_tables_bounded :
    (∀ (n : Node) (s : St), s.nBrk ≤ Gen.EmitConsts.breakMax → s.nCont ≤ Gen.EmitConsts.continueMax →
      match emit n s with
      | .ok s' => s'.nBrk ≤ Gen.EmitConsts.breakMax ∧ s'.nCont ≤ Gen.EmitConsts.continueMax
      | .error e => e ≠ .ub .breakIndex ∧ e ≠ .ub .continueIndex)
    ∧ (∀ (dev : Bool) (root : Node),
        compile dev root ≠ .error (.ub .breakIndex) ∧ compile dev root ≠ .error (.ub .continueIndex))
    ∧ (∀ (s : St) (p : Nat),
        (s.nBrk < Gen.EmitConsts.breakMax → ∃ s', s.addBreak p = .ok s' ∧ s'.nBrk = s.nBrk + 1) ∧
        (¬ s.nBrk < Gen.EmitConsts.breakMax → s.addBreak p = .error .breakOverflow) ∧
        (s.nCont < Gen.EmitConsts.continueMax → ∃ s', s.addContinue p = .ok s' ∧ s'.nCont = s.nCont + 1) ∧
        (¬ s.nCont < Gen.EmitConsts.continueMax → s.addContinue p = .error .continueOverflow)) := by
  refine ⟨?_, ?_, ?_⟩
  · intro n s hb hc
    have h := (pb_all n).e s ⟨hb, hc⟩
    cases hr : emit n s with
    | ok s' => rw [hr] at h; exact h
    | error e => rw [hr] at h; exact h
  · intro dev root
    have h := compile_EB dev root
    constructor
    · intro hc; rw [hc] at h; exact h.1 rfl
    · intro hc; rw [hc] at h; exact h.2 rfl
  · intro s p
    refine ⟨?_, ?_, ?_, ?_⟩
    · intro h; refine ⟨{ s with brk := s.brk.set s.nBrk p, nBrk := s.nBrk + 1 }, by simp [St.addBreak, h], rfl⟩
    · intro h; simp [St.addBreak, h]
    · intro h; refine ⟨{ s with cont := s.cont.set s.nCont p, nCont := s.nCont + 1 }, by simp [St.addContinue, h], rfl⟩
    · intro h; simp [St.addContinue, h]

/-- non-vacuity: a full break table rejects the next `break` with the modelled error; a table with one free slot
takes it -/
example : ({ St.init true with nBrk := Gen.EmitConsts.breakMax } : St).addBreak 7 = .error .breakOverflow := by
  simp [St.addBreak, Gen.EmitConsts.breakMax]
example : (({ St.init true with nBrk := 99 } : St).addBreak 7).toOption.map (·.nBrk) = some 100 := by
  simp [St.addBreak, Gen.EmitConsts.breakMax, Except.toOption]

/-- **A rejected load is clean** (`GetProgramScript` + `GetProgramScriptInternal` + `Load`).  Whenever the
call really loads (`name` not registered, or `recompile`) and the load fails — the parser rejects the text or
the compiler throws — then
1. the caller gets exactly that error;
2. `name` stays registered, with `successCompile = false`;
3. every other entry of the registry is unchanged;
4. asking again for `name` (no `recompile`) reports "not properly loaded" and changes nothing;
5. a different, not yet registered script whose load succeeds is handed out with `successCompile = true`,
   and the failed entry is still there afterwards. -/
theorem C01_reject_is_clean (m : Master) (name : Nat) (src : Source) (rc : Bool) (e : LoadErr)
    (hload : m.find name = none ∨ rc = true) (hfail : (load m.dev src).2 = .error e) :
    let m' := (m.get name src rc).1
    (m.get name src rc).2 = .error e
    ∧ (m'.find name).map (·.successCompile) = some false
    ∧ (∀ other, other ≠ name → m'.find other = m.find other)
    ∧ (∀ src2, m'.get name src2 false = (m', .error .notLoaded))
    ∧ (∀ name2 src2, name2 ≠ name → m'.find name2 = none → (load m.dev src2).2 = .ok () →
        ∃ sc, (m'.get name2 src2 false).2 = .ok sc ∧ sc.successCompile = true
          ∧ (((m'.get name2 src2 false).1).find name).map (·.successCompile) = some false) := by
  -- what the failing load leaves behind
  have hsc : (load m.dev src).1.successCompile = false := by
    unfold load at hfail ⊢
    cases src with
    | none => rfl
    | some root =>
      simp only at hfail ⊢
      cases hc : compile m.dev root with
      | ok c => rw [hc] at hfail; simp at hfail
      | error e' => rfl
  -- the call goes through `GetProgramScriptInternal`
  have hget : m.get name src rc =
      ((if (m.find name).isSome then m.erase name else m).put name (load m.dev src).1, .error e) := by
    unfold Master.get
    rcases hload with h | h
    · rw [h]
      cases rc <;> simp [hfail, Master.erase_dev] <;> (cases hl : load m.dev src; simp_all)
    · subst h
      cases hf : m.find name <;> simp [hfail, Master.erase_dev] <;> (cases hl : load m.dev src; simp_all)
  have hdev : ((if (m.find name).isSome then m.erase name else m).put name (load m.dev src).1).dev = m.dev := by
    split <;> simp [Master.put_dev, Master.erase_dev]
  simp only [hget]
  refine ⟨trivial, ?_, ?_, ?_, ?_⟩
  · simp [Master.find_put_self, hsc]
  · intro other ho
    rw [Master.find_put_other _ _ _ _ ho]
    split
    · exact Master.find_erase_other _ _ _ ho
    · rfl
  · intro src2
    unfold Master.get
    simp [Master.find_put_self, hsc]
  · intro name2 src2 hne hnone hok
    unfold Master.get
    rw [hnone]
    simp only [Option.isSome_none, Bool.false_eq_true, ↓reduceIte, hdev]
    cases hl : load m.dev src2 with
    | mk sc r =>
      have hr : r = .ok () := by simpa [hl] using hok
      subst hr
      have hs : sc.successCompile = true := by
        unfold load at hl
        cases src2 with
        | none => simp at hl
        | some root =>
          simp only at hl
          cases hc : compile m.dev root with
          | ok c => rw [hc] at hl; simp at hl; rw [← hl]
          | error e' => rw [hc] at hl; simp at hl
      refine ⟨sc, rfl, hs, ?_⟩
      simp only
      rw [Master.find_put_other _ _ _ _ (Ne.symm hne), Master.find_put_self]
      simp [hsc]

/-- non-vacuity: a parse error on an empty registry -/
example : ((({} : Master).get 7 none false).1.find 7).map (·.successCompile) = some false := by rfl
example : (((({} : Master).get 7 none false).1).get 7 none false).2 = .error .notLoaded := by rfl

end Morfuse.Props.C01
