import MorfuseModel.Bytecode.Lemmas

/-!
# C02 — emitted bytecode is well-formed and keeps the operand stack disciplined

Property theorems only.  `Bytecode.verify` is the executable verifier that `driver bytecode` runs on the
dump of every program the real compiler produced; the theorems say what an `accept` means.

* `table_matches_vm` — the regenerated `OpcodeInfo[]` table (what the emitter believes) and the hand model
  of the decode loop (what the VM does) agree on encoded length and stack effect for every opcode, up to
  the exceptions listed and justified in `Bytecode.TableException`.
* `C02_verifier_sound` — for every program, entry and path of the abstract VM: every state reached is safe.
* `C02_error_effect` / `C02_error_effect_partial` — the height and code position after a script error are
  the ones the verifier assumed.
-/
namespace Morfuse.Bytecode
open Gen

/-- **Table against VM.**  For every opcode the encoded length and the stack effect in `OpcodeInfo[]`
(regenerated from the source on every run) are what `ScriptVM::Process` consumes and pushes/pops, except:
`OP_DONE` (table length 0, VM 1; never absorbed), `OP_STORE_FIELD_REF` (table 5, emitter and VM 9; never
absorbed), `OP_FUNC` (7 or 11 bytes, table 11 / −128), the count-carrying opcodes (stack effect −128 is a
marker), and the three opcodes without a `case` (`OP_BOOL_TO_VAR`, `OP_END`, `OP_RETURN`; rejected by the
verifier).  `agrees` states the exact demand for each exception. -/
theorem table_matches_vm : ∀ o : Opcode, agrees o = true :=
  forall_opcode_of_all (by decide)

/-- the table has one row per enumerator before `OP_PREVIOUS` (a missing row would shift all later ones) -/
theorem table_rows_match_enum : table_rows = OP_PREVIOUS ∧ Opcode.all.length = OP_PREVIOUS := by decide

/-- opcode bytes decode back to their enumerator -/
theorem opcode_code_roundtrip : ∀ o : Opcode, Opcode.ofCode o.code = some o :=
  fun o => by cases o <;> rfl

/-- **Soundness of the verifier.**  If `verify p = true` then for every entry `e` (start of the script, every
label, case label and catch label), every number of steps and every resolution of the branches on the way
(`cs`: which successor is taken at each step), the state `s` the abstract VM reaches is safe:
* `s.pc` is inside the buffer (instruction boundaries: `C02_branch_targets_on_boundaries`);
* the instruction there decodes inside the buffer and is executable at this height (no underflow, marked
  region rules, switch table known) — so the path can always be continued, in particular every branch
  target is again such a state;
* the height is at most `declared − 1` (the VM's own check is `index ≥ size ⇒ error`);
* if the thread can end here (`OP_DONE`, `end`, uncaught `throw`, `delete` …) the height it ends with is 0;
* every string / event / event-name / switch-table operand names an existing object. -/
theorem C02_verifier_sound (p : Program) (hv : verify p = true) (e : Nat) (he : e ∈ p.entries)
    (cs : List Nat) (s : St) (hx : AbsVM.run p (AbsVM.start e) cs = some s) : Safe p s :=
  check_sound p (infer p) hv e he cs s hx

/-- the same for any annotation that passes the checker (the verifier's own inference is not trusted) -/
theorem C02_checker_sound (p : Program) (H : Ann) (hv : check p H = true) (e : Nat) (he : e ∈ p.entries)
    (cs : List Nat) (s : St) (hx : AbsVM.run p (AbsVM.start e) cs = some s) : Safe p s :=
  check_sound p H hv e he cs s hx

/-- **Every branch lands on an instruction boundary.**  The reachable code decodes in exactly one way: for
any two states reachable from any entries along any paths, the second never starts strictly inside the
instruction the first is about to execute.  (So a jump, case label, catch label or fall-through never
enters the operand bytes of an instruction that is itself reachable.) -/
theorem C02_branch_targets_on_boundaries (p : Program) (hv : verify p = true) (e₁ e₂ : Nat) (h₁ : e₁ ∈ p.entries)
    (h₂ : e₂ ∈ p.entries) (cs₁ cs₂ : List Nat) (s₁ s₂ : St) (hx₁ : AbsVM.run p (AbsVM.start e₁) cs₁ = some s₁)
    (hx₂ : AbsVM.run p (AbsVM.start e₂) cs₂ = some s₂) : ¬ insideInstr p s₁.pc s₂.pc :=
  no_overlap_of_inv p (infer p) hv s₁ s₂
    (inv_run p (infer p) hv cs₁ _ (inv_start p _ hv e₁ h₁) s₁ hx₁)
    (inv_run p (infer p) hv cs₂ _ (inv_start p _ hv e₂ h₂) s₂ hx₂)

/-- heights agree on all paths into the same instruction: two paths (from any entries) that arrive at the
same offset arrive with the same height and the same pending mark -/
theorem C02_heights_agree (p : Program) (hv : verify p = true) (e₁ e₂ : Nat) (h₁ : e₁ ∈ p.entries) (h₂ : e₂ ∈ p.entries)
    (cs₁ cs₂ : List Nat) (s₁ s₂ : St) (hx₁ : AbsVM.run p (AbsVM.start e₁) cs₁ = some s₁)
    (hx₂ : AbsVM.run p (AbsVM.start e₂) cs₂ = some s₂) (hpc : s₁.pc = s₂.pc) : s₁.h = s₂.h ∧ s₁.mark = s₂.mark := by
  have i₁ := inv_run p (infer p) hv cs₁ _ (inv_start p _ hv e₁ h₁) s₁ hx₁
  have i₂ := inv_run p (infer p) hv cs₂ _ (inv_start p _ hv e₂ h₂) s₂ hx₂
  have := i₁.2
  rw [hpc, i₂.2] at this
  simp only [Option.some.injEq, Prod.mk.injEq] at this
  exact ⟨this.1.symm, this.2.symm⟩

/-- **Error paths (full statement).**  For every opcode and every way a script error can leave its `case`
block - including the `catch (...)` repairs of `OP_LOAD_FIELD_VAR`, `OP_STORE_FIELD`, `OP_STORE_FIELD_REF`,
`OP_STORE_ARRAY`, `loadTop`, `ExecFunction`, `executeCommandInternal<true>` - the height and the code position
at that moment are the ones of the fall-through path, i.e. what `step` (and so `C02_verifier_sound`) assumed:
same net height change, the count-dependent parameters popped iff the normal path pops them, all operand
bytes of the instruction stepped over.  The hypothesis is a closed boolean over `Gen/VmCases.lean`
(regenerated fingerprints of the source): `true` exactly when every block has a text whose error paths are
right; the check reports it as a failed obligation, with concrete failing programs, while it is `false`.
(Model level: `vmErrPaths` is the hand transcription of the fingerprinted source; the real VM's behaviour
after errors is compared transition by transition in the correspondence.) -/
theorem C02_error_effect (h : errorPathsRepaired = true) (o : Opcode) (e : ErrPath) (he : e ∈ vmErrPaths o) :
    errPathOk o e = true :=
  (List.all_eq_true.mp (forall_opcode_of_all h o)) e he

/-- **Error paths (what holds whichever known text the source has).**  Missing with respect to the full
statement: `OP_LOAD_FIELD_VAR`, whose group branch (6c30d63) keeps the assigned value on the stack when an
element of the array is not a listener (finding F6) until notes/C02-suggested-fix-6.diff is applied. -/
theorem C02_error_effect_partial (o : Opcode) (ho : o ∉ errorPathSuspects) (e : ErrPath) (he : e ∈ vmErrPaths o) :
    errPathOk o e = true := by
  have key : Opcode.all.all (fun o => errorPathSuspects.contains o || errOk o) = true := by decide
  have := forall_opcode_of_all key o
  simp only [Bool.or_eq_true, List.contains_iff_mem] at this
  rcases this with h | h
  · exact absurd h ho
  · exact (List.all_eq_true.mp h) e he

/-! ## non-vacuity -/

/-- a program dumped from the real compiler:
```
main local.p:
if (local.p) { local.b = local.p + 1 }
end
``` -/
def realProgram : Program :=
  { code := #[59, 60, 49, 7, 0, 0, 0, 0, 0, 0, 0, 61, 71, 7, 0, 0, 0, 0, 0, 0, 0, 3, 21, 0, 0, 0, 71, 7, 0, 0, 0, 0, 0, 0, 0, 13, 1, 94, 49, 8, 0, 0, 0, 0, 0, 0, 0, 26, 39, 0, 0, 0, 0, 0]
    declared := 3, dictSize := 8, numEvents := 142, numEventNames := 126
    ctl := [9, 10, 11, 18, 39, 43], labels := [0], switches := [], catches := [] }

example : verify realProgram = true := by decide +kernel

/-- the same bytes with the jump offset of `OP_VAR_JUMP_FALSE4` one larger: the branch lands inside
`OP_LOAD_LOCAL_VAR`'s operands -/
def brokenProgram : Program := { realProgram with code := realProgram.code.set! 22 22 }

example : verify brokenProgram = false := by decide +kernel

/-- the same bytes with the declared stack one slot too small -/
example : verify { realProgram with declared := 2 } = false := by decide +kernel

/-- `C02_verifier_sound` applies: the path start, mark, store-param, load, restore, push, branch taken -/
example : ∃ s, AbsVM.run realProgram (AbsVM.start 0) [0, 0, 0, 0, 0, 1] = some s ∧ s.pc = 47 ∧ Safe realProgram s := by
  refine ⟨⟨47, 0, none⟩, by decide +kernel, rfl, ?_⟩
  exact C02_verifier_sound realProgram (by decide +kernel) 0 (by decide) [0, 0, 0, 0, 0, 1] _ (by decide +kernel)

/-- `insideInstr` is not vacuous: offset 22 is inside the `OP_VAR_JUMP_FALSE4` at 21 -/
example : insideInstr realProgram 21 22 := ⟨⟨.OP_VAR_JUMP_FALSE4, 5, 1, 0⟩, by decide +kernel, by decide, by decide⟩

/-- error paths: the lists are not empty, and the shapes the source had before its repairs (double push in
`OP_STORE_OWNER`, operands left unread by `OP_STORE_FIELD_REF`, skipped twice by `OP_STORE_FIELD`, value
left by `loadTop`) are refused by `errPathOk` -/
example : vmErrPaths .OP_STORE_ARRAY = [⟨-1, false, some 0⟩] ∧ errOk .OP_STORE_ARRAY = true := by decide
example : errPathOk .OP_STORE_OWNER ⟨2, false, some 0⟩ = false ∧ errPathOk .OP_STORE_OWNER ⟨1, false, some 0⟩ = true := by decide
example : errPathOk .OP_STORE_FIELD_REF ⟨0, false, some 0⟩ = false ∧ errPathOk .OP_STORE_FIELD ⟨0, false, some 16⟩ = false
    ∧ errPathOk .OP_LOAD_LOCAL_VAR ⟨0, false, some 8⟩ = false := by decide
example : (Opcode.all.filter (fun o => vmErrPaths o ≠ [])).length = 74 ∧ Opcode.OP_BIN_DIVIDE ∉ errorPathSuspects := by decide

/-- table against VM: a changed length is noticed -/
example : vmLength .OP_STORE_INT2 = some 3 ∧ Opcode.OP_STORE_INT2.tableLength = 3 := by decide

end Morfuse.Bytecode
