import MorfuseModel.Lang.IntEncLemmas
import MorfuseModel.Emit.Model
import MorfuseModel.Lang.PrecTable
import MorfuseModel.Lang.PrecCongr
import MorfuseModel.Lang.Desugar
import MorfuseModel.Lang.ForWhile
/-!
# C03 — programs compute what the language rules say (property theorems)
-/
namespace Morfuse.Props.C03
open Morfuse.Lang Morfuse.Lang.IntEnc Morfuse.Gen.IntEnc

/-- **C03, literal values.**  Every 64-bit literal survives the compiler's choice of encoding and the
    VM's decoding: `OP_STORE_INTk` with the bytes `EmitInteger` wrote pushes the value that was written. -/
theorem C03_literal_roundtrip (v : BitVec 64) : decodeInt (encodeInt v) = some v := by
  obtain ⟨k, w, p, he, hlt, hp, hd, _⟩ := encode_spec v
  rw [he, decodeInt, decode_unsigned vmDecoders k w p v.toNat hd hlt hp v.isLt]
  simp

example : decodeInt (encodeInt 65536#64) = some 65536#64 := C03_literal_roundtrip _
example : encodeInt 65536#64 = ⟨3, [0, 0, 1]⟩ := by decide
example : encodeInt 4294967296#64 = ⟨8, [0, 0, 0, 0, 1, 0, 0, 0]⟩ := by decide

/-- the opcode `OP_STORE_INTk` -/
def storeIntOp (k : Nat) : Nat :=
  if k = 8 then Gen.EmitConsts.OP_STORE_INT8 else Gen.EmitConsts.OP_STORE_INT0 + k

theorem le_eq_toBytes (w n : Nat) : Emit.le w n = toBytes n w := by
  induction w generalizing n with
  | zero => rfl
  | succ w ih => simp [Emit.le, toBytes, ih]

/-- **C03 / C01, the two transcriptions of `ScriptEmitter::EmitInteger` agree.**  `Lang.IntEnc.encodeInt` (over the
    branch table regenerated from `Compiler.cpp`) and `Emit.St.emitInteger` (the emitter model whose output the C01
    correspondence compares byte for byte with the real compiler) choose the same opcode and write the same operand
    bytes, for every 64-bit value, from every emitter state and with either manager: `emitInteger` is `EmitOpcode` of
    `OP_STORE_INTk` for the `k` of `encodeInt v`, followed by `WriteOpcodeValue` of exactly the bytes of `encodeInt v`
    (nothing for `OP_STORE_INT0`).  Hence `C03_literal_roundtrip` is about the bytes the emitter model writes. -/
theorem C03_emit_model_literal_agrees (s : Emit.St) (v : BitVec 64) :
    s.emitInteger v.toNat =
      match (encodeInt v).bytes with
      | [] => s.emitOp (storeIntOp (encodeInt v).k)
      | b :: bs => s.emitOpBytes (storeIntOp (encodeInt v).k) (b :: bs) := by
  have hv := v.isLt
  unfold Emit.St.emitInteger encodeInt
  by_cases h0 : v.toNat = 0
  · simp [h0, emitZeroFirst, storeIntOp]
  · simp only [h0, ↓reduceIte, emitZeroFirst, Bool.true_and, beq_iff_eq, emitBranches, emitElse, firstBranch]
    by_cases h1 : v.toNat < 256
    · simp [h1, storeIntOp, le_eq_toBytes, toBytes, Gen.EmitConsts.OP_STORE_INT0, Gen.EmitConsts.OP_STORE_INT1]
    · by_cases h2 : v.toNat < 65536
      · simp [h1, h2, storeIntOp, le_eq_toBytes, toBytes, Gen.EmitConsts.OP_STORE_INT0, Gen.EmitConsts.OP_STORE_INT2]
      · by_cases h3 : v.toNat < 16777216
        · simp [h1, h2, h3, storeIntOp, le_eq_toBytes, toBytes, Gen.EmitConsts.OP_STORE_INT0, Gen.EmitConsts.OP_STORE_INT3]
        · by_cases h4 : v.toNat < 4294967296
          · simp [h1, h2, h3, h4, storeIntOp, le_eq_toBytes, toBytes, Gen.EmitConsts.OP_STORE_INT0, Gen.EmitConsts.OP_STORE_INT4]
          · simp [h1, h2, h3, h4, storeIntOp, le_eq_toBytes, toBytes]

/-- the opcodes of the example above: 65536 is `OP_STORE_INT3 00 00 01` in the emitter model as well -/
example (s : Emit.St) : s.emitInteger 65536 = s.emitOpBytes Gen.EmitConsts.OP_STORE_INT3 [0, 0, 1] := by
  have := C03_emit_model_literal_agrees s 65536#64
  simpa [storeIntOp, show encodeInt 65536#64 = ⟨3, [0, 0, 1]⟩ by decide, Gen.EmitConsts.OP_STORE_INT0,
    Gen.EmitConsts.OP_STORE_INT3] using this

/-- **C03, literal values (width).**  The encoding chosen is the smallest the emitter has that can
    hold the value: re-reading the literal from any smaller available width gives a different number. -/
theorem C03_literal_width_minimal (v : BitVec 64) (w : Nat) (hw : w ∈ widths)
    (hlt : w < (encodeInt v).bytes.length) : fromBytes (toBytes v.toNat w) ≠ v.toNat := by
  rw [fromBytes_toBytes]
  have hv : v.toNat < 2 ^ 64 := v.isLt
  simp only [widths, emitBranches, emitElse, List.map, List.cons_append, List.nil_append, List.mem_cons,
    List.not_mem_nil, or_false] at hw
  by_cases h0 : v.toNat = 0
  · simp [encodeInt, emitZeroFirst, h0] at hlt
  · by_cases h1 : v.toNat < 256
    · simp [encodeInt, emitZeroFirst, h0, emitBranches, firstBranch, h1, toBytes_length] at hlt
      omega
    · by_cases h2 : v.toNat < 65536
      · simp [encodeInt, emitZeroFirst, h0, emitBranches, firstBranch, h1, h2, toBytes_length] at hlt
        rcases hw with rfl | rfl | rfl | rfl | rfl <;> omega
      · by_cases h3 : v.toNat < 16777216
        · simp [encodeInt, emitZeroFirst, h0, emitBranches, firstBranch, h1, h2, h3, toBytes_length] at hlt
          rcases hw with rfl | rfl | rfl | rfl | rfl <;> omega
        · by_cases h4 : v.toNat < 4294967296
          · simp [encodeInt, emitZeroFirst, h0, emitBranches, firstBranch, h1, h2, h3, h4, toBytes_length] at hlt
            rcases hw with rfl | rfl | rfl | rfl | rfl <;> omega
          · simp [encodeInt, emitZeroFirst, h0, emitBranches, firstBranch, h1, h2, h3, h4, emitElse, toBytes_length] at hlt
            rcases hw with rfl | rfl | rfl | rfl | rfl <;> omega

example : (encodeInt 255#64).bytes.length = 1 ∧ (encodeInt 256#64).bytes.length = 2 := by decide

/-- **C03, constant folding.**  `-<literal>` folded at compile time (`EmitFunc1`: read the previous
    literal back from the code buffer, negate, emit again) pushes the same value as negating at run time. -/
theorem C03_neg_fold (v : BitVec 64) : (foldNeg (encodeInt v)).bind decodeInt = some (-v) := by
  obtain ⟨k, w, p, he, hlt, hp, _, hd⟩ := encode_spec v
  have h : decodeFold (encodeInt v) = some v := by
    rw [he, decodeFold, decode_unsigned foldDecoders k w p v.toNat hd hlt hp v.isLt]
    simp
  simp [foldNeg, h, C03_literal_roundtrip]

example : (foldNeg (encodeInt 5#64)).bind decodeInt = some (-5#64) := C03_neg_fold _

/-! ## operator precedence and associativity -/
open Morfuse.Lang.Prec Morfuse.Lang.PrecTable in
/-- **C03, precedence and associativity.**  For every assignment of levels to the (left-associative)
    binary operators, the minimal-bracket printing of any expression tree is parsed back to that tree:
    a layout never changes which tree — hence which `Lang.Sem` meaning — an expression has. -/
theorem C03_precedence_roundtrip (lv : Prec.Op → Nat) (e : Prec.PT) :
    Prec.parse lv (Prec.print lv e) = some e :=
  Prec.parse_print lv e

open Morfuse.Lang.Prec Morfuse.Lang.PrecTable in
/-- **C03, precedence (tie to the real grammar).**  Text printed with the language's reference
    precedence is read back to the same tree by a parser that uses the levels declared in
    `yyParser.yy` (regenerated table; all eighteen operators `%left`, same order: `gen_all_left`,
    `gen_order_eq_ref` are re-checked on every run). -/
theorem C03_reference_text_parses (e : Prec.PT) :
    Prec.parse genLv (Prec.print refLv e) = some e := by
  rw [Prec.print_congr refLv genLv gen_iso_ref e]
  exact Prec.parse_print genLv e

open Morfuse.Lang.Prec Morfuse.Lang.PrecTable in
example : Prec.print refLv (.bin .mul (.bin .add (.atom 1) (.atom 2)) (.bin .sub (.atom 3) (.bin .sub (.atom 4) (.atom 5))))
    = [.lp, .atom 1, .op .add, .atom 2, .rp, .op .mul, .lp, .atom 3, .op .sub, .lp, .atom 4, .op .sub, .atom 5, .rp, .rp] := by
  decide

/-! ## equivalent spellings: the grammar's desugarings -/

/-- **C03, compound assignment.**  `a op= b` finishes with exactly the results (state, output, flow,
    or script error) of `a = a op b` — the tree the parser builds for it — for every operator,
    l-value (array elements included: the index expressions are evaluated twice in both), program and state. -/
theorem C03_desugar_compound (prog : Program) (op : BinOp) (lv : LVal) (e : Expr) (fr : Frame) (st : St)
    (res : Res (Flow × Frame × St)) :
    StmtRuns prog (.opassign op lv e) fr st res ↔ StmtRuns prog (.assign lv (.bin op lv.toExpr e)) fr st res :=
  desugar_opassign prog op lv e fr st res

example : StmtRuns [] (.opassign .add (.var .loc "a") (.int 5)) { locals := [("a", .int 2)] } {}
    (.ok (.normal, { locals := [("a", .int 7)] }, {})) := ⟨by simp, 3, by decide⟩

/-- **C03, `++`.**  On an integer `a++` is `a += 1`. -/
theorem C03_desugar_incr (prog : Program) (lv : LVal) (fr : Frame) (st : St)
    (hint : ∀ n va st1, evalExpr prog n lv.toExpr fr st = .ok (va, st1) → ∃ x, va = .int x)
    (res : Res (Flow × Frame × St)) :
    StmtRuns prog (.incr lv) fr st res ↔ StmtRuns prog (.opassign .add lv (.int 1)) fr st res :=
  desugar_incr prog lv fr st hint res

/-- **C03, `--`.**  On an integer `a--` is `a -= 1`. -/
theorem C03_desugar_decr (prog : Program) (lv : LVal) (fr : Frame) (st : St)
    (hint : ∀ n va st1, evalExpr prog n lv.toExpr fr st = .ok (va, st1) → ∃ x, va = .int x)
    (res : Res (Flow × Frame × St)) :
    StmtRuns prog (.decr lv) fr st res ↔ StmtRuns prog (.opassign .sub lv (.int 1)) fr st res :=
  desugar_decr prog lv fr st hint res

/-- **C03, `for`.**  `for (init; c; inc) body` finishes with exactly the results of the statement list
    `init; While(c, body, inc)` the parser builds (`continue` in `body` reaches `inc` in both). -/
theorem C03_desugar_for (prog : Program) (init : List Stmt) (c : Expr) (inc body : List Stmt) (fr : Frame) (st : St)
    (res : Res (Flow × Frame × St)) :
    StmtRuns prog (.for_ init c inc body) fr st res ↔
      StmtRuns prog (.block (init ++ [.while_ c body inc])) fr st res :=
  desugar_for prog init c inc body fr st res

example : StmtRuns [] (.for_ [.assign (.var .loc "i") (.int 0)] (.bin .lt (.var .loc "i") (.int 2)) [.incr (.var .loc "i")] [.cont])
    {} {} (.ok (.normal, { locals := [("i", .int 2)] }, {})) := ⟨by simp, 12, by decide⟩

/-- **C03, `for` as `while`.**  When neither the body nor the increment contains a `continue` that would bind to
    the loop (`freeContL`, the syntactic test the layout generator applies), `for (init; c; inc) body` finishes
    with exactly the results of the source-level spelling `init; while (c) { body; inc }`. -/
theorem C03_desugar_for_while (prog : Program) (init : List Stmt) (c : Expr) (inc body : List Stmt)
    (hB : freeContL body = false) (hI : freeContL inc = false) (fr : Frame) (st : St)
    (res : Res (Flow × Frame × St)) :
    StmtRuns prog (.for_ init c inc body) fr st res ↔
      StmtRuns prog (.block (init ++ [.while_ c (body ++ inc) []])) fr st res :=
  desugar_for_while prog init c inc body hB hI fr st res

example : freeContL [.ite (.var .loc "i") [.brk] [], .print true [.var .loc "i"]] = false := by decide
example : freeContL [.ite (.var .loc "i") [.cont] []] = true := by decide

/-! ## the evaluator is a function of the program: fuel only decides whether it finishes -/

/-- **C03, fuel monotonicity.**  A run that finished (with a result or a script error) gives the same
    answer with any larger amount of fuel. -/
theorem C03_fuel_mono {n m : Nat} (h : n ≤ m) (prog : Program) (label : String) (args : List Val) :
    runProgram n prog label args ≠ .timeout → runProgram m prog label args = runProgram n prog label args :=
  runProgram_mono h prog label args

/-- **C03, determinism.**  Two finished runs of the same program from the same entry with the same
    arguments agree, whatever fuel they were given: `Lang.Sem` assigns at most one behaviour to a program. -/
theorem C03_sem_deterministic (n m : Nat) (prog : Program) (label : String) (args : List Val) :
    runProgram n prog label args ≠ .timeout → runProgram m prog label args ≠ .timeout →
    runProgram n prog label args = runProgram m prog label args :=
  runProgram_deterministic n m prog label args

example : runProgram 6 [.label "main" [], .end_ (some (.bin .add (.int 1) (.int 2)))] "main" [] ≠ .timeout := by decide

end Morfuse.Props.C03
