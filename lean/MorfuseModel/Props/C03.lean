import MorfuseModel.Lang.IntEncLemmas
import MorfuseModel.Lang.PrecTable
import MorfuseModel.Lang.PrecCongr
/-!
# C03 — programs compute what the language rules say (property theorems)
-/
namespace Morfuse.Props.C03
open Morfuse.Lang Morfuse.Lang.IntEnc Morfuse.Gen.IntEnc

/-- **C03, literal values.**  Every 64-bit literal survives the compiler's choice of encoding and the
    VM's decoding: `OP_STORE_INTk` with the bytes `EmitInteger` wrote pushes the value that was written. -/
theorem C03_literal_roundtrip (v : BitVec 64) : decodeInt (encodeInt v) = some v := by
  obtain ⟨k, w, p, he, hlt, hp, hd, _⟩ := encode_spec v
  rw [he, decodeInt, decode_unsigned vmDecoders k w p v.toNat hd hlt hp v.isLt]
  simp

example : decodeInt (encodeInt 65536#64) = some 65536#64 := C03_literal_roundtrip _
example : encodeInt 65536#64 = ⟨3, [0, 0, 1]⟩ := by decide
example : encodeInt 4294967296#64 = ⟨8, [0, 0, 0, 0, 1, 0, 0, 0]⟩ := by decide

/-- **C03, literal values (width).**  The encoding chosen is the smallest the emitter has that can
    hold the value: re-reading the literal from any smaller available width gives a different number. -/
theorem C03_literal_width_minimal (v : BitVec 64) (w : Nat) (hw : w ∈ widths)
    (hlt : w < (encodeInt v).bytes.length) : fromBytes (toBytes v.toNat w) ≠ v.toNat := by
  rw [fromBytes_toBytes]
  have hv : v.toNat < 2 ^ 64 := v.isLt
  simp only [widths, emitBranches, emitElse, List.map, List.cons_append, List.nil_append, List.mem_cons,
    List.not_mem_nil, or_false] at hw
  by_cases h0 : v.toNat = 0
  · simp [encodeInt, emitZeroFirst, h0] at hlt
  · by_cases h1 : v.toNat < 256
    · simp [encodeInt, emitZeroFirst, h0, emitBranches, firstBranch, h1, toBytes_length] at hlt
      omega
    · by_cases h2 : v.toNat < 65536
      · simp [encodeInt, emitZeroFirst, h0, emitBranches, firstBranch, h1, h2, toBytes_length] at hlt
        rcases hw with rfl | rfl | rfl | rfl | rfl <;> omega
      · by_cases h3 : v.toNat < 16777216
        · simp [encodeInt, emitZeroFirst, h0, emitBranches, firstBranch, h1, h2, h3, toBytes_length] at hlt
          rcases hw with rfl | rfl | rfl | rfl | rfl <;> omega
        · by_cases h4 : v.toNat < 4294967296
          · simp [encodeInt, emitZeroFirst, h0, emitBranches, firstBranch, h1, h2, h3, h4, toBytes_length] at hlt
            rcases hw with rfl | rfl | rfl | rfl | rfl <;> omega
          · simp [encodeInt, emitZeroFirst, h0, emitBranches, firstBranch, h1, h2, h3, h4, emitElse, toBytes_length] at hlt
            rcases hw with rfl | rfl | rfl | rfl | rfl <;> omega

example : (encodeInt 255#64).bytes.length = 1 ∧ (encodeInt 256#64).bytes.length = 2 := by decide

/-- **C03, constant folding.**  `-<literal>` folded at compile time (`EmitFunc1`: read the previous
    literal back from the code buffer, negate, emit again) pushes the same value as negating at run time. -/
theorem C03_neg_fold (v : BitVec 64) : (foldNeg (encodeInt v)).bind decodeInt = some (-v) := by
  obtain ⟨k, w, p, he, hlt, hp, _, hd⟩ := encode_spec v
  have h : decodeFold (encodeInt v) = some v := by
    rw [he, decodeFold, decode_unsigned foldDecoders k w p v.toNat hd hlt hp v.isLt]
    simp
  simp [foldNeg, h, C03_literal_roundtrip]

example : (foldNeg (encodeInt 5#64)).bind decodeInt = some (-5#64) := C03_neg_fold _

/-! ## operator precedence and associativity -/
open Morfuse.Lang.Prec Morfuse.Lang.PrecTable in
/-- **C03, precedence and associativity.**  For every assignment of levels to the (left-associative)
    binary operators, the minimal-bracket printing of any expression tree is parsed back to that tree:
    a layout never changes which tree — hence which `Lang.Sem` meaning — an expression has. -/
theorem C03_precedence_roundtrip (lv : Prec.Op → Nat) (e : Prec.PT) :
    Prec.parse lv (Prec.print lv e) = some e :=
  Prec.parse_print lv e

open Morfuse.Lang.Prec Morfuse.Lang.PrecTable in
/-- **C03, precedence (tie to the real grammar).**  Text printed with the language's reference
    precedence is read back to the same tree by a parser that uses the levels declared in
    `yyParser.yy` (regenerated table; all eighteen operators `%left`, same order: `gen_all_left`,
    `gen_order_eq_ref` are re-checked on every run). -/
theorem C03_reference_text_parses (e : Prec.PT) :
    Prec.parse genLv (Prec.print refLv e) = some e := by
  rw [Prec.print_congr refLv genLv gen_iso_ref e]
  exact Prec.parse_print genLv e

open Morfuse.Lang.Prec Morfuse.Lang.PrecTable in
example : Prec.print refLv (.bin .mul (.bin .add (.atom 1) (.atom 2)) (.bin .sub (.atom 3) (.bin .sub (.atom 4) (.atom 5))))
    = [.lp, .atom 1, .op .add, .atom 2, .rp, .op .mul, .lp, .atom 3, .op .sub, .lp, .atom 4, .op .sub, .atom 5, .rp, .rp] := by
  decide

end Morfuse.Props.C03
