import MorfuseModel.VMOps.Lemmas
import MorfuseModel.VMOps.Tables
import MorfuseModel.VMOps.Total
import MorfuseModel.VMOps.VM
/-!
# C04 — script errors are contained: no memory corruption, host keeps control

Property theorems only.  The model is `MorfuseModel/VMOps/*` (value layer of `ScriptVariable`,
error paths of `ScriptVM::Process`), tied to the source by `Gen/OpAccept.lean` (regenerated on every
run) and by the two correspondence runs of `tools/props/c04.py`.  Memory safety of code outside the
model is runtime truth (ASan + hook H2 on the generated programs), not a theorem.
-/
namespace Morfuse.Props.C04
open Morfuse.VMOps Morfuse.Gen

/-! ## no undefined behaviour in any operator / cast / index operation -/

/-- Full strength, for the repaired transcription: no operation of the value layer, on any operand
    kinds, any values and any operand position, ends in undefined behaviour. -/
theorem C04_step_never_ub (op : Op) (args : List Val) : (step Fixes.all op args).isUb = false :=
  Out.fine_all (step_fine Fixes.all op args)

/-- For *any* state of the source: the only undefined behaviours the value layer can execute are
    the seven listed ones, each only while its repair is absent.  (What is missing for full strength
    on an unrepaired tree is exactly `C04_code_is_repaired`.) -/
theorem C04_step_never_ub_partial (fx : Fixes) (op : Op) (args : List Val) (u : Ub)
    (h : step fx op args = .ub u) : u.fixedBy fx = false := by
  have := step_fine fx op args
  rw [h] at this
  exact this

/-- `C04_step_never_ub` for the code as it is now, given that the regenerated repair flags are all
    on.  The hypothesis is discharged per flag by `tools/props/c04.py` on every run (one kernel-checked
    `example : Morfuse.Gen.OpAccept.fix_X = true := by decide` each, reported as the obligations
    "repair present: …"); on a tree where a flag is off the check replays the witnesses below on the real
    code instead. -/
theorem C04_step_never_ub_code (h : codeFixes = Fixes.all) (op : Op) (args : List Val) :
    (step codeFixes op args).isUb = false := by
  rw [h]; exact C04_step_never_ub op args

/-- the seven flags are exactly what `codeFixes = Fixes.all` asks for -/
theorem C04_code_is_repaired_iff :
    codeFixes = Fixes.all ↔ (OpAccept.fix_divMin = true ∧ OpAccept.fix_shiftCount = true ∧ OpAccept.fix_vecDivAlias = true
      ∧ OpAccept.fix_safeContainerBound = true ∧ OpAccept.fix_negIndexStore = true ∧ OpAccept.fix_floatCast = true
      ∧ OpAccept.fix_floatStr = true) := by
  simp [codeFixes, Fixes.all, Fixes.mk.injEq]

/-! Negations on concrete witnesses for the code as first read (each replayed on the real code by
    `tools/props/c04.py` whenever its repair flag is off). -/

/-- D4: `INT64_MIN / -1` (SIGFPE). -/
theorem C04_ub_witness_divMin :
    step Fixes.none (.bin .div) [.int minInt, .int negOne] = .ub .divMin := by rfl
/-- `1 << 64`. -/
theorem C04_ub_witness_shift :
    step Fixes.none (.bin .shl) [.int 1, .int 64] = .ub .shiftCount := by rfl
/-- D14: `vector / vector` re-aims the payload at a static, freed later. -/
theorem C04_ub_witness_vecAlias :
    step Fixes.none (.bin .div) [.vec 0 0 0, .vec 0 0 0] = .ub .vecAlias := by rfl
/-- safe container indexed through `constArrayValue->size`. -/
theorem C04_ub_witness_wrongUnion :
    step Fixes.none .evalAt [.scont (some [none]), .int 1] = .ub .wrongUnion := by rfl
/-- `"abc"[-1] = "x"`: heap write before the string buffer. -/
theorem C04_ub_witness_negIndex :
    step Fixes.none .setAt [.ref (.str [97, 98, 99]), .int negOne, .chr 120] = .ub .negIndexStore := by rfl

/-! non-vacuity: the operations do produce values and typed errors -/
example : step Fixes.all (.bin .div) [.int minInt, .int negOne] = .ok (.int minInt) := by rfl
example : step Fixes.all (.bin .div) [.int 7, .int 0] = .err .divideByZero (.int 7) := by rfl
example : step Fixes.all (.bin .add) [.int 7, .nil] = .err .incompatibleOperator .nil := by rfl
example : step Fixes.all .evalAt [.carr [.int 1], .int 2] = .err .typeIndexOutOfRange (.carr [.int 1]) := by rfl
example : (step Fixes.none (.bin .div) [.int minInt, .int negOne]).isUb = true := by rfl

/-! ## the hand model dispatches exactly like the source (regenerated tables) -/

/-- For every binary operator the accepted `(left kind, right kind)` pairs of the model are the
    `case uint32_t(L + R * Max)` labels of the C++ member. -/
theorem C04_accept_tables_match :
    BinOp.all.all (fun op => sameSet (acceptTbl op) (genPairs op.cppName)) = true := by decide

/-- The `switch (type)` members are transcribed with the same case grouping as the source, and
    `operator=` has the recorded plain-copy pairs. -/
theorem C04_kind_tables_match :
    kindTbl.all (fun e => OpAccept.kindCases.lookup e.1 == some e.2) = true
    ∧ sameSet assignPlainPairs (genPairs "operator=") = true
    ∧ OpAccept.kindNames = ["None", "String", "Integer", "Float", "Char", "ConstString", "Listener", "Ref",
        "Array", "ConstArray", "Container", "SafeContainer", "Pointer", "Vector"]
    ∧ OpAccept.typeNames = Kind.all.map Kind.typeName := by decide

/-- Every accepted pair has a transcribed body, for all values: `binImpl` never falls into its
    `badop` filler on an accepted pair (so a `case` added to the source cannot go unmodelled). -/
theorem C04_accepted_pairs_implemented (fx : Fixes) (op : BinOp) (a b : Val)
    (h : accepts op a.kind b.kind = true) : binImpl fx op a b ≠ .badop :=
  binImpl_total fx op a b h

/-! ## every error is a script warning class, never a foreign `std::exception` -/

/-- Every error the value layer raises is a class derived from `ScriptExceptionBase` (regenerated
    hierarchy), it is one of the classes the anchored files really `throw`, and `ScriptVM::Execute`
    handles it in the clause that writes a warning and continues. -/
theorem C04_error_is_typed :
    Err.all.all (fun e => isWarningClass e.className && OpAccept.thrown.contains e.className
      && executeHandler e.className == some "continue") = true
    ∧ (∀ e : Err, e ∈ Err.all) := by
  refine ⟨by decide, fun e => by cases e <;> decide⟩

/-- Every `throw` of the run-time files is a warning class or one of the documented abort classes;
    nothing else can leave `ScriptVM::Execute`, and the catch clauses are the three modelled ones. -/
theorem C04_thrown_classes_are_script_classes :
    OpAccept.thrown.all (fun c => isWarningClass c || isAbortClass c) = true
    ∧ OpAccept.executeCatches = [("ScriptVMErrors::CommandOverflow", "rethrow-if-drop"),
        ("ScriptExceptionBase", "continue"), ("std::exception", "rethrow")]
    ∧ OpAccept.thrown.all (fun c => isWarningClass c → executeHandler c == some "continue") = true := by decide

example : isWarningClass "ScriptVariableErrors::TypeIndexOutOfRange" = true := by decide
example : isWarningClass "OutOfRangeContainerException" = false := by decide
example : executeHandler "ScriptVMErrors::StackError" = some "rethrow" := by decide

/-! ## a script error is confined to the instruction that raised it -/

/-- The reader translated every opcode case, the normal path of every opcode agrees with
    `OpcodeInfo[]` (one documented exception), every opcode of the enum that `Process` handles has a
    case, and the `catch (...)` blocks consist of the recognised statements only — they touch this
    VM's own operand stack and code pointer and rethrow, nothing else. -/
theorem C04_vm_model_matches_tables :
    OpAccept.vmActProblems = []
    ∧ OpAccept.vmActs.all (fun e => VM.tableExceptions.contains e.1 || VM.matchesTable e.1 e.2) = true
    ∧ OpAccept.opcodes.all (fun o => ["OP_BOOL_TO_VAR", "OP_END", "OP_RETURN"].contains o.1
        || (OpAccept.vmActs.lookup o.1).isSome) = true
    ∧ OpAccept.vmCatchStatements.all (fun s => ["ScriptVariable* const pTop = m_Stack.GetTopPtr()",
        "m_Stack.GetTop().Clear()", "m_Stack.Pop()", "m_Stack.Pop(params)", "pTop->setRefValue(pTop)",
        "skipField()", "throw", "if constexpr (!noTop) m_Stack.Pop()"].contains s) = true := by decide

/-- Checked on the regenerated error-path terms of all opcodes. -/
theorem C04_error_confined_check : OpAccept.vmActs.all VM.confinedEntry = true := by decide

/-- **Confinement.**  For every opcode of `ScriptVM::Process` and every way its C++ can end by
    throwing (cast error, incompatible operator, index out of range, NULL / NIL receiver, failing
    command, …): the operand stack height and the code position are those of a fall-through
    execution of the same instruction — `ScriptVM::Execute` writes the warning and resumes at the next
    instruction with the stack that instruction expects — and the thread was neither ended nor
    redirected. -/
theorem C04_error_confined (name : String) (act : OpAccept.Act) (h : (name, act) ∈ OpAccept.vmActs)
    (r : VM.Kind × VM.Eff) (hr : r ∈ VM.outcomes act) (hk : r.1 = .raised) :
    (∃ f ∈ VM.fallThrough (VM.outcomes act), r.2.sig = f.sig) ∧ r.2.jumped = false ∧ r.2.stopped = false :=
  VM.confined_sound ((List.all_eq_true.mp C04_error_confined_check) (name, act) h) r hr hk

/-- Frame: finishing an instruction of thread `i` (normally or with a script error) leaves every other
    thread's position and stack as they were.  (By construction of the model; its justification in the
    source is the catch-statement clause of `C04_vm_model_matches_tables`.) -/
theorem C04_other_threads_untouched (ts : List VM.Thread) (i j : Nat) (N : Int) (e : VM.Eff) (hij : j ≠ i) :
    (VM.finish ts i N e)[j]? = ts[j]? := by
  unfold VM.finish
  rw [List.getElem?_modify]
  simp [Ne.symm hij]

/-- The slot that `OP_STORE_ARRAY_REF` / `OP_LOAD_ARRAY_VAR` dereference as `m_data.refValue` holds a
    reference after every outcome of the instructions that `EmitRef` puts before them (field access
    by variable, by getter, or failed; any number of `[index]` steps, each succeeding or failing). -/
theorem C04_ref_discipline (e : VM.FieldRefEnd) (n : Nat) : VM.chain true e n = some .ref := by
  induction n with
  | zero => cases e <;> rfl
  | succ n ih => simp [VM.chain, ih, VM.useRef]

/-- The code as first read: `local.owner[1] = 5` applies `setArrayAt` to the getter's value. -/
theorem C04_ref_witness_getter : VM.chain false .getter 1 = none := by rfl

example : VM.confined false (.seq (.push 1 0) (.branch (.seq (.push 1 0) .throw) .nop)) = false := by decide
example : (OpAccept.vmActs.any fun e => (VM.outcomes e.2).any (·.1 == .raised)) = true := by decide

end Morfuse.Props.C04
