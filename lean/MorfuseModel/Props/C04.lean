import MorfuseModel.VMOps.Step
import MorfuseModel.Gen.OpAccept
namespace Morfuse.Props.C04
open Morfuse.VMOps

/-- placeholder while the correspondence is brought up -/
theorem C04_placeholder : Fixes.all ≠ Fixes.none := by decide

end Morfuse.Props.C04
