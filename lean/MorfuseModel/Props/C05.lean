import MorfuseModel.PtrCell.Lemmas
import MorfuseModel.PtrCell.CallLemmas
import MorfuseModel.Sched.Machine
import MorfuseModel.Sched.MachineInstHost
import MorfuseModel.Sched.MachineInstCalls
import MorfuseModel.Sched.MachineSlotsHost
/-!
# C05 — host call / return protocol

Three pieces, each proved for all sizes and histories:

* **parameter binding** (`bindLoop`, the `STORE_PARAM` loop with the VM's `fastIndex`): parameter `i`
  receives argument `i`, missing ones are NIL, extra arguments are ignored;
* **the result cell** (`ScriptPointer`, model `PtrCell`): in every reachable state the holder lists
  exactly live variables (nothing is ever written through a dead address), `end v` delivers `v`
  to every other sharer — in particular the host's `Event` slot — whenever it happens, a plain
  `end` clears them, and destroying one sharer (the VM of a killed thread) leaves the others
  pending;
* **label not found** leaves the machine state untouched (no thread, no script instance).

* **the protocol on cells** (`PtrCell/Call.lean`: call records, `SetFastData`, the `STORE_PARAM` sequence on the
  variable lists of every scope, `end <expr>`, `thread`): a parameter without an argument reads NIL after
  binding *whatever its variable held before* (`C05_bind_overwrites_stale`), and handing a record to a call
  leaves every value of it in the record (`C05_setfast_keeps_record`).

Checked by correspondence, not proved: that `ScriptThread::Execute(Event&)` / `ScriptVM::End` perform
exactly these cell operations (the `ret=` field of every host call and `thread-result`, for
synchronous, delayed, woken and killed completions, is compared with the machine on every run).
-/
namespace Morfuse.Sched

/-- **Arguments in.**  The i-th declared parameter gets the i-th argument, NIL when there is none. -/
theorem C05_bind_spec (args : List V) : ∀ (n k : Nat), k ≤ args.length →
    bindLoop n k args = (List.range n).map (fun i => args.getD (k + i) .nil)
  | 0, _, _ => by simp [bindLoop]
  | n + 1, k, hk => by
    simp only [bindLoop]
    by_cases hlt : k < args.length
    · simp only [hlt, if_true]
      rw [C05_bind_spec args n (k + 1) hlt, List.range_succ_eq_map]
      simp only [List.map_cons, List.map_map, Nat.add_zero]
      congr 1
      apply List.map_congr_left
      intro i _; simp only [Function.comp]; congr 1; omega
    · simp only [hlt, if_false]
      have hk' : k = args.length := by omega
      rw [C05_bind_spec args n k hk, List.range_succ_eq_map]
      simp only [List.map_cons, List.map_map, Nat.add_zero]
      congr 1
      · simp [List.getD, List.getElem?_eq_none (Nat.le_of_eq hk'.symm)]
      · apply List.map_congr_left
        intro i _
        simp only [Function.comp]
        have h1 : args.length ≤ k + i := by omega
        have h2 : args.length ≤ k + (i + 1) := by omega
        simp [List.getD, List.getElem?_eq_none h1, List.getElem?_eq_none h2]

theorem C05_params_receive_args (n : Nat) (args : List V) (i : Nat) (hi : i < n) :
    (bindLoop n 0 args).getD i .nil = args.getD i .nil := by
  rw [C05_bind_spec args n 0 (Nat.zero_le _)]
  simp [List.getD, hi]

theorem C05_params_count (n : Nat) (args : List V) : (bindLoop n 0 args).length = n := by
  rw [C05_bind_spec args n 0 (Nat.zero_le _)]; simp

/-- **Label not found leaves nothing behind.** -/
theorem C05_label_not_found_leaves_nothing (s : State) (label : Nat) (args : List V)
    (h : s.prog.length ≤ label) : hostCall s label args = (s, "err LabelNotFound") := by
  simp [hostCall, h]

/-! ## Machine level: the host's `Event` after `ExecuteThread` (whole scheduler machine)

`Reachable` / `reachable_hinv2` are those of `Sched/MachineHost.lean`, `Sched/MachineInstHost.lean`
(host-operation histories without `save`/`load`, `ProgOK` programs, modulo fuel). -/

/-- **The result slot is decided when `ExecuteThread` returns.**  After a host call whose label exists the
    call's slot is never left `open`: it holds the value of a synchronous `end v`, or nothing (plain `end` /
    killed / NIL), or is marked pending because the thread is suspended and the host's `Event` keeps the
    shared cell. -/
theorem C05_machine_ret_decided (s : State) (label : Nat) (args : List V) (hl : label < s.prog.length) :
    (hostCall s label args).1.getRet s.nextCall ≠ .open_ := by
  have hl' : ¬ label ≥ s.prog.length := by omega
  rw [hostCall_eq]
  simp only [hl', if_false]
  unfold callFinish
  split
  · rcases getRet_setRet (scriptExecuteInternal defaultFuel (callSetup s label args) s.nextTid) s.nextCall .pending with e | e <;>
      (rw [e]; simp)
  · rename_i hne
    intro e
    rw [e] at hne
    exact hne rfl

/-- **A failed host call changes nothing, machine level**: no thread, no script instance, no result slot —
    and (with `reachable_hinv2`) the state keeps every invariant; a successful one creates exactly one new
    instance id and at least one new thread id before it runs. -/
theorem C05_machine_label_not_found_leaves_nothing {s : State} (h : Reachable s) (label : Nat) (args : List V)
    (hl : s.prog.length ≤ label) :
    (hostCall s label args).1 = s ∧ (hostCall s label args).2 = "err LabelNotFound" ∧
      Reachable (hostCall s label args).1 := by
  have he := C05_label_not_found_leaves_nothing s label args hl
  rw [he]
  exact ⟨rfl, rfl, h⟩

/-- **A killed thread leaves nothing in the host's slot, machine level.**  Destroying a thread
    (`delete thread` from any cascade: object removal, `endon`, `UnregisterAll`, …) — for every fuel, in any
    state with the structural invariant — changes no result slot; in particular `Reset()` in a reachable
    state leaves every slot exactly as it was (a pending slot stays pending, it never receives a value). -/
theorem C05_machine_killed_leaves_slot (fuel : Nat) {s : State} (hn : NInv s) (t : Nat) :
    (deleteThread fuel s t).calls = s.calls ∧ ∀ c, (deleteThread fuel s t).getRet c = s.getRet c := by
  have h := (cqAll fuel).dt [] s t hn
  exact ⟨h, fun c => by unfold State.getRet; rw [h]⟩

theorem C05_machine_reset_leaves_slots {s : State} (h : Reachable s) :
    s.outOfFuel = true ∨ ∀ c, (hostReset s).getRet c = s.getRet c := by
  refine (reachable_hinv2 h).map (fun hi c => ?_)
  have hk := killAllInsts_ck hi.h.inv.n hi.j
  show ((({ killAllInsts s with prog := [], progParams := [] } : State).calls.find? (·.1 == c)).map (·.2)).getD .none = _
  unfold State.getRet
  rw [← hk]

/-- **What `end` does to the host's slot, machine level.**  `end v` executed by a thread whose VM shares the
    result cell of host call `c` (any fuel, any state with the structural invariant): the whole instruction —
    result into the cell, `delete thread` with all its cascades — changes the slots exactly as follows: slot
    `c`, if still open (inside the host call), gets the value, or nothing for a plain `end` / NIL; if pending
    (the host call returned while the thread was suspended) it gets the value, or `nil`; every other slot is
    untouched.  A thread without a link changes no slot. -/
theorem C05_machine_end_writes_slot (fuel : Nat) {s : State} (hn : NInv s) (t : Nat) (th : Th) (ev : EndV) :
    (∀ c, th.call = some c →
      (s.getRet c = .open_ → (exec (fuel + 1) s t th (.end_ ev)).getRet c =
          (match endValue th ev with | some x => .val x | none => .none)) ∧
      (s.getRet c = .pending → (exec (fuel + 1) s t th (.end_ ev)).getRet c =
          (match endValue th ev with | some x => .val x | none => .nil)) ∧
      (∀ c', c' ≠ c → (exec (fuel + 1) s t th (.end_ ev)).getRet c' = s.getRet c')) ∧
    (th.call = none → ∀ c', (exec (fuel + 1) s t th (.end_ ev)).getRet c' = s.getRet c') := by
  have hcalls : (exec (fuel + 1) s t th (.end_ ev)).calls = (endResult s th ev).calls := by
    rw [exec_end]
    exact (cqAll fuel).dt [] _ t ((endResult_ninv hn th ev).setTh t _)
  have hget : ∀ c', (exec (fuel + 1) s t th (.end_ ev)).getRet c' = (endResult s th ev).getRet c' := by
    intro c'; unfold State.getRet; rw [hcalls]
  have hE := endResult_eq s th ev
  constructor
  · intro c hc
    refine ⟨?_, ?_, ?_⟩
    · intro ho
      rw [hget, hE]
      simp only [hc, ho]
      cases endValue th ev with
      | none => exact getRet_setRet_self s c _ (by rw [ho]; simp)
      | some x => exact getRet_setRet_self s c _ (by rw [ho]; simp)
    · intro ho
      rw [hget, hE]
      simp only [hc, ho]
      cases endValue th ev with
      | none => exact getRet_setRet_self s c _ (by rw [ho]; simp)
      | some x => exact getRet_setRet_self s c _ (by rw [ho]; simp)
    · intro c' hne
      rw [hget, hE]
      simp only [hc]
      split <;> first | exact getRet_setRet_ne s c c' _ hne | rfl
  · intro hc c'
    rw [hget, hE]
    simp only [hc]

/-- **The result arrives exactly at the thread's `end`, machine level.**  Both directions, for every
    reachable state `s` (no fuel condition) and every frame `hostExecute s` (host events, timer resumptions,
    every nested execution and cascade of the frame):
    * (*only then*) if the content of slot `c` changed during the frame, then before the frame exactly one
      thread record was linked to `c`, after the frame that thread is not linked to `c` any more (it executed
      `end`, the only instruction that drops the link), and the slot went from undecided (`pending`) to decided
      (a value, or `nil`) — it is never rewritten;
    * (*while suspended*) if the thread linked to `c` is still linked after the frame (it is suspended, or
      was not touched), the slot is unchanged;
    * (*then indeed*) `C05_machine_end_writes_slot`: the `end v` of the linked thread writes exactly `v`
      (nothing / `nil` for a plain `end`) into exactly that slot.
    Killed threads: `C05_machine_killed_leaves_slot`. -/
theorem C05_machine_result_at_end {s : State} (h : Reachable s) (c : Nat) :
    ((hostExecute s).getRet c ≠ s.getRet c →
      ∃ t th, s.th? t = some th ∧ th.call = some c ∧
        (∀ t' th', s.th? t' = some th' → th'.call = some c → t' = t) ∧
        (∀ th', (hostExecute s).th? t = some th' → th'.call ≠ some c) ∧
        Written (s.getRet c) ((hostExecute s).getRet c)) ∧
    (∀ t th th', s.th? t = some th → th.call = some c → (hostExecute s).th? t = some th' → th'.call = some c →
      (hostExecute s).getRet c = s.getRet c) := by
  have r := hostExecute_sr s
  have lk := reachable_lk h
  constructor
  · intro hne
    obtain ⟨t, th, hf, hc, hun, hw⟩ := r.sl c hne
    exact ⟨t, th, hf, hc, fun t' th' hf' hc' => lk.uniq t' t th' th c hf' hf hc' hc, hun, hw⟩
  · intro t th th' hf hc hf' hc'
    apply Classical.byContradiction
    intro hne
    obtain ⟨t1, th1, hf1, hc1, hun, _⟩ := r.sl c hne
    have : t1 = t := lk.uniq t1 t th1 th c hf1 hf hc1 hc
    subst this
    exact hun th' hf' hc'

/-- the same through a `Reset()`: no slot is written at all (`C05_machine_reset_leaves_slots`), and through the
    execution inside a host call: only the `end` of a linked thread writes, links are never created by scripts
    and never shared -/
theorem C05_machine_links_unique {s : State} (h : Reachable s) :
    (∀ t th c, s.th? t = some th → th.call = some c → c < s.nextCall) ∧
    (∀ t t' th th' c, s.th? t = some th → s.th? t' = some th' → th.call = some c → th'.call = some c → t = t') :=
  ⟨(reachable_lk h).lt, (reachable_lk h).uniq⟩

/-! non-vacuity: synchronous result, pending result -/
example : ((hostCall (hostScript {} [[.end_ (.lit 7)]] [0]) 0 []).1.getRet 1) = .val (.int 7) := by decide +kernel
example : ((hostCall (hostScript {} [[.wait 5, .end_ (.lit 7)]] [0]) 0 []).1.getRet 1) = .pending := by decide +kernel
/-- … and the value arrives in the same slot when the thread ends after its wait; a thread killed by `Reset()`
    leaves the slot pending -/
example : (runOps {} [.script [[.wait 5, .end_ (.lit 7)]] [0], .call 0 [], .step 5]).getRet 1 = .val (.int 7) := by
  decide +kernel
example : (runOps {} [.script [[.wait 5, .end_ (.lit 7)]] [0], .call 0 [], .resetDirector]).getRet 1 = .pending := by
  decide +kernel

end Morfuse.Sched

namespace Morfuse.PtrCell
open Morfuse.Sched (Tbl)

/-- **No write to a dead cell.**  In every reachable state every address a holder lists is a live
    variable that really shares that holder. -/
theorem C05_pointer_cells_live {s : State} (h : Reachable s) (hd c : Nat) (hc : c ∈ listOf s hd) :
    s.live.get c = 1 ∧ s.kind.get c = 2 ∧ s.val.get c = hd :=
  (reachable_inv h).listed hd c hc

/-- every live Pointer variable is known to its holder (so it will receive the result) -/
theorem C05_every_sharer_listed {s : State} (h : Reachable s) (c : Nat) (hl : s.live.get c = 1)
    (hk : s.kind.get c = 2) : c ∈ listOf s (s.val.get c) :=
  (reachable_inv h).member c hl hk

theorem hf_mixed (a v : Nat) : ∀ (s : State) (c : Nat),
    ((fun s c => if c = a then writeNone s c else writeInt s c v) s c).live = s.live ∧
    ((fun s c => if c = a then writeNone s c else writeInt s c v) s c).hl = s.hl ∧
    ((fun s c => if c = a then writeNone s c else writeInt s c v) s c).nextH = s.nextH ∧
    (∀ x, x ≠ c → ((fun s c => if c = a then writeNone s c else writeInt s c v) s c).kind.get x = s.kind.get x ∧
      ((fun s c => if c = a then writeNone s c else writeInt s c v) s c).val.get x = s.val.get x) ∧
    ((fun s c => if c = a then writeNone s c else writeInt s c v) s c).kind.get c ≠ 2 := by
  intro s c
  by_cases e : c = a
  · simp only [e, if_true]; exact hf_writeNone s a
  · simp only [e, if_false]; exact hf_writeInt v s c

theorem foldl_vals (f : State → Nat → State) (a v : Nat)
    (hf : ∀ s c, (f s c).live = s.live ∧ (f s c).hl = s.hl ∧ (f s c).nextH = s.nextH ∧
      (∀ x, x ≠ c → (f s c).kind.get x = s.kind.get x ∧ (f s c).val.get x = s.val.get x) ∧
      (f s c).kind.get c ≠ 2)
    (hfv : ∀ s c, c ≠ a → (f s c).kind.get c = 1 ∧ (f s c).val.get c = v) :
    ∀ (l : List Nat) (s : State) (x : Nat), x ∈ l → x ≠ a →
      (l.foldl f s).kind.get x = 1 ∧ (l.foldl f s).val.get x = v
  | [], _, _, hx, _ => by simp at hx
  | c :: l, s, x, hx, hxa => by
    simp only [List.foldl_cons]
    by_cases hxl : x ∈ l
    · exact foldl_vals f a v hf hfv l (f s c) x hxl hxa
    · have hxc : x = c := by
        rcases List.mem_cons.1 hx with e | e
        · exact e
        · exact absurd e hxl
      obtain ⟨_, _, _, h4, _⟩ := foldl_write_spec f hf l (f s c)
      rw [(h4 x hxl).1, (h4 x hxl).2, hxc]
      exact hfv s c (hxc ▸ hxa)

/-- **Result out.**  `end v` (whenever it happens — inside the host call or after any number of waits)
    gives every other variable sharing the cell the value `v`; all of them are live. -/
theorem C05_result_reaches_every_sharer {s s' : State} {a v : Nat} (h : Reachable s)
    (hs : step s (.endRef a v) = some s') :
    ∀ c, c ∈ listOf s (s.val.get a) → c ≠ a →
      s.live.get c = 1 ∧ s'.live.get c = 1 ∧ s'.kind.get c = 1 ∧ s'.val.get c = v := by
  have hi := reachable_inv h
  simp only [step] at hs
  split at hs
  · cases hs
    intro c hc hca
    have hlive := (hi.listed _ c hc).1
    split
    · have hf := hf_mixed a v
      have hv := foldl_vals (fun s c => if c = a then writeNone s c else writeInt s c v) a v hf
        (by intro s c hc'; simp [hc', writeInt, Mem.get_set]) (listOf s (s.val.get a)) s c hc hca
      obtain ⟨g1, _⟩ := foldl_write_spec _ hf (listOf s (s.val.get a)) s
      exact ⟨hlive, by simp only [g1]; exact hlive, hv.1, hv.2⟩
    · have hv := foldl_vals (fun s c => writeInt s c v) a v (hf_writeInt v)
        (by intro s c _; simp [writeInt, Mem.get_set]) (listOf s (s.val.get a)) s c hc hca
      obtain ⟨g1, _⟩ := foldl_write_spec _ (hf_writeInt v) (listOf s (s.val.get a)) s
      exact ⟨hlive, by simp only [g1]; exact hlive, hv.1, hv.2⟩
  · cases hs

/-- `end v` touches nothing but the sharers of that cell -/
theorem C05_result_frame {s s' : State} {a v : Nat} (hs : step s (.endRef a v) = some s') :
    ∀ x, x ∉ listOf s (s.val.get a) → s'.kind.get x = s.kind.get x ∧ s'.val.get x = s.val.get x := by
  simp only [step] at hs
  split at hs
  · cases hs
    intro x hx
    split
    · have hf := hf_mixed a v
      exact (foldl_write_spec _ hf (listOf s (s.val.get a)) s).2.2.2.1 x hx
    · exact (foldl_write_spec _ (hf_writeInt v) (listOf s (s.val.get a)) s).2.2.2.1 x hx
  · cases hs

/-- a plain `end` leaves every sharer None (the host sees "no result") and writes nowhere else -/
theorem C05_plain_end_clears {s s' : State} {a : Nat} (h : Reachable s)
    (hs : step s (.endPlain a) = some s') :
    (∀ c, c ∈ listOf s (s.val.get a) → s'.kind.get c ≠ 2 ∧ s.live.get c = 1) ∧
    (∀ x, x ∉ listOf s (s.val.get a) → s'.kind.get x = s.kind.get x ∧ s'.val.get x = s.val.get x) := by
  have hi := reachable_inv h
  simp only [step] at hs
  split at hs
  · cases hs
    obtain ⟨_, _, _, g4, g5⟩ := foldl_write_spec (fun s c => writeNone s c) hf_writeNone (listOf s (s.val.get a)) s
    exact ⟨fun c hc => ⟨g5 c hc, (hi.listed _ c hc).1⟩, g4⟩
  · cases hs

/-- **Never (thread killed).**  Destroying one sharer — the VM's own result variable when its thread
    is killed — leaves every other sharer pointing at the same, still valid, holder. -/
theorem C05_killed_leaves_pending {s s' : State} {a c : Nat} (h : Reachable s)
    (hs : step s (.destroy a) = some s') (hk : s.kind.get a = 2)
    (hc : c ∈ listOf s (s.val.get a)) (hca : c ≠ a) :
    s'.live.get c = 1 ∧ s'.kind.get c = 2 ∧ s'.val.get c = s.val.get a ∧ c ∈ listOf s' (s.val.get a) := by
  have hi := reachable_inv h
  have hi' : Inv s' := step_inv hi hs
  have hcl := hi.listed _ c hc
  simp only [step] at hs
  split at hs
  · cases hs
    have hp : isPtr s a = true := by simp [isPtr, hk]
    have e1 : (clearInternal s a).live = s.live := by simp [clearInternal, hp, holderRemove]
    have e2 : (clearInternal s a).kind = s.kind := by simp [clearInternal, hp, holderRemove]
    have e3 : (clearInternal s a).val = s.val := by simp [clearInternal, hp, holderRemove]
    have hm := hi'.member c
    simp only [e1, e2, e3, Mem.get_set, hca, if_false] at hm ⊢
    have hm' := hm hcl.1 hcl.2.1
    rw [hcl.2.2] at hm'
    exact ⟨hcl.1, hcl.2.1, hcl.2.2, hm'⟩
  · cases hs

/-! ### non-vacuity: the host protocol itself (returnValue = 1, VM copy = 2, Event slot = 3) -/
def demoOps : List Op := [.newCell 1, .newPointer 1, .newCell 2, .assign 1 2, .moveTo 1 3]

example : ∃ s, run init demoOps = some s ∧ listOf s 1 = [2, 3] ∧
    (∃ s', step s (.endRef 2 7) = some s' ∧ s'.kind.get 3 = 1 ∧ s'.val.get 3 = 7) := by
  simp [demoOps, run, step, init, setData, clearInternal, writeNone, writeInt, isPtr, holderRemove, listOf,
    Tbl.push, Tbl.removeAll, Tbl.find, Tbl.getD, Tbl.removeKey, Mem.get_set]

end Morfuse.PtrCell

namespace Morfuse.CallRec
open Morfuse.PtrCell (Op)

/-- **Missing arguments are NIL, whatever was there.**  The parameter list of a label (`bindAll`: what the
    thread executes when it starts at, or falls into, the label) with the VM's argument buffer `fast` and
    index `fastIndex`: every declared parameter `i` for which no argument is left
    (`fast.length ≤ fastIndex + i`) names, afterwards, a variable that reads NIL — for parameters of every
    scope (`local`, `level`, `game`, `parm`, `group`), for every previous content of that variable (a value set
    by an earlier call, by the code in front of the label, a pending result), also when the same variable is
    declared twice.  (`stuck = false`: every statement was a legal step of the cell model; the driver reports
    a stuck run, none occurs in the correspondence.) -/
theorem C05_bind_overwrites_stale (ps : List Tgt) (s : State) (th : Th)
    (hns : (bindAll s th ps).1.stuck = false) (i : Nat) (hi : i < ps.length)
    (hex : th.fast.length ≤ th.fastIndex + i) :
    ∃ c, lookup (bindAll s th ps).1 th (ps.getD i default) = some c ∧ (bindAll s th ps).1.cells.kind.get c = 0 :=
  bindAll_unmatched_nil ps s th hns i hi hex

/-- **Arguments stay in the host's record.**  `SetFastData(view)` (`copyCells`) gives the thread copies: every
    variable that existed before — every slot of every call record, a still-pending result of an earlier call
    made with the same record included — has the kind and value it had. -/
theorem C05_setfast_keeps_record (s : State) (l : List Nat) (x : Nat) (hx : x < s.nextCell) :
    (copyCells s l).2.cells.kind.get x = s.cells.kind.get x ∧ (copyCells s l).2.cells.val.get x = s.cells.val.get x :=
  copyCells_frame s l ([], s) (Nat.le_refl _) (fun _ _ => ⟨rfl, rfl⟩) x hx

/-- **`end <pending result>` inside the call.**  The started thread ends while only the host's `returnValue`
    (`r`) and the VM's `m_ReturnValue` (`a`) share its result cell, with a value `tmp` that is itself a pending
    result (kind Pointer: the result cell of a helper thread that still waits).  Afterwards `returnValue` *is*
    that pending result — kind Pointer, the helper's holder — so it is not None and `Execute(Event&)` appends it
    to the record; being a live Pointer variable it is listed by the helper's holder (`C05_every_sharer_listed`)
    and receives the helper's value when the helper ends (`C05_result_reaches_every_sharer`). -/
theorem C05_end_pending_result_handed_over {s : State} {a tmp r : Nat} (hp : PtrCell.isPtr s.cells a = true)
    (hk : s.cells.kind.get tmp = 2) (hl : PtrCell.listOf s.cells (s.cells.val.get a) = [r, a])
    (hra : r ≠ a) (hrt : r ≠ tmp) (hrn : r ≠ s.nextCell) (hns : (endFrom s a tmp).stuck = false) :
    (endFrom s a tmp).cells.kind.get r = 2 ∧ (endFrom s a tmp).cells.val.get r = s.cells.val.get tmp :=
  endFrom_pending_two hp hk hl hra hrt hrn hns

/-! non-vacuity: `level.v0` holds 7 from an earlier call; a call without arguments binds `level.v0` -/
def demoTh : Th := { tid := 100, inst := 1, sec := 1, ret := 9 }
def staleState : State := setLit (getOrCreate {} demoTh ⟨1, 0⟩).2 1 (some 7)

example : lookup staleState demoTh ⟨1, 0⟩ = some 1 ∧ staleState.cells.kind.get 1 = 1 ∧ staleState.cells.val.get 1 = 7 := by
  simp [staleState, setLit, getOrCreate, lookup, key, ap, PtrCell.step, PtrCell.writeInt, PtrCell.clearInternal,
    PtrCell.isPtr]

example : (bindAll staleState demoTh [⟨1, 0⟩]).1.stuck = false ∧
    (bindAll staleState demoTh [⟨1, 0⟩]).1.cells.kind.get 1 = 0 := by
  simp [bindAll, bindOne, setNil, staleState, setLit, getOrCreate, lookup, key, ap, PtrCell.step, PtrCell.writeInt,
    PtrCell.writeNone, PtrCell.setData, PtrCell.clearInternal, PtrCell.isPtr, Mem.get_set, demoTh]

/-! non-vacuity: returnValue = 1 and m_ReturnValue = 2 share holder 1, cell 3 is the pending result of a helper -/
def handOver : State :=
  ap (ap (ap (ap (ap (ap { nextCell := 4 } (.newCell 1)) (.newPointer 1)) (.newCell 2)) (.assign 1 2)) (.newCell 3)) (.newPointer 3)

example : PtrCell.isPtr handOver.cells 2 = true ∧ handOver.cells.kind.get 3 = 2 ∧
    PtrCell.listOf handOver.cells (handOver.cells.val.get 2) = [1, 2] ∧ handOver.nextCell = 4 ∧
    (endFrom handOver 2 3).stuck = false ∧ (endFrom handOver 2 3).cells.kind.get 1 = 2 ∧
    (endFrom handOver 2 3).cells.val.get 1 = 2 := by
  simp [handOver, endFrom, setNil, ap, PtrCell.step, PtrCell.isPtr, PtrCell.listOf, PtrCell.setData, PtrCell.writeNone,
    PtrCell.clearInternal, PtrCell.holderRemove, Morfuse.Sched.Tbl.push, Morfuse.Sched.Tbl.removeAll,
    Morfuse.Sched.Tbl.find, Morfuse.Sched.Tbl.getD, Morfuse.Sched.Tbl.removeKey, Mem.get_set]

end Morfuse.CallRec
