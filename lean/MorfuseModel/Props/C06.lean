import MorfuseModel.Sched.TimerLemmas
import MorfuseModel.Sched.Machine
import MorfuseModel.Sched.MachineHostProps
import MorfuseModel.Sched.TimerRun
import MorfuseModel.Sched.MachineTimerTraceHost
import MorfuseModel.Sched.TimerOrder
/-!
# C06 — timed waits: never early, earliest first, exactly once

The timer (`con::timer`) is the only place where timed waits live: `wait d` stores
`scaledTime + d` (`addTiming`), and the only way a timed thread runs again is by being returned by
`GetNextElement` inside `ExecuteRunning`'s loop.  The theorems below are about **every** history of
timer operations (adds and removes performed by arbitrary script code between two `next` calls,
time updates by the host), with no bound on the number of threads or operations.

What the theorems do not cover and the correspondence run (tools/props/c06.py) checks instead: that
the engine performs exactly these timer operations (the scheduler machine `Sched.Machine` predicts
the order of every marker printed by generated programs under generated frame schedules), the
`busy while waiting` clause (`IsIdle`, compared after every command), and `scaledTime = m_time`
under the stated clock discipline.
-/
namespace Morfuse.Sched

/-- **Never early.**  Whatever the history, an element is only ever returned (its thread resumed)
    at a time `m_time ≥ due`; with `due = scaledTime + d` that is "not before a frame whose time is
    `≥ t + d`". -/
theorem C06_never_early (ops : List TOp) :
    ∀ x ∈ (TRun.run {} ops).returned, x.1.2 ≤ x.2 := by
  suffices h : ∀ (r : TRun), (∀ x ∈ r.returned, x.1.2 ≤ x.2) →
      ∀ x ∈ (TRun.run r ops).returned, x.1.2 ≤ x.2 from h {} (by simp)
  induction ops with
  | nil => intro r h; simpa [TRun.run] using h
  | cons op ops ih =>
    intro r h
    simp only [TRun.run, List.foldl_cons]
    apply ih
    cases op with
    | add e d => simpa [TRun.step] using h
    | remove e => simp only [TRun.step]; split <;> simpa using h
    | setTime time => simpa [TRun.step] using h
    | next =>
      simp only [TRun.step]
      split
      · rename_i ed t' hn
        obtain ⟨i, _, hd, _, _⟩ := Timer.next_some (e := ed.1) (d := ed.2) hn
        intro x hx
        rcases List.mem_cons.1 hx with rfl | hx
        · exact hd
        · exact h x hx
      · exact h

/-- **Resumed by the end of the first due frame.**  The `ExecuteRunning` loop stops only when
    `GetNextElement` finds nothing, and then no pending element is due. -/
theorem C06_not_late (t t' : Timer) (h : t.next = (none, t')) :
    (∀ ed ∈ t'.elems, t'.mtime < ed.2) ∧ t'.dirty = false := by
  obtain ⟨h1, h2⟩ := Timer.next_none h
  subst h2
  exact ⟨h1, rfl⟩

/-- **Earliest first, first-come among equals.**  The element returned is due, has the smallest due
    time of everything pending, and among elements with that due time the one registered first. -/
theorem C06_earliest_first_fifo (t t' : Timer) (e d : Nat) (h : t.next = (some (e, d), t')) :
    ∃ i, t.elems[i]? = some (e, d) ∧ d ≤ t.mtime ∧
      (∀ j e' d', t.elems[j]? = some (e', d') → d' ≤ t.mtime → d ≤ d' ∧ (d' = d → i ≤ j)) ∧
      t'.elems = t.elems.eraseIdx i := by
  obtain ⟨i, h1, h2, h3, h4⟩ := Timer.next_some h
  exact ⟨i, h1, h2, h3, by rw [h4]⟩

theorem perm_eraseIdx {α : Type} : ∀ (l : List α) (i : Nat) (x : α), l[i]? = some x →
    l.Perm (x :: l.eraseIdx i)
  | [], _, _, h => by simp at h
  | a :: l, 0, x, h => by simp at h; subst h; simp
  | a :: l, i + 1, x, h => by
    simp at h
    have := perm_eraseIdx l i x h
    simp only [List.eraseIdx_cons_succ]
    exact (List.Perm.cons a this).trans (List.Perm.swap x a _)

theorem lastIdxOf_lt {l : List (Nat × Nat)} {e i : Nat} (h : Timer.lastIdxOf l e = some i) : i < l.length := by
  unfold Timer.lastIdxOf at h
  have := List.mem_of_find?_eq_some h
  simp at this
  exact this

/-- **Exactly once.**  Ledger over every history: each element ever added is, at every moment,
    in exactly one of {returned, removed, still pending} — with multiplicities. -/
theorem C06_exactly_once (ops : List TOp) :
    let r := TRun.run {} ops
    r.added.Perm (r.returned.map (·.1) ++ r.removed ++ r.t.elems) := by
  suffices h : ∀ (r : TRun), r.added.Perm (r.returned.map (·.1) ++ r.removed ++ r.t.elems) →
      (TRun.run r ops).added.Perm ((TRun.run r ops).returned.map (·.1) ++ (TRun.run r ops).removed ++
        (TRun.run r ops).t.elems) from h {} (by simp)
  induction ops with
  | nil => intro r h; simpa [TRun.run] using h
  | cons op ops ih =>
    intro r h
    simp only [TRun.run, List.foldl_cons]
    apply ih
    cases op with
    | add e d =>
      simp only [TRun.step, Timer.add]
      have : ((e, d) :: r.added).Perm ((e, d) :: (r.returned.map (·.1) ++ r.removed ++ r.t.elems)) := h.cons _
      refine this.trans ?_
      rw [← List.append_assoc]
      exact (List.perm_append_singleton _ _).symm
    | remove e =>
      simp only [TRun.step]
      split
      · rename_i i hi
        have hlt := lastIdxOf_lt hi
        simp only [Timer.remove, hi]
        have hget : r.t.elems[i]? = some (r.t.elems.getD i (0, 0)) := by
          simp [List.getD, List.getElem?_eq_getElem hlt]
        have hp := perm_eraseIdx r.t.elems i _ hget
        refine h.trans ?_
        generalize r.t.elems.getD i (0, 0) = x at hp
        have h1 : (r.returned.map (·.1) ++ r.removed ++ r.t.elems).Perm
            (r.returned.map (·.1) ++ r.removed ++ (x :: r.t.elems.eraseIdx i)) :=
          List.Perm.append_left _ hp
        refine h1.trans ?_
        simp only [List.append_assoc]
        apply List.Perm.append_left
        exact List.perm_middle
      · exact h
    | setTime time => simpa [TRun.step, Timer.setTime] using h
    | next =>
      simp only [TRun.step]
      split
      · rename_i ed t' hn
        obtain ⟨i, hi, _, _, ht'⟩ := Timer.next_some (e := ed.1) (d := ed.2) hn
        subst ht'
        have hp := perm_eraseIdx r.t.elems i _ hi
        refine h.trans ?_
        simp only [List.map_cons, List.cons_append]
        have h1 : (r.returned.map (·.1) ++ r.removed ++ r.t.elems).Perm
            (r.returned.map (·.1) ++ r.removed ++ (ed :: r.t.elems.eraseIdx i)) :=
          List.Perm.append_left _ hp
        refine h1.trans ?_
        exact List.perm_middle
      · rename_i t' hn
        obtain ⟨_, ht'⟩ := Timer.next_none hn
        subst ht'
        exact h

/-- `wait d` registers the due time `scaledTime + d` (the value all theorems above speak about). -/
theorem C06_wait_registers_due (s : State) (t d : Nat) :
    (addTiming s t d).timer.elems = s.timer.elems ++ [(t, s.scaled + d)] := rfl

/-! ### non-vacuity -/

/-- three threads; 2 and 3 are due together at 250 (registered in that order), 1 at 500 -/
def demoOps : List TOp :=
  [.add 1 500, .add 2 250, .add 3 250, .setTime 100, .next, .setTime 300, .next, .next, .next, .setTime 600, .next]

example : ((TRun.run {} demoOps).returned.reverse.map (fun x => (x.1.1, x.2))) = [(2, 300), (3, 300), (1, 600)] := by
  decide

/-! ## Machine level: the same clauses for the whole scheduler machine, in every reachable state

`Reachable s` (`Sched/MachineHost.lean`): `s` is produced from the initial state by any list of host
operations of the driver — compile/recompile a program of class `ProgOK` (every generator family), host call with arguments,
`advance`, `execute`, `step`, `reset-director`, `reset`, reading the output — **without `save`/`load`**
(not covered, see `MachineHost.lean`).  All statements are modulo running out of fuel (the machine's
functions take fuel; the driver reports an exhausted run as `FUEL` and the correspondence treats it as a
failure of the run, never as agreement).  They rest on `iAll` (the invariant through every function of
the mutual block, re-entrant cascades included) and `hrAll` (clocks / `m_time` / dirty flag). -/

/-- **Exactly once per wait, machine level.**  In every reachable state every thread in state `timing`
    is in the timer exactly once, no thread is in it twice, and every timer element is a live thread
    (record present, not dead, VM present) in state `timing`. -/
theorem C06_machine_timer_exact {s : State} (h : Reachable s) :
    s.outOfFuel = true ∨
      ((∀ t th, s.th? t = some th → th.ts = .timing → (s.timer.elems.map (·.1)).count t = 1) ∧
       (s.timer.elems.map (·.1)).Nodup ∧
       (∀ e ∈ s.timer.elems, ∃ th, s.th? e.1 = some th ∧ th.ts = .timing ∧ th.hasVM = true ∧ th.dead = false)) :=
  (reachable_hinv h).map (fun hi =>
    ⟨fun _ _ hf hts => hi.inv.timing_once hf hts, hi.inv.tim.t2, fun _ he => hi.inv.timer_elem_live he⟩)

/-- **By the end of the first due frame, machine level.**  After a host `Execute()` that did not run
    out of fuel the timer's time is the frame's clock and no element of the timer is due: every thread
    whose due time had been reached was taken out and resumed inside this call — through all nested
    executions, host events and cascades of the frame. -/
theorem C06_machine_none_due_after_execute {s : State} (h : Reachable s)
    (ho : (hostExecute s).outOfFuel = false) :
    (hostExecute s).timer.mtime = s.clock ∧ ∀ e ∈ (hostExecute s).timer.elems, s.clock < e.2 := by
  have hs : s.outOfFuel = false := by
    cases hs : s.outOfFuel with
    | false => rfl
    | true =>
      have := HostOp.apply_oof (s := s) .execute (by intro e; cases e) hs
      rw [show HostOp.apply s .execute = hostExecute s from rfl, ho] at this; cases this
  exact hostExecute_none_due ((reachable_hinv h).get hs) ho

/-- **A host call drains due timers too, machine level.**  `ScriptExecuteInternal` ends with
    `ExecuteRunning`; for a top-level host call (label found, fuel not exhausted) no timer element is due
    when `ExecuteThread` returns — in particular a `wait 0` is resumed inside the same host call. -/
theorem C06_machine_none_due_after_call {s : State} (h : Reachable s) (label : Nat) (args : List V)
    (hl : label < s.prog.length) (ho : (hostCall s label args).1.outOfFuel = false) :
    ∀ e ∈ (hostCall s label args).1.timer.elems, (hostCall s label args).1.timer.mtime < e.2 := by
  have hs : s.outOfFuel = false := by
    cases hs : s.outOfFuel with
    | false => rfl
    | true => rw [(hostCall_hr s label args).oof hs] at ho; cases ho
  exact hostCall_none_due ((reachable_hinv h).get hs) label args hl ho

/-- **The clock discipline**, in every reachable state: `scaledTime`, the timer's `m_time` and the clock
    of the last frame coincide (time scale 1, clock moved only between `Execute` calls) — so a due time
    `scaledTime + d` stored by `wait d` is "frame clock at the wait + d" and is compared with the frame
    clock. -/
theorem C06_machine_clock_discipline {s : State} (h : Reachable s) :
    s.outOfFuel = true ∨ (s.scaled = s.lastClock ∧ s.timer.mtime = s.lastClock ∧ s.lastClock ≤ s.clock) :=
  (reachable_hinv h).map (fun hi => ⟨hi.ck2, reachable_mtime h, hi.ck1⟩)

/-- No function of the machine moves `scaledTime`, the clock or `m_time` (only the host's `Execute`
    does): the three agree throughout a host call / a frame, whatever runs nested inside. -/
theorem C06_machine_clocks_fixed (fuel : Nat) (s : State) (t : Nat) :
    let s' := scriptExecuteInternal fuel s t
    s'.scaled = s.scaled ∧ s'.clock = s.clock ∧ s'.timer.mtime = s.timer.mtime := by
  have hr := (hrAll fuel).sei s t
  have hc := hr.ht.c3
  simp only [Prod.mk.injEq] at hc
  exact ⟨hc.2.1, hc.1, hr.ht.mtime⟩

/-- **Never early, machine level** (three facts that compose):
    (1) `wait ms` executed by `t` leaves exactly one new timer element, `(t, scaledTime + ms)`;
    (2) the timer loop resumes a thread only if it is a timer element whose due time is `≤ m_time`, and it
        is the earliest such element;
    (3) when nothing is due the loop stops.
    With `C06_machine_clock_discipline` / `C06_machine_clocks_fixed`: resumed only in a frame whose clock
    is `≥` (frame clock at the wait) `+ ms`. -/
theorem C06_machine_never_early (fuel : Nat) (s : State) :
    (∀ t th ms, (exec (fuel + 1) s t th (.wait ms)).timer.elems =
        (stop fuel s t).timer.elems ++ [(t, s.scaled + ms)]) ∧
    (∀ t d tm, s.timer.next = (some (t, d), tm) →
        (t, d) ∈ s.timer.elems ∧ d ≤ s.timer.mtime ∧ (∀ e ∈ s.timer.elems, e.2 ≤ s.timer.mtime → d ≤ e.2) ∧
        drain (fuel + 1) s = drain fuel (execVM fuel (({ s with timer := tm, cur := some t } : State).setTh t
          (fun th => { th with ts := .running })) t)) ∧
    (∀ tm, s.timer.next = (none, tm) →
        (∀ e ∈ s.timer.elems, s.timer.mtime < e.2) ∧ drain (fuel + 1) s = { s with timer := tm, cur := none }) :=
  ⟨fun t th ms => exec_wait_timer fuel s t th ms, fun t d tm hn => drain_resumes_due fuel s t d tm hn,
    fun tm hn => drain_stops fuel s tm hn⟩

/-! ### non-vacuity, machine level: two threads, one waits 5 ms, the other waits on `level` (object 50) -/

def demoHost : List HostOp :=
  [.script [[.thread 1, .wait 5, .mark 1], [.waittill 50 [7], .mark 2]] [0, 0], .call 0 [], .takeOut]

theorem demoHost_reachable : Reachable (runOps {} demoHost) :=
  (reachable_iff _).2 ⟨demoHost, by decide, rfl⟩

example : (runOps {} demoHost).outOfFuel = false ∧ (runOps {} demoHost).timer.elems = [(100, 5)] ∧
    ((runOps {} demoHost).th? 100).map (·.ts) = some .timing := by decide +kernel

/-- the frame at clock 5 resumes the timed thread (marker 1) and leaves the timer empty -/
example : (hostExecute (runOps {} (demoHost ++ [.advance 5]))).outOfFuel = false ∧
    (hostExecute (runOps {} (demoHost ++ [.advance 5]))).out = ["m1"] ∧
    (hostExecute (runOps {} (demoHost ++ [.advance 5]))).timer.elems = [] := by decide +kernel

/-- a frame at clock 4 is too early: nothing runs, the element stays, and it is not due -/
example : (hostExecute (runOps {} (demoHost ++ [.advance 4]))).out = [] ∧
    (hostExecute (runOps {} (demoHost ++ [.advance 4]))).timer.elems = [(100, 5)] := by decide +kernel

/-- `wait 0` resumes inside the same host call: marker 2 is printed by the call, the timer is empty after it -/
example : (runOps {} [.script [[.mark 1, .wait 0, .mark 2]] [0], .call 0 []]).out = ["m2", "m1"] ∧
    (runOps {} [.script [[.mark 1, .wait 0, .mark 2]] [0], .call 0 []]).timer.elems = [] := by decide +kernel

/-! ## Trace level: the clauses about histories, for the whole machine

The **ghost ledger**: for every reachable state there is a history `ops` of timer operations
(`reachable_timer_history`, `Sched/MachineTimerTraceHost.lean`; obtained from `ttAll`: every function of the
machine changes the timer only by `add`, `remove`, `next`; `setTime` once per `ScriptContext::Execute`) whose replay
from the empty timer is the machine's timer.  `TRun.run {} ops` is then the machine's timer *with its ledger*:
`added` = every timed wait ever registered (thread, due time), `returned` = every resumption by the timer loop with
the frame time (`m_time`) of that moment, `removed` = every wait cancelled by `Stop()` / thread destruction.  The
ledger is existentially quantified instead of stored in the machine state, so the executable machine and the
driver's output are untouched.  No fuel condition: these hold for exhausted runs too.  Histories without
`save`/`load` (`Reachable`). -/

/-- the machine's timer with its ledger -/
def IsLedger (s : State) (ops : List TOp) : Prop :=
  (TRun.run {} ops).t = s.timer ∧ AddsLate {} ops

theorem C06_trace_ledger_exists {s : State} (h : Reachable s) : ∃ ops, IsLedger s ops := by
  obtain ⟨ops, hh⟩ := reachable_timer_history h
  exact ⟨ops, by rw [timerRun_of_run]; exact hh.run, hh.late⟩

/-- **Never early, trace level.**  There is a ledger of the run in which (a) every wait was registered with a
    due time `scaledTime + d ≥` the frame time at that moment (`AddsLate`), (b) every resumption happened at a
    frame time `≥` the due time of the element resumed, (c) every resumed element is one that was registered.
    So a thread that executes `wait d` while the frame time is `t` is not resumed by the timer before a frame
    whose time is `≥ t + d`. -/
theorem C06_trace_never_early {s : State} (h : Reachable s) :
    ∃ ops, IsLedger s ops ∧
      (∀ x ∈ (TRun.run {} ops).returned, x.1.2 ≤ x.2) ∧
      (∀ x ∈ (TRun.run {} ops).returned, x.1 ∈ (TRun.run {} ops).added) := by
  obtain ⟨ops, hl⟩ := C06_trace_ledger_exists h
  refine ⟨ops, hl, C06_never_early ops, ?_⟩
  intro x hx
  have hp := C06_exactly_once ops
  apply hp.symm.subset
  simp only [List.mem_append, List.mem_map]
  exact Or.inl (Or.inl ⟨x, hx, rfl⟩)

/-- **Exactly once, trace level.**  In the ledger of the run every registered wait is, with multiplicity, in
    exactly one of: resumed, cancelled (`Stop()` / destruction), still pending in the timer.  In particular
    no wait is resumed twice and no resumption happens without a wait. -/
theorem C06_trace_exactly_once {s : State} (h : Reachable s) :
    ∃ ops, IsLedger s ops ∧
      (TRun.run {} ops).added.Perm
        ((TRun.run {} ops).returned.map (·.1) ++ (TRun.run {} ops).removed ++ s.timer.elems) := by
  obtain ⟨ops, hl⟩ := C06_trace_ledger_exists h
  refine ⟨ops, hl, ?_⟩
  have hp : (TRun.run {} ops).added.Perm ((TRun.run {} ops).returned.map (·.1) ++ (TRun.run {} ops).removed ++
      (TRun.run {} ops).t.elems) := C06_exactly_once ops
  rw [hl.1] at hp
  exact hp

/-- **By the end of the first due frame, trace level.**  After a `ScriptContext::Execute()` at frame time `T`
    that did not run out of fuel, every wait ever registered whose due time is `≤ T` has been resumed or was
    cancelled (its thread stopped or destroyed) — none is still pending. -/
theorem C06_trace_by_end_of_first_due_frame {s : State} (h : Reachable s) (ho : (hostExecute s).outOfFuel = false) :
    ∃ ops, IsLedger (hostExecute s) ops ∧
      ∀ a ∈ (TRun.run {} ops).added, a.2 ≤ s.clock →
        a ∈ (TRun.run {} ops).returned.map (·.1) ∨ a ∈ (TRun.run {} ops).removed := by
  have hr : Reachable (hostExecute s) := .step .execute h trivial
  obtain ⟨ops, hl, hp⟩ := C06_trace_exactly_once hr
  refine ⟨ops, hl, ?_⟩
  intro a ha hdue
  have hm := hp.subset ha
  simp only [List.mem_append] at hm
  rcases hm with (hm | hm) | hm
  · exact Or.inl hm
  · exact Or.inr hm
  · have := (C06_machine_none_due_after_execute h ho).2 a hm
    omega

/-- **Due order, trace level.**  Every resumption recorded in the ledger took, at that moment, the element with
    the smallest due time among those due and, among equal due times, the one registered first. -/
theorem C06_trace_due_order {s : State} (h : Reachable s) :
    ∃ ops, IsLedger s ops ∧
      ∀ (pre post : List TOp), ops = pre ++ TOp.next :: post → ∀ (e d : Nat) (tm' : Timer),
        (timerRun {} pre).next = (some (e, d), tm') →
        ∃ i, (timerRun {} pre).elems[i]? = some (e, d) ∧ d ≤ (timerRun {} pre).mtime ∧
          (∀ (j e' d' : Nat), (timerRun {} pre).elems[j]? = some (e', d') → d' ≤ (timerRun {} pre).mtime →
            d ≤ d' ∧ (d' = d → i ≤ j)) := by
  obtain ⟨ops, hl⟩ := C06_trace_ledger_exists h
  refine ⟨ops, hl, ?_⟩
  intro pre post _ e d tm' hn
  obtain ⟨i, h1, h2, h3, _⟩ := C06_earliest_first_fifo _ tm' e d hn
  exact ⟨i, h1, h2, h3⟩

/-! ### non-vacuity, trace level: the ledger of the two-thread demo after its frame -/
example : (TRun.run {} [.add 100 5, .setTime 5, .next, .next]).returned = [((100, 5), 5)] ∧
    (TRun.run {} [.add 100 5, .setTime 5, .next, .next]).t.elems = (hostExecute (runOps {} (demoHost ++ [.advance 5]))).timer.elems := by
  decide +kernel

/-- **Due order over a whole drain / a whole frame, trace level.**  For a reachable state `s`:
    (1) the whole of `ScriptContext::Execute()` after `SetTime` — host events, the timer loop, every nested execution —
    and (2) any single run of the timer loop (`ExecuteRunning`, e.g. at the end of a host call) have a ledger of
    timer operations (no `setTime`, every `add` with due `≥ m_time`) in which the due times of the resumed elements,
    in the order of resumption, are **nondecreasing**: the elements in the timer at the start come out by increasing due
    time, and the threads registered during the drain (`wait 0`, re-timed `waitthread` callers: due `= m_time`) come
    after every element that was due earlier.  (Among equal due times each `next` takes the oldest registration —
    `C06_trace_due_order`; that the whole subsequence of equal dues is in arrival order is not stated here.) -/
theorem C06_trace_drain_sorted {s : State} (h : Reachable s) :
    (∃ ops : List TOp, timerRun (frameSetTime s).timer ops = (hostExecute s).timer ∧ NoSet ops ∧
      AddsLate (frameSetTime s).timer ops ∧ (chronDues (frameSetTime s).timer ops).Pairwise (· ≤ ·)) ∧
    (∀ fuel, ∃ ops : List TOp, timerRun s.timer ops = (executeRunning fuel s).timer ∧ NoSet ops ∧
      AddsLate s.timer ops ∧ (chronDues s.timer ops).Pairwise (· ≤ ·)) := by
  have hc := reachable_scaled h
  constructor
  · exact tt_dues_sorted (hostExecute_tt s) (by
      show s.clock ≤ s.scaled + (s.clock - s.lastClock)
      have := hc.1; have := hc.2; omega)
  · intro fuel
    exact tt_dues_sorted ((ttAll fuel).er s) (by rw [reachable_mtime h, hc.1]; exact Nat.le_refl _)

/-- three timed threads due at 5, 3, 3 and one that re-waits 0: resumption order 3, 3, 5 -/
example : chronDues { mtime := 5, dirty := true, elems := [(100, 5), (101, 3), (102, 3)] } [.next, .next, .next, .next] = [3, 3, 5] := by
  decide

end Morfuse.Sched
