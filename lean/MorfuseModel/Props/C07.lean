import MorfuseModel.Sched.MachineWaitthreadHost
import MorfuseModel.Sched.NotifyLemmas
import MorfuseModel.Sched.MachineHostProps
import MorfuseModel.Sched.MachineNotifyTraceHost
import MorfuseModel.Sched.MachineLifeTraceHost
import MorfuseModel.Sched.MachineCalls
/-!
# C07 — waittill / notify: no lost, early or duplicate wake-ups  (table layer)

`Listener::Register` and `Listener::Unregister(name)` keep two tables: per source the waiters
(`m_NotifyList`), per waiter the sources (`m_WaitForList`).  The theorems below hold for tables of
any size and any history of registrations and notifications.

Proved here: the two tables stay mirror images under `waittill` and `notify` (so a registration can
neither be lost nor survive its notify), a `notify` selects exactly the threads registered at that
moment, each once, in registration order, and leaves no registration behind; a `notify` nobody waits
for changes nothing at all in the machine.

Not proved (checked by the correspondence run on every generated program instead): what the
scheduler does with the selected threads (`StoppedWaitFor` → nested execution or re-timing), the
`endon` and object-removal cascades (`UnregisterAll` destroying waiters), `waitthread` results;
the machine `Sched.Machine` models all of these and is compared with the engine marker by marker.
-/
namespace Morfuse.Sched

theorem count_filter_ne (l : List Nat) (a b : Nat) :
    (l.filter (· != b)).count a = if a = b then 0 else l.count a := by
  by_cases h : a = b
  · subst h
    simp only [if_true]
    apply List.count_eq_zero.2
    intro hm
    have := (List.mem_filter.1 hm).2
    simp at this
  · simp only [h, if_false]
    apply List.count_filter
    simpa using h

/-- **Registration keeps the mirror.** -/
theorem C07_register_mirror (T : Tabs) (h : Mirror T) (src name x : Nat) :
    Mirror (registerT T src name x) := by
  intro s' nm y
  simp only [registerT, Tbl.getD_push]
  by_cases h1 : (s', nm) = (src, name)
  · obtain ⟨rfl, rfl⟩ := Prod.mk.inj h1
    by_cases h2 : y = x
    · subst h2; simp [h s' nm y]
    · have : ¬ (y, nm) = (x, nm) := by intro e; exact h2 (Prod.mk.inj e).1
      have h2' : ¬ x = y := fun e => h2 e.symm
      simp [this, h s' nm y, List.count_singleton, h2']
  · simp only [h1, if_false]
    by_cases h2 : (y, nm) = (x, name)
    · obtain ⟨rfl, rfl⟩ := Prod.mk.inj h2
      have hs : ¬ src = s' := by intro e; exact h1 (by rw [e])
      simp [h s' nm y, List.count_singleton, hs]
    · simp [h2, h s' nm y]

/-- **`notify` keeps the mirror**, so no registration is half-removed. -/
theorem C07_notify_mirror (T : Tabs) (h : Mirror T) (src name : Nat) :
    Mirror (notifyT T src name).1 := by
  obtain ⟨hw, _⟩ := targetsT_spec T h src name
  intro s' nm x
  simp only [notifyT, Tbl.getD_removeKey]
  rw [hw (x, nm)]
  by_cases h1 : (s', nm) = (src, name)
  · obtain ⟨rfl, rfl⟩ := Prod.mk.inj h1
    simp only [if_true, List.count_nil, true_and]
    by_cases hx : x ∈ Tbl.getD T.n (s', nm)
    · simp [hx, count_filter_ne]
    · simp only [hx, if_false]
      rw [← h s' nm x]
      exact (List.count_eq_zero.2 hx).symm
  · simp only [h1, if_false]
    by_cases h2 : nm = name ∧ x ∈ Tbl.getD T.n (src, name)
    · have hs : ¬ s' = src := by intro e; exact h1 (by rw [e, h2.1])
      simp only [h2, and_self, if_true, count_filter_ne, hs, if_false]
      rw [← h2.1]; exact h s' nm x
    · simp only [h2, if_false]; exact h s' nm x

/-- **Exactly the registered threads, each once, in order.**  The list of threads `notify` wakes
    (in the order `StoppedWaitFor` is called) has no duplicates, contains exactly the threads
    registered on `(src, name)` at that moment, and equals the registration order when no thread
    registered twice. -/
theorem C07_notify_wakes_registered_once (T : Tabs) (h : Mirror T) (src name : Nat) :
    let woken := (notifyT T src name).2
    let registered := Tbl.getD T.n (src, name)
    woken.Nodup ∧ (∀ x, x ∈ woken ↔ x ∈ registered) ∧ (registered.Nodup → woken = registered) := by
  obtain ⟨_, hs⟩ := targetsT_spec T h src name
  simp only [notifyT, hs]
  refine ⟨?_, ?_, ?_⟩
  · exact (List.reverse_perm _).nodup_iff.2 (dedup_nodup _)
  · intro x; simp [mem_dedup]
  · intro hn
    rw [dedup_of_nodup _ ((List.reverse_perm _).nodup_iff.2 hn)]
    simp

/-- **After `notify` nothing stays registered** on `(src, name)`: a later wake-up needs a later
    registration, and the same registration cannot be woken twice. -/
theorem C07_notify_clears (T : Tabs) (h : Mirror T) (src name : Nat) :
    let T' := (notifyT T src name).1
    Tbl.getD T'.n (src, name) = [] ∧ ∀ x, src ∉ Tbl.getD T'.w (x, name) := by
  have hm := C07_notify_mirror T h src name
  have hn : Tbl.getD (notifyT T src name).1.n (src, name) = [] := by
    simp [notifyT, Tbl.getD_removeKey]
  refine ⟨hn, ?_⟩
  intro x hx
  have := hm src name x
  rw [hn] at this
  have hc : 0 < (Tbl.getD (notifyT T src name).1.w (x, name)).count src := List.count_pos_iff.2 hx
  simp at this
  omega

/-- **Other names and other sources are untouched** by a `notify`. -/
theorem C07_notify_frame (T : Tabs) (src name s' nm : Nat) (hne : (s', nm) ≠ (src, name)) :
    Tbl.getD (notifyT T src name).1.n (s', nm) = Tbl.getD T.n (s', nm) := by
  simp [notifyT, Tbl.getD_removeKey, hne]

/-- The machine's `UnregisterTargets` is `targetsT` on its wait-for table (all listed listeners alive). -/
theorem unregisterTargets_eq (s : State) (src name : Nat) (list : List Nat)
    (h : ∀ l ∈ list, s.alive l = true) :
    unregisterTargets s src name list =
      ({ s with waitFor := (targetsT s.waitFor src name list).1 }, (targetsT s.waitFor src name list).2) := by
  unfold unregisterTargets targetsT
  have h' : ∀ l ∈ list.reverse, s.alive l = true := by intro l hl; exact h l (List.mem_reverse.1 hl)
  generalize list.reverse = L at h'
  suffices hs : ∀ (L : List Nat) (acc : State × List Nat) (acc' : Tbl × List Nat),
      (∀ l ∈ L, s.alive l = true) →
      acc.1 = { s with waitFor := acc'.1 } → acc.2 = acc'.2 →
      L.foldl (fun (acc : State × List Nat) l =>
        if acc.1.alive l then
          let (w', found) := Tbl.removeAll acc.1.waitFor (l, name) src
          ({ acc.1 with waitFor := w' }, if found then acc.2 ++ [l] else acc.2)
        else acc) acc =
      ({ s with waitFor := (L.foldl (tstep src name) acc').1 }, (L.foldl (tstep src name) acc').2) by
    exact hs L (s, []) (s.waitFor, []) h' rfl rfl
  intro L
  induction L with
  | nil => intro acc acc' _ h1 h2; simp only [List.foldl_nil]; rw [← h1, ← h2]
  | cons l L ih =>
    intro acc acc' hal h1 h2
    simp only [List.foldl_cons]
    apply ih
    · intro x hx; exact hal x (List.mem_cons_of_mem _ hx)
    · have hla : acc.1.alive l = true := by rw [h1]; exact hal l (by simp)
      simp only [hla, if_true, tstep]
      rw [h1]
    · have hla : acc.1.alive l = true := by rw [h1]; exact hal l (by simp)
      simp only [hla, if_true, tstep]
      rw [h1, h2]

/-- **A notify with no waiters has no effect**: neither an `endon` list nor a waiter list for this
    name ⇒ the machine state is unchanged (for any fuel). -/
theorem C07_notify_without_waiters_noop (fuel : Nat) (s : State) (src name : Nat)
    (he : Tbl.find s.endOn (src, name) = none) (hn : Tbl.find s.notify (src, name) = none) :
    unregister (fuel + 1) s src name = s := by
  unfold unregister
  simp only [he, hn]
  split <;> simp [hn]

/-! ### non-vacuity: a concrete mirrored table with two waiters, one of them registered twice -/

def demoT : Tabs := registerT (registerT (registerT ⟨[], []⟩ 1 7 100) 1 7 101) 1 7 100

theorem demoT_mirror : Mirror demoT :=
  C07_register_mirror _ (C07_register_mirror _ (C07_register_mirror _ (by intro _ _ _; simp [Tbl.getD_nil]) 1 7 100) 1 7 101) 1 7 100

example : (notifyT demoT 1 7).2 = [101, 100] ∧ Tbl.getD demoT.n (1, 7) = [100, 101, 100] := by decide

/-! ## Machine level: the tables of the whole scheduler machine, in every reachable state

`Reachable s` (`Sched/MachineHost.lean`): produced from the initial state by any list of host operations
of the driver (compile/recompile a `ProgOK` program, host calls, `advance`, `execute`, `step`,
`reset-director`, `reset`, reading the output), **without `save`/`load`**; modulo running out of fuel.
`ProgOK`: object ids < 100, and a `local.p0 waittill n` (waiting on a *thread object* by name, the `hub`
generator family) does not use the engine's own destruction events `delete` / `remove` as `n` — every
generator family of tools/vlib/schedgen.py is inside this class.  The statements rest on `iAll`: the
invariant `Inv` holds through every function of the machine, nested executions and destruction cascades
included. -/

/-- **Mirror, machine level.**  In every reachable state the notify and wait-for tables are mirror
    images with multiplicity, and every listener mentioned in them is alive (its weak reference reads
    non-null): sources and waiters. -/
theorem C07_machine_tables_mirror {s : State} (h : Reachable s) :
    s.outOfFuel = true ∨
      ((∀ o n x, (Tbl.getD s.notify (o, n)).count x = (Tbl.getD s.waitFor (x, n)).count o) ∧
       (∀ o n x, x ∈ Tbl.getD s.notify (o, n) → s.alive o = true ∧ s.alive x = true)) := by
  refine (reachable_hinv h).map (fun hi => ⟨hi.inv.tab.mir, ?_⟩)
  intro o n x hx
  obtain ⟨a1, a2⟩ := hi.inv.tab.aN o n x hx
  refine ⟨a1, ?_⟩
  rw [State.alive_thread _ (by simpa [State.isThread] using hi.inv.n.nMem _ _ hx)]
  exact a2

/-- **Waiting ⇔ registered, machine level.**  In every reachable state a listener owns a wait-for entry
    iff it is a thread in state `waiting`. -/
theorem C07_machine_waiting_iff_registered {s : State} (h : Reachable s) :
    s.outOfFuel = true ∨
      ∀ t, (∃ th, s.th? t = some th ∧ th.ts = .waiting) ↔ Tbl.hasOwner s.waitFor t = true :=
  (reachable_hinv h).map (fun hi t => hi.inv.waiting_iff t)

/-- **No lost wake-up, machine level.**  In every reachable state a `waiting` thread is registered in the
    notify list of some `(o, n)` whose source `o` is alive — so a `notify` of that name on `o`, or the
    deletion of `o`, reaches it; and conversely every listener in a notify list is a live thread in state
    `waiting` holding the mirror entry. -/
theorem C07_machine_no_lost_wakeup {s : State} (h : Reachable s) :
    s.outOfFuel = true ∨
      ((∀ t th, s.th? t = some th → th.ts = .waiting →
          ∃ o n, t ∈ Tbl.getD s.notify (o, n) ∧ s.alive o = true) ∧
       (∀ o n x, x ∈ Tbl.getD s.notify (o, n) → o ∈ Tbl.getD s.waitFor (x, n) ∧
          ∃ th, s.th? x = some th ∧ th.ts = .waiting ∧ th.dead = false ∧ th.hasVM = true)) :=
  (reachable_hinv h).map (fun hi =>
    ⟨fun _ _ hf hw => hi.inv.waiting_has_source hf hw,
     fun _ _ _ hx => ⟨(hi.inv.registered_waiting hx).2.1, (hi.inv.registered_waiting hx).2.2⟩⟩)

/-- **A removed source keeps no waiter, machine level.**  `UnregisterAll` of `src` (part of every
    listener's destructor) run in a state that satisfies the machine invariant — every state at a call
    boundary inside a host operation, by `iAll` — ends (unless out of fuel) in a state that satisfies it
    again and in which nothing is registered under `src`: the waiters were deleted
    (`StoppedWaitFor(name, true)`), none of them executed. -/
theorem C07_machine_removed_source_clears (fuel : Nat) {C W : List Nat} {s : State} (h : Inv C W none s) (src : Nat) :
    (unregisterAll fuel s src).outOfFuel = true ∨
      (Inv C W none (unregisterAll fuel s src) ∧ Tbl.hasOwner (unregisterAll fuel s src).notify src = false) :=
  (iAll fuel).ua C W s src h

/-- **`notify` wakes exactly the registered threads, once each, in order — machine level.**
    `o notify n` on an object `o` (no `endon` list for `(o, n)`) in any state satisfying the machine
    invariant, with at least two units of fuel, *is* the following: first both tables are updated to
    `notifyT` of the table layer — so at that moment nothing is registered under `(o, n)` any more and, by
    `C07_notify_wakes_registered_once` / `C07_notify_clears`, the selected list is exactly the threads
    registered at issue time, each once, in registration order — and only then `StoppedWaitFor(n, false)` is
    called on the selected threads in that order, skipping those a previously woken thread destroyed.
    (What each call does — nested execution of the woken thread — keeps the invariant:
    `C07_machine_notify_keeps_invariant_partial`.) -/
theorem C07_machine_notify_wakes_registered_once (fuel : Nat) {W : List Nat} {top : Option Nat} {s : State}
    (h : Inv [] W top s) (o n : Nat) (ho : o < 100) (he : Tbl.find s.endOn (o, n) = none)
    (list : List Nat) (hreg : Tbl.find s.notify (o, n) = some list) :
    unregister (fuel + 2) s o n =
      (notifyT ⟨s.notify, s.waitFor⟩ o n).2.foldl
        (fun s l => if s.alive l then stoppedWaitFor (fuel + 1) s l n false else s)
        { s with waitFor := (notifyT ⟨s.notify, s.waitFor⟩ o n).1.w,
                 notify := (notifyT ⟨s.notify, s.waitFor⟩ o n).1.n } := by
  have hE : unregEndOn (deleteThread (fuel + 1)) s o n = (s, false) := by
    unfold unregEndOn
    split
    · rfl
    · rw [he]
  have hown : Tbl.hasOwner s.notify o = true :=
    (h.n.wfN.hasOwner_iff o).2 ⟨n, by rw [Tbl.find_eq_getD_of_some hreg]; exact h.n.wfN.find_ne_nil hreg⟩
  have halive : ∀ l ∈ list, s.alive l = true := by
    intro l hl
    have hx : l ∈ Tbl.getD s.notify (o, n) := by rw [Tbl.find_eq_getD_of_some hreg]; exact hl
    rw [State.alive_thread _ (by simpa [State.isThread] using h.n.nMem _ _ hx)]
    exact (h.tab.aN o n l hx).2
  have hnt : State.isThread o = false := by simp [State.isThread]; omega
  rw [unregister_succ, hE]
  simp only [Bool.false_eq_true, if_false]
  unfold unregNotify
  simp only [hown, Bool.not_true, Bool.false_eq_true, if_false, hreg]
  rw [unregisterTargets_eq s o n list halive]
  simp only [stoppedNotify_succ, hnt, Bool.false_eq_true, if_false, ite_self]
  unfold wakeLoop notifyT
  simp only [Tbl.find_eq_getD_of_some hreg]

/-- **`notify` through the nested executions, machine level** — what is proved: `Unregister(name)` on `src`
    (script `notify`) run in a state satisfying the machine invariant with no cancel in progress ends
    (unless out of fuel) in a state that satisfies it again (mirror, liveness, waiting ⇔ registered), every
    thread that existed before either keeps its record or is gone, and no thread is current that was not.

    *Not* proved, because it is false at machine level: "after `notify o n` returns no thread is registered
    under `(o, n)`".  A woken thread runs nested inside the notify and may execute `waittill o n` again
    before the notify returns (`demoRewait` below).  The clause that is true — the registrations present
    at issue time are all consumed, each exactly once, before any woken thread runs — is the table-layer
    theorem `C07_notify_clears` / `C07_notify_wakes_registered_once` applied to the machine's tables
    (`unregisterTargets_eq`). -/
theorem C07_machine_notify_keeps_invariant_partial (fuel : Nat) {W : List Nat} {s : State}
    (h : Inv [] W none s) (src name : Nat) :
    (unregister fuel s src name).outOfFuel = true ∨
      (Inv [] W none (unregister fuel s src name) ∧ G s (unregister fuel s src name)) :=
  (iAll fuel).ur [] W s src name h (Or.inl rfl)

/-! ### non-vacuity, machine level -/

/-- thread 100 starts 101 and 102, both wait on `level` (object 50) under name 7; 100 then waits 5 ms -/
def demoWaiters : List HostOp :=
  [.script [[.thread 1, .thread 1, .wait 5, .notify 50 7, .mark 9], [.waittill 50 [7], .mark 2]] [0, 0],
   .call 0 [], .takeOut]

theorem demoWaiters_reachable : Reachable (runOps {} demoWaiters) :=
  (reachable_iff _).2 ⟨demoWaiters, by decide, rfl⟩

example : (runOps {} demoWaiters).outOfFuel = false ∧
    (runOps {} demoWaiters).notify = [((50, 7), [101, 102])] ∧
    (runOps {} demoWaiters).waitFor = [((101, 7), [50]), ((102, 7), [50])] ∧
    ((runOps {} demoWaiters).th? 101).map (·.ts) = some .waiting := by decide +kernel

/-- the hypotheses of `C07_machine_notify_wakes_registered_once` are met by a reachable state with two
    registered waiters -/
example : ∃ s, Inv [] [] none s ∧ Tbl.find s.notify (50, 7) = some [101, 102] ∧ Tbl.find s.endOn (50, 7) = none :=
  ⟨runOps {} demoWaiters, ((reachable_hinv demoWaiters_reachable).get (by decide +kernel)).inv,
    by decide +kernel, by decide +kernel⟩

/-- the frame at clock 5 resumes 100, whose `notify` wakes both waiters nested, in registration order -/
example : (runOps {} (demoWaiters ++ [.step 5])).out = ["m9", "m2", "m2"] ∧
    (runOps {} (demoWaiters ++ [.step 5])).notify = [] ∧
    (runOps {} (demoWaiters ++ [.step 5])).waitFor = [] := by decide +kernel

/-- why "nothing is registered under `(o, n)` after `notify o n`" is false at machine level: the woken
    thread waits again on the same name before the notify returns -/
def demoRewait : List HostOp :=
  [.script [[.thread 1, .notify 50 7, .mark 9], [.waittill 50 [7], .mark 2, .waittill 50 [7], .mark 3]] [0, 0],
   .call 0 []]

example : (runOps {} demoRewait).outOfFuel = false ∧ (runOps {} demoRewait).out = ["m9", "m2"] ∧
    (runOps {} demoRewait).notify = [((50, 7), [101])] := by decide +kernel

/-! ### non-vacuity: a thread object as wait source on named channels (the `hub` family) -/

/-- the hub (101) starts a waiter (102: `local.p0 waittill_any 1 2`) and a notifier (103: waits 5 ms, then
    `local.p0 notify 1`), then waits 9 ms -/
def demoHub : List HostOp :=
  [.script [[.mark 1, .thread 1], [.thread 2, .thread 3, .wait 9, .mark 2], [.waittillParent [1, 2], .mark 3],
      [.wait 5, .notifyParent 1, .mark 4]] [0, 0, 0, 0], .call 0 [], .takeOut]

theorem demoHub_reachable (ops : List HostOp) (h : ∀ op ∈ ops, op.ok) : Reachable (runOps {} (demoHub ++ ops)) :=
  (reachable_iff _).2 ⟨demoHub ++ ops, by
    have h0 : ∀ op ∈ demoHub, op.ok := by decide
    intro op hop
    rcases List.mem_append.1 hop with hm | hm
    · exact h0 op hm
    · exact h op hm, rfl⟩

/-- the waiter is registered on the *thread* 101 under both names, mirrored -/
example : (runOps {} demoHub).outOfFuel = false ∧
    (runOps {} demoHub).notify = [((101, 1), [102]), ((101, 2), [102])] ∧
    (runOps {} demoHub).waitFor = [((102, 1), [101]), ((102, 2), [101])] := by decide +kernel

/-- the notifier's `local.p0 notify 1` at clock 5 wakes the waiter nested (marker 3 before marker 4) and
    cancels its other registration -/
example : (runOps {} (demoHub ++ [.step 5])).out = ["m4", "m3"] ∧ (runOps {} (demoHub ++ [.step 5])).notify = [] := by
  decide +kernel

/-! ## Trace level: the clauses about histories, for the whole machine

The **ghost ledger** of registrations and notifies: for every reachable state there is a history `ops : List NOp`
(`reachable_notify_history`; from `nnAll`: every function of the machine changes the notify table only by
`reg` = `Register`, `notify` = `Unregister(name)`, `purge`/`multiPurge` = a waiter's `CancelWaiting`, `removeOwner` =
the source's `UnregisterAll`) whose replay from the empty table is the machine's notify table.  Positions in the
list are the sequence numbers.  The ledger is existentially quantified, not stored: the executable machine and the
driver's output are untouched.  No fuel condition.  What a `notify` does with the listeners it finds registered
— `StoppedWaitFor` on each, in order, skipping the ones already destroyed — is
`C07_machine_notify_wakes_registered_once`; so "registered when the notify is issued" below is a superset of
"woken by it". -/

theorem C07_trace_ledger_exists {s : State} (h : Reachable s) : ∃ ops : List NOp, nRun [] ops = s.notify :=
  reachable_notify_history h

/-- **A wake-up needs an earlier registration and a later notify, trace level.**  In the ledger of the run, every
    listener that a `notify` on `(src, name)` finds registered was registered by a `reg src name x` that occurs
    *before* that notify in the history: nobody proceeds because of a notify issued before its registration. -/
theorem C07_trace_wake_needs_later_notify {s : State} (h : Reachable s) :
    ∃ ops : List NOp, nRun [] ops = s.notify ∧
      ∀ (pre post : List NOp) (src name : Nat), ops = pre ++ NOp.notify src name :: post →
        ∀ x ∈ Tbl.getD (nRun [] pre) (src, name), NOp.reg src name x ∈ pre := by
  obtain ⟨ops, ho⟩ := reachable_notify_history h
  refine ⟨ops, ho, ?_⟩
  intro pre post src name _ x hx
  rcases nRun_mem pre [] (src, name) x hx with h1 | h1
  · simp [Tbl.getD, Tbl.find] at h1
  · exact h1

/-- **At most once per registration, trace level.**  If two notifies on `(src, name)` in the ledger both find `x`
    registered, then `x` registered again in between: one registration is consumed by one notify. -/
theorem C07_trace_exactly_once {s : State} (h : Reachable s) :
    ∃ ops : List NOp, nRun [] ops = s.notify ∧
      ∀ (a b c : List NOp) (src name : Nat),
        ops = a ++ NOp.notify src name :: (b ++ NOp.notify src name :: c) →
        ∀ x ∈ Tbl.getD (nRun [] (a ++ NOp.notify src name :: b)) (src, name), NOp.reg src name x ∈ b := by
  obtain ⟨ops, ho⟩ := reachable_notify_history h
  refine ⟨ops, ho, ?_⟩
  intro a b c src name _ x hx
  have e : a ++ NOp.notify src name :: b = (a ++ [NOp.notify src name]) ++ b := by simp
  rw [e, nRun_append, nRun_append] at hx
  rcases nRun_mem b _ (src, name) x hx with h1 | h1
  · rw [nRun_notify_clears] at h1; cases h1
  · exact h1

/-- **A removed source keeps nobody, trace level.**  After the source's `UnregisterAll` (object removal, thread
    destruction) a later notify on it finds only listeners that registered after the removal; the listeners
    registered before were destroyed by it (`C07_machine_removed_source_clears`: `StoppedWaitFor(name, true)`), they
    never proceed. -/
theorem C07_trace_removed_source {s : State} (h : Reachable s) :
    ∃ ops : List NOp, nRun [] ops = s.notify ∧
      ∀ (a b c : List NOp) (src name : Nat),
        ops = a ++ NOp.removeOwner src :: (b ++ NOp.notify src name :: c) →
        ∀ x ∈ Tbl.getD (nRun [] (a ++ NOp.removeOwner src :: b)) (src, name), NOp.reg src name x ∈ b := by
  obtain ⟨ops, ho⟩ := reachable_notify_history h
  refine ⟨ops, ho, ?_⟩
  intro a b c src name _ x hx
  have e : a ++ NOp.removeOwner src :: b = (a ++ [NOp.removeOwner src]) ++ b := by simp
  rw [e, nRun_append, nRun_append] at hx
  rcases nRun_mem b _ (src, name) x hx with h1 | h1
  · rw [nRun_removeOwner_clears] at h1; cases h1
  · exact h1

/-! ### non-vacuity, trace level: the ledger of `demoWaiters` after its frame -/
example : nRun [] [.reg 50 7 101, .reg 50 7 102] = (runOps {} demoWaiters).notify ∧
    nRun [] [.reg 50 7 101, .reg 50 7 102, .notify 50 7] = (runOps {} (demoWaiters ++ [.step 5])).notify := by
  decide +kernel

/-! ### destroyed threads never proceed (with the creation / destruction ledger of `Props/C13.lean`) -/

/-- `StoppedWaitFor` on a thread that has no record or has lost its VM does nothing: it is neither executed, nor
    resumed, nor re-timed (for any fuel; with no fuel the call only raises the fuel flag). -/
theorem C07_machine_destroyed_not_woken (fuel : Nat) (s : State) (t name : Nat) (d : Bool)
    (h : ∀ th, s.th? t = some th → th.hasVM = false) :
    stoppedWaitFor fuel s t name d = s ∨ stoppedWaitFor fuel s t name d = { s with outOfFuel := true } := by
  cases fuel with
  | zero => right; rw [stoppedWaitFor_zero]
  | succ fuel =>
    left
    rw [stoppedWaitFor_succ]
    split
    · rfl
    · cases hf : s.th? t with
      | none => rfl
      | some th =>
        simp only
        rw [h th hf]
        rfl

/-- **A destroyed thread never proceeds, trace level.**  In the ledger of thread creations and destructions of any
    reachable state, a thread id with a destruction record has no record in the state (ids are never reused), so
    every later `StoppedWaitFor` on it — from a notify that still lists it, from the removal of a source, from a
    cancelled wait — does nothing: threads destroyed by `endon`, by the removal of the source they waited on, or by
    `Reset()` never run again. -/
theorem C07_trace_destroyed_never_wakes {s : State} (h : Reachable s) :
    ∃ opsT : List POp, pRun pool0T opsT = some (absT s) ∧
      ∀ t, POp.del t ∈ opsT → s.th? t = none ∧
        ∀ fuel name d, stoppedWaitFor fuel s t name d = s ∨ stoppedWaitFor fuel s t name d = { s with outOfFuel := true } := by
  obtain ⟨⟨opsT, hT⟩, _⟩ := reachable_life_history h
  refine ⟨opsT, hT, ?_⟩
  intro t hd
  have hnone : s.th? t = none := by
    cases hf : s.th? t with
    | none => rfl
    | some th =>
      exfalso
      rw [State.th?_eq] at hf
      have hm : t ∈ (absT s).ids := List.mem_map.2 ⟨(t, th), thFind_some_mem hf, rfl⟩
      exact ((mem_after opsT t pool0T_good hT).1 hm).2 hd
  exact ⟨hnone, fun fuel name d => C07_machine_destroyed_not_woken fuel s t name d (fun th hf => by rw [hnone] at hf; cases hf)⟩

/-! ## Call level: what happens inside the very call of a notify / a removal

The statements tie a particular `Unregister(name)` / `UnregisterAll` to what is true when *that call* returns; the
loop invariant is "processed ⇒ no VM", kept by everything that runs afterwards inside the call (later iterations,
nested executions of woken waiters) because no function of the machine ever gives a VM back (`hvAll`).  "No VM"
(`NoVM`: no record, or a record whose `m_ScriptVM` is gone) is what makes every later `StoppedWaitFor`, timer
resumption or execution of that thread impossible (`C07_machine_destroyed_not_woken`). -/

/-- **`endon` destroys, call level.**  `o notify n` (`Unregister(n)` on `o`) called in a state satisfying the machine
    invariant: when the call returns (unless out of fuel) every thread that was listed under `endon (o, n)` at the
    moment of the call (and had a record; the notifying listener itself is handled by the C++ special case) has no
    VM — it was deleted by the `endon` loop of this call, before any waiter of `(o, n)` was woken, and nothing that
    ran afterwards inside the call revived it. -/
theorem C07_call_endon_destroys (fuel : Nat) {C W : List Nat} {s : State} (h : Inv C W none s) (o n : Nat)
    (listeners : List Nat) (he : Tbl.hasOwner s.endOn o = true) (hf : Tbl.find s.endOn (o, n) = some listeners) :
    (unregister (fuel + 2) s o n).outOfFuel = true ∨
      ∀ l ∈ listeners, l ≠ o → (∃ th, s.th? l = some th) →
        ∀ th', (unregister (fuel + 2) s o n).th? l = some th' → th'.hasVM = false :=
  unregister_endon_destroys fuel h o n listeners he hf

/-- **A removed source destroys its waiters, call level.**  `UnregisterAll` of `src` (every listener's destructor:
    object removal, thread destruction) called in a state satisfying the machine invariant: when the call returns
    (unless out of fuel) every listener that was registered on `src` — under any name — when the kill loop of this
    call started (i.e. after its `Unregister(0)`, which re-times the `waitthread` callers) has no VM: it was deleted,
    never woken.  (A listener registered in `s` that is no longer registered after `Unregister(0)` was cancelled or
    destroyed by that cascade.) -/
theorem C07_call_removed_source_destroys_waiters (fuel : Nat) {C W : List Nat} {s : State} (h : Inv C W none s)
    (src : Nat) :
    (unregisterAll (fuel + 3) s src).outOfFuel = true ∨
      ∀ n x, x ∈ Tbl.getD (unregister (fuel + 2) s src 0).notify (src, n) →
        ∀ th', (unregisterAll (fuel + 3) s src).th? x = some th' → th'.hasVM = false := by
  rw [unregisterAll_succ]
  have P := presAll (fuel + 2)
  refine ((iAll (fuel + 2)).ur C W s src 0 h (Or.inr (Or.inl rfl))).bind ?_ (fun p => ?_)
  · exact (Pres.of_eq rfl rfl rfl : Pres (unregister (fuel + 2) s src 0)
      { (unregister (fuel + 2) s src 0) with endOn := Tbl.removeOwner (unregister (fuel + 2) s src 0).endOn src }).trans
      (uaRest_pres P.swf P.sn _ _)
  exact uaRest_destroys_waiters fuel (p.1.setEndOn _ (fun o ho => Or.inl (Tbl.hasOwner_removeOwner ho))) src

/-- **`waitthread`: blocked while the callee lives, released by its destruction — call level (partial).**
    (1) In every reachable state a thread registered on channel 0 of a thread `t` (a `waitthread` caller; the mirror
    entry is the only way to be `waiting` on it) finds `t` alive: as long as the caller is blocked the callee has not
    been destroyed.  (2) `delete thread` of `t` (which has its VM), called in a state satisfying the machine
    invariant, returns — unless out of fuel — with `t` without VM, nothing registered on `t`, and every thread that was
    registered only on channel 0 of `t` no longer `waiting` (re-timed by the `Unregister(0)` of `t`'s destructor, to be
    resumed by the next `ExecuteRunning`; or destroyed).  With `C05_machine_end_writes_slot`: the callee's `end v` wrote
    its result before this destructor ran.
    The converse ("released by nothing else than the end of the callee") is `C07_call_waitthread_only_release` below
    (side condition `WTSafe`); the name keeps its `_partial` because this theorem alone is half of the clause. -/
theorem C07_call_waitthread_partial :
    (∀ {s : State}, Reachable s → s.outOfFuel = true ∨
      ∀ c t, t ∈ Tbl.getD s.waitFor (c, 0) → s.alive t = true ∧
        ∃ th, s.th? c = some th ∧ th.ts = .waiting ∧ th.dead = false) ∧
    (∀ (fuel : Nat) {C : List Nat} {s : State} {t : Nat} {th : Th}, Inv C [t] none s → s.th? t = some th →
      th.hasVM = true →
      (deleteThread (fuel + 1) s t).outOfFuel = true ∨
        ((∀ th', (deleteThread (fuel + 1) s t).th? t = some th' → th'.hasVM = false) ∧
         (∀ n, Tbl.getD (deleteThread (fuel + 1) s t).notify (t, n) = []) ∧
         (∀ c, (∀ n o, o ∈ Tbl.getD s.waitFor (c, n) → n = 0 ∧ o = t) →
            ∀ th', (deleteThread (fuel + 1) s t).th? c = some th' → th'.ts ≠ .waiting))) := by
  constructor
  · intro s h
    refine (reachable_hinv h).map (fun hi c t ht => ?_)
    have hx : c ∈ Tbl.getD s.notify (t, 0) := (hi.inv.tab.mir.mem_iff t 0 c).2 ht
    obtain ⟨a1, _, th, hf, hw, hd, _⟩ := hi.inv.registered_waiting hx
    exact ⟨a1, th, hf, hw, hd⟩
  · intro fuel C s t th h hth hv
    exact deleteThread_releases_callers fuel h hth hv

/-- a program in which no script releases a `waitthread` caller behind the callee's back: no `local.p0 wait d`
    (`Wait(d)` sent to the spawning thread) and no `local.p0 notify 0` -/
def Instr.plainWaitthread : Instr → Prop
  | .waitParent _ => False
  | .notifyParent n => n ≠ 0
  | _ => True

def PlainWaitthread (p : List (List Instr)) : Prop := ∀ body ∈ p, ∀ ins ∈ body, ins.plainWaitthread

instance (i : Instr) : Decidable i.plainWaitthread := by
  cases i <;> unfold Instr.plainWaitthread <;> infer_instance

instance (p : List (List Instr)) : Decidable (PlainWaitthread p) := by unfold PlainWaitthread; infer_instance

/-- a realistic `waitthread` program (caller waits for a callee that waits 5 ms and ends with a value) is in the class;
    the `hub` generator family is **not** (it uses `local.p0 wait d`) -/
example : PlainWaitthread [[.mark 1, .waitthread 1, .mark 2], [.wait 5, .end_ (.lit 7)]] ∧
    ¬ PlainWaitthread [[.thread 1], [.waitParent 5]] := by decide

/-- **`waitthread`: released only through three doors — call level (partial).**  For every host operation (hence for
    every frame, host call, Reset …, with all nested executions), in the ledger of notify-table operations of that
    operation: a thread `c` registered on channel 0 of `t` before is still registered after, **or** the operation
    performed `Unregister(0)` on `t`, or `UnregisterAll` on `t`, or a `CancelWaiting` of `c` itself.  No invariant, no
    fuel condition.
    Who opens these doors: `UnregisterAll(t)` only `t`'s destructor; `Unregister(0)` on a thread: `t`'s destructor (inside
    `UnregisterAll`) and the instruction `local.p0 notify 0` — a script `o notify n` always addresses an alive *object* —
    which `PlainWaitthread` excludes; `CancelWaiting(c)`: `c`'s own `Stop()` — when `c` is destroyed, when it is re-timed
    by `Unregister(0)` (door 1), or when another thread sends it `Wait(d)` (`local.p0 wait d`), which `PlainWaitthread`
    excludes.  This is the ledger form (no invariant, any state); the statement about *who* performs these operations
    — and that each of them ends the callee — is `C07_call_waitthread_only_release` below, which supersedes the
    argument above (and shows that `local.p0 wait d` need not be excluded: it destroys the callee). -/
theorem C07_call_waitthread_only_release_partial (s : State) (op : HostOp) (hne : op ≠ .reset) (c t : Nat)
    (h : c ∈ Tbl.getD s.notify (t, 0)) :
    c ∈ Tbl.getD (op.apply s).notify (t, 0) ∨
      ∃ ops : List NOp, nRun s.notify ops = (op.apply s).notify ∧ ∃ o ∈ ops,
        o = .notify t 0 ∨ (∃ al list, o = .purge al c 0 list) ∨ (∃ al keys, o = .multiPurge al c keys) ∨
          o = .removeOwner t := by
  obtain ⟨ops, hr⟩ := HostOp.apply_nn s op hne
  rcases nRun_keeps ops s.notify c t 0 h with h1 | ⟨o, ho, hrel⟩
  · left; rw [← hr]; exact h1
  · exact Or.inr ⟨ops, hr, o, ho, hrel⟩

/-! ### `waitthread`: the caller proceeds only after the callee has ended

`wtrAll` (`Sched/MachineWaitthread.lean`), lifted to the driver's commands by `HostOp.apply_wtr`.  Side condition on the
program, decidable, `WTSafe p`: no `local.p0 notify 0` (a script-level notify on channel 0 of a thread), and the object
literals of `notify` / `delete` are object ids (`< 100`).  Every generator family satisfies it (the `hub` family notifies
its parent under names 1 and 2 only).  `local.p0 wait d` is **allowed**: it cancels the caller's registration, and the
cancel loop then calls `StoppedNotify` on the callee, which deletes it — the callee has ended all the same. -/

example : WTSafe [[.mark 1, .waitthread 1, .mark 2], [.wait 5, .end_ (.lit 7)]] ∧
    WTSafe [[.thread 1], [.waitthread 2, .mark 1], [.waitParent 5, .notifyParent 2, .notify 50 3]] ∧
    ¬ WTSafe [[.waitthread 1], [.notifyParent 0]] := by decide

/-- **A `waitthread` caller proceeds only after the callee has ended.**  For every reachable state whose program is
    `WTSafe`, every driver command `op` (compile, host call, frame, `Reset()`, … with all nested executions, cascades
    and wake loops), every thread `t` and listener `c` registered on channel 0 of `t` (what `waitthread` does with the
    caller): unless the command runs out of fuel,
    * afterwards `c` is still registered on channel 0 of `t`, or `t` has no VM (the callee has ended: `end`, or
      destroyed);
    * if afterwards `c` has a record that is not `waiting` (it is `running` or re-timed), then `t` has no VM.
    How the caller can be released at all (enumeration, each case covered by the proof): (1) the callee's destructor
    (`Unregister(0)` / `UnregisterAll` of `t` — after `m_ScriptVM = nullptr`); (2) `CancelWaiting` of the caller — its
    own destruction (`Reset()`, instance kill, `endon`, removal of an object it also waits on, being a waiter of a
    removed source), a `waittill_timeout` event, `Wait(d)` sent to it by a child, a notify on another entry it holds:
    in each of them `CancelWaitingSources` reports `t` as stopped and `t->StoppedNotify()` deletes the callee;
    (3) script-level `Unregister(0)` on `t`: excluded by `WTSafe` (`local.p0 notify 0`; `o notify n` / `delete o`
    address objects).  Together with `C07_call_waitthread_partial` (blocked ⇒ callee alive; the callee's destruction
    releases the caller) this is the property's `waitthread` clause. -/
theorem C07_call_waitthread_only_release {s : State} (h : Reachable s) (hp : WTSafe s.prog) (op : HostOp)
    (hok : op.ok) (c t : Nat) (ht : 100 ≤ t) (hc : c ∈ Tbl.getD s.notify (t, 0)) :
    (op.apply s).outOfFuel = true ∨
      ((c ∈ Tbl.getD (op.apply s).notify (t, 0) ∨ (op.apply s).hasVM t = false) ∧
       (∀ th', (op.apply s).th? c = some th' → th'.ts ≠ .waiting → (op.apply s).hasVM t = false)) := by
  by_cases hreset : op = .reset
  · subst hreset
    exact Or.inr ⟨Or.inr rfl, fun _ _ _ => rfl⟩
  rcases reachable_hinv h with ho | hi
  · exact Or.inl (HostOp.apply_oof op hreset ho)
  have hlt : t < s.nextTid := by
    obtain ⟨a1, _⟩ := hi.inv.registered_waiting hc
    rw [State.alive_thread _ (by simpa [State.isThread] using ht)] at a1
    cases hf : thFind s.threads t with
    | none => rw [aliveTh_false_of_none hf] at a1; cases a1
    | some th => exact (hi.inv.n.range t th hf).2
  have r := HostOp.apply_wtr ht s op hp hlt hc
  rcases reachable_hinv (Reachable.step op h hok) with ho' | hi'
  · exact Or.inl ho'
  cases hof : (op.apply s).outOfFuel with
  | true => exact Or.inl rfl
  | false =>
  right
  have hended : Ended t (op.apply s) → (op.apply s).hasVM t = false := by
    intro g
    rcases g with g | g
    · unfold State.hasVM
      rw [State.th?_eq]
      cases hf : thFind (op.apply s).threads t with
      | none => rfl
      | some th =>
        simp only
        cases hv : th.hasVM with
        | false => rfl
        | true =>
          exfalso
          cases hd : th.dead with
          | false => exact g ⟨th, hf, hv, hd⟩
          | true => have := ((hi'.inv.th t th hf).f2 hd).1; rw [hv] at this; cases this
    · rw [hof] at g; cases g
  refine ⟨r.imp_right hended, fun th' hf' hnw => ?_⟩
  rcases r with r | r
  · exfalso
    obtain ⟨_, _, th, hf, hw, _⟩ := hi'.inv.registered_waiting r
    rw [hf'] at hf; cases hf; exact hnw hw
  · exact hended r

/-- non-vacuity: after the host call the caller (100) is registered on channel 0 of the callee (101), which has its VM;
    the frame 5 ms later ends the callee, and the caller has proceeded (`m2`) -/
example :
    let A := runOps {} [.script [[.mark 1, .waitthread 1, .mark 2], [.wait 5, .end_ (.lit 7)]] [0, 0], .call 0 []]
    WTSafe A.prog ∧ Tbl.getD A.notify (101, 0) = [100] ∧ A.hasVM 101 = true ∧
      (HostOp.apply A (.step 5)).outOfFuel = false ∧ (HostOp.apply A (.step 5)).hasVM 101 = false ∧
      (HostOp.apply A (.step 5)).out = ["m2", "m1"] := by decide +kernel

/-- … and the `local.p0 wait d` case: the callee (101) sends `Wait(5)` to its caller (100): the caller is re-timed and the
    callee is destroyed on the spot (it never prints `m4`) -/
example :
    let B := runOps {} [.script [[.mark 1, .waitthread 1, .mark 2], [.mark 3, .waitParent 5, .mark 4, .wait 100]] [0, 0], .call 0 []]
    B.hasVM 101 = false ∧ B.timer.elems = [(100, 5)] ∧ B.out = ["m3", "m1"] := by decide +kernel

/-- non-vacuity: a thread that registered `endon` on `level` and then waits is destroyed by the notify of another
    thread, which proceeds (`m9`) -/
example : (runOps {} [.script [[.thread 1, .wait 5, .notify 50 7, .mark 9], [.endon 50 7, .wait 100, .mark 2]] [0, 0],
      .call 0 [], .step 5]).out = ["m9"] ∧
    (runOps {} [.script [[.thread 1, .wait 5, .notify 50 7, .mark 9], [.endon 50 7, .wait 100, .mark 2]] [0, 0],
      .call 0 [], .step 5]).threads = [] := by decide +kernel

end Morfuse.Sched
