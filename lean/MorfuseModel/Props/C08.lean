import MorfuseModel.EventQueue.Lemmas
/-!
# C08 — posted events: delivered once, not early, in due-time order, unless cancelled

Property theorems only (helpers are in `EventQueue/{LinkList,Spec,Refine,Lemmas}.lean`).  Every
statement is about the link-level model `State = MState LQ` (the transcription of
`EventQueue.cpp` / `LinkedList<T*>` that the driver runs against the real code) and about **every**
state reachable from `init b` by any finite sequence of host operations, for any budget `b`, any
handler tables (re-entrant post / cancel / destroy / clock movement inside a response), any number
of listeners and events.

Vocabulary: `pending s` is the queue as a walk over the `next` links; `delivered s` the events whose
response has been called, oldest first; `s.h.log` the delivery records (newest first) with the pass
time `passT` read once by `ProcessPendingEvents`, the clock at the call and, as a ghost, what was
still queued right after the node was unlinked (`rest`); `s.h.posted / cancelled` ghost ledgers;
`lt a b` the queue order (due time, then posting sequence number).
-/
namespace Morfuse.EventQueue
open Machine

/-- The queue is always ordered by due time and, among equal due times, by posting order. -/
theorem C08_queue_sorted {s : State} (h : Reachable s) : (pending s).Pairwise lt := by
  obtain ⟨ss, hr, hrel⟩ := reachable_spec h
  show (LQ.toList s.q).Pairwise lt
  rw [hrel.1.toList]; exact hr.inv.sorted

/-- The `prev/next` links, `rootnode` and `tail` always form a well-formed null-terminated doubly
    linked list of exactly the pending nodes, without repetition (`LinkedList<T*>` invariant;
    in particular `Insert` never needs to update `rootnode` where `PostEvent` calls it). -/
theorem C08_links_wellformed {s : State} (h : Reachable s) : Repr s.q ((pending s).map (·.id)) := by
  obtain ⟨ss, _, hrel⟩ := reachable_spec h
  show Repr s.q ((LQ.toList s.q).map (·.id))
  rw [hrel.1.toList]; exact hrel.1.1

/-- A pending event always belongs to a live listener (so `ProcessPendingEvents` never calls a
    response on a destroyed object) and is of a type the listener's class responds to. -/
theorem C08_pending_listener_alive {s : State} (h : Reachable s) :
    ∀ e ∈ pending s, e.lis ∈ s.h.alive ∧ hasResponse e.typ = true := by
  obtain ⟨ss, hr, hrel⟩ := reachable_spec h
  intro e he
  have he' : e ∈ ss.q := by rw [← hrel.1.toList]; exact he
  rw [hrel.2]
  exact ⟨hr.inv.qalive e he', hr.inv.qresp e he'⟩

/-- **Order.** Each delivery takes the least element (due time, then posting order) of what is
    pending at that moment — including what responses running earlier in the same pass posted. -/
theorem C08_deliver_is_min {s : State} (h : Reachable s) :
    ∀ d ∈ s.h.log, ∀ e ∈ d.rest, lt d.ev e := by
  obtain ⟨ss, hr, hrel⟩ := reachable_spec h
  rw [hrel.2]; exact hr.inv.min

/-- **Not early.** An event is delivered only by a pass whose time is at least its due time (and
    the pass time was the clock at the start of the pass). -/
theorem C08_not_early {s : State} (h : Reachable s) :
    ∀ d ∈ s.h.log, d.ev.due ≤ d.passT ∧ d.passT ≤ (d.clock : Int) ∧ d.clock ≤ s.h.now := by
  obtain ⟨ss, hr, hrel⟩ := reachable_spec h
  rw [hrel.2]; exact hr.inv.early

/-- **Not late.** A processing pass at time `t` terminates (the fuel the model gives the loop is
    never exhausted) and leaves nothing pending whose due time is `≤ t`; every delivery it made is
    recorded with pass time `t`.  Together with `C08_not_early` and `C08_exactly_once`: an event
    that is not cancelled is delivered in the first pass whose time is `≥` its due time. -/
theorem C08_not_late {s s' : State} (h : Reachable s) (hs : step s .process = some s') :
    (∀ e ∈ pending s', (s.h.now : Int) < e.due) ∧
    ∃ new, s'.h.log = new ++ s.h.log ∧ ∀ d ∈ new, d.passT = (s.h.now : Int) := by
  obtain ⟨ss, ss', hinv, hrel, hstep, hrel', _⟩ := step_transfer h hs
  constructor
  · simp only [Machine.step] at hstep
    cases hstep
    intro e he
    have he' : e ∈ (process ListQ.impl ss).q := by rw [← hrel'.1.toList]; exact he
    rw [hrel.2]
    exact not_late_spec hinv e he'
  · simp only [step, Machine.step] at hs
    cases hs
    exact processLoop_log LQ.impl _ _ s

/-- **Exactly once.** Everything that was put in the queue is, at any time, in exactly one of:
    delivered, cancelled, still pending; sequence numbers are unique, so no event is delivered
    twice, and none is both cancelled and delivered. -/
theorem C08_exactly_once {s : State} (h : Reachable s) :
    (delivered s ++ s.h.cancelled ++ pending s).Perm s.h.posted ∧
    (s.h.posted.map (·.id)).Nodup ∧
    (delivered s ++ s.h.cancelled ++ pending s).Nodup := by
  obtain ⟨ss, hr, hrel⟩ := reachable_spec h
  have hinv := hr.inv
  have hperm : (delivered s ++ s.h.cancelled ++ pending s).Perm s.h.posted := by
    show ((s.h.log.map (·.ev)).reverse ++ s.h.cancelled ++ LQ.toList s.q).Perm s.h.posted
    rw [hrel.1.toList, hrel.2]
    refine List.Perm.trans ?_ hinv.ledger
    exact List.Perm.append_right _ (List.Perm.append_right _ (List.reverse_perm _))
  have hnd : (s.h.posted.map (·.id)).Nodup := by
    rw [hrel.2]
    have := hinv.postedSorted
    rw [List.Nodup, List.pairwise_map]
    exact this.imp (fun {a b} hab => by omega)
  refine ⟨hperm, hnd, ?_⟩
  have : ((delivered s ++ s.h.cancelled ++ pending s).map (·.id)).Nodup :=
    (hperm.map (·.id)).nodup_iff.2 hnd
  exact List.Pairwise.of_map (·.id) (fun a b hab e => hab (by rw [e])) this

/-- **First pass.** An event that is pending and due when a pass starts is, when the pass returns,
    either delivered by that very pass (its record carries this pass's time) or was cancelled by a
    response that ran earlier in the pass; by `C08_not_early` no earlier pass delivered it. -/
theorem C08_first_pass {s s' : State} {e : Ev} (h : Reachable s) (hs : step s .process = some s')
    (he : e ∈ pending s) (hdue : e.due ≤ (s.h.now : Int)) :
    (∃ d ∈ s'.h.log, d.ev = e ∧ d.passT = (s.h.now : Int)) ∨ e ∈ s'.h.cancelled := by
  have h' : Reachable s' := reachable_step (ops := [.process]) h (by simp only [run, Machine.run]; unfold step at hs; rw [hs]; rfl)
  obtain ⟨hlate, new, hlog, hnew⟩ := C08_not_late h hs
  have l1 := C08_exactly_once h
  have l2 := C08_exactly_once h'
  have hposted : e ∈ s'.h.posted := by
    have : e ∈ s.h.posted := l1.1.mem_iff.1 (List.mem_append_right _ he)
    exact (grows_step LQ.impl hs).2 e this
  have hmem := l2.1.mem_iff.2 hposted
  simp only [List.mem_append] at hmem
  rcases hmem with (hd | hc) | hp
  · left
    -- delivered in `s'` but pending, hence not delivered, in `s`: the record is one of the new ones
    have hnd : e ∉ delivered s := by
      have := l1.2.2
      rw [List.nodup_append] at this
      intro hd0
      exact this.2.2 e (List.mem_append_left _ hd0) e he rfl
    simp only [delivered, List.mem_reverse, List.mem_map] at hd hnd
    obtain ⟨d, hdl, hde⟩ := hd
    rw [hlog] at hdl
    rcases List.mem_append.1 hdl with h1 | h1
    · exact ⟨d, by rw [hlog]; exact List.mem_append_left _ h1, hde, hnew d h1⟩
    · exact absurd ⟨d, h1, hde⟩ hnd
  · exact Or.inr hc
  · have := hlate e hp; omega

/-- **Cancelled means never delivered.** Once an event is in the cancelled ledger it stays there,
    and in no later state is it delivered or pending again. -/
theorem C08_cancelled_never_delivered {s s' : State} {ops : List Op} {e : Ev} (h : Reachable s)
    (he : e ∈ s.h.cancelled) (hr : run s ops = some s') : e ∉ delivered s' ∧ e ∉ pending s' := by
  have he' : e ∈ s'.h.cancelled := (grows_run LQ.impl ops hr).1 e he
  have hnd := (C08_exactly_once (reachable_step h hr)).2.2
  rw [List.nodup_append] at hnd
  obtain ⟨h1, _, h3⟩ := hnd
  rw [List.nodup_append] at h1
  constructor
  · intro hd; exact h1.2.2 e hd e he' rfl
  · intro hp; exact h3 e (List.mem_append_right _ he') e hp rfl

/-- **Posting.** An accepted post (live listener, event type with a response) creates the event
    `(next sequence number, listener, type, now + delay, flags)` and puts it after every pending
    event whose due time is not later and before every pending event whose due time is later. -/
theorem C08_post_enqueues {s s' : State} {l typ f : Nat} {d : Int} (h : Reachable s)
    (hs : step s (.act (.post l typ d f)) = some s') (hresp : hasResponse typ = true) :
    let e : Ev := ⟨s.h.nextId, l, typ, (s.h.now : Int) + d, f⟩
    pending s' = (pending s).takeWhile (ListQ.leDue e.due) ++ e :: (pending s).dropWhile (ListQ.leDue e.due) ∧
    s'.h.posted = e :: s.h.posted ∧ s'.h.log = s.h.log ∧ s'.h.cancelled = s.h.cancelled := by
  obtain ⟨ss, ss', hinv, hrel, hstep, hrel', _⟩ := step_transfer h hs
  have hty : ¬ (typ = 0 ∨ hasResponse typ = false) := by
    intro c; rcases c with c | c
    · subst c; simp [hasResponse] at hresp
    · rw [hresp] at c; cases c
  simp only [Machine.step] at hstep
  split at hstep
  · rename_i hl
    have hal : l ∈ ss.h.alive := by simpa [Act.legalTop] using hl
    cases hstep
    simp only [applyAct, hal, not_true_eq_false, if_false, hty] at hrel'
    have hq := hrel'.1.toList
    have hh := hrel'.2
    simp only [pending]
    rw [hq, hrel.1.toList, hh, hrel.2]
    have hd : ss.q.Pairwise (fun a b => a.due ≤ b.due) := hinv.sorted.imp lt_due_le
    simp only [Bool.false_eq_true, false_and, if_false]
    refine ⟨postL_eq_insert hd, ?_, ?_, ?_⟩ <;> first | rfl | trivial
  · cases hstep

/-- **Cancel by listener and event type** removes exactly the pending events of that listener and
    type (they go to the cancelled ledger) and nothing else; nothing is delivered by it. -/
theorem C08_cancel_by_type {s s' : State} {l typ : Nat} (h : Reachable s)
    (hs : step s (.act (.cancelType l typ)) = some s') :
    pending s' = (pending s).filter (fun e => !(e.lis == l && e.typ == typ)) ∧ s'.h.log = s.h.log ∧
    s'.h.cancelled = ((pending s).filter (fun e => e.lis == l && e.typ == typ)).reverse ++ s.h.cancelled ∧
    s'.h.posted = s.h.posted :=
  cancel_transfer (p := matchType l typ) h hs (fun _ => rfl) (fun ss hal => by
    simp only [applyAct, hal, not_true_eq_false, if_false]
    refine ⟨?_, ?_, ?_, ?_⟩ <;> first | rfl | trivial)

/-- **Cancel by listener** removes exactly that listener's pending events. -/
theorem C08_cancel_by_listener {s s' : State} {l : Nat} (h : Reachable s)
    (hs : step s (.act (.cancelAll l)) = some s') :
    pending s' = (pending s).filter (fun e => !(e.lis == l)) ∧ s'.h.log = s.h.log ∧
    s'.h.cancelled = ((pending s).filter (fun e => e.lis == l)).reverse ++ s.h.cancelled ∧
    s'.h.posted = s.h.posted :=
  cancel_transfer (p := matchAll l) h hs (fun _ => rfl) (fun ss hal => by
    simp only [applyAct, hal, not_true_eq_false, if_false]
    refine ⟨?_, ?_, ?_, ?_⟩ <;> first | rfl | trivial)

/-- **Cancel by flag** removes exactly that listener's pending events whose flags meet the mask
    (`node->flags & flags`; a zero mask therefore cancels nothing). -/
theorem C08_cancel_by_flag {s s' : State} {l f : Nat} (h : Reachable s)
    (hs : step s (.act (.cancelFlag l f)) = some s') :
    pending s' = (pending s).filter (fun e => !(e.lis == l && (e.flags &&& f) != 0)) ∧ s'.h.log = s.h.log ∧
    s'.h.cancelled = ((pending s).filter (fun e => e.lis == l && (e.flags &&& f) != 0)).reverse ++ s.h.cancelled ∧
    s'.h.posted = s.h.posted :=
  cancel_transfer (p := matchFlag l f) h hs (fun _ => rfl) (fun ss hal => by
    simp only [applyAct, hal, not_true_eq_false, if_false]
    refine ⟨?_, ?_, ?_, ?_⟩ <;> first | rfl | trivial)

/-- **Destroying a listener** cancels exactly its pending events; the listener is gone afterwards
    (and by `C08_cancelled_never_delivered` none of them is ever delivered). -/
theorem C08_destroy_cancels {s s' : State} {l : Nat} (h : Reachable s)
    (hs : step s (.act (.destroy l)) = some s') :
    (pending s' = (pending s).filter (fun e => !(e.lis == l)) ∧ s'.h.log = s.h.log ∧
     s'.h.cancelled = ((pending s).filter (fun e => e.lis == l)).reverse ++ s.h.cancelled ∧
     s'.h.posted = s.h.posted) ∧ l ∉ s'.h.alive := by
  refine ⟨cancel_transfer (p := matchAll l) h hs (fun _ => rfl) (fun ss hal => by
    simp only [applyAct, hal, not_true_eq_false, if_false]
    refine ⟨?_, ?_, ?_, ?_⟩ <;> first | rfl | trivial), ?_⟩
  simp only [step, Machine.step] at hs
  split at hs
  · rename_i hlt
    have hal : l ∈ s.h.alive := by simpa [Act.legalTop] using hlt
    cases hs
    simp only [applyAct, hal, not_true_eq_false, if_false]
    simp [List.mem_filter]
  · cases hs

/-- **Posting order among equal due times.** Of two delivered events with the same due time the one
    posted first was delivered first (no assumption on delays). -/
theorem C08_fifo_among_ties {s : State} (h : Reachable s) :
    (delivered s).Pairwise (fun a b => a.due = b.due → a.id < b.id) := by
  obtain ⟨ss, hr, hrel⟩ := reachable_spec h
  show ((s.h.log.map (·.ev)).reverse).Pairwise _
  rw [hrel.2, List.pairwise_reverse, List.pairwise_map]
  exact hr.inv.logfifo

/-- **Non-decreasing due-time order.** When no post (top level or inside a response) uses a negative
    delay, the whole delivery sequence is strictly increasing in (due time, posting order).
    With negative delays only `C08_deliver_is_min` holds: a response may post an event that is
    already overdue, which is then delivered after events with a later due time. -/
theorem C08_nondecreasing {b : Nat} {ops : List Op} {s : State} (hops : ∀ op ∈ ops, Op.sat Act.nonneg op)
    (h : run (init b) ops = some s) : (delivered s).Pairwise lt := by
  obtain ⟨ss, hr, _, hh, _⟩ := refines h
  have := InvN.preserved.run ops hops ⟨InvS.init b, InvN.init b⟩ hr
  show ((s.h.log.map (·.ev)).reverse).Pairwise _
  rw [hh, List.pairwise_reverse, List.pairwise_map]
  exact this.2.logsorted

/-! ### non-vacuity: concrete reachable states that meet the hypotheses

The histories are evaluated on the list specification by `decide` and carried to the link-level
model by the converse direction of the refinement (`reachable_of_spec`). -/

/-- two listeners; the response of (1, type 1) re-posts to listener 2 with delay 0 (delivered in the
    same pass, after the tie that was posted earlier) and cancels listener 1's flagged events -/
def demoOps : List Op :=
  [.newl 1, .newl 2, .handler 1 1 [.post 2 2 0 0, .cancelFlag 1 2],
   .act (.post 1 1 5 0), .act (.post 2 2 5 1), .act (.post 1 3 7 2), .act (.post 1 2 9 0), .act (.tick 5), .process]

theorem demo_reach : ∃ s, Reachable s ∧ (delivered s).map (·.id) = [1, 2, 5] ∧ (pending s).map (·.id) = [4] ∧
    s.h.cancelled.map (·.id) = [3] ∧ s.h.alive = [2, 1] ∧ s.h.now = 5 := by
  have hspec : ∃ ss, Machine.run ListQ.impl (Machine.init ListQ.impl 2) demoOps = some ss ∧
      (ss.h.log.map (·.ev)).reverse.map (·.id) = [1, 2, 5] ∧ ss.q.map (·.id) = [4] ∧
      ss.h.cancelled.map (·.id) = [3] ∧ ss.h.alive = [2, 1] ∧ ss.h.now = 5 := ⟨_, rfl, by decide⟩
  obtain ⟨ss, hr, h1, h2, h3, h4, h5⟩ := hspec
  obtain ⟨s, hs, hp, hh⟩ := reachable_of_spec hr
  refine ⟨s, ⟨2, demoOps, hs⟩, ?_, ?_, ?_, ?_, ?_⟩
  · show ((s.h.log.map (·.ev)).reverse).map (·.id) = _
    rw [hh]; exact h1
  · rw [hp]; exact h2
  · rw [hh]; exact h3
  · rw [hh]; exact h4
  · rw [hh]; exact h5

/-- hypotheses of the state theorems: a reachable state with deliveries, a cancelled and a pending event -/
example : ∃ s, Reachable s ∧ s.h.log ≠ [] ∧ pending s ≠ [] ∧ s.h.cancelled ≠ [] := by
  obtain ⟨s, h, h1, h2, h3, _⟩ := demo_reach
  refine ⟨s, h, ?_, ?_, ?_⟩
  · intro e; simp [delivered, e] at h1
  · intro e; simp [e] at h2
  · intro e; simp [e] at h3

/-- hypotheses of the step theorems: from that state a pass, a post, each cancel and a destroy are accepted -/
example : ∃ s, Reachable s ∧ (step s .process).isSome ∧ (step s (.act (.post 2 1 (-3) 0))).isSome ∧
    (step s (.act (.cancelType 1 2))).isSome ∧ (step s (.act (.cancelAll 1))).isSome ∧
    (step s (.act (.cancelFlag 1 1))).isSome ∧ (step s (.act (.destroy 1))).isSome := by
  obtain ⟨s, h, _, _, _, h4, _⟩ := demo_reach
  refine ⟨s, h, ?_⟩
  simp [step, Machine.step, Act.legalTop, h4]

/-- hypothesis of `C08_nondecreasing`: the demo history uses no negative delay -/
example : ∀ op ∈ demoOps, Op.sat Act.nonneg op := by
  simp [demoOps, Op.sat, Act.nonneg]

/-- ...and the hypothesis is needed: a response that posts with a negative delay gets its event
    delivered after an event with a later due time (due times 3, 1, 4 in delivery order) -/
example : ∃ s, Reachable s ∧ (delivered s).map (·.due) = [3, 1, 4] := by
  have hspec : ∃ ss, Machine.run ListQ.impl (Machine.init ListQ.impl 1)
      [.newl 1, .handler 1 1 [.post 1 2 (-9) 0], .act (.post 1 1 3 0), .act (.post 1 3 4 0), .act (.tick 10), .process] = some ss ∧
      (ss.h.log.map (·.ev)).reverse.map (·.due) = [3, 1, 4] := ⟨_, rfl, by decide⟩
  obtain ⟨ss, hr, h1⟩ := hspec
  obtain ⟨s, hs, _, hh⟩ := reachable_of_spec hr
  exact ⟨s, ⟨1, _, hs⟩, by show ((s.h.log.map (·.ev)).reverse).map (·.due) = _; rw [hh]; exact h1⟩

end Morfuse.EventQueue
