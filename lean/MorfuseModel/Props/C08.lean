import MorfuseModel.EventQueue.Original
/-!
# C08 — posted events: delivered once, not early, in due-time order, unless cancelled

Property theorems only (helpers are in `EventQueue/{LinkList,Spec,Refine,Lemmas}.lean`).  Every
statement is about the link-level model `State = MState LQ` (the transcription of
`EventQueue.cpp` / `LinkedList<T*>` that the driver runs against the real code) and about **every**
state reachable from `init b` by any finite sequence of host operations, for any budget `b`, any
handler tables (re-entrant post / cancel / destroy / clock movement inside a response), any number
of listeners and events.

The operations are: post / the three cancels / destroy / clock / `PostponeEvent` / `PostponeAllEvents` (each at
top level or inside a response), `ProcessEvents`, the per-listener pass `Listener::ProcessPendingEvents`,
`ClearEventList`, and an `Archive` save + load of the queue.  `step / run / Reachable` are the model in the
*repaired* configuration (`Cfg.repaired`: `Postpone…` re-links by `Add / AddFirst / Insert`, the loading branch
of `Archive` stores the event); `stepC / runC / ReachableC Cfg.original` the code as it was found
(`notes/C08-findings.md` F1, F2), about which the last section proves that the property fails.  Which of the two the
source text is, is read by the translator on every run (`Gen/EventQueueCfg.lean`).

Vocabulary: `pending s` is the queue as a walk over the `next` links; `delivered s` the events whose
response has been called, oldest first; `s.h.log` the delivery records (newest first) with the pass
time `passT` read once by `ProcessPendingEvents`, the clock at the call and, as a ghost, what was
still queued right after the node was unlinked (`rest`); `s.h.posted / cancelled` ghost ledgers;
`lt a b` the queue order (due time, then enqueue stamp `ord`: the posting order, renewed by a postponement;
`C08_stamp_is_posting_order`: without postponements `ord = id`).  A postponement supersedes the version of the
event that was queued (`s.h.postponed`) by a new version with the same `id, lis, typ, flags` (`s.h.posted` lists
every version).
-/
namespace Morfuse.EventQueue
open Machine

/-- The queue is always ordered by due time and, among equal due times, by posting order. -/
theorem C08_queue_sorted {s : State} (h : Reachable s) : (pending s).Pairwise lt := by
  obtain ⟨ss, hr, hrel⟩ := reachable_spec h
  show (LQ.toList s.q).Pairwise lt
  rw [hrel.1.toList]; exact hr.inv.sorted

/-- The `prev/next` links, `rootnode` and `tail` always form a well-formed null-terminated doubly
    linked list of exactly the pending nodes, without repetition (`LinkedList<T*>` invariant;
    in particular `Insert` never needs to update `rootnode` where `PostEvent` calls it). -/
theorem C08_links_wellformed {s : State} (h : Reachable s) : Repr s.q ((pending s).map (·.id)) := by
  obtain ⟨ss, _, hrel⟩ := reachable_spec h
  show Repr s.q ((LQ.toList s.q).map (·.id))
  rw [hrel.1.toList]; exact hrel.1.1

/-- **No undefined behaviour** is reached by the repaired code: the null cursor of `Postpone…` and the unset
    `node->event` of the loading branch of `Archive` are gone. -/
theorem C08_no_ub {s : State} (h : Reachable s) : s.h.ub = false := by
  obtain ⟨ss, hr, hrel⟩ := reachable_spec h
  rw [hrel.2]; exact hr.inv.noub

/-- A pending event always belongs to a live listener (so `ProcessPendingEvents` never calls a
    response on a destroyed object) and is of a type the listener's class responds to. -/
theorem C08_pending_listener_alive {s : State} (h : Reachable s) :
    ∀ e ∈ pending s, e.lis ∈ s.h.alive ∧ hasResponse e.typ = true := by
  obtain ⟨ss, hr, hrel⟩ := reachable_spec h
  intro e he
  have he' : e ∈ ss.q := by rw [← hrel.1.toList]; exact he
  rw [hrel.2]
  exact ⟨hr.inv.qalive e he', hr.inv.qresp e he'⟩

/-- **Order.** Each delivery of a global pass takes the least element (due time, then enqueue order) of
    what is pending at that moment — including what responses running earlier in the same pass posted
    or postponed; each delivery of a per-listener pass the least among that listener's pending events. -/
theorem C08_deliver_is_min {s : State} (h : Reachable s) :
    ∀ d ∈ s.h.log, ∀ e ∈ d.rest, (d.glob = true ∨ e.lis = d.ev.lis) → lt d.ev e := by
  obtain ⟨ss, hr, hrel⟩ := reachable_spec h
  rw [hrel.2]; exact hr.inv.min

/-- **Not early.** An event is delivered only by a pass whose time is at least its due time (and
    the pass time was the clock at the start of the pass). -/
theorem C08_not_early {s : State} (h : Reachable s) :
    ∀ d ∈ s.h.log, d.ev.due ≤ d.passT ∧ d.passT ≤ (d.clock : Int) ∧ d.clock ≤ s.h.now := by
  obtain ⟨ss, hr, hrel⟩ := reachable_spec h
  rw [hrel.2]; exact hr.inv.early

/-- **Not late.** A processing pass at time `t` terminates (the fuel the model gives the loop is
    never exhausted) and leaves nothing pending whose due time is `≤ t`; every delivery it made is
    recorded with pass time `t`.  Together with `C08_not_early` and `C08_exactly_once`: an event
    that is not cancelled is delivered in the first pass whose time is `≥` its due time. -/
theorem C08_not_late {s s' : State} (h : Reachable s) (hs : step s .process = some s') :
    (∀ e ∈ pending s', (s.h.now : Int) < e.due) ∧
    ∃ new, s'.h.log = new ++ s.h.log ∧ ∀ d ∈ new, d.passT = (s.h.now : Int) ∧ d.glob = true := by
  obtain ⟨ss, ss', hinv, hrel, hstep, hrel', _⟩ := step_transfer h hs
  constructor
  · simp only [Machine.step] at hstep
    cases hstep
    intro e he
    have he' : e ∈ (process ListQ.impl ss).q := by rw [← hrel'.1.toList]; exact he
    rw [hrel.2]
    exact not_late_spec hinv e he'
  · simp only [step, Machine.step] at hs
    cases hs
    exact processLoop_log LQ.impl _ _ s

/-- **Exactly once.** Every version of every event that was put in the queue is, at any time, in exactly one
    of: superseded by a postponement, delivered, cancelled, still pending; stamps are unique.  No event (by
    sequence number) occurs twice among delivered / cancelled / pending — so none is delivered twice and none
    is both cancelled and delivered — and every event that was ever posted occurs there: none is lost. -/
theorem C08_exactly_once {s : State} (h : Reachable s) :
    (s.h.postponed ++ (delivered s ++ s.h.cancelled ++ pending s)).Perm s.h.posted ∧
    (s.h.posted.map (·.ord)).Nodup ∧
    ((delivered s ++ s.h.cancelled ++ pending s).map (·.id)).Nodup ∧
    (∀ e ∈ s.h.posted, e.id ∈ (delivered s ++ s.h.cancelled ++ pending s).map (·.id)) ∧
    (s.h.postponed ++ (delivered s ++ s.h.cancelled ++ pending s)).Nodup := by
  obtain ⟨ss, hr, hrel⟩ := reachable_spec h
  have hinv := hr.inv
  have hrev : (delivered s ++ s.h.cancelled ++ pending s).Perm (live ss) := by
    show ((s.h.log.map (·.ev)).reverse ++ s.h.cancelled ++ LQ.toList s.q).Perm _
    rw [hrel.1.toList, hrel.2]
    exact List.Perm.append_right _ (List.Perm.append_right _ (List.reverse_perm _))
  have hperm : (s.h.postponed ++ (delivered s ++ s.h.cancelled ++ pending s)).Perm s.h.posted := by
    have hl : (s.h.postponed ++ live ss).Perm s.h.posted := by rw [hrel.2]; exact hinv.ledger
    exact (List.Perm.append_left _ hrev).trans hl
  have hnd : (s.h.posted.map (·.ord)).Nodup := by
    rw [hrel.2]
    have := hinv.postedSorted
    rw [List.Nodup, List.pairwise_map]
    exact this.imp (fun {a b} hab => by omega)
  refine ⟨hperm, hnd, (hrev.map (·.id)).nodup_iff.2 hinv.liveIds, ?_, ?_⟩
  · intro e he
    rw [hrel.2] at he
    exact (hrev.map (·.id)).mem_iff.2 (hinv.cover e he)
  · have := (hperm.map (·.ord)).nodup_iff.2 hnd
    exact List.Pairwise.of_map (·.ord) (fun a b hab e => hab (by rw [e])) this

/-- **First pass.** An event that is pending and due when a pass starts is, when the pass returns,
    either delivered by that very pass (its record carries this pass's time), or was cancelled, or was
    postponed (superseded by a version with a later due time) by a response that ran earlier in the pass;
    by `C08_not_early` no earlier pass delivered it. -/
theorem C08_first_pass {s s' : State} {e : Ev} (h : Reachable s) (hs : step s .process = some s')
    (he : e ∈ pending s) (hdue : e.due ≤ (s.h.now : Int)) :
    (∃ d ∈ s'.h.log, d.ev = e ∧ d.passT = (s.h.now : Int) ∧ d.glob = true) ∨ e ∈ s'.h.cancelled ∨
      e ∈ s'.h.postponed := by
  have hub := C08_no_ub h
  have h' : Reachable s' := reachable_step (ops := [.process]) h (by
    simp only [run, Machine.run, hub]; unfold step at hs; rw [hs]; rfl)
  obtain ⟨hlate, new, hlog, hnew⟩ := C08_not_late h hs
  have hnp : e ∉ pending s' := fun hp => by have := hlate e hp; omega
  rcases gone_transfer h h' (grows_step LQ.impl hs) hlog he hnp with ⟨d, hd, hde⟩ | hc
  · exact Or.inl ⟨d, by rw [hlog]; exact List.mem_append_left _ hd, hde, hnew d hd⟩
  · exact Or.inr hc

/-- **Cancelled means never delivered.** Once an event is in the cancelled ledger it stays there, and in no
    later state is it — or any other version with its sequence number — delivered or pending. -/
theorem C08_cancelled_never_delivered {s s' : State} {ops : List Op} {e : Ev} (h : Reachable s)
    (he : e ∈ s.h.cancelled) (hr : run s ops = some s') :
    e ∈ s'.h.cancelled ∧ ∀ x ∈ delivered s' ++ pending s', x.id ≠ e.id := by
  have he' : e ∈ s'.h.cancelled := (grows_run LQ.impl ops hr).1 e he
  have hnd := (C08_exactly_once (reachable_step h hr)).2.2.1
  refine ⟨he', fun x hx heq => ?_⟩
  simp only [List.map_append, List.append_assoc] at hnd
  rcases List.mem_append.1 hx with hd | hp
  · rw [List.nodup_append] at hnd
    exact hnd.2.2 x.id (List.mem_map_of_mem hd) e.id
      (List.mem_append_left _ (List.mem_map_of_mem he')) heq
  · rw [List.nodup_append] at hnd
    have h2 := hnd.2.1
    rw [List.nodup_append] at h2
    exact h2.2.2 e.id (List.mem_map_of_mem he') x.id (List.mem_map_of_mem hp) heq.symm

/-- **Superseded means never delivered.** The version of an event that a postponement replaced is never
    delivered and never pending again: the event cannot be delivered under its old due time. -/
theorem C08_superseded_never_delivered {s s' : State} {ops : List Op} {e : Ev} (h : Reachable s)
    (he : e ∈ s.h.postponed) (hr : run s ops = some s') : e ∉ delivered s' ∧ e ∉ s'.h.cancelled ∧ e ∉ pending s' := by
  have he' : e ∈ s'.h.postponed := (grows_run LQ.impl ops hr).2.2 e he
  have hnd := (C08_exactly_once (reachable_step h hr)).2.2.2.2
  rw [List.nodup_append] at hnd
  have key : e ∉ delivered s' ++ s'.h.cancelled ++ pending s' := fun hm => hnd.2.2 e he' e hm rfl
  refine ⟨fun hd => key ?_, fun hc => key ?_, fun hp => key ?_⟩
  · exact List.mem_append_left _ (List.mem_append_left _ hd)
  · exact List.mem_append_left _ (List.mem_append_right _ hc)
  · exact List.mem_append_right _ hp

/-- **Posting.** An accepted post (live listener, event type with a response) creates the event
    `(next sequence number, listener, type, now + delay, flags, next stamp)` and puts it after every pending
    event whose due time is not later and before every pending event whose due time is later. -/
theorem C08_post_enqueues {s s' : State} {l typ f : Nat} {d : Int} (h : Reachable s)
    (hs : step s (.act (.post l typ d f)) = some s') (hresp : hasResponse typ = true) :
    let e : Ev := ⟨s.h.nextId, l, typ, (s.h.now : Int) + d, f, s.h.nextOrd⟩
    pending s' = (pending s).takeWhile (ListQ.leDue e.due) ++ e :: (pending s).dropWhile (ListQ.leDue e.due) ∧
    s'.h.posted = e :: s.h.posted ∧ s'.h.log = s.h.log ∧ s'.h.cancelled = s.h.cancelled := by
  obtain ⟨ss, ss', hinv, hrel, hstep, hrel', _⟩ := step_transfer h hs
  have hty : ¬ (typ = 0 ∨ hasResponse typ = false) := by
    intro c; rcases c with c | c
    · subst c; simp [hasResponse] at hresp
    · rw [hresp] at c; cases c
  simp only [Machine.step] at hstep
  split at hstep
  · rename_i hl
    have hal : l ∈ ss.h.alive := by simpa [Act.legalTop] using hl
    cases hstep
    simp only [applyAct, hal, not_true_eq_false, if_false, hty] at hrel'
    have hq := hrel'.1.toList
    have hh := hrel'.2
    simp only [pending]
    rw [hq, hrel.1.toList, hh, hrel.2]
    have hd : ss.q.Pairwise (fun a b => a.due ≤ b.due) := hinv.sorted.imp lt_due_le
    simp only [Bool.false_eq_true, false_and, if_false]
    refine ⟨postL_eq_insert hd, ?_, ?_, ?_⟩ <;> first | rfl | trivial
  · cases hstep

/-- **Cancel by listener and event type** removes exactly the pending events of that listener and
    type (they go to the cancelled ledger) and nothing else; nothing is delivered by it. -/
theorem C08_cancel_by_type {s s' : State} {l typ : Nat} (h : Reachable s)
    (hs : step s (.act (.cancelType l typ)) = some s') :
    pending s' = (pending s).filter (fun e => !(e.lis == l && e.typ == typ)) ∧ s'.h.log = s.h.log ∧
    s'.h.cancelled = ((pending s).filter (fun e => e.lis == l && e.typ == typ)).reverse ++ s.h.cancelled ∧
    s'.h.posted = s.h.posted :=
  cancel_transfer (p := matchType l typ) h hs (fun _ => rfl) (fun ss hal => by
    simp only [applyAct, hal, not_true_eq_false, if_false]
    refine ⟨?_, ?_, ?_, ?_⟩ <;> first | rfl | trivial)

/-- **Cancel by listener** removes exactly that listener's pending events. -/
theorem C08_cancel_by_listener {s s' : State} {l : Nat} (h : Reachable s)
    (hs : step s (.act (.cancelAll l)) = some s') :
    pending s' = (pending s).filter (fun e => !(e.lis == l)) ∧ s'.h.log = s.h.log ∧
    s'.h.cancelled = ((pending s).filter (fun e => e.lis == l)).reverse ++ s.h.cancelled ∧
    s'.h.posted = s.h.posted :=
  cancel_transfer (p := matchAll l) h hs (fun _ => rfl) (fun ss hal => by
    simp only [applyAct, hal, not_true_eq_false, if_false]
    refine ⟨?_, ?_, ?_, ?_⟩ <;> first | rfl | trivial)

/-- **Cancel by flag** removes exactly that listener's pending events whose flags meet the mask
    (`node->flags & flags`; a zero mask therefore cancels nothing). -/
theorem C08_cancel_by_flag {s s' : State} {l f : Nat} (h : Reachable s)
    (hs : step s (.act (.cancelFlag l f)) = some s') :
    pending s' = (pending s).filter (fun e => !(e.lis == l && (e.flags &&& f) != 0)) ∧ s'.h.log = s.h.log ∧
    s'.h.cancelled = ((pending s).filter (fun e => e.lis == l && (e.flags &&& f) != 0)).reverse ++ s.h.cancelled ∧
    s'.h.posted = s.h.posted :=
  cancel_transfer (p := matchFlag l f) h hs (fun _ => rfl) (fun ss hal => by
    simp only [applyAct, hal, not_true_eq_false, if_false]
    refine ⟨?_, ?_, ?_, ?_⟩ <;> first | rfl | trivial)

/-- **Destroying a listener** cancels exactly its pending events; the listener is gone afterwards
    (and by `C08_cancelled_never_delivered` none of them is ever delivered). -/
theorem C08_destroy_cancels {s s' : State} {l : Nat} (h : Reachable s)
    (hs : step s (.act (.destroy l)) = some s') :
    (pending s' = (pending s).filter (fun e => !(e.lis == l)) ∧ s'.h.log = s.h.log ∧
     s'.h.cancelled = ((pending s).filter (fun e => e.lis == l)).reverse ++ s.h.cancelled ∧
     s'.h.posted = s.h.posted) ∧ l ∉ s'.h.alive := by
  refine ⟨cancel_transfer (p := matchAll l) h hs (fun _ => rfl) (fun ss hal => by
    simp only [applyAct, hal, not_true_eq_false, if_false]
    refine ⟨?_, ?_, ?_, ?_⟩ <;> first | rfl | trivial), ?_⟩
  simp only [step, Machine.step] at hs
  split at hs
  · rename_i hlt
    have hal : l ∈ s.h.alive := by simpa [Act.legalTop] using hlt
    cases hs
    simp only [applyAct, hal, not_true_eq_false, if_false]
    simp [List.mem_filter]
  · cases hs

/-- **Enqueue order among equal due times.** Of two delivered events with the same due time the one
    enqueued first (posted first, a postponed event counting from its postponement) was delivered first —
    whenever the earlier delivery was made by a global pass or both belong to one listener (a per-listener
    pass overtakes other listeners' events by design).  No assumption on delays. -/
theorem C08_fifo_among_ties {s : State} (h : Reachable s) :
    s.h.log.Pairwise (fun later earlier => (earlier.glob = true ∨ later.ev.lis = earlier.ev.lis) →
      earlier.ev.due = later.ev.due → earlier.ev.ord < later.ev.ord) := by
  obtain ⟨ss, hr, hrel⟩ := reachable_spec h
  rw [hrel.2]
  exact hr.inv.logfifo

/-- **Non-decreasing due-time order.** When no post (top level or inside a response) uses a negative
    delay and no per-listener pass is made, the whole delivery sequence is strictly increasing in (due time,
    enqueue order) — postponements included.
    With negative delays only `C08_deliver_is_min` holds: a response may post an event that is
    already overdue, which is then delivered after events with a later due time. -/
theorem C08_nondecreasing {b : Nat} {ops : List Op} {s : State} (hops : ∀ op ∈ ops, Op.sat Act.nonneg False op)
    (h : run (init b) ops = some s) : (delivered s).Pairwise lt := by
  obtain ⟨ss, hr, _, hh, _⟩ := refines h
  have := InvN.preserved.run ops hops ⟨InvS.init b, InvN.init b⟩ hr
  show ((s.h.log.map (·.ev)).reverse).Pairwise _
  rw [hh, List.pairwise_reverse, List.pairwise_map]
  exact this.2.logsorted

/-- **Stamps.** In a history without postponements (top level or inside a response) the enqueue stamp of
    every event is its posting sequence number: `lt` is then (due time, posting order), as the property says. -/
theorem C08_stamp_is_posting_order {b : Nat} {ops : List Op} {s : State}
    (hops : ∀ op ∈ ops, Op.sat Act.noPostpone True op) (h : run (init b) ops = some s) :
    ∀ e ∈ s.h.posted, e.ord = e.id := by
  obtain ⟨ss, hr, _, hh, _⟩ := refines h
  have := InvO.preserved.run ops hops (InvO.init b) hr
  rw [hh]; exact this.ordid

/-- **PostponeEvent.** Nothing changes when the listener has no pending event of that type.  Otherwise the
    first such event `e` (in queue order) is superseded by the version `e'` with the same sequence number,
    listener, type and flags, due time `e.due + d` and the next stamp; `e'` is put back by the insertion rule
    of `PostEvent` (after every pending event whose due time is not later, before the first later one), every
    other pending event keeps its place, and nothing else changes (no delivery, no cancellation, clock). -/
theorem C08_postpone_event {s s' : State} {l typ d : Nat} (h : Reachable s)
    (hs : step s (.act (.postpone l typ d)) = some s') :
    match (pending s).find? (fun e => e.lis == l && e.typ == typ) with
    | none => pending s' = pending s ∧ s'.h = s.h
    | some e =>
      pending s' = ListQ.insL ((pending s).erase e) { e with due := e.due + (d : Int), ord := s.h.nextOrd } ∧
      s'.h = { s.h with nextOrd := s.h.nextOrd + 1, postponed := e :: s.h.postponed,
                        posted := { e with due := e.due + (d : Int), ord := s.h.nextOrd } :: s.h.posted } :=
  postpone_transfer (p := matchType l typ) h hs (fun _ => rfl) (fun ss hal => by
    simp only [applyAct, hal, not_true_eq_false, if_false])

/-- **PostponeAllEvents** (despite its name the code, like the engine it was ported from, moves only the
    listener's first pending event and returns): as `C08_postpone_event`, matching by listener alone. -/
theorem C08_postpone_all {s s' : State} {l d : Nat} (h : Reachable s)
    (hs : step s (.act (.postponeAll l d)) = some s') :
    match (pending s).find? (fun e => e.lis == l) with
    | none => pending s' = pending s ∧ s'.h = s.h
    | some e =>
      pending s' = ListQ.insL ((pending s).erase e) { e with due := e.due + (d : Int), ord := s.h.nextOrd } ∧
      s'.h = { s.h with nextOrd := s.h.nextOrd + 1, postponed := e :: s.h.postponed,
                        posted := { e with due := e.due + (d : Int), ord := s.h.nextOrd } :: s.h.posted } :=
  postpone_transfer (p := matchAll l) h hs (fun _ => rfl) (fun ss hal => by
    simp only [applyAct, hal, not_true_eq_false, if_false])

/-- **Per-listener pass** `l->ProcessPendingEvents()` at time `t`: terminates, delivers only events of `l`
    (records carry `t`), leaves no event of `l` pending whose due time is `≤ t`; an event of `l` that was
    pending and due is delivered by this pass unless a response cancelled or postponed it first; events of other
    listeners are not delivered (they stay pending unless a response cancelled or postponed them).  The order
    among `l`'s events is `C08_deliver_is_min`. -/
theorem C08_listener_pass {s s' : State} {l : Nat} (h : Reachable s) (hs : step s (.processL l) = some s') :
    (∀ e ∈ pending s', e.lis = l → (s.h.now : Int) < e.due) ∧
    (∃ new, s'.h.log = new ++ s.h.log ∧ ∀ d ∈ new, d.passT = (s.h.now : Int) ∧ d.glob = false ∧ d.ev.lis = l) ∧
    (∀ e ∈ pending s, e.lis = l → e.due ≤ (s.h.now : Int) →
      (∃ d ∈ s'.h.log, d.ev = e ∧ d.passT = (s.h.now : Int) ∧ d.glob = false) ∨ e ∈ s'.h.cancelled ∨ e ∈ s'.h.postponed) ∧
    (∀ e ∈ pending s, e.lis ≠ l → e ∈ pending s' ∨ e ∈ s'.h.cancelled ∨ e ∈ s'.h.postponed) := by
  obtain ⟨ss, ss', hinv, hrel, hstep, hrel', _⟩ := step_transfer h hs
  have hub := C08_no_ub h
  have h' : Reachable s' := reachable_step (ops := [.processL l]) h (by
    simp only [run, Machine.run, hub]; unfold step at hs; rw [hs]; rfl)
  simp only [Machine.step] at hstep
  split at hstep
  · cases hstep
    have hlate : ∀ e ∈ pending s', e.lis = l → (s.h.now : Int) < e.due := by
      intro e he hl
      have he' : e ∈ (processL ListQ.impl l ss).q := by rw [← hrel'.1.toList]; exact he
      rw [hrel.2]
      exact not_late_specL hinv l e he' hl
    obtain ⟨new, hlog, hnew⟩ := processLoopL_lis l (ss.h.now : Int) (passFuel ListQ.impl ss) ss
    have hlog' : s'.h.log = new ++ s.h.log := by rw [hrel'.2, hrel.2]; exact hlog
    have hnew' : ∀ d ∈ new, d.passT = (s.h.now : Int) ∧ d.glob = false ∧ d.ev.lis = l := by
      rw [hrel.2]; exact hnew
    refine ⟨hlate, ⟨new, hlog', hnew'⟩, ?_, ?_⟩
    · intro e he hl hdue
      have hnp : e ∉ pending s' := fun hp => by have := hlate e hp hl; omega
      rcases gone_transfer h h' (grows_step LQ.impl hs) hlog' he hnp with ⟨d, hd, hde⟩ | hc
      · exact Or.inl ⟨d, by rw [hlog']; exact List.mem_append_left _ hd, hde, (hnew' d hd).1, (hnew' d hd).2.1⟩
      · exact Or.inr hc
    · intro e he hl
      by_cases hp : e ∈ pending s'
      · exact Or.inl hp
      · rcases gone_transfer h h' (grows_step LQ.impl hs) hlog' he hp with ⟨d, hd, hde⟩ | hc
        · exact absurd (by rw [← hde]; exact (hnew' d hd).2.2) hl
        · exact Or.inr hc
  · cases hstep

/-- **ClearEventList** removes every pending event (they count as cancelled: none of them is ever delivered,
    `C08_cancelled_never_delivered`), delivers nothing, and leaves a well-formed empty list. -/
theorem C08_clear {s s' : State} (h : Reachable s) (hs : step s .clear = some s') :
    pending s' = [] ∧ s'.h.cancelled = (pending s).reverse ++ s.h.cancelled ∧ s'.h.log = s.h.log ∧
    s'.h.posted = s.h.posted := by
  obtain ⟨ss, ss', hinv, hrel, hstep, hrel', _⟩ := step_transfer h hs
  simp only [Machine.step] at hstep
  cases hstep
  simp only [pending]
  rw [hrel'.1.toList, hrel'.2, hrel.1.toList, hrel.2]
  have e1 : ss.q.filter (fun _ => !true) = [] := by simp
  have e2 : ss.q.filter (fun _ => true) = ss.q := by simp
  refine ⟨?_, ?_, rfl, rfl⟩
  · show ss.q.filter (fun _ => !true) = []
    exact e1
  · show (ss.q.filter (fun _ => true)).reverse ++ ss.h.cancelled = _
    rw [e2]

/-- **Archive round trip.** Saving the queue and loading it back (same context: the listeners are the same
    objects) yields the same pending events in the same order, with well-formed links
    (`C08_links_wellformed` holds for `s'` as for every reachable state) and nothing else changed. -/
theorem C08_archive_roundtrip {s s' : State} (h : Reachable s) (hs : step s .saveLoad = some s') :
    pending s' = pending s ∧ s'.h = s.h := by
  obtain ⟨ss, ss', _, hrel, hstep, hrel', _⟩ := step_transfer h hs
  simp only [Machine.step] at hstep
  cases hstep
  simp only [pending]
  rw [hrel'.1.toList, hrel'.2, hrel.1.toList, hrel.2]
  exact ⟨rfl, rfl⟩

/-! ### the code as it was found (`Cfg.original`): the property fails

`notes/C08-findings.md` F1 / F2; the witness histories are replayed on the real code by `tools/props/c08.py`
(`WITNESSES`).  Stated for every well-formed queue (`R s.q qs`: the links represent the list `qs`, which is all the
original code reaches before its first postponement or load) and on concrete reachable histories. -/

/-- **Original code: a postponed event is lost.**  `newl 1; post 1 1 5 0; post 1 2 9 0; PostponeEvent(1, type 1, 3)`:
    event 1 is moved from due time 5 to 8, stays the earliest — and is gone: it was posted, it is neither
    delivered nor cancelled nor pending (clause 4 of `C08_exactly_once` fails), although no undefined behaviour
    has happened. -/
theorem C08_original_postpone_loses_event : ∃ s, ReachableC Cfg.original s ∧ s.h.ub = false ∧
    ∃ e ∈ s.h.posted, e.id ∉ (delivered s ++ s.h.cancelled ++ pending s).map (·.id) := by
  obtain ⟨s, hs, hR, hal, hub, hlog, hc, hord⟩ := orig_pre
  obtain ⟨qa', hp, hl⟩ := original_postpone_root_lost (p := matchType 1 1) (d := ((3 : Nat) : Int)) (ord := s.h.nextOrd)
    hR (by decide) (by decide)
  refine ⟨postponeBy (LQ.implC Cfg.original) s (matchType 1 1) 3, ⟨0, origOps ++ [.act (.postpone 1 1 3)], ?_⟩, ?_, ?_⟩
  · unfold runC at hs ⊢
    rw [run_append, hs]
    simp [Machine.run, Machine.step, Act.legalTop, hal, hub, applyAct]
  · unfold postponeBy
    have e1 : (LQ.implC Cfg.original).postpone s.q (matchType 1 1) ((3 : Nat) : Int) s.h.nextOrd = _ := hp
    rw [e1]; exact hub
  · unfold postponeBy
    have e1 : (LQ.implC Cfg.original).postpone s.q (matchType 1 1) ((3 : Nat) : Int) s.h.nextOrd = _ := hp
    rw [e1]
    refine ⟨_, List.mem_cons_self .., ?_⟩
    simp only [delivered, pending, hlog, hc, hl]
    decide

/-- **Original code: postponing past the last node is undefined behaviour.**  In particular postponing the
    last, or the only, pending event: `newl 1; post 1 1 5 0; post 1 2 9 0; PostponeEvent(1, type 2, 0)`. -/
theorem C08_original_postpone_ub : ∃ s, ReachableC Cfg.original s ∧ s.h.ub = true := by
  obtain ⟨s, hs, hR, hal, hub, _⟩ := orig_pre
  have hp := original_postpone_tail_ub (pre := [⟨1, 1, 1, 5, 0, 1⟩]) (rest := []) (p := matchType 1 2)
    (d := ((0 : Nat) : Int)) (ord := s.h.nextOrd) hR (by decide) (by decide) (by simp)
  refine ⟨postponeBy (LQ.implC Cfg.original) s (matchType 1 2) 0, ⟨0, origOps ++ [.act (.postpone 1 2 0)], ?_⟩, ?_⟩
  · unfold runC at hs ⊢
    rw [run_append, hs]
    simp [Machine.run, Machine.step, Act.legalTop, hal, hub, applyAct]
  · unfold postponeBy
    have e1 : (LQ.implC Cfg.original).postpone s.q (matchType 1 2) ((0 : Nat) : Int) s.h.nextOrd = none := hp
    rw [e1]

/-- **Original code, in general.**  From every well-formed queue: postponing the root so that it stays the
    earliest loses it; postponing an event behind which nothing has a later due time is undefined behaviour. -/
theorem C08_original_postpone_general {s : State} {p : Ev → Bool} {d : Nat} :
    (∀ e c u, R s.q (e :: c :: u) → p e = true → e.due + (d : Int) < c.due →
      pending (postponeBy (LQ.implC Cfg.original) s p d) = c :: u ∧
      (postponeBy (LQ.implC Cfg.original) s p d).h.ub = s.h.ub) ∧
    (∀ pre e rest, R s.q (pre ++ e :: rest) → (∀ x ∈ pre, p x = false) → p e = true →
      (∀ x ∈ rest, x.due ≤ e.due + (d : Int)) → (postponeBy (LQ.implC Cfg.original) s p d).h.ub = true) := by
  constructor
  · intro e c u hR hp hlt
    obtain ⟨qa', h1, h2⟩ := original_postpone_root_lost (ord := s.h.nextOrd) hR hp hlt
    unfold postponeBy
    have e1 : (LQ.implC Cfg.original).postpone s.q p (d : Int) s.h.nextOrd = _ := h1
    rw [e1]; exact ⟨h2, rfl⟩
  · intro pre e rest hR hpre hp hle
    have h1 := original_postpone_tail_ub (ord := s.h.nextOrd) hR hpre hp hle
    unfold postponeBy
    have e1 : (LQ.implC Cfg.original).postpone s.q p (d : Int) s.h.nextOrd = none := h1
    rw [e1]

/-- **Original code: loading a non-empty archive** creates nodes whose `event` pointer is indeterminate
    (`EventQueue::Archive` has no caller inside the engine; it is public API). -/
theorem C08_original_load_ub : ∃ s, ReachableC Cfg.original s ∧ s.h.ub = true := by
  obtain ⟨s, hs, hR, _, hub, _⟩ := orig_pre
  refine ⟨saveLoad (LQ.implC Cfg.original) s, ⟨0, origOps ++ [.saveLoad], ?_⟩, ?_⟩
  · unfold runC at hs ⊢
    rw [run_append, hs]
    simp [Machine.run, Machine.step, hub]
  · unfold saveLoad
    have e1 : (LQ.implC Cfg.original).load s.q ((LQ.implC Cfg.original).toList s.q) = none := by
      show LQ.load false s.q (LQ.toList s.q) = none
      rw [hR.toList]; exact original_load_ub _ (by simp)
    rw [e1]

/-! ### non-vacuity: concrete reachable states that meet the hypotheses

The histories are evaluated on the list specification by `decide` and carried to the link-level
model by the converse direction of the refinement (`reachable_of_spec`). -/

/-- two listeners; the response of (1, type 1) re-posts to listener 2 with delay 0 (delivered in the
    same pass, after the tie that was posted earlier) and cancels listener 1's flagged events -/
def demoOps : List Op :=
  [.newl 1, .newl 2, .handler 1 1 [.post 2 2 0 0, .cancelFlag 1 2],
   .act (.post 1 1 5 0), .act (.post 2 2 5 1), .act (.post 1 3 7 2), .act (.post 1 2 9 0), .act (.tick 5), .process]

theorem demo_reach : ∃ s, Reachable s ∧ (delivered s).map (·.id) = [1, 2, 5] ∧ (pending s).map (·.id) = [4] ∧
    s.h.cancelled.map (·.id) = [3] ∧ s.h.alive = [2, 1] ∧ s.h.now = 5 := by
  have hspec : ∃ ss, Machine.run ListQ.impl (Machine.init ListQ.impl 2) demoOps = some ss ∧
      (ss.h.log.map (·.ev)).reverse.map (·.id) = [1, 2, 5] ∧ ss.q.map (·.id) = [4] ∧
      ss.h.cancelled.map (·.id) = [3] ∧ ss.h.alive = [2, 1] ∧ ss.h.now = 5 := ⟨_, rfl, by decide⟩
  obtain ⟨ss, hr, h1, h2, h3, h4, h5⟩ := hspec
  obtain ⟨s, hs, hp, hh⟩ := reachable_of_spec hr
  refine ⟨s, ⟨2, demoOps, hs⟩, ?_, ?_, ?_, ?_, ?_⟩
  · show ((s.h.log.map (·.ev)).reverse).map (·.id) = _
    rw [hh]; exact h1
  · rw [hp]; exact h2
  · rw [hh]; exact h3
  · rw [hh]; exact h4
  · rw [hh]; exact h5

/-- hypotheses of the state theorems: a reachable state with deliveries, a cancelled and a pending event -/
example : ∃ s, Reachable s ∧ s.h.log ≠ [] ∧ pending s ≠ [] ∧ s.h.cancelled ≠ [] := by
  obtain ⟨s, h, h1, h2, h3, _⟩ := demo_reach
  refine ⟨s, h, ?_, ?_, ?_⟩
  · intro e; simp [delivered, e] at h1
  · intro e; simp [e] at h2
  · intro e; simp [e] at h3

/-- hypotheses of the step theorems: from that state a pass, a post, each cancel and a destroy are accepted -/
example : ∃ s, Reachable s ∧ (step s .process).isSome ∧ (step s (.act (.post 2 1 (-3) 0))).isSome ∧
    (step s (.act (.cancelType 1 2))).isSome ∧ (step s (.act (.cancelAll 1))).isSome ∧
    (step s (.act (.cancelFlag 1 1))).isSome ∧ (step s (.act (.destroy 1))).isSome := by
  obtain ⟨s, h, _, _, _, h4, _⟩ := demo_reach
  refine ⟨s, h, ?_⟩
  simp [step, Machine.step, Act.legalTop, h4]

/-- hypothesis of `C08_nondecreasing`: the demo history uses no negative delay -/
example : ∀ op ∈ demoOps, Op.sat Act.nonneg False op := by
  simp [demoOps, Op.sat, Act.nonneg]

/-- ...and the hypothesis is needed: a response that posts with a negative delay gets its event
    delivered after an event with a later due time (due times 3, 1, 4 in delivery order) -/
example : ∃ s, Reachable s ∧ (delivered s).map (·.due) = [3, 1, 4] := by
  have hspec : ∃ ss, Machine.run ListQ.impl (Machine.init ListQ.impl 1)
      [.newl 1, .handler 1 1 [.post 1 2 (-9) 0], .act (.post 1 1 3 0), .act (.post 1 3 4 0), .act (.tick 10), .process] = some ss ∧
      (ss.h.log.map (·.ev)).reverse.map (·.due) = [3, 1, 4] := ⟨_, rfl, by decide⟩
  obtain ⟨ss, hr, h1⟩ := hspec
  obtain ⟨s, hs, _, hh⟩ := reachable_of_spec hr
  exact ⟨s, ⟨1, _, hs⟩, by show ((s.h.log.map (·.ev)).reverse).map (·.due) = _; rw [hh]; exact h1⟩

/-! ### non-vacuity of the theorems about postponements, per-listener passes, clear and archive -/

/-- two listeners; `PostponeAllEvents(2, 1)` moves event 2 from due time 2 onto a tie with event 3 (it goes
    behind it); the per-listener pass of listener 1 at time 3 delivers event 1, whose response postpones
    listener 2's type-1 event once more (to 7); listener 2's due event 3 is not delivered by that pass -/
def demoOps2 : List Op :=
  [.newl 1, .newl 2, .handler 1 1 [.postpone 2 1 4],
   .act (.post 1 1 2 0), .act (.post 2 1 2 0), .act (.post 2 2 3 1), .act (.post 1 2 9 0),
   .act (.postponeAll 2 1), .act (.tick 3), .processL 1]

theorem demo2_reach : ∃ s, Reachable s ∧ (delivered s).map (·.id) = [1] ∧
    pending s = [⟨3, 2, 2, 3, 1, 3⟩, ⟨2, 2, 1, 7, 0, 6⟩, ⟨4, 1, 2, 9, 0, 4⟩] ∧
    s.h.postponed.map (fun e => (e.id, e.due)) = [(2, 3), (2, 2)] ∧ s.h.alive = [2, 1] ∧ s.h.now = 3 ∧
    s.h.log.map (·.glob) = [false] := by
  have hspec : ∃ ss, Machine.run ListQ.impl (Machine.init ListQ.impl 2) demoOps2 = some ss ∧
      (ss.h.log.map (·.ev)).reverse.map (·.id) = [1] ∧
      ss.q = [⟨3, 2, 2, 3, 1, 3⟩, ⟨2, 2, 1, 7, 0, 6⟩, ⟨4, 1, 2, 9, 0, 4⟩] ∧
      ss.h.postponed.map (fun e => (e.id, e.due)) = [(2, 3), (2, 2)] ∧ ss.h.alive = [2, 1] ∧ ss.h.now = 3 ∧
      ss.h.log.map (·.glob) = [false] := ⟨_, rfl, by decide⟩
  obtain ⟨ss, hr, h1, h2, h3, h4, h5, h6⟩ := hspec
  obtain ⟨s, hs, hp, hh⟩ := reachable_of_spec hr
  refine ⟨s, ⟨2, demoOps2, hs⟩, ?_, ?_, ?_, ?_, ?_, ?_⟩
  · show ((s.h.log.map (·.ev)).reverse).map (·.id) = _
    rw [hh]; exact h1
  · rw [hp]; exact h2
  · rw [hh]; exact h3
  · rw [hh]; exact h4
  · rw [hh]; exact h5
  · rw [hh]; exact h6

/-- a reachable state with a superseded version, a per-listener delivery, and a due event of another listener
    that the per-listener pass left pending -/
example : ∃ s, Reachable s ∧ s.h.postponed ≠ [] ∧ (∃ d ∈ s.h.log, d.glob = false) ∧
    ∃ e ∈ pending s, e.due ≤ (s.h.now : Int) := by
  obtain ⟨s, h, _, h2, h3, _, h5, h6⟩ := demo2_reach
  refine ⟨s, h, ?_, ?_, ⟨⟨3, 2, 2, 3, 1, 3⟩, by rw [h2]; simp, by rw [h5]; decide⟩⟩
  · intro e; simp [e] at h3
  · cases hl : s.h.log with
    | nil => simp [hl] at h6
    | cons d t =>
      rw [hl] at h6
      exact ⟨d, by simp, by simpa using (List.cons.inj h6).1⟩

/-- hypotheses of the new step theorems: from that state a postponement with a match, one without, a
    `PostponeAllEvents`, a per-listener pass, `ClearEventList` and an archive round trip are accepted -/
example : ∃ s, Reachable s ∧ (step s (.act (.postpone 2 1 1))).isSome ∧
    (pending s).find? (fun e => e.lis == 2 && e.typ == 1) = some ⟨2, 2, 1, 7, 0, 6⟩ ∧
    (step s (.act (.postpone 1 1 0))).isSome ∧ (pending s).find? (fun e => e.lis == 1 && e.typ == 1) = none ∧
    (step s (.act (.postponeAll 1 5))).isSome ∧ (step s (.processL 2)).isSome ∧ (step s .clear).isSome ∧
    (step s .saveLoad).isSome := by
  obtain ⟨s, h, _, h2, _, h4, _⟩ := demo2_reach
  refine ⟨s, h, ?_, by rw [h2]; decide, ?_, by rw [h2]; decide, ?_, ?_, ?_, ?_⟩ <;>
    simp [step, Machine.step, Act.legalTop, h4]

/-- hypotheses of `C08_nondecreasing` / `C08_stamp_is_posting_order`: a history with postponements but no
    negative delay and no per-listener pass; a history without postponements -/
example : (∀ op ∈ demoOps2.dropLast, Op.sat Act.nonneg False op) ∧ (∀ op ∈ demoOps, Op.sat Act.noPostpone True op) := by
  constructor <;> simp [demoOps2, demoOps, Op.sat, Act.nonneg, Act.noPostpone]

end Morfuse.EventQueue
