import MorfuseModel.Sched.Snapshot
import MorfuseModel.Sched.MachineHostSL
import MorfuseModel.Sched.MachineHostSLTrace
import MorfuseModel.Sched.MachineInstOut
import MorfuseModel.Sched.MachineSlotsHost
import MorfuseModel.Props.C06
/-!
# C09 — save, reset, load resumes scripts exactly where an uninterrupted run would be

The machine-level statement: at a frame boundary (no thread current, no VM activation, no thread
still owing a result to a host `Event`), loading the snapshot of a state into any context that agrees
with that state on what is *not* archived (clock, programs, objects, host records, output) gives back
exactly that state — hence every future of the loaded engine equals the future of the uninterrupted
one, for every later sequence of host operations.

What carries the weight is **which components `save` keeps** (`Sched/Snapshot.lean`); that the engine
really restores exactly those is checked on every run by tools/props/c09.py in two ways: the real
engine with `save; load` inserted at every frame boundary must behave as the same run without it
(programs with timed waits, threads, waitthread and locals of every archivable kind, shared arrays
included), and it must agree with the machine executing `load (save s)`.

Stated limitations (engine behaviour, not model gaps): posted events are not archived (hypothesis
`hev`: the context loaded into holds the same pending timeout events as the saved state — after a
`Reset` that means none, so a thread saved inside `waittill_timeout` loses its timeout); a host
`Event` awaiting a thread's result is not part of the archive, so such a result stays pending.
-/
namespace Morfuse.Sched

/-- **Round trip.** -/
theorem C09_roundtrip (s cur : State)
    (hcur : s.cur = none) (hdepth : s.depth = 0) (hfuel : s.outOfFuel = false)
    (hcalls : ∀ e ∈ s.threads, e.2.call = none)
    (hprog : cur.prog = s.prog) (hpp : cur.progParams = s.progParams) (hclock : cur.clock = s.clock)
    (hscaled : cur.scaled = s.scaled) (hlast : cur.lastClock = s.lastClock) (hobjs : cur.objs = s.objs)
    (hout : cur.out = s.out) (hc : cur.calls = s.calls) (hnc : cur.nextCall = s.nextCall)
    (hev : cur.events = s.events) :
    load cur (save s) = s := by
  have hthreads : s.threads.map (fun e => (e.1, { e.2 with call := none })) = s.threads := by
    have : ∀ e ∈ s.threads, (fun (e : Nat × Th) => (e.1, { e.2 with call := none })) e = e := by
      intro e he
      have := hcalls e he
      cases e with | mk a th => cases th; simp_all
    calc s.threads.map (fun e => (e.1, { e.2 with call := none }))
        = s.threads.map id := List.map_congr_left this
      _ = s.threads := List.map_id _
  cases s; cases cur
  simp only [load, save] at *
  simp_all

/-- **Equal futures.**  Whatever the host does afterwards (any function of the state: further frames,
    calls, resets, …), the loaded engine and the uninterrupted one produce the same thing. -/
theorem C09_equal_futures {α : Type} (future : State → α) (s cur : State)
    (hcur : s.cur = none) (hdepth : s.depth = 0) (hfuel : s.outOfFuel = false)
    (hcalls : ∀ e ∈ s.threads, e.2.call = none)
    (hprog : cur.prog = s.prog) (hpp : cur.progParams = s.progParams) (hclock : cur.clock = s.clock)
    (hscaled : cur.scaled = s.scaled) (hlast : cur.lastClock = s.lastClock) (hobjs : cur.objs = s.objs)
    (hout : cur.out = s.out) (hc : cur.calls = s.calls) (hnc : cur.nextCall = s.nextCall)
    (hev : cur.events = s.events) :
    future (load cur (save s)) = future s := by
  rw [C09_roundtrip s cur hcur hdepth hfuel hcalls hprog hpp hclock hscaled hlast hobjs hout hc hnc hev]

/-- a thread that still owes its result to a host `Event` loses that link: the result stays pending
    (the engine does not archive the host's `Event`) -/
theorem C09_host_result_link_dropped (cur : State) (k : Snap) :
    ∀ e ∈ (load cur k).threads, e.2.call = none := by
  intro e he
  simp only [load, List.mem_map] at he
  obtain ⟨e0, _, rfl⟩ := he
  rfl

/-! ### non-vacuity: a state with two timed threads in one instance at a frame boundary -/
def demoState : State :=
  { prog := [[.mark 1, .wait 250, .mark 2], [.wait 500]], progParams := [0, 0],
    threads := [(100, { label := 0, pc := 2, ts := .timing, vm := .idling, inst := 1 }), (101, { label := 1, pc := 1, ts := .timing, vm := .idling, inst := 1 })],
    insts := [(1, [101, 100])], timer := { mtime := 0, dirty := false, elems := [(100, 250), (101, 500)] },
    nextTid := 102, nextInst := 2 }

example : load demoState (save demoState) = demoState :=
  C09_roundtrip demoState demoState rfl rfl rfl (by intro e he; simp [demoState] at he; rcases he with rfl | rfl <;> rfl)
    rfl rfl rfl rfl rfl rfl rfl rfl rfl rfl

/-! ## Machine level: `save` / `load` among the host operations

`ReachableSL s k` (`Sched/MachineHostSL.lean`): machine state `s` and held snapshot `k` after any list of the
driver's commands — compile, host calls, `advance`, `execute`, `step`, `reset-director`, `reset`, reading the
output, **`save`, `load`** — where a `save` is taken in a state that has not run out of fuel and a `load` happens
when the implied `Reset()` does not run out of fuel and the *objects* that are wait sources in the snapshot still
exist (the host owns its objects; the archive does not contain them).  Programs of class `ProgOK`. -/

/-- **Loading keeps every invariant, machine level.**  After `load` (= `Reset()` + reading the snapshot back)
    the loaded machine state satisfies all host-level invariants again: the machine invariant (timer
    consistency, mirror of the listener tables, no lost wake-up), no current thread and an empty execution
    stack, a sound dirty flag, the instance-list invariant, every thread complete and idle — although it is
    assembled from two histories (threads, instances, timer, tables from the snapshot; program, clock, objects,
    result slots from the present context). -/
theorem C09_machine_load_preserves_invariants {s : State} {k : Snap} (h : ReachableSL s (some k))
    (ho : (killAllInsts s).outOfFuel = false)
    (hobj : ∀ o n x, x ∈ Tbl.getD k.notify (o, n) → o < 100 → s.objAlive o = true) :
    (load (killAllInsts s) k).outOfFuel = false ∧ HInv3 (load (killAllInsts s) k) := by
  have h' := (reachableSL_hinv3 (ReachableSL.load h ho hobj)).1
  exact ⟨rfl, h'.get rfl⟩

/-- **Every state the driver can reach, all commands included**, has run out of fuel or satisfies the
    machine-level invariant (`reachable_inv_partial` without the restriction to histories without
    `save`/`load`). -/
theorem C09_machine_reachable_inv {s : State} {k : Option Snap} (h : ReachableSL s k) :
    s.outOfFuel = true ∨ (Inv [] [] none s ∧ J [] s ∧ W [] s ∧ s.cur = none ∧ s.depth = 0) :=
  (reachableSL_hinv3 h).1.map (fun hi => ⟨hi.h2.h.inv, hi.h2.j, hi.w, hi.h2.h.cur, hi.h2.h.depth⟩)

/-- **What is loaded is what was saved, machine level**: the scheduler part of the loaded state is the
    snapshot's (threads with the host link dropped), the host part is the present context's; and a snapshot
    held by the host was taken in a state with all invariants, at a boundary between host operations. -/
theorem C09_machine_loaded_is_saved {s : State} {k : Snap} (h : ReachableSL s (some k)) :
    (∃ s0, HInv3 s0 ∧ s0.cur = none ∧ s0.depth = 0 ∧ k = save s0) ∧
    (load (killAllInsts s) k).threads = k.threads.map (fun e => (e.1, { e.2 with call := none })) ∧
    (load (killAllInsts s) k).insts = k.insts ∧ (load (killAllInsts s) k).timer = k.timer ∧
    (load (killAllInsts s) k).notify = k.notify ∧ (load (killAllInsts s) k).waitFor = k.waitFor ∧
    (load (killAllInsts s) k).prog = s.prog ∧ (load (killAllInsts s) k).clock = s.clock := by
  obtain ⟨s0, h0, hk⟩ := (reachableSL_hinv3 h).2
  refine ⟨⟨s0, h0, h0.h2.h.cur, h0.h2.h.depth, hk⟩, rfl, rfl, rfl, rfl, rfl, ?_, ?_⟩
  · exact (killAllInsts_pres s).prog
  · have hc := (killAllInsts_hr s).ht.c3
    simp only [Prod.mk.injEq] at hc
    exact hc.1

/-! ### non-vacuity: save with a timed and a waiting thread, run on, load -/

def demoSL : List HostOp :=
  [.script [[.thread 1, .wait 5, .mark 1], [.waittill 50 [7], .mark 2]] [0, 0], .call 0 [], .takeOut]

theorem demoSL_reachable : ReachableSL (runOps (runOps {} demoSL) [.step 5, .takeOut]) (some (save (runOps {} demoSL))) := by
  have h0 : ReachableSL (runOps {} demoSL) none :=
    Reachable.toSL ((reachable_iff _).2 ⟨demoSL, by decide, rfl⟩)
  have h1 := ReachableSL.save h0 (by decide +kernel)
  have h2 := ReachableSL.step (.step 5) h1 trivial
  exact ReachableSL.step .takeOut h2 trivial

/-- at clock 5 the timed thread has run (`m1`) and is gone; loading brings it back, timing, with its timer
    element; the side conditions of `load` hold -/
example :
    (runOps (runOps {} demoSL) [.step 5, .takeOut]).timer.elems = [] ∧
    (killAllInsts (runOps (runOps {} demoSL) [.step 5, .takeOut])).outOfFuel = false ∧
    (load (killAllInsts (runOps (runOps {} demoSL) [.step 5, .takeOut])) (save (runOps {} demoSL))).timer.elems = [(100, 5)] ∧
    (load (killAllInsts (runOps (runOps {} demoSL) [.step 5, .takeOut])) (save (runOps {} demoSL))).notify = [((50, 7), [101])] := by
  decide +kernel

example : HInv3 (load (killAllInsts (runOps (runOps {} demoSL) [.step 5, .takeOut])) (save (runOps {} demoSL))) :=
  (C09_machine_load_preserves_invariants demoSL_reachable (by decide +kernel)
    (fun o n x hx _ => by
      have hn : (save (runOps {} demoSL)).notify = [((50, 7), [101])] := by decide +kernel
      rw [hn] at hx
      have : o = 50 := by
        by_cases h50 : o = 50
        · exact h50
        · exfalso
          have hb : ((50, 7) == (o, n)) = false := by
            simp only [beq_eq_false_iff_ne, ne_eq, Prod.mk.injEq, not_and]
            intro e; exact absurd e.symm h50
          simp [Tbl.getD, Tbl.find, List.find?, hb] at hx
      subst this; rfl)).2

/-! ## Trace level over all driver commands: a `load` restarts the history from the snapshot's history

`reachableSL_ledgers` (`Sched/MachineHostSLTrace.lean`): every state reachable with any driver commands, `save` and `load`
included, has the four ghost ledgers (timer operations, notify-table operations, thread-record and instance
creations/destructions), and so has the state the held snapshot was taken in; the loaded state's timer, notify table,
record ids and instance ids are the snapshot's, so its ledgers are the snapshot state's.  The facts about *every*
history then apply (they are theorems about histories, not about how the state was reached). -/

/-- **The ledgers exist after any commands, and loading restores the snapshot's history, trace level.** -/
theorem C09_trace_ledgers_all_commands {s : State} {k : Option Snap} (h : ReachableSL s k) :
    Ledgers s ∧ (∀ k0, k = some k0 → ∃ s0, Ledgers s0 ∧ k0 = save s0 ∧
      ∀ X, (load X k0).timer = s0.timer ∧ (load X k0).notify = s0.notify ∧ absT (load X k0) = absT s0 ∧
        absI (load X k0) = absI s0) := by
  obtain ⟨h1, h2⟩ := reachableSL_ledgers h
  refine ⟨h1, ?_⟩
  intro k0 hk
  subst hk
  obtain ⟨s0, hs0, hk0⟩ := h2
  subst hk0
  refine ⟨s0, hs0, rfl, fun X => ⟨rfl, rfl, ?_, rfl⟩⟩
  unfold absT
  simp [load, save, List.map_map, Function.comp]

/-- **The trace-level clauses hold after any commands** (instances of the theorems about every history): in the
    ledgers of a state reached with `save`/`load` among the commands, every timer resumption happened at a frame
    time `≥` its due time and the registered waits are exactly the resumed, cancelled and pending ones; every listener
    a notify finds registered was registered earlier in the ledger; thread and instance ids are never reused and
    destroyed at most once. -/
theorem C09_trace_clauses_all_commands {s : State} {k : Option Snap} (h : ReachableSL s k) :
    (∃ ops : List TOp, (TRun.run {} ops).t = s.timer ∧ (∀ x ∈ (TRun.run {} ops).returned, x.1.2 ≤ x.2) ∧
      (TRun.run {} ops).added.Perm
        ((TRun.run {} ops).returned.map (·.1) ++ (TRun.run {} ops).removed ++ s.timer.elems)) ∧
    (∃ ops : List NOp, nRun [] ops = s.notify ∧
      ∀ (pre post : List NOp) (src name : Nat), ops = pre ++ NOp.notify src name :: post →
        ∀ x ∈ Tbl.getD (nRun [] pre) (src, name), NOp.reg src name x ∈ pre) ∧
    (∃ opsT opsI : List POp, pRun pool0T opsT = some (absT s) ∧ pRun pool0I opsI = some (absI s) ∧
      (created pool0T opsT).Nodup ∧ (created pool0I opsI).Nodup ∧
      (∀ t, opsT.count (POp.del t) ≤ 1) ∧ (∀ i, opsI.count (POp.del i) ≤ 1)) := by
  obtain ⟨⟨o1, h1⟩, ⟨o2, h2⟩, ⟨o3, h3⟩, ⟨o4, h4⟩⟩ := (reachableSL_ledgers h).1
  refine ⟨⟨o1, by rw [timerRun_of_run]; exact h1, C06_never_early o1, ?_⟩, ⟨o2, h2, ?_⟩,
    ⟨o3, o4, h3, h4, created_nodup _ _, created_nodup _ _,
      fun t => del_count_le_one o3 t pool0T_good h3, fun i => del_count_le_one o4 i pool0I_good h4⟩⟩
  · have hp : (TRun.run {} o1).added.Perm ((TRun.run {} o1).returned.map (·.1) ++ (TRun.run {} o1).removed ++
        (TRun.run {} o1).t.elems) := C06_exactly_once o1
    rw [timerRun_of_run] at hp
    rw [h1] at hp
    exact hp
  · intro pre post src name _ x hx
    rcases nRun_mem pre [] (src, name) x hx with e | e
    · simp [Tbl.getD, Tbl.find] at e
    · exact e

/-! ### the two clauses that need more than the existence of the ledgers

* `AddsLate`: a `load` puts back the snapshot's `m_time`, the frame clock of the moment of the `save`, which is `≤` — no
  longer `=` — the present frame clock (`reachableSL_clocks`); a loaded wait may therefore be *overdue* (due `<` the
  present frame time; the next drain resumes it), but every registration in the ledger still carries a due time `≥` the
  `m_time` of its moment, so "never early" keeps its full meaning.
* `Reset()` destroys everything exactly once: holds in the ledger of the state, which after a `load` is the snapshot's
  history followed by what happened since.  What the ledger does **not** contain after a `load`: the records created
  after the `save` and destroyed before or by the `load` (their ids are handed out again after the `load`, `nextTid` being
  the snapshot's) — their exactly-once is the same theorem applied to the state just before the `load`
  (`(killAllInsts s)`, i.e. the `Reset()` inside `load`), in *that* state's ledger. -/

/-- **`AddsLate` and the clocks after any commands, trace level.**  Every state reached with `save`/`load` among the
    commands has a timer ledger in which every wait was registered with a due time `≥` the frame time of that moment;
    `scaledTime` is the clock of the last frame and the timer's `m_time` is `≤` it (`=` without `load`). -/
theorem C09_trace_adds_late_all_commands {s : State} {k : Option Snap} (h : ReachableSL s k) :
    (∃ ops, IsLedger s ops ∧ (∀ x ∈ (TRun.run {} ops).returned, x.1.2 ≤ x.2)) ∧
      s.timer.mtime ≤ s.lastClock ∧ s.scaled = s.lastClock ∧ s.lastClock ≤ s.clock := by
  obtain ⟨ops, hh⟩ := (reachableSL_timer_history h).1
  have hc := reachableSL_clocks h
  exact ⟨⟨ops, ⟨by rw [timerRun_of_run]; exact hh.run, hh.late⟩, C06_never_early ops⟩, hc.mt, hc.sc, hc.lc⟩

/-- **`Reset()` is clean and destroys every record exactly once, after any commands.**  After `director.Reset()` in any
    state reached with `save`/`load` among the commands (unless out of fuel): no thread record, no instance, no queued
    event, empty timer and listener tables, all host-level invariants; and in the life ledgers of that state (after a
    `load`: the snapshot's history followed by what happened since) every thread id and every instance id created has
    exactly one destruction record. -/
theorem C09_trace_reset_exactly_once_all_commands {s : State} {k : Option Snap} (h : ReachableSL s k) :
    (hostReset s).outOfFuel = true ∨
      (((hostReset s).threads = [] ∧ (hostReset s).insts = [] ∧ (hostReset s).events = [] ∧
        (hostReset s).timer.elems = [] ∧ (hostReset s).notify = [] ∧ (hostReset s).waitFor = [] ∧
        HInv3 (hostReset s)) ∧
       ∃ opsT opsI : List POp, pRun pool0T opsT = some (absT (hostReset s)) ∧
        pRun pool0I opsI = some (absI (hostReset s)) ∧
        (∀ t ∈ created pool0T opsT, opsT.count (POp.del t) = 1) ∧
        (∀ i ∈ created pool0I opsI, opsI.count (POp.del i) = 1)) := by
  have hr : ReachableSL (HostOp.apply s .resetDirector) k := .step .resetDirector h trivial
  have h3 : Ok (hostReset s) (HInv3 (hostReset s)) := (reachableSL_hinv3 hr).1
  rcases (reachableSL_hinv3 h).1 with ho | hi
  · exact Or.inl ((hostReset_hr s).oof ho)
  · rcases killAllInsts_empty hi with ho | ⟨p0, p1, p2, p3, p4, p5⟩
    · exact Or.inl ho
    · rcases h3 with ho | q
      · exact Or.inl ho
      · refine Or.inr ⟨⟨p0, p1, p2, p3, p4, p5, q⟩, ?_⟩
        obtain ⟨_, _, ⟨opsT, hT⟩, ⟨opsI, hI⟩⟩ := (reachableSL_ledgers hr).1
        refine ⟨opsT, opsI, hT, hI, ?_, ?_⟩
        · intro t hc
          exact all_freed_exactly_once pool0T_good hT
            (by unfold absT; rw [show (HostOp.apply s .resetDirector).threads = [] from p0]; rfl) t (Or.inr hc)
        · intro i hc
          exact all_freed_exactly_once pool0I_good hI
            (by unfold absI; rw [show (HostOp.apply s .resetDirector).insts = [] from p1]; rfl) i (Or.inr hc)

/-- non-vacuity: in the demo the loaded timer's `m_time` (0, the frame of the `save`) is behind the present frame clock (5),
    the loaded wait is already due; `Reset()` of the loaded state has fuel left and removes the two loaded records -/
example :
    (load (killAllInsts (runOps (runOps {} demoSL) [.step 5, .takeOut])) (save (runOps {} demoSL))).timer.mtime = 0 ∧
    (load (killAllInsts (runOps (runOps {} demoSL) [.step 5, .takeOut])) (save (runOps {} demoSL))).lastClock = 5 ∧
    (load (killAllInsts (runOps (runOps {} demoSL) [.step 5, .takeOut])) (save (runOps {} demoSL))).threads.map (·.1) = [100, 101] ∧
    (hostReset (load (killAllInsts (runOps (runOps {} demoSL) [.step 5, .takeOut])) (save (runOps {} demoSL)))).outOfFuel = false ∧
    (hostReset (load (killAllInsts (runOps (runOps {} demoSL) [.step 5, .takeOut])) (save (runOps {} demoSL)))).threads = [] := by
  decide +kernel

/-! ## Save, **Reset**, load: the context an actual `Reset()` leaves

`C09_roundtrip` above loads into *any* context that agrees with the saved state on what is not archived.  The theorems
below discharge those hypotheses for the contexts the engine really produces:

* the driver's `load` command (`lean/Driver/Sched.lean`: `load (killAllInsts st.s) k`) — `killAllInsts` is the `Reset()`
  *inside* `ScriptMaster::Archive` while reading; the compiled program survives it in the model because the engine reads the
  script back by name through the host's file interface during the load;
* an explicit `director.Reset()` of the host (`hostReset`, the driver's `reset-director`: `killAllInsts` **and** `prog := []`)
  between the `save` and the `load`, with or without a recompilation (`hostScript`, the driver's `script` command) of the
  same program before the `load`.

Correspondence with the engine (`harness/engine.cpp`, command `load`: `GetDirector().Reset()`, then the archive is read and
brings the program back **by name** through the host's file interface): the model folds "Reset forgets the program, the read
reinstalls it" into "`killAllInsts` keeps `prog`".  Consequence, and a **stated model limitation**: for `save; reset-director;
load` *without* recompiling, the engine continues like the uninterrupted run (checked engine vs engine at every boundary by
tools/props/c09.py), while the model's `load` finds no program in the present context and installs none — the second
equation of `C09_save_reset_load_general` says exactly what the model does there (`prog = []`), it is a fact about the
model, not about the engine.  The first and third compositions are compared machine vs engine on every run.

`Reset()` in a state with the invariants keeps `prog`/`progParams` (`killAllInsts` only), the three clock fields, the host's
objects, the output, the host-call records and `nextCall`, and leaves no queued event (`C09_reset_keeps_host_part`). -/

/-- the state `s` as the archive can hold it: no thread record linked to a host-call record any more (the host's `Event` is
    not archived — `C09_host_result_link_dropped`), no posted timeout event (posted events are not archived, `Reset()`
    cancels them).  Every other field is that of `s`. -/
def archivable (s : State) : State :=
  { s with threads := s.threads.map (fun e => (e.1, { e.2 with call := none })), events := [] }

/-- `archivable s = s` exactly when no thread owes a result to a host `Event` and no timeout event is posted -/
theorem archivable_eq_self (s : State) (hcalls : ∀ e ∈ s.threads, e.2.call = none) (hev : s.events = []) :
    archivable s = s := by
  have hthreads : s.threads.map (fun e => (e.1, { e.2 with call := none })) = s.threads := by
    have : ∀ e ∈ s.threads, (fun (e : Nat × Th) => (e.1, { e.2 with call := none })) e = e := by
      intro e he
      have := hcalls e he
      cases e with | mk a th => cases th; simp_all
    calc s.threads.map (fun e => (e.1, { e.2 with call := none }))
        = s.threads.map id := List.map_congr_left this
      _ = s.threads := List.map_id _
  unfold archivable
  rw [hthreads]
  cases s
  simp_all

/-- **What `Reset()` keeps.**  `killAllInsts` (the `Reset()` inside `load`; `hostReset` is this plus `prog := []`) in a
    state with the host-level invariants, unless it runs out of fuel: program, clocks, host objects, output, host-call
    records and their counter are untouched; no posted event is left. -/
theorem C09_reset_keeps_host_part {s : State} (hi : HInv3 s) (ho : (killAllInsts s).outOfFuel = false) :
    (killAllInsts s).prog = s.prog ∧ (killAllInsts s).progParams = s.progParams ∧ (killAllInsts s).clock = s.clock ∧
    (killAllInsts s).scaled = s.scaled ∧ (killAllInsts s).lastClock = s.lastClock ∧ (killAllInsts s).objs = s.objs ∧
    (killAllInsts s).out = s.out ∧ (killAllInsts s).calls = s.calls ∧ (killAllInsts s).nextCall = s.nextCall ∧
    (killAllInsts s).events = [] := by
  have hc := (killAllInsts_hr s).ht.c3
  simp only [Prod.mk.injEq] at hc
  exact ⟨(killAllInsts_pres s).prog, (killAllInsts_pres s).params, hc.1, hc.2.1, hc.2.2,
    killAllInsts_objs hi.h2.h.inv.n hi.h2.j, killAllInsts_ou hi.h2.h.inv.n hi.h2.j,
    killAllInsts_ck hi.h2.h.inv.n hi.h2.j, (killAllInsts_sr s).nc, ((killAllInsts_empty hi).get ho).2.2.1⟩

/-- loading a snapshot of `s` into a context that agrees with `s` on the host part and has no posted event gives
    `archivable s` (no hypothesis on the links or the events of `s`) -/
theorem load_save_of_context (s X : State) (hcur : s.cur = none) (hdepth : s.depth = 0) (hfuel : s.outOfFuel = false)
    (hprog : X.prog = s.prog) (hpp : X.progParams = s.progParams) (hclock : X.clock = s.clock)
    (hscaled : X.scaled = s.scaled) (hlast : X.lastClock = s.lastClock) (hobjs : X.objs = s.objs)
    (hout : X.out = s.out) (hc : X.calls = s.calls) (hnc : X.nextCall = s.nextCall) (hev : X.events = []) :
    load X (save s) = archivable s := by
  cases s; cases X
  simp only [load, save, archivable] at *
  simp_all

/-- `Reset()` of a state without instances does nothing -/
theorem killAllInsts_of_no_insts (X : State) (h : X.insts = []) : killAllInsts X = X := by
  unfold killAllInsts; rw [h]; rfl

/-- **Save, Reset, load — general form, no hypothesis on host links or posted events.**  For every state `s` the driver
    can reach (any commands, earlier `save`/`load` included) that has not run out of fuel and whose `Reset()` does not run
    out of fuel:
    1. the driver's `save; load` (`load` = `Reset()` + read back) yields `archivable s`: `s` with the host-call links of
       its threads dropped and its posted timeout events gone — every other field, clock, program, output, host records
       included, is that of `s`;
    2. `save; reset-director; load` (an explicit `director.Reset()` in between) yields the same state **except `prog` and
       `progParams`, which are `[]`**: `hostReset` forgets the compiled program and the model's `load` does not reinstall it
       (the model takes the program from the present context);
    3. `save; reset-director; script p; load` with the same program `p = s.prog` recompiled before the load yields
       `archivable s` again. -/
theorem C09_save_reset_load_general {s : State} {k : Option Snap} (h : ReachableSL s k)
    (hfuel : s.outOfFuel = false) (ho : (killAllInsts s).outOfFuel = false) :
    load (killAllInsts s) (save s) = archivable s ∧
    load (killAllInsts (hostReset s)) (save s) = { archivable s with prog := [], progParams := [] } ∧
    load (killAllInsts (hostScript (hostReset s) s.prog s.progParams)) (save s) = archivable s := by
  have hi : HInv3 s := (reachableSL_hinv3 h).1.get hfuel
  obtain ⟨e1, e2, e3, e4, e5, e6, e7, e8, e9, e10⟩ := C09_reset_keeps_host_part hi ho
  have hins : (killAllInsts s).insts = [] := ((killAllInsts_empty hi).get ho).2.1
  have a1 : load (killAllInsts s) (save s) = archivable s :=
    load_save_of_context s _ hi.h2.h.cur hi.h2.h.depth hfuel e1 e2 e3 e4 e5 e6 e7 e8 e9 e10
  have hR : killAllInsts (hostReset s) = hostReset s := killAllInsts_of_no_insts _ hins
  have hS : hostScript (hostReset s) s.prog s.progParams = { killAllInsts s with prog := s.prog, progParams := s.progParams } := rfl
  have hS' : killAllInsts (hostScript (hostReset s) s.prog s.progParams) =
      { killAllInsts s with prog := s.prog, progParams := s.progParams } := by
    rw [hS]; exact killAllInsts_of_no_insts _ hins
  refine ⟨a1, ?_, ?_⟩
  · rw [hR, ← a1]; rfl
  · rw [hS']
    exact load_save_of_context s _ hi.h2.h.cur hi.h2.h.depth hfuel rfl rfl e3 e4 e5 e6 e7 e8 e9 e10

/-- **C09, save – Reset – load round trip.**  For every state `s` the driver can reach with any commands (`Reachable`
    plus earlier `save`/`load`), not out of fuel, whose `Reset()` does not run out of fuel, in which
    * `hcalls`: no thread record is linked to a host-call record — this **excludes** the states in which a thread started
      by the host through an `Event` (driver `call`, not `callv`) has not ended yet (the link is set at the call and stays
      on the record while the thread is suspended): the link is not archived, after the load the record stays `pending`
      for ever (`C09_save_reset_load_general` says what the loaded state is then).  It cannot be dropped: `load` sets
      `call := none` by definition, so with a linked thread `load X (save s) ≠ s` for every context `X`;
    * `hev`: no timeout event is posted — this **excludes** the states in which a thread sits in `waittill … timeout`
      (posted events are not archived; `Reset()` cancels them);
    the driver's `save; load` gives back **exactly `s`** (every field), and so does `save; reset-director; script s.prog;
    load`; `save; reset-director; load` without recompiling gives `s` without its program.  No hypothesis on the context:
    the context is the one `Reset()` produces (`C09_reset_keeps_host_part`, `killAllInsts_empty` = the emptiness facts of
    `C13_machine_reset_clean`); no hypothesis on objects: `Reset()` keeps the host's objects.
    Hence (`congrArg`) every future — any function of the state — of the loaded engine equals that of the uninterrupted one. -/
theorem C09_save_reset_load_roundtrip {s : State} {k : Option Snap} (h : ReachableSL s k)
    (hfuel : s.outOfFuel = false) (ho : (killAllInsts s).outOfFuel = false)
    (hcalls : ∀ e ∈ s.threads, e.2.call = none) (hev : s.events = []) :
    load (killAllInsts s) (save s) = s ∧
    load (killAllInsts (hostScript (hostReset s) s.prog s.progParams)) (save s) = s ∧
    load (killAllInsts (hostReset s)) (save s) = { s with prog := [], progParams := [] } ∧
    ∀ {α : Type} (future : State → α), future (load (killAllInsts s) (save s)) = future s := by
  obtain ⟨a1, a2, a3⟩ := C09_save_reset_load_general h hfuel ho
  rw [archivable_eq_self s hcalls hev] at a1 a2 a3
  exact ⟨a1, a3, a2, fun future => by rw [a1]⟩

/-- **`hcalls` is necessary**: whatever the context, if loading the snapshot of `s` gives back `s`, then no thread of `s`
    was linked to a host-call record (`load` never restores a link) — and no event was posted if the context had none -/
theorem C09_roundtrip_hypotheses_necessary (s X : State) (h : load X (save s) = s) :
    (∀ e ∈ s.threads, e.2.call = none) ∧ (X.events = [] → s.events = []) := by
  refine ⟨fun e he => C09_host_result_link_dropped X (save s) e (by rw [h]; exact he), fun hx => ?_⟩
  have : (load X (save s)).events = X.events := rfl
  rw [h] at this
  rw [this, hx]

/-- the `load` of the round trip is a legal driver command: its side conditions in `ReachableSL.load` (the implied
    `Reset()` has fuel left; the objects that are wait sources in the snapshot exist) follow, the second one from the
    invariant — so the loaded state is again reachable and everything proved about reachable states applies to it -/
theorem C09_save_load_is_reachable {s : State} {k : Option Snap} (h : ReachableSL s k)
    (hfuel : s.outOfFuel = false) (ho : (killAllInsts s).outOfFuel = false) :
    ReachableSL (load (killAllInsts s) (save s)) (some (save s)) := by
  have hi : HInv3 s := (reachableSL_hinv3 h).1.get hfuel
  refine ReachableSL.load (ReachableSL.save h hfuel) ho (fun o n x hx ho' => ?_)
  have ha := (hi.h2.h.inv.tab.aN o n x hx).1
  have hth : State.isThread o = false := by simp [State.isThread]; omega
  rw [State.alive_obj _ hth] at ha
  exact ha

/-! ### non-vacuity: the save / run-on / load demo state -/

/-- the state of `demoSL` at its save point (a timed thread and a thread waiting on the level object, started by a host
    call that has returned) satisfies every hypothesis of the round trip except `hcalls`: the timed thread is still
    linked to host call 1 -/
example :
    (runOps {} demoSL).outOfFuel = false ∧ (killAllInsts (runOps {} demoSL)).outOfFuel = false ∧
    (runOps {} demoSL).events = [] ∧ (runOps {} demoSL).threads.map (fun e => e.2.call) = [some 1, none] ∧
    (runOps {} demoSL).threads.map (·.1) = [100, 101] := by
  decide +kernel

/-- the general form applies there: the loaded state is the saved one with the link of thread 100 dropped — and that
    is a different state -/
example :
    load (killAllInsts (runOps {} demoSL)) (save (runOps {} demoSL)) = archivable (runOps {} demoSL) ∧
    (archivable (runOps {} demoSL)).threads.map (fun e => e.2.call) = [none, none] ∧
    (archivable (runOps {} demoSL)).timer.elems = [(100, 5)] ∧ (archivable (runOps {} demoSL)).calls = [(1, .pending)] :=
  ⟨(C09_save_reset_load_general (Reachable.toSL ((reachable_iff _).2 ⟨demoSL, by decide, rfl⟩))
      (by decide +kernel) (by decide +kernel)).1, by decide +kernel⟩

/-- the run-on state of the demo (clock 5: the linked thread has ended, the thread waiting on `level` is left, a
    snapshot is held) satisfies **every** hypothesis of `C09_save_reset_load_roundtrip`; saving it, resetting and
    loading gives it back -/
example :
    load (killAllInsts (runOps (runOps {} demoSL) [.step 5, .takeOut])) (save (runOps (runOps {} demoSL) [.step 5, .takeOut]))
      = runOps (runOps {} demoSL) [.step 5, .takeOut] ∧
    (runOps (runOps {} demoSL) [.step 5, .takeOut]).threads.map (·.1) = [101] ∧
    (runOps (runOps {} demoSL) [.step 5, .takeOut]).notify = [((50, 7), [101])] :=
  ⟨(C09_save_reset_load_roundtrip demoSL_reachable (by decide +kernel) (by decide +kernel) (by decide +kernel)
      (by decide +kernel)).1, by decide +kernel⟩

/-- the same program started without a host `Event` (`callv`): at the save point a timed thread with its timer element
    and a thread waiting on `level`, no link; all hypotheses hold, all three compositions behave as stated -/
def demoSLv : List HostOp :=
  [.script [[.thread 1, .wait 5, .mark 1], [.waittill 50 [7], .mark 2]] [0, 0], .callv 0, .takeOut]

example :
    load (killAllInsts (runOps {} demoSLv)) (save (runOps {} demoSLv)) = runOps {} demoSLv ∧
    load (killAllInsts (hostScript (hostReset (runOps {} demoSLv)) (runOps {} demoSLv).prog (runOps {} demoSLv).progParams))
      (save (runOps {} demoSLv)) = runOps {} demoSLv ∧
    (runOps {} demoSLv).threads.map (·.1) = [100, 101] ∧ (runOps {} demoSLv).timer.elems = [(100, 5)] ∧
    (runOps {} demoSLv).notify = [((50, 7), [101])] ∧ (runOps {} demoSLv).prog.length = 2 ∧
    (hostReset (runOps {} demoSLv)).threads = [] ∧ (hostReset (runOps {} demoSLv)).prog = [] :=
  have h := C09_save_reset_load_roundtrip (Reachable.toSL ((reachable_iff _).2 ⟨demoSLv, by decide, rfl⟩))
    (by decide +kernel) (by decide +kernel) (by decide +kernel) (by decide +kernel)
  ⟨h.1, h.2.1, by decide +kernel⟩

/-- necessity, non-vacuously: the round trip of `demoSLv` holds, so its two hypotheses do; at the save point of `demoSL`
    (thread 100 linked) no context whatsoever gives the state back -/
example : (∀ e ∈ (runOps {} demoSLv).threads, e.2.call = none) ∧ ∀ X : State, load X (save (runOps {} demoSL)) ≠ runOps {} demoSL :=
  ⟨(C09_roundtrip_hypotheses_necessary _ _
      (C09_save_reset_load_roundtrip (Reachable.toSL ((reachable_iff _).2 ⟨demoSLv, by decide, rfl⟩))
        (by decide +kernel) (by decide +kernel) (by decide +kernel) (by decide +kernel)).1).1,
   fun X h => absurd ((C09_roundtrip_hypotheses_necessary _ X h).1) (by decide +kernel)⟩

end Morfuse.Sched
