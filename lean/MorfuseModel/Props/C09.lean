import MorfuseModel.Sched.Snapshot
/-!
# C09 — save, reset, load resumes scripts exactly where an uninterrupted run would be

The machine-level statement: at a frame boundary (no thread current, no VM activation, no thread
still owing a result to a host `Event`), loading the snapshot of a state into any context that agrees
with that state on what is *not* archived (clock, programs, objects, host records, output) gives back
exactly that state — hence every future of the loaded engine equals the future of the uninterrupted
one, for every later sequence of host operations.

What carries the weight is **which components `save` keeps** (`Sched/Snapshot.lean`); that the engine
really restores exactly those is checked on every run by tools/props/c09.py in two ways: the real
engine with `save; load` inserted at every frame boundary must behave as the same run without it
(programs with timed waits, threads, waitthread and locals of every archivable kind, shared arrays
included), and it must agree with the machine executing `load (save s)`.

Stated limitations (engine behaviour, not model gaps): posted events are not archived (hypothesis
`hev`: the context loaded into holds the same pending timeout events as the saved state — after a
`Reset` that means none, so a thread saved inside `waittill_timeout` loses its timeout); a host
`Event` awaiting a thread's result is not part of the archive, so such a result stays pending.
-/
namespace Morfuse.Sched

/-- **Round trip.** -/
theorem C09_roundtrip (s cur : State)
    (hcur : s.cur = none) (hdepth : s.depth = 0) (hfuel : s.outOfFuel = false)
    (hcalls : ∀ e ∈ s.threads, e.2.call = none)
    (hprog : cur.prog = s.prog) (hpp : cur.progParams = s.progParams) (hclock : cur.clock = s.clock)
    (hscaled : cur.scaled = s.scaled) (hlast : cur.lastClock = s.lastClock) (hobjs : cur.objs = s.objs)
    (hout : cur.out = s.out) (hc : cur.calls = s.calls) (hnc : cur.nextCall = s.nextCall)
    (hev : cur.events = s.events) :
    load cur (save s) = s := by
  have hthreads : s.threads.map (fun e => (e.1, { e.2 with call := none })) = s.threads := by
    have : ∀ e ∈ s.threads, (fun (e : Nat × Th) => (e.1, { e.2 with call := none })) e = e := by
      intro e he
      have := hcalls e he
      cases e with | mk a th => cases th; simp_all
    calc s.threads.map (fun e => (e.1, { e.2 with call := none }))
        = s.threads.map id := List.map_congr_left this
      _ = s.threads := List.map_id _
  cases s; cases cur
  simp only [load, save] at *
  simp_all

/-- **Equal futures.**  Whatever the host does afterwards (any function of the state: further frames,
    calls, resets, …), the loaded engine and the uninterrupted one produce the same thing. -/
theorem C09_equal_futures {α : Type} (future : State → α) (s cur : State)
    (hcur : s.cur = none) (hdepth : s.depth = 0) (hfuel : s.outOfFuel = false)
    (hcalls : ∀ e ∈ s.threads, e.2.call = none)
    (hprog : cur.prog = s.prog) (hpp : cur.progParams = s.progParams) (hclock : cur.clock = s.clock)
    (hscaled : cur.scaled = s.scaled) (hlast : cur.lastClock = s.lastClock) (hobjs : cur.objs = s.objs)
    (hout : cur.out = s.out) (hc : cur.calls = s.calls) (hnc : cur.nextCall = s.nextCall)
    (hev : cur.events = s.events) :
    future (load cur (save s)) = future s := by
  rw [C09_roundtrip s cur hcur hdepth hfuel hcalls hprog hpp hclock hscaled hlast hobjs hout hc hnc hev]

/-- a thread that still owes its result to a host `Event` loses that link: the result stays pending
    (the engine does not archive the host's `Event`) -/
theorem C09_host_result_link_dropped (cur : State) (k : Snap) :
    ∀ e ∈ (load cur k).threads, e.2.call = none := by
  intro e he
  simp only [load, List.mem_map] at he
  obtain ⟨e0, _, rfl⟩ := he
  rfl

/-! ### non-vacuity: a state with two timed threads in one instance at a frame boundary -/
def demoState : State :=
  { prog := [[.mark 1, .wait 250, .mark 2], [.wait 500]], progParams := [0, 0],
    threads := [(100, { label := 0, pc := 2, ts := .timing, vm := .idling, inst := 1 }), (101, { label := 1, pc := 1, ts := .timing, vm := .idling, inst := 1 })],
    insts := [(1, [101, 100])], timer := { mtime := 0, dirty := false, elems := [(100, 250), (101, 500)] },
    nextTid := 102, nextInst := 2 }

example : load demoState (save demoState) = demoState :=
  C09_roundtrip demoState demoState rfl rfl rfl (by intro e he; simp [demoState] at he; rcases he with rfl | rfl <;> rfl)
    rfl rfl rfl rfl rfl rfl rfl rfl rfl rfl

end Morfuse.Sched
