import MorfuseModel.Archive.Sample
import MorfuseModel.Archive.ValueRoundTrip
import MorfuseModel.Archive.EqW
import MorfuseModel.Archive.Dict
import MorfuseModel.Archive.TablesLemmas
/-!
# C10 — archives round-trip values and object graphs faithfully

Statements are about `Morfuse.Archive.encode` / `decode` (`Archive/Model.lean`), the transcription of
`src/Script/Archiver.cpp` that the correspondence run compares byte for byte and value for value with
the real `Archiver`.  They hold for **every** reader configuration `cfg` (the unrepaired reader and the
repaired one alike): the defects C11 is about concern damaged archives only.

`WF` (in `Archive/RoundTrip.lean`) is the hypothesis "the same sequence of calls" can be honoured at
all: values fit their C++ type, every non-null pointer target is registered somewhere in the sequence
(before or after the pointer, or by the pointer's own object), classes resolve in the registry, sizes
fit `streamsize`, allocations succeed, fewer than `ARCHIVE_NULL_POINTER` objects.
-/
namespace Morfuse.Archive

/-- Every integer / float / boolean call of every width: what `ArchiveX` wrote, `ArchiveX` reads
    (bit pattern for bit pattern), leaving the stream exactly behind the record. -/
theorem C10_prim_roundtrip (cfg : Cfg) (p : Prim) (v : Nat) (hv : v < 256 ^ p.width)
    (tail : Bytes) (pos : Nat) (R : List Lbl) (F : List Nat) :
    readPrim cfg p ⟨encPrim p v ++ tail, pos, true, R, F⟩ = .ok v ⟨tail, pos + 4 + p.width, true, R, F⟩ :=
  readPrim_ok cfg p v hv tail pos R F

/-- Strings of any content (empty, embedded NULs, any byte) read back equal. -/
theorem C10_string_roundtrip (cfg : Cfg) (bs tail : Bytes) (pos : Nat) (R : List Lbl) (F : List Nat)
    (hl : bs.length < 2 ^ 64) (ha : strAlloc bs.length < cfg.allocLimit) :
    readStr cfg [] ⟨encStr bs ++ tail, pos, true, R, F⟩ = .ok bs ⟨tail, pos + (encStr bs).length, true, R, F⟩ :=
  readStr_ok cfg bs [] tail pos R F hl ha (fun _ => rfl)

/-- Whole write sequences (primitives, raw blocks, strings, objects with nested `Archive` bodies,
    plain and safe pointers, positions): reading with the same sequence of calls returns the sequence,
    pointer slots holding the objects they held when written. -/
theorem C10_roundtrip (cfg : Cfg) (classes : List Bytes) (info : Info) (w : List Item)
    (hw : WF cfg classes info w) :
    decode cfg classes info (schemaOf w) (encode info w) = .ok w :=
  decode_encode cfg classes info w hw

mutual
/-- pointer slots of a sequence in call order (`0` = null) -/
def ptrSlotsItem : Item → List Lbl
  | .ptr _ o => [o]
  | .object _ _ _ body => ptrSlots body
  | _ => []
def ptrSlots : List Item → List Lbl
  | [] => []
  | i :: is => ptrSlotsItem i ++ ptrSlots is
end

/-- Pointer identity is preserved both ways: two slots held the same object before iff they hold the
    same object afterwards; null stays null.  Forward, backward and self references are all instances
    (`WF.targets` does not care where the target is registered). -/
theorem C10_pointer_identity (cfg : Cfg) (classes : List Bytes) (info : Info) (w w' : List Item)
    (hw : WF cfg classes info w) (hr : decode cfg classes info (schemaOf w) (encode info w) = .ok w') :
    (ptrSlots w').length = (ptrSlots w).length ∧
    (∀ i j : Nat, (ptrSlots w)[i]? = (ptrSlots w)[j]? ↔ (ptrSlots w')[i]? = (ptrSlots w')[j]?) ∧
    (∀ i : Nat, (ptrSlots w)[i]? = some 0 ↔ (ptrSlots w')[i]? = some 0) := by
  rw [C10_roundtrip cfg classes info w hw] at hr
  cases hr
  exact ⟨rfl, fun _ _ => Iff.rfl, fun _ => Iff.rfl⟩

/-- The mechanism behind it: distinct registered objects get distinct archive indices, none of which is
    the null marker, so equality of indices in the archive is equality of objects. -/
theorem C10_index_injective (T : List Lbl) (a b : Lbl) (ha : a ∈ T) (hb : b ∈ T) (hT : T.length < nullIdx) :
    (idxIn T a = idxIn T b ↔ a = b) ∧ idxIn T a ≠ nullIdx := by
  refine ⟨⟨fun h => idxOf_inj ha hb (by simpa [idxIn] using h), fun h => h ▸ rfl⟩, ?_⟩
  have := List.idxOf_lt_length_of_mem ha
  simp only [idxIn]; omega

/-! ### script values (`ScriptVariable::ArchiveInternal`) -/

/-- `Value.code` is the position of the kind in `enum class variableType_e` as it is in the source tree -/
theorem C10_value_codes_match_source :
    [Value.none, .string [], .int 0, .float 0, .char 0, .constString none, .link 6 true 0, .link 7 false 0,
      .array 0 0 1 1 0 [], .holderRef 8 0, .constArray 0 0 [], .holderRef 9 0, .link 10 false 0, .link 11 true 0,
      .pointer 0 [], .holderRef 12 0, .vector []].map
        (fun v => Morfuse.Gen.Archive.varTypeNames[v.code]?) =
      [some "None", some "String", some "Integer", some "Float", some "Char", some "ConstString", some "Listener",
        some "Ref", some "Array", some "Array", some "ConstArray", some "ConstArray", some "Container",
        some "SafeContainer", some "Pointer", some "Pointer", some "Vector"] := by
  decide

/-- **Values of every kind `ArchiveInternal` handles** (None, Integer, Float, Char, String, ConstString, Vector; the
    pointer kinds Listener / Ref / Container / SafeContainer; const arrays and hash arrays nested to any depth with
    any number of entries; a `ScriptPointer` cell with the list of variables pointing at it; a holder or cell shared
    with an earlier variable — `holderRef`, written as the archive index of the holder): the data-directed reader
    (`readValue`: the kind byte found in the archive selects the calls, holders are allocated as the archive says)
    run on what `ArchiveInternal` wrote returns the value — archive indices in its pointer slots, which
    `C10_roundtrip_mixed` resolves — and leaves the stream exactly behind it.
    `WFValue` asks for `cfg.valueStrFresh = true ∨ bs ≠ []` on String values: with the unrepaired
    `new str(4)` an **empty** string does not round-trip (`C10_legacy_empty_string_value`); for the repaired
    reader the statement is unconditional. -/
theorem C10_value_roundtrip (cfg : Cfg) (T : List Lbl) (hT : T.length < nullIdx) (hA : T.length * 8 < cfg.allocLimit)
    (v : Value) (fuel : Nat) (self : Lbl) (t : List Lbl) (tail : Bytes) (pos : Nat) (R : List Lbl) (F : List Nat)
    (sup' : Supply) (hd : depth v < fuel) (hp : (valCalls t self v).1 <+: T) (hw : WFValue cfg t self v)
    (hR : R.length = T.length) (hl : (encItems t (valCalls t self v).2).2.length < 2 ^ 63) :
    readValue cfg fuel self (supplyOf v ++ sup') ⟨(encItems t (valCalls t self v).2).2 ++ tail, pos, true, R, F⟩ =
      .ok (rawValue T v, sup') ⟨tail, pos + (encItems t (valCalls t self v).2).2.length, true,
        (regLabels (valCalls t self v).2).foldl (setL T) R, newFix T (valCalls t self v).2 ++ F⟩ :=
  readValue_enc cfg T hT hA v fuel self t tail pos R F sup' hd hp hw hR hl

/-- **Mixed sequences**: Archiver calls and script values interleaved, pointers and shared holders resolved by
    `Close`: reading returns the sequence. -/
theorem C10_roundtrip_mixed (cfg : Cfg) (classes : List Bytes) (info : Info) (ws : List WItem)
    (hw : WFW cfg classes info ws) :
    decodeW cfg classes info (schemaW ws) (encodeW info ws) = .ok ws :=
  decodeW_encodeW cfg classes info ws hw

mutual
/-- the holder (const array, hash array) or pointer cell each variable of a value holds, in archive order -/
def holderSlots : Value → List Lbl
  | .constArray h _ es => h :: holderSlotsE es
  | .array h _ _ _ _ kvs => h :: holderSlotsE kvs
  | .pointer p _ => [p]
  | .holderRef _ h => [h]
  | _ => []
def holderSlotsE : List (Lbl × Value) → List Lbl
  | [] => []
  | (_, v) :: es => holderSlots v ++ holderSlotsE es
end

def holderSlotsW : List WItem → List Lbl
  | [] => []
  | .item _ :: ws => holderSlotsW ws
  | .value _ v :: ws => holderSlots v ++ holderSlotsW ws
  | .named _ _ v :: ws => holderSlots v ++ holderSlotsW ws

/-- **Sharing is preserved both ways**: two variables hold the same array holder / the same pointer cell after the
    load iff they did before (a holder archived once and referred to by index afterwards comes back as one
    holder, not as copies; distinct holders stay distinct). -/
theorem C10_sharing_preserved (cfg : Cfg) (classes : List Bytes) (info : Info) (ws ws' : List WItem)
    (hw : WFW cfg classes info ws) (hr : decodeW cfg classes info (schemaW ws) (encodeW info ws) = .ok ws') :
    (holderSlotsW ws').length = (holderSlotsW ws).length ∧
    ∀ i j : Nat, (holderSlotsW ws)[i]? = (holderSlotsW ws)[j]? ↔ (holderSlotsW ws')[i]? = (holderSlotsW ws')[j]? := by
  rw [C10_roundtrip_mixed cfg classes info ws hw] at hr
  cases hr
  exact ⟨rfl, fun _ _ => Iff.rfl⟩

/-- **Look-ups in a loaded hash array, keys that are not listeners**: an integer, string or constant-string key is
    hashed the same way while loading and afterwards, so `array[key]` finds the loaded entry — for every hash function
    and table length. -/
theorem C10_lookup_after_load (hash : Value → Nat) (addr : Lbl → Nat) (tl : Nat) (k : Value)
    (hk : ∀ s o, k ≠ .link 6 s o) (refiled : Bool) : foundAfterLoad refiled hash addr tl k = true := by
  have h : keyHashAtLoad hash k = keyHashAfter hash addr k := by
    unfold keyHashAtLoad keyHashAfter
    split
    · rename_i s o
      exact absurd rfl (hk s o)
    · rfl
  simp [foundAfterLoad, h]

/-- **Known finding G2 (as the code is)**: a Listener key is hashed as null while its entry is loaded; in a table with
    more than one bucket a look-up afterwards searches the bucket of the listener's address and misses the entry
    (unless that address happens to be a multiple of the table length).  Replayed on the real code on every run
    (`corpus/C10/known-listener-key-lost.json`, signature `roundtrip:lost-key:listener-key`). -/
theorem C10_known_listener_key_lost (hash : Value → Nat) (addr : Lbl → Nat) (tl : Nat) (s : Bool) (o : Lbl)
    (ho : o ≠ 0) (ha : addr o % tl ≠ 0) : foundAfterLoad false hash addr tl (.link 6 s o) = false := by
  simp [foundAfterLoad, keyHashAtLoad, keyHashAfter, ho, Nat.zero_mod]
  exact fun h => ha h.symm

/-- in a one-bucket table (and for a null listener) the entry is found -/
theorem C10_listener_key_one_bucket (hash : Value → Nat) (addr : Lbl → Nat) (s : Bool) (o : Lbl) :
    foundAfterLoad false hash addr 1 (.link 6 s o) = true := by
  simp [foundAfterLoad, Nat.mod_one]

/-- with the entries filed again when the archive is closed (`notes/C10-suggested-fix-2.diff`) every key is found -/
theorem C10_lookup_after_load_refiled (hash : Value → Nat) (addr : Lbl → Nat) (tl : Nat) (k : Value) :
    foundAfterLoad true hash addr tl k = true := by
  simp [foundAfterLoad]

/-- **Named variables** (`ScriptVariable::Archive`: what `ScriptVariableList::Archive` does for every entry of the
    list): the name goes through `StringDictionary::ArchiveString` (text in the archive), the value through
    `ArchiveInternal`; reading returns name text and value, and `C10_const_string_any_dictionary` interns the
    name in the **reading** dictionary like every other constant string (`constTextsW` lists it before the
    constant strings of its value). -/
theorem C10_named_variable_roundtrip (cfg : Cfg) (classes : List Bytes) (info : Info) (ws : List WItem)
    (hw : WFW cfg classes info ws) (self : Lbl) (k : Option Bytes) (v : Value) (hm : WItem.named self k v ∈ ws) :
    decodeW cfg classes info (schemaW ws) (encodeW info ws) = .ok ws ∧
      WItem.named self k v ∈ (match decodeW cfg classes info (schemaW ws) (encodeW info ws) with | .ok r => r | .error _ => []) := by
  rw [C10_roundtrip_mixed cfg classes info ws hw]
  exact ⟨rfl, hm⟩

/-! ### constant strings and the dictionary of the loading session (`StringDictionary::ArchiveString`) -/

/-- **Any reading dictionary.**  A ConstString value is archived by its text and interned on load into the
    dictionary of the *loading* script context.  Whatever that dictionary `D` holds beforehand (nothing, the same
    strings at other ids, other strings at the writer's ids): the load returns the sequence that was written,
    every id `D` had keeps its text, and the `const_str` each loaded ConstString value received denotes — in the
    dictionary after the load — exactly the text that was archived (`L.ids` in load order against
    `constTextsW ws`). -/
theorem C10_const_string_any_dictionary (cfg : Cfg) (classes : List Bytes) (info : Info) (ws : List WItem)
    (hw : WFW cfg classes info ws) (D : Dict) :
    ∃ L, decodeWD cfg classes info (schemaW ws) D (encodeW info ws) = .ok L ∧ L.items = ws ∧ D <+: L.dict ∧
      L.ids.map L.dict.text = (constTextsW ws).map some :=
  decodeWD_encodeW cfg classes info ws hw D

/-- **Identity of constant strings.**  Two loaded constant strings are the same `const_str` iff their texts are
    equal (script code compares constant strings by id), for every reading dictionary. -/
theorem C10_const_string_identity (D : Dict) (texts : List Bytes) (i j : Nat) (hi : i < texts.length)
    (hj : j < texts.length) :
    (D.loadAll texts).2[i]? = (D.loadAll texts).2[j]? ↔ texts[i]? = texts[j]? :=
  Dict.loadAll_ids_eq_iff texts D i j hi hj

/-- **Ids of the loading session are stable.**  A text the loading dictionary already holds is given the id it
    already has (so a loaded constant string equals the one compiled scripts use), and no id changes its text. -/
theorem C10_dictionary_ids_stable (D : Dict) (texts : List Bytes) :
    (∀ (k : Nat) (bs : Bytes), bs ∈ D → texts[k]? = some bs → (D.loadAll texts).2[k]? = some (D.idxOf bs + 1)) ∧
    (∀ (i : Nat) (bs : Bytes), D.text i = some bs → (D.loadAll texts).1.text i = some bs) :=
  ⟨fun k bs hm h => Dict.loadAll_known texts D k bs hm h, fun _ _ h => Dict.loadAll_keeps texts D h⟩

/-- what `Get(text)` on the load side would do (the text is looked up, not interned): a constant string the
    loading dictionary has not seen comes back as `const_str::None()` -/
theorem C10_lookup_instead_of_intern_loses_text : (Dict.find [] [97]) = 0 ∧ Dict.text [] 0 = none := by decide

/-! ### `Listener::Archive`'s own tables (`con::set<const_str, ConList>`, `Container<SafePtr<Listener>>`) -/

/-- **Listener tables, stream phase.**  The bytes of a Listener record with event tables are
    `encItem t (.object m o "Listener" (listenerCalls st))` (so `C10_roundtrip` already covers them for a reader
    that knows the schema); the real reader is **data-directed** — flag byte, `count`, `hasString`, `num` decide
    which calls follow.  Run where the stream holds what the writer produced for `st` (after any prefix, with any
    object table `t` so far), that reader returns the tables — archive indices in the pointer slots — consumes
    exactly the body and queues exactly the fix-ups of the body.  Any number of entries, keys of any text, lists
    of any length with null and repeated listeners. -/
theorem C10_listener_tables_roundtrip (cfg : Cfg) (T : List Lbl) (hT : T.length < nullIdx) (st : LTables)
    (hw : WFTables cfg st) (t : List Lbl) (tail : Bytes) (pos : Nat) (R : List Lbl) (F : List Nat)
    (hp : (encItems t (listenerCalls st)).1 <+: T) (hR : R.length = T.length) :
    readListener cfg ⟨(encItems t (listenerCalls st)).2 ++ tail, pos, true, R, F⟩ =
      .ok (rawTables T st) ⟨tail, pos + (encItems t (listenerCalls st)).2.length, true, R,
        newFix T (listenerCalls st) ++ F⟩ :=
  readListener_honest hT cfg st hw t tail pos R F hp hR

/-- **Listener tables, `Close`.**  Once the fix-ups are resolved against a table in which every listener the
    tables point to sits at its archive index, the tables are the ones that were written: same keys, same
    listeners in the same order in every list, null stays null, same `tableLength` / `threshold` /
    `tableLengthIndex`. -/
theorem C10_listener_tables_close (T Rf : List Lbl) (st : LTables)
    (h : ∀ o ∈ tableTargets st, Rf.getD (T.idxOf o) 0 = o) : fixTables Rf (rawTables T st) = st :=
  fixTables_raw T Rf st h

/-- the unrepaired `ArchiveInternal` (`m_data.stringValue = new str(4)`): an empty String value comes back as
    the text "4" — replayed on the real code by corpus/C10/empty-string-value.json -/
theorem C10_legacy_empty_string_value :
    decodeW Cfg.legacy [] ⟨[77], [], 1⟩ (schemaW [.value 1 (.string [])]) (encodeW ⟨[77], [], 1⟩ [.value 1 (.string [])])
      = .ok [.value 1 (.string [52])] :=
  eq_of_outcomeBeqW (by decide +kernel)

/-! ### non-vacuity -/

/-- a listener pointer written before its target, a const array shared by two variables, an empty string -/
def sampleW : List WItem :=
  [.value 10 (.link 6 true 1), .value 15 (.link 7 false 12), .item (.object .typed 1 [76] [.prim .u8 0]),
   .value 16 (.array 70 1 3 3 0 [(71, .int 5), (72, .string [120]), (73, .constString (some [107])), (74, .link 7 false 10)]),
   .value 17 (.holderRef 8 70), .value 18 (.pointer 80 [18, 19]), .value 19 (.holderRef 12 80),
   .value 20 (.link 10 false 1), .value 21 (.link 11 true 1),
   .value 11 (.constArray 50 1 [(51, .int 7), (52, .string []), (53, .constArray 60 0 [(61, .vector [0,0,0,0,0,0,0,0,0,0,0,0])])]),
   .value 12 (.holderRef 9 50), .value 13 (.constString (some [97])), .value 14 .none,
   .named 22 (some [110, 97, 109, 101]) (.int 1234), .named 23 none (.link 7 false 22)]

def sampleW_len : Nat := 789

theorem sampleW_wf : WFW Cfg.fixed [[76]] sampleInfo sampleW where
  items := by
    simp [sampleW, WFWs, WFItem, WFItems, WFValue, WFElems, valCalls, elemCalls, encItem, encItems, addUnique, svSize,
      Prim.width, strAlloc, getClass, cstr, eqi, upc, Cfg.fixed, pairsOk, Value.hashable, encStr_length, WFKey]
  targets := by decide
  count := by decide
  table := by decide
  size := by
    have : (encodeW sampleInfo sampleW).length = sampleW_len := by set_option maxRecDepth 100000 in decide
    simp only [sampleW_len] at this
    omega
  depth := by
    have : (encodeW sampleInfo sampleW).length = sampleW_len := by set_option maxRecDepth 100000 in decide
    simp only [sampleW_len] at this
    have : depthW sampleW = 2 := by decide
    omega
  version := by decide
  name := by decide

example : decodeW Cfg.fixed [[76]] sampleInfo (schemaW sampleW) (encodeW sampleInfo sampleW) = .ok sampleW :=
  C10_roundtrip_mixed _ _ _ _ sampleW_wf

/-- loaded into a dictionary that holds another string at id 1 and the archived text "a" at id 2 -/
example : ∃ L, decodeWD Cfg.fixed [[76]] sampleInfo (schemaW sampleW) [[120], [97]] (encodeW sampleInfo sampleW) = .ok L ∧
    L.items = sampleW ∧ [[120], [97]] <+: L.dict ∧ L.ids.map L.dict.text = (constTextsW sampleW).map some :=
  C10_const_string_any_dictionary _ _ _ _ sampleW_wf _

example : constTextsW sampleW = [[107], [97], [110, 97, 109, 101]] := by decide
example : holderSlotsW sampleW = [70, 70, 80, 80, 50, 60, 50] := by decide
example : (Dict.loadAll [] [[97], [98], [97]]).2 = [1, 2, 1] := by decide
example : (Dict.loadAll [[98]] [[97], [98], [97]]) = ([[98], [97]], [2, 1, 2]) := by decide


example : decode Cfg.legacy [[76], [86]] sampleInfo (schemaOf sample) (encode sampleInfo sample) = .ok sample :=
  C10_roundtrip _ _ _ _ (sample_wf _ (by decide))

example : decode Cfg.fixed [[76], [86]] sampleInfo (schemaOf sample) (encode sampleInfo sample) = .ok sample :=
  C10_roundtrip _ _ _ _ (sample_wf _ (by decide))

/-- a listener with a notify table of two entries (one list with a repeated and a null listener) and an end table -/
def sampleTables : LTables :=
  { notify := some { tableLength := 3, threshold := 3, tableLengthIndex := 0, entries := [(some [97], [5, 0, 5]), (some [98, 99], [6])] },
    waitFor := none,
    endl := some { tableLength := 1, threshold := 1, tableLengthIndex := 0, entries := [(some [100], [])] } }

theorem sampleTables_wf : WFTables Cfg.fixed sampleTables where
  notify := by
    refine ⟨by decide, by decide, by decide, by decide, ?_, ?_⟩
    · intro t
      simp only [entriesCalls, entryCalls, keyCalls, conListCalls, encItems, encItem, List.map, List.cons_append,
        List.nil_append, List.append_nil, List.length_append, encPrim_length, Prim.width, encStr_length, List.length_cons,
        List.length_nil]
      constructor <;> (repeat' split) <;> simp <;> omega
    intro e he
    simp only [sampleTables, List.mem_cons, List.not_mem_nil, or_false] at he
    rcases he with rfl | rfl <;>
      exact ⟨by simp [WFKey, strAlloc, Cfg.fixed], by simp [WFList, safePtrSize, Cfg.fixed]⟩
  waitFor := trivial
  endl := by
    refine ⟨by decide, by decide, by decide, by decide, ?_, ?_⟩
    · intro t
      simp only [entriesCalls, entryCalls, keyCalls, conListCalls, encItems, encItem, List.map, List.cons_append,
        List.nil_append, List.append_nil, List.length_append, encPrim_length, Prim.width, encStr_length, List.length_cons,
        List.length_nil]
      constructor <;> (repeat' split) <;> simp <;> omega
    intro e he
    simp only [sampleTables, List.mem_cons, List.not_mem_nil, or_false] at he
    subst he; exact ⟨by simp [WFKey, strAlloc, Cfg.fixed], by simp [WFList, safePtrSize, Cfg.fixed]⟩

example : readListener Cfg.fixed ⟨(encItems [5, 6] (listenerCalls sampleTables)).2 ++ [1, 2], 7, true, [0, 0], []⟩ =
    .ok (rawTables [5, 6] sampleTables) ⟨[1, 2], 7 + (encItems [5, 6] (listenerCalls sampleTables)).2.length, true, [0, 0],
      newFix [5, 6] (listenerCalls sampleTables) ++ []⟩ :=
  C10_listener_tables_roundtrip Cfg.fixed [5, 6] (by decide) sampleTables sampleTables_wf [5, 6] [1, 2] 7 [0, 0] []
    (by decide) rfl

example : fixTables [5, 6] (rawTables [5, 6] sampleTables) = sampleTables :=
  C10_listener_tables_close [5, 6] [5, 6] sampleTables (by decide)

example : ptrSlots sample = [1, 1, 2, 3, 0] := by decide

example : readPrim Cfg.legacy .i64 ⟨encPrim .i64 (2 ^ 63) ++ [7], 0, true, [], []⟩ = .ok (2 ^ 63) ⟨[7], 12, true, [], []⟩ :=
  C10_prim_roundtrip _ _ _ (by decide) _ _ _ _

end Morfuse.Archive
