import MorfuseModel.Archive.Sample
/-!
# C10 — archives round-trip values and object graphs faithfully

Statements are about `Morfuse.Archive.encode` / `decode` (`Archive/Model.lean`), the transcription of
`src/Script/Archiver.cpp` that the correspondence run compares byte for byte and value for value with
the real `Archiver`.  They hold for **every** reader configuration `cfg` (the unrepaired reader and the
repaired one alike): the defects C11 is about concern damaged archives only.

`WF` (in `Archive/RoundTrip.lean`) is the hypothesis "the same sequence of calls" can be honoured at
all: values fit their C++ type, every non-null pointer target is registered somewhere in the sequence
(before or after the pointer, or by the pointer's own object), classes resolve in the registry, sizes
fit `streamsize`, allocations succeed, fewer than `ARCHIVE_NULL_POINTER` objects.
-/
namespace Morfuse.Archive

/-- Every integer / float / boolean call of every width: what `ArchiveX` wrote, `ArchiveX` reads
    (bit pattern for bit pattern), leaving the stream exactly behind the record. -/
theorem C10_prim_roundtrip (cfg : Cfg) (p : Prim) (v : Nat) (hv : v < 256 ^ p.width)
    (tail : Bytes) (pos : Nat) (R : List Lbl) (F : List Nat) :
    readPrim cfg p ⟨encPrim p v ++ tail, pos, true, R, F⟩ = .ok v ⟨tail, pos + 4 + p.width, true, R, F⟩ :=
  readPrim_ok cfg p v hv tail pos R F

/-- Strings of any content (empty, embedded NULs, any byte) read back equal. -/
theorem C10_string_roundtrip (cfg : Cfg) (bs tail : Bytes) (pos : Nat) (R : List Lbl) (F : List Nat)
    (hl : bs.length < 2 ^ 64) (ha : strAlloc bs.length < cfg.allocLimit) :
    readStr cfg [] ⟨encStr bs ++ tail, pos, true, R, F⟩ = .ok bs ⟨tail, pos + (encStr bs).length, true, R, F⟩ :=
  readStr_ok cfg bs [] tail pos R F hl ha (fun _ => rfl)

/-- Whole write sequences (primitives, raw blocks, strings, objects with nested `Archive` bodies,
    plain and safe pointers, positions): reading with the same sequence of calls returns the sequence,
    pointer slots holding the objects they held when written. -/
theorem C10_roundtrip (cfg : Cfg) (classes : List Bytes) (info : Info) (w : List Item)
    (hw : WF cfg classes info w) :
    decode cfg classes info (schemaOf w) (encode info w) = .ok w :=
  decode_encode cfg classes info w hw

mutual
/-- pointer slots of a sequence in call order (`0` = null) -/
def ptrSlotsItem : Item → List Lbl
  | .ptr _ o => [o]
  | .object _ _ body => ptrSlots body
  | _ => []
def ptrSlots : List Item → List Lbl
  | [] => []
  | i :: is => ptrSlotsItem i ++ ptrSlots is
end

/-- Pointer identity is preserved both ways: two slots held the same object before iff they hold the
    same object afterwards; null stays null.  Forward, backward and self references are all instances
    (`WF.targets` does not care where the target is registered). -/
theorem C10_pointer_identity (cfg : Cfg) (classes : List Bytes) (info : Info) (w w' : List Item)
    (hw : WF cfg classes info w) (hr : decode cfg classes info (schemaOf w) (encode info w) = .ok w') :
    (ptrSlots w').length = (ptrSlots w).length ∧
    (∀ i j : Nat, (ptrSlots w)[i]? = (ptrSlots w)[j]? ↔ (ptrSlots w')[i]? = (ptrSlots w')[j]?) ∧
    (∀ i : Nat, (ptrSlots w)[i]? = some 0 ↔ (ptrSlots w')[i]? = some 0) := by
  rw [C10_roundtrip cfg classes info w hw] at hr
  cases hr
  exact ⟨rfl, fun _ _ => Iff.rfl, fun _ => Iff.rfl⟩

/-- The mechanism behind it: distinct registered objects get distinct archive indices, none of which is
    the null marker, so equality of indices in the archive is equality of objects. -/
theorem C10_index_injective (T : List Lbl) (a b : Lbl) (ha : a ∈ T) (hb : b ∈ T) (hT : T.length < nullIdx) :
    (idxIn T a = idxIn T b ↔ a = b) ∧ idxIn T a ≠ nullIdx := by
  refine ⟨⟨fun h => idxOf_inj ha hb (by simpa [idxIn] using h), fun h => h ▸ rfl⟩, ?_⟩
  have := List.idxOf_lt_length_of_mem ha
  simp only [idxIn]; omega

/-! ### non-vacuity -/

example : decode Cfg.legacy [[76], [86]] sampleInfo (schemaOf sample) (encode sampleInfo sample) = .ok sample :=
  C10_roundtrip _ _ _ _ (sample_wf _ (by decide))

example : decode Cfg.fixed [[76], [86]] sampleInfo (schemaOf sample) (encode sampleInfo sample) = .ok sample :=
  C10_roundtrip _ _ _ _ (sample_wf _ (by decide))

example : ptrSlots sample = [1, 1, 2, 3, 0] := by decide

example : readPrim Cfg.legacy .i64 ⟨encPrim .i64 (2 ^ 63) ++ [7], 0, true, [], []⟩ = .ok (2 ^ 63) ⟨[7], 12, true, [], []⟩ :=
  C10_prim_roundtrip _ _ _ (by decide) _ _ _ _

end Morfuse.Archive
