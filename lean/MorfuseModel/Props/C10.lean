import MorfuseModel.Archive.Lemmas
/-! # C10 — archives round-trip values and object graphs faithfully (placeholder, theorems follow) -/
namespace Morfuse.Archive

theorem C10_prim_bits_roundtrip {w n : Nat} (h : n < 256 ^ w) : unle (le w n) = n := unle_le_of_lt h

end Morfuse.Archive
