import MorfuseModel.Archive.Lemmas
/-! # C11 — damaged archives are reported, never trusted (placeholder, theorems follow) -/
namespace Morfuse.Archive

theorem C11_placeholder : Cfg.fixed.checkAfterRead = true := rfl

end Morfuse.Archive
