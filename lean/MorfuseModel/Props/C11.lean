import MorfuseModel.Archive.DamageAll
import MorfuseModel.Archive.Sample
import MorfuseModel.Archive.Eq
import MorfuseModel.Archive.TablesSafety
/-!
# C11 — damaged archives are reported, never trusted

`decode cfg …` is the model of `Archiver::CreateRead`, the reading calls and the destructor
(`Archive/Model.lean`); `cfg` says which of the four reader defects found by this property are repaired
in the source tree (`Gen/ArchiveTable.lean` is regenerated from `Archiver.cpp` / `str.cpp` on every run,
and `tools/props/c11.py` checks with Lean that `Cfg.current` has all four switches on).

* The theorems `C11_truncation_detected … C11_never_undefined` are stated for every `cfg` with the four
  switches on (`Cfg.allFixed`): the reader that reports a short read at once, rejects either version field,
  range-checks indices and bounds lengths by the stream.
* For the reader of the unrepaired tree (`Cfg.legacy`) the same statements are **false**: the
  `C11_legacy_*` theorems are the counter-examples (each replayed on the real code by the check), and
  `C11_substitution_stops_reader_partial` is what survives for every configuration.

Outcome `Err.reported e = true` means an `ArchiveErrors::*` exception handed to the caller; the other
outcomes (`uninit`, `oob`, `alloc`) are undefined behaviour.
-/
namespace Morfuse.Archive

/-- **Truncation.**  Every strict prefix of a valid archive (a save cut off at any byte) makes the reader
    fail with a reported archive error — it never completes, never reaches undefined behaviour. -/
theorem C11_truncation_detected (cfg : Cfg) (hf : cfg.allFixed) (classes : List Bytes) (info : Info)
    (w : List Item) (hw : WF cfg classes info w) (hlim : (encode info w).length + 25 < cfg.allocLimit)
    (k : Nat) (hk : k < (encode info w).length) :
    ∃ e, decode cfg classes info (schemaOf w) ((encode info w).take k) = .error e ∧ e.reported = true :=
  truncation_detected cfg hf classes info w hw hlim k hk

/-- **Type tags.**  Any other byte value at any byte of any record's type tag (header records included). -/
theorem C11_tag_substitution_detected (cfg : Cfg) (hf : cfg.allFixed) (classes : List Bytes) (info : Info)
    (w : List Item) (hw : WF cfg classes info w) (hlim : (encode info w).length + 25 < cfg.allocLimit)
    (p : Nat) (b old : UInt8) (hp : (layout info w)[p]? = some .tag) (ho : (encode info w)[p]? = some old)
    (hb : b ≠ old) :
    ∃ e, decode cfg classes info (schemaOf w) ((encode info w).set p b) = .error e ∧ e.reported = true :=
  substitution_detected cfg hf classes info w hw hlim p b old .tag hp (Or.inl (Or.inl rfl)) ho (by simpa [bcond] using hb)

/-- **Object sizes.**  Any other byte value in the stream-size field of any object bracket. -/
theorem C11_object_size_detected (cfg : Cfg) (hf : cfg.allFixed) (classes : List Bytes) (info : Info)
    (w : List Item) (hw : WF cfg classes info w) (hlim : (encode info w).length + 25 < cfg.allocLimit)
    (p : Nat) (b old : UInt8) (hp : (layout info w)[p]? = some .size) (ho : (encode info w)[p]? = some old)
    (hb : b ≠ old) :
    ∃ e, decode cfg classes info (schemaOf w) ((encode info w).set p b) = .error e ∧ e.reported = true :=
  substitution_detected cfg hf classes info w hw hlim p b old .size hp (Or.inl (Or.inr (Or.inl rfl))) ho
    (by simpa [bcond] using hb)

/-- **Class names.**  Any character of an object's class name replaced by one that differs even ignoring
    ASCII letter case (`ClassDef::GetClass` compares with `str::icmp`, so a pure case flip names the same
    class for the reader: that is exactly what it cannot and need not detect). -/
theorem C11_class_name_detected (cfg : Cfg) (hf : cfg.allFixed) (classes : List Bytes) (info : Info)
    (w : List Item) (hw : WF cfg classes info w) (hlim : (encode info w).length + 25 < cfg.allocLimit)
    (p : Nat) (b old : UInt8) (hp : (layout info w)[p]? = some .cls) (ho : (encode info w)[p]? = some old)
    (hb : upc b ≠ upc old) :
    ∃ e, decode cfg classes info (schemaOf w) ((encode info w).set p b) = .error e ∧ e.reported = true :=
  substitution_detected cfg hf classes info w hw hlim p b old .cls hp (Or.inl (Or.inr (Or.inr rfl))) ho
    (by simpa [bcond] using hb)

/-- **Header and version.**  Any other byte value in the magic, in the engine version or in the program
    version (a *single* wrong version field is enough). -/
theorem C11_header_version_detected (cfg : Cfg) (hf : cfg.allFixed) (classes : List Bytes) (info : Info)
    (w : List Item) (hw : WF cfg classes info w) (hlim : (encode info w).length + 25 < cfg.allocLimit)
    (p : Nat) (b old : UInt8) (c : PC) (hc : c = .hdr ∨ c = .ver) (hp : (layout info w)[p]? = some c)
    (ho : (encode info w)[p]? = some old) (hb : b ≠ old) :
    ∃ e, decode cfg classes info (schemaOf w) ((encode info w).set p b) = .error e ∧ e.reported = true :=
  substitution_detected cfg hf classes info w hw hlim p b old c hp (Or.inr hc) ho
    (by rcases hc with rfl | rfl <;> simpa [bcond] using hb)

/-- **Arbitrary damage, indices in bounds.**  Whatever the bytes are (any multi-byte damage, any length),
    and whatever sequence of calls the host issues, the reader either completes or reports an archive
    error: no index outside the object table is ever dereferenced (neither by a registering call nor by
    the fix-up pass of `Close`, which also runs while an exception unwinds), no uninitialised value is
    used, no allocation larger than the archive is requested. -/
theorem C11_never_undefined (cfg : Cfg) (hf : cfg.allFixed) (classes : List Bytes) (info : Info) (sch : List Sch)
    (bytes : Bytes) (hlim : bytes.length + 25 < cfg.allocLimit) :
    match decode cfg classes info sch bytes with
    | .ok _ => True
    | .error e => e.reported = true :=
  decode_safe cfg hf classes info sch bytes hlim

/-- The invariant behind it, for every state the reader passes through: queued fix-up indices lie in
    `1..numobjects`. -/
theorem C11_indices_in_bounds (cfg : Cfg) (hf : cfg.allFixed) (classes : List Bytes) (info : Info) (sch : List Sch)
    (bytes : Bytes) (hlim : bytes.length + 25 < cfg.allocLimit) :
    match readAll cfg classes info sch bytes with
    | .ok _ s => ∀ i ∈ s.fixups, 1 ≤ i ∧ i ≤ s.table.length
    | .err _ s => ∀ i ∈ s.fixups, 1 ≤ i ∧ i ≤ s.table.length := by
  have h := readAll_safe cfg hf classes info sch bytes hlim
  cases hr : readAll cfg classes info sch bytes with
  | ok a s => rw [hr] at h; exact h.1
  | err e s => rw [hr] at h; exact h.2.1

/-! ### the count-directed readers outside `Archiver.cpp` (`Container_archive.h`, `set_archive.h`, `ScriptVariableList`)

`InvW cfg s`: the invariant of `C11_indices_in_bounds` (every queued fix-up inside the object table, the table
allocatable) and the unread rest of the stream short enough that a count bounded by it can be allocated
(`rest.length * 32 + 25 < allocLimit`).  `SafeW cfg r`: `r` is a value or a **reported** archive error, in a state that
satisfies `InvW` again — in particular none of the undefined outcomes `oob` (division by `tableLength = 0`, index
outside a table), `alloc` (a count taken from the archive allocated although it exceeds the stream), `uninit`. -/

/-- **`con::Archive(arc, Container&, func)`** (the lists of listeners of the event tables), load side as it is after
    1137e36: on arbitrary bytes, from any state the reader can be in. -/
theorem C11_container_archive_never_undefined (cfg : Cfg) (hf : cfg.allFixed) (s : RS) (hs : InvW cfg s) :
    SafeW cfg (readConList cfg s) :=
  readConList_safeW cfg hf s hs

/-- **`con::set::Archive`** (Listener notify / wait-for / end tables), load side as it is after 1137e36 and 00f4e12:
    header checks, count-directed entry loop, keys through the dictionary, one container per entry. -/
theorem C11_set_archive_never_undefined (cfg : Cfg) (hf : cfg.allFixed) (s : RS) (hs : InvW cfg s) :
    SafeW cfg (readSet cfg s) :=
  readSet_safeW cfg hf s hs

/-- **`ScriptVariableList::Archive`** (the same set template over named variables).
    Full statement wanted: `SafeW cfg (readVars cfg fuel specs s)` outright.  Proved: given that the value reader
    (`ScriptVariable::ArchiveInternal`, `readValue`) is safe from every such state.  Missing: that premise — the safety
    of `readValue` on arbitrary bytes (14 kinds, nested; it needs the fuel of the model to be tied to the unread length
    and the switch `arraySizeChecked`, read from the source: on since fix 9cb14ec, F12) — is not proved; it is exercised by
    the differential run (payload, count, kind and flag bytes of every value kind are damaged there). -/
theorem C11_variable_list_never_undefined_partial (cfg : Cfg) (hf : cfg.allFixed) (fuel : Nat)
    (hrv : ∀ l sup s, InvW cfg s → SafeW cfg (readValue cfg fuel l sup s)) (specs : List (Lbl × Supply)) (s : RS)
    (hs : InvW cfg s) : SafeW cfg (readVars cfg fuel specs s) :=
  readVars_safeW cfg hf fuel hrv specs s hs

/-- the unrepaired `ScriptConstArrayHolder::Archive` (F12): an element count of `2^32 - 1` is handed to
    `new ScriptVariable[size + 1]` — replayed on the real code by corpus/C11/f12-const-array-size.json -/
theorem C11_legacy_const_array_size_trusted :
    (readValue { Cfg.fixed with arraySizeChecked := false } 5 1 [2, 3]
        ⟨encPrim .pos 1 ++ encPrim .byte 9 ++ encPrim .bool 1 ++ encPrim .pos 2 ++ encPrim .u32 0 ++ encPrim .u32 (2 ^ 32 - 1),
          0, true, [0, 0, 0], []⟩ matches .err .alloc _) = true ∧
    (readValue Cfg.fixed 5 1 [2, 3]
        ⟨encPrim .pos 1 ++ encPrim .byte 9 ++ encPrim .bool 1 ++ encPrim .pos 2 ++ encPrim .u32 0 ++ encPrim .u32 (2 ^ 32 - 1),
          0, true, [0, 0, 0], []⟩ matches .err .streamFail _) = true := by
  constructor <;> decide +kernel

example : SafeW Cfg.fixed (readSet Cfg.fixed ⟨[6, 0, 0, 0, 0, 0, 0, 0], 0, true, [], []⟩) :=
  C11_set_archive_never_undefined Cfg.fixed ⟨rfl, rfl, rfl, rfl⟩ _ ⟨⟨by simp, by decide, by decide⟩, by decide⟩

/-- What holds for **every** reader configuration, the unrepaired one included: a substituted byte at a
    magic / tag / object-size / class-name position (and at a version position when the version test is
    `||`) stops the run of the reading calls with an error.
    Full statement wanted: `decode … = .error e ∧ e.reported`.  Missing for the unrepaired reader: (1) the
    version positions (`C11_legacy_version_accepted` is the counter-example), (2) that the fix-up pass of
    the destructor stays inside the table while that error unwinds (true for these inputs, not proved
    without the range check). -/
theorem C11_substitution_stops_reader_partial (cfg : Cfg) (classes : List Bytes) (info : Info) (w : List Item)
    (hw : WF cfg classes info w) (p : Nat) (b old : UInt8) (c : PC)
    (hp : (layout info w)[p]? = some c) (hc : c.detAll) (hv : cfg.versionOr = true ∨ c ≠ .ver)
    (ho : (encode info w)[p]? = some old) (hb : bcond c old b) :
    ∃ e s', readAll cfg classes info (schemaOf w) ((encode info w).set p b) = .err e s' :=
  readAll_damaged cfg classes info w hw p b old c hp hc hv ho hb

/-! ### the unrepaired reader: counter-examples (each is replayed on the real code by tools/props/c11.py) -/

/-- three primitives as in `tests/archive.cpp` -/
def tiny : List Item := [.prim .u8 1, .prim .u16 2, .prim .u32 3]
def tinyInfo : Info := { header := [77, 70, 85, 83], name := [], version := 1 }

/-- `CheckRead` runs before the read only: a cut inside the data of the last record is not noticed; the
    caller gets `3` truncated to its low byte… here even the right value, with no error at all. -/
theorem C11_legacy_truncation_undetected :
    decode Cfg.legacy [] tinyInfo (schemaOf tiny) ((encode tinyInfo tiny).take ((encode tinyInfo tiny).length - 1))
      = .ok tiny :=
  eq_of_outcomeBeq (by decide +kernel)

/-- a cut right behind the tag of a position / pointer record leaves index `0` in the zero-initialised
    local; `AddObjectAt(0, …)` / `ObjectAt(0)` then touch `objlist[-1]` -/
theorem C11_legacy_truncation_out_of_bounds :
    decode Cfg.legacy [] tinyInfo [.prim .u8, .position 5]
      ((encode tinyInfo [.prim .u8 1, .position 5]).take ((encode tinyInfo [.prim .u8 1, .position 5]).length - 4))
      = .error .oob :=
  eq_of_outcomeBeq (by decide +kernel)

/-- `mversion != ARCHIVE_VERSION && version != info.version`: one wrong version field is accepted -/
theorem C11_legacy_version_accepted :
    decode Cfg.legacy [] tinyInfo (schemaOf tiny) ((encode tinyInfo tiny).set 8 9) = .ok tiny ∧
      (layout tinyInfo tiny)[8]? = some .ver ∧ (encode tinyInfo tiny)[8]? = some 1 :=
  ⟨eq_of_outcomeBeq (by decide +kernel), by decide +kernel, by decide +kernel⟩

/-- a damaged index is dereferenced by `Close` without a range check -/
theorem C11_legacy_index_out_of_bounds :
    decode Cfg.legacy [] tinyInfo [.ptr false] ((encode tinyInfo [.ptr false 0]).set 40 0) = .error .oob ∧
      (layout tinyInfo [.ptr false 0])[40]? = some .idx :=
  ⟨eq_of_outcomeBeq (by decide +kernel), by decide +kernel⟩

/-- a damaged string length is handed to `str::resize` -/
theorem C11_legacy_length_trusted :
    decode Cfg.legacy [] tinyInfo [.str] ((encode tinyInfo [.str [65]]).set 47 255) = .error .alloc ∧
      (layout tinyInfo [.str [65]])[47]? = some .len :=
  ⟨eq_of_outcomeBeq (by decide +kernel), by decide +kernel⟩

/-! ### non-vacuity: the hypotheses are met by a non-trivial archive -/

theorem fixed_allFixed : Cfg.fixed.allFixed := ⟨rfl, rfl, rfl, rfl⟩

theorem sample_len : (encode sampleInfo sample).length = 210 := by
  set_option maxRecDepth 100000 in decide

example : ∃ e, decode Cfg.fixed [[76], [86]] sampleInfo (schemaOf sample) ((encode sampleInfo sample).take 133)
    = .error e ∧ e.reported = true :=
  C11_truncation_detected _ fixed_allFixed _ _ _ (sample_wf _ (by decide)) (by rw [sample_len]; decide) 133
    (by rw [sample_len]; decide)

/-- byte 41 is the first tag byte of the first call (value `Byte` = 1) -/
example : ∃ e, decode Cfg.fixed [[76], [86]] sampleInfo (schemaOf sample) ((encode sampleInfo sample).set 41 200)
    = .error e ∧ e.reported = true :=
  C11_tag_substitution_detected _ fixed_allFixed _ _ _ (sample_wf _ (by decide)) (by rw [sample_len]; decide) 41 200 1
    (by decide +kernel) (by decide +kernel) (by decide)

example : match decode Cfg.fixed [] tinyInfo [.ptr true, .position 9, .str] [1, 2, 3] with
    | .ok _ => True | .error e => e.reported = true :=
  C11_never_undefined Cfg.fixed fixed_allFixed [] tinyInfo [.ptr true, .position 9, .str] [1, 2, 3] (by decide)

/-- the repaired reader on the legacy counter-examples -/
example : decode Cfg.fixed [] tinyInfo (schemaOf tiny) ((encode tinyInfo tiny).take ((encode tinyInfo tiny).length - 1))
    = .error .streamFail := eq_of_outcomeBeq (by decide +kernel)
example : decode Cfg.fixed [] tinyInfo (schemaOf tiny) ((encode tinyInfo tiny).set 8 9) = .error .wrongVersion :=
  eq_of_outcomeBeq (by decide +kernel)

end Morfuse.Archive
