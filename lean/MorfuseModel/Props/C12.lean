import MorfuseModel.SafePtr.Lemmas
/-!
# C12 — weak references never dangle

Property theorems only (helpers are in `SafePtr/Lemmas.lean`).  All statements are about every
state reachable from `init` by any finite sequence of legal operations — no bound on the number of
objects, references or operations.
-/
namespace Morfuse.SafePtr

/-- A live weak reference never designates a destroyed object. -/
theorem C12_never_dangling {s : State} {r : Nat} (h : Reachable s) (hr : liveRef s r)
    (hp : pointer s r ≠ 0) : aliveObj s (pointer s r) := by
  obtain ⟨ring, hi⟩ := reachable_inv h
  exact hi.ptr_live r hr hp

/-- Destroying object `o` nulls exactly the live references that pointed to `o`;
    every other reference reads as before, and no reference is created or destroyed. -/
theorem C12_destroy_nulls_exactly {s s' : State} {o : Nat} (h : Reachable s)
    (hs : step s (.delObj o) = some s') :
    (∀ r, liveRef s r → pointer s' r = if pointer s r = o then 0 else pointer s r) ∧
    (∀ r, liveRef s' r ↔ liveRef s r) ∧ ¬ aliveObj s' o := by
  obtain ⟨ring, hi⟩ := reachable_inv h
  simp only [step] at hs
  split at hs
  · rename_i ho
    cases hs
    obtain ⟨_, i2, i3, _, _, _⟩ := destroyLoop_inv s.refs.length hi ho (ring_length_le_refs hi o)
    have ho0 : o ≠ 0 := fun e => hi.zeroO (e ▸ ho)
    refine ⟨?_, ?_, ?_⟩
    · intro r hr
      show (destroyLoop s.refs.length s o).ptr.get r = _
      rw [i2 r]
      have : r ∈ ring o ↔ pointer s r = o := by
        rw [hi.mem_iff o r]; simp [hr, ho0, pointer]
      by_cases e : pointer s r = o
      · simp [this.2 e, e]
      · have e' : ¬ s.ptr.get r = o := e
        simp [e', mt this.1 e, pointer]
    · intro r; simp [liveRef, i3]
    · simp [aliveObj]
  · cases hs

/-- The destructor loop `while (SafePtrList) SafePtrList->Clear()` terminates: the fuel the model
    gives it (number of constructed references) is enough to empty the object's list. -/
theorem C12_destroy_terminates {s : State} {o : Nat} (h : Reachable s) (ho : aliveObj s o) :
    (destroyLoop s.refs.length s o).head.get o = 0 := by
  obtain ⟨ring, hi⟩ := reachable_inv h
  exact (destroyLoop_inv s.refs.length hi ho (ring_length_le_refs hi o)).2.2.2.2.2

/-- operations that act on one reference `r` -/
def Op.actsOn : Op → Nat → Prop
  | .newRef r _, q | .copyRef r _, q | .assignObj r _, q | .assignRef r _, q
  | .clear r, q | .delRef r, q => q = r
  | _, _ => False

/-- Creating, copying, reassigning, clearing or destroying reference `r` leaves every other
    reference reading exactly what it read, and alive exactly if it was. -/
theorem C12_ref_op_frame {s s' : State} {op : Op} {r q : Nat}
    (hs : step s op = some s') (hop : op.actsOn r) (hq : q ≠ r) :
    pointer s' q = pointer s q ∧ (liveRef s' q ↔ liveRef s q) := by
  cases op <;> simp only [Op.actsOn] at hop <;> simp only [step] at hs
  all_goals first
    | exact hop.elim
    | (subst hop
       split at hs
       · cases hs
         simp [pointer, liveRef, construct_ptr, initSafePtr_ptr, clear_ptr, Mem.get_set, hq]
       · cases hs)

/-- Creating an object changes no reference. -/
theorem C12_newObj_frame {s s' : State} {o q : Nat} (hs : step s (.newObj o) = some s') :
    pointer s' q = pointer s q ∧ (liveRef s' q ↔ liveRef s q) := by
  simp only [step] at hs
  split at hs
  · cases hs; simp [pointer, liveRef]
  · cases hs

/-- The value each single-reference operation gives to `r` itself. -/
theorem C12_ref_op_value {s s' : State} (hs : step s op = some s') :
    match op with
    | .newRef r o | .assignObj r o => pointer s' r = o
    | .copyRef r src | .assignRef r src => pointer s' r = pointer s src
    | .clear r => pointer s' r = 0
    | _ => True := by
  cases op <;> simp only [step] at hs <;> try trivial
  all_goals
    split at hs
    · cases hs
      simp [pointer, construct_ptr, initSafePtr_ptr, clear_ptr]
    · cases hs

/-- "Is this the last reference" is true exactly when `r` is the only live reference to its object. -/
theorem C12_last_reference_iff {s : State} {r : Nat} (h : Reachable s) (hr : liveRef s r)
    (hp : pointer s r ≠ 0) :
    isLast s r = true ↔ ∀ q, liveRef s q → pointer s q = pointer s r → q = r := by
  obtain ⟨ring, hi⟩ := reachable_inv h
  have ho := hi.ptr_live r hr hp
  have hmem : r ∈ ring (s.ptr.get r) := (hi.mem_iff _ r).2 ⟨hr, rfl, hp⟩
  have hok := hi.ring_ok _ ho
  cases hro : ring (s.ptr.get r) with
  | nil => rw [hro] at hmem; simp at hmem
  | cons a t =>
    rw [hro] at hok hmem
    obtain ⟨_, hring⟩ := hok
    simp only [isLast, decide_eq_true_eq]
    constructor
    · intro ⟨hn, _⟩ q hq hpq
      have htnil : t = [] := by
        by_cases ht : t = []
        · exact ht
        · exact absurd hn (Ring.ring_nx_ne hring ht r hmem)
      have hqm : q ∈ ring (s.ptr.get r) := (hi.mem_iff _ q).2 ⟨hq, hpq, hp⟩
      rw [hro, htnil] at hqm
      rw [htnil] at hmem
      simp at hqm hmem
      rw [hqm, hmem]
    · intro hall
      have hall' : ∀ q ∈ a :: t, q = r := by
        intro q hq
        have := (hi.mem_iff (s.ptr.get r) q).1 (by rw [hro]; exact hq)
        exact hall q this.1 this.2.1
      have hnd : (a :: t).Nodup := hring.1
      have ha : a = r := hall' a (by simp)
      have htnil : t = [] := by
        cases t with
        | nil => rfl
        | cons b u =>
          have hb : b = r := hall' b (by simp)
          rw [ha, hb] at hnd; simp at hnd
      subst htnil; subst ha
      exact Ring.ring_single_iff.1 hring

/-! ### non-vacuity: concrete reachable states that meet the hypotheses -/

/-- two references to object 1, one to object 2 -/
def demoOps : List Op := [.newObj 1, .newObj 2, .newRef 1 1, .copyRef 2 1, .newRef 3 2, .newRef 4 0]

theorem demo_run : ∃ s, run init demoOps = some s ∧ liveRef s 1 ∧ pointer s 1 = 1 ∧ pointer s 2 = 1 ∧
    pointer s 3 = 2 ∧ pointer s 4 = 0 ∧ isLast s 1 = false ∧ isLast s 3 = true ∧
    (∃ s', step s (.delObj 1) = some s' ∧ pointer s' 1 = 0 ∧ pointer s' 2 = 0 ∧ pointer s' 3 = 2) := by
  simp [demoOps, run, step, init, construct, addReference, liveRef, aliveObj, okTarget, pointer, isLast,
    destroyLoop, clear, removeReference, unlink, Mem.get_set]

example : ∃ s r, Reachable s ∧ liveRef s r ∧ pointer s r ≠ 0 := by
  obtain ⟨s, h, h1, h2, _⟩ := demo_run
  exact ⟨s, 1, ⟨demoOps, h⟩, h1, by rw [h2]; decide⟩

end Morfuse.SafePtr
