import MorfuseModel.Sched.Machine
import MorfuseModel.Sched.MachineHostProps
import MorfuseModel.Sched.MachineInstHost
import MorfuseModel.Sched.MachineInstReset
import MorfuseModel.Sched.MachineIdleHost
import MorfuseModel.Sched.MachineLifeTraceHost
/-!
# C13 — nothing outlives its script: idle means empty, reset means clean

What is proved here is the bookkeeping that makes "idle" mean "empty" in the model:

* `ScriptClass::RemoveThread` (`removeFromInst`): a script instance disappears exactly when its last
  thread is removed, otherwise it loses exactly that thread, and no other instance is touched
  (any number of instances, any chain length);
* `ScriptClass::~ScriptClass` / `FreeAll` at the level of the instance list: destroying an instance
  removes exactly that instance from the director's list before its threads are killed;
* the engine's idle test is "no posted event and no live script instance" — so idle ⇔ the instance
  list is empty.

The "each destroyed exactly once, also when destructors free other pool objects" clause of `Reset` is
property C19's theorem `C19_freeall_each_once` (pool level, `lean/MorfuseModel/Props/C19.lean`).

The first part of this file is that bookkeeping layer.  The later sections prove the machine-level
statements: the thread / timer / table invariant, the instance-list invariant (every thread with a VM is in
the chain of its listed instance), "every record is a complete idle thread between host operations", the
idle-flag clauses, Reset and recompile, and the creation / destruction ledgers - all for states reachable by
host operations (no save/load), programs of class `ProgOK`, modulo the machine's fuel.  Compared with the
real engine on every run by tools/props/c13.py (pool counts, idle flag, marker order after every command,
trace monitor "idle => every pool, the timer and the queue are empty; a live thread => not idle"): that the
engine performs exactly the machine's steps.
-/
namespace Morfuse.Sched

/-- the chain of instance `i`, `[]` when the instance does not exist -/
def chainOf (s : State) (i : Nat) : List Nat := ((s.insts.find? (·.1 == i)).map (·.2)).getD []

def hasInst (s : State) (i : Nat) : Bool := s.insts.any (·.1 == i)

theorem find_filter_ne (l : List (Nat × List Nat)) (i j : Nat) (h : j ≠ i) :
    (l.filter (fun e => !(e.1 == i))).find? (·.1 == j) = l.find? (·.1 == j) := by
  induction l with
  | nil => rfl
  | cons e l ih =>
    by_cases he : e.1 = i
    · have hb : (e.1 == i) = true := by simpa using he
      have hj : (e.1 == j) = false := by simp; rw [he]; exact fun e' => h e'.symm
      simp [List.filter_cons, hb, List.find?_cons, hj, ih]
    · have hb : (e.1 == i) = false := by simpa using he
      simp only [List.filter_cons, hb, Bool.not_false, if_true, List.find?_cons]
      split
      · rfl
      · exact ih

theorem find_map_ne (l : List (Nat × List Nat)) (i j : Nat) (c : List Nat) (h : j ≠ i) :
    (l.map (fun e => if e.1 == i then (i, c) else e)).find? (·.1 == j) = l.find? (·.1 == j) := by
  induction l with
  | nil => rfl
  | cons e l ih =>
    by_cases he : e.1 = i
    · have hb : (e.1 == i) = true := by simpa using he
      have hj : (e.1 == j) = false := by simp; rw [he]; exact fun e' => h e'.symm
      have hij : (i == j) = false := by simp; exact fun e' => h e'.symm
      simp only [List.map_cons, hb, if_true, List.find?_cons, hij, hj]
      exact ih
    · have hb : (e.1 == i) = false := by simpa using he
      simp only [List.map_cons, hb, Bool.false_eq_true, if_false, List.find?_cons]
      split
      · rfl
      · exact ih

/-- **Other instances are untouched** by a thread leaving instance `i`. -/
theorem C13_removeThread_frame (s : State) (t i j : Nat) (h : j ≠ i) :
    chainOf (removeFromInst s t i) j = chainOf s j := by
  unfold removeFromInst chainOf
  split
  · rfl
  · rename_i chain hf
    cases chain with
    | nil => rfl
    | cons hd rest =>
      simp only
      split
      · split
        · simp only [find_filter_ne _ i j h]
        · simp only [find_map_ne _ i j _ h]
      · simp only [find_map_ne _ i j _ h]

theorem find_filter_self (l : List (Nat × List Nat)) (i : Nat) :
    (l.filter (fun e => !(e.1 == i))).find? (·.1 == i) = none := by
  induction l with
  | nil => rfl
  | cons e l ih =>
    by_cases he : e.1 = i
    · have hb : (e.1 == i) = true := by simpa using he
      simp [List.filter_cons, hb, ih]
    · have hb : (e.1 == i) = false := by simpa using he
      simp [List.filter_cons, hb, List.find?_cons, ih]

theorem find_map_self (l : List (Nat × List Nat)) (i : Nat) (c c0 : List Nat)
    (h : l.find? (·.1 == i) = some (i, c0)) :
    (l.map (fun e => if e.1 == i then (i, c) else e)).find? (·.1 == i) = some (i, c) := by
  induction l with
  | nil => simp at h
  | cons e l ih =>
    by_cases he : e.1 = i
    · have hb : (e.1 == i) = true := by simpa using he
      have hii : (i == i) = true := by simp
      simp only [List.map_cons, hb, if_true, List.find?_cons, hii]
    · have hb : (e.1 == i) = false := by simpa using he
      simp only [List.find?_cons, hb] at h
      simp only [List.map_cons, hb, Bool.false_eq_true, if_false, List.find?_cons]
      exact ih h

/-- **The instance dies with its last thread, and only then.**  If `t` is the head of the chain and
    the only member, the instance is gone; in every other case the instance stays and its chain is
    the old one without `t`. -/
theorem C13_removeThread_spec (s : State) (t i : Nat) (chain : List Nat)
    (hf : s.insts.find? (·.1 == i) = some (i, chain)) (hc : chain ≠ []) :
    (chain = [t] → chainOf (removeFromInst s t i) i = [] ∧ hasInst (removeFromInst s t i) i = false) ∧
    (chain ≠ [t] → chainOf (removeFromInst s t i) i = chain.erase t) := by
  unfold removeFromInst
  simp only [hf]
  cases chain with
  | nil => exact absurd rfl hc
  | cons hd rest =>
    simp only
    constructor
    · intro h
      have hh : hd = t := by simp at h; exact h.1
      have hr : rest = [] := by simp at h; exact h.2
      subst hh; subst hr
      simp only [beq_self_eq_true, if_true, List.isEmpty_nil]
      refine ⟨by simp only [chainOf, find_filter_self]; rfl, ?_⟩
      simp [hasInst, List.any_filter]
    · intro h
      split
      · rename_i hht
        have hh : hd = t := by simpa using hht
        subst hh
        split
        · rename_i he
          have : rest = [] := List.isEmpty_iff.1 he
          exact absurd (by rw [this]) h
        · simp only [chainOf, find_map_self _ i rest _ hf, Option.map_some, Option.getD_some, List.erase_cons_head]
      · rename_i hht
        simp only [chainOf, find_map_self _ i _ _ hf, Option.map_some, Option.getD_some]

/-- destroying an instance unlinks exactly that instance before any thread is killed
    (`LL::SafeRemoveRoot` in `~ScriptClass`) -/
theorem C13_killInst_unlinks (s : State) (i : Nat) :
    (s.insts.filter (fun e => !(e.1 == i))).find? (·.1 == i) = none := find_filter_self s.insts i

/-! ### non-vacuity -/
example : chainOf (removeFromInst { insts := [(1, [100, 101]), (2, [102])] } 100 1) 1 = [101] ∧
    hasInst (removeFromInst { insts := [(1, [100, 101]), (2, [102])] } 102 2) 2 = false := by decide

/-! ## Machine level: quiescence of the whole scheduler machine, in every reachable state

`Reachable s` (`Sched/MachineHost.lean`): produced from the initial state by any list of host operations
of the driver (compile/recompile a `ProgOK` program, host calls, `advance`, `execute`, `step`,
`reset-director`, `reset`, reading the output), **without `save`/`load`**; modulo running out of fuel.
The statements rest on `iAll` (`Sched/MachineInvAll.lean`).

Still not proved at machine level (compared with the engine after every command by tools/props/c13.py):
the link between thread records and the *instance list* — "every thread with a VM is in the chain of
exactly one listed instance, every listed instance has a non-empty chain" — through the cascades.  The
engine's idle flag is "no listed instance and no posted event" (`idleFlag` below), so the two clauses that
mention the flag are stated for the pools the invariant does speak about (thread records, VMs, timer,
listener tables) and carry the suffix `_partial`. -/

/-- the engine's `IsIdle()` as the driver prints it: no live script instance and no posted event -/
def idleFlag (s : State) : Bool := s.insts.isEmpty && s.events.isEmpty

/-- **Quiescent means empty, machine level (partial).**  In every reachable state in which no thread
    record is live (every record, if any, is a dead thread whose VM is still unwinding) the timer is
    empty and both listener tables are empty: no timed wait, no registration, no weak reference to a
    thread survives the last thread.
    *Missing for the full clause*: that the instance list is then empty too (⇒ `idleFlag`, given an
    empty event queue) — needs the thread ↔ instance-chain invariant, not proved. -/
theorem C13_machine_quiescent_means_empty_partial {s : State} (h : Reachable s) :
    s.outOfFuel = true ∨
      ((∀ t th, s.th? t = some th → th.dead = true) →
        s.timer.elems = [] ∧ s.notify = [] ∧ s.waitFor = []) :=
  (reachable_hinv h).map (fun hi hq => hi.inv.quiescent_empty hq)

/-- **Suspended is not quiescent, machine level (partial).**  In every reachable state a thread that is
    `timing` or `waiting` is a live thread (record present, not dead) with a live VM (present, not
    destroyed), and it holds what will resume it: a timer element resp. a wait-for entry — so the thread
    and VM pools and the timer / tables are not empty while a script is suspended.
    *Missing for the full clause*: that its script instance is still in the instance list
    (⇒ `idleFlag = false`) — needs the thread ↔ instance-chain invariant, not proved. -/
theorem C13_machine_suspended_not_quiescent_partial {s : State} (h : Reachable s) :
    s.outOfFuel = true ∨
      ∀ t th, s.th? t = some th → (th.ts = .timing ∨ th.ts = .waiting) →
        th.hasVM = true ∧ th.dead = false ∧ th.vm ≠ .destroyed ∧
        (th.ts = .timing → t ∈ s.timer.elems.map (·.1)) ∧
        (th.ts = .waiting → Tbl.hasOwner s.waitFor t = true) :=
  (reachable_hinv h).map (fun hi _ _ hf hs => hi.inv.suspended_live hf hs)

/-- **Between host operations nothing is executing, machine level.**  In every reachable state there is
    no current thread and the native execution stack is empty (so the next `ExecuteRunning` is not
    blocked), whatever ran nested inside the operations before. -/
theorem C13_machine_nothing_running_between_ops {s : State} (h : Reachable s) :
    s.outOfFuel = true ∨ (s.cur = none ∧ s.depth = 0) :=
  (reachable_hinv h).map (fun hi => ⟨hi.cur, hi.depth⟩)

/-- **`Reset()` keeps the machine consistent, machine level.**  After `director.Reset()` in a reachable
    state (unless out of fuel) the machine invariant holds again with no program compiled: the state
    is one from which compiling and calling behave as the theorems above say. -/
theorem C13_machine_reset_consistent {s : State} (h : Reachable s) :
    (hostReset s).outOfFuel = true ∨ (HInv (hostReset s) ∧ (hostReset s).prog = []) := by
  have hr : Reachable (HostOp.apply s .resetDirector) := .step .resetDirector h trivial
  exact (reachable_hinv hr).map (fun hi => ⟨hi, rfl⟩)

/-! ### non-vacuity, machine level -/

/-- two threads: 100 waits 5 ms, 101 waits on `level`; then the frame at clock 5 resumes 100, which
    notifies 101; both end -/
def demoQuiesce : List HostOp :=
  [.script [[.thread 1, .wait 5, .notify 50 7], [.waittill 50 [7], .mark 2]] [0, 0], .call 0 [], .takeOut]

theorem demoQuiesce_reachable (ops : List HostOp) (h : ∀ op ∈ ops, op.ok) : Reachable (runOps {} (demoQuiesce ++ ops)) :=
  (reachable_iff _).2 ⟨demoQuiesce ++ ops, by
    have h0 : ∀ op ∈ demoQuiesce, op.ok := by decide
    intro op hop
    rcases List.mem_append.1 hop with hm | hm
    · exact h0 op hm
    · exact h op hm, rfl⟩

/-- suspended: a timing and a waiting thread, the flag is down -/
example : (runOps {} demoQuiesce).outOfFuel = false ∧
    ((runOps {} demoQuiesce).threads.map (fun e => (e.1, e.2.ts))) = [(100, .timing), (101, .waiting)] ∧
    idleFlag (runOps {} demoQuiesce) = false := by decide +kernel

/-- quiescent after the frame: no thread record at all, everything empty, the flag is up -/
example : (runOps {} (demoQuiesce ++ [.step 5])).outOfFuel = false ∧
    (runOps {} (demoQuiesce ++ [.step 5])).threads = [] ∧
    (runOps {} (demoQuiesce ++ [.step 5])).timer.elems = [] ∧
    (runOps {} (demoQuiesce ++ [.step 5])).notify = [] ∧
    idleFlag (runOps {} (demoQuiesce ++ [.step 5])) = true := by decide +kernel

/-- `Reset()` in the suspended state destroys both threads -/
example : (hostReset (runOps {} demoQuiesce)).outOfFuel = false ∧ (hostReset (runOps {} demoQuiesce)).threads = [] ∧
    idleFlag (hostReset (runOps {} demoQuiesce)) = true := by decide +kernel

/-! ## Machine level, with the instance list: the idle flag itself

`reachable_hinv2` (`Sched/MachineInstHost.lean`): in every reachable state (same `Reachable` as above, modulo
fuel) the instance-list invariant `J []` holds — every thread record that still has its VM is in the chain
of the *listed* script instance `th.inst`; every listed instance has a non-empty, duplicate-free chain of
live records (not dead, VM not destroyed, attached) of that instance.  Proved through every function of the
machine (`jqAll`: destruction cascades, under the structural invariant alone; `jAll`: instructions,
`Process`, `ScriptVM::Execute`, the timer loop, `ScriptExecuteInternal`, on top of `iAll`) and through
`~ScriptClass` / `Reset` / recompile with the instance being destroyed exempt. -/

/-- `chainOf` of this file is the `instChain` of the invariant -/
theorem chainOf_eq_instChain (s : State) (i : Nat) : chainOf s i = instChain s.insts i := rfl

/-- **Suspended is not idle, machine level.**  In every reachable state, while some thread is `timing` or
    `waiting` its script instance is in the director's list with that thread in its chain, so the engine's
    idle flag is down. -/
theorem C13_machine_suspended_not_idle {s : State} (h : Reachable s) :
    s.outOfFuel = true ∨
      ∀ t th, s.th? t = some th → (th.ts = .timing ∨ th.ts = .waiting) →
        t ∈ chainOf s th.inst ∧ hasInst s th.inst = true ∧ idleFlag s = false := by
  refine (reachable_hinv2 h).map (fun hi t th hf hs => ?_)
  have hv := (hi.h.inv.suspended_live hf hs).1
  rw [State.th?_eq] at hf
  have hm : t ∈ instChain s.insts th.inst := by
    rcases hi.j.a t th hf hv with m | m
    · cases m
    · exact m
  obtain ⟨e, he, hk, _⟩ := instChain_mem hm
  refine ⟨hm, ?_, ?_⟩
  · unfold hasInst
    exact List.any_eq_true.2 ⟨e, he, by simpa using hk⟩
  · unfold idleFlag
    cases hL : s.insts with
    | nil => rw [hL] at he; cases he
    | cons a l => rfl

/-- **Quiescent means idle, machine level.**  In every reachable state in which no thread record is live
    the director's instance list, the event queue, the timer and both listener tables are empty and the
    engine's idle flag is up.  (The queue: every queued event belongs to a thread whose VM is not destroyed —
    clause `e` of the instance-list invariant.) -/
theorem C13_machine_quiescent_means_idle {s : State} (h : Reachable s) :
    s.outOfFuel = true ∨
      ((∀ t th, s.th? t = some th → th.dead = true) →
        idleFlag s = true ∧ s.insts = [] ∧ s.events = [] ∧ s.timer.elems = [] ∧ s.notify = [] ∧ s.waitFor = []) := by
  refine (reachable_hinv2 h).map (fun hi hq => ?_)
  have hev : s.events = [] := by
    apply List.eq_nil_iff_forall_not_mem.2
    intro ev he
    obtain ⟨th, h1, h2⟩ := hi.j.e ev he
    exact h2 ((hi.h.inv.th ev.1 th h1).f2 (hq ev.1 th h1)).2
  have hI : s.insts = [] := by
    cases hL : s.insts with
    | nil => rfl
    | cons e l =>
      exfalso
      have he : e ∈ s.insts := by rw [hL]; exact List.mem_cons_self
      obtain ⟨b1, _, b3⟩ := hi.j.b e he
      obtain ⟨u, hu⟩ := List.exists_mem_of_ne_nil _ b1
      obtain ⟨th, h1, h2, _⟩ := b3 u hu
      rw [hq u th h1] at h2; cases h2
  obtain ⟨q1, q2, q3⟩ := hi.h.inv.quiescent_empty hq
  exact ⟨by unfold idleFlag; rw [hI, hev]; rfl, hI, hev, q1, q2, q3⟩

/-- **Every listed instance is alive, machine level**: in every reachable state each instance in the
    director's list has a non-empty chain without duplicates, every member is a live thread record of that
    instance whose VM exists; and every thread that has its VM is in exactly that chain. -/
theorem C13_machine_instances_consistent {s : State} (h : Reachable s) :
    s.outOfFuel = true ∨
      ((∀ e ∈ s.insts, e.2 ≠ [] ∧ e.2.Nodup ∧ ∀ t ∈ e.2, ∃ th, s.th? t = some th ∧ th.dead = false ∧
          th.vm ≠ .destroyed ∧ th.inst = e.1) ∧
       (∀ t th, s.th? t = some th → th.hasVM = true → t ∈ chainOf s th.inst)) := by
  refine (reachable_hinv2 h).map (fun hi => ⟨fun e he => ?_, fun t th hf hv => ?_⟩)
  · obtain ⟨b1, b2, b3⟩ := hi.j.b e he
    exact ⟨b1, b2, fun t ht => by
      obtain ⟨th, k1, k2, k3, k4, _⟩ := b3 t ht
      exact ⟨th, k1, k2, k3, k4⟩⟩
  · rcases hi.j.a t th hf hv with m | m
    · cases m
    · exact m

/-! ### non-vacuity -/

/-- the suspended demo state: both threads are in the chain of instance 1 -/
example : (runOps {} demoQuiesce).insts = [(1, [101, 100])] ∧ idleFlag (runOps {} demoQuiesce) = false := by
  decide +kernel

/-- two instances (the second from `waitthread`), three suspended threads -/
example : (runOps {} [.script [[.waitthread 1, .mark 1], [.thread 2, .wait 5], [.wait 9]] [0, 0, 0], .call 0 []]).insts =
    [(2, [102, 101]), (1, [100])] := by decide +kernel

/-- **Between host operations every thread is complete and idle, machine level.**  In every reachable
    state every thread record has its VM and the VM is `idling`: no destructor and no `ScriptVM::Execute` is
    in progress, no dead record is waiting for its VM to unwind — so the thread pool and the VM pool count
    the same objects (`thr = vm` in the driver's trailer). -/
theorem C13_machine_all_idle_between_ops {s : State} (h : Reachable s) :
    s.outOfFuel = true ∨ ∀ t th, s.th? t = some th → th.hasVM = true ∧ th.vm = .idling ∧ th.dead = false := by
  refine (reachable_hinv3 h).map (fun hi t th hf => ?_)
  rcases hi.w t th hf with ⟨c1, c2⟩ | m
  · refine ⟨c1, c2, ?_⟩
    cases hd : th.dead with
    | false => rfl
    | true => have := ((hi.h2.h.inv.th t th hf).f2 hd).1; rw [c1] at this; cases this
  · cases m

/-- **`Reset()` is clean, machine level.**  After `director.Reset()` in any reachable state (unless out of
    fuel) the scheduler's bookkeeping is that of the initial state: no thread record, no script instance, no
    queued event, empty timer, empty listener tables, no program, no current thread, empty execution stack,
    the idle flag up — and every invariant holds again, so compiling and calling afterwards behave as the
    theorems say.  (Host-owned state survives by design: the clock, the host's objects with their `endon`
    lists, the host's result slots — see `C05_machine_reset_leaves_slots`.) -/
theorem C13_machine_reset_clean {s : State} (h : Reachable s) :
    (hostReset s).outOfFuel = true ∨
      ((hostReset s).threads = [] ∧ (hostReset s).insts = [] ∧ (hostReset s).events = [] ∧
       (hostReset s).timer.elems = [] ∧ (hostReset s).notify = [] ∧ (hostReset s).waitFor = [] ∧
       (hostReset s).prog = [] ∧ (hostReset s).cur = none ∧ (hostReset s).depth = 0 ∧
       idleFlag (hostReset s) = true ∧ HInv3 (hostReset s)) := by
  have hr : Reachable (HostOp.apply s .resetDirector) := .step .resetDirector h trivial
  have h3 : Ok (hostReset s) (HInv3 (hostReset s)) := reachable_hinv3 hr
  rcases reachable_hinv3 h with ho | hi
  · exact Or.inl ((hostReset_hr s).oof ho)
  · rcases killAllInsts_empty hi with ho | ⟨p0, p1, p2, p3, p4, p5⟩
    · exact Or.inl ho
    · rcases h3 with ho | q
      · exact Or.inl ho
      · refine Or.inr ⟨p0, p1, p2, p3, p4, p5, rfl, q.h2.h.cur, q.h2.h.depth, ?_, q⟩
        show (List.isEmpty (killAllInsts s).insts && List.isEmpty (killAllInsts s).events) = true
        rw [p1, p2]; rfl

/-- **Recompiling destroys every instance of the old program, machine level.**  `GetProgramScript(…,
    recompile)` while a program is loaded (the machine has one program per context): afterwards (unless out
    of fuel) no instance and no thread of the old version is left, no event is queued, the timer is empty;
    the new program is installed and every invariant holds. -/
theorem C13_machine_recompile_kills_old_instances {s : State} (h : Reachable s) (p : List (List Instr))
    (ps : List Nat) (hp : ProgOK p) (hold : s.prog.isEmpty = false) :
    (hostScript s p ps).outOfFuel = true ∨
      ((hostScript s p ps).insts = [] ∧ (hostScript s p ps).threads = [] ∧ (hostScript s p ps).events = [] ∧
       (hostScript s p ps).timer.elems = [] ∧ (hostScript s p ps).prog = p ∧ HInv3 (hostScript s p ps)) := by
  have hr : Reachable (HostOp.apply s (.script p ps)) := .step (.script p ps) h hp
  have h2 : Ok (hostScript s p ps) (HInv3 (hostScript s p ps)) := reachable_hinv3 hr
  have he : hostScript s p ps = { killAllInsts s with prog := p, progParams := ps } := by
    unfold hostScript; simp [hold]
  rcases reachable_hinv3 h with ho | hi
  · exact Or.inl ((hostScript_hr s p ps).oof ho)
  · rcases killAllInsts_empty hi with ho | ⟨p0, p1, p2, p3, _, _⟩
    · left; rw [he]; exact ho
    · rcases h2 with ho | q2
      · exact Or.inl ho
      · right
        rw [he] at q2 ⊢
        exact ⟨p1, p0, p2, p3, rfl, q2⟩

/-- `Reset()` in the suspended demo state -/
example : (hostReset (runOps {} demoQuiesce)).outOfFuel = false ∧ (hostReset (runOps {} demoQuiesce)).insts = [] ∧
    (hostReset (runOps {} demoQuiesce)).threads = [] := by
  decide +kernel

/-! ## Trace level: every thread and every script instance is destroyed exactly once

The **ghost ledgers** of creations and destructions (`reachable_life_history`, from `llAll`: every function of the
machine changes the list of thread records only by appending a record with the id `nextTid` (`new`) or removing the
record of an id that is present (`del t`: the end of `~ScriptThread` once the VM is freed, or `ScriptVM::Execute`'s
epilogue freeing a destroyed VM together with the record), and the instance list only by listing the id `nextInst`
or unlinking a listed id).  Existentially quantified histories, `PoolLedger.lean` for what every such history
satisfies; no fuel condition for the ledger facts.  `Reachable` = without `save`/`load`. -/

/-- the thread ledger and the instance ledger of a state -/
def IsLifeLedger (s : State) (opsT opsI : List POp) : Prop :=
  pRun pool0T opsT = some (absT s) ∧ pRun pool0I opsI = some (absI s)

theorem C13_trace_ledger_exists {s : State} (h : Reachable s) : ∃ opsT opsI, IsLifeLedger s opsT opsI := by
  obtain ⟨⟨o1, r1⟩, ⟨o2, r2⟩⟩ := reachable_life_history h
  exact ⟨o1, o2, r1, r2⟩

/-- **Never reused, destroyed at most once, trace level.**  In the ledgers of any reachable state: the thread ids
    (instance ids) handed out are pairwise distinct and fresh; no id has two destruction records; and the records
    (listed instances) present now are exactly the created ones without a destruction record. -/
theorem C13_trace_destroyed_at_most_once {s : State} (h : Reachable s) :
    ∃ opsT opsI, IsLifeLedger s opsT opsI ∧
      (created pool0T opsT).Nodup ∧ (created pool0I opsI).Nodup ∧
      (∀ t, opsT.count (POp.del t) ≤ 1) ∧ (∀ i, opsI.count (POp.del i) ≤ 1) ∧
      (∀ t, (∃ th, s.th? t = some th) ↔ t ∈ created pool0T opsT ∧ POp.del t ∉ opsT) ∧
      (∀ i, hasInst s i = true ↔ i ∈ created pool0I opsI ∧ POp.del i ∉ opsI) := by
  obtain ⟨opsT, opsI, hT, hI⟩ := C13_trace_ledger_exists h
  refine ⟨opsT, opsI, ⟨hT, hI⟩, created_nodup _ _, created_nodup _ _,
    fun t => del_count_le_one opsT t pool0T_good hT, fun i => del_count_le_one opsI i pool0I_good hI, ?_, ?_⟩
  · intro t
    have := mem_after opsT t pool0T_good hT
    have hm : t ∈ (absT s).ids ↔ ∃ th, s.th? t = some th := by
      unfold absT
      simp only [List.mem_map]
      constructor
      · rintro ⟨e, he, rfl⟩
        cases hf : s.th? e.1 with
        | some th => exact ⟨th, rfl⟩
        | none =>
          exfalso
          rw [State.th?_eq] at hf
          exact (thFind_none_iff.1 hf) (List.mem_map.2 ⟨e, he, rfl⟩)
      · rintro ⟨th, hf⟩
        rw [State.th?_eq] at hf
        exact ⟨(t, th), thFind_some_mem hf, rfl⟩
    rw [← hm, this]
    simp [pool0T]
  · intro i
    have := mem_after opsI i pool0I_good hI
    have hm : i ∈ (absI s).ids ↔ hasInst s i = true := by
      unfold absI hasInst
      simp only [List.mem_reverse, List.mem_map, List.any_eq_true, beq_iff_eq]
    rw [← hm, this]
    simp [pool0I]

/-- **All destroyed exactly once, trace level.**  After `director.Reset()` in any reachable state (unless out of
    fuel), and in any reachable state without a live thread, every thread id and every instance id ever created
    in this context has exactly one destruction record in the ledger. -/
theorem C13_trace_destroyed_exactly_once {s : State} (h : Reachable s) :
    ((hostReset s).outOfFuel = true ∨
      ∃ opsT opsI, IsLifeLedger (hostReset s) opsT opsI ∧
        (∀ t ∈ created pool0T opsT, opsT.count (POp.del t) = 1) ∧
        (∀ i ∈ created pool0I opsI, opsI.count (POp.del i) = 1)) ∧
    (s.outOfFuel = true ∨ ((∀ t th, s.th? t = some th → th.dead = true) →
      ∃ opsT opsI, IsLifeLedger s opsT opsI ∧
        (∀ t ∈ created pool0T opsT, opsT.count (POp.del t) = 1) ∧
        (∀ i ∈ created pool0I opsI, opsI.count (POp.del i) = 1))) := by
  have key : ∀ {S : State}, Reachable S → S.threads = [] → S.insts = [] →
      ∃ opsT opsI, IsLifeLedger S opsT opsI ∧
        (∀ t ∈ created pool0T opsT, opsT.count (POp.del t) = 1) ∧
        (∀ i ∈ created pool0I opsI, opsI.count (POp.del i) = 1) := by
    intro S hS ht hi
    obtain ⟨opsT, opsI, hT, hI⟩ := C13_trace_ledger_exists hS
    refine ⟨opsT, opsI, ⟨hT, hI⟩, ?_, ?_⟩
    · intro t hc
      exact all_freed_exactly_once pool0T_good hT (by unfold absT; rw [ht]; rfl) t (Or.inr hc)
    · intro i hc
      exact all_freed_exactly_once pool0I_good hI (by unfold absI; rw [hi]; rfl) i (Or.inr hc)
  constructor
  · have hr : Reachable (HostOp.apply s .resetDirector) := .step .resetDirector h trivial
    rcases C13_machine_reset_clean h with ho | ⟨p0, p1, _⟩
    · exact Or.inl ho
    · exact Or.inr (key hr p0 p1)
  · rcases C13_machine_all_idle_between_ops h with ho | hidle
    · exact Or.inl ho
    · rcases C13_machine_quiescent_means_idle h with ho | hq
      · exact Or.inl ho
      · right
        intro hdead
        have hth : s.threads = [] := by
          apply threads_nil_of_none
          intro t
          cases hf : thFind s.threads t with
          | none => rfl
          | some th =>
            have h1 := (hidle t th hf).2.2
            rw [hdead t th hf] at h1; cases h1
        exact key h hth (hq hdead).2.1

/-! ### non-vacuity, trace level: the ledgers of the two-thread demo, suspended and after its last frame -/
example : pRun pool0T [.new, .new] = some (absT (runOps {} demoQuiesce)) ∧
    pRun pool0T [.new, .new, .del 100, .del 101] = some (absT (runOps {} (demoQuiesce ++ [.step 5]))) ∧
    pRun pool0I [.new, .del 1] = some (absI (runOps {} (demoQuiesce ++ [.step 5]))) := by decide +kernel

end Morfuse.Sched
