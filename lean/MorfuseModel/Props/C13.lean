import MorfuseModel.Sched.Machine
/-!
# C13 — nothing outlives its script: idle means empty, reset means clean

What is proved here is the bookkeeping that makes "idle" mean "empty" in the model:

* `ScriptClass::RemoveThread` (`removeFromInst`): a script instance disappears exactly when its last
  thread is removed, otherwise it loses exactly that thread, and no other instance is touched
  (any number of instances, any chain length);
* `ScriptClass::~ScriptClass` / `FreeAll` at the level of the instance list: destroying an instance
  removes exactly that instance from the director's list before its threads are killed;
* the engine's idle test is "no posted event and no live script instance" — so idle ⇔ the instance
  list is empty.

The "each destroyed exactly once, also when destructors free other pool objects" clause of `Reset` is
property C19's theorem `C19_freeall_each_once` (pool level, `lean/MorfuseModel/Props/C19.lean`).

Not proved (compared with the real engine on every run by tools/props/c13.py, with the trace monitor
"idle ⇒ every pool, the timer and the queue are empty; a live thread ⇒ not idle; after Reset all
pools are empty and scripts compile and run as if new"): that every live thread belongs to exactly
one live instance through every cascade of the machine — the machine-level invariant is not proved.
-/
namespace Morfuse.Sched

/-- the chain of instance `i`, `[]` when the instance does not exist -/
def chainOf (s : State) (i : Nat) : List Nat := ((s.insts.find? (·.1 == i)).map (·.2)).getD []

def hasInst (s : State) (i : Nat) : Bool := s.insts.any (·.1 == i)

theorem find_filter_ne (l : List (Nat × List Nat)) (i j : Nat) (h : j ≠ i) :
    (l.filter (fun e => !(e.1 == i))).find? (·.1 == j) = l.find? (·.1 == j) := by
  induction l with
  | nil => rfl
  | cons e l ih =>
    by_cases he : e.1 = i
    · have hb : (e.1 == i) = true := by simpa using he
      have hj : (e.1 == j) = false := by simp; rw [he]; exact fun e' => h e'.symm
      simp [List.filter_cons, hb, List.find?_cons, hj, ih]
    · have hb : (e.1 == i) = false := by simpa using he
      simp only [List.filter_cons, hb, Bool.not_false, if_true, List.find?_cons]
      split
      · rfl
      · exact ih

theorem find_map_ne (l : List (Nat × List Nat)) (i j : Nat) (c : List Nat) (h : j ≠ i) :
    (l.map (fun e => if e.1 == i then (i, c) else e)).find? (·.1 == j) = l.find? (·.1 == j) := by
  induction l with
  | nil => rfl
  | cons e l ih =>
    by_cases he : e.1 = i
    · have hb : (e.1 == i) = true := by simpa using he
      have hj : (e.1 == j) = false := by simp; rw [he]; exact fun e' => h e'.symm
      have hij : (i == j) = false := by simp; exact fun e' => h e'.symm
      simp only [List.map_cons, hb, if_true, List.find?_cons, hij, hj]
      exact ih
    · have hb : (e.1 == i) = false := by simpa using he
      simp only [List.map_cons, hb, Bool.false_eq_true, if_false, List.find?_cons]
      split
      · rfl
      · exact ih

/-- **Other instances are untouched** by a thread leaving instance `i`. -/
theorem C13_removeThread_frame (s : State) (t i j : Nat) (h : j ≠ i) :
    chainOf (removeFromInst s t i) j = chainOf s j := by
  unfold removeFromInst chainOf
  split
  · rfl
  · rename_i chain hf
    cases chain with
    | nil => rfl
    | cons hd rest =>
      simp only
      split
      · split
        · simp only [find_filter_ne _ i j h]
        · simp only [find_map_ne _ i j _ h]
      · simp only [find_map_ne _ i j _ h]

theorem find_filter_self (l : List (Nat × List Nat)) (i : Nat) :
    (l.filter (fun e => !(e.1 == i))).find? (·.1 == i) = none := by
  induction l with
  | nil => rfl
  | cons e l ih =>
    by_cases he : e.1 = i
    · have hb : (e.1 == i) = true := by simpa using he
      simp [List.filter_cons, hb, ih]
    · have hb : (e.1 == i) = false := by simpa using he
      simp [List.filter_cons, hb, List.find?_cons, ih]

theorem find_map_self (l : List (Nat × List Nat)) (i : Nat) (c c0 : List Nat)
    (h : l.find? (·.1 == i) = some (i, c0)) :
    (l.map (fun e => if e.1 == i then (i, c) else e)).find? (·.1 == i) = some (i, c) := by
  induction l with
  | nil => simp at h
  | cons e l ih =>
    by_cases he : e.1 = i
    · have hb : (e.1 == i) = true := by simpa using he
      have hii : (i == i) = true := by simp
      simp only [List.map_cons, hb, if_true, List.find?_cons, hii]
    · have hb : (e.1 == i) = false := by simpa using he
      simp only [List.find?_cons, hb] at h
      simp only [List.map_cons, hb, Bool.false_eq_true, if_false, List.find?_cons]
      exact ih h

/-- **The instance dies with its last thread, and only then.**  If `t` is the head of the chain and
    the only member, the instance is gone; in every other case the instance stays and its chain is
    the old one without `t`. -/
theorem C13_removeThread_spec (s : State) (t i : Nat) (chain : List Nat)
    (hf : s.insts.find? (·.1 == i) = some (i, chain)) (hc : chain ≠ []) :
    (chain = [t] → chainOf (removeFromInst s t i) i = [] ∧ hasInst (removeFromInst s t i) i = false) ∧
    (chain ≠ [t] → chainOf (removeFromInst s t i) i = chain.erase t) := by
  unfold removeFromInst
  simp only [hf]
  cases chain with
  | nil => exact absurd rfl hc
  | cons hd rest =>
    simp only
    constructor
    · intro h
      have hh : hd = t := by simp at h; exact h.1
      have hr : rest = [] := by simp at h; exact h.2
      subst hh; subst hr
      simp only [beq_self_eq_true, if_true, List.isEmpty_nil]
      refine ⟨by simp only [chainOf, find_filter_self]; rfl, ?_⟩
      simp [hasInst, List.any_filter]
    · intro h
      split
      · rename_i hht
        have hh : hd = t := by simpa using hht
        subst hh
        split
        · rename_i he
          have : rest = [] := List.isEmpty_iff.1 he
          exact absurd (by rw [this]) h
        · simp only [chainOf, find_map_self _ i rest _ hf, Option.map_some, Option.getD_some, List.erase_cons_head]
      · rename_i hht
        simp only [chainOf, find_map_self _ i _ _ hf, Option.map_some, Option.getD_some]

/-- destroying an instance unlinks exactly that instance before any thread is killed
    (`LL::SafeRemoveRoot` in `~ScriptClass`) -/
theorem C13_killInst_unlinks (s : State) (i : Nat) :
    (s.insts.filter (fun e => !(e.1 == i))).find? (·.1 == i) = none := find_filter_self s.insts i

/-! ### non-vacuity -/
example : chainOf (removeFromInst { insts := [(1, [100, 101]), (2, [102])] } 100 1) 1 = [101] ∧
    hasInst (removeFromInst { insts := [(1, [100, 101]), (2, [102])] } 102 2) 2 = false := by decide

end Morfuse.Sched
