import MorfuseModel.Sched.Guard
/-!
# C14 — runaway and over-deep scripts are stopped

Proved (for every clock, limit and program length): with a non-zero execution limit a thread that
never yields is interrupted right after the first instruction whose preceding clock reading has
reached the deadline — so within a number of instructions bounded by the clock, never "never";
nesting of VM activations never exceeds `maxStackDepth + 1` and the next activation fails.

Not proved, observed on the real engine by tools/props/c14.py on every run (these are about the
host/runtime, DESIGN.md 7.4): the exception reaches the host call, no crash whatever streams are
attached, `m_CurrentThread` is cleared so a waiting sentinel thread still resumes, a new host call
and a reset still work.
-/
namespace Morfuse.Sched.Guard

/-- the loop stops exactly at the first late reading `k ≥ i` (if fuel reaches it) -/
theorem runLoop_spec (clk : Nat → Nat) (maxExec : Nat) (hm : maxExec ≠ 0) :
    ∀ (fuel i k : Nat), i ≤ k → k < i + fuel → clk k ≥ clk 0 + maxExec →
      (∀ j, i ≤ j → j < k → clk j < clk 0 + maxExec) →
      runLoop clk maxExec fuel i = some k
  | 0, i, k, h1, h2, _, _ => by omega
  | fuel + 1, i, k, h1, h2, h3, h4 => by
    simp only [runLoop]
    by_cases hik : i = k
    · subst hik; simp [hm, h3]
    · have hlt : clk i < clk 0 + maxExec := h4 i (Nat.le_refl _) (by omega)
      have : ¬ (maxExec ≠ 0 ∧ clk i ≥ clk 0 + maxExec) := by intro ⟨_, h⟩; omega
      simp only [this, if_false]
      exact runLoop_spec clk maxExec hm fuel (i + 1) k (by omega) (by omega) h3
        (fun j hj1 hj2 => h4 j (by omega) hj2)

/-- **Interrupted within bounded steps.**  If the clock ever reaches the deadline (any clock that
    keeps advancing does), the non-yielding thread is interrupted, and at the *first* such reading. -/
theorem C14_overflow_bounded (clk : Nat → Nat) (maxExec : Nat) (hm : maxExec ≠ 0)
    (k : Nat) (hk1 : 1 ≤ k) (hlate : clk k ≥ clk 0 + maxExec)
    (hfirst : ∀ j, 1 ≤ j → j < k → clk j < clk 0 + maxExec) :
    runLoop clk maxExec (k + 1) 1 = some k :=
  runLoop_spec clk maxExec hm (k + 1) 1 k hk1 (by omega) hlate hfirst

/-- a clock that advances by at least `δ > 0` per reading reaches any deadline: the interruption
    comes after at most `maxExec / δ + 1` instructions -/
theorem C14_overflow_bounded_by_rate (clk : Nat → Nat) (maxExec δ : Nat) (hm : maxExec ≠ 0) (hδ : 0 < δ)
    (hadv : ∀ k, clk (k + 1) ≥ clk k + δ) :
    ∃ k, k ≤ maxExec / δ + 1 ∧ runLoop clk maxExec (k + 1) 1 = some k := by
  -- readings grow at least linearly
  have hlin : ∀ k, clk k ≥ clk 0 + k * δ := by
    intro k
    induction k with
    | zero => simp
    | succ k ih =>
      have := hadv k
      rw [Nat.succ_mul]; omega
  -- the reading number maxExec/δ+1 is late
  have hlate0 : clk (maxExec / δ + 1) ≥ clk 0 + maxExec := by
    have h1 := hlin (maxExec / δ + 1)
    have hq := Nat.div_add_mod maxExec δ
    have hr := Nat.mod_lt maxExec hδ
    rw [Nat.succ_mul] at h1
    rw [Nat.mul_comm] at hq
    generalize (maxExec / δ) * δ = P at h1 hq
    omega
  -- least such k
  have hleast : ∀ n, (∃ k, k ≤ n ∧ 1 ≤ k ∧ clk k ≥ clk 0 + maxExec) →
      ∃ k, k ≤ n ∧ 1 ≤ k ∧ clk k ≥ clk 0 + maxExec ∧ ∀ j, 1 ≤ j → j < k → clk j < clk 0 + maxExec := by
    intro n
    induction n with
    | zero => intro ⟨k, h1, h2, _⟩; omega
    | succ n ih =>
      intro ⟨k, h1, h2, h3⟩
      by_cases hsm : ∃ k', k' ≤ n ∧ 1 ≤ k' ∧ clk k' ≥ clk 0 + maxExec
      · obtain ⟨k', a, b, c, d⟩ := ih hsm
        exact ⟨k', by omega, b, c, d⟩
      · refine ⟨k, h1, h2, h3, ?_⟩
        intro j hj1 hj2
        apply Nat.lt_of_not_le
        intro hle
        exact hsm ⟨j, by omega, hj1, hle⟩
  obtain ⟨k, hkn, hk1, hlate, hfirst⟩ := hleast (maxExec / δ + 1) ⟨maxExec / δ + 1, Nat.le_refl _, Nat.succ_le_succ (Nat.zero_le _), hlate0⟩
  exact ⟨k, hkn, C14_overflow_bounded clk maxExec hm k hk1 hlate hfirst⟩

/-- with the limit switched off (`maxExecTime = 0`) the guard never fires -/
theorem C14_no_limit_never_fires (clk : Nat → Nat) : ∀ (fuel i : Nat), runLoop clk 0 fuel i = none
  | 0, _ => rfl
  | fuel + 1, i => by simp [runLoop, C14_no_limit_never_fires clk fuel (i + 1)]

/-- **Depth limit.**  `n` nested activations succeed exactly when `n ≤ maxDepth + 1`, and then the
    depth counter equals `n`; so the native stack never carries more than `maxDepth + 1` VM frames. -/
theorem nest_spec (maxDepth : Nat) : ∀ (n depth : Nat),
    nest maxDepth n depth = if n = 0 ∨ depth + n ≤ maxDepth + 1 then some (depth + n) else none
  | 0, depth => by simp [nest]
  | n + 1, depth => by
    simp only [nest, enter]
    by_cases h : depth > maxDepth
    · have : ¬ (n + 1 = 0 ∨ depth + (n + 1) ≤ maxDepth + 1) := by omega
      simp only [h, if_true, Option.bind_none, this, if_false]
    · simp only [h, if_false, Option.bind_some]
      rw [nest_spec maxDepth n (depth + 1)]
      by_cases hn : n = 0
      · subst hn; simp; omega
      · have e1 : (n = 0 ∨ depth + 1 + n ≤ maxDepth + 1) ↔ (n + 1 = 0 ∨ depth + (n + 1) ≤ maxDepth + 1) := by omega
        by_cases h2 : depth + 1 + n ≤ maxDepth + 1
        · simp [hn, h2, show depth + (n + 1) ≤ maxDepth + 1 by omega]; omega
        · simp [hn, h2, show ¬ depth + (n + 1) ≤ maxDepth + 1 by omega]

theorem C14_depth_limit (maxDepth n : Nat) :
    (nest maxDepth n 0).isSome ↔ n ≤ maxDepth + 1 := by
  rw [nest_spec]
  by_cases h : n = 0
  · subst h; simp
  · simp [h]

/-! ### non-vacuity -/
example : runLoop (fun k => 3 * k) 10 100 1 = some 4 := by decide
example : (nest 5 6 0) = some 6 ∧ (nest 5 7 0) = none := by decide

end Morfuse.Sched.Guard
