import MorfuseModel.Sched.Guard
import MorfuseModel.Sched.TimerLemmas
import MorfuseModel.Unwind.Lemmas
import MorfuseModel.Unwind.Spin
import MorfuseModel.Unwind.Timing
import MorfuseModel.Unwind.Potential
import MorfuseModel.Unwind.ZeroWait
/-!
# C14 — runaway and over-deep scripts are stopped

Proved (for every clock, limit and program length): with a non-zero execution limit a thread that
never yields is interrupted right after the first instruction whose preceding clock reading has
reached the deadline — so within a number of instructions bounded by the clock, never "never";
nesting of VM activations never exceeds `maxStackDepth + 1` and the next activation fails.

Second part (namespace `Morfuse.Unwind`): the recovery clauses, proved about the *unwind model*
`MorfuseModel/Unwind/Model.lean` — a small-step machine over the native call stack of the C++
activations, in which an abort unwinds frame by frame through the transcribed catch / rethrow /
restore code — for every program, configuration, clock and nesting: the abort reaches the host call,
`m_CurrentThread` and the nesting counter are restored and every activation is popped, protection off
means log + extend instead of abort, the transition function does not depend on which streams are
attached, nesting never exceeds `maxStackDepth + 1`, the scheduler resumes a due thread on the next
frame, Reset and new host calls work afterwards.  That the engine behaves like the unwind model is
compared on every run by tools/props/c14.py (observation by observation), not proved.
-/
namespace Morfuse.Sched.Guard

/-- the loop stops exactly at the first late reading `k ≥ i` (if fuel reaches it) -/
theorem runLoop_spec (clk : Nat → Nat) (maxExec : Nat) (hm : maxExec ≠ 0) :
    ∀ (fuel i k : Nat), i ≤ k → k < i + fuel → clk k ≥ clk 0 + maxExec →
      (∀ j, i ≤ j → j < k → clk j < clk 0 + maxExec) →
      runLoop clk maxExec fuel i = some k
  | 0, i, k, h1, h2, _, _ => by omega
  | fuel + 1, i, k, h1, h2, h3, h4 => by
    simp only [runLoop]
    by_cases hik : i = k
    · subst hik; simp [hm, h3]
    · have hlt : clk i < clk 0 + maxExec := h4 i (Nat.le_refl _) (by omega)
      have : ¬ (maxExec ≠ 0 ∧ clk i ≥ clk 0 + maxExec) := by intro ⟨_, h⟩; omega
      simp only [this, if_false]
      exact runLoop_spec clk maxExec hm fuel (i + 1) k (by omega) (by omega) h3
        (fun j hj1 hj2 => h4 j (by omega) hj2)

/-- **Interrupted within bounded steps.**  If the clock ever reaches the deadline (any clock that
    keeps advancing does), the non-yielding thread is interrupted, and at the *first* such reading. -/
theorem C14_overflow_bounded (clk : Nat → Nat) (maxExec : Nat) (hm : maxExec ≠ 0)
    (k : Nat) (hk1 : 1 ≤ k) (hlate : clk k ≥ clk 0 + maxExec)
    (hfirst : ∀ j, 1 ≤ j → j < k → clk j < clk 0 + maxExec) :
    runLoop clk maxExec (k + 1) 1 = some k :=
  runLoop_spec clk maxExec hm (k + 1) 1 k hk1 (by omega) hlate hfirst

/-- a clock that advances by at least `δ > 0` per reading reaches any deadline: the interruption
    comes after at most `maxExec / δ + 1` instructions -/
theorem C14_overflow_bounded_by_rate (clk : Nat → Nat) (maxExec δ : Nat) (hm : maxExec ≠ 0) (hδ : 0 < δ)
    (hadv : ∀ k, clk (k + 1) ≥ clk k + δ) :
    ∃ k, k ≤ maxExec / δ + 1 ∧ runLoop clk maxExec (k + 1) 1 = some k := by
  -- readings grow at least linearly
  have hlin : ∀ k, clk k ≥ clk 0 + k * δ := by
    intro k
    induction k with
    | zero => simp
    | succ k ih =>
      have := hadv k
      rw [Nat.succ_mul]; omega
  -- the reading number maxExec/δ+1 is late
  have hlate0 : clk (maxExec / δ + 1) ≥ clk 0 + maxExec := by
    have h1 := hlin (maxExec / δ + 1)
    have hq := Nat.div_add_mod maxExec δ
    have hr := Nat.mod_lt maxExec hδ
    rw [Nat.succ_mul] at h1
    rw [Nat.mul_comm] at hq
    generalize (maxExec / δ) * δ = P at h1 hq
    omega
  -- least such k
  have hleast : ∀ n, (∃ k, k ≤ n ∧ 1 ≤ k ∧ clk k ≥ clk 0 + maxExec) →
      ∃ k, k ≤ n ∧ 1 ≤ k ∧ clk k ≥ clk 0 + maxExec ∧ ∀ j, 1 ≤ j → j < k → clk j < clk 0 + maxExec := by
    intro n
    induction n with
    | zero => intro ⟨k, h1, h2, _⟩; omega
    | succ n ih =>
      intro ⟨k, h1, h2, h3⟩
      by_cases hsm : ∃ k', k' ≤ n ∧ 1 ≤ k' ∧ clk k' ≥ clk 0 + maxExec
      · obtain ⟨k', a, b, c, d⟩ := ih hsm
        exact ⟨k', by omega, b, c, d⟩
      · refine ⟨k, h1, h2, h3, ?_⟩
        intro j hj1 hj2
        apply Nat.lt_of_not_le
        intro hle
        exact hsm ⟨j, by omega, hj1, hle⟩
  obtain ⟨k, hkn, hk1, hlate, hfirst⟩ := hleast (maxExec / δ + 1) ⟨maxExec / δ + 1, Nat.le_refl _, Nat.succ_le_succ (Nat.zero_le _), hlate0⟩
  exact ⟨k, hkn, C14_overflow_bounded clk maxExec hm k hk1 hlate hfirst⟩

/-- with the limit switched off (`maxExecTime = 0`) the guard never fires -/
theorem C14_no_limit_never_fires (clk : Nat → Nat) : ∀ (fuel i : Nat), runLoop clk 0 fuel i = none
  | 0, _ => rfl
  | fuel + 1, i => by simp [runLoop, C14_no_limit_never_fires clk fuel (i + 1)]

/-- **Depth limit.**  `n` nested activations succeed exactly when `n ≤ maxDepth + 1`, and then the
    depth counter equals `n`; so the native stack never carries more than `maxDepth + 1` VM frames. -/
theorem nest_spec (maxDepth : Nat) : ∀ (n depth : Nat),
    nest maxDepth n depth = if n = 0 ∨ depth + n ≤ maxDepth + 1 then some (depth + n) else none
  | 0, depth => by simp [nest]
  | n + 1, depth => by
    simp only [nest, enter]
    by_cases h : depth > maxDepth
    · have : ¬ (n + 1 = 0 ∨ depth + (n + 1) ≤ maxDepth + 1) := by omega
      simp only [h, if_true, Option.bind_none, this, if_false]
    · simp only [h, if_false, Option.bind_some]
      rw [nest_spec maxDepth n (depth + 1)]
      by_cases hn : n = 0
      · subst hn; simp; omega
      · have e1 : (n = 0 ∨ depth + 1 + n ≤ maxDepth + 1) ↔ (n + 1 = 0 ∨ depth + (n + 1) ≤ maxDepth + 1) := by omega
        by_cases h2 : depth + 1 + n ≤ maxDepth + 1
        · simp [hn, h2, show depth + (n + 1) ≤ maxDepth + 1 by omega]; omega
        · simp [hn, h2, show ¬ depth + (n + 1) ≤ maxDepth + 1 by omega]

theorem C14_depth_limit (maxDepth n : Nat) :
    (nest maxDepth n 0).isSome ↔ n ≤ maxDepth + 1 := by
  rw [nest_spec]
  by_cases h : n = 0
  · subst h; simp
  · simp [h]

/-! ### non-vacuity -/
example : runLoop (fun k => 3 * k) 10 100 1 = some 4 := by decide
example : (nest 5 6 0) = some 6 ∧ (nest 5 7 0) = none := by decide

end Morfuse.Sched.Guard

/-! ## The unwind model: recovery clauses -/
namespace Morfuse.Unwind
open Morfuse.Sched

/-- **The abort reaches the host call and everything is restored** (host call started from a state
    with no current thread).  For every program, configuration, clock, label and number of steps:
    (a) whenever the host call has returned — normally or with any exception — the nesting counter
    has its value from before the call and `m_CurrentThread` is null;
    (b) whenever an abort (`CommandOverflow` with protection on, `MaxStackDepth`, `ScriptAbortException`)
    is in flight at any nesting, exactly one frame is left per step, no frame swallows it, and after
    as many steps as there are frames the host call returns that very exception with every
    activation popped, the counter restored and `m_CurrentThread` null. -/
theorem C14_unwind_restores (E : Env) (s0 : St) (label k : Nat) (hc : s0.cur = none) :
    let s := run E k (startCall E s0 label)
    (s.stack = [] → s.depth = s0.depth ∧ s.cur = none) ∧
    (∀ e, s.exc = some e → e.isAbort = true → (e = .overflow → E.cfg.prot = true) → s.ub = false →
      (run E s.stack.length s).stack = [] ∧ (run E s.stack.length s).exc = some e ∧
      (run E s.stack.length s).depth = s0.depth ∧ (run E s.stack.length s).cur = none) := by
  intro s
  have hinv : Inv s0.depth s := run_inv E s0.depth k _ (startCall_inv E s0 label hc)
  refine ⟨fun hs => inv_halted hinv hs, ?_⟩
  intro e he ha hp hub
  obtain ⟨h1, h2, _⟩ := unwind_run E e ha hp s.stack s rfl he hub
  have hinv' := run_inv E s0.depth s.stack.length s hinv
  exact ⟨h1, h2, (inv_halted hinv' h1).1, (inv_halted hinv' h1).2⟩

/-- the same when the runaway / over-deep part runs in a thread that the scheduler resumed
    (`ScriptContext::Execute → ExecuteRunning → Resume`): the "late" variant -/
theorem C14_unwind_restores_late (E : Env) (s0 : St) (k : Nat) (hc : s0.cur = none) :
    let s := run E k (startExecute E s0)
    (s.stack = [] → s.depth = s0.depth ∧ s.cur = none) ∧
    (∀ e, s.exc = some e → e.isAbort = true → (e = .overflow → E.cfg.prot = true) → s.ub = false →
      (run E s.stack.length s).stack = [] ∧ (run E s.stack.length s).exc = some e ∧
      (run E s.stack.length s).depth = s0.depth ∧ (run E s.stack.length s).cur = none) := by
  intro s
  have hinv : Inv s0.depth s := run_inv E s0.depth k _ (startExecute_inv E s0 hc)
  refine ⟨fun hs => inv_halted hinv hs, ?_⟩
  intro e he ha hp hub
  obtain ⟨h1, h2, _⟩ := unwind_run E e ha hp s.stack s rfl he hub
  have hinv' := run_inv E s0.depth s.stack.length s hinv
  exact ⟨h1, h2, (inv_halted hinv' h1).1, (inv_halted hinv' h1).2⟩

/-- what the `catch (...)` of `ScriptExecuteInternal` does, frame-locally: `m_CurrentThread` gets the
    saved value, `m_PreviousThread` the thread of this frame (both through `SafePtr`: null if dead),
    the exception travels on -/
theorem C14_unwind_sei_restores (E : Env) (s : St) (t : Tid) (saved : Option Tid) (rest : List Frame) (e : Exc)
    (hst : s.stack = .sei t saved :: rest) (he : s.exc = some e) (hub : s.ub = false) :
    (step E s).cur = safe s saved ∧ (step E s).prev = safe s (some t) ∧ (step E s).stack = rest ∧
    (step E s).exc = some e := by
  simp [step, hub, hst, he, unwindFrame]

/-- **Protection on: the overflow reaches the host.**  In any state reached during a host call, when the
    time check after an instruction finds the deadline passed (`cmdTime ≥ nextTime`, VM running), the
    host call returns `CommandOverflow` after `1 + (number of live frames)` further steps, restored. -/
theorem C14_unwind_overflow_reaches_host (E : Env) (s0 : St) (label k : Nat) (hc : s0.cur = none)
    (hp : E.cfg.prot = true) (t : Tid) (dl ct n : Nat) (rest : List Frame) :
    let s := run E k (startCall E s0 label)
    s.stack = .vm t dl ct true n :: rest → s.exc = none → s.ub = false →
    dl ≠ 0 → ct ≥ dl → vmRunning s t = true →
    let s' := run E (1 + s.stack.length) s
    s'.stack = [] ∧ s'.exc = some .overflow ∧ s'.depth = s0.depth ∧ s'.cur = none := by
  intro s hst hn hub hdl hct hrun
  have h1 : step E s = { s with exc := some .overflow } := by
    simp [step, hub, hst, hn, runFrame, hdl, hct, hrun]
  have hk : run E (k + 1) (startCall E s0 label) = step E s := by
    have : ∀ (j : Nat) (x : St), run E (j + 1) x = step E (run E j x) := by
      intro j; induction j with
      | zero => intro x; rfl
      | succ j ih => intro x; simp only [run] at ih ⊢; exact ih (step E x)
    exact this k _
  obtain ⟨_, hb⟩ := C14_unwind_restores E s0 label (k + 1) hc
  rw [hk, h1] at hb
  have := hb .overflow rfl rfl (fun _ => hp) hub
  show (run E (1 + s.stack.length) s).stack = [] ∧ _
  rw [Nat.add_comm, run, h1]
  exact this

/-- **Protection off: no abort, the deadline is extended.**  (a) a host call never returns
    `CommandOverflow`; (b) the `catch` of the frame whose check fired logs to the Debug stream iff one is
    attached, takes a new deadline `GetTime() + maxExecutionTime`, re-enters `Process` (fresh `cmdTime`)
    and leaves stack, nesting counter and current thread as they were. -/
theorem C14_unwind_protection_off_extends (E : Env) (hp : E.cfg.prot = false) :
    (∀ (s0 : St) (label k : Nat), (run E k (startCall E s0 label)).stack = [] →
        (run E k (startCall E s0 label)).exc ≠ some .overflow) ∧
    (∀ (s : St) (t : Tid) (dl ct n : Nat) (rest : List Frame), s.stack = .vm t dl ct true n :: rest →
        s.exc = some .overflow → s.ub = false →
        (∃ s2, s2 = tick E (tick E s) ∧ step E s =
          { s2 with exc := none, stack := .vm t (s.now + E.cfg.maxExec) (s.now + E.inc s.reads) false 0 :: rest }) ∧
        diagOf E s = (if E.cfg.sDbg then [.dbgUpdate] else [])) := by
  refine ⟨?_, ?_⟩
  · intro s0 label k hs hov
    have h0 : OverflowLocal (startCall E s0 label) := by
      intro h; rcases startCall_exc E s0 label with h' | h' <;> (rw [h'] at h; cases h)
    obtain ⟨_, _, _, _, _, _, h2⟩ := run_overflow_local E hp k _ h0 hov
    rw [hs] at h2; cases h2
  · intro s t dl ct n rest hst he hub
    exact ⟨⟨_, rfl, by simp [step, hub, hst, he, unwindFrame, hp, vmExtend, tick]⟩, by simp [diagOf, hub, hst, he, hp]⟩

/-- **No dependence on the output configuration.**  Environments that differ only in which streams
    are attached and in the developer flag drive the machine through the same states: same outcome of
    every host call, same threads, timer, counters, clock.  (The stream flags are read only by
    `diagOf`, which mirrors the `if (stream)` guards.) -/
theorem C14_unwind_no_output_dependence (E E' : Env) (h : SameCore E E') (k : Nat) (s : St) (d d' : List Diag) :
    (runD E k (s, d)).1 = (runD E' k (s, d')).1 := by
  rw [runD_fst, runD_fst]; exact run_same h k s

/-- **Depth limit.**  (a) from a state within the limit the nesting counter never exceeds
    `maxStackDepth + 1`, in any program; (b) a normal step raises `MaxStackDepth` only from the
    constructor of a new activation at counter `> maxStackDepth` — with (a): exactly `maxStackDepth + 1` —
    and that failed entry leaves the counter unchanged; (c) (in `C14_unwind_restores`) after the
    unwinding the counter has its value from before the host call. -/
theorem C14_unwind_depth_limit (E : Env) (s0 : St) (k : Nat) (h0 : s0.depth ≤ E.cfg.maxDepth + 1) :
    (run E k s0).depth ≤ E.cfg.maxDepth + 1 ∧
    ((run E k s0).exc = none → (run E k s0).ub = false → (step E (run E k s0)).exc = some .depth →
      (run E k s0).depth = E.cfg.maxDepth + 1 ∧ (step E (run E k s0)).depth = (run E k s0).depth) := by
  have hb := run_depth_bound E k s0 h0
  refine ⟨hb, ?_⟩
  intro hn hub hd
  generalize run E k s0 = s at *
  cases hst : s.stack with
  | nil => simp [step, hub, hst, hn] at hd
  | cons f rest =>
    have hstep : step E s = runFrame E s f rest := by simp [step, hub, hst, hn]
    rw [hstep] at hd ⊢
    cases runFrame_raised E s f rest hn with
    | none h1 => rw [h1] at hd; cases hd
    | overflow t dl ct n hf hs _ _ => rw [hs] at hd; cases hd
    | depth h1 h2 h3 => exact ⟨by omega, h3⟩
    | raise t dl ct n hf h1 _ => rcases h1 with h1 | h1 <;> (rw [h1] at hd; cases hd)

/-- host operations, each run for an arbitrary number of steps -/
inductive HostOp | call (label : Nat) | execute | reset
def applyOp (E : Env) (k : Nat) (s : St) : HostOp → St
  | .call l => run E k (startCall E s l)
  | .execute => run E k (startExecute E s)
  | .reset => resetDirector s

/-- **Several interruptions in a row.**  Along any sequence of host calls / frames / resets — whatever
    their outcomes: normal returns, command overflows, stack overflows, script aborts — as long as each
    operation returns, the engine is back in a quiescent state with the nesting counter at its original
    value and no current thread. -/
theorem C14_unwind_many (E : Env) (d : Nat) : ∀ (ops : List (HostOp × Nat)) (s : St), Quiescent d s →
    (∀ (pre : List (HostOp × Nat)) (op : HostOp × Nat) (post : List (HostOp × Nat)), ops = pre ++ op :: post →
      let s' := (pre ++ [op]).foldl (fun s o => applyOp E o.2 s o.1) s
      s'.stack = [] ∧ s'.ub = false) →
    Quiescent d (ops.foldl (fun s o => applyOp E o.2 s o.1) s)
  | [], s, hq, _ => hq
  | (op, k) :: rest, s, hq, hall => by
    have h1 := hall [] (op, k) rest rfl
    simp only [List.nil_append, List.foldl_cons, List.foldl_nil] at h1
    have hq' : Quiescent d (applyOp E k s op) := by
      cases op with
      | call l =>
        obtain ⟨ha, _⟩ := C14_unwind_restores E s l k hq.cur
        have := ha h1.1
        exact ⟨h1.1, this.2, by show (run E k (startCall E s l)).depth = d; rw [this.1, hq.depth], h1.2⟩
      | execute =>
        obtain ⟨ha, _⟩ := C14_unwind_restores_late E s k hq.cur
        have := ha h1.1
        exact ⟨h1.1, this.2, by show (run E k (startExecute E s)).depth = d; rw [this.1, hq.depth], h1.2⟩
      | reset => exact ⟨by simpa [applyOp, resetDirector] using hq.stack, rfl, by simpa [applyOp, resetDirector] using hq.depth,
          by simpa [applyOp, resetDirector] using hq.ub⟩
    simp only [List.foldl_cons]
    apply C14_unwind_many E d rest _ hq'
    intro pre o post hpp
    have := hall ((op, k) :: pre) o post (by simp [hpp])
    simpa using this

/-- **The scheduler survives.**  In a quiescent state (which is what every returned host call leaves,
    aborted or not: `C14_unwind_restores`, `C14_unwind_many`), if a sentinel thread is in the timer list
    with due time `≤` the time the next frame sets, then that frame's `ExecuteRunning` passes its guard,
    dequeues the earliest-due, first-registered due thread `e` (due no later than the sentinel), makes it
    the current thread and resumes its VM. -/
theorem C14_unwind_scheduler_survives (E : Env) (s : St) (hq : Quiescent 0 s) (sid due : Nat)
    (hmem : (sid, due) ∈ s.timer.elems) (hdue : due ≤ (startExecute E s).timer.mtime)
    (halive : ∀ e d, (e, d) ∈ s.timer.elems → alive s e = true) :
    ∃ e d tm dl ct, (startExecute E s).timer.next = (some (e, d), tm) ∧ d ≤ due ∧
      (startExecute E s).stack = [.execRunning, .ctxExec] ∧
      (step E (startExecute E s)).stack = [.vm e dl ct false 0, .execRunning, .ctxExec] ∧
      (step E (startExecute E s)).cur = some e ∧ (step E (startExecute E s)).timer = tm := by
  have hst : (startExecute E s).stack = [.execRunning, .ctxExec] := by
    simp [startExecute, execRunningCall, hq.cur, hq.depth, tick, Timer.setTime]
  have helems : (startExecute E s).timer.elems = s.timer.elems := by
    simp only [startExecute, execRunningCall]; (repeat' split) <;> simp [tick, Timer.setTime]
  cases hnext : (startExecute E s).timer.next with
  | mk o tm =>
    cases o with
    | none =>
      obtain ⟨h1, h2⟩ := Timer.next_none hnext
      have := h1 (sid, due) (by rw [helems]; exact hmem)
      simp at this; omega
    | some ed =>
      obtain ⟨e, d⟩ := ed
      obtain ⟨i, hi1, hi2, hi3, _⟩ := Timer.next_some hnext
      have hmem' : (e, d) ∈ s.timer.elems := by
        rw [← helems]; exact List.mem_of_getElem? hi1
      obtain ⟨j, hj⟩ := List.getElem?_of_mem (by rw [helems]; exact hmem : (sid, due) ∈ (startExecute E s).timer.elems)
      have hd : d ≤ due := (hi3 j sid due hj hdue).1
      have hal : alive (startExecute E s) e = true := by
        have := halive e d hmem'
        simp only [startExecute, execRunningCall]; (repeat' split) <;> simpa [alive, tick] using this
      have hub : (startExecute E s).ub = false := by
        simp only [startExecute, execRunningCall]; (repeat' split) <;> simp [tick, hq.ub]
      have hexc : (startExecute E s).exc = none := by
        simp only [startExecute, execRunningCall]; (repeat' split) <;> simp [tick]
      have hdep : (startExecute E s).depth = 0 := by
        simp only [startExecute, execRunningCall]; (repeat' split) <;> simp [tick, hq.depth]
      generalize startExecute E s = x at *
      have hstep : step E x = enterVM E
          { x with cur := some e, timer := tm, threads := upd x.threads e (fun y => { y with ts := .running }) } e := by
        simp [step, hub, hst, hexc, runFrame, hnext, hal]
      obtain ⟨dl, ct, h1, _, _, h4, _⟩ := enterVM_ok E
          { x with cur := some e, timer := tm, threads := upd x.threads e (fun y => { y with ts := .running }) } e (by simp [hdep])
      refine ⟨e, d, tm, dl, ct, rfl, hd, hst, ?_, ?_, ?_⟩
      · rw [hstep, h1]; simp [hst]
      · rw [hstep, h4]
      · rw [hstep]; simp [enterVM, hdep]; split <;> simp [tick]

/-- **Reset after an abort.**  `ScriptMaster::Reset()` in any quiescent state (in particular after an
    interruption that left aborted threads behind) destroys every thread, empties the timer list and the
    wait tables and leaves a quiescent state, from which a new host call again returns to a quiescent
    state (`C14_unwind_restores`). -/
theorem C14_unwind_reset_after_abort (E : Env) (d : Nat) (s : St) (hq : Quiescent d s) :
    Quiescent d (resetDirector s) ∧ (resetDirector s).threads = [] ∧ (resetDirector s).timer.elems = [] ∧
    (resetDirector s).lvl = [] ∧ (resetDirector s).prev = none ∧
    (∀ label k, (run E k (startCall E (resetDirector s) label)).stack = [] →
      (run E k (startCall E (resetDirector s) label)).depth = d ∧ (run E k (startCall E (resetDirector s) label)).cur = none) := by
  refine ⟨⟨by simpa [resetDirector] using hq.stack, rfl, by simpa [resetDirector] using hq.depth,
    by simpa [resetDirector] using hq.ub⟩, rfl, rfl, rfl, rfl, ?_⟩
  intro label k hs
  obtain ⟨ha, _⟩ := C14_unwind_restores E (resetDirector s) label k rfl
  have := ha hs
  exact ⟨by rw [this.1]; simpa [resetDirector] using hq.depth, this.2⟩

/-! ### non-vacuity: concrete programs of the class, run on the model -/

/-- a runaway `while (1) { local.i++ }`-shaped loop, protection on, 5 ms limit, clock +1 per reading -/
def exLoop : Env := { cfg := { prot := true, maxExec := 5, maxDepth := 2 }, prog := [[.nop, .nop, .jmp 0]], inc := fun _ => 1 }
example : (run exLoop 40 (startCall exLoop {} 0)).stack = [] ∧ (run exLoop 40 (startCall exLoop {} 0)).exc = some .overflow ∧
    (run exLoop 40 (startCall exLoop {} 0)).cur = none ∧ (run exLoop 40 (startCall exLoop {} 0)).depth = 0 := by decide
/-- the hypothesis of `C14_unwind_overflow_reaches_host` is met after 9 steps of that run -/
example : ∃ t dl ct n rest, (run exLoop 9 (startCall exLoop {} 0)).stack = .vm t dl ct true n :: rest ∧
    (run exLoop 9 (startCall exLoop {} 0)).exc = none ∧ dl ≠ 0 ∧ ct ≥ dl ∧ vmRunning (run exLoop 9 (startCall exLoop {} 0)) t = true :=
  ⟨1, 5, 5, 5, [.sei 1 none, .thrExec], by decide⟩
/-- the same loop with protection off: at step 10 the check fires, at step 11 the handler has extended the
    deadline and execution goes on -/
def exLoopOff : Env := { exLoop with cfg := { exLoop.cfg with prot := false } }
example : (run exLoopOff 9 (startCall exLoopOff {} 0)).exc = none ∧ (run exLoopOff 10 (startCall exLoopOff {} 0)).exc = some .overflow ∧
    (run exLoopOff 11 (startCall exLoopOff {} 0)).exc = none ∧ (run exLoopOff 11 (startCall exLoopOff {} 0)).stack.length = 3 ∧
    diagOf exLoopOff (run exLoopOff 10 (startCall exLoopOff {} 0)) = [.dbgUpdate] := by decide
/-- streams detached: same states, nothing written -/
def exLoopQuiet : Env := { exLoopOff with cfg := { exLoopOff.cfg with sDbg := false, sErr := false, sWarn := false } }
example : SameCore exLoopOff exLoopQuiet := ⟨rfl, rfl, rfl, rfl, rfl⟩
example : diagOf exLoopQuiet (run exLoopQuiet 10 (startCall exLoopQuiet {} 0)) = [] := by decide
/-- mutual thread recursion `a: thread b / b: thread a` with nesting limit 2: three activations, the fourth
    is refused at counter 3 = limit + 1; the exception passes 3 VM frames and the counter is back to 0 -/
def exRec : Env := { cfg := { prot := true, maxExec := 0, maxDepth := 2 }, prog := [[.nop, .spawn 1 false, .done], [.nop, .spawn 0 true, .done]], inc := fun _ => 0 }
example : (run exRec 9 (startCall exRec {} 0)).exc = some .depth ∧ (run exRec 9 (startCall exRec {} 0)).depth = 3 ∧
    (run exRec 8 (startCall exRec {} 0)).exc = none ∧
    (run exRec 40 (startCall exRec {} 0)).stack = [] ∧ (run exRec 40 (startCall exRec {} 0)).exc = some .depth ∧
    (run exRec 40 (startCall exRec {} 0)).depth = 0 ∧ (run exRec 40 (startCall exRec {} 0)).cur = none := by decide
set_option maxRecDepth 100000 in
/-- several interruptions in a row, a frame, a reset, and a host call that still works -/
example : Quiescent 0 ([(HostOp.call 0, 40), (.call 0, 40), (.execute, 10), (.reset, 0), (.call 0, 40)].foldl
    (fun s o => applyOp exRec o.2 s o.1) {}) := ⟨by decide, by decide, by decide, by decide⟩
/-- late variant + sentinel: label 1 = sentinel `wait 5`, label 0 = `wait 1` then runaway loop.  The frame at
    t = 3 resumes the program (abort in a scheduler-resumed thread); `m_CurrentThread` is null afterwards
    and the frame at t = 10 resumes the sentinel -/
def exLate : Env :=
  { cfg := { prot := true, maxExec := 3, maxDepth := 2 }, prog := [[.wait 1, .nop, .jmp 1], [.wait 5, .done]], inc := fun _ => 1 }
def exLateA : St := run exLate 20 (startCall exLate (run exLate 20 (startCall exLate {} 1)) 0)
def exLateS : St := run exLate 60 (startExecute exLate { exLateA with exc := none })
set_option maxRecDepth 100000 in
example : exLateS.stack = [] ∧ exLateS.exc = some .overflow ∧ exLateS.cur = none ∧ exLateS.depth = 0 ∧
    exLateS.timer.elems = [(1, 5)] := by decide
set_option maxRecDepth 100000 in
example : (step exLate (startExecute exLate { exLateS with exc := none })).cur = some 1 := by decide
/-- a thread woken by `notify` aborts: the exception passes `ScriptThread::Execute()`, the notify loop and
    the notifier's VM; the other waiter (thread 2) was already taken off the table and is never resumed -/
def exWake : Env :=
  { cfg := { prot := true, maxExec := 0, maxDepth := 5 }, inc := fun _ => 0,
    prog := [[.spawn 1 false, .spawn 2 false, .notify 7, .done], [.waittill 7, .raise true, .done], [.waittill 7, .done]] }
set_option maxRecDepth 100000 in
example : (run exWake 60 (startCall exWake {} 0)).stack = [] ∧ (run exWake 60 (startCall exWake {} 0)).exc = some .abort ∧
    (run exWake 60 (startCall exWake {} 0)).cur = none ∧ (run exWake 60 (startCall exWake {} 0)).depth = 0 ∧
    (run exWake 60 (startCall exWake {} 0)).lvl = [] ∧ (run exWake 60 (startCall exWake {} 0)).threads.length = 3 := by decide

/-! ## Round 2: the time check is `Guard.runLoop`'s check; termination of the runaway loop with a bound;
protection off diverges; stranded waiters -/

/-- **The model's time check is the guard model's check.**  For a host call on a label of the plain
    runaway shape (`Spin`: only non-yielding opcodes and jumps, never ends), with a non-zero limit: let
    `clk j` be the j-th reading of the injected clock counted from the moment the deadline is taken.  If
    `Sched.Guard.runLoop clk limit fuel 1 = some k` (the guard model interrupts after instruction `k`), then in
    the unwind model: after `2k - 1` steps instruction `k` has run and its check is pending with
    `nextTime = clk 0 + limit` and `cmdTime = clk k`, no exception was raised before, step `2k` raises
    `CommandOverflow` — and with protection on the host call has returned `CommandOverflow` after `2k + 3`
    steps with the nesting counter restored and no current thread.  So `C14_overflow_bounded` /
    `C14_overflow_bounded_by_rate` speak about the unwind model's activations. -/
theorem C14_unwind_time_check_is_guard (E : Env) (code : List Op) (l : Nat) (hcode : E.prog.getD l [] = code)
    (hspin : Spin code) (hne : 0 < code.length) (s0 : St) (hfresh : find s0.threads s0.nextTid = none)
    (hd : s0.depth ≤ E.cfg.maxDepth) (hub : s0.ub = false) (fuel k : Nat)
    (hg : Guard.runLoop (clkAt E.inc s0.now s0.reads) E.cfg.maxExec fuel 1 = some k) :
    PostJ E code l s0.nextTid s0.cur s0.now s0.reads k (run E (2 * k - 1) (startCall E s0 l)) ∧
    (∀ j, j < 2 * k → (run E j (startCall E s0 l)).exc = none) ∧
    (run E (2 * k) (startCall E s0 l)).exc = some .overflow ∧
    (E.cfg.prot = true → s0.cur = none →
      (run E (2 * k + 3) (startCall E s0 l)).stack = [] ∧ (run E (2 * k + 3) (startCall E s0 l)).exc = some .overflow ∧
      (run E (2 * k + 3) (startCall E s0 l)).depth = s0.depth ∧ (run E (2 * k + 3) (startCall E s0 l)).cur = none) := by
  obtain ⟨hL, hk1, hlate, hfirst⟩ := Guard.runLoop_some _ _ _ _ _ hg
  have h1 := postJ_one E code l hcode hspin hne s0 hfresh hd hub hL
  have hrun1 : ∀ j, run E (j + 1) (startCall E s0 l) = run E j (step E (startCall E s0 l)) := fun j => rfl
  have hpost : ∀ j, j + 1 ≤ k → PostJ E code l s0.nextTid s0.cur s0.now s0.reads (j + 1) (run E (2 * j + 1) (startCall E s0 l)) := by
    intro j hj
    rw [hrun1]
    exact postJ_run E code l hcode hspin _ _ _ _ _ h1 j (fun i a b => hfirst i a (by omega))
  have hP : PostJ E code l s0.nextTid s0.cur s0.now s0.reads k (run E (2 * k - 1) (startCall E s0 l)) := by
    have := hpost (k - 1) (by omega)
    rw [show k - 1 + 1 = k by omega, show 2 * (k - 1) + 1 = 2 * k - 1 by omega] at this
    exact this
  have hstepk : run E (2 * k) (startCall E s0 l) = { (run E (2 * k - 1) (startCall E s0 l)) with exc := some .overflow } := by
    rw [show 2 * k = (2 * k - 1) + 1 by omega, run_add]
    simp only [run]
    exact spin_post_fire E code l _ _ _ _ _ _ hP.stack hP.exc hP.ub hP.thr (by omega) hlate
  refine ⟨hP, ?_, by rw [hstepk], ?_⟩
  · -- no exception before step 2k: every earlier state is `PostJ` or the fetch state between two of them
    intro j hj
    have hpar : j = 2 * (j / 2) ∨ j = 2 * (j / 2) + 1 := by omega
    generalize j / 2 = m at hpar
    rcases hpar with hm | hm
    · -- j = 2m: the state after the check of instruction m passed (or the start)
      subst hm
      cases m with
      | zero => exact (spin_start E code l hne s0 hfresh hd hub hL).2.1
      | succ m =>
        have hp := hpost m (by omega)
        rw [show 2 * (m + 1) = (2 * m + 1) + 1 by omega, run_add]
        simp only [run]
        exact (spin_post_pass E code l _ _ _ _ _ _ hp.stack hp.exc hp.ub hp.thr (Or.inr (hfirst (m + 1) (by omega) (by omega)))).2.1
    · subst hm
      exact (hpost m (by omega)).exc
  · intro hp hc
    have hst : (run E (2 * k) (startCall E s0 l)).stack.length = 3 := by rw [hstepk]; simp [hP.stack]
    obtain ⟨_, hb⟩ := C14_unwind_restores E s0 l (2 * k) hc
    have := hb .overflow (by rw [hstepk]) rfl (fun _ => hp) (by rw [hstepk]; exact hP.ub)
    rw [hst, ← run_add] at this
    exact this

/-- **A runaway loop is interrupted within a bounded number of steps.**  Protection on, limit `L > 0`, a
    clock that advances by at least `δ > 0` per reading: a host call on a `Spin` label returns
    `CommandOverflow` after at most `2 · (L / δ + 1) + 3` machine steps (two per instruction, three frames to
    unwind), i.e. after at most `L / δ + 1` instructions, restored.  (Composition of
    `C14_overflow_bounded_by_rate` with `C14_unwind_time_check_is_guard`.) -/
theorem C14_unwind_spin_terminates (E : Env) (code : List Op) (l : Nat) (hcode : E.prog.getD l [] = code)
    (hspin : Spin code) (hne : 0 < code.length) (s0 : St) (hfresh : find s0.threads s0.nextTid = none)
    (hd : s0.depth ≤ E.cfg.maxDepth) (hub : s0.ub = false) (hc : s0.cur = none) (hp : E.cfg.prot = true)
    (hL : E.cfg.maxExec ≠ 0) (δ : Nat) (hδ : 0 < δ) (hinc : ∀ i, E.inc i ≥ δ) :
    ∃ n, n ≤ 2 * (E.cfg.maxExec / δ + 1) + 3 ∧
      (run E n (startCall E s0 l)).stack = [] ∧ (run E n (startCall E s0 l)).exc = some .overflow ∧
      (run E n (startCall E s0 l)).depth = s0.depth ∧ (run E n (startCall E s0 l)).cur = none := by
  obtain ⟨k, hk, hg⟩ := Guard.C14_overflow_bounded_by_rate (clkAt E.inc s0.now s0.reads) E.cfg.maxExec δ hL hδ
    (fun j => by simp only [clkAt]; have := hinc (s0.reads + j); omega)
  obtain ⟨_, _, _, h4⟩ := C14_unwind_time_check_is_guard E code l hcode hspin hne s0 hfresh hd hub (k + 1) k hg
  exact ⟨2 * k + 3, by omega, h4 hp hc⟩

/-- **Protection off: the runaway loop never returns** (by design — the handler only logs and extends the
    deadline), whatever the limit and the clock: after any number of steps the three frames are still on the
    native stack; and the Debug stream receives exactly one "Update of script position" block per deadline
    extension if it is attached, nothing otherwise (nothing is written to any other stream). -/
theorem C14_unwind_protection_off_diverges (E : Env) (code : List Op) (l : Nat) (hcode : E.prog.getD l [] = code)
    (hspin : Spin code) (hne : 0 < code.length) (s0 : St) (hfresh : find s0.threads s0.nextTid = none)
    (hd : s0.depth ≤ E.cfg.maxDepth) (hub : s0.ub = false) (hp : E.cfg.prot = false) (k : Nat) :
    (run E k (startCall E s0 l)).stack.length = 3 ∧ halted (run E k (startCall E s0 l)) = false ∧
    (runD E k (startCall E s0 l, [])).2 =
      List.replicate (if E.cfg.sDbg = true then extensions E k (startCall E s0 l) else 0) .dbgUpdate := by
  have h0 : Spinning code l s0.nextTid s0.cur (startCall E s0 l) := by
    by_cases hL : E.cfg.maxExec = 0
    · obtain ⟨a1, a2, a3, a4⟩ := spin_start0 E code l hne s0 hfresh hd hub hL
      exact ⟨a3, a4, _, _, _, _, a1, Or.inl a2⟩
    · obtain ⟨a1, a2, a3, _, _, _, a7⟩ := spin_start E code l hne s0 hfresh hd hub hL
      exact ⟨a3, a7, _, _, _, _, a1, Or.inl a2⟩
  have hk := spinning_run E code l hcode hspin hp _ _ k _ h0
  obtain ⟨_, _, _, _, hst, _⟩ := hk.shape
  refine ⟨by rw [hst]; rfl, by simp [halted, hst, hk.ub], ?_⟩
  simpa using spinning_diag_rate E code l hcode hspin hp _ _ k _ [] h0

/-- a `notify` that wakes an aborting waiter followed by two more waiters, and a later `notify` of the
    same name: label 0 spawns one thread on label 1 (`waittill k7; error "x" 1`) and two on label 2
    (`waittill k7; println m40`), then notifies; label 3 notifies again -/
def exStrand : Env :=
  { cfg := { prot := true, maxExec := 0, maxDepth := 5 }, inc := fun _ => 0,
    prog := [[.spawn 1 false, .spawn 2 false, .spawn 2 false, .notify 7, .print 8, .done], [.waittill 7, .raise true, .done],
             [.waittill 7, .print 40, .done], [.notify 7, .print 9, .done]] }
def exStrandA : St × List Diag := runD exStrand 80 (startCall exStrand {} 0, [])
def exStrandB : St × List Diag := runD exStrand 40 (startCall exStrand { exStrandA.1 with exc := none } 3, [])

set_option maxRecDepth 100000 in
/-- **An abort in one of several woken waiters strands the waiters behind it** (as the code is:
    `Listener::Unregister` takes every waiter off both tables before it resumes the first one, and the
    exception leaves its loop).  Witness: the host call returns the abort; threads 3 and 4 are still
    `Waiting` with an idle VM at the instruction after their `waittill`, in no table and not in the timer, and
    have printed nothing; a later `notify` of the same name returns normally, prints its own marker and
    resumes neither of them. -/
theorem C14_unwind_abort_strands_later_waiters :
    exStrandA.1.stack = [] ∧ exStrandA.1.exc = some .abort ∧ exStrandA.1.cur = none ∧ exStrandA.1.depth = 0 ∧
    exStrandA.1.threads.map (fun p => (p.1, p.2.ts, p.2.vs, p.2.pc)) =
      [(1, .running, .idling, 4), (2, .running, .idling, 2), (3, .waiting, .idling, 1), (4, .waiting, .idling, 1)] ∧
    exStrandA.1.lvl = [] ∧ exStrandA.1.timer.elems = [] ∧ exStrandA.2 = [.errPos, .errPos] ∧
    exStrandB.1.stack = [] ∧ exStrandB.1.exc = none ∧ exStrandB.2 = [.out 9] ∧
    exStrandB.1.threads.map (fun p => (p.1, p.2.ts, p.2.vs, p.2.pc)) =
      [(1, .running, .idling, 4), (2, .running, .idling, 2), (3, .waiting, .idling, 1), (4, .waiting, .idling, 1)] := by
  decide

/-! ### non-vacuity of the round-2 theorems -/
example : Spin [.nop, .nop, .jmp 0] := by
  intro pc h
  have : pc = 0 ∨ pc = 1 ∨ pc = 2 := by simp at h; omega
  rcases this with h | h | h <;> subst h <;> simp
/-- `exLoop` (limit 5, clock +1): the guard model interrupts after instruction 5, the unwind model raises at
    step 10 and has returned at step 13 = 2·5 + 3 ≤ 2·(5/1 + 1) + 3 = 15 -/
example : Guard.runLoop (clkAt exLoop.inc 0 0) 5 6 1 = some 5 := by decide
example : (run exLoop 9 (startCall exLoop {} 0)).exc = none ∧ (run exLoop 10 (startCall exLoop {} 0)).exc = some .overflow ∧
    (run exLoop 12 (startCall exLoop {} 0)).stack ≠ [] ∧ (run exLoop 13 (startCall exLoop {} 0)).stack = [] := by decide
/-- the bound is met: limit 5, clock +2 per reading, bound 2·(5/2 + 1) + 3 = 9: still running after 8 steps -/
def exTight : Env := { cfg := { prot := true, maxExec := 5, maxDepth := 2 }, prog := [[.jmp 0]], inc := fun _ => 2 }
example : (run exTight 8 (startCall exTight {} 0)).stack ≠ [] ∧ (run exTight 9 (startCall exTight {} 0)).stack = [] ∧
    (run exTight 9 (startCall exTight {} 0)).exc = some .overflow := by decide
/-- protection off, 40 steps: still three frames, three extensions so far, three Debug blocks -/
example : (run exLoopOff 40 (startCall exLoopOff {} 0)).stack.length = 3 ∧ extensions exLoopOff 40 (startCall exLoopOff {} 0) = 3 ∧
    (runD exLoopOff 40 (startCall exLoopOff {} 0, [])).2 = [.dbgUpdate, .dbgUpdate, .dbgUpdate] := by decide

/-- **Every activation has its own deadline and a bounded instruction budget** (all programs, all nestings,
    protection on or off).  Limit `L ≠ 0`, clock advancing by at least `δ > 0` per reading: in every state
    reached during a host call, for every `ScriptVM::Execute` frame on the native stack with `n` instructions
    executed since its deadline was (re)taken: the deadline is non-zero; whenever its time check passes
    (`cmdTime < nextTime`) then `n·δ < L`, so `n ≤ L/δ`; and a check evaluated after `n ≥ L/δ + 1` instructions
    finds `cmdTime ≥ nextTime`, i.e. fires if the VM is still running.  Hence no activation executes more
    than `L/δ + 1` checked instructions per deadline — the step from which termination of nested programs
    follows by induction over the nesting (bounded by `C14_unwind_depth_limit`); see notes/C14-design.md §3
    for what is and is not proved about whole host calls. -/
theorem C14_unwind_activation_bounded (E : Env) (δ : Nat) (hL : E.cfg.maxExec ≠ 0) (hδ : 0 < δ) (hinc : ∀ i, E.inc i ≥ δ)
    (s0 : St) (label k : Nat) (t : Tid) (dl ct n : Nat) (post : Bool)
    (hmem : Frame.vm t dl ct post n ∈ (run E k (startCall E s0 label)).stack) :
    dl ≠ 0 ∧ (ct < dl → n * δ < E.cfg.maxExec ∧ n ≤ E.cfg.maxExec / δ) ∧
    (post = true → n ≥ E.cfg.maxExec / δ + 1 → ct ≥ dl) := by
  have h := run_allOK E δ hL hinc k _ (startCall_allOK E δ hL hinc s0 label) _ hmem
  simp only [FrameOK] at h
  obtain ⟨h1, _, h3⟩ := h
  refine ⟨h1, ?_, ?_⟩
  · intro hlt
    have hn : n * δ < E.cfg.maxExec := by cases post <;> simp at h3 <;> omega
    exact ⟨hn, (Nat.le_div_iff_mul_le hδ).mpr (Nat.le_of_lt hn)⟩
  · intro hp hn
    subst hp
    simp at h3
    have h4 : E.cfg.maxExec < (E.cfg.maxExec / δ + 1) * δ := by
      have := Nat.lt_mul_div_succ E.cfg.maxExec hδ
      rw [Nat.mul_comm]; exact this
    have h5 : (E.cfg.maxExec / δ + 1) * δ ≤ n * δ := Nat.mul_le_mul_right δ hn
    omega

/-- the same for a frame (`ScriptContext::Execute`): scheduler-resumed threads -/
theorem C14_unwind_activation_bounded_late (E : Env) (δ : Nat) (hL : E.cfg.maxExec ≠ 0) (hδ : 0 < δ) (hinc : ∀ i, E.inc i ≥ δ)
    (s0 : St) (k : Nat) (t : Tid) (dl ct n : Nat) (post : Bool)
    (hmem : Frame.vm t dl ct post n ∈ (run E k (startExecute E s0)).stack) :
    dl ≠ 0 ∧ (ct < dl → n * δ < E.cfg.maxExec) := by
  have h := run_allOK E δ hL hinc k _ (startExecute_allOK E δ s0) _ hmem
  simp only [FrameOK] at h
  obtain ⟨h1, _, h3⟩ := h
  exact ⟨h1, fun hlt => by cases post <;> simp at h3 <;> omega⟩

/-- non-vacuity: the nested frames of `exRec` with a 3 ms limit, clock +1: the frame of the third activation
    is on the stack after 8 steps with a deadline of its own -/
def exRecT : Env := { exRec with cfg := { exRec.cfg with maxExec := 3 }, inc := fun _ => 1 }
example : (run exRecT 8 (startCall exRecT {} 0)).stack.filterMap (fun f => match f with | .vm t dl _ _ n => some (t, dl, n) | _ => none) =
    [(3, 9, 1), (2, 6, 2), (1, 3, 2)] := by decide

/-! ## Round 3: one termination bound for programs that nest -/

/-- the bound: `T0 + 1` top-level activations (the host call's thread and each thread the scheduler may
    still resume from the timer list), each at most `N·W(maxStackDepth) + 4` steps with `N = L/δ + 1`,
    `W(0) = 3`, `W(h+1) = N·W(h) + 6` — exponential in the nesting limit.  (Loose: time spent in nested
    activations also counts against the outer deadlines, so real programs need only about
    `2·(maxStackDepth + 1)·(L/δ + 2)` steps; the potential used in the proof does not exploit that.) -/
def nestBound (L δ D T0 : Nat) : Nat := (T0 + 1) * ((L / δ + 1) * W (L / δ + 1) D + 4)

theorem W_le_pow (N : Nat) : ∀ h, W N h ≤ 9 * (N + 1) ^ h
  | 0 => by simp [W]
  | h + 1 => by
    have ih := W_le_pow N h
    have h1 : 1 ≤ (N + 1) ^ h := Nat.one_le_pow _ _ (Nat.succ_pos _)
    have h2 : N * W N h ≤ N * (9 * (N + 1) ^ h) := Nat.mul_le_mul_left N ih
    simp only [W, Nat.pow_succ]
    have h3 : 9 * ((N + 1) ^ h * (N + 1)) = N * (9 * (N + 1) ^ h) + 9 * (N + 1) ^ h := by
      rw [Nat.mul_add, Nat.mul_one, Nat.mul_add, Nat.mul_comm ((N + 1) ^ h) N, ← Nat.mul_assoc, ← Nat.mul_assoc, Nat.mul_comm 9 N]
    omega

/-- **Every host call of a nesting program returns, within an explicit bound.**  Protection on, limit
    `L > 0`, a clock that advances by at least `δ > 0` per reading, a program of the class `Nest` (decidable:
    every opcode is non-yielding, a jump, `end`, `error "x" 1` or `thread l` with a valid label — no `wait`,
    `waitthread`, `waittill`, `notify`, i.e. nothing that can re-time or wake a thread with zero delay), started in a
    quiescent state (no current thread, nesting counter 0, no `waitthread` registrations) with `T0` threads in
    the timer list: the host call has returned — normally or with `CommandOverflow` / `MaxStackDepth` /
    abort — after at most `nestBound L δ maxStackDepth T0` steps, and then the nesting counter is 0 and no
    thread is current. -/
theorem C14_unwind_call_terminates_nested (E : Env) (δ : Nat) (hcls : Nest E.prog = true) (hp : E.cfg.prot = true)
    (hL : E.cfg.maxExec ≠ 0) (hδ : 0 < δ) (hinc : ∀ i, E.inc i ≥ δ) (s0 : St) (label : Nat)
    (hc : s0.cur = none) (hd : s0.depth = 0) (hj : NoJoin s0.threads) (hwait : WaitOK E s0) :
    ∃ n, n ≤ nestBound E.cfg.maxExec δ E.cfg.maxDepth (dueCount s0.timer) ∧
      halted (run E n (startCall E s0 label)) = true ∧
      ((run E n (startCall E s0 label)).stack = [] →
        (run E n (startCall E s0 label)).depth = 0 ∧ (run E n (startCall E s0 label)).cur = none) := by
  have C : Ctx E δ := ⟨hcls, hp, hL, hδ, hinc⟩
  have hinv : Inv 0 (startCall E s0 label) := by rw [← hd]; exact startCall_inv E s0 label hc
  -- the state after `ExecuteThread` has entered (or been refused by) the new VM
  have hgs : GoodS (startCall E s0 label) := by
    unfold startCall
    apply enterSei_good
    · simp [newThread, lowOK]
    · simp only [newThread]; exact nojoin_append hj _ _ rfl
    · rfl
  obtain ⟨⟨htl, hub⟩, hcase⟩ := startCall_cases E s0 label
  have htf : TopFetch δ E.cfg.maxExec (startCall E s0 label) := by
    intro t dl ct n rest hst _
    rcases hcase with ⟨h1, _⟩ | ⟨dl', ct', h1, _⟩
    · rw [h1] at hst; cases hst
    · rw [h1] at hst; cases hst
      simp only [Nat.zero_mul]; exact Nat.pos_of_ne_zero hL
  have hgood : Good E δ (startCall E s0 label) := ⟨hinv, startCall_allOK E δ hL hinc s0 label, hgs, htf, by
    intro l pc ms h
    have hc' : clocks (startCall E s0 label) = clocks s0 := by unfold startCall; rw [enterSei_clocks]; rfl
    simp only [clocks, Prod.mk.injEq] at hc'
    rw [hc'.1, hc'.2]; exact hwait l pc ms h⟩
  have hphi : phi (E.cfg.maxExec / δ + 1) E.cfg.maxDepth (startCall E s0 label) ≤
      nestBound E.cfg.maxExec δ E.cfg.maxDepth (dueCount s0.timer) := by
    have hT := Nat.mul_le_mul_right (Cw (E.cfg.maxExec / δ + 1) E.cfg.maxDepth) htl
    have hW3 := W_ge3 (E.cfg.maxExec / δ + 1) E.cfg.maxDepth
    have hmono : dueCount s0.timer * ((E.cfg.maxExec / δ + 1) * W (E.cfg.maxExec / δ + 1) E.cfg.maxDepth + 3) ≤
        dueCount s0.timer * ((E.cfg.maxExec / δ + 1) * W (E.cfg.maxExec / δ + 1) E.cfg.maxDepth + 4) :=
      Nat.mul_le_mul_left _ (by omega)
    unfold nestBound
    rw [Nat.add_mul, Nat.one_mul]
    simp only [Cw] at hT
    rcases hcase with ⟨h1, h2⟩ | ⟨dl', ct', h1, h2⟩
    · unfold phi; rw [h1, h2]
      split
      · exact Nat.zero_le _
      · simp only [Option.isSome_some, if_true, List.length_cons, List.length_nil]; omega
    · unfold phi; rw [h1, h2]
      split
      · exact Nat.zero_le _
      · simp only [Option.isSome_none, Bool.false_eq_true, if_false, pot, vmCount, Nat.sub_zero, Cw]; omega
  obtain ⟨n, hn, hh⟩ := halts_within E δ C _ _ hgood hphi
  refine ⟨n, hn, hh, fun hs => ?_⟩
  exact inv_halted (run_inv E 0 n _ hinv) hs

/-- the same for a frame (`ScriptContext::Execute`): the threads the scheduler resumes from the timer list -/
theorem C14_unwind_frame_terminates_nested (E : Env) (δ : Nat) (hcls : Nest E.prog = true) (hp : E.cfg.prot = true)
    (hL : E.cfg.maxExec ≠ 0) (hδ : 0 < δ) (hinc : ∀ i, E.inc i ≥ δ) (s0 : St)
    (hc : s0.cur = none) (hd : s0.depth = 0) (hj : NoJoin s0.threads) (hwait : WaitOK E (startExecute E s0)) :
    ∃ n, n ≤ nestBound E.cfg.maxExec δ E.cfg.maxDepth (dueCount (startExecute E s0).timer) ∧
      halted (run E n (startExecute E s0)) = true := by
  have C : Ctx E δ := ⟨hcls, hp, hL, hδ, hinc⟩
  have hinv : Inv 0 (startExecute E s0) := by rw [← hd]; exact startExecute_inv E s0 hc
  have hshape : ((startExecute E s0).stack = [.ctxExec] ∨ (startExecute E s0).stack = [.execRunning, .ctxExec]) ∧
      (startExecute E s0).threads = s0.threads ∧ (startExecute E s0).exc = none := by
    simp only [startExecute, execRunningCall]
    (repeat' split) <;> simp [tick]
  obtain ⟨hstk, hthr, hexc⟩ := hshape
  have hgs : GoodS (startExecute E s0) := by
    refine ⟨?_, by rw [hthr]; exact hj, by intro e he; rw [hexc] at he; cases he⟩
    rcases hstk with h | h <;> (rw [h]; simp [StackG, topOK, lowOK])
  have htf : TopFetch δ E.cfg.maxExec (startExecute E s0) := by
    intro t dl ct n rest hst _
    rcases hstk with h | h <;> (rw [h] at hst; cases hst)
  have hgood : Good E δ (startExecute E s0) := ⟨hinv, startExecute_allOK E δ s0, hgs, htf, hwait⟩
  have hphi : phi (E.cfg.maxExec / δ + 1) E.cfg.maxDepth (startExecute E s0) ≤
      nestBound E.cfg.maxExec δ E.cfg.maxDepth (dueCount (startExecute E s0).timer) := by
    unfold phi nestBound Cw
    rw [hexc]
    generalize (E.cfg.maxExec / δ + 1) * W (E.cfg.maxExec / δ + 1) E.cfg.maxDepth = X
    generalize dueCount (startExecute E s0).timer = T
    simp only [Option.isSome_none, Bool.false_eq_true, if_false]
    split
    · exact Nat.zero_le _
    · rw [Nat.add_mul, Nat.one_mul, Nat.mul_add, Nat.mul_add]
      rcases hstk with h | h <;> (rw [h]; simp only [pot]; omega)
  obtain ⟨n, hn, hh⟩ := halts_within E δ C _ _ hgood hphi
  exact ⟨n, hn, hh⟩

/-! ### non-vacuity -/
/-- three levels of counted loops each spawning the next level (`for (i<3) thread l<k+1>`), 20 ms limit, clock +1:
    in the class; the time spent in the children runs against the parents' deadlines, the level-0 thread is
    interrupted; the call has returned after 51 steps, far below the bound -/
def exFan : Env :=
  { cfg := { prot := true, maxExec := 20, maxDepth := 5 }, inc := fun _ => 1,
    prog := [[.setc 3, .loopTest 4, .spawn 1 false, .jmp 1, .done], [.setc 3, .loopTest 4, .spawn 2 false, .jmp 1, .done],
             [.setc 3, .loopTest 4, .spawn 3 false, .jmp 1, .done], [.done]] }
example : Nest exFan.prog = true := by decide
set_option maxRecDepth 100000 in
example : halted (run exFan 50 (startCall exFan {} 0)) = false ∧ halted (run exFan 51 (startCall exFan {} 0)) = true ∧
    (run exFan 51 (startCall exFan {} 0)).exc = some .overflow ∧ (run exFan 51 (startCall exFan {} 0)).depth = 0 := by decide
example : nestBound 20 1 5 0 = 283028197 := by decide
/-- mutual recursion past the limit (`exRec` has a `waitthread`, so take the `thread`-only variant) -/
def exRecN : Env := { exRec with prog := [[.nop, .spawn 1 false, .done], [.nop, .spawn 0 false, .done]], cfg := { exRec.cfg with maxExec := 50 }, inc := fun _ => 1 }
example : Nest exRecN.prog = true ∧ halted (run exRecN 17 (startCall exRecN {} 0)) = true ∧
    (run exRecN 17 (startCall exRecN {} 0)).exc = some .depth := by decide

/-! ### why the class excludes zero-delay yields -/

theorem step_of_halted (E : Env) (s : St) (h : halted s = true) : step E s = s := by
  unfold step
  by_cases hu : s.ub = true
  · simp [hu]
  · have : s.stack = [] := by simpa [halted, hu] using h
    simp [hu, this]

theorem run_of_halted (E : Env) : ∀ (k : Nat) (s : St), halted s = true → run E k s = s
  | 0, _, _ => rfl
  | k + 1, s, h => by rw [run, step_of_halted E s h]; exact run_of_halted E k s h

/-- `l0: wait 0; goto l0` — the zero-delay yielding loop `while (1) { wait 0 }`, protection on, 20 ms limit,
    clock +1 ms per reading -/
def exZero : Env := { cfg := { prot := true, maxExec := 20, maxDepth := 5 }, prog := [[.wait 0, .jmp 0]], inc := fun _ => 1 }

/-- **A loop that yields with zero delay never returns to the host — protection on or off.**
    `l0: wait 0; goto l0` (what `while (1) { wait 0 }` does, opcode filler aside), any limit, any clock
    whose single increments stay below the limit (`maxExecutionTime = 0 ∨ inc i < maxExecutionTime`: the one
    check that is ever evaluated — after the jump — compares a reading taken one increment after the
    deadline was set), started in a quiescent state with an empty timer list and `scaledTime ≤ m_time`:
    after every number of steps the host call has not returned and no exception has been raised.  Every
    `wait 0` re-times the thread as due; `ExecuteRunning`, called at the end of the same
    `ScriptExecuteInternal`, resumes it at once with a **fresh deadline**, so no activation ever reaches its
    limit.  Proof: the cycle invariant `ZW` over the seven state shapes of one round (`Unwind/ZeroWait.lean`).
    The engine behaves the same way (DESIGN.md 12.2; finite version in
    corpus/C14/zero-wait-fresh-deadline.json); this is why the class of the termination theorems excludes
    zero-delay yields. -/
theorem C14_unwind_zero_wait_never_returns (E : Env) (hprog : E.prog.getD 0 [] = [.wait 0, .jmp 0])
    (hsmall : ∀ i, E.cfg.maxExec = 0 ∨ E.inc i < E.cfg.maxExec) (s0 : St)
    (hfresh : find s0.threads s0.nextTid = none) (hd : s0.depth = 0) (hub : s0.ub = false) (hc : s0.cur = none)
    (htm : s0.timer.elems = []) (hs : s0.scaled ≤ s0.timer.mtime) (k : Nat) :
    halted (run E k (startCall E s0 0)) = false ∧ (run E k (startCall E s0 0)).exc = none := by
  have h := zw_run E hprog hsmall s0.nextTid k _ (zw_start E s0 hfresh hd hub hc htm hs)
  exact ⟨zw_not_halted h, by cases h <;> assumption⟩

/-- non-vacuity: `exZero` (protection on, 20 ms limit, clock +1) meets the hypotheses; after 300 steps the
    injected clock is far beyond the limit and the host call's frame is still on the stack -/
example : exZero.prog.getD 0 [] = [.wait 0, .jmp 0] ∧ (∀ i, exZero.cfg.maxExec = 0 ∨ exZero.inc i < exZero.cfg.maxExec) :=
  ⟨rfl, fun _ => Or.inr (by show 1 < 20; omega)⟩
set_option maxRecDepth 1000000 in
example : (run exZero 300 (startCall exZero {} 0)).now > 10 * exZero.cfg.maxExec ∧
    (run exZero 300 (startCall exZero {} 0)).stack.getLast? = some .thrExec ∧
    (run exZero 300 (startCall exZero {} 0)).threads.length = 1 := by decide

/-! ### `waitthread`: a purely positional exclusion does not suffice -/

/-- an opcode that re-times the executing thread with zero delay: `wait` (delay 0 or small), `waitthread` -/
def isYield : Op → Bool
  | .wait _ => true
  | .spawn _ true => true
  | _ => false

/-- position `i` of `code` lies inside a backward-jump cycle: some jump at a position `j ≥ i` targets `k ≤ i` -/
def inCycle (code : List Op) (i : Nat) : Bool :=
  (List.range code.length).any (fun j => decide (i ≤ j) &&
    match code.getD j .done with
    | .jmp k => decide (k ≤ i)
    | .loopTest k => decide (k ≤ i)
    | _ => false)

/-- the natural weakening of `Nest`'s exclusion: yields are allowed outside backward-jump cycles -/
def NoYieldInCycle (prog : Prog) : Bool :=
  prog.all (fun code => (List.range code.length).all (fun i => !(isYield (code.getD i .done) && inCycle code i)))

/-- `a: thread b; end` / `b: waitthread c; thread a; end` / `c: end` — no backward jump anywhere -/
def exWtRec : Env :=
  { cfg := { prot := true, maxExec := 50, maxDepth := 5 }, inc := fun _ => 1,
    prog := [[.spawn 1 false, .done], [.spawn 2 true, .spawn 0 false, .done], [.done]] }

set_option maxRecDepth 1000000 in
/-- **"No `waitthread` inside a backward-jump cycle" is not enough.**  Full statement: `exWtRec` satisfies
    `NoYieldInCycle` and `∀ k, halted (run exWtRec k (startCall exWtRec {} 0)) = false`: the re-timed `b` is resumed by
    `ExecuteRunning` inside the same host call with a fresh deadline and spawns the next `a`, whose `b` is
    re-timed in turn — a zero-delay self-resumption through the *label* graph, nesting never above 4, three
    threads alive at any time.  *Proved* (`_partial`): the predicate holds, and the host call has not returned
    after any `k ≤ 1000` steps; at step 1000 the clock shows 705 ms (limit 50 ms, protection on), no exception
    was raised, 153 threads have been created, 3 are alive, the nesting counter is 4.  *Missing* for the ∀k
    form: a cycle invariant over the ~40 shapes of one round with fresh thread ids.  Consequence: a decidable
    class that admits `waitthread` must look at the call graph (e.g. no label that contains a `waitthread`
    is reachable from the code after it); `Nest` excludes `waitthread` altogether. -/
theorem C14_unwind_waitthread_recursion_never_returns_partial :
    NoYieldInCycle exWtRec.prog = true ∧
    (∀ k, k ≤ 1000 → halted (run exWtRec k (startCall exWtRec {} 0)) = false) ∧
    (run exWtRec 1000 (startCall exWtRec {} 0)).now = 705 ∧ (run exWtRec 1000 (startCall exWtRec {} 0)).exc = none ∧
    (run exWtRec 1000 (startCall exWtRec {} 0)).nextTid = 154 ∧ (run exWtRec 1000 (startCall exWtRec {} 0)).threads.length = 3 ∧
    (run exWtRec 1000 (startCall exWtRec {} 0)).depth = 4 := by
  have hK : halted (run exWtRec 1000 (startCall exWtRec {} 0)) = false := by decide
  refine ⟨by decide, ?_, by decide, by decide, by decide, by decide, by decide⟩
  intro k hk
  cases hh : halted (run exWtRec k (startCall exWtRec {} 0)) with
  | false => rfl
  | true =>
    have := run_of_halted exWtRec (1000 - k) _ hh
    rw [← run_add, show k + (1000 - k) = 1000 by omega] at this
    rw [this, hh] at hK
    cases hK

/-! ### `wait` with a delay that is not due before the next frame (round 4) -/

/-- decidable form of `WaitOK` -/
def waitOKb (prog : Prog) (mtime scaled : Nat) : Bool :=
  prog.all (fun code => code.all (fun op => match op with | .wait ms => decide (mtime < scaled + ms) | _ => true))

theorem waitOK_of_b (E : Env) (s : St) (h : waitOKb E.prog s.timer.mtime s.scaled = true) : WaitOK E s := by
  intro l pc ms hop
  unfold waitOKb at h
  rw [List.all_eq_true] at h
  by_cases hl : l < E.prog.length
  · have hc := h (E.prog[l]) (List.getElem_mem hl)
    rw [List.all_eq_true] at hc
    have e1 : E.prog.getD l [] = E.prog[l] := by simp [List.getD, hl]
    rw [e1] at hop
    by_cases hp : pc < (E.prog[l]).length
    · have e2 : (E.prog[l]).getD pc .done = (E.prog[l])[pc] := by simp [List.getD, hp]
      rw [e2] at hop
      have := hc _ (List.getElem_mem hp)
      rw [hop] at this
      simpa using this
    · have e2 : (E.prog[l]).getD pc .done = .done := by simp [List.getD, hp]
      rw [e2] at hop; cases hop
  · have e1 : E.prog.getD l [] = [] := by simp [List.getD, hl]
    rw [e1] at hop; cases hop

/-- the late variant with a sentinel is in the class: label 0 waits 5 ms and then runs away, label 1 is the
    sentinel (`wait 9`); from the fresh state both delays are not due before the next frame -/
def exLateN : Env :=
  { cfg := { prot := true, maxExec := 3, maxDepth := 2 }, prog := [[.wait 5, .nop, .jmp 1], [.wait 9, .done]], inc := fun _ => 1 }
example : Nest exLateN.prog = true := by decide
example : WaitOK exLateN {} := waitOK_of_b _ _ (by decide)
set_option maxRecDepth 100000 in
example : halted (run exLateN 8 (startCall exLateN {} 0)) = true ∧ (run exLateN 8 (startCall exLateN {} 0)).exc = none ∧
    (run exLateN 8 (startCall exLateN {} 0)).timer.elems = [(1, 5)] ∧ dueCount (run exLateN 8 (startCall exLateN {} 0)).timer = 0 := by decide

end Morfuse.Unwind
