import MorfuseModel.Target.Model
/-! # C15 — `$name` (placeholder: theorems are being added) -/
namespace Morfuse.Target

/-- `AddListener` with `const_str::None()` is a no-op (`if (!targetName) return;`). -/
theorem C15_add_none_noop (s : State) (o : ObjId) : addListener s o 0 = s := by
  simp [addListener]

end Morfuse.Target
