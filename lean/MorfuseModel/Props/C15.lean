import MorfuseModel.Target.FanLemmas
import MorfuseModel.Target.SafeLemmas
/-!
# C15 — `$name` denotes exactly the live objects currently bearing that target name

Property theorems only (helpers: `Target/Lemmas.lean`, `Target/FanLemmas.lean`,
`Target/SafeLemmas.lean`).  Every statement is about *every* state `Reachable cfg s`, i.e. the state
after any finite sequence of script statements (`Stmt`: spawn, set/clear targetname, delete, `$name`
queries, captures, thread / command / field fan-out with handlers that rename, delete and spawn) —
no bound on the number of objects, names, statements or handler length.

`bearers s.log n` is the specification: the objects that bear name `n`, in naming order, computed
from the log of primitive events alone (`Target/Spec.lean`).  `cfg` says which code is modelled:
`{}` is the tree as found, `snapshot` / `fieldFan` are the two suggested repairs
(notes/C15-findings.md); the check detects which one the tree is and compares that one.
-/
namespace Morfuse.Target

/-! ## a concrete reachable state for the non-vacuity examples -/

/-- objects 1 and 3 named n1 (= 2) in that order, object 2 named n2 (= 3), nobody named n3 (= 4) -/
def demoStmts : List Stmt := [.act (.spawn 2), .act (.spawn 3), .act (.spawn 2)]

def demoOf (cfg : Cfg) : State :=
  match run cfg demoStmts init with
  | .ok s => s
  | .ub => init

def demo : State := demoOf {}

example : Reachable {} demo := ⟨demoStmts, rfl⟩
example : bearers demo.log 2 = [1, 3] ∧ bearers demo.log 3 = [2] ∧ bearers demo.log 4 = [] := by decide

/-! ## what the specification means -/

/-- The specification read declaratively: `o` bears `n` iff `o` has been spawned and not destroyed
    and the last name it was given is `n`; nobody bears a name twice. -/
theorem C15_bearers_iff {cfg : Cfg} {s : State} (h : Reachable cfg s) (o : ObjId) (n : Name) :
    (o ∈ bearers s.log n ↔ (aliveIn s.log o = true ∧ lastName s.log o = some n)) ∧
    (bearers s.log n).Nodup := by
  have i := h.good.inv
  refine ⟨?_, i.nodup n⟩
  rw [i.last o n, i.alive_log o]

example : (1 ∈ bearers demo.log 2 ↔ (aliveIn demo.log 1 = true ∧ lastName demo.log 1 = some 2)) ∧
    (bearers demo.log 2).Nodup := C15_bearers_iff (cfg := {}) ⟨demoStmts, rfl⟩ 1 2

/-- Naming order: a (re)naming event puts the object last under its new name; the relative order
    of everybody else is untouched (and a destruction only removes). -/
theorem C15_naming_order (log : List Ev) (o : ObjId) (n m : Name) :
    bearers (log ++ [.named o n]) m =
      (if m = n then (bearers log m).filter (· ≠ o) ++ [o] else (bearers log m).filter (· ≠ o)) ∧
    bearers (log ++ [.destroyed o]) m = (bearers log m).filter (· ≠ o) := by
  constructor <;> (rw [bearers_append]; rfl)

/-! ## `$name` -/

/-- **`$name` denotes the bearers.**  In every reachable state `OP_UN_TARGETNAME` on `n` yields
    NULL when nobody bears `n`, the object itself when exactly one does, and otherwise an array
    whose elements are exactly the bearers in naming order (a const array of listener values with
    the repair, a pointer to the table's own list — whose contents are the bearers — without). -/
theorem C15_denotes {cfg : Cfg} {s : State} (h : Reachable cfg s) (n : Name) :
    (bearers s.log n = [] ∧ evalTarget cfg s n = .obj none) ∨
    (∃ o, bearers s.log n = [o] ∧ evalTarget cfg s n = .obj (some o)) ∨
    (2 ≤ (bearers s.log n).length ∧
      ((cfg.snapshot = true ∧ evalTarget cfg s n = .arr ((bearers s.log n).map some)) ∨
       (cfg.snapshot = false ∧ ∃ l, s.tbl n = some l ∧ s.lists l = some ((bearers s.log n).map some) ∧
          evalTarget cfg s n = .cont l))) :=
  evalTarget_spec cfg h.good.inv n

/-- non-vacuity: all three kinds occur in one reachable state (tree as found: the array is the
    table's own list, entry 1) and with the repair (a copy) -/
example : evalTarget {} demo 4 = .obj none ∧ evalTarget {} demo 3 = .obj (some 2) ∧
    evalTarget {} demo 2 = .cont 1 ∧ demo.lists 1 = some [some 1, some 3] := by decide
example : evalTarget { snapshot := true } (demoOf { snapshot := true }) 2 = .arr [some 1, some 3] := by decide

/-- The same through what a script can observe: `.size` and the elements `[1] .. [size]` of `$name`
    are the number of bearers and the bearers in naming order; no element is NULL; reading them is
    never undefined. -/
theorem C15_denotes_observed {cfg : Cfg} {s : State} (h : Reachable cfg s) (n : Name) :
    (evalTarget cfg s n).size s = some ((bearers s.log n).length : Int) ∧
    (evalTarget cfg s n).elems s = some ((bearers s.log n).map some) := by
  rcases C15_denotes h n with ⟨hb, he⟩ | ⟨o, hb, he⟩ | ⟨_, ⟨_, he⟩ | ⟨_, l, _, hl, he⟩⟩
  · rw [he, hb]; exact ⟨rfl, rfl⟩
  · rw [he, hb]; exact ⟨rfl, rfl⟩
  · rw [he]; exact ⟨by simp [Value.size], rfl⟩
  · rw [he]; exact ⟨by simp [Value.size, hl], by simp [Value.elems, hl]⟩

/-- **With a Debug output stream attached** (`cfg.dbg`) a `$name` that nobody bears additionally
    raises the warning "Can't find target name" — and *still* evaluates to NULL; a name somebody
    bears raises nothing; without a Debug stream nothing is raised.  `note` is what evaluating the
    `$name` operand adds to the state (the printed warning and nothing else: the table, the lists,
    the values, the objects and the log are untouched), `evalTarget` the value the statement then
    works with; the last clause spells it out for `println $name.size` (warning, then `0`). -/
theorem C15_denotes_debug_stream {cfg : Cfg} {s : State} (h : Reachable cfg s) (n : Name) :
    note cfg s (some (.name n)) =
      (if cfg.dbg = true ∧ bearers s.log n = [] then say s "!notarget" else s) ∧
    evalTarget cfg (note cfg s (some (.name n))) n = evalTarget cfg s n ∧
    (bearers s.log n = [] → evalTarget cfg s n = .obj none) ∧
    (cfg.dbg = true → bearers s.log n = [] →
      stmt cfg s (.act (.size (.name n))) = .ok (say (say s "!notarget") "s 0")) := by
  have i := h.good.inv
  have hnil : bearers s.log n = [] → evalTarget cfg s n = .obj none := by
    intro hb
    rcases C15_denotes h n with ⟨_, he⟩ | ⟨o, hb', _⟩ | ⟨h2, _⟩
    · exact he
    · rw [hb] at hb'; cases hb'
    · rw [hb] at h2; simp at h2
  refine ⟨note_name i n, evalTarget_note cfg s _ n, hnil, ?_⟩
  intro hd hb
  have hn : note cfg s (some (.name n)) = say s "!notarget" := by
    rw [note_name i n, if_pos ⟨hd, hb⟩]
  have he : evalTarget cfg (say s "!notarget") n = .obj none := by
    rw [← hn, evalTarget_note, hnil hb]
  simp only [stmt, act, Act.src, hn, actCore, evalSrc, he, Value.size]
  rfl

/-- non-vacuity: nobody bears n3 (= 4) in `demo`; with the Debug stream the warning precedes the
    answer, without it there is none; a name with bearers never warns -/
example : ∃ s', stmt { dbg := true } (demoOf { dbg := true }) (.act (.size (.name 4))) = .ok s' ∧
    s'.out = (demoOf { dbg := true }).out ++ ["!notarget", "s 0"] := ⟨_, rfl, by decide⟩
example : ∃ s', stmt {} demo (.act (.size (.name 4))) = .ok s' ∧ s'.out = demo.out ++ ["s 0"] := ⟨_, rfl, by decide⟩
example : ∃ s', stmt { dbg := true } (demoOf { dbg := true }) (.act (.size (.name 2))) = .ok s' ∧
    s'.out = (demoOf { dbg := true }).out ++ ["s 2"] := ⟨_, rfl, by decide⟩

/-- The host-side queries agree: `GetTarget` finds the single bearer (or none, or reports how
    many), `GetTargetnameIndex` is the 1-based naming position. -/
theorem C15_host_queries {cfg : Cfg} {s : State} (h : Reachable cfg s) (n : Name) :
    getTarget s n = (match bearers s.log n with
      | [] => .none
      | [o] => .one (some o)
      | b => .multiple b.length) ∧
    ∀ o, getTargetnameIndex s o n = (match (bearers s.log n).idxOf? o with
      | some k => k + 1
      | none => 0) := by
  have i := h.good.inv
  have hl := i.refine n
  constructor
  · unfold getTarget
    cases e : s.tbl n with
    | none =>
      rw [listOf_none e] at hl
      rw [List.map_eq_nil_iff.mp hl.symm]
    | some l =>
      have hne := listOf_ne_nil i.toWf e
      simp only [hl]
      cases hb : bearers s.log n with
      | nil => rw [hl, hb] at hne; exact absurd rfl hne
      | cons a t => cases t <;> simp
  · intro o
    unfold getTargetnameIndex
    cases e : s.tbl n with
    | none =>
      rw [listOf_none e] at hl
      rw [List.map_eq_nil_iff.mp hl.symm]; rfl
    | some l =>
      simp only [hl]
      have : ((bearers s.log n).map some).idxOf? (some o) = (bearers s.log n).idxOf? o := by
        generalize bearers s.log n = b
        induction b with
        | nil => rfl
        | cons a t ih =>
          by_cases hao : a = o
          · subst hao; simp [List.idxOf?_cons]
          · simp [List.idxOf?_cons, hao, ih]
      rw [this]
      rfl

/-! ## renaming and destruction -/

/-- **Renaming moves.**  `o.targetname = n` on a live object takes `o` out of the group it was in
    and puts it last in the group of `n` (`""`/no name are the name `emptyName`); every other
    object stays where it was, in the same order; groups other than the old and the new one are
    unchanged.  The new state is reachable, so `C15_denotes` applies to it. -/
theorem C15_rename_moves {cfg : Cfg} {s : State} (h : Reachable cfg s) {o : ObjId}
    (ho : s.alive o = true) (n : Name) :
    stmt cfg s (.act (.setName (.obj o) n)) = .ok (setTargetName s o n) ∧
    Reachable cfg (setTargetName s o n) ∧
    (∀ m, bearers (setTargetName s o n).log m =
      if m = normName n then (bearers s.log m).filter (· ≠ o) ++ [o] else (bearers s.log m).filter (· ≠ o)) ∧
    (∀ m, m ≠ normName n → m ≠ s.comp o → bearers (setTargetName s o n).log m = bearers s.log m) ∧
    (∀ m, m ≠ normName n → o ∉ bearers (setTargetName s o n).log m) := by
  have i := h.good.inv
  have hst : stmt cfg s (.act (.setName (.obj o) n)) = .ok (setTargetName s o n) := by
    have : ¬ s.nextObj ≤ o := Nat.not_le.mpr (i.alive_lt o ho)
    simp [stmt, act, actCore, Act.src, note, resolve, this, ho]
  have hb : ∀ m, bearers (setTargetName s o n).log m =
      if m = normName n then (bearers s.log m).filter (· ≠ o) ++ [o] else (bearers s.log m).filter (· ≠ o) := by
    intro m; rw [(setTargetName_fields s o n).2.2.2.1, bearers_append]; rfl
  refine ⟨hst, h.step hst, hb, ?_, ?_⟩
  · intro m h1 h2
    rw [hb, if_neg h1]
    exact filter_ne_of_not_mem (fun hm => h2 (i.bearer m o hm).2.1.symm)
  · intro m h1 hm
    rw [hb, if_neg h1] at hm
    exact (mem_filter_ne.mp hm).2 rfl

/-- non-vacuity: object 1 (first of n1) renamed to n2 goes last in n2; n1 keeps 3 -/
example : demo.alive 1 = true ∧ bearers (setTargetName demo 1 3).log 3 = [2, 1] ∧
    bearers (setTargetName demo 1 3).log 2 = [3] := by decide

/-- **Destroying removes.**  `o remove` / `delete` on a live object removes `o` from the group of
    its name and from no other group (it is in no other); every other object stays, in order; `o`
    is dead afterwards and bears nothing. -/
theorem C15_remove_removes {cfg : Cfg} {s : State} (h : Reachable cfg s) {o : ObjId}
    (ho : s.alive o = true) :
    stmt cfg s (.act (.delete (.obj o))) = .ok (destroy s o) ∧
    Reachable cfg (destroy s o) ∧
    (∀ m, bearers (destroy s o).log m = (bearers s.log m).filter (· ≠ o)) ∧
    (∀ m, m ≠ s.comp o → bearers (destroy s o).log m = bearers s.log m) ∧
    (destroy s o).alive o = false ∧ (∀ x, x ≠ o → (destroy s o).alive x = s.alive x) := by
  have i := h.good.inv
  have hst : stmt cfg s (.act (.delete (.obj o))) = .ok (destroy s o) := by
    have : ¬ s.nextObj ≤ o := Nat.not_le.mpr (i.alive_lt o ho)
    simp [stmt, act, actCore, Act.src, note, resolve, this, ho]
  have hb : ∀ m, bearers (destroy s o).log m = (bearers s.log m).filter (· ≠ o) := by
    intro m; rw [(destroy_fields s o).2.2.2.1, bearers_append]; rfl
  refine ⟨hst, h.step hst, hb, ?_, ?_, ?_⟩
  · intro m h2
    rw [hb]
    exact filter_ne_of_not_mem (fun hm => h2 (i.bearer m o hm).2.1.symm)
  · rw [(destroy_fields s o).1]; simp
  · intro x hx; rw [(destroy_fields s o).1, upd_other _ _ hx]

/-- non-vacuity -/
example : demo.alive 3 = true ∧ bearers (destroy demo 3).log 2 = [1] ∧ bearers (destroy demo 3).log 3 = [2] := by
  decide

/-! ## fan-out -/

/-- the three ways a command is applied to a group: a thread per member (`src thread handler`,
    any handler), the `targetname` command, `remove` -/
inductive IsFan (src : Src) : Stmt → Prop
  | thread (h : List Act) : IsFan src (.fan src h)
  | rename (n : Name) : IsFan src (.fanName src n)
  | delete : IsFan src (.fanDelete src)

/-- **A command applied to `$name` reaches every member exactly once** — stated exactly as the copy
    semantics of `ExecCmdMethodCommon` gives it, for every handler (handlers may rename, delete and
    spawn objects, members included).  `visits seg` is the sequence of objects the command was
    executed on.  It is duplicate-free and a subsequence of the bearers of `n` *at the moment the
    statement started* (so: nobody twice, nobody who was not a bearer then — objects that join the
    group during the fan-out are not reached, members renamed away by an earlier handler still
    are, in the original naming order), and every bearer that is not reached is dead at the end
    (it was destroyed by an earlier handler before its turn). -/
theorem C15_fanout_once {cfg : Cfg} {s s' : State} (h : Reachable cfg s) {n : Name} {st : Stmt}
    (hf : IsFan (.name n) st) (hok : stmt cfg s st = .ok s') :
    ∃ seg, s'.log = s.log ++ seg ∧ (visits seg).Nodup ∧ (visits seg).Sublist (bearers s.log n) ∧
      (∀ o ∈ bearers s.log n, o ∈ visits seg ∨ s'.alive o = false) := by
  obtain ⟨run, hrun, hst⟩ : ∃ run : State → ObjId → Res, (∀ s o s', run s o = .ok s' → Ext s s') ∧
      stmt cfg s st = fanOut cfg (note cfg s (some (.name n))) (.name n) run := by
    cases hf with
    | thread hd => exact ⟨fun st o => acts cfg (some o) hd st, fun s o s' e => acts_ext hd e, rfl⟩
    | rename m => exact ⟨fun st o => .ok (setTargetName st o m), fun s o s' e => by cases e; exact setTargetName_ext _ _ _, rfl⟩
    | delete => exact ⟨fun st o => .ok (destroy st o), fun s o s' e => by cases e; exact destroy_ext _ _, rfl⟩
  rw [hst] at hok
  have key := fanOut_once_core (note_good cfg h.good _) hrun hok
  rw [(note_fields cfg s _).1] at key
  exact key

/-- non-vacuity: `$n1 thread h` where `h` deletes object 3: object 1 is reached, object 3 is dead
    before its turn and is skipped; with a handler that renames `self` away both are reached -/
example : ∃ s', stmt {} demo (.fan (.name 2) [.hello, .delete (.obj 3)]) = .ok s' ∧
    visits (s'.log.drop demo.log.length) = [1] ∧ s'.alive 3 = false := ⟨_, rfl, by decide, by decide⟩
example : ∃ s', stmt {} demo (.fan (.name 2) [.setName .self 4]) = .ok s' ∧
    visits (s'.log.drop demo.log.length) = [1, 3] ∧ bearers s'.log 4 = [1, 3] := ⟨_, rfl, by decide, by decide⟩

/-- When no handler destroys an object other than its own `self` — the `targetname` command,
    `remove` applied to the group, any thread handler whose only deletions are `self remove` — the
    command is executed on *all* bearers, each exactly once, in naming order. -/
theorem C15_fanout_all_when_only_self_deleted {cfg : Cfg} {s s' : State} (h : Reachable cfg s) {n : Name}
    {st : Stmt}
    (hf : (∃ m, st = .fanName (.name n) m) ∨ st = .fanDelete (.name n) ∨
      (∃ hd, st = .fan (.name n) hd ∧ ∀ a ∈ hd, a.selfDeleteOnly = true))
    (hok : stmt cfg s st = .ok s') :
    ∃ seg, s'.log = s.log ++ seg ∧ visits seg = bearers s.log n := by
  obtain ⟨run, hrun, hst⟩ : ∃ run : State → ObjId → Res, (∀ s o s', run s o = .ok s' → KeepBut o s s') ∧
      stmt cfg s st = fanOut cfg (note cfg s (some (.name n))) (.name n) run := by
    rcases hf with ⟨m, rfl⟩ | rfl | ⟨hd, rfl, hnd⟩
    · exact ⟨fun st o => .ok (setTargetName st o m),
        fun s o s' e => by cases e; exact (setTargetName_keep _ _ _).keepBut o, rfl⟩
    · exact ⟨fun st o => .ok (destroy st o), fun s o s' e => by cases e; exact destroy_keepBut _ _, rfl⟩
    · exact ⟨fun st o => acts cfg (some o) hd st, fun s o s' e => acts_keepBut hd hnd e, rfl⟩
  rw [hst] at hok
  have key := fanOut_all_core (note_good cfg h.good _) hrun hok
  rw [(note_fields cfg s _).1] at key
  exact key

example : ∃ s', stmt {} demo (.fanName (.name 2) 3) = .ok s' ∧
    visits (s'.log.drop demo.log.length) = [1, 3] ∧ bearers s'.log 3 = [2, 1, 3] := ⟨_, rfl, by decide, by decide⟩
/-- `$n1 remove`: both members are reached although the table's list shrinks under the loop -/
example : ∃ s', stmt {} demo (.fanDelete (.name 2)) = .ok s' ∧
    visits (s'.log.drop demo.log.length) = [1, 3] ∧ bearers s'.log 2 = [] ∧ s'.alive 1 = false ∧ s'.alive 3 = false :=
  ⟨_, rfl, by decide, by decide, by decide, by decide⟩

/-- **Field assignment, with the repair.**  `$name.fld = x` assigns the field on every bearer,
    each exactly once, in naming order, and on nobody else. -/
theorem C15_fanout_once_field {cfg : Cfg} (hfix : cfg.fieldFan = true) {s s' : State} (h : Reachable cfg s)
    {n : Name} {x : Nat} (hok : stmt cfg s (.fieldSet (.name n) x) = .ok s') :
    (∃ seg, s'.log = s.log ++ seg ∧ visits seg = bearers s.log n) ∧
    (∀ o, s'.fld o = if o ∈ bearers s.log n then x else s.fld o) := by
  have hst : stmt cfg s (.fieldSet (.name n) x) = fieldSet cfg (note cfg s (some (.name n))) (.name n) x := rfl
  rw [hst] at hok
  have key := fieldSet_fan_core hfix (note_good cfg h.good _) hok
  rw [(note_fields cfg s _).1, (note_fields cfg s _).2.2.2.2.2.2.1] at key
  exact key

example : ∃ s', stmt { fieldFan := true } (demoOf { fieldFan := true }) (.fieldSet (.name 2) 7) = .ok s' ∧
    s'.fld 1 = 7 ∧ s'.fld 3 = 7 ∧ s'.fld 2 = 0 := ⟨_, rfl, by decide, by decide, by decide⟩

/-- **Field assignment, tree as found — the clause fails.**  With two (or more) bearers
    `$name.fld = x` is rejected (`Cannot cast 'array' to 'listener'`): nothing is assigned, nobody
    is reached.  This is the negation of the property's "field assignments applied to `$name` reach
    every object of the group" on every such state; concrete witness in the `example` below and in
    notes/C15-findings.md (F2), replayed on the real code by the check. -/
theorem C15_fanout_field_fails_unrepaired {cfg : Cfg} (hraw : cfg.fieldFan = false) {s : State}
    (h : Reachable cfg s) {n : Name} (h2 : 2 ≤ (bearers s.log n).length) (x : Nat) :
    stmt cfg s (.fieldSet (.name n) x) = .ok (say s "!cast") := by
  have i := h.good.inv
  have hn : note cfg s (some (.name n)) = s := by
    rw [note_name i n, if_neg]
    intro hc; rw [hc.2] at h2; simp at h2
  rcases evalTarget_spec cfg i n with ⟨hb, _⟩ | ⟨o, hb, _⟩ | ⟨_, ⟨_, he⟩ | ⟨_, l, _, _, he⟩⟩
  · rw [hb] at h2; simp at h2
  · rw [hb] at h2; simp at h2
  · simp [stmt, hn, fieldSet, evalSrc, he, hraw]
  · simp [stmt, hn, fieldSet, evalSrc, he, hraw]

/-- the witness: two objects bear n1, `$n1.fld = 7` reaches neither -/
example : 2 ≤ (bearers demo.log 2).length ∧
    (∃ s', stmt {} demo (.fieldSet (.name 2) 7) = .ok s' ∧ s'.fld 1 = 0 ∧ s'.fld 3 = 0 ∧ visits (s'.log.drop demo.log.length) = []) :=
  ⟨by decide, _, rfl, by decide, by decide, by decide⟩

/-! ## setter-backed fields (`$name.target = v`, `$name.targetname = n`) -/

/-- **A setter-backed field assignment applied to `$name` reaches every member of the snapshot exactly
    once** (with the repair `cfg.fieldFan`, i.e. the tree since the group path of `OP_LOAD_FIELD_VAR`
    exists): the setter event is processed on all bearers of `n` as of the start of the statement, each
    exactly once, in naming order — also for `targetname`, whose setter takes every member OUT of the
    group `n` while the loop runs (the loop walks the copy, not the table's list). -/
theorem C15_setter_fanout_once {cfg : Cfg} (hfix : cfg.fieldFan = true) {s s' : State} (h : Reachable cfg s)
    {n : Name} {f : Setter} (hok : stmt cfg s (.fieldSetter (.name n) f) = .ok s') :
    ∃ seg, s'.log = s.log ++ seg ∧ visits seg = bearers s.log n := by
  have hst : stmt cfg s (.fieldSetter (.name n) f) = fieldSetter cfg (note cfg s (some (.name n))) (.name n) f := rfl
  rw [hst] at hok
  have key := fieldSetter_visits_core hfix (note_good cfg h.good _) hok
  rw [(note_fields cfg s _).1] at key
  exact key

/-- **… with the SAME value.**  `$name.target = x`: afterwards exactly the bearers of `n` have target
    `x` — the first member and every later one alike (`executeSetter` copies the stack top into the
    event, `loadStoreTop` leaves it in place for the next member) — and nobody else's target changed. -/
theorem C15_setter_fanout_same_value {cfg : Cfg} (hfix : cfg.fieldFan = true) {s s' : State} (h : Reachable cfg s)
    {n : Name} {x : Nat} (hok : stmt cfg s (.fieldSetter (.name n) (.target x)) = .ok s') :
    ∀ o, s'.tgt o = if o ∈ bearers s.log n then x else s.tgt o := by
  have hst : stmt cfg s (.fieldSetter (.name n) (.target x)) =
      fieldSetter cfg (note cfg s (some (.name n))) (.name n) (.target x) := rfl
  rw [hst] at hok
  have key := fieldSetter_target_core hfix (note_good cfg h.good _) hok
  rw [(note_fields cfg s _).1, note_tgt] at key
  exact key

/-- **`src.targetname = m` is the `targetname` command.**  With the repair the field path dispatches
    exactly like `ExecCmdMethodCommon` (same error answers, same single-listener case, same loop over the
    copy) and every member's setter receives the one name `m`: the statement has the same outcome as
    `src targetname m`, for every source and every state.  Hence `C15_fanout_once`,
    `C15_fanout_all_when_only_self_deleted` and `C15_rename_moves` (member by member) speak about it. -/
theorem C15_setter_targetname_is_command {cfg : Cfg} (hfix : cfg.fieldFan = true) (s : State) (src : Src) (m : Name) :
    stmt cfg s (.fieldSetter src (.name m)) = stmt cfg s (.fanName src m) := by
  have h1 : stmt cfg s (.fieldSetter src (.name m)) = fieldSetter cfg (note cfg s (some src)) src (.name m) := rfl
  have h2 : stmt cfg s (.fanName src m) =
      fanOut cfg (note cfg s (some src)) src (fun st o => .ok (setTargetName st o m)) := rfl
  rw [h1, h2, fieldSetter_eq_fanOut hfix]
  rfl

/-- non-vacuity: objects 1 and 3 bear n1, object 2 bears n2.  `$n1.target = "t7"` reaches 1 and 3 with 7;
    `$n1.targetname = "n2"` moves both, in order, behind object 2 and empties n1 -/
example : ∃ s', stmt { fieldFan := true } (demoOf { fieldFan := true }) (.fieldSetter (.name 2) (.target 7)) = .ok s' ∧
    s'.tgt 1 = 7 ∧ s'.tgt 3 = 7 ∧ s'.tgt 2 = 0 ∧ visits (s'.log.drop (demoOf { fieldFan := true }).log.length) = [1, 3] :=
  ⟨_, rfl, by decide, by decide, by decide, by decide⟩
example : ∃ s', stmt { fieldFan := true } (demoOf { fieldFan := true }) (.fieldSetter (.name 2) (.name 3)) = .ok s' ∧
    visits (s'.log.drop (demoOf { fieldFan := true }).log.length) = [1, 3] ∧ bearers s'.log 3 = [2, 1, 3] ∧ bearers s'.log 2 = [] :=
  ⟨_, rfl, by decide, by decide, by decide⟩

/-! ## captured values -/

/-- **A captured `$name` value never refers to a deleted list — with the repair.**  When
    `OP_UN_TARGETNAME` hands out a copy of the references (`cfg.snapshot`), no sequence of
    statements whatsoever reaches undefined behaviour: every run completes. -/
theorem C15_captured_value_safe {cfg : Cfg} (hfix : cfg.snapshot = true) (l : List Stmt) :
    ∃ s, run cfg l init = .ok s := by
  obtain ⟨s, e, _⟩ := run_safe hfix l (s := init) (fun _ => trivial)
  exact ⟨s, e⟩

/-- the shortest history on which the tree as found reads through a freed table entry (D16) -/
def d16Witness : List Stmt :=
  [.act (.spawn 2), .act (.spawn 2), .act (.capture 1 2), .act (.delete (.obj 1)), .act (.delete (.obj 2)),
   .act (.size (.val 1))]

/-- **Tree as found — the clause fails.**  A variable that captured `$n1` while two objects bore
    the name holds a pointer to the list inside the table entry; when both objects are gone the
    entry has been freed and reading the variable's `.size` is undefined behaviour.  Replayed on
    the real code under ASan + H2 by the check (use-after-poison in `ScriptVariable::size`). -/
theorem C15_captured_value_unsafe_unrepaired : run {} d16Witness init = .ub := by
  rfl

/-- the same history is safe with the repair -/
example : ∃ s, run { snapshot := true } d16Witness init = .ok s := C15_captured_value_safe rfl _

/-- Weak references held by script values (a captured single object, the elements of a captured
    array) never designate a destroyed object, in every reachable state of either variant. -/
theorem C15_value_refs_live {cfg : Cfg} {s : State} (h : Reachable cfg s) (v : Nat) :
    (s.vals v).live s.alive := h.good.vals v

end Morfuse.Target
