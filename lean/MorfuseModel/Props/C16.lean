import MorfuseModel.Dispatch.Lemmas
/-!
# C16 — commands reach the most-derived handler for the receiver's class

Property theorems only (helpers are in `Dispatch/Lemmas.lean`, the specification `Nearest` /
`ownDecl` / `key` in `Dispatch/Spec.lean`).  Every statement is about every state reachable from
the empty registry by ANY finite sequence of legal operations (`newEvent`, `newClass`,
`initEvents`, `setFilter`): no bound on the number of events, classes, declarations, rebuilds, the
depth of the hierarchy or the order in which parents and children are registered.
`s.built = true` says the tables were built (`EventSystem::InitEvents`) after the last
registration — the only situation in which the C++ may dispatch at all.
-/
namespace Morfuse.Dispatch

/-- what each entry point answers when no handler may run -/
def unsupported : Entry → Outcome
  | .script => .failed      -- `ListenerErrors::EventListenerFailed`
  | .ret => .silent         -- `ProcessEventReturn` returns a nil value
  | .proc => .retFalse      -- `ProcessEvent` returns false

/-- what each entry point answers for a name / kind nothing declares -/
def unknownCmd : Entry → Outcome
  | .script => .notFound    -- `ListenerErrors::EventNotFound`
  | .ret => .silent
  | .proc => .retFalse

/-- what each entry point answers for a command whose namespace is filtered out -/
def filteredOut : Entry → Outcome
  | .script => .notFound
  | .ret => .notFound
  | .proc => .retFalse

/-- **Nearest declaration.**  After a build, for every registered class `c` and every event number
    `n`, `ClassDef::GetResponse` answers exactly the declaration of the nearest class in `c`'s
    inheritance chain that declares one for `n` (the last such entry of that class's
    `Responses[]`; a null handler switches the command off; no declaring ancestor: no handler). -/
theorem C16_lookup_is_nearest_declaration {s : State} {c : Nat} {cd : ClsObj} (h : Reachable s)
    (hb : s.built = true) (hc : clsAt s.reg c = some cd) (n : Nat) :
    Nearest s.reg n c (getResponse s c n) ∧ ∀ r, Nearest s.reg n c r → r = getResponse s c n := by
  have := (built_of h hb).nearest hc n
  exact ⟨this, fun r hr => hr.unique this⟩

/-- **One slot per (name, kind).**  Two event objects carry the same number — the index of the
    handler slot in every class's table — exactly when they have the same case-folded name and
    the same kind: distinct (name, kind) pairs never share a slot, spellings of one command
    always do. -/
theorem C16_slots_injective {s : State} (h : Reachable s) {e1 e2 : EvObj} (h1 : e1 ∈ s.reg.evs)
    (h2 : e2 ∈ s.reg.evs) : e1.num = e2.num ↔ (fold e1.name = fold e2.name ∧ e1.kind = e2.kind) := by
  rw [(reachable_inv h).ev.num_eq_iff h1 h2]
  simp [key, Prod.ext_iff]

/-- Every slot a class declaration writes to lies inside the table `BuildResponseList` allocated
    (`1 ≤ number ≤ numEvents`): no write outside the array. -/
theorem C16_slots_in_range {s : State} (h : Reachable s) (hb : s.built = true) {cd : ClsObj}
    (hc : cd ∈ s.reg.clss) {d : Decl} (hd : d ∈ cd.decls) :
    1 ≤ evNum s.reg d.ev ∧ evNum s.reg d.ev ≤ s.es.numEvents := by
  have B := built_of h hb
  have hde := B.inv.decl cd hc d hd
  have : ∃ e, evAt s.reg d.ev = some e := by
    unfold evAt
    have h0 : d.ev ≠ 0 := by omega
    simp only [h0, if_false]
    exact ⟨s.reg.evs[d.ev - 1]'(by omega), List.getElem?_eq_getElem _⟩
  obtain ⟨e, he⟩ := this
  have hr := B.inv.ev.range (evAt_mem he)
  simp only [evNum, he, B.numEvents]
  exact hr

/-- **Case-insensitive names.**  Two spellings of a name resolve to the same number and the same
    outcome, for every class, kind and entry point (no hypothesis on the state). -/
theorem C16_case_insensitive (s : State) {a b : Name} (hab : fold a = fold b) (en : Entry) (c : Nat) (k : Kind) :
    findNum s a k = findNum s b k ∧ invoke s en c a k = invoke s en c b k := by
  have : findNum s a k = findNum s b k := by
    simp only [findNum, constName, findKeyIndex_congr hab]
  exact ⟨this, by cases en <;> simp only [invoke, this]⟩

/-- … and a declared command is found under any spelling: the name-based look-up
    (`Find<Kind>EventNum(const rawchar_t*)`) answers the number of the event declared with that
    kind, whatever the case of either spelling. -/
theorem C16_declared_name_resolves {s : State} (h : Reachable s) (hb : s.built = true) {e : EvObj}
    (he : e ∈ s.reg.evs) (hk : e.kind ≠ .none) {name : Name} (hn : fold name = fold e.name) :
    findNum s name e.kind = e.num ∧ 1 ≤ e.num :=
  ⟨(built_of h hb).findNum_declared he hk hn, ((reachable_inv h).ev.range he).1⟩

/-- **Most-derived handler.**  Invoking a declared command (any spelling) whose namespace is
    allowed on an instance of a registered class `c` runs exactly the handler of the nearest
    declaration in `c`'s chain; when the chain declares none (or switches it off) the call is
    rejected as unsupported.  `d` is the command's registered definition (first registrant). -/
theorem C16_invoke_runs_nearest {s : State} {c : Nat} {cd : ClsObj} (h : Reachable s) (hb : s.built = true)
    (hc : clsAt s.reg c = some cd) {e d : EvObj} (he : e ∈ s.reg.evs) (hk : e.kind ≠ .none)
    {name : Name} (hn : fold name = fold e.name)
    (hd : d ∈ s.reg.evs) (hdl : d.linked = true) (hdn : d.num = e.num) (hal : nsAllowed s d.ns = true)
    {r : Option (Nat × Nat)} (hr : Nearest s.reg e.num c r) (en : Entry) :
    invoke s en c name e.kind = match r with
      | some (dc, di) => .ran dc di
      | none => unsupported en := by
  have B := built_of h hb
  have hnum := B.findNum_declared he hk hn
  obtain ⟨d', hg, hd', hn', _, _⟩ := B.getEventDef he
  have hdd : d' = d := B.inv.ev.linked_unique hd' (List.mem_filter.2 ⟨hd, by simpa using hdl⟩) (by omega)
  subst hdd
  have h0 : e.num ≠ 0 := by have := (B.inv.ev.range he).1; omega
  have hresp : getResponse s c e.num = r := (hr.unique (B.nearest hc e.num)).symm
  cases en <;> simp only [invoke, hnum, processScriptEvent, processEventReturn, processEvent, h0, if_false, hg,
    hal, not_true_eq_false, hresp] <;> (cases r with
    | none => rfl
    | some x => rfl)

/-- **Unsupported is rejected.**  A name / kind that no event declares is rejected by every entry
    point, for every class: no handler runs. -/
theorem C16_unsupported_rejected {s : State} (h : Reachable s) (hb : s.built = true) {name : Name} {k : Kind}
    (hno : ∀ e ∈ s.reg.evs, ¬ (fold e.name = fold name ∧ e.kind = k)) (en : Entry) (c : Nat) :
    invoke s en c name k = unknownCmd en := by
  have B := built_of h hb
  have : findNum s name k = 0 := B.findNum_undeclared (fun e he hk => hno e he (by simpa [key, Prod.ext_iff] using hk))
  cases en <;> simp [invoke, this, processScriptEvent, processEventReturn, processEvent, unknownCmd]

/-- **Filtered namespace.**  A declared command whose registered definition lives in a namespace
    the filter excludes is rejected for EVERY class (registered or not) by every entry point,
    even when the class or an ancestor declares a handler for it. -/
theorem C16_filtered_rejected_for_every_class {s : State} (h : Reachable s) (hb : s.built = true)
    {e d : EvObj} (he : e ∈ s.reg.evs) (hk : e.kind ≠ .none) {name : Name} (hn : fold name = fold e.name)
    (hd : d ∈ s.reg.evs) (hdl : d.linked = true) (hdn : d.num = e.num) (hal : nsAllowed s d.ns = false)
    (en : Entry) (c : Nat) : invoke s en c name e.kind = filteredOut en := by
  have B := built_of h hb
  have hnum := B.findNum_declared he hk hn
  obtain ⟨d', hg, hd', hn', _, _⟩ := B.getEventDef he
  have hdd : d' = d := B.inv.ev.linked_unique hd' (List.mem_filter.2 ⟨hd, by simpa using hdl⟩) (by omega)
  subst hdd
  have h0 : e.num ≠ 0 := by have := (B.inv.ev.range he).1; omega
  cases en <;> simp [invoke, hnum, processScriptEvent, processEventReturn, processEvent, h0, hg, hal, filteredOut]

/-- No dispatch of a command resolved by name ever dereferences a null pointer (`GetEventDef`
    answers a definition for every number a name resolves to; every registered class has a table). -/
theorem C16_invoke_never_crashes {s : State} {c : Nat} {cd : ClsObj} (h : Reachable s) (hb : s.built = true)
    (hc : clsAt s.reg c = some cd) (en : Entry) (name : Name) (k : Kind) : invoke s en c name k ≠ .crash := by
  have B := built_of h hb
  by_cases hex : ∃ e ∈ s.reg.evs, fold e.name = fold name ∧ e.kind = k
  · obtain ⟨e, he, hn, rfl⟩ := hex
    by_cases hk : e.kind = .none
    · have : findNum s name e.kind = 0 := by simp [findNum, infoNum, hk, ES.info]
      cases en <;> simp [invoke, this, processScriptEvent, processEventReturn, processEvent]
    · obtain ⟨d, hg, hd', hn', _, _⟩ := B.getEventDef he
      have hdm := List.mem_filter.1 hd'
      by_cases hal : nsAllowed s d.ns = true
      · have hN := B.nearest hc e.num
        generalize getResponse s c e.num = r at hN
        rw [C16_invoke_runs_nearest h hb hc he hk hn.symm hdm.1 (by simpa using hdm.2) hn' hal hN en]
        cases r with
        | none => cases en <;> simp [unsupported]
        | some x => simp
      · rw [C16_filtered_rejected_for_every_class h hb he hk hn.symm hdm.1 (by simpa using hdm.2) hn'
          (by simpa using hal) en c]
        cases en <;> simp [filteredOut]
  · rw [C16_unsupported_rejected h hb (fun e he hk => hex ⟨e, he, hk⟩) en c]
    cases en <;> simp [unknownCmd]

/-! ### the index-based look-ups (`FindEventInfo(eventName_t)`, used by the compiler for
`level.` / `local.` / `group.` / `parm.` fields, by spawn arguments and by `commanddelay`)

Full statement of this clause: *for every declared command, in any spelling,
`FindEventInfo(GetEventConstName(name))` succeeds and `Find<Kind>EventNum(index)` answers what
`Find<Kind>EventNum(name)` answers.*  Whether it holds depends on one comparison operator in
`EventSystem::FindEventInfo`, which the check reads from the source on every run
(`Gen.findEventInfoInclusive`).  With `<=` the clause is `C16_index_lookup_complete`; with the `<`
the source has today it is false (`C16_index_lookup_refuses_last` is a reachable counterexample,
defect D17) and only `C16_index_lookup_partial` remains: every index except the last one. -/

/-- every index below the last one of the name table is served by the index-based look-ups
    (missing for the full clause: the last index, see above) -/
theorem C16_index_lookup_partial (s : State) {idx : Nat} (h0 : 0 < idx) (h1 : idx < s.es.names.length) (k : Kind) :
    findEventInfoOk s idx = true ∧ findNumByIndex s idx k = infoNum s idx k := by
  have : findEventInfoOk s idx = true := by
    unfold findEventInfoOk
    cases Gen.findEventInfoInclusive <;> simp <;> omega
  exact ⟨this, by simp [findNumByIndex, this]⟩

/-- with `s <= eventDefName.size()` in the source, the clause holds in full -/
theorem C16_index_lookup_complete (hfix : Gen.findEventInfoInclusive = true) {s : State} (h : Reachable s)
    (hb : s.built = true) {e : EvObj} (he : e ∈ s.reg.evs) {name : Name} (hn : fold name = fold e.name) (k : Kind) :
    findEventInfoOk s (constName s name) = true ∧ findNumByIndex s (constName s name) k = findNum s name k := by
  have hc := (built_of h hb).constName_ne_zero he hn
  have : findEventInfoOk s (constName s name) = true := by
    unfold findEventInfoOk
    simp only [hfix, if_true, decide_eq_true_eq]
    omega
  exact ⟨this, by simp [findNumByIndex, this, findNum]⟩

/-- registry of the counterexample: one command `a`, one class that declares a handler for it -/
def d17Ops : List Op := [.newEvent [97] .normal 0, .newClass 0 0 [⟨1, true⟩], .initEvents]

/-- with `s < eventDefName.size()` (the source today) the clause is FALSE: in this reachable state
    the only command is declared, resolves by name to number 1, class 1 declares its handler —
    and the index-based look-up answers 0, so `commanddelay 0 a` posts nothing (D17). -/
theorem C16_index_lookup_refuses_last (hcur : Gen.findEventInfoInclusive = false) :
    ∃ s, Reachable s ∧ s.built = true ∧ findNum s [97] .normal = 1 ∧
      Nearest s.reg 1 1 (some (1, 0)) ∧
      findEventInfoOk s (constName s [97]) = false ∧ findNumByIndex s (constName s [97]) .normal = 0 ∧
      commandDelay s 1 [97] = (0, none) := by
  refine ⟨(run init d17Ops).get (by decide), ⟨d17Ops, by simp⟩, by decide, by decide, ?_, ?_, ?_, ?_⟩
  · exact Nearest.own (cd := ⟨0, 0, [⟨1, true⟩]⟩) (by decide) (by decide)
  · have : constName ((run init d17Ops).get (by decide)) [97] = 1 := by decide
    have hl : ((run init d17Ops).get (by decide)).es.names.length = 1 := by decide
    simp [findEventInfoOk, this, hl, hcur]
  · have : constName ((run init d17Ops).get (by decide)) [97] = 1 := by decide
    have hl : ((run init d17Ops).get (by decide)).es.names.length = 1 := by decide
    simp [findNumByIndex, findEventInfoOk, this, hl, hcur]
  · have : constName ((run init d17Ops).get (by decide)) [97] = 1 := by decide
    have hl : ((run init d17Ops).get (by decide)).es.names.length = 1 := by decide
    simp [commandDelay, findEventInfoOk, this, hl, hcur]

/-- `commanddelay <t> <command>` delivers a declared, allowed statement command to the nearest
    handler of the receiver's class — PROVIDED the index-based look-up serves the command's name
    index (hypothesis `hidx`).  Missing for the full statement: `hidx` fails for the last index of
    the name table while the source compares with `<` (D17); `C16_commanddelay_fixed` discharges
    it for the repaired comparison. -/
theorem C16_commanddelay_partial {s : State} {c : Nat} {cd : ClsObj} (h : Reachable s) (hb : s.built = true)
    (hc : clsAt s.reg c = some cd) {e d : EvObj} (he : e ∈ s.reg.evs) (hk : e.kind = .normal)
    {name : Name} (hn : fold name = fold e.name)
    (hd : d ∈ s.reg.evs) (hdl : d.linked = true) (hdn : d.num = e.num) (hal : nsAllowed s d.ns = true)
    {dc di : Nat} (hr : Nearest s.reg e.num c (some (dc, di)))
    (hidx : findEventInfoOk s (constName s name) = true) :
    commandDelay s c name = (e.num, some (.ran dc di)) := by
  have B := built_of h hb
  have hk' : e.kind ≠ .none := by simp [hk]
  have hnum := B.findNum_declared he hk' hn
  rw [hk] at hnum
  have h0 : e.num ≠ 0 := by have := (B.inv.ev.range he).1; omega
  have hresp : getResponse s c e.num = some (dc, di) := (hr.unique (B.nearest hc e.num)).symm
  have hinv := C16_invoke_runs_nearest h hb hc he hk' hn hd hdl hdn hal hr .proc
  simp only [invoke, hk, hnum] at hinv
  have hi : infoNum s (constName s name) .normal = e.num := hnum
  simp [commandDelay, hidx, hi, h0, hresp, hinv]

theorem C16_commanddelay_fixed (hfix : Gen.findEventInfoInclusive = true) {s : State} {c : Nat} {cd : ClsObj}
    (h : Reachable s) (hb : s.built = true)
    (hc : clsAt s.reg c = some cd) {e d : EvObj} (he : e ∈ s.reg.evs) (hk : e.kind = .normal)
    {name : Name} (hn : fold name = fold e.name)
    (hd : d ∈ s.reg.evs) (hdl : d.linked = true) (hdn : d.num = e.num) (hal : nsAllowed s d.ns = true)
    {dc di : Nat} (hr : Nearest s.reg e.num c (some (dc, di))) :
    commandDelay s c name = (e.num, some (.ran dc di)) :=
  C16_commanddelay_partial h hb hc he hk hn hd hdl hdn hal hr (C16_index_lookup_complete hfix h hb he hn .normal).1

/-! ### non-vacuity: a concrete reachable registry that meets the hypotheses

events: 1 `ab` statement; 2 `AB` statement (a duplicate in another spelling: shares number 1);
3 `ab` getter in namespace 2 (number 2); 4 `cd` statement (number 3).
classes: 1 (parent 2, registered BEFORE its parent) declares the getter; 2 (root) declares `ab` and
`cd`; 3 (parent 1) switches `ab` off with a null handler.  Filter: exclude namespace 2. -/

def demoOps : List Op :=
  [.newEvent [97, 98] .normal 0, .newEvent [65, 66] .normal 1, .newEvent [97, 98] .getter 2, .newEvent [99, 100] .normal 0,
   .newClass 2 0 [⟨3, true⟩], .newClass 0 0 [⟨1, true⟩, ⟨4, true⟩], .newClass 1 0 [⟨2, false⟩],
   .initEvents, .setFilter 2 [2]]

def demo : State := (run init demoOps).get (by decide)

theorem demo_reachable : Reachable demo := ⟨demoOps, by simp [demo]⟩

example : demo.built = true ∧ (demo.reg.evs.map (·.num)) = [1, 1, 2, 3] ∧ demo.es.numEvents = 3 := by decide

-- class 1 inherits `ab` from its (later registered) parent 2; class 3 has it switched off
example : getResponse demo 1 1 = some (2, 0) ∧ getResponse demo 3 1 = none ∧ getResponse demo 3 2 = some (1, 0) ∧
    getResponse demo 3 3 = some (2, 1) := by decide

-- most-derived handler, any spelling; unsupported; filtered for every class; unknown
example : invoke demo .script 1 [65, 98] .normal = .ran 2 0 ∧ invoke demo .script 3 [97, 98] .normal = .failed ∧
    invoke demo .script 1 [65, 66] .getter = .notFound ∧ invoke demo .ret 3 [97, 66] .getter = .notFound ∧
    invoke demo .proc 2 [122] .normal = .retFalse ∧ invoke demo .script 3 [67, 68] .normal = .ran 2 1 := by decide

-- the hypotheses of `C16_invoke_runs_nearest` and `C16_filtered_rejected_for_every_class` are met
example : ∃ c cd e d, clsAt demo.reg c = some cd ∧ e ∈ demo.reg.evs ∧ e.kind ≠ .none ∧ d ∈ demo.reg.evs ∧
    d.linked = true ∧ d.num = e.num ∧ nsAllowed demo d.ns = true ∧ Nearest demo.reg e.num c (some (2, 0)) :=
  ⟨1, ⟨2, 0, [⟨3, true⟩]⟩, ⟨[97, 98], .normal, 1, 1, false⟩, ⟨[97, 98], .normal, 1, 0, true⟩,
    by decide, by decide, by decide, by decide, rfl, rfl, by decide,
    (C16_lookup_is_nearest_declaration demo_reachable (by decide) (c := 1) (cd := ⟨2, 0, [⟨3, true⟩]⟩) (by decide) 1).1⟩

example : ∃ e d, e ∈ demo.reg.evs ∧ e.kind ≠ .none ∧ d ∈ demo.reg.evs ∧ d.linked = true ∧ d.num = e.num ∧
    nsAllowed demo d.ns = false :=
  ⟨⟨[97, 98], .getter, 2, 2, true⟩, ⟨[97, 98], .getter, 2, 2, true⟩, by decide, by decide, by decide, rfl, rfl, by decide⟩

/-! ## class extensions touch only the table of the extended class -/

/-- **An extension writes into the table of the extended class only.**  Whatever `ClassDefExt` is applied
    to class `c`, the look-up of every OTHER class — its parent, its siblings, its subclasses, whether or
    not their own response lists are empty — is what it was: tables are per class, never shared. -/
theorem C16_ext_other_classes_untouched (s : State) (c x : Nat) (ds : List Decl) {c' : Nat} (hc : c' ≠ c) (n : Nat) :
    getResponse (applyExt s c x ds) c' n = getResponse s c' n := by
  unfold applyExt
  cases h : tget s.tables c with
  | none => rfl
  | some row => simp [getResponse, tget, hc]

/-- … and in the extended class's own table only the slots of the extension's non-null responses change. -/
theorem C16_ext_other_slots_untouched (s : State) (c x : Nat) (ds : List Decl) (n : Nat)
    (hn : ∀ d ∈ ds, d.has = true → evNum s.reg d.ev ≠ n) :
    getResponse (applyExt s c x ds) c n = getResponse s c n := by
  unfold applyExt
  cases h : tget s.tables c with
  | none => simp
  | some row =>
    have := patchExt_get_other s.reg x ds 0 row n hn
    simp [getResponse, tget, h, this.1, this.2]

/-- the same for `InitClassDef` as written (whatever the list holds, only the class of its head is touched) -/
theorem C16_initClassDef_other_classes_untouched (s : State) (x c : Nat) (ds : List Decl)
    (rest : List (Nat × Nat × List Decl)) {c' : Nat} (hc : c' ≠ c) (n : Nat) :
    getResponse (initClassDef s ((x, c, ds) :: rest)).1 c' n = getResponse s c' n := by
  simp only [initClassDef]
  generalize ((x, c, ds) :: rest) = l
  induction l generalizing s with
  | nil => rfl
  | cons a t ih =>
    simp only [List.foldl]
    rw [ih, C16_ext_other_classes_untouched s c x ds hc]

/-- non-vacuity on `demo` (class 2 extends class 1's hierarchy): an extension of class 2 with a handler for
    event object 3 changes class 2's slot and leaves classes 1 and 3 alone -/
example : getResponse (applyExt demo 2 1000001 [⟨3, true⟩]) 2 (evNum demo.reg 3) = some (1000001, 0) ∧
    getResponse (applyExt demo 2 1000001 [⟨3, true⟩]) 1 (evNum demo.reg 3) = getResponse demo 1 (evNum demo.reg 3) ∧
    getResponse (applyExt demo 2 1000001 [⟨3, true⟩]) 3 (evNum demo.reg 3) = getResponse demo 3 (evNum demo.reg 3) := by
  decide

end Morfuse.Dispatch
