import MorfuseModel.Dispatch.Spec
namespace Morfuse.Dispatch
theorem C16_placeholder : init.built = false := rfl
end Morfuse.Dispatch
