import MorfuseModel.Dict.Lemmas
import MorfuseModel.Gen.Primes
import MorfuseModel.Gen.Predefined
/-!
# C17 — interned strings: one id per text, ids stable, well-known ids fixed

Property theorems only (helpers are in `Dict/Lemmas.lean`).  Every statement holds for an
arbitrary key type `κ`, an arbitrary hash function `hash : κ → Nat`, an arbitrary table
`primes` and an arbitrary predefined list `P`, and for every state reachable from the empty
dictionary by any finite sequence of `add / get / str / more n / reset / resetMaster` — no bound
on the number of entries.  `run … = some s` means that no operation on the way was illegal
(`str` of an id never handed out) or undefined behaviour in the C++ (`rehash` running off
`set_primes`); `C17_add_defined` / `C17_resetMaster_defined` say when that cannot happen.

The last section instantiates the theorems with the tables regenerated from the source tree
(`Gen/Primes.lean`, `Gen/Predefined.lean`); its `decide` obligations are re-checked whenever those
tables change.
-/
namespace Morfuse.Dict
variable {κ : Type} [DecidableEq κ] {hash : κ → Nat} {primes : List Nat} {P : List κ}

/-! ### refinement: the dictionary is the list of its texts in id order -/

/-- Every operation of the model is the corresponding operation of the abstract specification
    on `texts s` (the list `textOf s 1, …, textOf s count`). -/
theorem C17_refinement {s s' : State κ} {op : Op κ} (h : Reachable hash primes P s)
    (hs : step hash primes P s op = some s') :
    Spec.step P (texts s) op = some (texts s') := by
  obtain ⟨ks, B, hi⟩ := reachable_inv h
  obtain ⟨ks', B', hi', hsp⟩ := step_refines hi hs
  rw [texts_eq hi, texts_eq hi']
  exact hsp

/-- Both lookups answer exactly what the specification answers on `texts s`, which is
    duplicate-free and has `count` elements. -/
theorem C17_observations {s : State κ} (h : Reachable hash primes P s) :
    (∀ t, idOf hash s t = Spec.idOf (texts s) t) ∧ (∀ i, textOf s i = Spec.textOf (texts s) i) ∧
    s.count = (texts s).length ∧ (texts s).Nodup := by
  obtain ⟨ks, B, hi⟩ := reachable_inv h
  rw [texts_eq hi]
  exact ⟨idOf_spec hi, textOf_spec hi, hi.count_eq, hi.nodup⟩

/-- The id `Add` returns is the id the text has afterwards, and the texts afterwards are the
    texts before plus (if new) the added one at the end. -/
theorem C17_add_result {s s' : State κ} {t : κ} {i : Nat} (h : Reachable hash primes P s)
    (ha : add hash primes s t = some (s', i)) :
    texts s' = Spec.add (texts s) t ∧ i = Spec.idOf (texts s') t ∧ i ≠ 0 ∧ idOf hash s' t = i ∧
    textOf s' i = some t := by
  obtain ⟨ks, B, hi⟩ := reachable_inv h
  obtain ⟨⟨B', hi'⟩, hid, _, _⟩ := add_refines hi ha
  rw [texts_eq hi, texts_eq hi']
  have hm : t ∈ Spec.add ks t := spec_mem_add.2 (Or.inr rfl)
  have hne : i ≠ 0 := by rw [hid]; simp [Spec.idOf, hm]
  refine ⟨rfl, hid, hne, ?_, ?_⟩
  · rw [idOf_spec hi']; exact hid.symm
  · rw [textOf_spec hi', ← keyAt_eq_spec]; exact keyAt_of_spec_idOf hid.symm hne

/-! ### clause 1: equal texts get the same id, different texts get different ids -/

/-- Interning a text again — after any amount of further interning, pre-sizing, rehashing and
    lookups — returns the id it got the first time, and changes nothing. -/
theorem C17_same_text_same_id {s s1 s2 : State κ} {t : κ} {i : Nat} {ops : List (Op κ)}
    (h : Reachable hash primes P s) (ha : add hash primes s t = some (s1, i))
    (hr : run hash primes P s1 ops = some s2) (hnr : ∀ op ∈ ops, op.isReset = false) :
    add hash primes s2 t = some (s2, i) ∧ idOf hash s2 t = i ∧ i ≠ 0 := by
  obtain ⟨ks, B, hi⟩ := reachable_inv h
  obtain ⟨⟨B1, hi1⟩, hid, _, _⟩ := add_refines hi ha
  have hm : t ∈ Spec.add ks t := spec_mem_add.2 (Or.inr rfl)
  have hne : i ≠ 0 := by rw [hid]; simp [Spec.idOf, hm]
  have hk1 : keyAt (Spec.add ks t) i = some t := keyAt_of_spec_idOf hid.symm hne
  obtain ⟨ks2, B2, hi2, hsp⟩ := run_refines ops hi1 hr
  obtain ⟨r, hpre⟩ := spec_run_prefix ops hsp hnr
  have hk2 : keyAt ks2 i = some t := by rw [hpre]; exact spec_textOf_append hk1
  have hm2 : t ∈ ks2 := keyAt_mem hk2
  obtain ⟨⟨s3, j⟩, ha2⟩ := add_defined (primes := primes) hi2 t (Or.inl hm2)
  obtain ⟨hs3, hkj⟩ := (add_spec hi2 ha2).1 hm2
  have hji : j = i := keyAt_inj hi2.nodup hkj hk2
  subst hs3; subst hji
  exact ⟨ha2, by rw [idOf_spec hi2]; exact spec_idOf_of_keyAt hi2.nodup hk2, hne⟩

/-- One id never denotes two texts. -/
theorem C17_distinct_text_distinct_id {s : State κ} {t u : κ} {i : Nat} (h : Reachable hash primes P s)
    (ht : idOf hash s t = i) (hu : idOf hash s u = i) (hi0 : i ≠ 0) : t = u := by
  obtain ⟨ks, B, hi⟩ := reachable_inv h
  rw [idOf_spec hi] at ht hu
  exact keyAt_fun (keyAt_of_spec_idOf ht hi0) (keyAt_of_spec_idOf hu hi0)

/-- Two different texts, interned at any two moments of one history without reset, get
    different ids. -/
theorem C17_distinct_adds {s s1 s2 s3 : State κ} {t u : κ} {i j : Nat} {ops : List (Op κ)}
    (h : Reachable hash primes P s) (ha : add hash primes s t = some (s1, i))
    (hr : run hash primes P s1 ops = some s2) (hnr : ∀ op ∈ ops, op.isReset = false)
    (hb : add hash primes s2 u = some (s3, j)) (htu : t ≠ u) : i ≠ j := by
  intro hij
  obtain ⟨ks, B, hi⟩ := reachable_inv h
  obtain ⟨⟨B1, hi1⟩, hid, _, _⟩ := add_refines hi ha
  have hm : t ∈ Spec.add ks t := spec_mem_add.2 (Or.inr rfl)
  have hne : i ≠ 0 := by rw [hid]; simp [Spec.idOf, hm]
  have hk1 : keyAt (Spec.add ks t) i = some t := keyAt_of_spec_idOf hid.symm hne
  obtain ⟨ks2, B2, hi2, hsp⟩ := run_refines ops hi1 hr
  obtain ⟨r, hpre⟩ := spec_run_prefix ops hsp hnr
  have hk2 : keyAt ks2 i = some t := by rw [hpre]; exact spec_textOf_append hk1
  obtain ⟨⟨B3, hi3⟩, hjd, _, _⟩ := add_refines hi2 hb
  have hmu : u ∈ Spec.add ks2 u := spec_mem_add.2 (Or.inr rfl)
  have hnej : j ≠ 0 := by rw [hjd]; simp [Spec.idOf, hmu]
  have hk3u : keyAt (Spec.add ks2 u) j = some u := keyAt_of_spec_idOf hjd.symm hnej
  have hk3t : keyAt (Spec.add ks2 u) i = some t := by
    unfold Spec.add
    split
    · exact hk2
    · exact spec_textOf_append hk2
  rw [hij] at hk3t
  exact htu (keyAt_fun hk3t hk3u)

/-! ### clause 2: an id keeps denoting the same text however the dictionary grows -/

/-- Once id `i` denotes text `t`, it does so after every further sequence of `Add`
    (including those that rehash over `set_primes`), `AllocateMoreString n` and lookups;
    and `t` keeps being found under `i`. -/
theorem C17_id_stable {s s' : State κ} {t : κ} {i : Nat} {ops : List (Op κ)}
    (h : Reachable hash primes P s) (ht : textOf s i = some t)
    (hr : run hash primes P s ops = some s') (hnr : ∀ op ∈ ops, op.isReset = false) :
    textOf s' i = some t ∧ idOf hash s' t = i := by
  obtain ⟨ks, B, hi⟩ := reachable_inv h
  rw [textOf_spec hi] at ht
  obtain ⟨ks', B', hi', hsp⟩ := run_refines ops hi hr
  obtain ⟨r, hpre⟩ := spec_run_prefix ops hsp hnr
  have hk : keyAt ks' i = some t := by rw [hpre]; exact spec_textOf_append ht
  exact ⟨by rw [textOf_spec hi']; exact hk, by rw [idOf_spec hi']; exact spec_idOf_of_keyAt hi'.nodup hk⟩

/-- Lookup by id and lookup by text are inverse to each other. -/
theorem C17_id_text_roundtrip {s : State κ} {t : κ} {i : Nat} (h : Reachable hash primes P s) :
    textOf s i = some t ↔ (idOf hash s t = i ∧ i ≠ 0) := by
  obtain ⟨ks, B, hi⟩ := reachable_inv h
  rw [textOf_spec hi, idOf_spec hi]
  constructor
  · intro hk
    exact ⟨spec_idOf_of_keyAt hi.nodup hk, by have := keyAt_some_range hk; omega⟩
  · rintro ⟨h1, h2⟩
    exact keyAt_of_spec_idOf h1 h2

/-! ### clause 3: looking up a text that was never interned reports 'absent' and adds nothing -/

/-- `Get(text)` answers `0` (`const_str::None()`) exactly for the texts no id denotes, and it
    leaves the dictionary as it was. -/
theorem C17_lookup_absent_pure {s : State κ} {t : κ} (h : Reachable hash primes P s) :
    (idOf hash s t = 0 ↔ ∀ i, textOf s i ≠ some t) ∧ step hash primes P s (.get t) = some s := by
  obtain ⟨ks, B, hi⟩ := reachable_inv h
  refine ⟨?_, rfl⟩
  rw [idOf_spec hi]
  constructor
  · intro h0 i hk
    rw [textOf_spec hi] at hk
    have := spec_idOf_of_keyAt hi.nodup hk
    have := keyAt_some_range hk
    omega
  · intro hall
    unfold Spec.idOf
    split
    · rename_i hm
      obtain ⟨e, he⟩ := keyAt_of_mem hm
      exact absurd (by rw [textOf_spec hi]; exact he) (hall e)
    · rfl

/-- A text that no `Add` of the history mentioned (and that is not predefined) is reported
    absent at the end, whatever else happened. -/
theorem C17_never_interned_absent {s : State κ} {t : κ} {ops : List (Op κ)}
    (hr : run hash primes P init ops = some s) (hne : ∀ op ∈ ops, op ≠ Op.add t) (hP : t ∉ P) :
    idOf hash s t = 0 := by
  obtain ⟨ks, B, hi, hsp⟩ := run_refines ops (init_inv hash) hr
  have := spec_run_not_mem hP ops hsp (by simp) hne
  rw [idOf_spec hi]
  simp [Spec.idOf, this]

/-! ### clause 4: the predefined strings have the same ids in every dictionary, after every reset -/

/-- `ScriptMaster::ClearAll` (and the `ScriptMaster` constructor, which is the same on a fresh
    dictionary) always succeeds, whatever state the dictionary was in. -/
theorem C17_resetMaster_defined (s : State κ) : ∃ s', step hash primes P s .resetMaster = some s' := by
  simp only [step, clear, initConstStrings]
  obtain ⟨⟨B1, h1⟩, hroom, _⟩ := allocateMoreString_inv (init_inv hash (κ := κ)) P.length
  have hc : (allocateMoreString hash (init : State κ) P.length).count = 0 := by
    rw [h1.count_eq]; rfl
  exact addAll_defined P h1 (by
    have : (init : State κ).count = 0 := rfl
    omega)

/-- If the registered predefined strings are pairwise different, then after every reset of every
    script master the `k`-th registered string has id `k+1` (its `PredefinedString::GetIndex()`),
    in both directions, and the dictionary holds nothing else. -/
theorem C17_predefined_ids {s s' : State κ} (hnd : P.Nodup)
    (hs : step hash primes P s .resetMaster = some s') :
    texts s' = P ∧ ∀ k (hk : k < P.length), idOf hash s' P[k] = k + 1 ∧ textOf s' (k + 1) = some P[k] := by
  obtain ⟨ks', B', hi', hsp⟩ := step_refines (init_inv hash (κ := κ)) (op := Op.resetMaster) (P := P)
    (primes := primes) (s' := s') (by simpa [step, clear] using hs)
  simp only [Spec.step, Option.some.injEq] at hsp
  rw [spec_foldl_add_nodup P [] (by simpa using hnd)] at hsp
  simp only [List.nil_append] at hsp
  subst hsp
  refine ⟨texts_eq hi', ?_⟩
  intro k hk
  have hkey : keyAt P (k + 1) = some P[k] := by
    simp [keyAt, List.getElem?_eq_getElem hk]
  exact ⟨by rw [idOf_spec hi']; exact spec_idOf_of_keyAt hnd hkey, by rw [textOf_spec hi']; exact hkey⟩

/-! ### no undefined behaviour below the last prime -/

/-- `Add` is defined (the rehash finds a longer table, nothing is written out of bounds) as
    long as `set_primes` holds an entry above the current table length. -/
theorem C17_add_defined {s : State κ} (t : κ) (h : Reachable hash primes P s)
    (hp : ∃ p ∈ primes, s.tableLength < p) : ∃ r, add hash primes s t = some r := by
  obtain ⟨ks, B, hi⟩ := reachable_inv h
  exact add_defined hi t (Or.inr (Or.inr hp))

/-- The table length only changes by growing (never below the number of entries). -/
theorem C17_table_monotone {s s' : State κ} {op : Op κ} (h : Reachable hash primes P s)
    (hs : step hash primes P s op = some s') (hr : op.isReset = false) :
    s.tableLength ≤ s'.tableLength ∧ s'.count ≤ s'.tableLength := by
  obtain ⟨ks, B, hi⟩ := reachable_inv h
  obtain ⟨ks', B', hi', _⟩ := step_refines hi hs
  refine ⟨?_, hi'.le⟩
  cases op with
  | add t =>
    simp only [step, Option.map_eq_some_iff] at hs
    obtain ⟨⟨s1, i⟩, ha, hs1⟩ := hs
    simp only at hs1
    subst hs1
    exact (add_refines hi ha).2.2.1
  | get t => simp only [step, Option.some.injEq] at hs; subst hs; exact Nat.le_refl _
  | str i =>
    simp only [step] at hs
    split at hs
    · simp only [Option.some.injEq] at hs; subst hs; exact Nat.le_refl _
    · cases hs
  | more n =>
    simp only [step, Option.some.injEq] at hs; subst hs
    exact (allocateMoreString_inv hi n).2.2
  | reset => simp [Op.isReset] at hr
  | resetMaster => simp [Op.isReset] at hr

/-! ### the tables regenerated from the source tree -/

/-- `con::set_primes` is declared with 24 slots. -/
theorem C17_gen_primes_length : Gen.setPrimes.length = 24 := by decide

/-- The initialised part of `con::set_primes` (up to the first zero-filled slot) is strictly
    increasing. -/
theorem C17_gen_primes_increasing : (Gen.setPrimes.takeWhile (· ≠ 0)).Pairwise (· < ·) := by decide

/-- `con::set_primes` reaches beyond the 10^5 entries of the property's bound. -/
theorem C17_gen_primes_cover_bound : ∃ p ∈ Gen.setPrimes, 100000 < p := by decide

/-- The registered predefined strings are pairwise different. -/
theorem C17_gen_predefined_nodup : Gen.predefined.Nodup := by decide

/-- With the real `set_primes`, `Add` has no undefined behaviour while the table is shorter than
    the largest prime in it that exceeds 10^5 (in particular for every dictionary of at most 10^5
    entries that was never pre-sized beyond that). -/
theorem C17_gen_add_defined {P : List κ} {s : State κ} (t : κ) (h : Reachable hash Gen.setPrimes P s)
    (hlt : s.tableLength ≤ 100000) : ∃ r, add hash Gen.setPrimes s t = some r := by
  obtain ⟨p, hp, hgt⟩ := C17_gen_primes_cover_bound
  exact C17_add_defined t h ⟨p, hp, by omega⟩

/-- The engine's predefined strings, as registered in the built tree: after every reset of every
    script master the `k`-th one has id `k+1`, for every hash function and every prime table. -/
theorem C17_gen_predefined_ids {hash : List Nat → Nat} {primes : List Nat} {s s' : State (List Nat)}
    (hs : step hash primes Gen.predefined s .resetMaster = some s') :
    texts s' = Gen.predefined ∧ ∀ k (hk : k < Gen.predefined.length),
      idOf hash s' Gen.predefined[k] = k + 1 ∧ textOf s' (k + 1) = some Gen.predefined[k] :=
  C17_predefined_ids C17_gen_predefined_nodup hs

/-! ### non-vacuity: the hypotheses above are met by concrete non-trivial histories -/

/-- a dictionary with two different texts exists, for every hash function and every prime table
    (history: `AllocateMoreString 5; Add 10; Add 20`) -/
example (hash : Nat → Nat) (primes : List Nat) : ∃ s : State Nat, Reachable hash primes [] s ∧
    textOf s 1 = some 10 ∧ textOf s 2 = some 20 ∧ idOf hash s 20 = 2 ∧ idOf hash s 30 = 0 := by
  let s0 : State Nat := allocateMoreString hash init 5
  have h0 : Reachable hash primes ([] : List Nat) s0 := ⟨[.more 5], rfl⟩
  obtain ⟨ks0, B0, hi0⟩ := reachable_inv h0
  have hroom0 : 5 ≤ s0.tableLength := by
    have : (init : State Nat).count + 5 ≤ s0.tableLength :=
      (allocateMoreString_inv (init_inv hash (κ := Nat)) 5).2.1
    have hc : (init : State Nat).count = 0 := rfl
    omega
  have t0 : texts s0 = [] := by
    have := C17_refinement (hash := hash) (primes := primes) (P := []) (s := init) (s' := s0)
      (op := .more 5) ⟨[], rfl⟩ rfl
    have ht : texts (init : State Nat) = [] := rfl
    rw [ht] at this
    simpa [Spec.step] using this.symm
  have c0 : s0.count = 0 := by rw [(C17_observations h0).2.2.1, t0]; rfl
  obtain ⟨⟨s1, i1⟩, ha1⟩ := add_defined (primes := primes) hi0 10 (Or.inr (Or.inl (by omega)))
  have r1 := C17_add_result h0 ha1
  have h1 : Reachable hash primes ([] : List Nat) s1 :=
    ⟨[.more 5, .add 10], by simp only [run, step, Option.bind_some]; rw [ha1]; rfl⟩
  have t1 : texts s1 = [10] := by rw [r1.1, t0]; rfl
  obtain ⟨ks1, B1, hi1⟩ := reachable_inv h1
  have c1 : s1.count = 1 := by rw [(C17_observations h1).2.2.1, t1]; rfl
  have hroom1 : 5 ≤ s1.tableLength :=
    Nat.le_trans hroom0 (C17_table_monotone (op := .add 10) h0 (by simp only [step]; rw [ha1]; rfl) rfl).1
  obtain ⟨⟨s2, i2⟩, ha2⟩ := add_defined (primes := primes) hi1 20 (Or.inr (Or.inl (by omega)))
  have r2 := C17_add_result h1 ha2
  have h2 : Reachable hash primes ([] : List Nat) s2 :=
    ⟨[.more 5, .add 10, .add 20], by
      simp only [run, step, Option.bind_some]; rw [ha1]; simp only [Option.map_some, Option.bind_some]
      rw [ha2]; rfl⟩
  have t2 : texts s2 = [10, 20] := by rw [r2.1, t1]; rfl
  have ho := C17_observations h2
  refine ⟨s2, h2, ?_, ?_, ?_, ?_⟩
  · rw [ho.2.1, t2]; rfl
  · rw [ho.2.1, t2]; rfl
  · rw [ho.1, t2]; decide
  · rw [ho.1, t2]; decide

/-- the predefined-id theorem is not vacuous: the reset it speaks about always succeeds, and the
    generated list is non-empty -/
example (hash : List Nat → Nat) : ∃ s' : State (List Nat),
    step hash Gen.setPrimes Gen.predefined init .resetMaster = some s' ∧ 0 < Gen.predefined.length :=
  let ⟨s', h⟩ := C17_resetMaster_defined (hash := hash) (primes := Gen.setPrimes) (P := Gen.predefined) init
  ⟨s', h, by decide⟩

end Morfuse.Dict
