import MorfuseModel.Container.Refine
/-!
# C18 — core containers and strings behave like their abstract models

Property theorems only (helpers live in `Container/*`, `HashSet/*`, `Str/*`).  Every statement is
about **all** operation histories (induction over the operation list), for an arbitrary element /
key / value type and, for the hash table, an arbitrary hash function.

## Part 1 — `con::Container<Type>` (include/morfuse/Container/Container.h)

`World α` is two containers (copy / move need a second one); `step` is one member-function call,
`Except.error` = the C++ statement has undefined behaviour or breaks the object-lifetime discipline.
`abs w` is the pair of element lists, `Spec.step` the obvious list operation.
-/
namespace Morfuse.Container
variable {α : Type} [DecidableEq α] [Inhabited α]

/-- **Refinement.**  Whatever history of member-function calls is executed from two empty
    containers, every return value and the final contents are exactly those of the abstract
    sequences under the obvious list operations (`AddObject` = append, `RemoveObjectAt` = erase at,
    `InsertObjectAt` = insert at, `SetNumObjects` = truncate / pad with `Type()`, `Shrink`/`Resize(n>0)`
    = identity, copy = copy, move = move-and-empty, lookups = first position, …). -/
theorem C18_container_refinement {ops : List (Op α)} {w : World α} {rs : List (Ret α)}
    (h : runR ({} : World α) ops = .ok (w, rs)) :
    Spec.runR ({} : AW α) ops = some (abs w, rs) := by
  have := (runR_refines ops winv_init h).2
  rwa [abs_init] at this

/-- One more step from any reachable state is again the list operation (growth, shrinking and
    copying preserve contents; removal removes only the named element: read off `Spec.step`). -/
theorem C18_container_step_refinement {w w' : World α} {op : Op α} {r : Ret α} (hr : Reachable w)
    (h : step w op = .ok (w', r)) : Spec.step (abs w) op = some (abs w', r) := by
  rcases step_refines (reachable_winv hr) op with ⟨_, e, he⟩ | ⟨_, w1, r1, h1, _, hs⟩
  · rw [he] at h; cases h
  · rw [h1] at h; cases h; exact hs

/-- **Ledger.**  In every reachable state: constructions − destructions = live element objects =
    `NumObjects()` of the two containers; the live objects are exactly the slots below
    `numobjects` (every slot is constructed once before it is used and destroyed once: a second
    construction, or a use / destruction of raw storage, is a fault of the model and
    `C18_container_faults_exact` shows none is reachable). -/
theorem C18_container_ledger_balanced {w : World α} (hr : Reachable w) :
    w.a.led.ctor + w.b.led.ctor = w.a.led.dtor + w.b.led.dtor + w.a.num + w.b.num ∧
    (contents w.a).length = w.a.num ∧ (contents w.b).length = w.b.num ∧
    (∀ b, w.a.objlist = some b → b = (contents w.a).map some ++ raw (w.a.max - w.a.num)) ∧
    (∀ b, w.b.objlist = some b → b = (contents w.b).map some ++ raw (w.b.max - w.b.num)) := by
  obtain ⟨f, hf⟩ := reachable_winv hr
  have ha := hf.1 false
  have hb := hf.1 true
  simp only [World.get, Bool.false_eq_true, if_false, if_true] at ha hb
  have h2 := hf.2
  rw [ha.contents, hb.contents, ha.num, hb.num]
  refine ⟨by omega, rfl, rfl, ?_, ?_⟩
  · intro b hbuf
    rcases ha with ⟨l, e, _⟩ | ⟨m, l, e, _, _⟩
    · rw [e] at hbuf; simp [mk0] at hbuf
    · rw [e] at hbuf ⊢; simp only [mk, Option.some.injEq] at hbuf ⊢; subst hbuf; rfl
  · intro b hbuf
    rcases hb with ⟨l, e, _⟩ | ⟨m, l, e, _, _⟩
    · rw [e] at hbuf; simp [mk0] at hbuf
    · rw [e] at hbuf ⊢; simp only [mk, Option.some.injEq] at hbuf ⊢; subst hbuf; rfl

/-- **Capacity.**  `numobjects ≤ maxobjects`, the allocation has exactly `maxobjects` slots, and a
    null `objlist` goes with `numobjects = maxobjects = 0`. -/
theorem C18_container_capacity {w : World α} (hr : Reachable w) (c : Bool) :
    (w.get c).num ≤ (w.get c).max ∧
    (∀ b, (w.get c).objlist = some b → b.length = (w.get c).max ∧ 0 < (w.get c).max) ∧
    ((w.get c).objlist = none → (w.get c).num = 0 ∧ (w.get c).max = 0) := by
  obtain ⟨f, hf⟩ := reachable_winv hr
  have h := hf.1 c
  refine ⟨h.le, ?_, ?_⟩
  · intro b hb
    rcases h with ⟨l, e, _⟩ | ⟨m, l, e, hle, hpos⟩
    · rw [e] at hb; simp [mk0] at hb
    · rw [e] at hb ⊢
      simp only [mk, Option.some.injEq] at hb ⊢
      subst hb
      exact ⟨by rw [length_bufOf]; omega, hpos⟩
  · intro hb
    rcases h with ⟨l, e, _⟩ | ⟨m, l, e, _, _⟩
    · rw [e]; simp [mk0]
    · rw [e] at hb; simp [mk] at hb

/-- **Faults are exactly the stated guards.**  In a reachable state an operation faults iff it is
    `ObjectAt / SetObjectAt / operator[]` with `index = 0 ∨ index > numobjects` (the C++ has only an
    `assert`, compiled out under `NDEBUG`), `AddObjectAt(0, _)` (idem, through `SetObjectAt`), or
    `AddObject(ObjectAt(i))` with a bad `i` or with `numobjects ≥ maxobjects` (the argument refers
    into the block that `Resize` destroys and frees first).  In particular no history ever
    constructs over a live object, uses or destroys raw storage, or touches memory outside the
    allocation. -/
theorem C18_container_faults_exact {w : World α} (hr : Reachable w) (op : Op α) :
    (∃ e, step w op = .error e) ↔ UB w op := by
  rcases step_refines (reachable_winv hr) op with ⟨hu, he⟩ | ⟨hu, w1, r, h1, _, _⟩
  · exact ⟨fun _ => hu, fun _ => he⟩
  · refine ⟨?_, fun h => absurd h hu⟩
    rintro ⟨e, he⟩
    rw [h1] at he; cases he

/-- non-vacuity: a history with growth, insertion in the middle, removal, truncation, copy and move
    runs without fault and ends in the expected lists -/
example :
    (match runR ({} : World Nat) [.add false 5, .add false 6, .add false 7, .insertAt false 2 9, .removeAt false 1,
        .setNum false 2, .copyAssign true false, .addAt true 4 8, .shrink true, .moveAssign false true] with
     | .ok (w, _) => (contents w.a, contents w.b, w.a.led.ctor + w.b.led.ctor, w.a.led.dtor + w.b.led.dtor)
     | .error _ => ([], [], 0, 0))
    = ([9, 6, 0, 8], [], 14, 10) := by decide

/-- non-vacuity of the fault theorem: the three kinds of guard are reachable -/
example : (step ({} : World Nat) (.objectAt false 1)).isOk = false ∧
    (step ({} : World Nat) (.addAt false 0 1)).isOk = false ∧
    ((do let (w, _) ← step ({} : World Nat) (.add false 1)
         let (w, _) ← step w (.add false 2)
         step w (.addDup false 1)) : R _).isOk = false := by decide

end Morfuse.Container
