import MorfuseModel.Container.Model
/-!
# C18 — core containers and strings behave like their abstract models
(placeholder while the models are being tied to the code; theorems follow)
-/
namespace Morfuse.Container

/-- smoke: the empty world is a fixed point of `free` -/
theorem C18_placeholder : (step ({} : World Nat) (.free false)).isOk = true := by decide

end Morfuse.Container
