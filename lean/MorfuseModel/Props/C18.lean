import MorfuseModel.Container.Refine
import MorfuseModel.HashSet.Enum
import MorfuseModel.Str.Refine
import MorfuseModel.Gen.Primes
/-!
# C18 — core containers and strings behave like their abstract models

Property theorems only (helpers live in `Container/*`, `HashSet/*`, `Str/*`).  Every statement is
about **all** operation histories (induction over the operation list), for an arbitrary element /
key / value type and, for the hash table, an arbitrary hash function.

## Part 1 — `con::Container<Type>` (include/morfuse/Container/Container.h)

`World α` is two containers (copy / move need a second one); `step` is one member-function call,
`Except.error` = the C++ statement has undefined behaviour or breaks the object-lifetime discipline.
`abs w` is the pair of element lists, `Spec.step` the obvious list operation.
-/
namespace Morfuse.Container
variable {α : Type} [DecidableEq α] [Inhabited α]

/-- **Refinement.**  Whatever history of member-function calls is executed from two empty
    containers, every return value and the final contents are exactly those of the abstract
    sequences under the obvious list operations (`AddObject` = append, `RemoveObjectAt` = erase at,
    `InsertObjectAt` = insert at, `SetNumObjects` = truncate / pad with `Type()`, `Shrink`/`Resize(n>0)`
    = identity, copy = copy, move = move-and-empty, lookups = first position, …). -/
theorem C18_container_refinement {ops : List (Op α)} {w : World α} {rs : List (Ret α)}
    (h : runR ({} : World α) ops = .ok (w, rs)) :
    Spec.runR ({} : AW α) ops = some (abs w, rs) := by
  have := (runR_refines ops winv_init h).2
  rwa [abs_init] at this

/-- One more step from any reachable state is again the list operation (growth, shrinking and
    copying preserve contents; removal removes only the named element: read off `Spec.step`). -/
theorem C18_container_step_refinement {w w' : World α} {op : Op α} {r : Ret α} (hr : Reachable w)
    (h : step w op = .ok (w', r)) : Spec.step (abs w) op = some (abs w', r) := by
  rcases step_refines (reachable_winv hr) op with ⟨_, e, he⟩ | ⟨_, w1, r1, h1, _, hs⟩
  · rw [he] at h; cases h
  · rw [h1] at h; cases h; exact hs

/-- **Ledger.**  In every reachable state: constructions − destructions = live element objects =
    `NumObjects()` of the two containers; the live objects are exactly the slots below
    `numobjects` (every slot is constructed once before it is used and destroyed once: a second
    construction, or a use / destruction of raw storage, is a fault of the model and
    `C18_container_faults_exact` shows none is reachable). -/
theorem C18_container_ledger_balanced {w : World α} (hr : Reachable w) :
    w.a.led.ctor + w.b.led.ctor = w.a.led.dtor + w.b.led.dtor + w.a.num + w.b.num ∧
    (contents w.a).length = w.a.num ∧ (contents w.b).length = w.b.num ∧
    (∀ b, w.a.objlist = some b → b = (contents w.a).map some ++ raw (w.a.max - w.a.num)) ∧
    (∀ b, w.b.objlist = some b → b = (contents w.b).map some ++ raw (w.b.max - w.b.num)) := by
  obtain ⟨f, hf⟩ := reachable_winv hr
  have ha := hf.1 false
  have hb := hf.1 true
  simp only [World.get, Bool.false_eq_true, if_false, if_true] at ha hb
  have h2 := hf.2
  rw [ha.contents, hb.contents, ha.num, hb.num]
  refine ⟨by omega, rfl, rfl, ?_, ?_⟩
  · intro b hbuf
    rcases ha with ⟨l, e, _⟩ | ⟨m, l, e, _, _⟩
    · rw [e] at hbuf; simp [mk0] at hbuf
    · rw [e] at hbuf ⊢; simp only [mk, Option.some.injEq] at hbuf ⊢; subst hbuf; rfl
  · intro b hbuf
    rcases hb with ⟨l, e, _⟩ | ⟨m, l, e, _, _⟩
    · rw [e] at hbuf; simp [mk0] at hbuf
    · rw [e] at hbuf ⊢; simp only [mk, Option.some.injEq] at hbuf ⊢; subst hbuf; rfl

/-- **Capacity.**  `numobjects ≤ maxobjects`, the allocation has exactly `maxobjects` slots, and a
    null `objlist` goes with `numobjects = maxobjects = 0`. -/
theorem C18_container_capacity {w : World α} (hr : Reachable w) (c : Bool) :
    (w.get c).num ≤ (w.get c).max ∧
    (∀ b, (w.get c).objlist = some b → b.length = (w.get c).max ∧ 0 < (w.get c).max) ∧
    ((w.get c).objlist = none → (w.get c).num = 0 ∧ (w.get c).max = 0) := by
  obtain ⟨f, hf⟩ := reachable_winv hr
  have h := hf.1 c
  refine ⟨h.le, ?_, ?_⟩
  · intro b hb
    rcases h with ⟨l, e, _⟩ | ⟨m, l, e, hle, hpos⟩
    · rw [e] at hb; simp [mk0] at hb
    · rw [e] at hb ⊢
      simp only [mk, Option.some.injEq] at hb ⊢
      subst hb
      exact ⟨by rw [length_bufOf]; omega, hpos⟩
  · intro hb
    rcases h with ⟨l, e, _⟩ | ⟨m, l, e, _, _⟩
    · rw [e]; simp [mk0]
    · rw [e] at hb; simp [mk] at hb

/-- **Faults are exactly the stated guards.**  In a reachable state an operation faults iff it is
    `ObjectAt / SetObjectAt / operator[]` with `index = 0 ∨ index > numobjects` (the C++ has only an
    `assert`, compiled out under `NDEBUG`), `AddObjectAt(0, _)` (idem, through `SetObjectAt`), or
    `AddObject(ObjectAt(i))` with a bad `i` or with `numobjects ≥ maxobjects` (the argument refers
    into the block that `Resize` destroys and frees first).  In particular no history ever
    constructs over a live object, uses or destroys raw storage, or touches memory outside the
    allocation. -/
theorem C18_container_faults_exact {w : World α} (hr : Reachable w) (op : Op α) :
    (∃ e, step w op = .error e) ↔ UB w op := by
  rcases step_refines (reachable_winv hr) op with ⟨hu, he⟩ | ⟨hu, w1, r, h1, _, _⟩
  · exact ⟨fun _ => hu, fun _ => he⟩
  · refine ⟨?_, fun h => absurd h hu⟩
    rintro ⟨e, he⟩
    rw [h1] at he; cases he

/-- non-vacuity: a history with growth, insertion in the middle, removal, truncation, copy and move
    runs without fault and ends in the expected lists -/
example :
    (match runR ({} : World Nat) [.add false 5, .add false 6, .add false 7, .insertAt false 2 9, .removeAt false 1,
        .setNum false 2, .copyAssign true false, .addAt true 4 8, .shrink true, .moveAssign false true] with
     | .ok (w, _) => (contents w.a, contents w.b, w.a.led.ctor + w.b.led.ctor, w.a.led.dtor + w.b.led.dtor)
     | .error _ => ([], [], 0, 0))
    = ([9, 6, 0, 8], [], 14, 10) := by decide

/-- non-vacuity of the fault theorem: the three kinds of guard are reachable -/
example : (step ({} : World Nat) (.objectAt false 1)).isOk = false ∧
    (step ({} : World Nat) (.addAt false 0 1)).isOk = false ∧
    ((do let (w, _) ← step ({} : World Nat) (.add false 1)
         let (w, _) ← step w (.add false 2)
         step w (.addDup false 1)) : R _).isOk = false := by decide

end Morfuse.Container

/-!
## Part 2 — `con::set` / `con::map` / `set_enum` / `map_enum` (include/morfuse/Container/set.h)

Everything holds for an arbitrary key type `κ`, value type `ν`, hash function `hash : κ → Nat` and
prime table `primes`; `Reachable hash primes s` = `s` is the state after some finite history of
`operator[] =`, `operator[]`, `addKeyValue(k, init)`, `find`, `remove`, `resize`, `shrink`, `clear`
from the empty set.  The abstract model is a finite map, written as its lookup function
`κ → Option ν`; `Spec.step` is the finite-map operation.
-/
namespace Morfuse.HashSet
variable {κ ν : Type} [DecidableEq κ] [Inhabited ν] {hash : κ → Nat} {primes : List Nat}

/-- the abstract history -/
def Spec.run (m : κ → Option ν) : List (Op κ ν) → (κ → Option ν)
  | [] => m
  | op :: ops => Spec.run (Spec.step m op) ops

/-- **Refinement.**  After any history, every lookup answers what a finite map answers after the
    same history: insertion/overwrite binds the key, `remove` unbinds only the named key, `resize`,
    `shrink`, the `rehash` inside an insertion and `clear` do to the bindings what they do to a
    map (nothing, resp. empty it). -/
theorem C18_set_refinement (ops : List (Op κ ν)) (x : κ) :
    findKeyValue hash (run hash primes init ops) x = Spec.run (fun _ => none) ops x := by
  suffices ∀ (ops : List (Op κ ν)) (s : State κ ν) (m : κ → Option ν), Inv hash s →
      (∀ y, findKeyValue hash s y = m y) →
      findKeyValue hash (run hash primes s ops) x = Spec.run m ops x by
    refine this ops init _ (inv_init hash) (fun y => ?_)
    rw [(inv_init hash).findVal_none_iff]; intro e he; simp [ents, init] at he
  intro ops
  induction ops with
  | nil => intro s m _ hm; exact hm x
  | cons op ops ih =>
    intro s m hs hm
    obtain ⟨a, b⟩ := step_refines hs primes op
    refine ih _ _ a (fun y => ?_)
    rw [b y]
    have : findKeyValue hash s = m := funext hm
    rw [this]

/-- One more step from any reachable state is the finite-map operation (growth, shrinking and
    rehashing preserve contents, removal removes only the named key). -/
theorem C18_set_step_refinement {s : State κ ν} (h : Reachable hash primes s) (op : Op κ ν) (x : κ) :
    findKeyValue hash (step hash primes s op) x = Spec.step (findKeyValue hash s) op x :=
  (step_refines (reachable_inv h) primes op).2 x

/-- **Lookups find precisely the keys present**: the bucket walk of `findKeyValue` answers `v` for
    `k` iff some entry of the table carries `k ↦ v`; no two entries carry the same key; `size()` is
    the number of entries; constructions − destructions of entries = `size()` (nothing is leaked,
    nothing destroyed twice); `tableLength ≥ 1`, so `% tableLength` is never a division by zero. -/
theorem C18_set_lookup_exact {s : State κ ν} (h : Reachable hash primes s) :
    (∀ k v, findKeyValue hash s k = some v ↔ ∃ e ∈ ents s, e.key = k ∧ e.val = v) ∧
    ((ents s).map (·.key)).Nodup ∧ s.count = (ents s).length ∧ s.ctor = s.dtor + s.count ∧
    0 < s.tableLength ∧ s.table.length = s.tableLength := by
  have hi := reachable_inv h
  exact ⟨fun k v => hi.findVal_iff k v, hi.nodup, hi.count, hi.led, hi.pos, hi.len⟩

/-- **Removal removes only the named key** and reports whether it was there. -/
theorem C18_set_remove_only_named {s : State κ ν} (h : Reachable hash primes s) (k : κ) :
    (remove hash s k).2 = (findKeyValue hash s k).isSome ∧
    findKeyValue hash (remove hash s k).1 k = none ∧
    ∀ x, x ≠ k → findKeyValue hash (remove hash s k).1 x = findKeyValue hash s x := by
  obtain ⟨_, b, c⟩ := remove_find (reachable_inv h) k
  refine ⟨b, by simpa using c k, fun x hx => by simpa [hx] using c x⟩

/-- **Growth, shrinking and rehashing preserve contents**: the table after `resize n` (any `n`),
    `shrink()` or the internal `rehash()` holds a permutation of the same entries. -/
theorem C18_set_resize_preserves {s : State κ ν} (h : Reachable hash primes s) (n : Nat) :
    (ents (resize hash s n)).Perm (ents s) ∧ (ents (shrink hash s)).Perm (ents s) ∧
    (ents (rehash hash primes s)).Perm (ents s) :=
  ⟨(resize_spec (reachable_inv h) n).2.1, (shrink_spec (reachable_inv h)).2,
   (rehash_spec (reachable_inv h) primes).2.1⟩

/-- what `operator[]` / `addKeyValue(k, init)` return: the value bound to `k`, or the initial value
    of the binding they create -/
theorem C18_set_add_returns {s : State κ ν} (h : Reachable hash primes s) (k : κ) (v0 : ν) :
    (addKeyEntry hash primes s k v0).2.val = (findKeyValue hash s k).getD v0 :=
  (addKeyEntry_find (reachable_inv h) primes k v0).2.2.1

/-- **Enumeration visits each entry exactly once.**  Successive `NextElement()` calls of a fresh
    `set_enum` (`map_enum::NextKey/NextValue` forward to it) return the list `enumAll s`, then
    `nullptr`; that list is a permutation of the table's entries, so every key is visited once and
    no other; `CurrentElement()` is what the last call returned. -/
theorem C18_set_enumeration_once {s : State κ ν} (h : Reachable hash primes s) :
    drain s (s.count + 1) (enumStart s) = enumAll s ∧ (enumAll s).Perm (ents s) ∧
    ((enumAll s).map (·.key)).Nodup ∧ (enumAll s).length = s.count ∧
    (∀ k v, (∃ e ∈ enumAll s, e.key = k ∧ e.val = v) ↔ findKeyValue hash s k = some v) ∧
    (∀ e : Enum κ ν, match (enumNext s e).2 with
      | some x => remaining s e = x :: remaining s (enumNext s e).1 ∧ (enumNext s e).1.cur = some x
      | none => remaining s e = [] ∧ remaining s (enumNext s e).1 = [] ∧ (enumNext s e).1.cur = none) := by
  have hi := reachable_inv h
  have hp := enumAll_perm hi
  refine ⟨?_, hp, ((hp.map _).nodup_iff).mpr hi.nodup, by rw [hp.length_eq, hi.count], ?_, enumNext_spec s⟩
  · rw [enumAll_eq_remaining]
    apply drain_eq
    rw [← enumAll_eq_remaining, hp.length_eq, hi.count]; omega
  · intro k v
    rw [hi.findVal_iff]
    constructor
    · rintro ⟨e, he, h2⟩; exact ⟨e, hp.mem_iff.mp he, h2⟩
    · rintro ⟨e, he, h2⟩; exact ⟨e, hp.mem_iff.mpr he, h2⟩

/-- **Re-binding an enumerator.**  `en = set` (`set_enum::operator=(set&)`, `map_enum::operator=(map&)`) on an
    enumerator in ANY state `e` — bound to this set or to another one (`e` may hold the rest of a collision
    chain of a different table), abandoned in the middle of a chain, at its end, fresh or default-constructed —
    starts over: a full sweep of `NextElement()` returns the list `enumAll s` of the NEW set, i.e. every entry of
    the new set exactly once and nothing else (no leftover of the abandoned chain), then `nullptr`; there is no
    current element before the first call. -/
theorem C18_enum_rebind_sweeps_once {s : State κ ν} (h : Reachable hash primes s) (e : Enum κ ν) :
    drain s (s.count + 1) (enumRebind s e) = enumAll s ∧ (enumAll s).Perm (ents s) ∧
    ((enumAll s).map (·.key)).Nodup ∧ (enumAll s).length = s.count ∧
    remaining s (enumRebind s e) = enumAll s ∧ (enumRebind s e).cur = none := by
  have key := C18_set_enumeration_once h
  rw [enumRebind_eq_start]
  exact ⟨key.1, key.2.1, key.2.2.1, key.2.2.2.1, (enumAll_eq_remaining s).symm, rfl⟩

/-- non-vacuity: everything collides; set A holds keys 0..3 in one chain, set B keys 4, 5.  An enumerator of A
    abandoned after one element still holds three prefetched entries; re-bound to B a sweep gives exactly B's two
    entries, re-bound to A exactly A's four; a default-constructed one delivers nothing until it is bound. -/
example :
    let hs := fun _ : Nat => 5
    let a := run hs Morfuse.Gen.setPrimes (init : State Nat Nat) ([0, 1, 2, 3].map fun k => Op.put k (k + 10))
    let b := run hs Morfuse.Gen.setPrimes (init : State Nat Nat) [Op.put 4 1, Op.put 5 2]
    let e := (enumNext a (enumStart a)).1
    (e.rest.length, (drain b 9 (enumRebind b e)).map (·.key), ((drain a 9 (enumRebind a e)).map (·.key)).length,
      (enumNext a (enumDefault : Enum Nat Nat)).2.isNone, ((drain a 9 (enumRebind a enumDefault)).map (·.key)).length) =
    (3, (enumAll b).map (·.key), 4, true, 4) := by
  decide

/-- non-vacuity: with everything colliding (constant hash) and the real prime table, a history with
    growth across 1 → 7 → 17, removal of a chain head and a chain middle, shrink and re-insertion -/
example :
    let s := run (fun _ : Nat => 5) Morfuse.Gen.setPrimes (init : State Nat Nat)
      ([0, 1, 2, 3, 4, 5, 6, 7, 8].map (fun k => Op.put k (k + 10)) ++ [.remove 8, .remove 3, .shrink, .put 3 1, .touch 9])
    (s.count, s.tableLength, (List.range 10).map (findKeyValue (fun _ => 5) s),
      ((enumAll s).map (·.key)).length) =
    (9, 17, [some 10, some 11, some 12, some 1, some 14, some 15, some 16, some 17, none, some 0], 9) := by
  decide

end Morfuse.HashSet

/-!
## Part 3 — `mfuse::str` (src/Common/str.cpp): copy-on-write buffers

`U` is any finite duplicate-free family of `str` objects (`tmpH`, the temporary of an expression, is
not one of them); a history is any list of operations that names only strings of `U`
(`ValidAll U ops`; the counts of `str(text, n)` / `assign(text, n)` do not exceed `strlen(text)`).
`cstr s x` is what string `x` reads in state `s`.  The abstract model is a family of **independent**
byte strings `Nat → List UInt8`: `Spec.step` changes only the string(s) the operation names.
-/
namespace Morfuse.Str
variable {U : List Nat}

/-- **Refinement and isolation.**  After any history every string reads exactly what an independent
    abstract byte string would after the same history — whatever blocks were shared on the way
    (copy construction, `operator=`, `operator+`, moves), with spare capacity or not.  Since the
    abstract strings are independent, this *is* "strings that share storage never observe each
    other's modifications". -/
theorem C18_str_refinement (hU : U.Nodup) (ht : tmpH ∉ U) {ops : List Op} (hv : ValidAll U ops) {s : State}
    (h : run init ops = .ok s) : ∀ x ∈ U, cstr s x = Spec.run (fun _ => []) ops x :=
  (run_refines ops (hinv_init hU ht) hv (fun x _ => by simp [cstr, init, ptr]) h).2

/-- **Isolation, stated directly.**  In any reachable state, an operation through one handle never
    changes what any other handle reads (nor its `length()`): only the strings the operation names
    as destination (`targets`) can change. -/
theorem C18_str_isolation (hU : U.Nodup) (ht : tmpH ∉ U) {s s' : State} (hr : Reachable U s) {op : Op}
    (hv : Valid U op) (h : step s op = .ok s') :
    ∀ x ∈ U, x ∉ targets op → cstr s' x = cstr s x ∧ length s' x = length s x := by
  intro x hx hxt
  rcases step_refines (reachable_hinv hU ht hr) op hv with ⟨_, e, he⟩ | ⟨_, s1, h1, hi1, hs1⟩
  · rw [he] at h; cases h
  · rw [h1] at h; cases h
    have hc : cstr s' x = cstr s x := by rw [hs1 x hx, spec_step_frame _ _ _ hxt]
    refine ⟨hc, ?_⟩
    rw [hi1.inv.length_eq (hi1.mem hx), (reachable_hinv hU ht hr).inv.length_eq (List.mem_cons_of_mem _ hx), hc]

/-- One step from any reachable state is the abstract string operation on the named string
    (`append` = `++`, `CapLength n` = `take n`, `-= n` = drop the last `n`, `strip` = trim,
    `tolower/toupper` = map, `operator[] =` = point update, `str(s, a, b)` = the clamped slice, …). -/
theorem C18_str_step_refinement (hU : U.Nodup) (ht : tmpH ∉ U) {s s' : State} (hr : Reachable U s) {op : Op}
    (hv : Valid U op) (h : step s op = .ok s') : ∀ x ∈ U, cstr s' x = Spec.step (cstr s) op x := by
  rcases step_refines (reachable_hinv hU ht hr) op hv with ⟨_, e, he⟩ | ⟨_, s1, h1, _, hs1⟩
  · rw [he] at h; cases h
  · rw [h1] at h; cases h; exact hs1

/-- **Reference counts count handles; nothing leaks, nothing dangles.**  In every reachable state each
    live block has `refcount + 1` equal to the number of `str` objects pointing at it (so at least
    one), its `alloced` is the allocated capacity, `len = strlen`, and the terminator fits; every
    non-null `m_data` points at a live block; `length()` is the length of what `c_str()` shows. -/
theorem C18_str_refcount (hU : U.Nodup) (ht : tmpH ∉ U) {s : State} (hr : Reachable U s) :
    (∀ p d, s.heap.get? p = some d →
      d.refcount + 1 = (U.countP fun h => ptr s h = p) ∧ d.alloced = d.cap ∧ d.len = d.bytes.length ∧
      d.bytes.length + 1 ≤ d.cap) ∧
    (∀ h ∈ U, ptr s h ≠ 0 → ∃ d, s.heap.get? (ptr s h) = some d) ∧
    (∀ h ∈ U, length s h = (cstr s h).length) := by
  have hi := reachable_hinv hU ht hr
  refine ⟨fun p d hd => ?_, fun h hh hp => hi.inv.live h (hi.mem hh) hp, fun h hh => hi.inv.length_eq (hi.mem hh)⟩
  obtain ⟨hp0, _, hw, hc⟩ := hi.inv.heap p d hd
  refine ⟨?_, hw.1, hw.2.1, hw.2.2⟩
  rw [hc]
  unfold cnt
  have : ¬ ptr s tmpH = p := by rw [hi.tmp]; omega
  simp [List.countP_cons, this]

/-- **Faults are exactly the `assert(m_data)` guards**: in a reachable state an operation faults iff
    it is `tolower()`, `toupper()` or a write through the non-const `operator[]` on a string whose
    `m_data` is null.  In particular no history overflows a buffer, uses a freed block or reads
    characters nothing wrote. -/
theorem C18_str_faults_exact (hU : U.Nodup) (ht : tmpH ∉ U) {s : State} (hr : Reachable U s) {op : Op}
    (hv : Valid U op) : (∃ e, step s op = .error e) ↔ UB s op := by
  rcases step_refines (reachable_hinv hU ht hr) op hv with ⟨hu, he⟩ | ⟨hu, s1, h1, _, _⟩
  · exact ⟨fun _ => hu, fun _ => he⟩
  · refine ⟨?_, fun h => absurd h hu⟩
    rintro ⟨e, he⟩
    rw [h1] at he; cases he

/-- non-vacuity: "hello" is capped to 2 characters (spare capacity), copied (shared block), the
    copy is appended to, copied again, shortened, self-appended — the history is defined and every
    string reads what an independent string would ("he" for the original) -/
example : ∃ s, run init [.ctorText 0 [104, 101, 108, 108, 111], .capLength 0 2, .ctorCopy 1 0, .appendChar 1 120,
      .assignStr 2 1, .minus 2 1, .appendStr 1 1] = .ok s ∧
    cstr s 0 = [104, 101] ∧ cstr s 1 = [104, 101, 120, 104, 101, 120] ∧ cstr s 2 = [104, 101] := by
  have hU : ([0, 1, 2] : List Nat).Nodup := by decide
  have ht : tmpH ∉ ([0, 1, 2] : List Nat) := by decide
  have hv : ValidAll [0, 1, 2] [.ctorText 0 [104, 101, 108, 108, 111], .capLength 0 2, .ctorCopy 1 0, .appendChar 1 120,
      .assignStr 2 1, .minus 2 1, .appendStr 1 1] := by
    intro op hop
    simp only [List.mem_cons, List.not_mem_nil, or_false] at hop
    rcases hop with rfl | rfl | rfl | rfl | rfl | rfl | rfl <;> simp [Valid]
  obtain ⟨s, hs⟩ := run_defined (U := [0, 1, 2]) _ (hinv_init hU ht) hv (by
    intro op hop
    simp only [List.mem_cons, List.not_mem_nil, or_false] at hop
    rcases hop with rfl | rfl | rfl | rfl | rfl | rfl | rfl <;> simp [Unguarded])
  have hr := C18_str_refinement hU ht hv hs
  refine ⟨s, hs, ?_, ?_, ?_⟩
  · rw [hr 0 (by decide)]; decide
  · rw [hr 1 (by decide)]; decide
  · rw [hr 2 (by decide)]; decide

end Morfuse.Str
