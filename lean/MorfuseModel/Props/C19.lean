import MorfuseModel.BlockAlloc.Lemmas
/-!
# C19 — the pool allocator never hands out live memory and counts exactly

Property theorems only (helpers are in `BlockAlloc/*.lean`).  Every statement is about every state
reachable from the empty pool by any finite sequence of `Alloc` / legal `Free` / `FreeAll` calls,
for every block size `bs ≥ 2` (the C++ `static_assert`).  `liveOf bs s` is the list of slots
`(block, index)` that `Count()` visits; a slot names the memory `block->data[index].data`.
Alignment and the byte layout of a block are C++ facts measured by the harness, not proved here.
-/
namespace Morfuse.BlockAlloc

variable {bs : Nat} {s : State}

/-- `Alloc` returns a slot that is not in use. -/
theorem C19_alloc_fresh (hbs : 2 ≤ bs) (h : Reachable bs s) : (alloc bs s).2 ∉ liveOf bs s := by
  obtain ⟨A, hi⟩ := reachable_inv hbs h
  obtain ⟨A', ha⟩ := alloc_spec hi
  rw [liveOf_eq hi]; exact ha.fresh

/-- After `Alloc` the live set is the old one plus exactly the returned slot. -/
theorem C19_alloc_adds (hbs : 2 ≤ bs) (h : Reachable bs s) :
    (liveOf bs (alloc bs s).1).Perm ((alloc bs s).2 :: liveOf bs s) := by
  obtain ⟨A, hi⟩ := reachable_inv hbs h
  obtain ⟨A', ha⟩ := alloc_spec hi
  rw [liveOf_eq hi, liveOf_eq ha.inv]; exact ha.live

/-- After `Free p` the live set is the old one minus exactly `p`. -/
theorem C19_free_removes_only (hbs : 2 ≤ bs) (h : Reachable bs s) {p : Slot} (hp : p ∈ liveOf bs s) :
    (liveOf bs (free bs s p)).Perm ((liveOf bs s).erase p) := by
  obtain ⟨A, hi⟩ := reachable_inv hbs h
  rw [liveOf_eq hi] at hp
  obtain ⟨A', hf⟩ := free_spec hi hp
  rw [liveOf_eq hi, liveOf_eq hf.inv]; exact hf.live

/-- No slot is live twice (so `erase` above removes the only copy), every live index is inside its
    block, and block ids are real (non-null) blocks: distinct live slots are disjoint memory. -/
theorem C19_live_distinct (hbs : 2 ≤ bs) (h : Reachable bs s) :
    (liveOf bs s).Nodup ∧ ∀ p ∈ liveOf bs s, p.2 < bs ∧ p.1 ≠ 0 := by
  obtain ⟨A, hi⟩ := reachable_inv hbs h
  rw [liveOf_eq hi]
  refine ⟨hi.live_nodup, fun p hp => ?_⟩
  obtain ⟨hb, hu⟩ := hi.live_mem hp
  have hbm := hi.block_of_live hb
  exact ⟨(hi.ok p.1 hbm).lt p.2 (List.mem_append_left _ hu), fun e => hi.zero_notin (e ▸ hbm)⟩

/-- `Count()` is the number of live slots. -/
theorem C19_count_exact (bs : Nat) (s : State) : count bs s = (liveOf bs s).length :=
  count_eq_length bs s

/-- `Count()` equals allocations minus frees, for every history of `Alloc` / `Free` calls. -/
theorem C19_count_history (hbs : 2 ≤ bs) (ops : List (Op bs)) (hr : run bs init ops = some s)
    (hno : ∀ op ∈ ops, op.isFreeAll = false) : count bs s + frees ops = allocs ops := by
  have := run_count ops init s Abs.empty (init_inv hbs) hr hno
  have h0 : count bs init = 0 := by
    rw [count_eq_length, liveOf_eq (init_inv hbs)]; rfl
  omega

/-- The live slots never exceed the room of the blocks the pool holds. -/
theorem C19_capacity (hbs : 2 ≤ bs) (h : Reachable bs s) : (liveOf bs s).length ≤ bs * s.blockCount := by
  obtain ⟨A, hi⟩ := reachable_inv hbs h
  rw [liveOf_eq hi]; exact hi.live_le_capacity

/-- Reuse: while some block the pool holds has a free slot, `Alloc` does not acquire a new block. -/
theorem C19_reuse (hbs : 2 ≤ bs) (h : Reachable bs s) (hroom : (liveOf bs s).length < bs * s.blockCount) :
    (alloc bs s).1.blockCount = s.blockCount := by
  obtain ⟨A, hi⟩ := reachable_inv hbs h
  obtain ⟨A', ha⟩ := alloc_spec hi
  apply ha.keep
  by_cases hu : A.usedL = []
  · by_cases hf : s.freeBlock = 0
    · have := hi.live_eq_capacity hu hf
      rw [liveOf_eq hi] at hroom; omega
    · exact Or.inr hf
  · exact Or.inl hu

/-- … and when every block is full it acquires exactly one. -/
theorem C19_grow_when_full (hbs : 2 ≤ bs) (h : Reachable bs s)
    (hfull : (liveOf bs s).length = bs * s.blockCount) :
    (alloc bs s).1.blockCount = s.blockCount + 1 := by
  obtain ⟨A, hi⟩ := reachable_inv hbs h
  obtain ⟨A', ha⟩ := alloc_spec hi
  by_cases hk : A.usedL ≠ [] ∨ s.freeBlock ≠ 0
  · -- then the allocation fits and the live set would exceed the capacity
    have h1 := ha.keep hk
    have h2 := ha.inv.live_le_capacity
    rw [ha.live.length_eq, h1] at h2
    rw [liveOf_eq hi] at hfull
    simp at h2; omega
  · have hu : A.usedL = [] := by
      cases hA : A.usedL with
      | nil => rfl
      | cons a t => exact absurd (Or.inl (by rw [hA]; simp)) hk
    have hf : s.freeBlock = 0 := by
      cases hA : s.freeBlock with
      | zero => rfl
      | succ n => exact absurd (Or.inr (by rw [hA]; simp)) hk
    exact ha.grow hu hf

/-- `FreeAll` terminates and destroys every live slot exactly once — also when element destructors
    free other live slots of the pool (`DtorOk`: distinct, live, not the element itself) — and leaves
    the pool empty with no block held. -/
theorem C19_freeall_each_once (hbs : 2 ≤ bs) (h : Reachable bs s) {dtor : State → Slot → List Slot}
    (hd : DtorOk bs dtor) :
    ∃ s' d, freeAll bs dtor s = some (s', d) ∧ d.Perm (liveOf bs s) ∧ d.Nodup ∧
      liveOf bs s' = [] ∧ count bs s' = 0 ∧ s'.blockCount = 0 := by
  obtain ⟨A, hi⟩ := reachable_inv hbs h
  obtain ⟨s', A', d, hfa, hinv, hperm, hlive, hcnt⟩ := freeAll_spec hd hi
  refine ⟨s', d, hfa, by rw [liveOf_eq hi]; exact hperm, hperm.nodup_iff.2 hi.live_nodup, ?_, ?_, hcnt⟩
  · rw [liveOf_eq hinv]; exact hlive
  · rw [count_eq_length, liveOf_eq hinv, hlive]; rfl

/-- The hypothesis of `C19_freeall_each_once` is met by every ownership forest: if `desc p` lists the
    (distinct) elements below `p`, "destroy those of them that are still live" is admissible.  This is
    the cascade the correspondence harness drives. -/
theorem C19_cascade_admissible (bs : Nat) (desc : Slot → List Slot)
    (hdesc : ∀ p, (desc p).Nodup ∧ p ∉ desc p) :
    DtorOk bs (fun s p => (desc p).filter fun q => decide (q ∈ liveOf bs s)) := by
  intro s p _
  refine ⟨(hdesc p).1.filter _, fun hm => (hdesc p).2 (List.mem_filter.1 hm).1, fun q hq => ?_⟩
  simpa using (List.mem_filter.1 hq).2

/-! ### non-vacuity: concrete reachable states that meet the hypotheses -/

example : Reachable 2 init := ⟨[], rfl⟩

/-- a reachable state with a live slot that can be freed, and room left in its block -/
example : ∃ s p, Reachable 2 s ∧ p ∈ liveOf 2 s ∧ (liveOf 2 s).length < 2 * s.blockCount := by
  have h0 : Reachable 2 init := ⟨[], rfl⟩
  have hl0 : liveOf 2 init = [] := by rw [liveOf_eq (init_inv (by decide))]; rfl
  have hb0 : init.blockCount = 0 := rfl
  refine ⟨(alloc 2 init).1, (alloc 2 init).2, reachable_alloc h0, ?_, ?_⟩
  · exact (C19_alloc_adds (by decide) h0).mem_iff.2 (by simp)
  · have h1 := C19_grow_when_full (by decide) h0 (by rw [hl0, hb0]; rfl)
    rw [(C19_alloc_adds (by decide) h0).length_eq, hl0, h1, hb0]; decide

/-- a destructor behaviour with a real cascade that is admissible -/
example : DtorOk 2 (fun s p => ((if p = (1, 0) then [(1, 1), (2, 0)] else [] : List Slot)).filter
    fun q => decide (q ∈ liveOf 2 s)) :=
  C19_cascade_admissible 2 (fun p => if p = (1, 0) then [(1, 1), (2, 0)] else []) (by
    intro p; split
    · rename_i hp; subst hp; decide
    · simp)

end Morfuse.BlockAlloc
