import MorfuseModel.Conc.Lemmas
import MorfuseModel.Conc.PoolLemmas
/-!
# C20 — engines on different OS threads do not interfere

Property theorems only.  What a theorem can carry of C20 is the *logic of the locking discipline*:
for every number of threads, every program and every interleaving of the model
(`Conc/Model.lean`: `std::shared_mutex` as a state machine, critical sections, thread 0 = the
initialisation phase).  That the engine *follows* the discipline is tied to the source on every run
by the regenerated tables (`Gen/ConcGen.lean`, obligations by `decide`) and searched for
counter-examples under ThreadSanitizer; that C++ mutexes, thread-local storage and guarded
initialisation behave like the model is runtime truth (trusted base).
-/
namespace Morfuse.Conc

/-- **Clause 1 (discipline ⇒ ordered).**  If every write to a shared location happens under the
    exclusive mode of that location's mutex and every read under its shared or exclusive mode, or
    the location is local to one thread, or it is written only by the initialisation phase, then
    in *every* interleaving of *any* number of threads no reachable state has two different threads
    inside critical sections with conflicting accesses (same location, at least one write):
    conflicting critical sections never overlap. -/
theorem C20_discipline_implies_ordered (cls : Nat → LocClass) (P : List (List Section))
    (hd : Disciplined cls P) (sched : List Nat) : ¬ ConflictNow (run (initSt P) sched) := by
  intro hc
  have hinv := inv_run (inv_init P) sched
  have hwi := within_run (within_init P) sched
  generalize run (initSt P) sched = s at hc hinv hwi
  obtain ⟨i, j, si, sj, l, a, b, hij, ⟨ti, hti, hini, hhi⟩, ⟨tj, htj, hinj, hhj⟩, hla, hlb, hw⟩ := hc
  -- neither of the two is the initialisation phase
  have hi0 : i ≠ 0 := by
    intro e; subst e
    have hf : ti.finished = false := by simp [Thread.finished, hini]
    have := hinv.gate0 ti hti hf j tj (fun e => hij e.symm) htj
    rw [this] at hinj; cases hinj
  have hj0 : j ≠ 0 := by
    intro e; subst e
    have hf : tj.finished = false := by simp [Thread.finished, hinj]
    have := hinv.gate0 tj htj hf i ti hij hti
    rw [this] at hini; cases hini
  -- both sections belong to the programs, so they respect the classes
  have hmem : ∀ {t : Thread} {sec : Section}, t.todo.head? = some sec → sec ∈ t.todo := by
    intro t sec h
    cases htd : t.todo with
    | nil => simp [htd] at h
    | cons x rest => simp only [htd, List.head?_cons, Option.some.injEq] at h; simp [h]
  obtain ⟨pi, hpi, hsubi⟩ := hwi i ti hti
  obtain ⟨pj, hpj, hsubj⟩ := hwi j tj htj
  have oki := hd i hi0 pi hpi si (hsubi si (hmem hhi)) l a hla
  have okj := hd j hj0 pj hpj sj (hsubj sj (hmem hhj)) l b hlb
  have hhi' := holds_of_inside hini hhi
  have hhj' := holds_of_inside hinj hhj
  unfold AccessOk at oki okj
  cases hcl : cls l with
  | «local» o =>
    simp only [hcl] at oki okj
    exact hij (oki.symm.trans okj)
  | initOnly =>
    simp only [hcl] at oki okj
    rcases hw with h | h
    · rw [oki] at h; cases h
    · rw [okj] at h; cases h
  | guarded m =>
    simp only [hcl] at oki okj
    obtain ⟨hmi, hwi', hni⟩ := oki
    obtain ⟨hmj, hwj', hnj⟩ := okj
    rw [hmi] at hhi'; rw [hmj] at hhj'
    rcases hw with h | h
    · rw [hwi' h] at hhi'
      exact excl_alone hinv hij hti htj hhi' hhj' hnj
    · rw [hwj' h] at hhj'
      exact excl_alone hinv (fun e => hij e.symm) htj hti hhj' hhi' hni

/-- **Clause 2 (the converse witness; the shape of finding D19).**  A location written under the
    *shared* mode of its mutex by two threads has a reachable state in which both writes are in
    progress: `lock_shared` does not exclude another `lock_shared`. -/
theorem C20_shared_writers_overlap (m l : Nat) :
    ConflictNow (run (initSt [[], [⟨m, .shared, [(l, .write)]⟩], [⟨m, .shared, [(l, .write)]⟩]]) [1, 2]) := by
  refine ⟨1, 2, ⟨m, .shared, [(l, .write)]⟩, ⟨m, .shared, [(l, .write)]⟩, l, .write, .write, by decide, ?_, ?_,
    by simp, by simp, Or.inl rfl⟩
  · refine ⟨{ inside := true, todo := [⟨m, .shared, [(l, .write)]⟩] }, ?_, rfl, rfl⟩
    simp [run, step, initSt, gate, Thread.finished, St.setMtx, Mtx.canAcquire, Mtx.idle, Mtx.acquire]
  · refine ⟨{ inside := true, todo := [⟨m, .shared, [(l, .write)]⟩] }, ?_, rfl, rfl⟩
    simp [run, step, initSt, gate, Thread.finished, St.setMtx, Mtx.canAcquire, Mtx.idle, Mtx.acquire]

/-! ### from the regenerated lock table to the discipline -/

/-- the critical section a call of a `BlockAllocSafe` method is: the pool's mutex in the mode the
    method takes it, one access to the pool state (a write iff the wrapped method assigns it) -/
def sectionOf (poolLoc mtx : Nat) (r : MethodRow) : Section :=
  ⟨mtx, r.lock, [(poolLoc, if r.writes then .write else .read)]⟩

/-- **Table ⇒ discipline ⇒ ordered.**  If the regenerated table satisfies the two obligations the
    check discharges by `decide` (`writersExclusive`, `readersLocked`), then any number of threads
    making any sequences of calls to the facade-reachable methods on one shared pool — after any
    initialisation phase — never have two conflicting pool accesses in progress, in any
    interleaving. -/
theorem C20_table_discipline (tbl : List MethodRow) (hw : writersExclusive tbl = true)
    (hr : readersLocked tbl = true) (poolLoc mtx : Nat) (initp : List Section)
    (calls : List (List MethodRow))
    (hcalls : ∀ c ∈ calls, ∀ r ∈ c, r ∈ tbl ∧ r.reachable = true) (sched : List Nat) :
    ¬ ConflictNow (run (initSt (initp :: calls.map (·.map (sectionOf poolLoc mtx)))) sched) := by
  apply C20_discipline_implies_ordered (fun l => if l = poolLoc then .guarded mtx else .local 0)
  intro i hi prog hp sec hs l a hla
  cases i with
  | zero => exact absurd rfl hi
  | succ n =>
    simp only [List.getElem?_cons_succ, List.getElem?_map, Option.map_eq_some_iff] at hp
    obtain ⟨c, hc, rfl⟩ := hp
    simp only [List.mem_map] at hs
    obtain ⟨r, hrc, rfl⟩ := hs
    obtain ⟨hrt, hreach⟩ := hcalls c (List.mem_of_getElem? hc) r hrc
    simp only [sectionOf, List.mem_singleton, Prod.mk.injEq] at hla
    obtain ⟨rfl, rfl⟩ := hla
    have h1 := List.all_eq_true.mp hw r hrt
    have h2 := List.all_eq_true.mp hr r hrt
    simp only [AccessOk, if_true, sectionOf, true_and]
    constructor
    · intro hwri
      cases hwr : r.writes with
      | false => simp [hwr] at hwri
      | true => simpa [hwr] using h1
    · intro hn
      simp [hreach, hn] at h2

/-- … and a table with a facade-reachable writer under the *shared* lock (what the code had in the
    tree before fix 2b93469: `Alloc`/`Free` took `std::shared_lock`) admits an interleaving in which two
    threads write the pool state at the same time. -/
theorem C20_table_shared_writer_overlaps (r : MethodRow) (hl : r.lock = .shared) (hwr : r.writes = true)
    (poolLoc mtx : Nat) :
    ConflictNow (run (initSt [[], [sectionOf poolLoc mtx r], [sectionOf poolLoc mtx r]]) [1, 2]) := by
  have : sectionOf poolLoc mtx r = ⟨mtx, .shared, [(poolLoc, .write)]⟩ := by simp [sectionOf, hl, hwr]
  rw [this]
  exact C20_shared_writers_overlap mtx poolLoc

/-! ### non-vacuity -/

/-- a concrete disciplined program: location 0 guarded by mutex 7, location 1 written by the
    initialisation phase only, locations 2 and 3 local to threads 1 and 2 -/
private def exCls : Nat → LocClass := fun l =>
  if l = 0 then .guarded 7 else if l = 1 then .initOnly else .local (l - 1)

private def exP : List (List Section) :=
  [ [⟨0, .none, [(1, .write)]⟩],
    [⟨7, .exclusive, [(0, .write)]⟩, ⟨0, .none, [(1, .read), (2, .write)]⟩],
    [⟨7, .shared, [(0, .read)]⟩, ⟨7, .exclusive, [(0, .read), (0, .write)]⟩, ⟨0, .none, [(3, .write), (1, .read)]⟩] ]

example : Disciplined exCls exP := by
  intro i hi prog hp sec hs l a
  match i, hi, hp with
  | 1, _, hp =>
    simp only [exP, List.getElem?_cons_succ, List.getElem?_cons_zero, Option.some.injEq] at hp
    subst hp
    simp only [List.mem_cons, List.not_mem_nil, or_false] at hs
    rcases hs with rfl | rfl
    all_goals (revert l a; simp only [AccessOk, exCls, List.mem_cons, Prod.mk.injEq, List.not_mem_nil, or_false]; intro l a h; rcases h with ⟨rfl, rfl⟩ | ⟨rfl, rfl⟩ <;> simp_all)
  | 2, _, hp =>
    simp only [exP, List.getElem?_cons_succ, List.getElem?_cons_zero, Option.some.injEq] at hp
    subst hp
    simp only [List.mem_cons, List.not_mem_nil, or_false] at hs
    rcases hs with rfl | rfl | rfl
    all_goals (revert l a; simp only [AccessOk, exCls, List.mem_cons, Prod.mk.injEq, List.not_mem_nil, or_false]; intro l a h; rcases h with ⟨rfl, rfl⟩ | ⟨rfl, rfl⟩ <;> simp_all)
  | n + 3, _, hp => simp [exP] at hp

/-- the schedule really gets threads inside their sections (the theorem is not about idle states):
    after the initialisation phase, thread 2 holds mutex 7 shared and thread 1 is blocked on it -/
example : ((run (initSt exP) [0, 0, 2, 1]).thr.map (·.inside)) = [false, false, true] := by decide
example : ((run (initSt exP) [0, 0, 2, 2, 1]).thr.map (·.inside)) = [false, true, false] := by decide

/-- a table that satisfies the hypotheses of `C20_table_discipline` (the code after the repair) -/
example : writersExclusive [⟨"Alloc", .exclusive, "Alloc", true, true⟩, ⟨"Free", .exclusive, "Free", true, true⟩,
    ⟨"Count", .exclusive, "Count", false, false⟩] = true ∧
    readersLocked [⟨"Alloc", .exclusive, "Alloc", true, true⟩, ⟨"Free", .exclusive, "Free", true, true⟩,
    ⟨"Count", .exclusive, "Count", false, false⟩] = true := by decide

/-! ### contexts sharing the locked pool (`Conc/Pool.lean`) -/

namespace Pool
open Morfuse.BlockAlloc (Slot liveOf)

/-- **Clause 3 (independent results).**  N contexts on N OS threads share one pool whose
    `Alloc`/`Free` take the mutex *exclusively* (each call is a read-modify-write of the pool state
    with the lock held in between, not an atomic step) and otherwise touch only the slots they were
    handed.  In every interleaving, at every moment, the output of every context is what the
    specification computes from the operations that context has completed — a function of its own
    program only, hence the same as when the context runs alone (`C20_same_as_alone`). -/
theorem C20_independent_results (bs : Nat) (hbs : 2 ≤ bs) (P : List (List POp)) (sched : List Nat)
    (i : Nat) (t : PThread) (ht : (run bs .exclusive (initSt P) sched).thr[i]? = some t) :
    P[i]? = some (t.done ++ t.todo) ∧ t.out = (specRun t.done).out :=
  ⟨prog_run (prog_init P) sched i t ht, ((pinv_run hbs (pinv_init bs P) sched).sim i t ht).1⟩

/-- … in particular a context that ran to completion next to any other contexts, under any
    schedule, has printed exactly what it prints when it is the only context of the process. -/
theorem C20_same_as_alone (bs : Nat) (hbs : 2 ≤ bs) (P : List (List POp)) (sched : List Nat)
    (i : Nat) (prog : List POp) (hp : P[i]? = some prog) (t : PThread)
    (ht : (run bs .exclusive (initSt P) sched).thr[i]? = some t) (hfin : t.todo = [])
    (sched1 : List Nat) (t1 : PThread)
    (ht1 : (run bs .exclusive (initSt [prog]) sched1).thr[0]? = some t1) (hfin1 : t1.todo = []) :
    t.out = t1.out := by
  obtain ⟨h1, h2⟩ := C20_independent_results bs hbs P sched i t ht
  obtain ⟨h3, h4⟩ := C20_independent_results bs hbs [prog] sched1 0 t1 ht1
  rw [hfin, List.append_nil, hp] at h1
  rw [hfin1, List.append_nil] at h3
  simp only [List.getElem?_cons_zero, Option.some.injEq] at h1 h3
  rw [h2, h4, ← h1, ← h3]

/-- **No slot is handed to two threads** (nor twice to one): in every interleaving the slots the
    contexts hold are pairwise different and all live in the pool. -/
theorem C20_pool_no_slot_twice (bs : Nat) (hbs : 2 ≤ bs) (P : List (List POp)) (sched : List Nat)
    (i j : Nat) (ti tj : PThread) (k k' : Nat) (h : Slot)
    (hi : (run bs .exclusive (initSt P) sched).thr[i]? = some ti)
    (hj : (run bs .exclusive (initSt P) sched).thr[j]? = some tj)
    (hk : ti.handles[k]? = some h) (hk' : tj.handles[k']? = some h) :
    (i = j ∧ k = k') ∧ h ∈ liveOf bs (run bs .exclusive (initSt P) sched).pool :=
  have inv := pinv_run hbs (pinv_init bs P) sched
  ⟨inv.inj i j ti tj k k' h hi hj hk hk', inv.live i ti k h hi hk⟩

/-- **Linearizability of the locked pool.**  Whatever the interleaving, the pool state is the state
    the *sequential* allocator reaches on some sequential history of `Alloc`/`Free` calls (the order
    in which the calls released the lock), so every theorem of C19 applies to it. -/
theorem C20_pool_linearizable (bs : Nat) (hbs : 2 ≤ bs) (P : List (List POp)) (sched : List Nat) :
    ∃ ops : List (Morfuse.BlockAlloc.Op bs),
      Morfuse.BlockAlloc.run bs Morfuse.BlockAlloc.init ops = some (run bs .exclusive (initSt P) sched).pool :=
  (pinv_run hbs (pinv_init bs P) sched).reach

/-- … and a context inside a pool call always works on the current pool state: nobody else wrote
    the pool between its `lock()` and its `unlock()`. -/
theorem C20_pool_snapshot_current (bs : Nat) (hbs : 2 ≤ bs) (P : List (List POp)) (sched : List Nat)
    (i : Nat) (t : PThread) (p : Morfuse.BlockAlloc.State)
    (ht : (run bs .exclusive (initSt P) sched).thr[i]? = some t) (hs : t.snap = some p) :
    p = (run bs .exclusive (initSt P) sched).pool :=
  (snap_current (pinv_run hbs (pinv_init bs P) sched) ht hs).1

/-- **The same system with the lock the code takes today (`std::shared_lock` in `Alloc`).**  Two
    contexts allocate at the same time; both calls read the same pool state, both are handed the
    *same* slot, and the first context reads back the value the second one constructed there:
    its output (`[2]`) differs from its output when alone (`[1]`).  This is finding D19. -/
theorem C20_shared_pool_hands_slot_twice (bs : Nat) :
    let s := run bs .shared (initSt [[.alloc 1, .get 0], [.alloc 2]]) [0, 1, 0, 1, 0]
    (s.thr[0]?.map (·.handles)) = some [(Morfuse.BlockAlloc.alloc bs Morfuse.BlockAlloc.init).2] ∧
    (s.thr[1]?.map (·.handles)) = some [(Morfuse.BlockAlloc.alloc bs Morfuse.BlockAlloc.init).2] ∧
    (s.thr[0]?.map (·.out)) = some [2] ∧
    (specRun [.alloc 1, .get 0]).out = [1] := by
  simp [run, step, initSt, Mtx.canAcquire, Mtx.idle, Mtx.acquire, Mtx.release, upd, specRun, specStep]

/-- non-vacuity: the specification of a context that uses every operation -/
example : (specRun [.alloc 5, .alloc 6, .get 1, .put 0 7, .get 0, .free 0, .get 0, .get 1]).out = [6, 7, 6, 0] := by
  decide

/-- non-vacuity: under the exclusive lock the two contexts of the witness above do get different
    slots and context 0 reads its own value, whatever the pool's block size -/
example (bs : Nat) (hbs : 2 ≤ bs) (t : PThread)
    (ht : (run bs .exclusive (initSt [[.alloc 1, .get 0], [.alloc 2]]) [0, 1, 0, 1, 0, 1, 1]).thr[0]? = some t)
    (hfin : t.todo = []) : t.out = [1] := by
  obtain ⟨h1, h2⟩ := C20_independent_results bs hbs _ _ 0 t ht
  rw [hfin, List.append_nil] at h1
  simp only [List.getElem?_cons_zero, Option.some.injEq] at h1
  rw [h2, ← h1]; decide

end Pool

end Morfuse.Conc
