import MorfuseModel.Conc.Table
/-! # C20 — engines on different OS threads do not interfere (placeholder, theorems follow) -/
namespace Morfuse.Conc

/-- a table whose writers are all exclusive has no writer under a shared lock -/
theorem C20_table_no_shared_writer (t : List MethodRow) (h : writersExclusive t = true) :
    ∀ r ∈ t, r.writes = true → r.lock = .exclusive := by
  intro r hr hw
  have := List.all_eq_true.mp h r hr
  simp [hw] at this
  exact this

end Morfuse.Conc
