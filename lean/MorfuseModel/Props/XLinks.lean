import MorfuseModel.XLinks.Lemmas
import MorfuseModel.Archive.Value
import MorfuseModel.Gen.ArchiveTable
/-!
# XL — cross-model links: independent transcriptions of the same C++ agree

Property theorems only (helpers: `MorfuseModel/XLinks/Lemmas.lean`; as built: `notes/XL-design.md`).

`Lang.Value` (C03, reference semantics of the typed fragment) and `VMOps.{Value,Ops,Index,Step}` (C04, value
layer for all kinds) both transcribe the operators, casts and index functions of `ScriptVariable.cpp`; each is
tied to the code by its own differential run only.  The theorems below say that the two transcriptions compute
the same function on the kinds both have (NIL, integer, string, char, array), so that one correspondence
vouches for both and a later edit to either model that breaks the agreement fails the build — and with it the
checks of C03 **and** C04, which both audit this file.

Embedding `emb ρ : Lang.Val → VMOps.Val`: a `Lang` string stands for the byte string with one byte per `Char`
(`Lang.strBytes`, the reading `chrToString` / `indexVal` / `unSize` use); the invariant `WF` (every `Char` of a
string is below 256) is needed only where two strings are compared (`==`, `!=`, array keys), where the
embedding has to be injective.  `Lang` arrays are references into a heap of holders, `VMOps` arrays are by
value: `ρ h` is the content `VMOps` sees for holder `h`; operators never look at it (so the theorems hold for
every `ρ`), `size` and indexing do and ask for `Represents ρ heap`.

Error outcomes agree up to the class (`Cls`): `Lang.Err.type _` = `CastError | IncompatibleOperator |
InvalidAppliedType`, `divZero` = `DivideByZero`, `index _` = `TypeIndexOutOfRange`, `badKey` =
`BadHashCodeValue`.  `Lang.Value` transcribes the repaired operators (`INT64_MIN / -1`, shift counts); the
agreement therefore asks for the two repair flags of `VMOps.Fixes` (`_code` variants: for the regenerated flags
`codeFixes`, under the hypothesis `codeFixes = Fixes.all` that `tools/props/c04.py` discharges per flag).
-/
namespace Morfuse.Props.XLinks
open Morfuse Morfuse.XLinks Morfuse.Gen

/-! ## the sixteen `Func2Expr` operators -/

/-- **Every binary operator, all operand values of the common kinds**: `Lang.binop` returns a value iff
    `VMOps.step` returns its embedding, and a script error iff `VMOps.step` throws a class of the same kind
    (see `XL_binop_ok_iff`, `XL_binop_err_iff`, `XL_binop_no_ub` for the three readings). -/
theorem XL_binop_agree (fx : VMOps.Fixes) (hd : fx.divMin = true) (hs : fx.shiftCount = true) (ρ : Content)
    (op : Lang.BinOp) (a b : Lang.Val) (wa : WF a) (wb : WF b) :
    Agree ρ (Lang.binop op a b) (VMOps.step fx (opOf op) [emb ρ a, emb ρ b]) :=
  binop_agree fx ρ hd hs op a b wa wb

/-- the same for the code as it is now (`codeFixes` = the regenerated repair flags) -/
theorem XL_binop_agree_code (h : VMOps.codeFixes = VMOps.Fixes.all) (ρ : Content)
    (op : Lang.BinOp) (a b : Lang.Val) (wa : WF a) (wb : WF b) :
    Agree ρ (Lang.binop op a b) (VMOps.step VMOps.codeFixes (opOf op) [emb ρ a, emb ρ b]) := by
  rw [h]; exact binop_agree _ ρ rfl rfl op a b wa wb

/-- value outcomes coincide (which value: `XL_binop_agree`) -/
theorem XL_binop_ok_iff (fx : VMOps.Fixes) (hd : fx.divMin = true) (hs : fx.shiftCount = true) (ρ : Content)
    (op : Lang.BinOp) (a b : Lang.Val) (wa : WF a) (wb : WF b) :
    (∃ r, Lang.binop op a b = .ok r) ↔ (∃ v, VMOps.step fx (opOf op) [emb ρ a, emb ρ b] = .ok v) :=
  agree_ok_iff (binop_agree fx ρ hd hs op a b wa wb)

/-- error outcomes coincide, class by class -/
theorem XL_binop_err_iff (fx : VMOps.Fixes) (hd : fx.divMin = true) (hs : fx.shiftCount = true) (ρ : Content)
    (op : Lang.BinOp) (a b : Lang.Val) (wa : WF a) (wb : WF b) (c : Cls) :
    (∃ e, Lang.binop op a b = .error e ∧ lcls e = c) ↔
      (∃ e' lhs, VMOps.step fx (opOf op) [emb ρ a, emb ρ b] = .err e' lhs ∧ vcls e' = c) :=
  agree_err_iff (binop_agree fx ρ hd hs op a b wa wb) c

/-- with the two repairs present neither side is undefined on the common fragment (`Lang.binop` has no
    undefined outcome at all: it describes the repaired operators) -/
theorem XL_binop_no_ub (fx : VMOps.Fixes) (hd : fx.divMin = true) (hs : fx.shiftCount = true) (ρ : Content)
    (op : Lang.BinOp) (a b : Lang.Val) (wa : WF a) (wb : WF b) :
    (VMOps.step fx (opOf op) [emb ρ a, emb ρ b]).isUb = false :=
  agree_not_ub (binop_agree fx ρ hd hs op a b wa wb)

/-- **The code as first read** (any state of the repair flags): on the common fragment `VMOps` is undefined exactly
    on `INT64_MIN / -1`, `INT64_MIN % -1` while `divMin` is off, and on `<<` / `>>` by a count outside `0..63`
    (as an unsigned number) while `shiftCount` is off — the inputs on which `Lang.binop` returns the repaired
    code's value (`-x` wrapped, `0`, the count masked to six bits).  Everywhere else the two agree whatever the flags. -/
theorem XL_binop_ub_iff (fx : VMOps.Fixes) (ρ : Content) (op : Lang.BinOp) (a b : Lang.Val) (wa : WF a) (wb : WF b) :
    (VMOps.step fx (opOf op) [emb ρ a, emb ρ b]).isUb = true ↔
      (fx.divMin = false ∧ (op = .div ∨ op = .mod) ∧ a = .int VMOps.minInt ∧ b = .int VMOps.negOne) ∨
      (fx.shiftCount = false ∧ (op = .shl ∨ op = .shr) ∧ ∃ x y, a = .int x ∧ b = .int y ∧ 64 ≤ y.toNat) :=
  binop_ub_iff fx ρ op a b wa wb

/-- results of operators satisfy the invariant again (the agreement composes along an expression) -/
theorem XL_binop_wf (op : Lang.BinOp) (a b r : Lang.Val) (wa : WF a) (wb : WF b)
    (h : Lang.binop op a b = .ok r) : WF r :=
  binop_wf op a b r wa wb h

/-- `==` between a string and a number compares the string with the number's decimal text (two empty strings
    are equal); both models, spelled out -/
theorem XL_eq_string_number_agree (fx : VMOps.Fixes) (s : String) (v : BitVec 64) (ws : ByteStr s) :
    Lang.binop .eq (.str s) (.int v) = .ok (Lang.boolVal (Lang.strEq s (Lang.intToString v))) ∧
    VMOps.step fx (.bin .eq) [.str (Lang.strBytes s), .int v] =
      .ok (VMOps.b2i (((Lang.strBytes s).isEmpty && (VMOps.intToStr v).isEmpty) || Lang.strBytes s == VMOps.intToStr v)) ∧
    (((Lang.strBytes s).isEmpty && (VMOps.intToStr v).isEmpty) || Lang.strBytes s == VMOps.intToStr v)
      = Lang.strEq s (Lang.intToString v) := by
  refine ⟨rfl, rfl, ?_⟩
  rw [← strBytes_intToString]
  exact strEq_agree ws (byteStr_intToString v)

/-! ## unary operators -/

/-- `-a`, `~a`, `a++`, `a--` (`minus`, `complement`, `operator++(int)`, `operator--(int)`), every flag state -/
theorem XL_unop_agree (fx : VMOps.Fixes) (ρ : Content) (a : Lang.Val) :
    Agree ρ (Lang.unNeg a) (VMOps.step fx .minus [emb ρ a]) ∧
    Agree ρ (Lang.unCompl a) (VMOps.step fx .compl [emb ρ a]) ∧
    Agree ρ (Lang.unIncr 1 a) (VMOps.step fx .inc [emb ρ a]) ∧
    Agree ρ (Lang.unIncr (-1) a) (VMOps.step fx .dec [emb ρ a]) :=
  ⟨neg_agree fx ρ a, compl_agree fx ρ a, incr_agree fx ρ a, decr_agree fx ρ a⟩

/-- `strtoll` of the two models is the same function (`-"5"`, `~"5"`, `"5"++`, `"abc"["1"]`) -/
theorem XL_strtoll_agree (s : String) : Lang.strToLong s = VMOps.strtoll (Lang.strBytes s) :=
  strToLong_agree s

/-- `booleanValue()` — `if`, `while`, `!`, `&&`, `||` -/
theorem XL_truthy_agree (fx : VMOps.Fixes) (ρ : Content) (a : Lang.Val) :
    VMOps.boolOf (emb ρ a) = a.truthy ∧
    VMOps.step fx .boolValue [emb ρ a] = .ok (emb ρ (Lang.boolVal a.truthy)) ∧
    VMOps.step fx .castBool [emb ρ a] = .ok (emb ρ (Lang.boolVal a.truthy)) := by
  have h := truthy_agree ρ a
  refine ⟨h, ?_, ?_⟩ <;> simp only [VMOps.step, h] <;> rfl

/-- `stringValue()` — what `println` prints and what `string + x` appends -/
theorem XL_stringValue_agree (fx : VMOps.Fixes) (ρ : Content) (a : Lang.Val) :
    VMOps.strOf fx (emb ρ a) = .ok (Lang.strBytes a.stringValue) ∧
    VMOps.step fx .strValue [emb ρ a] = .ok (emb ρ (.str a.stringValue)) ∧
    VMOps.step fx .castStr [emb ρ a] = .ok (emb ρ (.str a.stringValue)) := by
  have h := stringValue_agree fx ρ a
  refine ⟨h, ?_, ?_⟩ <;> simp only [VMOps.step, VMOps.ofR, h] <;> rfl

/-- the text of a number is ASCII: the byte reading of `Lang` and the UTF-8 bytes of `VMOps` are the same list -/
theorem XL_intToString_agree (v : BitVec 64) : Lang.strBytes (Lang.intToString v) = VMOps.intToStr v :=
  strBytes_intToString v

/-- `typenames[]` as both models spell it -/
theorem XL_typeName_agree (ρ : Content) (a : Lang.Val) : (emb ρ a).kind.typeName = Lang.typeName a := by
  cases a <;> rfl

/-! ## `size` and r-value indexing -/

/-- `OP_UN_SIZE` -/
theorem XL_size_agree (fx : VMOps.Fixes) (ρ : Content) (heap : Lang.Heap) (hρ : Represents ρ heap) (a : Lang.Val) :
    VMOps.step fx .size [emb ρ a] = .ok (emb ρ (Lang.unSize heap a)) :=
  size_agree fx ρ heap hρ a

/-- `evalArrayAt`: `NIL[i]`, `string[i]` (integer or numeric-string index), `array[key]`, errors on the rest -/
theorem XL_index_agree (fx : VMOps.Fixes) (ρ : Content) (heap : Lang.Heap) (hρ : Represents ρ heap)
    (hw : HeapWF heap) (a i : Lang.Val) (wi : WF i) :
    Agree ρ (Lang.indexVal heap a i) (VMOps.step fx .evalAt [emb ρ a, emb ρ i]) :=
  index_agree fx ρ heap hρ hw a i wi

/-! ## kind codes: `variableType_e` as C04 and C10 regenerate it, and as the hand models number it -/

/-- The regenerated `variableType_e` order of C04 (`Gen/OpAccept.lean`) and of C10 (`Gen/ArchiveTable.lean`)
    is the same list; `VMOps.Kind.toNat` is the position of the kind in it; `Archive.Value.code` of every kind
    the archive model covers in all its versions (None, String, Integer, Float, Char, ConstString, ConstArray,
    Vector) is `Kind.toNat` of the corresponding `VMOps` kind; the `typenames[]` entry of each is what
    `Kind.typeName` says. -/
theorem XL_kind_codes_agree :
    Archive.varTypeNames = OpAccept.kindNames ∧
    VMOps.Kind.all.map (fun k => OpAccept.kindNames[k.toNat]?) =
      [some "None", some "String", some "Integer", some "Float", some "Char", some "ConstString", some "Listener",
       some "Ref", some "Array", some "ConstArray", some "Container", some "SafeContainer", some "Pointer",
       some "Vector"] ∧
    VMOps.Kind.all.map (fun k => OpAccept.typeNames[k.toNat]?) = VMOps.Kind.all.map (fun k => some k.typeName) ∧
    [Morfuse.Archive.Value.none, .string [], .int 0, .float 0, .char 0, .constString none, .constArray 0 0 [],
      .vector []].map Morfuse.Archive.Value.code =
      [VMOps.Kind.none, .string, .int, .float, .char, .cstring, .carray, .vector].map VMOps.Kind.toNat := by
  decide

/-- the kinds of the `Lang` fragment sit at the positions None, Integer, String, Char, Array of the regenerated
    enumeration -/
theorem XL_lang_kind_codes (ρ : Content) (a : Lang.Val) :
    OpAccept.kindNames[(emb ρ a).kind.toNat]? =
      some (match a with
        | .nil => "None" | .int _ => "Integer" | .str _ => "String" | .chr _ => "Char" | .arr _ => "Array") := by
  cases a <;> simp only [emb, VMOps.Val.kind, VMOps.Kind.toNat] <;> decide

/-! ## non-vacuity -/

example : Lang.binop .add (.int 7) (.int 5) = .ok (.int 12) := by rfl
example : VMOps.step VMOps.Fixes.all (opOf .add) [emb (fun _ => []) (.int 7), emb (fun _ => []) (.int 5)] = .ok (.int 12) := by rfl
example : Lang.binop .div (.int 7) (.int 0) = .error .divZero := by rfl
example : VMOps.step VMOps.Fixes.all (opOf .div) [.int 7, .int 0] = .err .divideByZero (.int 7) := by rfl
example : vcls .divideByZero = lcls .divZero := by rfl
example : Lang.binop .div (.int Lang.intMin) (.int (-1)) = .ok (.int Lang.intMin) := by rfl
example : VMOps.step VMOps.Fixes.all (opOf .div) [.int Lang.intMin, .int (-1)] = .ok (.int Lang.intMin) := by rfl
example : Lang.binop .shl (.int 1) (.int 65) = .ok (.int 2) := by rfl
/-- without the repair the `VMOps` side is undefined: the hypotheses `hd`, `hs` are needed -/
example : (VMOps.step VMOps.Fixes.none (opOf .shl) [.int 1, .int 65]).isUb = true := by rfl
example : (VMOps.step VMOps.Fixes.none (opOf .mod) [.int VMOps.minInt, .int VMOps.negOne]).isUb = true := by rfl
example : ∃ e, Lang.binop .add (.int 7) .nil = .error e ∧ lcls e = .type := ⟨_, rfl, rfl⟩
example : VMOps.step VMOps.Fixes.all (opOf .add) [.int 7, .nil] = .err .incompatibleOperator .nil := by rfl
example : Lang.binop .ne (.chr 200) (.int (-56)) = .ok (.int 0) := by rfl
example : WF (.str "abc") := by intro c hc; revert c hc; decide
example : ¬ WF (.str "Ā") := by intro h; exact absurd (h (Char.ofNat 256) (by decide)) (by decide)
example : Represents (fun _ => []) [] := by intro h; simp
example : Represents (fun h => if h = 0 then [(.int 1, .int 5)] else []) [[(.int 1, .int 5)]] := by
  intro h
  match h with
  | 0 => rfl
  | n + 1 => simp [List.getD]
example : Lang.unNeg (.int 5) = .ok (.int (-5)) := by rfl
example : ∃ e, Lang.unNeg .nil = .error e ∧ lcls e = .type := ⟨_, rfl, rfl⟩
example : VMOps.step VMOps.Fixes.all .minus [.nil] = .err .castError .nil := by rfl
example : Lang.Val.truthy (.int 0) = false ∧ Lang.Val.truthy (.chr 0) = true := by decide
example : Lang.indexVal [] .nil (.int 3) = .ok .nil := by rfl

end Morfuse.Props.XLinks
