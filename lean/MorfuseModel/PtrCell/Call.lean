import MorfuseModel.PtrCell.Model
import MorfuseModel.Sched.Timer
/-!
# The host call protocol on result cells: call records, parameter stores, `end <expr>`

`ScriptMaster::ExecuteThread(script, Event&, label)` → `ScriptThread::Execute(Event&)` →
`ScriptThread::ScriptExecute` / `ScriptVM::SetFastData` / `OP_STORE_PARAM` / `ScriptVM::End*` /
`Listener::CreateReturnThread`, transcribed on top of the `ScriptPointer` cell model: every
`ScriptVariable` the protocol touches (the slots of the host's `Event` records, the VM's argument buffer
`fastEvent`, `m_ReturnValue`, script variables of the scopes `local` / `level` / `game` / `parm` / `group`)
is one cell of `PtrCell.State`, every C++ statement is one or more `PtrCell.step`s (`ap`), so the cell part
of every state of this model is `PtrCell.Reachable` by construction (`Lemmas`: `cells_reachable`).

Not modelled: temporaries that live inside one C++ statement (operand stack, the `Event` of a script
command).  They can only change which branch of `ScriptPointer::setValueRef` runs, and the branches differ
only in what is left in the ending VM's own `m_ReturnValue`, which is destroyed right after.
Values other than "pending" are opaque tokens (the driver interns them).
-/
namespace Morfuse.CallRec
open Morfuse.PtrCell (Op isPtr listOf)
open Morfuse.Sched (Timer)

/-- a script variable: scope 0 `local`, 1 `level`, 2 `game`, 3 `parm`, 4 `group` -/
structure Tgt where
  scope : Nat
  name : Nat
  deriving Repr, DecidableEq, Inhabited

/-- operand of `end`: none, a literal (`none` = `NIL`), a variable -/
inductive EndV | none | lit (v : Option Nat) | var (t : Tgt) deriving Repr, DecidableEq, Inhabited

inductive Instr
  | set (t : Tgt) (v : Option Nat)                       -- `T = <literal>` / `T = NIL`
  | print (t : Tgt)                                      -- `println "p" T`
  | wait (ms : Nat)                                      -- `wait d`, d > 0
  | thread (t : Tgt) (label : Nat) (args : List Tgt)     -- `T = thread tK a1 a2 …`
  | end_ (e : EndV)
  deriving Repr, DecidableEq, Inhabited

/-- one label with its declared parameters and the code up to the next label (section 0: the code in
    front of the first label; it has no parameters) -/
structure Sec where
  params : List Tgt := []
  body : List Instr := []
  deriving Repr, Inhabited

structure Th where
  tid : Nat
  inst : Nat
  sec : Nat
  pc : Nat := 0                     -- next instruction of the section's body
  entered : Bool := false           -- the label's STORE_PARAM sequence has run
  fast : List Nat := []             -- `fastEvent.data`
  fastIndex : Nat := 0
  ret : Nat                         -- `m_ReturnValue`
  deriving Repr, Inhabited

structure State where
  cells : PtrCell.State := {}
  nextCell : Nat := 1
  stuck : Bool := false             -- a cell operation the cell model rejects was attempted
  outOfFuel : Bool := false
  prog : List Sec := []
  threads : List Th := []           -- suspended threads (timed waits)
  timer : Timer := {}
  clock : Nat := 0
  scaled : Nat := 0
  lastClock : Nat := 0
  vars : List ((Nat × Nat × Nat) × Nat) := []   -- (scope, owner, name) ↦ cell; owner: the thread of a
                                                -- `local`, the instance of a `group`, 0 otherwise
  insts : List (Nat × Nat) := []             -- instance ↦ number of threads
  records : List (List Nat) := []            -- the host's `Event`s: data cells
  out : List (Nat × Nat) := []               -- printed (kind, value), reverse order
  nextTid : Nat := 100
  nextInst : Nat := 1

/-- one statement on cells -/
def ap (s : State) (op : Op) : State :=
  match PtrCell.step s.cells op with
  | some c => { s with cells := c }
  | none => { s with stuck := true }

def fresh (s : State) : Nat × State := (s.nextCell, { s with nextCell := s.nextCell + 1 })

/-- `ScriptVariable x;` -/
def newNone (s : State) : Nat × State :=
  (s.nextCell, ap { s with nextCell := s.nextCell + 1 } (.newCell s.nextCell))

/-- `c.Clear()` -/
def setNil (s : State) (c : Nat) : State :=
  ap (ap (ap { s with nextCell := s.nextCell + 1 } (.newCell s.nextCell)) (.assign s.nextCell c)) (.destroy s.nextCell)

/-- a literal into `c` -/
def setLit (s : State) (c : Nat) : Option Nat → State
  | some v => ap s (.setInt c v)
  | none => setNil s c

/-- the variable list a target lives in: the thread's, the script instance's, or a context object's -/
def key (th : Th) (t : Tgt) : Nat × Nat × Nat :=
  (t.scope, if t.scope = 0 then th.tid else if t.scope = 4 then th.inst else 0, t.name)

def lookup (s : State) (th : Th) (t : Tgt) : Option Nat :=
  (s.vars.find? (·.1 == key th t)).map (·.2)

/-- `ScriptVariableList::GetOrCreateVariable` of the scope's object -/
def getOrCreate (s : State) (th : Th) (t : Tgt) : Nat × State :=
  match lookup s th t with
  | some c => (c, s)
  | none =>
    (s.nextCell, { ap { s with nextCell := s.nextCell + 1 } (.newCell s.nextCell) with
                     vars := s.vars ++ [(key th t, s.nextCell)] })

/-- the value of variable `t` as a new variable (an `Event` argument) -/
def copyOf (s : State) (th : Th) (t : Tgt) : Nat × State :=
  match lookup s th t with
  | some c => (s.nextCell, ap { s with nextCell := s.nextCell + 1 } (.copyTo c s.nextCell))
  | none => newNone s

/-- `OP_STORE_PARAM` and the store that follows it:
    `if (fastIndex < fastEvent.NumArgs()) top = fastEvent[++fastIndex]; else top = NIL;  P = top` -/
def bindOne (s : State) (th : Th) (p : Tgt) : State × Th :=
  if th.fastIndex < th.fast.length then
    (ap (getOrCreate s th p).2 (.assign (th.fast.getD th.fastIndex 0) (getOrCreate s th p).1),
     { th with fastIndex := th.fastIndex + 1 })
  else (setNil (getOrCreate s th p).2 (getOrCreate s th p).1, th)

/-- the parameter list of a label: one `bindOne` per declared parameter, in order -/
def bindAll (s : State) (th : Th) : List Tgt → State × Th
  | [] => (s, th)
  | p :: ps => bindAll (bindOne s th p).1 (bindOne s th p).2 ps

/-- `m_ReturnValue.setPointerRef(value)` (`ScriptPointer::setValueRef(value, m_ReturnValue)`), `a` =
    `m_ReturnValue`, `tmp` = the value.  A plain value goes through the cell model's `endRef`; NIL leaves
    every sharer None (what `Clear` does); a value that is itself a pending result makes every sharer a
    sharer of that other cell (`*pVar = value` registers `pVar` there), the holder is gone afterwards. -/
def endFrom (s : State) (a tmp : Nat) : State :=
  if !isPtr s.cells a then s else
  let k := s.cells.kind.get tmp
  if k == 0 then ap s (.endPlain a)
  else if k == 1 then ap s (.endRef a (s.cells.val.get tmp))
  else
    let l := listOf s.cells (s.cells.val.get a)
    let two := l.length == 2 && l.contains a
    let targets := if two then l.filter (· != a) else l
    let s := targets.reverse.foldl (fun s c => if c == tmp then setNil s c else ap s (.assign tmp c)) s
    if two then setNil s a else s

/-- `delete thread`: `~ScriptVM` (`m_ReturnValue`, `fastEvent`), the thread's `local` variables,
    `ScriptClass::RemoveThread` (the instance and its `group` variables die with the last thread) -/
def deleteThread (s : State) (th : Th) : State :=
  let s := ap s (.destroy th.ret)
  let s := th.fast.foldl (fun s c => ap s (.destroy c)) s
  let mine := fun (e : (Nat × Nat × Nat) × Nat) => e.1.1 == 0 && e.1.2.1 == th.tid
  let s := (s.vars.filter mine).foldl (fun s e => ap s (.destroy e.2)) s
  let s := { s with vars := s.vars.filter (fun e => !mine e) }
  let n : Nat := ((s.insts.find? (·.1 == th.inst)).map (·.2)).getD 0
  if n ≤ 1 then
    let grp := fun (e : (Nat × Nat × Nat) × Nat) => e.1.1 == 4 && e.1.2.1 == th.inst
    let s := (s.vars.filter grp).foldl (fun s e => ap s (.destroy e.2)) s
    { s with insts := s.insts.filter (fun e => !(e.1 == th.inst)),
             vars := s.vars.filter (fun e => !grp e) }
  else { s with insts := s.insts.map (fun e => if e.1 == th.inst then (e.1, e.2 - 1) else e) }

/-- `end` / `end <expr>` (`ScriptThread::EventEnd` → `ScriptVM::End` / `EndRef`), then `delete thread` -/
def finish (s : State) (th : Th) (e : EndV) : State :=
  let s := match e with
    | .none => if isPtr s.cells th.ret then ap s (.endPlain th.ret) else s
    | .lit v =>
      let (t, s) := newNone s
      let s := setLit s t v
      ap (endFrom s th.ret t) (.destroy t)
    | .var x =>
      let (t, s) := copyOf s th x
      ap (endFrom s th.ret t) (.destroy t)
  deleteThread s th

/-- the arguments of a call as new variables: `SetFastData(view)` copies every value -/
def copyCells (s : State) (l : List Nat) : List Nat × State :=
  l.foldl (fun (acc : List Nat × State) a =>
    let (b, s) := fresh acc.2
    (acc.1 ++ [b], ap s (.copyTo a b))) ([], s)

/-- `ScriptVM::Execute` of thread `th`: runs until the thread waits or ends -/
def runTh : Nat → State → Th → State
  | 0, s, _ => { s with outOfFuel := true }
  | fuel + 1, s, th =>
    match s.prog[th.sec]? with
    | none => finish s th .none                 -- end of the script: `OP_DONE`
    | some sec =>
      if !th.entered then
        -- the label's parameter list (also when the thread falls into the label from the code above it)
        runTh fuel (bindAll s th sec.params).1 { (bindAll s th sec.params).2 with entered := true }
      else
        match sec.body[th.pc]? with
        | none => runTh fuel s { th with sec := th.sec + 1, pc := 0, entered := false }   -- falls into the next label
        | some ins =>
          let th := { th with pc := th.pc + 1 }
          match ins with
          | .set t v =>
            let (c, s) := getOrCreate s th t
            runTh fuel (setLit s c v) th
          | .print t =>
            let o := match lookup s th t with
              | some c => (s.cells.kind.get c, s.cells.val.get c)
              | none => (0, 0)
            runTh fuel { s with out := o :: s.out } th
          | .wait ms =>
            -- Wait(): AddTiming(this, ms); Suspend()
            { s with timer := s.timer.add th.tid (s.scaled + ms), threads := s.threads ++ [th] }
          | .thread t l args =>
            if l = 0 ∨ l ≥ s.prog.length then runTh fuel s th else
            -- Listener::CreateReturnThread: returnValue.newPointer(); ExecuteThreadInternal(ev, returnValue)
            let (r, s) := newNone s
            let s := ap s (.newPointer r)
            let (fastCells, s) := args.foldl (fun (acc : List Nat × State) a =>
              let (c, s) := copyOf acc.2 th a
              (acc.1 ++ [c], s)) ([], s)
            let (m, s) := newNone s
            let s := ap s (.assign r m)                -- m_ScriptVM->m_ReturnValue = returnValue
            let child : Th := { tid := s.nextTid, inst := th.inst, sec := l, fast := fastCells, ret := m }
            let s := { s with nextTid := s.nextTid + 1,
                              insts := s.insts.map (fun e => if e.1 == th.inst then (e.1, e.2 + 1) else e) }
            let s := runTh fuel s child
            -- ev.AddValue(returnValue); the VM stores the command's result into T
            let (c, s) := getOrCreate s th t
            let s := ap s (.assign r c)
            let s := ap s (.destroy r)
            runTh fuel s th
          | .end_ e => finish s th e

def defaultFuel : Nat := 2000

/-- the `while ((m_CurrentThread = GetNextElement()))` loop of `ScriptMaster::ExecuteRunning` -/
def drain : Nat → State → State
  | 0, s => { s with outOfFuel := true }
  | fuel + 1, s =>
    match s.timer.next with
    | (none, tm) => { s with timer := tm }
    | (some (t, _), tm) =>
      let s := { s with timer := tm }
      match s.threads.find? (·.tid == t) with
      | none => drain fuel s
      | some th =>
        let s := { s with threads := s.threads.filter (fun x => !(x.tid == t)) }
        drain fuel (runTh defaultFuel s th)

/-- a new `Event` with the given argument values (`AddValue` of each); returns its index -/
def newRecord (s : State) (vals : List (Option Nat)) : Nat × State :=
  let (cs, s) := vals.foldl (fun (acc : List Nat × State) v =>
    let (c, s) := newNone acc.2
    (acc.1 ++ [c], setLit s c v)) ([], s)
  (s.records.length, { s with records := s.records ++ [cs] })

/-- `director.ExecuteThread(script, record, label)`; `start = none`: no label (top of the script).
    Returns the answer and whether the started thread is still alive. -/
def hostCall (s : State) (start : Option Nat) (rec : Nat) : State × String × Bool :=
  let bad : Bool := match start with | some l => l == 0 || decide (l ≥ s.prog.length) | none => false
  if bad || decide (rec ≥ s.records.length) then (s, "err LabelNotFound", false) else
  let args := s.records.getD rec []
  -- ScriptThread::Execute(Event&): returnValue.newPointer(2)
  let (r, s) := newNone s
  let s := ap s (.newPointer r)
  -- ScriptExecute(ev.GetListView(), returnValue): m_ReturnValue = returnValue; SetFastData(view)
  let (m, s) := newNone s
  let s := ap s (.assign r m)
  let (fastCells, s) := copyCells s args
  let t := s.nextTid
  let th : Th := { tid := t, inst := s.nextInst, sec := start.getD 0, fast := fastCells, ret := m }
  let s := { s with nextTid := t + 1, nextInst := s.nextInst + 1, insts := s.insts ++ [(s.nextInst, 1)] }
  let s := runTh defaultFuel s th
  -- ExecuteRunning() at the end of ScriptExecuteInternal
  let s := if s.timer.dirty then drain defaultFuel s else s
  -- if (!returnValue.IsNone()) ev.AddValue(std::move(returnValue));
  let s :=
    if s.cells.kind.get r ≠ 0 then
      let (b, s) := fresh s
      let s := ap s (.moveTo r b)
      { s with records := s.records.mapIdx (fun i l => if i = rec then l ++ [b] else l) }
    else s
  let s := ap s (.destroy r)
  (s, "ok", s.threads.any (·.tid == t))

/-- `ScriptContext::Execute()` at time scale 1 with the injected clock -/
def hostExecute (s : State) : State :=
  let delta := s.clock - s.lastClock
  let s := { s with scaled := s.scaled + delta, lastClock := s.clock }
  let s := { s with timer := s.timer.setTime s.clock }
  drain defaultFuel s

end Morfuse.CallRec
