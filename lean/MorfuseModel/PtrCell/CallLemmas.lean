import MorfuseModel.PtrCell.Call
import MorfuseModel.PtrCell.Lemmas
/-!
# Lemmas about the call-record model (`PtrCell/Call.lean`)

`ap` either performs a step of the cell model or leaves the cells alone and raises `stuck`; the lemmas
about what a variable reads after `Clear()` / `GetOrCreateVariable` / one `STORE_PARAM` hold for every
state, the ones that say a write took place need "not stuck".
-/
namespace Morfuse.CallRec
open Morfuse.PtrCell (Op isPtr listOf)
open Morfuse

theorem ap_stuck_mono (s : State) (op : Op) (h : s.stuck = true) : (ap s op).stuck = true := by
  unfold ap; cases PtrCell.step s.cells op <;> simp [h]

/-- a statement that did not get stuck was a step of the cell model -/
theorem ap_ok {s : State} {op : Op} (h : (ap s op).stuck = false) :
    s.stuck = false ∧ ∃ c, PtrCell.step s.cells op = some c ∧ ap s op = { s with cells := c } := by
  unfold ap at h ⊢
  cases hs : PtrCell.step s.cells op with
  | none => rw [hs] at h; simp at h
  | some c => rw [hs] at h; exact ⟨by simpa using h, c, rfl, rfl⟩

theorem step_newCell {s s' : PtrCell.State} {t : Nat} (h : PtrCell.step s (.newCell t) = some s') :
    s'.kind.get t = 0 ∧ (∀ x, s.kind.get x = 0 → s'.kind.get x = 0) := by
  simp only [PtrCell.step] at h
  split at h
  · cases h
    refine ⟨by simp [Mem.get_set], fun x hx => ?_⟩
    simp only [Mem.get_set]; split <;> simp [hx]
  · cases h

theorem setData_kind (w : PtrCell.State) (a b : Nat) :
    (PtrCell.setData w a b).kind = w.kind.set b (w.kind.get a) := by
  unfold PtrCell.setData
  simp only []
  split <;> rfl

theorem clearW_nil (s : PtrCell.State) (b x : Nat) (hx : s.kind.get x = 0) :
    (PtrCell.writeNone (PtrCell.clearInternal s b) b).kind.get x = 0 := by
  unfold PtrCell.writeNone PtrCell.clearInternal PtrCell.holderRemove
  split <;> (simp only [Mem.get_set]; split <;> simp [hx])

theorem step_assign_nil {s s' : PtrCell.State} {a b : Nat} (h : PtrCell.step s (.assign a b) = some s')
    (ha : s.kind.get a = 0) :
    s'.kind.get b = 0 ∧ (∀ x, s.kind.get x = 0 → s'.kind.get x = 0) := by
  simp only [PtrCell.step] at h
  split at h
  · cases h
    rw [setData_kind, clearW_nil s b a ha]
    refine ⟨by simp, fun x hx => ?_⟩
    simp only [Mem.get_set]
    split
    · rfl
    · exact clearW_nil s b x hx
  · cases h

theorem step_destroy_nil {s s' : PtrCell.State} {a : Nat} (h : PtrCell.step s (.destroy a) = some s') :
    ∀ x, s.kind.get x = 0 → s'.kind.get x = 0 := by
  simp only [PtrCell.step] at h
  split at h
  · cases h
    intro x hx
    simp only [Mem.get_set]
    split
    · rfl
    · unfold PtrCell.clearInternal PtrCell.holderRemove; split <;> simp [hx]
  · cases h

theorem ap_frame (s : State) (op : Op) :
    (ap s op).vars = s.vars ∧ (ap s op).nextCell = s.nextCell ∧
    (ap s op).records = s.records ∧ (ap s op).insts = s.insts ∧ (ap s op).threads = s.threads := by
  unfold ap; cases PtrCell.step s.cells op <;> simp

theorem setNil_stuck_mono (s : State) (c : Nat) (h : s.stuck = true) : (setNil s c).stuck = true := by
  unfold setNil
  exact ap_stuck_mono _ _ (ap_stuck_mono _ _ (ap_stuck_mono _ _ h))

/-- `Clear()`: the variable reads NIL afterwards, whatever it held; every variable that read NIL still does -/
theorem setNil_spec {s : State} {c : Nat} (h : (setNil s c).stuck = false) :
    (setNil s c).cells.kind.get c = 0 ∧
    (∀ x, s.cells.kind.get x = 0 → (setNil s c).cells.kind.get x = 0) ∧
    (setNil s c).vars = s.vars := by
  unfold setNil at h ⊢
  obtain ⟨h2, c3, e3, r3⟩ := ap_ok h
  obtain ⟨h1, c2, e2, r2⟩ := ap_ok h2
  obtain ⟨h0, c1, e1, r1⟩ := ap_ok h1
  have f3 := ap_frame (ap (ap { s with nextCell := s.nextCell + 1 } (.newCell s.nextCell)) (.assign s.nextCell c)) (.destroy s.nextCell)
  have f2 := ap_frame (ap { s with nextCell := s.nextCell + 1 } (.newCell s.nextCell)) (.assign s.nextCell c)
  have f1 := ap_frame { s with nextCell := s.nextCell + 1 } (.newCell s.nextCell)
  refine ⟨?_, ?_, by rw [f3.1, f2.1, f1.1]⟩
  all_goals (
    rw [r3]; rw [r2] at e3; rw [r1] at e2
    simp only at e1 e2 e3 ⊢
    have n1 := step_newCell e1
    have n2 := step_assign_nil e2 n1.1
    have n3 := step_destroy_nil e3)
  · exact n3 _ n2.1
  · exact fun x hx => n3 _ (n2.2 _ (n1.2 _ hx))

theorem ap_nil_newCell (s : State) (t x : Nat) (hx : s.cells.kind.get x = 0) :
    (ap s (.newCell t)).cells.kind.get x = 0 := by
  unfold ap
  cases hs : PtrCell.step s.cells (.newCell t) with
  | none => simpa using hx
  | some c => exact (step_newCell hs).2 x hx

theorem lookup_congr {s s' : State} (th : Th) (q : Tgt) (h1 : s'.vars = s.vars) :
    lookup s' th q = lookup s th q := by
  unfold lookup; rw [h1]

/-- `GetOrCreateVariable`: the variable exists afterwards, every variable that existed is still the same
    cell, nothing that read NIL reads anything else -/
theorem getOrCreate_spec (s : State) (th : Th) (p : Tgt) :
    lookup (getOrCreate s th p).2 th p = some (getOrCreate s th p).1 ∧
    (∀ q c, lookup s th q = some c → lookup (getOrCreate s th p).2 th q = some c) ∧
    (∀ x, s.cells.kind.get x = 0 → (getOrCreate s th p).2.cells.kind.get x = 0) ∧
    (s.stuck = true → (getOrCreate s th p).2.stuck = true) := by
  unfold getOrCreate
  cases hl : lookup s th p with
  | some c => exact ⟨hl, fun q c h => h, fun x hx => hx, fun h => h⟩
  | none =>
    simp only []
    refine ⟨?_, ?_, fun x hx => ap_nil_newCell _ _ x hx, fun h => ap_stuck_mono _ _ h⟩
    · unfold lookup at hl ⊢
      simp only [Option.map_eq_none_iff] at hl
      simp only [List.find?_append, hl]
      simp
    · intro q c hq
      unfold lookup at hq ⊢
      obtain ⟨x, hx, hxc⟩ := Option.map_eq_some_iff.1 hq
      simp only [List.find?_append, hx]
      simpa using hxc

theorem bindOne_stuck_mono (s : State) (th : Th) (p : Tgt) (h : s.stuck = true) : (bindOne s th p).1.stuck = true := by
  unfold bindOne
  split
  · exact ap_stuck_mono _ _ ((getOrCreate_spec s th p).2.2.2 h)
  · exact setNil_stuck_mono _ _ ((getOrCreate_spec s th p).2.2.2 h)

theorem bindAll_stuck_mono : ∀ (ps : List Tgt) (s : State) (th : Th), s.stuck = true → (bindAll s th ps).1.stuck = true
  | [], _, _, h => h
  | p :: ps, s, th, h => bindAll_stuck_mono ps _ _ (bindOne_stuck_mono s th p h)

/-- one `STORE_PARAM` + store: the argument buffer is only read; the index moves by one while arguments are left -/
theorem bindOne_index (s : State) (th : Th) (p : Tgt) :
    (bindOne s th p).2.fast = th.fast ∧ (bindOne s th p).2.tid = th.tid ∧ (bindOne s th p).2.inst = th.inst ∧
    th.fastIndex ≤ (bindOne s th p).2.fastIndex ∧ (bindOne s th p).2.fastIndex ≤ th.fastIndex + 1 ∧
    (th.fast.length ≤ th.fastIndex → (bindOne s th p).2 = th) := by
  unfold bindOne
  split
  · rename_i h; exact ⟨rfl, rfl, rfl, Nat.le_succ _, Nat.le_refl _, fun h' => absurd h (Nat.not_lt.2 h')⟩
  · exact ⟨rfl, rfl, rfl, Nat.le_refl _, Nat.le_succ _, fun _ => rfl⟩

theorem lookup_th_congr (s : State) {th th' : Th} (q : Tgt) (h1 : th'.tid = th.tid) (h2 : th'.inst = th.inst) :
    lookup s th' q = lookup s th q := by
  unfold lookup key; rw [h1, h2]

/-- the argument list is exhausted: the parameter's variable reads NIL afterwards **whatever it held**, and
    every variable that read NIL (the unmatched parameters in front of it) still does -/
theorem bindOne_exhausted {s : State} {th : Th} {p : Tgt} (hex : th.fast.length ≤ th.fastIndex)
    (hns : (bindOne s th p).1.stuck = false) :
    (∃ c, lookup (bindOne s th p).1 th p = some c ∧ (bindOne s th p).1.cells.kind.get c = 0) ∧
    (∀ q c, lookup s th q = some c → s.cells.kind.get c = 0 →
      lookup (bindOne s th p).1 th q = some c ∧ (bindOne s th p).1.cells.kind.get c = 0) := by
  have hlt : ¬ th.fastIndex < th.fast.length := Nat.not_lt.2 hex
  unfold bindOne at hns ⊢
  simp only [hlt, if_false] at hns ⊢
  have g := getOrCreate_spec s th p
  have n := setNil_spec hns
  constructor
  · exact ⟨(getOrCreate s th p).1, by rw [lookup_congr th p n.2.2]; exact g.1, n.1⟩
  · intro q c hq hk
    exact ⟨by rw [lookup_congr th q n.2.2]; exact g.2.1 q c hq, n.2.1 c (g.2.2.1 c hk)⟩

/-- unmatched parameters stay NIL through the rest of the parameter list -/
theorem bindAll_keeps_nil : ∀ (ps : List Tgt) (s : State) (th : Th), th.fast.length ≤ th.fastIndex →
    (bindAll s th ps).1.stuck = false → ∀ q c, lookup s th q = some c → s.cells.kind.get c = 0 →
      (bindAll s th ps).2 = th ∧ lookup (bindAll s th ps).1 th q = some c ∧ (bindAll s th ps).1.cells.kind.get c = 0
  | [], _, _, _, _, _, _, hq, hk => ⟨rfl, hq, hk⟩
  | p :: ps, s, th, hex, hns, q, c, hq, hk => by
    have hth := (bindOne_index s th p).2.2.2.2.2 hex
    have h1 : (bindOne s th p).1.stuck = false := by
      cases h : (bindOne s th p).1.stuck with
      | false => rfl
      | true => have := bindAll_stuck_mono ps _ (bindOne s th p).2 h; simp only [bindAll] at hns; rw [this] at hns; cases hns
    have e := (bindOne_exhausted hex h1).2 q c hq hk
    simp only [bindAll] at hns ⊢
    rw [hth] at hns ⊢
    exact bindAll_keeps_nil ps _ th hex hns q c e.1 e.2

theorem bindOne_index_succ (s : State) (th : Th) (p : Tgt) (h : th.fastIndex < th.fast.length) :
    (bindOne s th p).2.fastIndex = th.fastIndex + 1 := by
  unfold bindOne; simp [h]

theorem bindAll_unmatched_nil : ∀ (ps : List Tgt) (s : State) (th : Th),
    (bindAll s th ps).1.stuck = false → ∀ i, i < ps.length → th.fast.length ≤ th.fastIndex + i →
    ∃ c, lookup (bindAll s th ps).1 th (ps.getD i default) = some c ∧ (bindAll s th ps).1.cells.kind.get c = 0
  | [], _, _, _, i, hi, _ => by simp at hi
  | p :: ps, s, th, hns, i, hi, hex => by
    have ix := bindOne_index s th p
    have h1 : (bindOne s th p).1.stuck = false := by
      cases h : (bindOne s th p).1.stuck with
      | false => rfl
      | true => have := bindAll_stuck_mono ps _ (bindOne s th p).2 h; simp only [bindAll] at hns; rw [this] at hns; cases hns
    cases i with
    | zero =>
      have hex0 : th.fast.length ≤ th.fastIndex := by simpa using hex
      obtain ⟨c, hc, hk⟩ := (bindOne_exhausted hex0 h1).1
      have hth := ix.2.2.2.2.2 hex0
      simp only [bindAll] at hns ⊢
      rw [hth] at hns ⊢
      have k := bindAll_keeps_nil ps _ th hex0 hns p c hc hk
      exact ⟨c, by simpa using k.2.1, k.2.2⟩
    | succ j =>
      simp only [bindAll] at hns ⊢
      have hj : j < ps.length := by simpa using hi
      have hex' : (bindOne s th p).2.fast.length ≤ (bindOne s th p).2.fastIndex + j := by
        rw [ix.1]
        by_cases hlt : th.fastIndex < th.fast.length
        · rw [bindOne_index_succ s th p hlt]; omega
        · have := ix.2.2.2.1; omega
      obtain ⟨c, hc, hk⟩ := bindAll_unmatched_nil ps _ _ hns j hj hex'
      refine ⟨c, ?_, hk⟩
      rw [lookup_th_congr _ _ ix.2.1 ix.2.2.1] at hc
      simpa using hc

theorem copyTo_frame {s s' : PtrCell.State} {a b : Nat} (h : PtrCell.step s (.copyTo a b) = some s') :
    ∀ x, x ≠ b → s'.kind.get x = s.kind.get x ∧ s'.val.get x = s.val.get x := by
  simp only [PtrCell.step] at h
  split at h
  · cases h
    intro x hx
    unfold PtrCell.setData
    simp only []
    split <;> simp [Mem.get_set, hx]
  · cases h

theorem ap_copyTo_frame (s : State) (a b x : Nat) (hx : x ≠ b) :
    (ap s (.copyTo a b)).cells.kind.get x = s.cells.kind.get x ∧ (ap s (.copyTo a b)).cells.val.get x = s.cells.val.get x := by
  unfold ap
  cases hs : PtrCell.step s.cells (.copyTo a b) with
  | none => exact ⟨rfl, rfl⟩
  | some c => exact copyTo_frame hs x hx

theorem copyCells_frame (s0 : State) : ∀ (l : List Nat) (acc : List Nat × State), s0.nextCell ≤ acc.2.nextCell →
    (∀ x, x < s0.nextCell → acc.2.cells.kind.get x = s0.cells.kind.get x ∧ acc.2.cells.val.get x = s0.cells.val.get x) →
    ∀ x, x < s0.nextCell →
      (l.foldl (fun (acc : List Nat × State) a =>
        let (b, s) := fresh acc.2
        (acc.1 ++ [b], ap s (.copyTo a b))) acc).2.cells.kind.get x = s0.cells.kind.get x ∧
      (l.foldl (fun (acc : List Nat × State) a =>
        let (b, s) := fresh acc.2
        (acc.1 ++ [b], ap s (.copyTo a b))) acc).2.cells.val.get x = s0.cells.val.get x
  | [], _, _, h, x, hx => h x hx
  | a :: l, acc, hn, h, x, hx => by
    simp only [List.foldl_cons]
    apply copyCells_frame s0 l _ _ _ x hx
    · simp only [fresh]
      rw [(ap_frame _ _).2.1]; simp only []; omega
    · intro y hy
      simp only [fresh]
      have hyb : y ≠ acc.2.nextCell := by omega
      have f := ap_copyTo_frame { acc.2 with nextCell := acc.2.nextCell + 1 } a acc.2.nextCell y hyb
      rw [f.1, f.2]; exact h y hy

theorem step_newCell_frame {s s' : PtrCell.State} {t : Nat} (h : PtrCell.step s (.newCell t) = some s') :
    ∀ x, x ≠ t → s'.kind.get x = s.kind.get x ∧ s'.val.get x = s.val.get x := by
  simp only [PtrCell.step] at h
  split at h
  · cases h; intro x hx; simp [Mem.get_set, hx]
  · cases h

theorem setData_val (w : PtrCell.State) (a b : Nat) :
    (PtrCell.setData w a b).val = w.val.set b (w.val.get a) := by
  unfold PtrCell.setData
  simp only []
  split <;> rfl

theorem clearW_frame (s : PtrCell.State) (b x : Nat) (hx : x ≠ b) :
    (PtrCell.writeNone (PtrCell.clearInternal s b) b).kind.get x = s.kind.get x ∧
    (PtrCell.writeNone (PtrCell.clearInternal s b) b).val.get x = s.val.get x := by
  unfold PtrCell.writeNone PtrCell.clearInternal PtrCell.holderRemove
  split <;> simp [Mem.get_set, hx]

/-- `*b = *a`: `b` has the kind and value of `a`, nothing else changes kind or value -/
theorem step_assign_copy {s s' : PtrCell.State} {a b : Nat} (h : PtrCell.step s (.assign a b) = some s') :
    s'.kind.get b = s.kind.get a ∧ s'.val.get b = s.val.get a ∧
    (∀ x, x ≠ b → s'.kind.get x = s.kind.get x ∧ s'.val.get x = s.val.get x) := by
  simp only [PtrCell.step] at h
  split at h
  · rename_i g
    cases h
    have hab : a ≠ b := g.2.2
    rw [setData_kind, setData_val, (clearW_frame s b a hab).1, (clearW_frame s b a hab).2]
    refine ⟨by simp, by simp, fun x hx => ?_⟩
    simp only [Mem.get_set, hx, if_false]
    exact clearW_frame s b x hx
  · cases h

theorem step_destroy_frame {s s' : PtrCell.State} {t : Nat} (h : PtrCell.step s (.destroy t) = some s') :
    ∀ x, x ≠ t → s'.kind.get x = s.kind.get x ∧ s'.val.get x = s.val.get x := by
  simp only [PtrCell.step] at h
  split at h
  · cases h
    intro x hx
    simp only [Mem.get_set, hx, if_false]
    unfold PtrCell.clearInternal PtrCell.holderRemove; split <;> simp
  · cases h

/-- `c.Clear()` touches no other variable -/
theorem setNil_frame {s : State} {c : Nat} (h : (setNil s c).stuck = false) (x : Nat) (hc : x ≠ c) (hn : x ≠ s.nextCell) :
    (setNil s c).cells.kind.get x = s.cells.kind.get x ∧ (setNil s c).cells.val.get x = s.cells.val.get x := by
  unfold setNil at h ⊢
  obtain ⟨h2, c3, e3, r3⟩ := ap_ok h
  obtain ⟨h1, c2, e2, r2⟩ := ap_ok h2
  obtain ⟨_, c1, e1, r1⟩ := ap_ok h1
  rw [r3]; rw [r2] at e3; rw [r1] at e2
  simp only at e1 e2 e3 ⊢
  have n1 := step_newCell_frame e1 x hn
  have n2 := (step_assign_copy e2).2.2 x hc
  have n3 := step_destroy_frame e3 x hn
  exact ⟨by rw [n3.1, n2.1, n1.1], by rw [n3.2, n2.2, n1.2]⟩

/-- **`end <pending result>` inside the call.**  The started thread ends while only the host's `returnValue`
    (`r`) and the VM's `m_ReturnValue` (`a`) share its result cell, with a value that is itself a pending
    result (kind Pointer, the result cell of a helper that still waits): afterwards `returnValue` *is* that
    pending result — not None, so `Execute(Event&)` appends it to the record, and (`C05_result_reaches_every_sharer`)
    it receives the helper's value when the helper ends. -/
theorem endFrom_pending_two {s : State} {a tmp r : Nat} (hp : isPtr s.cells a = true)
    (hk : s.cells.kind.get tmp = 2) (hl : listOf s.cells (s.cells.val.get a) = [r, a])
    (hra : r ≠ a) (hrt : r ≠ tmp) (hrn : r ≠ s.nextCell) (hns : (endFrom s a tmp).stuck = false) :
    (endFrom s a tmp).cells.kind.get r = 2 ∧ (endFrom s a tmp).cells.val.get r = s.cells.val.get tmp := by
  have hra' : (r != a) = true := by simpa using hra
  have hrt' : (r == tmp) = false := by simpa using hrt
  unfold endFrom at hns ⊢
  simp only [hp, hk, hl, Bool.not_true, Bool.false_eq_true, if_false, List.length_cons, List.length_nil,
    List.contains_cons, List.contains_nil, beq_self_eq_true, Bool.or_false, Bool.or_true, Bool.and_true,
    if_true, List.filter_cons, hra', bne_self_eq_false, List.filter_nil,
    List.reverse_cons, List.reverse_nil, List.nil_append, List.foldl_cons, List.foldl_nil, hrt'] at hns ⊢
  simp only [show ((2 : Nat) == 0) = false from rfl, show ((2 : Nat) == 1) = false from rfl, Bool.false_eq_true, if_false,
    show (0 + 1 + 1 == 2) = true from rfl, if_true] at hns ⊢
  have h1 : (ap s (.assign tmp r)).stuck = false := by
    cases h : (ap s (.assign tmp r)).stuck with
    | false => rfl
    | true => rw [setNil_stuck_mono _ _ h] at hns; cases hns
  obtain ⟨_, c1, e1, r1⟩ := ap_ok h1
  have f := setNil_frame hns r hra (by rw [(ap_frame _ _).2.1]; exact hrn)
  rw [f.1, f.2, r1]
  have a1 := step_assign_copy e1
  exact ⟨by simp only []; rw [a1.1, hk], by simp only []; rw [a1.2.1]⟩
end Morfuse.CallRec
