import MorfuseModel.PtrCell.Model
import MorfuseModel.Sched.TablesLemmas
/-!
# Invariant of the ScriptPointer model: the holder's list is exactly the set of live sharers
-/
namespace Morfuse.PtrCell
open Morfuse.Sched (Tbl)

structure Inv (s : State) : Prop where
  listed : ∀ h c, c ∈ listOf s h → s.live.get c = 1 ∧ s.kind.get c = 2 ∧ s.val.get c = h
  member : ∀ c, s.live.get c = 1 → s.kind.get c = 2 → c ∈ listOf s (s.val.get c)
  nodup : ∀ h, (listOf s h).Nodup
  fresh : ∀ h, s.nextH ≤ h → listOf s h = []

theorem key_eq (h h' : Nat) : ((h', 0) : Nat × Nat) = (h, 0) ↔ h' = h := by
  constructor
  · intro e; exact (Prod.mk.inj e).1
  · intro e; rw [e]

theorem init_inv : Inv init := by
  refine ⟨?_, ?_, ?_, ?_⟩ <;> simp [init, listOf, Tbl.getD_nil]

theorem listOf_push (s : State) (h x h' : Nat) :
    Tbl.getD (Tbl.push s.hl (h, 0) x) (h', 0) = if h' = h then listOf s h ++ [x] else listOf s h' := by
  rw [Tbl.getD_push]; simp only [key_eq, listOf]

theorem listOf_removeAll (s : State) (h x h' : Nat) :
    Tbl.getD (Tbl.removeAll s.hl (h, 0) x).1 (h', 0) =
      if h' = h then (listOf s h).filter (· != x) else listOf s h' := by
  rw [Tbl.getD_removeAll]; simp only [key_eq, listOf]

theorem listOf_removeKey (s : State) (h h' : Nat) :
    Tbl.getD (Tbl.removeKey s.hl (h, 0)) (h', 0) = if h' = h then [] else listOf s h' := by
  rw [Tbl.getD_removeKey]; simp only [key_eq, listOf]

/-- a cell that is not live is in no list -/
theorem not_listed_of_dead {s : State} (hi : Inv s) {a : Nat} (ha : s.live.get a ≠ 1) (h : Nat) :
    a ∉ listOf s h := fun hm => ha (hi.listed h a hm).1

/-- `clearInternal` keeps the invariant except that cell `a` itself may now be a Pointer that is not
    listed; stated as an invariant of the state in which `a` has been reset to None -/
theorem clear_then_none_inv {s : State} (hi : Inv s) (a : Nat) :
    Inv (writeNone (clearInternal s a) a) := by
  unfold clearInternal
  by_cases hp : isPtr s a = true
  · have hk : s.kind.get a = 2 := by simpa [isPtr] using hp
    simp only [hp, if_true, writeNone, holderRemove]
    refine ⟨?_, ?_, ?_, ?_⟩
    · intro h c hc
      simp only [listOf] at hc
      rw [listOf_removeAll] at hc
      by_cases hh : h = s.val.get a
      · simp only [hh, if_true, List.mem_filter] at hc
        have hca : c ≠ a := by simpa using hc.2
        have := hi.listed _ c hc.1
        simp only [Mem.get_set, hca, if_false, hh]; exact this
      · simp only [hh, if_false] at hc
        have := hi.listed h c hc
        have hca : c ≠ a := by
          intro e; subst e; exact hh this.2.2.symm
        simp only [Mem.get_set, hca, if_false]; exact this
    · intro c hl hk'
      simp only [Mem.get_set] at hk'
      by_cases hca : c = a
      · simp [hca] at hk'
      · simp only [hca, if_false] at hk'
        have := hi.member c hl hk'
        simp only [listOf]
        rw [listOf_removeAll]
        by_cases hh : s.val.get c = s.val.get a
        · simp only [hh, if_true, List.mem_filter]
          refine ⟨by rw [← hh]; exact this, by simpa using hca⟩
        · simp only [hh, if_false]; exact this
    · intro h
      simp only [listOf]; rw [listOf_removeAll]
      split
      · exact (hi.nodup _).filter _
      · exact hi.nodup h
    · intro h hh
      simp only [listOf]; rw [listOf_removeAll]
      have := hi.fresh h hh
      split
      · rename_i e; rw [← e, this]; rfl
      · exact this
  · have hp' : isPtr s a = false := by simpa using hp
    have hk : s.kind.get a ≠ 2 := by simpa [isPtr] using hp'
    simp only [hp', Bool.false_eq_true, if_false, writeNone]
    refine ⟨?_, ?_, hi.nodup, hi.fresh⟩
    · intro h c hc
      have := hi.listed h c hc
      have hca : c ≠ a := by intro e; subst e; exact hk this.2.1
      simp only [Mem.get_set, hca, if_false]; exact this
    · intro c hl hk'
      simp only [Mem.get_set] at hk'
      by_cases hca : c = a
      · simp [hca] at hk'
      · simp only [hca, if_false] at hk'
        exact hi.member c hl hk'

/-- `setData a b` into a live, None, unlisted cell `b ≠ a` keeps the invariant -/
theorem setData_inv {s : State} (hi : Inv s) {a b : Nat} (hab : a ≠ b)
    (hb : s.live.get b = 1) (hbk : s.kind.get b = 0) (ha : s.live.get a = 1) : Inv (setData s a b) := by
  have hbn : ∀ h, b ∉ listOf s h := by
    intro h hm; have := (hi.listed h b hm).2.1; rw [hbk] at this; cases this
  unfold setData
  by_cases hk : s.kind.get a = 2
  · have hka : ((s.kind.set b (s.kind.get a)).get a == 2) = true := by
      simp [Mem.get_set, hab, hk]
    simp only [hka, if_true]
    refine ⟨?_, ?_, ?_, ?_⟩
    · intro h c hc
      simp only [listOf] at hc
      rw [show (Tbl.getD (Tbl.push s.hl ((s.val.set b (s.val.get a)).get a, 0) b) (h, 0)) =
            if h = s.val.get a then listOf s (s.val.get a) ++ [b] else listOf s h by
          have : (s.val.set b (s.val.get a)).get a = s.val.get a := by simp [Mem.get_set, hab]
          rw [this]; exact listOf_push s _ _ _] at hc
      by_cases hh : h = s.val.get a
      · simp only [hh, if_true, List.mem_append, List.mem_singleton] at hc
        rcases hc with hc | hc
        · have := hi.listed _ c hc
          have hcb : c ≠ b := fun e => hbn _ (e ▸ hc)
          simp only [Mem.get_set, hcb, if_false, hh]; exact this
        · subst hc; simp [Mem.get_set, hb, hk, hh]
      · simp only [hh, if_false] at hc
        have := hi.listed h c hc
        have hcb : c ≠ b := fun e => hbn _ (e ▸ hc)
        simp only [Mem.get_set, hcb, if_false]; exact this
    · intro c hl hk'
      simp only [listOf]
      have hva : (s.val.set b (s.val.get a)).get a = s.val.get a := by simp [Mem.get_set, hab]
      rw [hva, listOf_push]
      by_cases hcb : c = b
      · subst hcb; simp [Mem.get_set]
      · simp only [Mem.get_set, hcb, if_false] at hl hk' ⊢
        have := hi.member c hl hk'
        split
        · rename_i e; rw [← e]; exact List.mem_append_left _ this
        · exact this
    · intro h
      simp only [listOf]
      have hva : (s.val.set b (s.val.get a)).get a = s.val.get a := by simp [Mem.get_set, hab]
      rw [hva, listOf_push]
      split
      · rw [List.nodup_append]
        refine ⟨hi.nodup _, by simp, ?_⟩
        intro x hx y hy; simp at hy; subst hy; exact fun e => hbn _ (e ▸ hx)
      · exact hi.nodup h
    · intro h hh
      simp only [listOf]
      have hva : (s.val.set b (s.val.get a)).get a = s.val.get a := by simp [Mem.get_set, hab]
      rw [hva, listOf_push]
      have hlt : s.val.get a < s.nextH := by
        apply Nat.lt_of_not_le; intro hle
        have := hi.fresh _ hle
        have hm := hi.member a ha hk
        rw [this] at hm; simp at hm
      have : h ≠ s.val.get a := by intro e; rw [e] at hh; exact Nat.lt_irrefl _ (Nat.lt_of_lt_of_le hlt hh)
      simp only [this, if_false]; exact hi.fresh h hh
  · have hka : ((s.kind.set b (s.kind.get a)).get a == 2) = false := by
      simp [Mem.get_set, hab, hk]
    simp only [hka, Bool.false_eq_true, if_false]
    refine ⟨?_, ?_, hi.nodup, hi.fresh⟩
    · intro h c hc
      have := hi.listed h c hc
      have hcb : c ≠ b := fun e => hbn _ (e ▸ hc)
      simp only [Mem.get_set, hcb, if_false]; exact this
    · intro c hl hk'
      by_cases hcb : c = b
      · subst hcb; simp [Mem.get_set] at hk'; exact absurd hk' hk
      · simp only [Mem.get_set, hcb, if_false] at hl hk' ⊢
        exact hi.member c hl hk'

/-- writing non-pointer payloads into the cells of a list (the `End` loops) -/
theorem foldl_write_spec (f : State → Nat → State)
    (hf : ∀ s c, (f s c).live = s.live ∧ (f s c).hl = s.hl ∧ (f s c).nextH = s.nextH ∧
      (∀ x, x ≠ c → (f s c).kind.get x = s.kind.get x ∧ (f s c).val.get x = s.val.get x) ∧
      (f s c).kind.get c ≠ 2) :
    ∀ (l : List Nat) (s : State),
      (l.foldl f s).live = s.live ∧ (l.foldl f s).hl = s.hl ∧ (l.foldl f s).nextH = s.nextH ∧
      (∀ x, x ∉ l → (l.foldl f s).kind.get x = s.kind.get x ∧ (l.foldl f s).val.get x = s.val.get x) ∧
      (∀ x, x ∈ l → (l.foldl f s).kind.get x ≠ 2)
  | [], s => by simp
  | c :: l, s => by
    simp only [List.foldl_cons]
    obtain ⟨h1, h2, h3, h4, h5⟩ := foldl_write_spec f hf l (f s c)
    obtain ⟨g1, g2, g3, g4, g5⟩ := hf s c
    refine ⟨by rw [h1, g1], by rw [h2, g2], by rw [h3, g3], ?_, ?_⟩
    · intro x hx
      have hxc : x ≠ c := fun e => hx (by simp [e])
      have hxl : x ∉ l := fun e => hx (List.mem_cons_of_mem _ e)
      have := h4 x hxl
      rw [this.1, this.2]; exact g4 x hxc
    · intro x hx
      by_cases hxl : x ∈ l
      · exact h5 x hxl
      · rcases List.mem_cons.1 hx with e | e
        · rw [(h4 x hxl).1, e]; exact g5
        · exact absurd e hxl

theorem hf_writeInt (v : Nat) : ∀ (s : State) (c : Nat), (writeInt s c v).live = s.live ∧ (writeInt s c v).hl = s.hl ∧
    (writeInt s c v).nextH = s.nextH ∧
    (∀ x, x ≠ c → (writeInt s c v).kind.get x = s.kind.get x ∧ (writeInt s c v).val.get x = s.val.get x) ∧
    (writeInt s c v).kind.get c ≠ 2 := by
  intro s c
  refine ⟨rfl, rfl, rfl, ?_, ?_⟩
  · intro x hx; simp [writeInt, Mem.get_set, hx]
  · simp [writeInt, Mem.get_set]

theorem hf_writeNone : ∀ (s : State) (c : Nat), (writeNone s c).live = s.live ∧ (writeNone s c).hl = s.hl ∧
    (writeNone s c).nextH = s.nextH ∧
    (∀ x, x ≠ c → (writeNone s c).kind.get x = s.kind.get x ∧ (writeNone s c).val.get x = s.val.get x) ∧
    (writeNone s c).kind.get c ≠ 2 := by
  intro s c
  refine ⟨rfl, rfl, rfl, ?_, ?_⟩
  · intro x hx; simp [writeNone, Mem.get_set, hx]
  · simp [writeNone, Mem.get_set]

/-- after any `End` loop over the sharers of holder `h`, dropping the holder restores the invariant -/
theorem end_inv {s s' : State} (hi : Inv s) (h : Nat)
    (h1 : s'.live = s.live) (h2 : s'.hl = s.hl) (h3 : s'.nextH = s.nextH)
    (h4 : ∀ x, x ∉ listOf s h → s'.kind.get x = s.kind.get x ∧ s'.val.get x = s.val.get x)
    (h5 : ∀ x, x ∈ listOf s h → s'.kind.get x ≠ 2) :
    Inv { s' with hl := Tbl.removeKey s'.hl (h, 0) } := by
  have hlist : ∀ h', listOf { s' with hl := Tbl.removeKey s'.hl (h, 0) } h' = if h' = h then [] else listOf s h' := by
    intro h'; simp only [listOf, h2]; exact listOf_removeKey s h h'
  refine ⟨?_, ?_, ?_, ?_⟩
  · intro h' c hc
    rw [hlist] at hc
    by_cases hh : h' = h
    · simp [hh] at hc
    · simp only [hh, if_false] at hc
      have := hi.listed h' c hc
      have hcn : c ∉ listOf s h := by
        intro hm; exact hh ((hi.listed h c hm).2.2.symm.trans this.2.2).symm
      simp only [h1, (h4 c hcn).1, (h4 c hcn).2]; exact this
  · intro c hl hk
    simp only [h1] at hl
    by_cases hcn : c ∈ listOf s h
    · exact absurd hk (h5 c hcn)
    · simp only [(h4 c hcn).1, (h4 c hcn).2] at hk ⊢
      have := hi.member c hl hk
      rw [hlist]
      have : s.val.get c ≠ h := by intro e; rw [e] at this; exact hcn this
      simp only [this, if_false]; exact hi.member c hl hk
  · intro h'; rw [hlist]; split
    · simp
    · exact hi.nodup h'
  · intro h' hh; rw [hlist]; split
    · rfl
    · exact hi.fresh h' (by simpa [h3] using hh)

/-- the invariant only looks at which cells are Pointers (and their holder), liveness and the lists -/
theorem inv_of_same_ptrs {s s' : State} (hi : Inv s) (h1 : s'.live = s.live) (h2 : s'.hl = s.hl)
    (h3 : s'.nextH = s.nextH)
    (h4 : ∀ x, s.kind.get x = 2 → s'.kind.get x = 2 ∧ s'.val.get x = s.val.get x)
    (h5 : ∀ x, s'.kind.get x = 2 → s.kind.get x = 2) : Inv s' := by
  have hl : ∀ h, listOf s' h = listOf s h := by intro h; simp [listOf, h2]
  refine ⟨?_, ?_, ?_, ?_⟩
  · intro h c hm
    rw [hl] at hm
    have := hi.listed h c hm
    have := h4 c this.2.1
    rw [h1]; exact ⟨(hi.listed h c hm).1, this.1, this.2.trans (hi.listed h c hm).2.2⟩
  · intro c hc hk
    rw [h1] at hc
    have hk' := h5 c hk
    rw [hl, (h4 c hk').2]; exact hi.member c hc hk'
  · intro h; rw [hl]; exact hi.nodup h
  · intro h hh; rw [hl]; exact hi.fresh h (by rw [← h3]; exact hh)

theorem step_inv {s s' : State} {op : Op} (hi : Inv s) (hs : step s op = some s') : Inv s' := by
  cases op with
  | newCell a =>
    simp only [step] at hs
    split at hs
    · rename_i hc; cases hs
      have hdead : s.live.get a ≠ 1 := by rw [hc.2]; decide
      refine ⟨?_, ?_, hi.nodup, hi.fresh⟩
      · intro h c hm
        have := hi.listed h c hm
        have hca : c ≠ a := fun e => not_listed_of_dead hi hdead h (e ▸ hm)
        simp only [Mem.get_set, hca, if_false]; exact this
      · intro c hl hk
        by_cases hca : c = a
        · subst hca; simp [Mem.get_set] at hk
        · simp only [Mem.get_set, hca, if_false] at hl hk
          exact hi.member c hl hk
    · cases hs
  | newPointer a =>
    simp only [step] at hs
    split at hs
    · rename_i hc; cases hs
      have hfresh := hi.fresh s.nextH (Nat.le_refl _)
      have han : ∀ h, a ∉ listOf s h := by
        intro h hm; have := (hi.listed h a hm).2.1; rw [hc.2] at this; cases this
      have hlist : ∀ h', listOf { s with kind := s.kind.set a 2, val := s.val.set a s.nextH, hl := Tbl.push s.hl (s.nextH, 0) a, nextH := s.nextH + 1 } h' = if h' = s.nextH then [a] else listOf s h' := by
        intro h'; simp only [listOf]; rw [listOf_push]; split
        · rw [hfresh]; rfl
        · rfl
      refine ⟨?_, ?_, ?_, ?_⟩
      · intro h c hm
        rw [hlist] at hm
        by_cases hh : h = s.nextH
        · simp only [hh, if_true, List.mem_singleton] at hm
          subst hm; simp [Mem.get_set, hc.1, hh]
        · simp only [hh, if_false] at hm
          have := hi.listed h c hm
          have hca : c ≠ a := fun e => han h (e ▸ hm)
          simp only [Mem.get_set, hca, if_false]; exact this
      · intro c hl hk
        rw [hlist]
        by_cases hca : c = a
        · subst hca; simp [Mem.get_set]
        · simp only [Mem.get_set, hca, if_false] at hl hk ⊢
          have := hi.member c hl hk
          have hne : s.val.get c ≠ s.nextH := by
            intro e; rw [e, hfresh] at this; simp at this
          simp only [hne, if_false]; exact this
      · intro h; rw [hlist]; split
        · simp
        · exact hi.nodup h
      · intro h hh; rw [hlist]
        have : h ≠ s.nextH := by simp only [] at hh; omega
        simp only [this, if_false]; exact hi.fresh h (by simp only [] at hh; omega)
    · cases hs
  | copyTo a b =>
    simp only [step] at hs
    split at hs
    · rename_i hc; cases hs
      have hdead : s.live.get b ≠ 1 := by rw [hc.2.2]; decide
      have hab : a ≠ b := by intro e; rw [e] at hc; rw [hc.1] at hdead; exact hdead rfl
      -- first: b becomes a live None cell
      have h1 : Inv { s with live := s.live.set b 1, kind := s.kind.set b 0 } := by
        refine ⟨?_, ?_, hi.nodup, hi.fresh⟩
        · intro h c hm
          have := hi.listed h c hm
          have hcb : c ≠ b := fun e => not_listed_of_dead hi hdead h (e ▸ hm)
          simp only [Mem.get_set, hcb, if_false]; exact this
        · intro c hl hk
          by_cases hcb : c = b
          · subst hcb; simp [Mem.get_set] at hk
          · simp only [Mem.get_set, hcb, if_false] at hl hk
            exact hi.member c hl hk
      exact setData_inv h1 hab (by simp [Mem.get_set]) (by simp [Mem.get_set])
        (by simp [Mem.get_set, hab, hc.1])
    · cases hs
  | moveTo a b =>
    simp only [step] at hs
    split at hs
    · rename_i hc
      have hdead : s.live.get b ≠ 1 := by rw [hc.2.2]; decide
      have hab : a ≠ b := by intro e; rw [e] at hc; rw [hc.1] at hdead; exact hdead rfl
      have hbn : ∀ h, b ∉ listOf s h := fun h => not_listed_of_dead hi hdead h
      by_cases hk : s.kind.get a = 2
      · have hkb : (s.kind.get a == 2) = true := by simp [hk]
        simp only [hkb, if_true] at hs
        cases hs
        have hlist : ∀ h', listOf (holderRemove { s with live := s.live.set b 1, kind := (s.kind.set b (s.kind.get a)).set a 0, val := s.val.set b (s.val.get a), hl := Tbl.push s.hl (s.val.get a, 0) b } (s.val.get a) a) h' = if h' = s.val.get a then (listOf s (s.val.get a) ++ [b]).filter (· != a) else listOf s h' := by
          intro h'
          simp only [listOf, holderRemove]
          rw [Tbl.getD_removeAll, Tbl.getD_push]
          simp only [key_eq]
          by_cases e : h' = s.val.get a
          · simp [e, listOf]
          · have hk' : ¬ ((h', 0) : Nat × Nat) = (s.val.get a, 0) := by rw [key_eq]; exact e
            simp only [e, if_false, listOf, Tbl.getD_push, hk']
        refine ⟨?_, ?_, ?_, ?_⟩
        · intro h c hm
          rw [hlist] at hm
          by_cases hh : h = s.val.get a
          · simp only [hh, if_true, List.mem_filter, List.mem_append, List.mem_singleton] at hm
            have hca : c ≠ a := by simpa using hm.2
            rcases hm.1 with hm1 | hm1
            · have := hi.listed _ c hm1
              have hcb : c ≠ b := fun e => hbn _ (e ▸ hm1)
              simp only [holderRemove, Mem.get_set, hcb, hca, if_false, hh]; exact this
            · subst hm1
              simp [holderRemove, Mem.get_set, hca, hk, hh]
          · simp only [hh, if_false] at hm
            have := hi.listed h c hm
            have hcb : c ≠ b := fun e => hbn _ (e ▸ hm)
            have hca : c ≠ a := by intro e; subst e; exact hh this.2.2.symm
            simp only [holderRemove, Mem.get_set, hcb, hca, if_false]; exact this
        · intro c hl hk'
          rw [hlist]
          simp only [holderRemove, Mem.get_set] at hl hk' ⊢
          by_cases hca : c = a
          · simp [hca] at hk'
          · by_cases hcb : c = b
            · subst hcb
              simp only [if_true, List.mem_filter, List.mem_append, List.mem_singleton]
              exact ⟨by simp, by simpa using hca⟩
            · simp only [hca, hcb, if_false] at hl hk' ⊢
              have := hi.member c hl hk'
              split
              · rename_i e
                simp only [List.mem_filter, List.mem_append]
                exact ⟨Or.inl (by rw [← e]; exact this), by simpa using hca⟩
              · exact this
        · intro h; rw [hlist]; split
          · have hnd : (listOf s (s.val.get a) ++ [b]).Nodup := by
              rw [List.nodup_append]
              refine ⟨hi.nodup _, by simp, ?_⟩
              intro x hx y hy; simp at hy; subst hy; exact fun e => hbn _ (e ▸ hx)
            exact hnd.filter _
          · exact hi.nodup h
        · intro h hh; rw [hlist]
          have hlt : s.val.get a < s.nextH := by
            apply Nat.lt_of_not_le; intro hle
            have := hi.fresh _ hle
            have hm := hi.member a hc.1 hk
            rw [this] at hm; simp at hm
          have hne : h ≠ s.val.get a := by
            intro e; simp only [holderRemove] at hh; rw [e] at hh; exact Nat.lt_irrefl _ (Nat.lt_of_lt_of_le hlt hh)
          simp only [hne, if_false]; exact hi.fresh h (by simpa [holderRemove] using hh)
      · have hkb : (s.kind.get a == 2) = false := by simp [hk]
        simp only [hkb, Bool.false_eq_true, if_false] at hs
        cases hs
        have han : ∀ h, a ∉ listOf s h := by
          intro h hm; exact hk (hi.listed h a hm).2.1
        refine ⟨?_, ?_, hi.nodup, hi.fresh⟩
        · intro h c hm
          have := hi.listed h c hm
          have hcb : c ≠ b := fun e => hbn _ (e ▸ hm)
          have hca : c ≠ a := fun e => han _ (e ▸ hm)
          simp only [Mem.get_set, hcb, hca, if_false]; exact this
        · intro c hl hk'
          simp only [Mem.get_set] at hl hk'
          by_cases hca : c = a
          · simp [hca] at hk'
          · by_cases hcb : c = b
            · simp only [hcb, hab.symm, if_true, if_false] at hk'; exact absurd hk' hk
            · simp only [hca, hcb, if_false] at hl hk'
              simp only [Mem.get_set, hcb, if_false]
              exact hi.member c hl hk'
    · cases hs
  | assign a b =>
    simp only [step] at hs
    split at hs
    · rename_i hc; cases hs
      have h1 := clear_then_none_inv hi b
      have hlb : (writeNone (clearInternal s b) b).live.get b = 1 := by
        unfold clearInternal writeNone holderRemove; split <;> exact hc.2.1
      have hla : (writeNone (clearInternal s b) b).live.get a = 1 := by
        unfold clearInternal writeNone holderRemove; split <;> exact hc.1
      exact setData_inv h1 hc.2.2 hlb (by simp [writeNone, Mem.get_set]) hla
    · cases hs
  | destroy a =>
    simp only [step] at hs
    split at hs
    · rename_i hc; cases hs
      have h1 := clear_then_none_inv hi a
      -- destroying = None-ing then dropping liveness
      have hk0 : (writeNone (clearInternal s a) a).kind = (clearInternal s a).kind.set a 0 := rfl
      refine ⟨?_, ?_, ?_, ?_⟩
      · intro h c hm
        have hm' : c ∈ listOf (writeNone (clearInternal s a) a) h := hm
        have := h1.listed h c hm'
        have hca : c ≠ a := by
          intro e; subst e
          have := this.2.1; simp [writeNone, Mem.get_set] at this
        simp only [Mem.get_set, hca, if_false]
        simpa [writeNone, Mem.get_set, hca] using this
      · intro c hl hk
        by_cases hca : c = a
        · subst hca; simp [Mem.get_set] at hl
        · simp only [Mem.get_set, hca, if_false] at hl hk
          exact h1.member c hl (by simpa [writeNone, Mem.get_set, hca] using hk)
      · exact h1.nodup
      · exact h1.fresh
    · cases hs
  | setInt a v =>
    simp only [step] at hs
    split at hs
    · cases hs
      have h1 := clear_then_none_inv hi a
      apply inv_of_same_ptrs (s' := writeInt (clearInternal s a) a v) h1 rfl rfl rfl
      · intro x hx
        have hxa : x ≠ a := by
          intro e; subst e; simp [writeNone, Mem.get_set] at hx
        simp only [writeNone, Mem.get_set, hxa, if_false] at hx
        simp only [writeInt, writeNone, Mem.get_set, hxa, if_false]
        exact ⟨hx, trivial⟩
      · intro x hx
        have hxa : x ≠ a := by
          intro e; subst e; simp [writeInt, Mem.get_set] at hx
        simp only [writeInt, Mem.get_set, hxa, if_false] at hx
        simp only [writeNone, Mem.get_set, hxa, if_false]
        exact hx
    · cases hs
  | endRef a v =>
    simp only [step] at hs
    split at hs
    · cases hs
      split
      · obtain ⟨g1, g2, g3, g4, g5⟩ := foldl_write_spec
          (fun s c => if c = a then writeNone s c else writeInt s c v)
          (by
            intro s c
            by_cases e : c = a
            · simp only [e, if_true]; exact hf_writeNone s a
            · simp only [e, if_false]; exact hf_writeInt v s c)
          (listOf s (s.val.get a)) s
        exact end_inv hi _ g1 g2 g3 g4 g5
      · obtain ⟨g1, g2, g3, g4, g5⟩ := foldl_write_spec (fun s c => writeInt s c v) (hf_writeInt v)
          (listOf s (s.val.get a)) s
        exact end_inv hi _ g1 g2 g3 g4 g5
    · cases hs
  | endPlain a =>
    simp only [step] at hs
    split at hs
    · cases hs
      obtain ⟨g1, g2, g3, g4, g5⟩ := foldl_write_spec (fun s c => writeNone s c) hf_writeNone
        (listOf s (s.val.get a)) s
      exact end_inv hi _ g1 g2 g3 g4 g5
    · cases hs

theorem run_inv : ∀ (ops : List Op) {s s' : State}, Inv s → run s ops = some s' → Inv s'
  | [], s, s', h, hr => by simp [run] at hr; subst hr; exact h
  | op :: ops, s, s', h, hr => by
    simp only [run] at hr
    cases hs : step s op with
    | none => simp [hs] at hr
    | some s1 =>
      simp only [hs, Option.bind_some] at hr
      exact run_inv ops (step_inv h hs) hr

theorem reachable_inv {s : State} (h : Reachable s) : Inv s := by
  obtain ⟨ops, hr⟩ := h
  exact run_inv ops init_inv hr

end Morfuse.PtrCell
