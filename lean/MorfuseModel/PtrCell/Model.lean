import MorfuseModel.Common.Mem
import MorfuseModel.Sched.Tables
/-!
# `ScriptPointer` — the shared result cell of the host call protocol (src/Script/ScriptVariable.cpp)

A `ScriptVariable` of type `Pointer` shares a heap `ScriptPointer` that lists, **by address**, every
variable sharing it.  `End/EndRef` write the result through that list; `Clear` resets every listed
variable.  Cells are ids; `kind`: 0 = None, 1 = Integer, 2 = Pointer; `val`: the integer or the
holder id.  `hl` maps a holder `(h, 0)` to its list (a missing key = the holder was deleted).
-/
namespace Morfuse.PtrCell
open Morfuse.Sched (Tbl)

structure State where
  kind : Mem := .empty
  val : Mem := .empty
  live : Mem := .empty          -- ghost: the C++ object exists
  hl : Tbl := []
  nextH : Nat := 1

def init : State := {}

def isPtr (s : State) (a : Nat) : Bool := s.kind.get a == 2
def listOf (s : State) (h : Nat) : List Nat := Tbl.getD s.hl (h, 0)

/-- `ScriptPointer::remove(var)`: drop `var` from the list; the holder deletes itself when empty -/
def holderRemove (s : State) (h a : Nat) : State := { s with hl := (Tbl.removeAll s.hl (h, 0) a).1 }

/-- write `v` (an integer) into cell `c` the way `*pVar = value` does after `pVar->type = None` -/
def writeInt (s : State) (c v : Nat) : State := { s with kind := s.kind.set c 1, val := s.val.set c v }
def writeNone (s : State) (c : Nat) : State := { s with kind := s.kind.set c 0 }

inductive Op
  | newCell (a : Nat)                 -- `new ScriptVariable()`
  | newPointer (a : Nat)              -- `a->newPointer()`
  | copyTo (a b : Nat)                -- `new ScriptVariable(*a)` at b
  | moveTo (a b : Nat)                -- `new ScriptVariable(std::move(*a))` at b
  | assign (a b : Nat)                -- `*b = *a` (b live)
  | destroy (a : Nat)                 -- `delete a`
  | setInt (a v : Nat)                -- `a->setIntValue(v)`
  | endRef (a v : Nat)                -- `a->setPointerRef(value v)`  (a is the VM's m_ReturnValue)
  | endPlain (a : Nat)                -- `a->ClearPointer()`
  deriving Repr, DecidableEq

/-- `ClearInternal` of a cell that is about to be overwritten or destroyed -/
def clearInternal (s : State) (a : Nat) : State :=
  if isPtr s a then holderRemove s (s.val.get a) a else s

/-- copy-assign the value of `a` into `b` (b already cleared) -/
def setData (s : State) (a b : Nat) : State :=
  let s := { s with kind := s.kind.set b (s.kind.get a), val := s.val.set b (s.val.get a) }
  if s.kind.get a == 2 then { s with hl := Tbl.push s.hl (s.val.get a, 0) b } else s

def step (s : State) : Op → Option State
  | .newCell a =>
    if a ≠ 0 ∧ s.live.get a = 0 then some { s with live := s.live.set a 1, kind := s.kind.set a 0 } else none
  | .newPointer a =>
    if s.live.get a = 1 ∧ s.kind.get a = 0 then
      let h := s.nextH
      some { s with kind := s.kind.set a 2, val := s.val.set a h, hl := Tbl.push s.hl (h, 0) a, nextH := h + 1 }
    else none
  | .copyTo a b =>
    if s.live.get a = 1 ∧ b ≠ 0 ∧ s.live.get b = 0 then
      some (setData { s with live := s.live.set b 1, kind := s.kind.set b 0 } a b)
    else none
  | .moveTo a b =>
    if s.live.get a = 1 ∧ b ≠ 0 ∧ s.live.get b = 0 then
      -- take the payload, leave `a` as None; a Pointer payload re-registers: add(b), remove(a)
      let s1 := { s with live := s.live.set b 1, kind := (s.kind.set b (s.kind.get a)).set a 0,
                         val := s.val.set b (s.val.get a) }
      if s.kind.get a == 2 then
        let h := s.val.get a
        some (holderRemove { s1 with hl := Tbl.push s1.hl (h, 0) b } h a)
      else some s1
    else none
  | .assign a b =>
    if s.live.get a = 1 ∧ s.live.get b = 1 ∧ a ≠ b then
      some (setData (writeNone (clearInternal s b) b) a b)
    else none
  | .destroy a =>
    if s.live.get a = 1 then
      let s := clearInternal s a
      some { s with live := s.live.set a 0, kind := s.kind.set a 0 }
    else none
  | .setInt a v =>
    if s.live.get a = 1 then some (writeInt (clearInternal s a) a v) else none
  | .endRef a v =>
    if s.live.get a = 1 ∧ isPtr s a then
      let h := s.val.get a
      let l := listOf s h
      -- `setValueRef(var, ignored = *this)`: with exactly two sharers the other one receives the
      -- value and the ignored one is left None; otherwise every sharer receives a copy
      let s' :=
        if l.length = 2 ∧ l.contains a then
          l.foldl (fun s c => if c = a then writeNone s c else writeInt s c v) s
        else l.foldl (fun s c => writeInt s c v) s
      some { s' with hl := Tbl.removeKey s'.hl (h, 0) }
    else none
  | .endPlain a =>
    if s.live.get a = 1 ∧ isPtr s a then
      let h := s.val.get a
      let s' := (listOf s h).foldl (fun s c => writeNone s c) s
      some { s' with hl := Tbl.removeKey s'.hl (h, 0) }
    else none

def run : State → List Op → Option State
  | s, [] => some s
  | s, op :: ops => (step s op).bind (run · ops)

def Reachable (s : State) : Prop := ∃ ops, run init ops = some s

end Morfuse.PtrCell
