import MorfuseModel.SafePtr.Model
import MorfuseModel.Common.Ring
/-!
# Invariant of the SafePtr model and its preservation by every operation
-/
namespace Morfuse.SafePtr
open Morfuse.Ring

/-- the links of object `o` form the ring `l` (head first) -/
def RingOf (s : State) (o : Nat) : List Nat → Prop
  | [] => s.head.get o = 0
  | a :: t => s.head.get o = a ∧ IsRing s.nx.get s.pv.get a t

def eraseAll (ring : Nat → List Nat) (r : Nat) : Nat → List Nat := fun o' => (ring o').erase r
def addTo (ring : Nat → List Nat) (o r : Nat) : Nat → List Nat :=
  fun o' => if o' = o then ring o' ++ [r] else ring o'

/-- link-level invariant: mentions only `head nx pv liveO` -/
structure LInv (s : State) (ring : Nat → List Nat) : Prop where
  ring_ok : ∀ o, aliveObj s o → RingOf s o (ring o)
  disj : ∀ o o' r, r ∈ ring o → r ∈ ring o' → o = o'
  dead : ∀ o, ¬ aliveObj s o → ring o = []
  nz : ∀ o, 0 ∉ ring o
  nodup : ∀ o, (ring o).Nodup

theorem ringOf_congr {s s' : State} {o : Nat} {l : List Nat}
    (hh : s'.head.get o = s.head.get o)
    (hl : ∀ x ∈ l, s'.nx.get x = s.nx.get x ∧ s'.pv.get x = s.pv.get x)
    (h : RingOf s o l) : RingOf s' o l := by
  cases l with
  | nil => simpa [RingOf, hh] using h
  | cons a t =>
    obtain ⟨h1, h2, h3⟩ := h
    refine ⟨by rw [hh]; exact h1, h2, ?_⟩
    apply path_congr a t a _ _ h3
    · intro x hx; exact (hl x hx).1
    · intro x hx
      apply (hl x _).2
      rcases List.mem_append.1 hx with h | h
      · exact List.mem_cons_of_mem _ h
      · simp at h; simp [h]

theorem LInv.congr {s s' : State} {ring : Nat → List Nat} (h : LInv s ring)
    (h1 : s'.head = s.head) (h2 : s'.nx = s.nx) (h3 : s'.pv = s.pv) (h4 : s'.liveO = s.liveO) :
    LInv s' ring := by
  refine ⟨?_, h.disj, ?_, h.nz, h.nodup⟩
  · intro o ho
    have ho' : aliveObj s o := by simpa [aliveObj, h4] using ho
    exact ringOf_congr (by rw [h1]) (by intro x _; rw [h2, h3]; exact ⟨rfl, rfl⟩) (h.ring_ok o ho')
  · intro o ho
    exact h.dead o (by simpa [aliveObj, h4] using ho)

/-! ### frame facts: the link procedures never touch `ptr liveR liveO refs` -/

@[simp] theorem addReference_ptr (s : State) (r o : Nat) : (addReference s r o).ptr = s.ptr := by
  unfold addReference; split <;> rfl
@[simp] theorem addReference_liveR (s : State) (r o : Nat) : (addReference s r o).liveR = s.liveR := by
  unfold addReference; split <;> rfl
@[simp] theorem addReference_liveO (s : State) (r o : Nat) : (addReference s r o).liveO = s.liveO := by
  unfold addReference; split <;> rfl
@[simp] theorem addReference_refs (s : State) (r o : Nat) : (addReference s r o).refs = s.refs := by
  unfold addReference; split <;> rfl

@[simp] theorem removeReference_ptr (s : State) (r o : Nat) : (removeReference s r o).ptr = s.ptr := by
  unfold removeReference unlink; split <;> (try split) <;> rfl
@[simp] theorem removeReference_liveR (s : State) (r o : Nat) : (removeReference s r o).liveR = s.liveR := by
  unfold removeReference unlink; split <;> (try split) <;> rfl
@[simp] theorem removeReference_liveO (s : State) (r o : Nat) : (removeReference s r o).liveO = s.liveO := by
  unfold removeReference unlink; split <;> (try split) <;> rfl
@[simp] theorem removeReference_refs (s : State) (r o : Nat) : (removeReference s r o).refs = s.refs := by
  unfold removeReference unlink; split <;> (try split) <;> rfl

/-! ### AddReference -/

theorem add_linv {s : State} {ring : Nat → List Nat} {r o : Nat}
    (h : LInv s ring) (ho : aliveObj s o) (hr : ∀ o', r ∉ ring o') (hr0 : r ≠ 0) :
    LInv (addReference s r o) (addTo ring o r) := by
  have hok := h.ring_ok o ho
  have hmem_o : ∀ x ∈ ring o, ∀ o', o' ≠ o → x ∉ ring o' := by
    intro x hx o' hne hx'; exact hne (h.disj o' o x hx' hx)
  refine ⟨?_, ?_, ?_, ?_, ?_⟩
  · -- ring_ok
    intro o' ho'
    have ho'' : aliveObj s o' := by simpa [aliveObj] using ho'
    by_cases hoo : o' = o
    · subst hoo
      simp only [addTo, if_true]
      cases hro : ring o' with
      | nil =>
        rw [hro] at hok
        have hh : s.head.get o' = 0 := hok
        simp only [addReference, hh, if_true, List.nil_append, RingOf]
        refine ⟨by simp, ?_⟩
        simp [IsRing, Path]
      | cons a t =>
        rw [hro] at hok
        obtain ⟨hh, hring⟩ := hok
        have ha0 : a ≠ 0 := fun e => h.nz o' (by rw [hro, e]; simp)
        have hrn : r ∉ a :: t := by rw [← hro]; exact hr o'
        have hne : ¬ s.head.get o' = 0 := by rw [hh]; exact ha0
        simp only [addReference, hne, if_false, List.cons_append, RingOf]
        refine ⟨hh, ?_⟩
        have := add_ref hring hrn
        simpa [hh, Mem.get_set_fun] using this
    · simp only [addTo, hoo, if_false]
      apply ringOf_congr _ _ (h.ring_ok o' ho'')
      · unfold addReference; split
        · simp [Mem.get_set, hoo]
        · rfl
      · intro x hx
        have hxr : x ≠ r := fun e => hr o' (e ▸ hx)
        unfold addReference; split
        · simp [Mem.get_set, hxr]
        · -- x is not a node of ring o
          cases hro : ring o with
          | nil =>
            rw [hro] at hok
            rename_i hne; exact absurd hok hne
          | cons a t =>
            rw [hro] at hok
            obtain ⟨hh, hring⟩ := hok
            have hxa : x ≠ a := fun e => hmem_o a (by rw [hro]; simp) o' hoo (e ▸ hx)
            have hl_mem : s.pv.get a ∈ ring o := by
              rw [hro]; exact (ring_links hring a (by simp)).2.2.2
            have hxl : x ≠ s.pv.get a := fun e => hmem_o _ hl_mem o' hoo (e ▸ hx)
            simp [Mem.get_set, hh, hxr, hxa, hxl]
  · -- disj
    intro o1 o2 x h1 h2
    simp only [addTo] at h1 h2
    by_cases e1 : o1 = o <;> by_cases e2 : o2 = o <;> simp only [e1, e2, if_true, if_false] at h1 h2
    · rw [e1, e2]
    · rcases List.mem_append.1 h1 with h1 | h1
      · exact (e2 (h.disj o2 o x h2 h1)).elim
      · simp at h1; subst h1; exact (hr o2 h2).elim
    · rcases List.mem_append.1 h2 with h2 | h2
      · exact (e1 (h.disj o1 o x h1 h2)).elim
      · simp at h2; subst h2; exact (hr o1 h1).elim
    · exact h.disj o1 o2 x h1 h2
  · -- dead
    intro o' ho'
    have ho'' : ¬ aliveObj s o' := by simpa [aliveObj] using ho'
    have : o' ≠ o := fun e => ho'' (e ▸ ho)
    simp [addTo, this, h.dead o' ho'']
  · intro o' hm
    simp only [addTo] at hm
    split at hm
    · rcases List.mem_append.1 hm with hm | hm
      · exact h.nz _ hm
      · simp at hm; exact hr0 hm.symm
    · exact h.nz _ hm
  · intro o'
    simp only [addTo]
    split
    · rw [List.nodup_append]
      refine ⟨h.nodup _, by simp, ?_⟩
      intro x hx y hy; simp at hy; subst hy; exact fun e => hr o' (e ▸ hx)
    · exact h.nodup _

/-! ### RemoveReference -/

theorem unlink_links (s : State) (r : Nat) (hne : s.pv.get r ≠ r) :
    (unlink s r).nx.get = upd (upd s.nx.get (s.pv.get r) (s.nx.get r)) r r ∧
    (unlink s r).pv.get = upd (upd s.pv.get (s.nx.get r) (s.pv.get r)) r r := by
  have : (s.nx.set (s.pv.get r) (s.nx.get r)).get r = s.nx.get r := by
    simp [Mem.get_set, hne.symm]
  simp [unlink, Mem.get_set_fun, this]

theorem remove_linv {s : State} {ring : Nat → List Nat} {r o : Nat}
    (h : LInv s ring) (ho : aliveObj s o) (hr : r ∈ ring o) :
    LInv (removeReference s r o) (eraseAll ring r) := by
  have hok := h.ring_ok o ho
  have hother : ∀ o', o' ≠ o → r ∉ ring o' := fun o' hne hm => hne (h.disj o' o r hm hr)
  have herase_other : ∀ o', o' ≠ o → eraseAll ring r o' = ring o' := by
    intro o' hne; simp [eraseAll, List.erase_of_not_mem (hother o' hne)]
  -- shape of ring o
  obtain ⟨a, t, hro⟩ : ∃ a t, ring o = a :: t := by
    cases hro : ring o with
    | nil => rw [hro] at hr; simp at hr
    | cons a t => exact ⟨a, t, rfl⟩
  rw [hro] at hok hr
  obtain ⟨hh, hring⟩ := hok
  have hnd : (a :: t).Nodup := hring.1
  -- every node of ring o is foreign to the other rings
  have hforeign : ∀ x ∈ a :: t, ∀ o', o' ≠ o → x ∉ ring o' := by
    intro x hx o' hne hx'; exact hne (h.disj o' o x hx' (by rw [hro]; exact hx))
  have hlinks := ring_links hring r hr
  refine ⟨?_, ?_, ?_, ?_, ?_⟩
  · intro o' ho'
    have ho'' : aliveObj s o' := by simpa [aliveObj] using ho'
    by_cases hoo : o' = o
    · subst hoo
      simp only [eraseAll, hro]
      by_cases hra : r = a
      · subst hra
        simp only [List.erase_cons_head]
        cases t with
        | nil =>
          have hn : s.nx.get r = r := (ring_single_iff.1 hring).1
          simp [removeReference, hh, hn, RingOf]
        | cons m u =>
          have hn : s.nx.get r = m := hring.2.1
          have hmr : m ≠ r := by
            intro e; subst e; simp at hnd
          have hpv : s.pv.get r ≠ r := ring_pv_ne hring (by simp) r (by simp)
          have hul := unlink_links { s with head := s.head.set o' (s.nx.get r) } r hpv
          simp only [removeReference, hh, if_true, hn, hmr, if_false, RingOf]
          refine ⟨by simp [unlink, hn], ?_⟩
          have hrm := ring_remove_head hring
          rw [hn] at hul
          simp only [] at hul
          rw [hul.1, hul.2]
          simpa [hn] using hrm
      · have hrt : r ∈ t := by
          rcases List.mem_cons.1 hr with e | e
          · exact absurd e hra
          · exact e
        obtain ⟨s1, u, rfl⟩ := List.append_of_mem hrt
        have hr_notin : r ∉ s1 := by
          have : (s1 ++ r :: u).Nodup := (List.nodup_cons.1 hnd).2
          rw [List.nodup_append] at this
          intro hm; exact this.2.2 r hm r (by simp) rfl
        have herase : (a :: (s1 ++ r :: u)).erase r = a :: (s1 ++ u) := by
          rw [List.erase_cons_tail (by simpa using fun e => hra e.symm)]
          rw [List.erase_append_right _ hr_notin]
          simp
        rw [herase]
        have hhr : ¬ s.head.get o' = r := by rw [hh]; exact fun e => hra e.symm
        have hpv : s.pv.get r ≠ r := ring_pv_ne hring (by simp) r hr
        have hul := unlink_links s r hpv
        simp only [removeReference, hhr, if_false, RingOf]
        refine ⟨by simp [unlink, hh], ?_⟩
        rw [hul.1, hul.2]
        exact ring_remove_mid hring
    · rw [herase_other o' hoo]
      apply ringOf_congr _ _ (h.ring_ok o' ho'')
      · unfold removeReference unlink
        split <;> (try split) <;> simp [Mem.get_set, hoo]
      · intro x hx
        have hxr : x ≠ r := fun e => hforeign r hr o' hoo (e ▸ hx)
        have hxp : x ≠ s.pv.get r := fun e => hforeign _ hlinks.2.2.2 o' hoo (e ▸ hx)
        have hxn : x ≠ s.nx.get r := fun e => hforeign _ hlinks.2.2.1 o' hoo (e ▸ hx)
        by_cases hpv : s.pv.get r = r
        · -- single-node ring: only the head branch can run, links untouched or self-written
          unfold removeReference unlink
          split <;> (try split) <;> simp [Mem.get_set, hxr, hxp, hxn, hpv]
        · unfold removeReference
          split
          · split
            · exact ⟨rfl, rfl⟩
            · have hul := unlink_links { s with head := s.head.set o (s.nx.get r) } r hpv
              simp only [] at hul
              rw [hul.1, hul.2]; simp [upd, hxr, hxp, hxn]
          · have hul := unlink_links s r hpv
            rw [hul.1, hul.2]; simp [upd, hxr, hxp, hxn]
  · intro o1 o2 x h1 h2
    exact h.disj o1 o2 x (List.mem_of_mem_erase h1) (List.mem_of_mem_erase h2)
  · intro o' ho'
    have ho'' : ¬ aliveObj s o' := by simpa [aliveObj] using ho'
    simp [eraseAll, h.dead o' ho'']
  · intro o' hm; exact h.nz o' (List.mem_of_mem_erase hm)
  · intro o'; exact (h.nodup o').erase r

/-! ### the full invariant -/

structure Inv (s : State) (ring : Nat → List Nat) : Prop where
  ring_ok : ∀ o, aliveObj s o → RingOf s o (ring o)
  mem_iff : ∀ o r, r ∈ ring o ↔ (liveRef s r ∧ s.ptr.get r = o ∧ o ≠ 0)
  ptr_live : ∀ r, liveRef s r → s.ptr.get r ≠ 0 → aliveObj s (s.ptr.get r)
  nodup : ∀ o, (ring o).Nodup
  zeroR : ¬ liveRef s 0
  zeroO : ¬ aliveObj s 0
  refs_iff : ∀ r, r ∈ s.refs ↔ liveRef s r
  refs_nodup : s.refs.Nodup

theorem Inv.linv {s : State} {ring : Nat → List Nat} (h : Inv s ring) : LInv s ring := by
  refine ⟨h.ring_ok, ?_, ?_, ?_, h.nodup⟩
  · intro o o' r h1 h2
    have a := (h.mem_iff o r).1 h1
    have b := (h.mem_iff o' r).1 h2
    rw [← a.2.1, ← b.2.1]
  · intro o ho
    cases hr : ring o with
    | nil => rfl
    | cons a t =>
      have := (h.mem_iff o a).1 (by rw [hr]; simp)
      have hl := h.ptr_live a this.1 (by rw [this.2.1]; exact this.2.2)
      rw [this.2.1] at hl
      exact absurd hl ho
  · intro o hm
    exact h.zeroR ((h.mem_iff o 0).1 hm).1

theorem init_inv : Inv init (fun _ => []) := by
  refine ⟨?_, ?_, ?_, ?_, ?_, ?_, ?_, ?_⟩ <;> simp [init, aliveObj, liveRef, RingOf]

/-! ### Clear -/

theorem clear_ptr (s : State) (r q : Nat) :
    (clear s r).ptr.get q = if q = r then 0 else s.ptr.get q := by
  unfold clear
  split
  · simp [Mem.get_set]
  · rename_i h
    by_cases hq : q = r
    · subst hq; simpa using h
    · simp [hq]

@[simp] theorem clear_liveR (s : State) (r : Nat) : (clear s r).liveR = s.liveR := by
  unfold clear; split <;> simp
@[simp] theorem clear_liveO (s : State) (r : Nat) : (clear s r).liveO = s.liveO := by
  unfold clear; split <;> simp
@[simp] theorem clear_refs (s : State) (r : Nat) : (clear s r).refs = s.refs := by
  unfold clear; split <;> simp

theorem clear_linv {s : State} {ring : Nat → List Nat} {r : Nat}
    (h : Inv s ring) (hr : liveRef s r) : LInv (clear s r) (eraseAll ring r) := by
  unfold clear
  split
  · rename_i hp
    have ho := h.ptr_live r hr hp
    have hm : r ∈ ring (s.ptr.get r) := (h.mem_iff _ r).2 ⟨hr, rfl, hp⟩
    exact (remove_linv h.linv ho hm).congr rfl rfl rfl rfl
  · rename_i hp
    have hp : s.ptr.get r = 0 := by simpa using hp
    have : eraseAll ring r = ring := by
      funext o'
      apply List.erase_of_not_mem
      intro hm
      have := (h.mem_iff o' r).1 hm
      exact this.2.2 (by rw [← this.2.1, hp])
    rw [this]; exact h.linv

theorem clear_inv {s : State} {ring : Nat → List Nat} {r : Nat}
    (h : Inv s ring) (hr : liveRef s r) : Inv (clear s r) (eraseAll ring r) := by
  have hl := clear_linv h hr
  refine ⟨hl.ring_ok, ?_, ?_, hl.nodup, ?_, ?_, ?_, ?_⟩
  · intro o q
    simp only [eraseAll, liveRef, clear_liveR, clear_ptr]
    rw [(h.nodup o).mem_erase_iff, h.mem_iff o q]
    by_cases hq : q = r
    · subst hq; simp; omega
    · simp [hq, liveRef]
  · intro q hq hp
    simp only [liveRef, clear_liveR, aliveObj, clear_liveO, clear_ptr] at *
    by_cases e : q = r
    · simp [e] at hp
    · simp only [e, if_false] at hp ⊢
      exact h.ptr_live q hq hp
  · simpa [liveRef] using h.zeroR
  · simpa [aliveObj] using h.zeroO
  · simpa [liveRef] using h.refs_iff
  · simpa using h.refs_nodup

/-! ### construct / InitSafePtr -/

theorem construct_ptr (s : State) (r o q : Nat) :
    (construct s r o).ptr.get q = if q = r then o else s.ptr.get q := by
  unfold construct; split <;> simp [Mem.get_set]

@[simp] theorem construct_liveR (s : State) (r o : Nat) : (construct s r o).liveR = s.liveR := by
  unfold construct; split <;> simp
@[simp] theorem construct_liveO (s : State) (r o : Nat) : (construct s r o).liveO = s.liveO := by
  unfold construct; split <;> simp
@[simp] theorem construct_refs (s : State) (r o : Nat) : (construct s r o).refs = s.refs := by
  unfold construct; split <;> simp

theorem newRef_inv {s : State} {ring : Nat → List Nat} {r o : Nat}
    (h : Inv s ring) (hr0 : r ≠ 0) (hr : ¬ liveRef s r) (ho : okTarget s o) :
    let s' := construct s r o
    Inv { s' with liveR := s'.liveR.set r 1, refs := r :: s'.refs }
      (if o = 0 then ring else addTo ring o r) := by
  intro s'
  have hnot : ∀ o', r ∉ ring o' := fun o' hm => hr ((h.mem_iff o' r).1 hm).1
  have hl : LInv s' (if o = 0 then ring else addTo ring o r) := by
    by_cases ho0 : o = 0
    · simp only [ho0, if_true, s', construct]
      exact h.linv.congr rfl rfl rfl rfl
    · have hal : aliveObj s o := ho.resolve_left ho0
      simp only [ho0, if_false, s', construct, ne_eq, not_false_eq_true, if_true]
      exact add_linv (h.linv.congr rfl rfl rfl rfl) (by simpa [aliveObj] using hal) hnot hr0
  have hl' : LInv { s' with liveR := s'.liveR.set r 1, refs := r :: s'.refs }
      (if o = 0 then ring else addTo ring o r) := hl.congr rfl rfl rfl rfl
  refine ⟨hl'.ring_ok, ?_, ?_, hl'.nodup, ?_, ?_, ?_, ?_⟩
  · intro o' q
    simp only [liveRef, s', construct_liveR, construct_ptr, Mem.get_set]
    by_cases ho0 : o = 0
    · simp only [ho0, if_true]
      rw [h.mem_iff o' q]
      by_cases hq : q = r
      · subst hq; simp [liveRef] at hr ⊢
        constructor
        · intro ⟨a, _⟩; exact absurd a hr
        · intro ⟨a, b⟩; exact absurd a.symm b
      · simp [hq, liveRef]
    · simp only [ho0, if_false, addTo]
      by_cases hq : q = r
      · subst hq
        by_cases hoo : o' = o
        · subst hoo; simp [ho0]
        · simp only [hoo, if_false, if_true]
          constructor
          · intro hm; exact absurd hm (hnot o')
          · intro hh; exact absurd hh.2.1.symm hoo
      · by_cases hoo : o' = o
        · subst hoo
          simp only [if_true, hq, if_false, List.mem_append, List.mem_singleton, or_false]
          rw [h.mem_iff o' q]; simp [liveRef]
        · simp only [hoo, if_false, hq]
          rw [h.mem_iff o' q]; simp [liveRef]
  · intro q hq hp
    simp only [liveRef, aliveObj, s', construct_liveR, construct_liveO, construct_ptr, Mem.get_set] at *
    by_cases e : q = r
    · simp only [e, if_true] at hp ⊢
      exact ho.resolve_left hp
    · simp only [e, if_false] at hq hp ⊢
      exact h.ptr_live q hq hp
  · simp only [liveRef, s', construct_liveR, Mem.get_set]
    simp [hr0.symm]; exact h.zeroR
  · simpa [aliveObj, s'] using h.zeroO
  · intro q
    simp only [liveRef, s', construct_liveR, construct_refs, Mem.get_set, List.mem_cons]
    by_cases e : q = r
    · simp [e]
    · simp [e]; exact h.refs_iff q
  · simp only [s', construct_refs, List.nodup_cons]
    exact ⟨fun hm => hr ((h.refs_iff r).1 hm), h.refs_nodup⟩

theorem initSafePtr_ptr (s : State) (r o q : Nat) :
    (initSafePtr s r o).ptr.get q = if q = r then o else s.ptr.get q := by
  unfold initSafePtr
  split
  · split <;> split <;> simp [Mem.get_set]
  · rename_i h
    have : s.ptr.get r = o := by simpa using h
    by_cases hq : q = r
    · subst hq; simp [this]
    · simp [hq]

@[simp] theorem initSafePtr_liveR (s : State) (r o : Nat) : (initSafePtr s r o).liveR = s.liveR := by
  unfold initSafePtr; split <;> (try split) <;> (try split) <;> simp
@[simp] theorem initSafePtr_liveO (s : State) (r o : Nat) : (initSafePtr s r o).liveO = s.liveO := by
  unfold initSafePtr; split <;> (try split) <;> (try split) <;> simp
@[simp] theorem initSafePtr_refs (s : State) (r o : Nat) : (initSafePtr s r o).refs = s.refs := by
  unfold initSafePtr; split <;> (try split) <;> (try split) <;> simp

/-- `InitSafePtr` is `Clear` followed (for a non-null target) by `AddReference`, as far as links go -/
theorem initSafePtr_linv {s : State} {ring : Nat → List Nat} {r o : Nat}
    (h : Inv s ring) (hr : liveRef s r) (ho : okTarget s o) (hne : s.ptr.get r ≠ o) :
    LInv (initSafePtr s r o) (if o = 0 then eraseAll ring r else addTo (eraseAll ring r) o r) := by
  have hr0 : r ≠ 0 := fun e => h.zeroR (e ▸ hr)
  -- state after the optional RemoveReference
  have h1 : LInv (if s.ptr.get r ≠ 0 then removeReference s r (s.ptr.get r) else s) (eraseAll ring r) := by
    have := clear_linv h hr
    unfold clear at this
    split at this
    · rename_i hp; simp only [hp, ne_eq, not_false_eq_true, if_true]
      exact this.congr rfl rfl rfl rfl
    · rename_i hp; simp only [hp, if_false]; exact this
  have hnot : ∀ o', r ∉ eraseAll ring r o' := fun o' hm =>
    ((h.nodup o').mem_erase_iff.1 hm).1 rfl
  have hlo : (if s.ptr.get r ≠ 0 then removeReference s r (s.ptr.get r) else s).liveO = s.liveO := by
    split <;> simp
  unfold initSafePtr
  simp only [hne, ne_eq, not_false_eq_true, if_true]
  generalize (if ¬ s.ptr.get r = 0 then removeReference s r (s.ptr.get r) else s) = s1 at h1 hlo ⊢
  by_cases ho0 : o = 0
  · simp only [ho0, if_true]
    exact h1.congr rfl rfl rfl rfl
  · simp only [ho0, if_false]
    have hal : aliveObj s o := ho.resolve_left ho0
    refine add_linv (s := { s1 with ptr := s1.ptr.set r o }) (h1.congr rfl rfl rfl rfl) ?_ hnot hr0
    simpa [aliveObj, hlo] using hal

theorem initSafePtr_inv {s : State} {ring : Nat → List Nat} {r o : Nat}
    (h : Inv s ring) (hr : liveRef s r) (ho : okTarget s o) :
    ∃ ring', Inv (initSafePtr s r o) ring' := by
  by_cases hne : s.ptr.get r = o
  · refine ⟨ring, ?_⟩
    have : initSafePtr s r o = s := by unfold initSafePtr; simp [hne]
    rw [this]; exact h
  · refine ⟨(if o = 0 then eraseAll ring r else addTo (eraseAll ring r) o r), ?_⟩
    have hl := initSafePtr_linv h hr ho hne
    refine ⟨hl.ring_ok, ?_, ?_, hl.nodup, ?_, ?_, ?_, ?_⟩
    · intro o' q
      simp only [liveRef, initSafePtr_liveR, initSafePtr_ptr]
      by_cases ho0 : o = 0
      · simp only [ho0, if_true, eraseAll]
        rw [(h.nodup o').mem_erase_iff, h.mem_iff o' q]
        by_cases hq : q = r
        · subst hq; simp; omega
        · simp [hq, liveRef]
      · simp only [ho0, if_false, addTo, eraseAll]
        by_cases hoo : o' = o
        · subst hoo
          simp only [if_true, List.mem_append, List.mem_singleton]
          rw [(h.nodup o').mem_erase_iff, h.mem_iff o' q]
          by_cases hq : q = r
          · subst hq; simp [ho0]; exact hr
          · simp [hq, liveRef]
        · simp only [hoo, if_false]
          rw [(h.nodup o').mem_erase_iff, h.mem_iff o' q]
          by_cases hq : q = r
          · subst hq; simp; intro _ e; exact absurd e.symm hoo
          · simp [hq, liveRef]
    · intro q hq hp
      simp only [liveRef, aliveObj, initSafePtr_liveR, initSafePtr_liveO, initSafePtr_ptr] at *
      by_cases e : q = r
      · simp only [e, if_true] at hp ⊢; exact ho.resolve_left hp
      · simp only [e, if_false] at hp ⊢; exact h.ptr_live q hq hp
    · simpa [liveRef] using h.zeroR
    · simpa [aliveObj] using h.zeroO
    · simpa [liveRef] using h.refs_iff
    · simpa using h.refs_nodup

/-! ### the destructor loop -/

theorem ring_length_le_refs {s : State} {ring : Nat → List Nat} (h : Inv s ring) (o : Nat) :
    (ring o).length ≤ s.refs.length := by
  apply List.Nodup.length_le_of_subset (h.nodup o)
  intro x hx
  exact (h.refs_iff x).2 ((h.mem_iff o x).1 hx).1

theorem destroyLoop_inv : ∀ (fuel : Nat) {s : State} {ring : Nat → List Nat} {o : Nat},
    Inv s ring → aliveObj s o → (ring o).length ≤ fuel →
    Inv (destroyLoop fuel s o) (fun o' => if o' = o then [] else ring o') ∧
    (∀ q, (destroyLoop fuel s o).ptr.get q = if q ∈ ring o then 0 else s.ptr.get q) ∧
    (destroyLoop fuel s o).liveR = s.liveR ∧ (destroyLoop fuel s o).liveO = s.liveO ∧
    (destroyLoop fuel s o).refs = s.refs ∧ (destroyLoop fuel s o).head.get o = 0 := by
  intro fuel
  induction fuel with
  | zero =>
    intro s ring o h ho hf
    have hnil : ring o = [] := List.eq_nil_of_length_eq_zero (Nat.le_zero.1 hf)
    have : (fun o' => if o' = o then [] else ring o') = ring := by
      funext o'; by_cases e : o' = o <;> simp [e, hnil]
    have hh : s.head.get o = 0 := by have := h.ring_ok o ho; rw [hnil] at this; exact this
    simp [destroyLoop, this, h, hnil, hh]
  | succ fuel ih =>
    intro s ring o h ho hf
    cases hro : ring o with
    | nil =>
      have : (fun o' => if o' = o then [] else ring o') = ring := by
        funext o'; by_cases e : o' = o <;> simp [e, hro]
      have hh : s.head.get o = 0 := by have := h.ring_ok o ho; rw [hro] at this; exact this
      simp [destroyLoop, hh, this, h]
    | cons a t =>
      have hok := h.ring_ok o ho
      rw [hro] at hok
      obtain ⟨hh, hring⟩ := hok
      have ham : a ∈ ring o := by rw [hro]; simp
      have hma := (h.mem_iff o a).1 ham
      have ha0 : a ≠ 0 := fun e => h.zeroR (e ▸ hma.1)
      have hne : ¬ s.head.get o = 0 := by rw [hh]; exact ha0
      simp only [destroyLoop, hh, ha0, ↓reduceIte]
      have hc := clear_inv h hma.1
      have ho' : aliveObj (clear s a) o := by simpa [aliveObj] using ho
      have hlen : (eraseAll ring a o).length ≤ fuel := by
        simp only [eraseAll, hro, List.erase_cons_head]
        rw [hro] at hf; simpa using hf
      obtain ⟨i1, i2, i3, i4, i5, i6⟩ := ih hc ho' hlen
      have hfun : (fun o' => if o' = o then [] else eraseAll ring a o') =
          (fun o' => if o' = o then [] else ring o') := by
        funext o'
        by_cases e : o' = o
        · simp [e]
        · simp only [e, if_false, eraseAll]
          apply List.erase_of_not_mem
          intro hm
          have := (h.mem_iff o' a).1 hm
          exact e (by rw [← this.2.1, hma.2.1])
      rw [hfun] at i1
      refine ⟨i1, ?_, by simpa using i3, by simpa using i4, by simpa using i5, i6⟩
      intro q
      rw [i2 q, clear_ptr]
      simp only [eraseAll, hro, List.erase_cons_head, List.mem_cons]
      by_cases hq : q = a
      · simp [hq]
      · simp [hq]

/-! ### one step and reachability -/

theorem step_inv {s s' : State} {ring : Nat → List Nat} {op : Op}
    (h : Inv s ring) (hs : step s op = some s') : ∃ ring', Inv s' ring' := by
  cases op with
  | newObj o =>
    simp only [step] at hs
    split at hs
    · rename_i hc
      obtain ⟨ho0, hna⟩ := hc
      cases hs
      refine ⟨ring, ?_⟩
      have hdead := h.linv.dead o hna
      refine ⟨?_, ?_, ?_, h.nodup, ?_, ?_, ?_, ?_⟩
      · intro o' ho'
        by_cases e : o' = o
        · subst e; rw [hdead]; simp [RingOf]
        · have : aliveObj s o' := by simpa [aliveObj, Mem.get_set, e] using ho'
          apply ringOf_congr _ _ (h.ring_ok o' this)
          · simp [Mem.get_set, e]
          · intro x _; exact ⟨rfl, rfl⟩
      · intro o' q; exact h.mem_iff o' q
      · intro q hq hp
        have := h.ptr_live q hq hp
        simp only [aliveObj, Mem.get_set] at this ⊢
        split <;> simp [this]
      · exact h.zeroR
      · simp only [aliveObj, Mem.get_set]; simp [ho0.symm]; exact h.zeroO
      · exact h.refs_iff
      · exact h.refs_nodup
    · cases hs
  | delObj o =>
    simp only [step] at hs
    split at hs
    · rename_i ho
      cases hs
      obtain ⟨i1, i2, i3, i4, i5, _⟩ := destroyLoop_inv s.refs.length h ho (ring_length_le_refs h o)
      refine ⟨(fun o' => if o' = o then [] else ring o'), ?_⟩
      refine ⟨?_, ?_, ?_, i1.nodup, ?_, ?_, ?_, ?_⟩
      · intro o' ho'
        have hne : o' ≠ o := by
          intro e; subst e; simp [aliveObj] at ho'
        have : aliveObj (destroyLoop s.refs.length s o) o' := by
          simpa [aliveObj, Mem.get_set, hne] using ho'
        exact ringOf_congr rfl (fun x _ => ⟨rfl, rfl⟩) (i1.ring_ok o' this)
      · intro o' q; exact i1.mem_iff o' q
      · intro q hq hp
        have hq' : liveRef (destroyLoop s.refs.length s o) q := hq
        have hp' : (destroyLoop s.refs.length s o).ptr.get q ≠ 0 := hp
        have hal := i1.ptr_live q hq' hp'
        have hne : (destroyLoop s.refs.length s o).ptr.get q ≠ o := by
          intro e
          have hm := (i1.mem_iff o q).2 ⟨hq', e, fun e0 => h.zeroO (e0 ▸ ho)⟩
          simp at hm
        simp only [aliveObj, Mem.get_set, hne, if_false]
        exact hal
      · exact i1.zeroR
      · simp only [aliveObj, Mem.get_set]; split
        · simp
        · exact i1.zeroO
      · exact i1.refs_iff
      · exact i1.refs_nodup
    · cases hs
  | newRef r o =>
    simp only [step] at hs
    split at hs
    · rename_i hc; cases hs
      exact ⟨_, newRef_inv h hc.1 hc.2.1 hc.2.2⟩
    · cases hs
  | copyRef r src =>
    simp only [step] at hs
    split at hs
    · rename_i hc; cases hs
      have hok : okTarget s (s.ptr.get src) := by
        by_cases e : s.ptr.get src = 0
        · exact Or.inl e
        · exact Or.inr (h.ptr_live src hc.2.2 e)
      exact ⟨_, newRef_inv h hc.1 hc.2.1 hok⟩
    · cases hs
  | assignObj r o =>
    simp only [step] at hs
    split at hs
    · rename_i hc; cases hs; exact initSafePtr_inv h hc.1 hc.2
    · cases hs
  | assignRef r src =>
    simp only [step] at hs
    split at hs
    · rename_i hc; cases hs
      have hok : okTarget s (s.ptr.get src) := by
        by_cases e : s.ptr.get src = 0
        · exact Or.inl e
        · exact Or.inr (h.ptr_live src hc.2 e)
      exact initSafePtr_inv h hc.1 hok
    · cases hs
  | clear r =>
    simp only [step] at hs
    split at hs
    · rename_i hc; cases hs; exact ⟨_, clear_inv h hc⟩
    · cases hs
  | delRef r =>
    simp only [step] at hs
    split at hs
    · rename_i hc; cases hs
      have hci := clear_inv h hc
      refine ⟨eraseAll ring r, ?_⟩
      have hl : LInv _ (eraseAll ring r) :=
        hci.linv.congr (s' := { (clear s r) with liveR := (clear s r).liveR.set r 0,
                                                  refs := (clear s r).refs.erase r }) rfl rfl rfl rfl
      refine ⟨hl.ring_ok, ?_, ?_, hl.nodup, ?_, ?_, ?_, ?_⟩
      · intro o' q
        rw [hci.mem_iff o' q]
        simp only [liveRef, Mem.get_set]
        by_cases hq : q = r
        · subst hq; simp [clear_ptr]; omega
        · simp [hq]
      · intro q hq hp
        simp only [liveRef, Mem.get_set] at hq
        by_cases e : q = r
        · simp [e] at hq
        · simp only [e, if_false] at hq
          exact hci.ptr_live q hq hp
      · simp only [liveRef, Mem.get_set]; split <;> simp
        simpa [liveRef] using hci.zeroR
      · exact hci.zeroO
      · intro q
        simp only [liveRef, Mem.get_set]
        rw [hci.refs_nodup.mem_erase_iff]
        by_cases e : q = r
        · simp [e]
        · simp [e]; simpa [liveRef] using hci.refs_iff q
      · exact hci.refs_nodup.erase r
    · cases hs

theorem run_inv : ∀ (ops : List Op) {s s' : State} {ring : Nat → List Nat},
    Inv s ring → run s ops = some s' → ∃ ring', Inv s' ring'
  | [], s, s', ring, h, hr => by simp [run] at hr; subst hr; exact ⟨ring, h⟩
  | op :: ops, s, s', ring, h, hr => by
    simp only [run] at hr
    cases hs : step s op with
    | none => simp [hs] at hr
    | some s1 =>
      simp only [hs, Option.bind_some] at hr
      obtain ⟨ring1, h1⟩ := step_inv h hs
      exact run_inv ops h1 hr

theorem reachable_inv {s : State} (h : Reachable s) : ∃ ring, Inv s ring := by
  obtain ⟨ops, hr⟩ := h
  exact run_inv ops init_inv hr

end Morfuse.SafePtr
