import MorfuseModel.Common.Mem
/-!
# Model of `SafePtrBase` / `AbstractClass::~AbstractClass`  (src/Common/SafePtr.cpp, AbstractClass.cpp)

Transcribed statement by statement.  Ids are `Nat`, `0` is `nullptr`.
`nx pv ptr` are the three fields of a `SafePtrBase` keyed by reference id; `head` is
`AbstractClass::SafePtrList` keyed by object id.  `liveR`, `liveO`, `refs` are ghost bookkeeping
(which ids are constructed); they never influence an observation.
-/
namespace Morfuse.SafePtr

structure State where
  nx : Mem
  pv : Mem
  ptr : Mem
  head : Mem
  liveR : Mem
  liveO : Mem
  refs : List Nat          -- ghost: constructed references (fuel for the destructor loop)

def init : State := ⟨.empty, .empty, .empty, .empty, .empty, .empty, []⟩

/-- `SafePtrBase::AddReference` -/
def addReference (s : State) (r o : Nat) : State :=
  if s.head.get o = 0 then
    { s with head := s.head.set o r, nx := s.nx.set r r, pv := s.pv.set r r }
  else
    let h := s.head.get o
    let l := s.pv.get h
    -- next = head; prev = head->prev; head->prev->next = this; head->prev = this
    { s with nx := (s.nx.set r h).set l r, pv := (s.pv.set r l).set h r }

/-- the common tail of `RemoveReference`: `prev->next = next; next->prev = prev; next = prev = this` -/
def unlink (s : State) (r : Nat) : State :=
  let nx1 := s.nx.set (s.pv.get r) (s.nx.get r)
  let pv1 := s.pv.set (nx1.get r) (s.pv.get r)
  { s with nx := nx1.set r r, pv := pv1.set r r }

/-- `SafePtrBase::RemoveReference` -/
def removeReference (s : State) (r o : Nat) : State :=
  if s.head.get o = r then
    if s.nx.get (s.head.get o) = r then
      { s with head := s.head.set o 0 }
    else
      unlink { s with head := s.head.set o (s.nx.get r) } r
  else
    unlink s r

/-- `SafePtrBase::Clear` -/
def clear (s : State) (r : Nat) : State :=
  if s.ptr.get r ≠ 0 then
    let s' := removeReference s r (s.ptr.get r)
    { s' with ptr := s'.ptr.set r 0 }
  else s

/-- `SafePtrBase::InitSafePtr` -/
def initSafePtr (s : State) (r o : Nat) : State :=
  if s.ptr.get r ≠ o then
    let s1 := if s.ptr.get r ≠ 0 then removeReference s r (s.ptr.get r) else s
    let s2 := { s1 with ptr := s1.ptr.set r o }
    if o = 0 then s2 else addReference s2 r o
  else s

/-- `SafePtrBase::SafePtrBase(AbstractClass*)` (prev/next are left as they were when `o` is null:
    the C++ leaves them uninitialised and nothing observes them) -/
def construct (s : State) (r o : Nat) : State :=
  let s1 := { s with ptr := s.ptr.set r o }
  if o ≠ 0 then addReference s1 r o else s1

/-- `while (SafePtrList) SafePtrList->Clear();` with explicit fuel -/
def destroyLoop : Nat → State → Nat → State
  | 0, s, _ => s
  | fuel + 1, s, o => if s.head.get o = 0 then s else destroyLoop fuel (clear s (s.head.get o)) o

inductive Op
  | newObj (o : Nat)
  | delObj (o : Nat)
  | newRef (r o : Nat)         -- `SafePtr<T> r(o)`, o = 0 for null
  | copyRef (r src : Nat)      -- `SafePtr<T> r(src)`
  | assignObj (r o : Nat)      -- `r = o`
  | assignRef (r src : Nat)    -- `r = src`
  | clear (r : Nat)
  | delRef (r : Nat)
  deriving Repr, DecidableEq

def liveRef (s : State) (r : Nat) : Prop := s.liveR.get r = 1
def aliveObj (s : State) (o : Nat) : Prop := s.liveO.get o = 1
instance (s : State) (r : Nat) : Decidable (liveRef s r) := by unfold liveRef; infer_instance
instance (s : State) (o : Nat) : Decidable (aliveObj s o) := by unfold aliveObj; infer_instance

/-- target is null or a constructed object -/
def okTarget (s : State) (o : Nat) : Prop := o = 0 ∨ aliveObj s o
instance (s : State) (o : Nat) : Decidable (okTarget s o) := by unfold okTarget; infer_instance

/-- One host operation; `none` when the operation is not a legal C++ program fragment
    (constructing over a live slot, touching a destroyed reference, …). -/
def step (s : State) : Op → Option State
  | .newObj o =>
    if o ≠ 0 ∧ ¬ aliveObj s o then
      some { s with head := s.head.set o 0, liveO := s.liveO.set o 1 }
    else none
  | .delObj o =>
    if aliveObj s o then
      let s' := destroyLoop s.refs.length s o
      some { s' with liveO := s'.liveO.set o 0 }
    else none
  | .newRef r o =>
    if r ≠ 0 ∧ ¬ liveRef s r ∧ okTarget s o then
      let s' := construct s r o
      some { s' with liveR := s'.liveR.set r 1, refs := r :: s'.refs }
    else none
  | .copyRef r src =>
    if r ≠ 0 ∧ ¬ liveRef s r ∧ liveRef s src then
      let s' := construct s r (s.ptr.get src)
      some { s' with liveR := s'.liveR.set r 1, refs := r :: s'.refs }
    else none
  | .assignObj r o =>
    if liveRef s r ∧ okTarget s o then some (initSafePtr s r o) else none
  | .assignRef r src =>
    if liveRef s r ∧ liveRef s src then some (initSafePtr s r (s.ptr.get src)) else none
  | .clear r =>
    if liveRef s r then some (clear s r) else none
  | .delRef r =>
    if liveRef s r then
      let s' := clear s r
      some { s' with liveR := s'.liveR.set r 0, refs := s'.refs.erase r }
    else none

def run : State → List Op → Option State
  | s, [] => some s
  | s, op :: ops => (step s op).bind (run · ops)

/-- `SafePtrBase::Pointer` -/
def pointer (s : State) (r : Nat) : Nat := s.ptr.get r
/-- `SafePtrBase::IsLastReference` -/
def isLast (s : State) (r : Nat) : Bool := s.nx.get r = r ∧ s.pv.get r = r

def Reachable (s : State) : Prop := ∃ ops, run init ops = some s

end Morfuse.SafePtr
