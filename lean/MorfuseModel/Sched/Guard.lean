/-!
# Execution guards of the VM (src/Script/ScriptVMOperation.cpp `Execute`/`Process`, ScriptVM.cpp
`ScriptExecutionStack`)

* time guard: `nextTime = GetTime() + maxExecTime`; `Process` reads the clock once before the loop and
  once after every instruction, and throws `CommandOverflow` after an instruction when the reading
  taken *before* that instruction is `≥ nextTime`.
* depth guard: every `ScriptVM::Execute` constructs a `ScriptExecutionStack`, which throws
  `MaxStackDepth` when `stackDepth > maxStackDepth` and otherwise increments `stackDepth`.
-/
namespace Morfuse.Sched.Guard

/-- `clk k` is the k-th reading of the clock during one `Execute` (reading 0 sets the deadline,
    reading 1 is taken at the start of `Process`, reading `i+1` after instruction `i`).
    `runLoop clk maxExec fuel i` executes instructions `i, i+1, …` of a thread that never yields and
    returns the number of the instruction after which `CommandOverflow` is thrown. -/
def runLoop (clk : Nat → Nat) (maxExec : Nat) : Nat → Nat → Option Nat
  | 0, _ => none
  | fuel + 1, i =>
    -- instruction i has been executed; cmdTime is reading i
    if maxExec ≠ 0 ∧ clk i ≥ clk 0 + maxExec then some i else runLoop clk maxExec fuel (i + 1)

/-- `ScriptExecutionStack` constructor -/
def enter (depth maxDepth : Nat) : Option Nat := if depth > maxDepth then none else some (depth + 1)

/-- `n` VM activations nested inside each other, starting from depth 0 -/
def nest (maxDepth : Nat) : Nat → Nat → Option Nat
  | 0, depth => some depth
  | n + 1, depth => (enter depth maxDepth).bind (nest maxDepth n)

end Morfuse.Sched.Guard
