import MorfuseModel.Sched.Machine
/-!
# The host operations of the scheduler machine

`HostOp` is the list of commands the driver (`lean/Driver/Sched.lean`) accepts apart from `save`/`load`
and the read-only `thread-result`; `HostOp.apply` is what the driver does to the machine state for each
of them (the driver calls this function, so the theorems of `Sched/MachineHost.lean` about `HostOp.apply`
are about the function the correspondence runs compare with the engine).
-/
namespace Morfuse.Sched
open State

/-- `director.ExecuteThread(script, label)` without a host `Event`: the result cell is dropped -/
def hostCallV (s : State) (label : Nat) : State :=
  let c := s.nextCall
  let s' := (hostCall s label []).1
  { s' with threads := s'.threads.map (fun e => (e.1, if e.2.call == some c then { e.2 with call := none } else e.2)) }

/-- the status word of `hostCall` (`hostCall_status` in `MachineHost.lean`) -/
def hostCallStatus (s : State) (label : Nat) : String :=
  if label ≥ s.prog.length then "err LabelNotFound" else "ok"

inductive HostOp
  | reset                                                 -- a new context
  | script (prog : List (List Instr)) (params : List Nat) -- compile / recompile
  | call (label : Nat) (args : List V)
  | callv (label : Nat)
  | advance (ms : Nat)                                    -- the injected clock moves
  | resetDirector                                         -- `director.Reset()`
  | execute                                               -- `ScriptContext::Execute()`
  | step (ms : Nat)                                       -- advance, then execute
  | takeOut                                               -- the driver reads and clears the output

def HostOp.apply (s : State) : HostOp → State
  | .reset => {}
  | .script p ps => hostScript s p ps
  | .call l args => (hostCall s l args).1
  | .callv l => hostCallV s l
  | .advance k => { s with clock := s.clock + k }
  | .resetDirector => hostReset s
  | .execute => hostExecute s
  | .step k => hostExecute { s with clock := s.clock + k }
  | .takeOut => { s with out := [] }

end Morfuse.Sched
