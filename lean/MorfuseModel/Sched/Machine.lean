import MorfuseModel.Sched.Timer
import MorfuseModel.Sched.Tables
/-!
# The cooperative scheduler as an executable machine

Transcribes, at the granularity of the C++ call structure, `ScriptContext::Execute`,
`ScriptMaster::{AddTiming,ExecuteRunning,ExecuteThread}`, `ScriptThread::{ScriptExecuteInternal,
Stop,StartTiming,Wait,Pause,Resume,StartedWaitFor,StoppedWaitFor,StoppedNotify,~ScriptThread}`,
`ScriptVM::{Execute,End,NotifyDelete,Suspend,Resume}`, `ScriptClass::{AddThread,RemoveThread}`,
`Listener::{Register,Unregister,UnregisterAll,CancelWaitingAll,EndOn,~Listener}` (DESIGN.md 7.4.1).

Nested C++ calls are nested Lean calls; every function takes fuel and returns the state unchanged
when it runs out (the driver reports that as `fuel`).  Listener ids: objects `1..99`, threads `≥ 100`.
-/
namespace Morfuse.Sched

/-- script values as far as the host-call protocol needs them -/
inductive V | nil | int (n : Nat) | str (s : String) deriving Repr, DecidableEq, Inhabited

def V.show : V → String
  | .nil => "NIL" | .int n => toString n | .str s => s

/-- operand of `end` -/
inductive EndV | none | lit (n : Nat) | param (i : Nat) deriving Repr, DecidableEq, Inhabited

inductive Instr
  | mark (k : Nat)
  | pparam (i : Nat)                            -- `println "p" local.p<i>`
  | wait (ms : Nat)
  | waittill (o : Nat) (names : List Nat)      -- one name: `waittill`; several: `waittill_any`
  | waittillTimeout (o n ms : Nat)             -- `waittill_timeout`
  | notify (o n : Nat)
  | endon (o n : Nat)
  | delete (o : Nat)
  | thread (l : Nat)
  | waitthread (l : Nat)
  | pause
  | waitParent (ms : Nat)                       -- `local.p0 wait d` where p0 is the spawning thread
  | waittillParent (names : List Nat)           -- `local.p0 waittill n` / `waittill_any`: the source is a *thread* object
  | notifyParent (n : Nat)                      -- `local.p0 notify n`
  | end_ (v : EndV)
  | spawn (o : Nat)
  deriving Repr, DecidableEq, Inhabited

inductive TS | running | timing | waiting deriving Repr, DecidableEq, Inhabited
inductive VS | running | suspended | idling | destroyed deriving Repr, DecidableEq, Inhabited

/-- value seen by the host in its `Event` after `ExecuteThread(script, event, label)` -/
inductive Ret | open_ | none | pending | nil | val (v : V) deriving Repr, DecidableEq, Inhabited

structure Th where
  label : Nat
  pc : Nat := 0
  ts : TS := .running
  vm : VS := .running
  inst : Nat
  hasVM : Bool := true        -- `m_ScriptVM != nullptr` (false once the destructor has started)
  vmObj : Bool := true        -- the `ScriptVM` object still exists
  attached : Bool := true     -- `vm->m_ScriptClass != nullptr`
  call : Option Nat := none   -- host call whose result cell this thread's VM shares
  dead : Bool := false        -- the `ScriptThread` object is gone (weak references read null)
  params : List V := []       -- the label's declared parameters after binding
  parent : Nat := 0           -- the thread that spawned this one (passed as first argument), 0 = none
  deriving Repr, Inhabited

def nameDelete : Nat := 1000
def nameRemove : Nat := 1001

structure State where
  prog : List (List Instr) := []
  progParams : List Nat := []                -- declared parameter count of every label
  clock : Nat := 0
  scaled : Nat := 0
  lastClock : Nat := 0
  timer : Timer := {}
  threads : List (Nat × Th) := []
  objs : List Nat := []
  insts : List (Nat × List Nat) := []        -- instance ↦ VM chain (head first)
  notify : Tbl := []
  waitFor : Tbl := []
  endOn : Tbl := []
  cur : Option Nat := none
  out : List String := []                    -- reverse order
  nextTid : Nat := 100
  nextInst : Nat := 1
  calls : List (Nat × Ret) := []
  nextCall : Nat := 1
  outOfFuel : Bool := false
  depth : Nat := 0                           -- `ScriptExecutionStack::stackDepth`
  events : List (Nat × Nat) := []            -- posted `_cancelwaiting` events (thread, due), queue order
  deriving Inhabited

namespace State

/-- object 50 is `level`: owned by the context, alive for its whole life, archived by the host -/
def objAlive (s : State) (o : Nat) : Bool := o == 50 || s.objs.contains o
def th? (s : State) (t : Nat) : Option Th := (s.threads.find? (·.1 == t)).map (·.2)
def setTh (s : State) (t : Nat) (f : Th → Th) : State :=
  { s with threads := s.threads.map (fun e => if e.1 == t then (e.1, f e.2) else e) }
def isThread (t : Nat) : Bool := t ≥ 100
/-- a weak reference to `l` is still non-null: the object's destructor has not finished -/
def alive (s : State) (l : Nat) : Bool :=
  if isThread l then s.threads.any (fun e => e.1 == l && !e.2.dead) else objAlive s l
def hasVM (s : State) (t : Nat) : Bool := match s.th? t with | some th => th.hasVM | none => false
def emit (s : State) (m : String) : State := { s with out := m :: s.out }
def setRet (s : State) (c : Nat) (r : Ret) : State :=
  { s with calls := s.calls.map (fun e => if e.1 == c then (e.1, r) else e) }
def getRet (s : State) (c : Nat) : Ret := ((s.calls.find? (·.1 == c)).map (·.2)).getD .none

end State

open State

/-- the loop `STORE_PARAM; LOAD_LOCAL_VAR p` over the declared parameters, with the VM's `fastIndex`:
    `if (fastIndex < NumArgs) top = arg[++fastIndex] else top = NIL` -/
def bindLoop : Nat → Nat → List V → List V
  | 0, _, _ => []
  | n + 1, fastIndex, args =>
    if fastIndex < args.length then args.getD fastIndex .nil :: bindLoop n (fastIndex + 1) args
    else .nil :: bindLoop n fastIndex args

/-- `ScriptClass::RemoveThread`: unlink the VM; the instance dies with its last thread -/
def removeFromInst (s : State) (t : Nat) (i : Nat) : State :=
  match s.insts.find? (·.1 == i) with
  | none => s
  | some (_, chain) =>
    match chain with
    | h :: rest =>
      if h == t then
        if rest.isEmpty then { s with insts := s.insts.filter (fun e => !(e.1 == i)) }
        else { s with insts := s.insts.map (fun e => if e.1 == i then (i, rest) else e) }
      else { s with insts := s.insts.map (fun e => if e.1 == i then (i, chain.erase t) else e) }
    | [] => s

/-- `ScriptVM::Suspend` -/
def vmSuspend (s : State) (t : Nat) : State :=
  s.setTh t (fun th => if th.vm == .running then { th with vm := .suspended } else th)

/-- `ScriptVM::Resume(false)` -/
def vmResume (s : State) (t : Nat) : State :=
  s.setTh t (fun th => if th.vm == .suspended then { th with vm := .running } else th)

/-- `EventQueue::PostEvent`: sorted by due time, after every event with the same or an earlier time -/
def postEvent (s : State) (t due : Nat) : State :=
  let before := s.events.takeWhile (fun e => e.2 ≤ due)
  let after := s.events.dropWhile (fun e => e.2 ≤ due)
  { s with events := before ++ (t, due) :: after }

/-- `CancelPendingEvents` / `CancelEventsOfType(_cancelwaiting)` of one thread -/
def cancelEvents (s : State) (t : Nat) : State := { s with events := s.events.filter (fun e => !(e.1 == t)) }

/-- `ScriptMaster::AddTiming` -/
def addTiming (s : State) (t : Nat) (d : Nat) : State :=
  { s with timer := s.timer.add t (s.scaled + d) }

/-- `Listener::UnregisterTargets(name, list, stopped)`: walks `list` from last to first -/
def unregisterTargets (s : State) (src name : Nat) (list : List Nat) : State × List Nat :=
  list.reverse.foldl (fun (acc : State × List Nat) l =>
    if acc.1.alive l then
      let (w', found) := Tbl.removeAll acc.1.waitFor (l, name) src
      ({ acc.1 with waitFor := w' }, if found then acc.2 ++ [l] else acc.2)
    else acc) (s, [])

/-- `Listener::CancelWaitingSources(name, list, stopped)` for waiter `w` -/
def cancelWaitingSources (s : State) (w name : Nat) (list : List Nat) (stopped : List Nat) : State × List Nat :=
  list.reverse.foldl (fun (acc : State × List Nat) src =>
    if acc.1.alive src then
      let (n', found) := Tbl.removeAll acc.1.notify (src, name) w
      ({ acc.1 with notify := n' }, if found then acc.2 ++ [src] else acc.2)
    else acc) (s, stopped)

mutual

/-- `delete thread` -/
def deleteThread : Nat → State → Nat → State
  | 0, s, _ => { s with outOfFuel := true }
  | fuel + 1, s, t =>
    match s.th? t with
    | none => s
    | some th =>
      if !th.hasVM then s else
      -- ~ScriptThread
      let s := s.setTh t (fun th => { th with hasVM := false })
      let s :=
        if th.ts == .timing then { (s.setTh t (fun th => { th with ts := .running })) with timer := s.timer.remove t }
        else if th.ts == .waiting then cancelWaitingAll fuel (s.setTh t (fun th => { th with ts := .running })) t
        else s
      -- vm->NotifyDelete()
      let s := match s.th? t with
        | none => s
        | some th =>
          let s1 := s.setTh t (fun th => { th with vm := .destroyed })
          let s1 := if th.attached then removeFromInst s1 t th.inst else s1
          if th.vm == .idling then s1.setTh t (fun th => { th with vmObj := false }) else s1
      -- ~Listener
      let s := cancelEvents s t
      let s := unregister fuel s t nameDelete
      let s := unregister fuel s t nameRemove
      let s := unregisterAll fuel s t
      let s := cancelWaitingAll fuel s t
      -- ~AbstractClass: weak references read null from here on; the record goes once the VM is gone too
      match s.th? t with
      | none => s
      | some th =>
        if th.vmObj then s.setTh t (fun th => { th with dead := true })   -- VM still on the C++ stack
        else { s with threads := s.threads.filter (fun e => !(e.1 == t)) }

/-- `Listener::StoppedNotify` (virtual): a thread deletes itself, a plain object does nothing -/
def stoppedNotify : Nat → State → Nat → State
  | 0, s, _ => { s with outOfFuel := true }
  | fuel + 1, s, l =>
    if isThread l then (if s.hasVM l then deleteThread fuel s l else s) else s

/-- `ScriptThread::Stop` -/
def stop : Nat → State → Nat → State
  | 0, s, _ => { s with outOfFuel := true }
  | fuel + 1, s, t =>
    match s.th? t with
    | none => s
    | some th =>
      if th.ts == .timing then
        { (s.setTh t (fun th => { th with ts := .running })) with timer := s.timer.remove t }
      else if th.ts == .waiting then
        cancelWaitingAll fuel (s.setTh t (fun th => { th with ts := .running })) t
      else s

/-- `Listener::CancelWaitingAll` for listener `w` (first `CancelWaiting(0)`, then every name) -/
def cancelWaitingAll : Nat → State → Nat → State
  | 0, s, _ => { s with outOfFuel := true }
  | fuel + 1, s, w =>
    -- CancelWaiting(0)
    let s :=
      match Tbl.find s.waitFor (w, 0) with
      | none => s
      | some list =>
        let (s, stopped) := cancelWaitingSources s w 0 list []
        let s := { s with waitFor := Tbl.removeKey s.waitFor (w, 0) }
        let s := if !Tbl.hasOwner s.waitFor w then stoppedWaitFor fuel s w 0 false else s
        stopped.reverse.foldl (fun s src => if s.alive src then stoppedNotify fuel s src else s) s
    if !Tbl.hasOwner s.waitFor w then s else
    let (s, stopped) := (Tbl.keysOf s.waitFor w).foldl
      (fun (acc : State × List Nat) e => cancelWaitingSources acc.1 w e.1 e.2 acc.2) (s, [])
    let s := { s with waitFor := Tbl.removeOwner s.waitFor w }
    let s := stoppedWaitFor fuel s w 0 false
    stopped.reverse.foldl (fun s src => if s.alive src then stoppedNotify fuel s src else s) s

/-- `ScriptThread::StoppedWaitFor(name, bDeleting)` (a plain object ignores it) -/
def stoppedWaitFor : Nat → State → Nat → Nat → Bool → State
  | 0, s, _, _, _ => { s with outOfFuel := true }
  | fuel + 1, s, t, name, deleting =>
    if !isThread t then s else
    match s.th? t with
    | none => s
    | some th =>
      if !th.hasVM then s
      else if deleting then deleteThread fuel s t
      else
      let s := cancelEvents s t          -- CancelEventsOfType(EV_ScriptThread_CancelWaiting)
      if th.ts == .waiting then
        if name != 0 then
          if th.vm == .idling then scriptExecuteInternal fuel s t   -- Execute()
          else vmResume s t
        else
          -- StartTiming(): Stop(); state = Timing; AddTiming(this, 0)
          let s := stop fuel s t
          if !s.alive t then s else       -- deleted by its own Stop() (wait cycle): StartTiming returns
          addTiming (s.setTh t (fun th => { th with ts := .timing })) t 0
      else s

/-- `Listener::Unregister(name)` = script `notify` -/
def unregister : Nat → State → Nat → Nat → State
  | 0, s, _, _ => { s with outOfFuel := true }
  | fuel + 1, s, src, name =>
    -- the endon list first
    let (s, deleteSelf) :=
      if !Tbl.hasOwner s.endOn src then (s, false) else
      match Tbl.find s.endOn (src, name) with
      | none => (s, false)
      | some listeners =>
        let s := { s with endOn := Tbl.removeKey s.endOn (src, name) }
        listeners.reverse.foldl (fun (acc : State × Bool) l =>
          if acc.1.alive l then
            if l == src && (name == nameRemove || name == nameDelete || acc.2) then acc
            else
              let ds := acc.2 || (l == src)
              (deleteThread fuel acc.1 l, ds)
          else acc) (s, false)
    if deleteSelf then s else
    if !Tbl.hasOwner s.notify src then s else
    match Tbl.find s.notify (src, name) with
    | none => s
    | some list =>
      let (s, stopped) := unregisterTargets s src name list
      let s := { s with notify := Tbl.removeKey s.notify (src, name) }
      let s := if !Tbl.hasOwner s.notify src then stoppedNotify fuel s src else s
      stopped.reverse.foldl (fun s l => if s.alive l then stoppedWaitFor fuel s l name false else s) s

/-- `Listener::UnregisterAll` -/
def unregisterAll : Nat → State → Nat → State
  | 0, s, _ => { s with outOfFuel := true }
  | fuel + 1, s, src =>
    let s := unregister fuel s src 0
    let s := { s with endOn := Tbl.removeOwner s.endOn src }
    if !Tbl.hasOwner s.notify src then s else
    let (s, stopped) := (Tbl.keysOf s.notify src).foldl
      (fun (acc : State × List (Nat × Nat)) e =>
        let (s', st) := unregisterTargets acc.1 src e.1 e.2
        (s', acc.2 ++ st.map (fun l => (l, e.1)))) (s, [])
    let s := { s with notify := Tbl.removeOwner s.notify src }
    let s := stoppedNotify fuel s src
    stopped.reverse.foldl (fun s (ln : Nat × Nat) =>
      if s.alive ln.1 then stoppedWaitFor fuel s ln.1 ln.2 true else s) s

/-- `ScriptThread::ScriptExecuteInternal` -/
def scriptExecuteInternal : Nat → State → Nat → State
  | 0, s, _ => { s with outOfFuel := true }
  | fuel + 1, s, t =>
    let savedCur := s.cur
    let s := { s with cur := some t }     -- (m_PreviousThread is written here too; nothing modelled reads it)
    let s := stop fuel s t
    -- deleted by its own Stop() (wait cycle between threads): nothing to execute
    let s := if s.alive t then execVM fuel s t else s
    -- restore (both are SafePtr: a thread destroyed meanwhile reads null)
    let s := { s with cur := savedCur.bind (fun c => if s.alive c then some c else none) }
    executeRunning fuel s

/-- `ScriptMaster::ExecuteRunning` -/
def executeRunning : Nat → State → State
  | 0, s => { s with outOfFuel := true }
  | fuel + 1, s =>
    if s.cur.isSome || s.depth > 0 then s     -- a VM activation is still on the native stack
    else if !s.timer.dirty then s
    else drain fuel s

/-- the `while ((m_CurrentThread = GetNextElement()))` loop -/
def drain : Nat → State → State
  | 0, s => { s with outOfFuel := true }
  | fuel + 1, s =>
    match s.timer.next with
    | (none, tm) => { s with timer := tm, cur := none }
    | (some (t, _), tm) =>
      let s := { s with timer := tm, cur := some t }
      -- Resume(): SetThreadState(Running); m_ScriptVM->Execute()
      let s := s.setTh t (fun th => { th with ts := .running })
      let s := execVM fuel s t
      drain fuel s

/-- `ScriptVM::Execute` -/
def execVM : Nat → State → Nat → State
  | 0, s, _ => { s with outOfFuel := true }
  | fuel + 1, s, t =>
    let s := s.setTh t (fun th => { th with vm := .running })
    let s := { s with depth := s.depth + 1 }          -- ScriptExecutionStack
    let s := process fuel s t
    let s := { s with depth := s.depth - 1 }
    match s.th? t with
    | none => s
    | some th =>
      match th.vm with
      | .suspended => s.setTh t (fun th => { th with vm := .idling })
      | .destroyed =>
        -- delete this (the VM); the thread record disappears with it
        { s with threads := s.threads.filter (fun e => !(e.1 == t)) }
      | _ => s

/-- `ScriptVM::Process`: run instructions while the VM is `Running` -/
def process : Nat → State → Nat → State
  | 0, s, _ => { s with outOfFuel := true }
  | fuel + 1, s, t =>
    match s.th? t with
    | none => s
    | some th =>
      if th.vm != .running then s else
      let body := s.prog.getD th.label []
      let ins := body.getD th.pc (.end_ .none)
      let s := s.setTh t (fun th => { th with pc := th.pc + 1 })
      let s := exec fuel s t th ins
      process fuel s t

/-- one instruction of thread `t` -/
def exec : Nat → State → Nat → Th → Instr → State
  | 0, s, _, _, _ => { s with outOfFuel := true }
  | fuel + 1, s, t, th, ins =>
    match ins with
    | .mark k => s.emit s!"m{k}"
    | .pparam i => s.emit s!"p_{(th.params.getD i .nil).show}"
    | .wait ms =>
      -- Wait(): StartTiming(time); Suspend()
      let s := stop fuel s t
      let s := addTiming (s.setTh t (fun th => { th with ts := .timing })) t ms
      vmSuspend s t
    | .waittill o names =>
      if !s.objAlive o then s else          -- `$o` is NULL: script error, statement skipped
      match s.cur with
      | none => s
      | some c =>
        names.foldl (fun s n =>
          -- Register(name, CurrentThread()): RegisterSource then RegisterTarget
          let s := { s with notify := Tbl.push s.notify (o, n) c }
          let s :=
            if !Tbl.hasOwner s.waitFor c then
              -- StartedWaitFor(): Stop(); StartWaiting(); Suspend()
              let s := stop fuel s c
              vmSuspend (s.setTh c (fun th => { th with ts := .waiting })) c
            else s
          { s with waitFor := Tbl.push s.waitFor (c, n) o }) s
    | .waittillTimeout o n ms =>
      if !s.objAlive o then s else
      match s.cur with
      | none => s
      | some c =>
        let s := { s with notify := Tbl.push s.notify (o, n) c }
        let s :=
          if !Tbl.hasOwner s.waitFor c then
            let s := stop fuel s c
            vmSuspend (s.setTh c (fun th => { th with ts := .waiting })) c
          else s
        let s := { s with waitFor := Tbl.push s.waitFor (c, n) o }
        -- CurrentThread()->PostEvent(new Event(EV_ScriptThread_CancelWaiting), timeout)
        postEvent s c (s.clock + ms)
    | .notify o n =>
      if !s.objAlive o then s else unregister fuel s o n
    | .endon o n =>
      if !s.objAlive o then s else
      match s.cur with
      | none => s
      | some c => { s with endOn := Tbl.pushUnique s.endOn (o, n) c }
    | .delete o =>
      if !s.objs.contains o then s else
      -- ~Listener of the object
      let s := unregister fuel s o nameDelete
      let s := unregister fuel s o nameRemove
      let s := unregisterAll fuel s o
      let s := cancelWaitingAll fuel s o
      { s with objs := s.objs.erase o }
    | .spawn o =>
      if s.objs.contains o then s else { s with objs := s.objs ++ [o] }
    | .thread l =>
      if l ≥ s.prog.length then s else
      let t' := s.nextTid
      let s := { s with nextTid := t' + 1,
                        threads := s.threads ++ [(t', ({ label := l, inst := th.inst, params := bindLoop (s.progParams.getD l 0) 0 [], parent := t } : Th))],
                        insts := s.insts.map (fun (e : Nat × List Nat) => if e.1 == th.inst then (e.1, t' :: e.2) else e) }
      scriptExecuteInternal fuel s t'
    | .waitthread l =>
      if l ≥ s.prog.length then s else
      -- `waitthread` is answered by `Listener::WaitCreateThread` on the *thread* object, whose
      -- `CreateThreadInternal` is the `Listener` one: a new script instance (self = the thread)
      let t' := s.nextTid
      let i' := s.nextInst
      let s := { s with nextTid := t' + 1, nextInst := i' + 1,
                        threads := s.threads ++ [(t', ({ label := l, inst := i', params := bindLoop (s.progParams.getD l 0) 0 [], parent := t } : Th))],
                        insts := (i', [t']) :: s.insts }
      match s.cur with
      | none => scriptExecuteInternal fuel s t'
      | some c =>
        -- thread->Register(0, CurrentThread())
        let s := { s with notify := Tbl.push s.notify (t', 0) c }
        let s :=
          if !Tbl.hasOwner s.waitFor c then
            let s := stop fuel s c
            vmSuspend (s.setTh c (fun th => { th with ts := .waiting })) c
          else s
        let s := { s with waitFor := Tbl.push s.waitFor (c, 0) t' }
        scriptExecuteInternal fuel s t'
    | .pause =>
      let s := stop fuel s t
      vmSuspend s t
    | .waitParent ms =>
      -- the `wait` command sent to another thread object: `ScriptThread::EventWait` → `Wait(ms)` on it
      if th.parent == 0 || !s.alive th.parent || !s.hasVM th.parent then s else   -- NIL / NULL listener: script error
      let p := th.parent
      let s := stop fuel s p
      if !s.alive p then s else         -- `p` was deleted by its own Stop() (wait cycle): Wait returns
      let s := addTiming (s.setTh p (fun th => { th with ts := .timing })) p ms
      vmSuspend s p
    | .waittillParent names =>
      -- `Listener::WaitTill` on a thread object (threads are listeners); NIL / NULL receiver: script error
      if th.parent == 0 || !s.alive th.parent then s else
      let o := th.parent
      match s.cur with
      | none => s
      | some c =>
        names.foldl (fun s n =>
          let s := { s with notify := Tbl.push s.notify (o, n) c }
          let s :=
            if !Tbl.hasOwner s.waitFor c then
              let s := stop fuel s c
              vmSuspend (s.setTh c (fun th => { th with ts := .waiting })) c
            else s
          { s with waitFor := Tbl.push s.waitFor (c, n) o }) s
    | .notifyParent n =>
      if th.parent == 0 || !s.alive th.parent then s else unregister fuel s th.parent n
    | .end_ ev =>
      -- End()/EndRef(): result into the shared cell, then `delete m_Thread`.  Ending with a NIL
      -- value is indistinguishable from a plain `end` for the host.
      let v : Option V := match ev with
        | .none => none
        | .lit n => some (.int n)
        | .param i => match th.params.getD i .nil with | .nil => none | x => some x
      let s := match th.call with
        | none => s
        | some c =>
          match s.getRet c, v with
          | .open_, some x => s.setRet c (.val x)        -- still inside the host call
          | .open_, none => s.setRet c .none             -- cell cleared: nothing is added to the Event
          | .pending, some x => s.setRet c (.val x)
          | .pending, none => s.setRet c .nil
          | _, _ => s
      deleteThread fuel (s.setTh t (fun th => { th with call := none })) t

end

/-! ### host operations -/

def defaultFuel : Nat := 4000

/-- `director.ExecuteThread(script, event, label)`; `label` out of range = label not found -/
def hostCall (s : State) (label : Nat) (args : List V := []) : State × String :=
  if label ≥ s.prog.length then (s, "err LabelNotFound") else
  let i := s.nextInst
  let t := s.nextTid
  let c := s.nextCall
  let s := { s with nextInst := i + 1, nextTid := t + 1, nextCall := c + 1,
                    insts := (i, [t]) :: s.insts,
                    threads := s.threads ++ [(t, ({ label := label, inst := i, call := some c, params := bindLoop (s.progParams.getD label 0) 0 args } : Th))],
                    calls := s.calls ++ [(c, .open_)] }
  let s := scriptExecuteInternal defaultFuel s t
  -- `if (!returnValue.IsNone()) ev.AddValue(std::move(returnValue))`: still a pointer = the thread lives on
  let s := if s.getRet c == .open_ then s.setRet c .pending else s
  (s, "ok")

/-- `~ScriptClass`: unlink from the director's list, then `KillThreads` (every VM is detached from the
    instance first, so its `NotifyDelete` does not call `RemoveThread`) -/
def killInst (s : State) (i : Nat) : State :=
  match s.insts.find? (·.1 == i) with
  | none => s
  | some (_, chain) =>
    let s := { s with insts := s.insts.filter (fun e => !(e.1 == i)) }
    chain.foldl (fun s t => deleteThread defaultFuel (s.setTh t (fun th => { th with attached := false })) t) s

/-- destroy every script instance that exists now (`ScriptMaster::ClearAll` → `FreeAll`, and
    `DeleteProgramScript` for the only program) -/
def killAllInsts (s : State) : State :=
  (s.insts.map (·.1)).foldl (fun s i => killInst s i) s

/-- `director.Reset()` -/
def hostReset (s : State) : State :=
  let s := killAllInsts s
  { s with prog := [], progParams := [] }

/-- `GetProgramScript(name, stream, recompile = true)`: instances of the old version are destroyed -/
def hostScript (s : State) (prog : List (List Instr)) (params : List Nat) : State :=
  let s := if s.prog.isEmpty then s else killAllInsts s
  { s with prog := prog, progParams := params }

/-- `EventQueue::ProcessPendingEvents`: deliver every due `_cancelwaiting` event
    (`ScriptThread::CancelWaiting` = `CancelWaitingAll`) -/
def processEvents : Nat → State → State
  | 0, s => { s with outOfFuel := true }
  | fuel + 1, s =>
    match s.events with
    | [] => s
    | (t, due) :: rest =>
      if due > s.clock then s else
      let s := { s with events := rest }
      let s := if s.alive t && s.hasVM t then cancelWaitingAll defaultFuel s t else s
      processEvents fuel s

/-- `ScriptContext::Execute()` at time scale 1 with the injected clock -/
def hostExecute (s : State) : State :=
  let delta := s.clock - s.lastClock
  let s := { s with scaled := s.scaled + delta, lastClock := s.clock }
  let s := { s with timer := s.timer.setTime s.clock }
  let s := processEvents defaultFuel s
  executeRunning defaultFuel s

end Morfuse.Sched
