import MorfuseModel.Sched.MachineNoVMBack
import MorfuseModel.Sched.MachineInstHost
/-!
# What happens inside one call: `endon` lists and removed sources

Call-level theorems (the statement ties a particular `Unregister(name)` / `UnregisterAll` to what happens inside
*that* call):
* `unregister_endon_destroys`: every thread listed under `endon (src, name)` when `Unregister(name)` is called (and
  that is not the notifying object itself) has no VM when the call returns — the `endon` loop destroys it, and nothing
  that runs afterwards inside the call (later iterations, the woken waiters' nested executions) gives a VM back;
* `uaRest_destroys_waiters`: every waiter registered on the source when the main part of `UnregisterAll` starts has no VM
  when it returns (`StoppedWaitFor(name, true)` = `delete`).
Loop invariant: processed ⇒ no VM; kept by what follows through `hvAll`.
-/
namespace Morfuse.Sched
open State

/-- "no record, or no VM" survives any step that never gives a VM back, for an id that is not new -/
theorem NoVM.of_hv {s s' : State} (r : HV s s') {l : Nat} (hl : l < s.nextTid) (h : NoVM s l) : NoVM s' l := by
  intro th' hf
  cases hv : th'.hasVM with
  | false => rfl
  | true =>
    rcases r.hv l th' hf hv with ⟨th, h1, h2⟩ | hge
    · rw [h th h1] at h2; cases h2
    · omega

/-- a listener whose weak reference reads null has no VM -/
theorem Inv.not_alive_noVM {C W : List Nat} {top : Option Nat} {s : State} (h : Inv C W top s) {l : Nat}
    (ha : ¬ s.alive l = true) : NoVM s l := by
  intro th hth
  have hl : 100 ≤ l := (h.n.range l th hth).1
  have ha' : s.alive l = false := by simpa using ha
  rw [State.alive_thread _ (by simpa [State.isThread] using hl)] at ha'
  cases hd : th.dead with
  | true => exact ((h.th l th hth).f2 hd).1
  | false =>
    have := (aliveTh_iff h.n.nodup l).2 ⟨th, hth, hd⟩
    rw [ha'] at this; cases this

/-! ### the `endon` loop -/

theorem endOnFold_hv {dt : State → Nat → State} (hp : HV1 dt) (src name : Nat) :
    ∀ (L : List Nat) (acc : State × Bool), HV acc.1 (L.foldl (endOnStep dt src name) acc).1
  | [], acc => HV.refl _
  | l :: L, acc => by
    simp only [List.foldl_cons]
    refine HV.trans ?_ (endOnFold_hv hp src name L _)
    unfold endOnStep
    split
    · split
      · exact HV.refl _
      · exact hp _ _
    · exact HV.refl _

theorem endOnFold_noVM (fuel : Nat) (C W : List Nat) (src name : Nat) :
    ∀ (L : List Nat) (acc : State × Bool), Inv C W none acc.1 →
      Ok (L.foldl (endOnStep (deleteThread (fuel + 1)) src name) acc).1
        (Inv C W none (L.foldl (endOnStep (deleteThread (fuel + 1)) src name) acc).1 ∧
          ∀ l ∈ L, l ≠ src → l < acc.1.nextTid →
            NoVM (L.foldl (endOnStep (deleteThread (fuel + 1)) src name) acc).1 l)
  | [], _, h => Ok.pure ⟨h, fun l hl => by cases hl⟩
  | l :: L, acc, h => by
    simp only [List.foldl_cons]
    have P := presAll (fuel + 1)
    have I := iAll (fuel + 1)
    have hv1 : HV acc.1 (endOnStep (deleteThread (fuel + 1)) src name acc l).1 := by
      unfold endOnStep
      split
      · split
        · exact HV.refl _
        · exact (hvAll (fuel + 1)).dt _ _
      · exact HV.refl _
    refine (endOnStep_inv I.dt C W src name acc l h).bind (endOnFold_pres P.dt src name L _) (fun p => ?_)
    refine (endOnFold_noVM fuel C W src name L _ p).map (fun q => ⟨q.1, ?_⟩)
    intro x hx hne hxl
    rcases List.mem_cons.1 hx with hx | hx
    · subst hx
      -- processed now: no VM; kept by the later iterations
      have hnow : NoVM (endOnStep (deleteThread (fuel + 1)) src name acc x).1 x := by
        unfold endOnStep
        split
        · have hb : (x == src) = false := by simpa using hne
          simp only [hb, Bool.false_and, Bool.false_eq_true, if_false]
          exact deleteThread_noVM fuel h.n x
        · rename_i ha
          exact h.not_alive_noVM ha
      exact hnow.of_hv (endOnFold_hv (hvAll (fuel + 1)).dt src name L _) (Nat.lt_of_lt_of_le hxl hv1.nt)
    · exact q.2 x hx hne (Nat.lt_of_lt_of_le hxl hv1.nt)

/-- **`endon` destroys, inside the notify's own call** -/
theorem unregister_endon_destroys (fuel : Nat) {C W : List Nat} {s : State} (h : Inv C W none s) (src name : Nat)
    (listeners : List Nat) (he : Tbl.hasOwner s.endOn src = true)
    (hf : Tbl.find s.endOn (src, name) = some listeners) :
    Ok (unregister (fuel + 2) s src name)
      (∀ l ∈ listeners, l ≠ src → (∃ th, s.th? l = some th) → NoVM (unregister (fuel + 2) s src name) l) := by
  have P := presAll (fuel + 1)
  rw [unregister_succ]
  have hE : unregEndOn (deleteThread (fuel + 1)) s src name =
      listeners.reverse.foldl (endOnStep (deleteThread (fuel + 1)) src name)
        ({ s with endOn := Tbl.removeKey s.endOn (src, name) }, false) := by
    unfold unregEndOn
    simp only [he, Bool.not_true, Bool.false_eq_true, if_false, hf]
    rfl
  rw [hE]
  have h0 : Inv C W none ({ s with endOn := Tbl.removeKey s.endOn (src, name) } : State) :=
    h.setEndOn _ (fun o ho => Or.inl (Tbl.hasOwner_removeKey ho))
  have hfold := endOnFold_noVM fuel C W src name listeners.reverse
    (({ s with endOn := Tbl.removeKey s.endOn (src, name) } : State), false) h0
  have hclaim : ∀ S : State, HV (listeners.reverse.foldl (endOnStep (deleteThread (fuel + 1)) src name)
        (({ s with endOn := Tbl.removeKey s.endOn (src, name) } : State), false)).1 S →
      (∀ l ∈ listeners.reverse, l ≠ src → l < s.nextTid →
        NoVM (listeners.reverse.foldl (endOnStep (deleteThread (fuel + 1)) src name)
          (({ s with endOn := Tbl.removeKey s.endOn (src, name) } : State), false)).1 l) →
      ∀ l ∈ listeners, l ≠ src → (∃ th, s.th? l = some th) → NoVM S l := by
    intro S hS hq l hl hne ⟨th, hth⟩
    have hlt : l < s.nextTid := (h.n.range l th hth).2
    have hmid := hq l (List.mem_reverse.2 hl) hne hlt
    have hnt := (endOnFold_hv (hvAll (fuel + 1)).dt src name listeners.reverse
      (({ s with endOn := Tbl.removeKey s.endOn (src, name) } : State), false)).nt
    exact hmid.of_hv hS (Nat.lt_of_lt_of_le hlt hnt)
  split
  · exact hfold.map (fun q => hclaim _ (HV.refl _) q.2)
  · refine hfold.bind (unregNotify_pres P.swf P.sn _ _ _) (fun q => Ok.pure ?_)
    exact hclaim _ (unregNotify_hv (hvAll (fuel + 1)).swf (hvAll (fuel + 1)).sn _ _ _) q.2

/-! ### the kill loop of `UnregisterAll` -/

/-- `StoppedWaitFor(name, true)` = `delete` -/
theorem swf_deleting_noVM (fuel : Nat) {s : State} (hn : NInv s) (l n : Nat) :
    NoVM (stoppedWaitFor (fuel + 2) s l n true) l := by
  rw [stoppedWaitFor_succ]
  split
  · rename_i hnt
    intro th hth
    have := (hn.range l th hth).1
    have hlt : State.isThread l = false := by simpa using hnt
    simp [State.isThread] at hlt
    omega
  · cases hf : s.th? l with
    | none =>
      simp only
      intro th hth
      rw [State.th?_eq] at hf
      rw [hf] at hth; cases hth
    | some th =>
      rw [State.th?_eq] at hf
      simp only
      split
      · rename_i hv
        intro th' hth'
        rw [hf] at hth'; cases hth'
        simpa using hv
      · simp only [if_true]
        exact deleteThread_noVM fuel hn l

theorem killFold_hv {swf : State → Nat → Nat → Bool → State} (hp : HV3 swf) :
    ∀ (L : List (Nat × Nat)) (s : State),
      HV s (L.foldl (fun s (ln : Nat × Nat) => if s.alive ln.1 then swf s ln.1 ln.2 true else s) s)
  | [], s => HV.refl s
  | ln :: L, s => by
    simp only [List.foldl_cons]
    refine HV.trans ?_ (killFold_hv hp L _)
    split
    · exact hp _ _ _ _
    · exact HV.refl s

theorem killFold_noVM (fuel : Nat) (C W : List Nat) :
    ∀ (L : List (Nat × Nat)) (s : State), Inv C (L.map (·.1) ++ W) none s →
      Ok (L.foldl (fun s (ln : Nat × Nat) => if s.alive ln.1 then stoppedWaitFor (fuel + 2) s ln.1 ln.2 true else s) s)
        (∀ ln ∈ L, ln.1 < s.nextTid →
          NoVM (L.foldl (fun s (ln : Nat × Nat) => if s.alive ln.1 then stoppedWaitFor (fuel + 2) s ln.1 ln.2 true else s) s) ln.1)
  | [], _, _ => Ok.pure (fun ln h => by cases h)
  | ln :: L, s, h => by
    simp only [List.foldl_cons]
    have P := presAll (fuel + 2)
    have I := iAll (fuel + 2)
    have H := hvAll (fuel + 2)
    have hrest : ∀ s1 : State, Pres s1 (L.foldl (fun s (ln : Nat × Nat) =>
        if s.alive ln.1 then stoppedWaitFor (fuel + 2) s ln.1 ln.2 true else s) s1) :=
      fun s1 => Pres.foldl _ (fun s a => by split; exact P.swf _ _ _ _; exact Pres.refl s) L s1
    by_cases ha : s.alive ln.1 = true
    · simp only [ha, if_true]
      have hv1 : HV s (stoppedWaitFor (fuel + 2) s ln.1 ln.2 true) := H.swf _ _ _ _
      refine (I.swf C (L.map (·.1) ++ W) s ln.1 ln.2 true h (fun _ hd => by cases hd)).bind (hrest _) (fun p => ?_)
      refine (killFold_noVM fuel C W L _ p.1).map (fun q => ?_)
      intro x hx hxl
      rcases List.mem_cons.1 hx with hx | hx
      · subst hx
        exact (swf_deleting_noVM fuel h.n x.1 x.2).of_hv (killFold_hv H.swf L _) (Nat.lt_of_lt_of_le hxl hv1.nt)
      · exact q x hx (Nat.lt_of_lt_of_le hxl hv1.nt)
    · simp only [ha]
      refine (killFold_noVM fuel C W L s (h.dropW_not_alive ha)).map (fun q => ?_)
      intro x hx hxl
      rcases List.mem_cons.1 hx with hx | hx
      · subst hx
        exact (h.not_alive_noVM ha).of_hv (killFold_hv H.swf L _) hxl
      · exact q x hx hxl

/-- **a removed source destroys its waiters, inside the removal's own call**: the main part of `UnregisterAll`
    (after `Unregister(0)` and the removal of the `endon` lists) run in a state satisfying the machine invariant
    returns — unless out of fuel — with every listener that was registered on the source, under any name, without a
    VM: they were deleted (`StoppedWaitFor(name, true)`), none was executed. -/
theorem uaRest_destroys_waiters (fuel : Nat) {C W : List Nat} {s : State} (h : Inv C W none s) (src : Nat) :
    Ok (uaRest (stoppedWaitFor (fuel + 2)) (stoppedNotify (fuel + 2)) s src)
      (∀ n x, x ∈ Tbl.getD s.notify (src, n) →
        NoVM (uaRest (stoppedWaitFor (fuel + 2)) (stoppedNotify (fuel + 2)) s src) x) := by
  unfold uaRest
  split
  · rename_i hno
    refine Ok.pure (fun n x hx => ?_)
    exfalso
    have : Tbl.hasOwner s.notify src = true := (h.n.wfN.hasOwner_iff src).2 ⟨n, List.ne_nil_of_mem hx⟩
    simp [this] at hno
  · simp only [killLoop]
    have h1 := uaRest_mid h src
    have hfr := uaTargets_frame s src
    have P := presAll (fuel + 2)
    have I := iAll (fuel + 2)
    rw [hfr]
    refine (I.sn C _ _ src h1).bind ?_ (fun p2 => ?_)
    · exact Pres.foldl _ (fun s a => by split; exact P.swf _ _ _ _; exact Pres.refl s) _ _
    refine (killFold_noVM fuel C W _ _ p2).map (fun q n x hx => ?_)
    have hal := h.waiters_alive src n x hx
    have hsx := (h.tab.mir.mem_iff src n x).1 hx
    have hmem := uaTargets_complete s src h.n.wfN n x hx hal hsx
    have hx100 : 100 ≤ x := h.n.nMem _ _ hx
    rw [State.alive_thread _ (by simpa [State.isThread] using hx100)] at hal
    obtain ⟨th, hth, _⟩ := (aliveTh_iff h.n.nodup x).1 hal
    have hlt : x < s.nextTid := (h.n.range x th hth).2
    have hq := ((qAll (fuel + 2)).sn [] _ src h1.n).tid
    exact q (x, n) (List.mem_reverse.2 hmem) (by rw [hq]; exact hlt)

/-! ### `waitthread`: the callee's destruction releases the caller -/

/-- after `~ScriptThread` of a thread that had its VM, its weak references read null -/
theorem deleteThread_not_alive (fuel : Nat) (s : State) (t : Nat) (th : Th) (hth : thFind s.threads t = some th)
    (hv : th.hasVM = true) (hn : (s.threads.map (·.1)).Nodup → ((deleteThread (fuel + 1) s t).threads.map (·.1)).Nodup) :
    (thFind (deleteThread (fuel + 1) s t).threads t = none) ∨
      ∃ th', thFind (deleteThread (fuel + 1) s t).threads t = some th' ∧ th'.dead = true := by
  rw [deleteThread_succ]
  have : s.th? t = some th := by rw [State.th?_eq]; exact hth
  rw [this]
  simp only [hv, Bool.not_true, Bool.false_eq_true, if_false]
  exact finishDelete_gone _ t

/-- **the callee's destruction releases the `waitthread` caller, inside that call**: `delete thread` of `t` (which had
    its VM) called in a state satisfying the machine invariant returns — unless out of fuel — with `t` without VM,
    nothing registered on `t` any more, and every thread that was registered *only* on channel 0 of `t` (a `waitthread`
    caller) no longer `waiting`: it was re-timed by `Unregister(0)` in `t`'s destructor (or destroyed). -/
theorem deleteThread_releases_callers (fuel : Nat) {C : List Nat} {s : State} {t : Nat} {th : Th}
    (h : Inv C [t] none s) (hth : thFind s.threads t = some th) (hv : th.hasVM = true) :
    Ok (deleteThread (fuel + 1) s t)
      (NoVM (deleteThread (fuel + 1) s t) t ∧
       (∀ n, Tbl.getD (deleteThread (fuel + 1) s t).notify (t, n) = []) ∧
       (∀ c, (∀ n o, o ∈ Tbl.getD s.waitFor (c, n) → n = 0 ∧ o = t) →
          ∀ th', thFind (deleteThread (fuel + 1) s t).threads c = some th' → th'.ts ≠ .waiting)) := by
  have q := (qAll (fuel + 1)).dt [] s t h.n
  refine ((iAll (fuel + 1)).dt C [] s t h).map (fun i' => ?_)
  have ht100 : 100 ≤ t := (h.n.range t th hth).1
  have hnv := deleteThread_noVM fuel h.n t
  -- `t` is dead or gone: its weak references read null
  have hal : (deleteThread (fuel + 1) s t).alive t = false := by
    rw [State.alive_thread _ (by simpa [State.isThread] using ht100)]
    rcases deleteThread_not_alive fuel s t th hth hv (fun _ => i'.n.nodup) with hg | ⟨th', hg, hd⟩
    · exact aliveTh_false_of_none hg
    · cases ha : aliveTh (deleteThread (fuel + 1) s t).threads t with
      | false => rfl
      | true =>
        obtain ⟨th2, h2, hd2⟩ := (aliveTh_iff i'.n.nodup t).1 ha
        rw [hg] at h2; cases h2
        rw [hd] at hd2; cases hd2
  have hempty : ∀ n, Tbl.getD (deleteThread (fuel + 1) s t).notify (t, n) = [] := by
    intro n
    apply List.eq_nil_iff_forall_not_mem.2
    intro x hx
    have := (i'.tab.aN t n x hx).1
    rw [hal] at this; cases this
  refine ⟨hnv, hempty, ?_⟩
  intro c honly th' hf hw
  rcases i'.lnk.linkW c th' hf hw with m | ho
  · cases m
  · obtain ⟨n, hne⟩ := (i'.n.wfW.hasOwner_iff c).1 ho
    obtain ⟨o, hmem⟩ := List.exists_mem_of_ne_nil _ hne
    obtain ⟨hn0, hot⟩ := honly n o (q.subW (c, n) o hmem)
    subst hn0; subst hot
    have hx : c ∈ Tbl.getD (deleteThread (fuel + 1) s o).notify (o, 0) := (i'.tab.mir.mem_iff o 0 c).2 hmem
    rw [hempty 0] at hx; cases hx

end Morfuse.Sched
