import MorfuseModel.Sched.Machine
/-!
# Equation lemmas of the scheduler machine in compositional form

Every function of the mutual block of `Sched.Machine` is rewritten, for `fuel + 1`, as a composition of
small named steps (the steps take the `fuel`-level functions they call as parameters, so that a lemma
about a step is independent of the recursion).  Each equation is proved by unfolding (`rfl`): the
machine itself is not changed, these are only other spellings of its defining equations.
-/
namespace Morfuse.Sched
open State

/-- body of `ScriptThread::Stop` on a known record (`cw` = `CancelWaitingAll`) -/
def stopStep (cw : State → Nat → State) (s : State) (t : Nat) (th : Th) : State :=
  if th.ts == .timing then
    { (s.setTh t (fun th => { th with ts := .running })) with timer := s.timer.remove t }
  else if th.ts == .waiting then cw (s.setTh t (fun th => { th with ts := .running })) t
  else s

/-- `vm->NotifyDelete()` inside `~ScriptThread` -/
def notifyDelete (s : State) (t : Nat) : State :=
  match s.th? t with
  | none => s
  | some th =>
    let s1 := s.setTh t (fun th => { th with vm := .destroyed })
    let s1 := if th.attached then removeFromInst s1 t th.inst else s1
    if th.vm == .idling then s1.setTh t (fun th => { th with vmObj := false }) else s1

/-- end of `~ScriptThread`: weak references read null / the record goes -/
def finishDelete (s : State) (t : Nat) : State :=
  match s.th? t with
  | none => s
  | some th =>
    if th.vmObj then s.setTh t (fun th => { th with dead := true })
    else { s with threads := s.threads.filter (fun e => !(e.1 == t)) }

theorem deleteThread_zero (s : State) (t : Nat) : deleteThread 0 s t = { s with outOfFuel := true } := by rw [deleteThread] <;> rfl

theorem deleteThread_succ (fuel : Nat) (s : State) (t : Nat) :
    deleteThread (fuel + 1) s t =
      match s.th? t with
      | none => s
      | some th =>
        if !th.hasVM then s else
        finishDelete (cancelWaitingAll fuel (unregisterAll fuel (unregister fuel (unregister fuel
          (cancelEvents (notifyDelete (stopStep (cancelWaitingAll fuel)
            (s.setTh t (fun th => { th with hasVM := false })) t th) t) t)
          t nameDelete) t nameRemove) t) t) t := by
  rw [deleteThread] <;> rfl

theorem stoppedNotify_zero (s : State) (l : Nat) : stoppedNotify 0 s l = { s with outOfFuel := true } := by rw [stoppedNotify] <;> rfl
theorem stoppedNotify_succ (fuel : Nat) (s : State) (l : Nat) :
    stoppedNotify (fuel + 1) s l =
      if isThread l then (if s.hasVM l then deleteThread fuel s l else s) else s := by
  rw [stoppedNotify]

theorem stop_zero (s : State) (t : Nat) : stop 0 s t = { s with outOfFuel := true } := by rw [stop] <;> rfl
theorem stop_succ (fuel : Nat) (s : State) (t : Nat) :
    stop (fuel + 1) s t =
      match s.th? t with
      | none => s
      | some th => stopStep (cancelWaitingAll fuel) s t th := by
  rw [stop] <;> rfl

/-- the loop over the stopped sources: `StoppedNotify` on every one still alive -/
def notifyLoop (sn : State → Nat → State) (s : State) (stopped : List Nat) : State :=
  stopped.reverse.foldl (fun s src => if s.alive src then sn s src else s) s

/-- `CancelWaiting(0)` -/
def cwaZero (swf : State → Nat → Nat → Bool → State) (sn : State → Nat → State) (s : State) (w : Nat) : State :=
  match Tbl.find s.waitFor (w, 0) with
  | none => s
  | some list =>
    let r := cancelWaitingSources s w 0 list []
    let s1 : State := { r.1 with waitFor := Tbl.removeKey r.1.waitFor (w, 0) }
    let s2 := if !Tbl.hasOwner s1.waitFor w then swf s1 w 0 false else s1
    notifyLoop sn s2 r.2

/-- the sources of every remaining name -/
def cwaSources (s : State) (w : Nat) : State × List Nat :=
  (Tbl.keysOf s.waitFor w).foldl
    (fun (acc : State × List Nat) e => cancelWaitingSources acc.1 w e.1 e.2 acc.2) (s, [])

/-- the part of `CancelWaitingAll` after `CancelWaiting(0)` -/
def cwaRest (swf : State → Nat → Nat → Bool → State) (sn : State → Nat → State) (s : State) (w : Nat) : State :=
  if !Tbl.hasOwner s.waitFor w then s else
  let r := cwaSources s w
  let s1 : State := { r.1 with waitFor := Tbl.removeOwner r.1.waitFor w }
  notifyLoop sn (swf s1 w 0 false) r.2

theorem cancelWaitingAll_zero (s : State) (w : Nat) : cancelWaitingAll 0 s w = { s with outOfFuel := true } := by rw [cancelWaitingAll] <;> rfl
theorem cancelWaitingAll_succ (fuel : Nat) (s : State) (w : Nat) :
    cancelWaitingAll (fuel + 1) s w =
      cwaRest (stoppedWaitFor fuel) (stoppedNotify fuel)
        (cwaZero (stoppedWaitFor fuel) (stoppedNotify fuel) s w) w := by
  rw [cancelWaitingAll] <;> rfl

/-- `StartTiming()` -/
def startTiming (stp : State → Nat → State) (s : State) (t : Nat) : State :=
  if !(stp s t).alive t then stp s t
  else addTiming ((stp s t).setTh t (fun th => { th with ts := .timing })) t 0

theorem stoppedWaitFor_zero (s : State) (t name : Nat) (d : Bool) :
    stoppedWaitFor 0 s t name d = { s with outOfFuel := true } := by rw [stoppedWaitFor] <;> rfl
theorem stoppedWaitFor_succ (fuel : Nat) (s : State) (t name : Nat) (deleting : Bool) :
    stoppedWaitFor (fuel + 1) s t name deleting =
      if !isThread t then s else
      match s.th? t with
      | none => s
      | some th =>
        if !th.hasVM then s
        else if deleting then deleteThread fuel s t
        else if th.ts == .waiting then
          if name != 0 then
            if th.vm == .idling then scriptExecuteInternal fuel (cancelEvents s t) t
            else vmResume (cancelEvents s t) t
          else startTiming (stop fuel) (cancelEvents s t) t
        else cancelEvents s t := by
  rw [stoppedWaitFor] <;> rfl

/-- the `endon` part of `Listener::Unregister(name)` -/
def endOnLoop (dt : State → Nat → State) (s : State) (src name : Nat) (listeners : List Nat) : State × Bool :=
  listeners.reverse.foldl (fun (acc : State × Bool) l =>
    if acc.1.alive l then
      if l == src && (name == nameRemove || name == nameDelete || acc.2) then acc
      else (dt acc.1 l, acc.2 || (l == src))
    else acc) (s, false)

def unregEndOn (dt : State → Nat → State) (s : State) (src name : Nat) : State × Bool :=
  if !Tbl.hasOwner s.endOn src then (s, false) else
  match Tbl.find s.endOn (src, name) with
  | none => (s, false)
  | some listeners =>
    endOnLoop dt { s with endOn := Tbl.removeKey s.endOn (src, name) } src name listeners

/-- the loop over the woken waiters: `StoppedWaitFor(name, false)` on every one still alive -/
def wakeLoop (swf : State → Nat → Nat → Bool → State) (s : State) (name : Nat) (stopped : List Nat) : State :=
  stopped.reverse.foldl (fun s l => if s.alive l then swf s l name false else s) s

/-- the notify part of `Listener::Unregister(name)` -/
def unregNotify (swf : State → Nat → Nat → Bool → State) (sn : State → Nat → State)
    (s : State) (src name : Nat) : State :=
  if !Tbl.hasOwner s.notify src then s else
  match Tbl.find s.notify (src, name) with
  | none => s
  | some list =>
    let r := unregisterTargets s src name list
    let s1 : State := { r.1 with notify := Tbl.removeKey r.1.notify (src, name) }
    let s2 := if !Tbl.hasOwner s1.notify src then sn s1 src else s1
    wakeLoop swf s2 name r.2

theorem unregister_zero (s : State) (src name : Nat) : unregister 0 s src name = { s with outOfFuel := true } := by rw [unregister] <;> rfl
theorem unregister_succ (fuel : Nat) (s : State) (src name : Nat) :
    unregister (fuel + 1) s src name =
      if (unregEndOn (deleteThread fuel) s src name).2 then (unregEndOn (deleteThread fuel) s src name).1
      else unregNotify (stoppedWaitFor fuel) (stoppedNotify fuel)
        (unregEndOn (deleteThread fuel) s src name).1 src name := by
  rw [unregister]
  simp only [unregEndOn, endOnLoop, unregNotify, wakeLoop]
  split <;> rfl

/-- every remaining name of `src`: the waiters with the name they waited for -/
def uaTargets (s : State) (src : Nat) : State × List (Nat × Nat) :=
  (Tbl.keysOf s.notify src).foldl
    (fun (acc : State × List (Nat × Nat)) e =>
      ((unregisterTargets acc.1 src e.1 e.2).1, acc.2 ++ (unregisterTargets acc.1 src e.1 e.2).2.map (fun l => (l, e.1))))
    (s, [])

def killLoop (swf : State → Nat → Nat → Bool → State) (s : State) (stopped : List (Nat × Nat)) : State :=
  stopped.reverse.foldl (fun s (ln : Nat × Nat) => if s.alive ln.1 then swf s ln.1 ln.2 true else s) s

def uaRest (swf : State → Nat → Nat → Bool → State) (sn : State → Nat → State) (s : State) (src : Nat) : State :=
  if !Tbl.hasOwner s.notify src then s else
  let r := uaTargets s src
  let s1 : State := { r.1 with notify := Tbl.removeOwner r.1.notify src }
  killLoop swf (sn s1 src) r.2

theorem unregisterAll_zero (s : State) (src : Nat) : unregisterAll 0 s src = { s with outOfFuel := true } := by rw [unregisterAll] <;> rfl
theorem unregisterAll_succ (fuel : Nat) (s : State) (src : Nat) :
    unregisterAll (fuel + 1) s src =
      uaRest (stoppedWaitFor fuel) (stoppedNotify fuel)
        { (unregister fuel s src 0) with endOn := Tbl.removeOwner (unregister fuel s src 0).endOn src } src := by
  rw [unregisterAll] <;> rfl

/-- restore of `m_CurrentThread` (a `SafePtr`) -/
def restoreCur (s : State) (saved : Option Nat) : State :=
  { s with cur := saved.bind (fun c => if s.alive c then some c else none) }

/-- `Execute` unless the thread was deleted by its own `Stop()` -/
def execIfAlive (ev : State → Nat → State) (s : State) (t : Nat) : State :=
  if s.alive t then ev s t else s

theorem scriptExecuteInternal_zero (s : State) (t : Nat) :
    scriptExecuteInternal 0 s t = { s with outOfFuel := true } := by rw [scriptExecuteInternal] <;> rfl
theorem scriptExecuteInternal_succ (fuel : Nat) (s : State) (t : Nat) :
    scriptExecuteInternal (fuel + 1) s t =
      executeRunning fuel (restoreCur (execIfAlive (execVM fuel) (stop fuel { s with cur := some t } t) t) s.cur) := by
  rw [scriptExecuteInternal] <;> rfl

theorem executeRunning_zero (s : State) : executeRunning 0 s = { s with outOfFuel := true } := by rw [executeRunning] <;> rfl
theorem executeRunning_succ (fuel : Nat) (s : State) :
    executeRunning (fuel + 1) s =
      if s.cur.isSome || s.depth > 0 then s else if !s.timer.dirty then s else drain fuel s := by
  rw [executeRunning]

theorem drain_zero (s : State) : drain 0 s = { s with outOfFuel := true } := by rw [drain] <;> rfl
theorem drain_succ (fuel : Nat) (s : State) :
    drain (fuel + 1) s =
      match s.timer.next with
      | (none, tm) => { s with timer := tm, cur := none }
      | (some (t, _), tm) =>
        drain fuel (execVM fuel (({ s with timer := tm, cur := some t } : State).setTh t
          (fun th => { th with ts := .running })) t) := by
  rw [drain] <;> rfl

/-- `ScriptVM::Execute` after `Process` returned -/
def vmEpilogue (s : State) (t : Nat) : State :=
  match s.th? t with
  | none => s
  | some th =>
    match th.vm with
    | .suspended => s.setTh t (fun th => { th with vm := .idling })
    | .destroyed => { s with threads := s.threads.filter (fun e => !(e.1 == t)) }
    | _ => s

def vmPrologue (s : State) (t : Nat) : State :=
  { (s.setTh t (fun th => { th with vm := .running })) with depth := s.depth + 1 }

theorem execVM_zero (s : State) (t : Nat) : execVM 0 s t = { s with outOfFuel := true } := by rw [execVM] <;> rfl
theorem execVM_succ (fuel : Nat) (s : State) (t : Nat) :
    execVM (fuel + 1) s t =
      vmEpilogue { (process fuel (vmPrologue s t) t) with depth := (process fuel (vmPrologue s t) t).depth - 1 } t := by
  rw [execVM] <;> rfl

theorem process_zero (s : State) (t : Nat) : process 0 s t = { s with outOfFuel := true } := by rw [process] <;> rfl
theorem process_succ (fuel : Nat) (s : State) (t : Nat) :
    process (fuel + 1) s t =
      match s.th? t with
      | none => s
      | some th =>
        if th.vm != .running then s else
        process fuel (exec fuel (s.setTh t (fun th => { th with pc := th.pc + 1 })) t th
          ((s.prog.getD th.label []).getD th.pc (.end_ .none))) t := by
  rw [process] <;> rfl

/-- `Listener::Register(name, CurrentThread())` on source `o`: `RegisterSource`, then `RegisterTarget`
    (whose first registration calls `StartedWaitFor`) -/
def regWait (stp : State → Nat → State) (s : State) (o n c : Nat) : State :=
  let s : State := { s with notify := Tbl.push s.notify (o, n) c }
  let s :=
    if !Tbl.hasOwner s.waitFor c then vmSuspend ((stp s c).setTh c (fun th => { th with ts := .waiting })) c
    else s
  { s with waitFor := Tbl.push s.waitFor (c, n) o }

/-- `Wait(ms)` on thread `p` -/
def waitOn (stp : State → Nat → State) (s : State) (p ms : Nat) : State :=
  vmSuspend (addTiming ((stp s p).setTh p (fun th => { th with ts := .timing })) p ms) p

/-- `Wait(ms)` sent to another thread `p`: returns when `p` was deleted by its own `Stop()` -/
def waitOnGuarded (stp : State → Nat → State) (s : State) (p ms : Nat) : State :=
  if !(stp s p).alive p then stp s p else waitOn stp s p ms

/-- the result cell of a host call when its thread ends -/
def endResult (s : State) (th : Th) (ev : EndV) : State :=
  let v : Option V := match ev with
    | .none => none
    | .lit n => some (.int n)
    | .param i => match th.params.getD i .nil with | .nil => none | x => some x
  match th.call with
  | none => s
  | some c =>
    match s.getRet c, v with
    | .open_, some x => s.setRet c (.val x)
    | .open_, none => s.setRet c .none
    | .pending, some x => s.setRet c (.val x)
    | .pending, none => s.setRet c .nil
    | _, _ => s

/-- creation of the thread for `thread l` (same instance) -/
def spawnSame (s : State) (t : Nat) (th : Th) (l : Nat) : State :=
  { s with nextTid := s.nextTid + 1,
           threads := s.threads ++ [(s.nextTid, ({ label := l, inst := th.inst, params := bindLoop (s.progParams.getD l 0) 0 [], parent := t } : Th))],
           insts := s.insts.map (fun (e : Nat × List Nat) => if e.1 == th.inst then (e.1, s.nextTid :: e.2) else e) }

/-- creation of the thread for `waitthread l` (new instance) -/
def spawnNew (s : State) (t : Nat) (l : Nat) : State :=
  { s with nextTid := s.nextTid + 1, nextInst := s.nextInst + 1,
           threads := s.threads ++ [(s.nextTid, ({ label := l, inst := s.nextInst, params := bindLoop (s.progParams.getD l 0) 0 [], parent := t } : Th))],
           insts := (s.nextInst, [s.nextTid]) :: s.insts }

theorem exec_zero (s : State) (t : Nat) (th : Th) (ins : Instr) :
    exec 0 s t th ins = { s with outOfFuel := true } := by rw [exec] <;> rfl

theorem exec_mark (fuel : Nat) (s : State) (t : Nat) (th : Th) (k : Nat) :
    exec (fuel + 1) s t th (.mark k) = s.emit s!"m{k}" := by rw [exec] <;> rfl
theorem exec_pparam (fuel : Nat) (s : State) (t : Nat) (th : Th) (i : Nat) :
    exec (fuel + 1) s t th (.pparam i) = s.emit s!"p_{(th.params.getD i .nil).show}" := by rw [exec] <;> rfl
theorem exec_wait (fuel : Nat) (s : State) (t : Nat) (th : Th) (ms : Nat) :
    exec (fuel + 1) s t th (.wait ms) = waitOn (stop fuel) s t ms := by rw [exec] <;> rfl
theorem exec_waittill (fuel : Nat) (s : State) (t : Nat) (th : Th) (o : Nat) (names : List Nat) :
    exec (fuel + 1) s t th (.waittill o names) =
      if !s.objAlive o then s else
      match s.cur with
      | none => s
      | some c => names.foldl (fun s n => regWait (stop fuel) s o n c) s := by rw [exec] <;> rfl
theorem exec_waittillTimeout (fuel : Nat) (s : State) (t : Nat) (th : Th) (o n ms : Nat) :
    exec (fuel + 1) s t th (.waittillTimeout o n ms) =
      if !s.objAlive o then s else
      match s.cur with
      | none => s
      | some c => postEvent (regWait (stop fuel) s o n c) c ((regWait (stop fuel) s o n c).clock + ms) := by rw [exec] <;> rfl
theorem exec_notify (fuel : Nat) (s : State) (t : Nat) (th : Th) (o n : Nat) :
    exec (fuel + 1) s t th (.notify o n) = if !s.objAlive o then s else unregister fuel s o n := by rw [exec] <;> rfl
theorem exec_endon (fuel : Nat) (s : State) (t : Nat) (th : Th) (o n : Nat) :
    exec (fuel + 1) s t th (.endon o n) =
      if !s.objAlive o then s else
      match s.cur with
      | none => s
      | some c => { s with endOn := Tbl.pushUnique s.endOn (o, n) c } := by rw [exec] <;> rfl
theorem exec_delete (fuel : Nat) (s : State) (t : Nat) (th : Th) (o : Nat) :
    exec (fuel + 1) s t th (.delete o) =
      if !s.objs.contains o then s else
      { (cancelWaitingAll fuel (unregisterAll fuel (unregister fuel (unregister fuel s o nameDelete) o nameRemove) o) o) with
        objs := (cancelWaitingAll fuel (unregisterAll fuel (unregister fuel (unregister fuel s o nameDelete) o nameRemove) o) o).objs.erase o } := by
  rw [exec] <;> rfl
theorem exec_spawn (fuel : Nat) (s : State) (t : Nat) (th : Th) (o : Nat) :
    exec (fuel + 1) s t th (.spawn o) = if s.objs.contains o then s else { s with objs := s.objs ++ [o] } := by rw [exec] <;> rfl
theorem exec_thread (fuel : Nat) (s : State) (t : Nat) (th : Th) (l : Nat) :
    exec (fuel + 1) s t th (.thread l) =
      if l ≥ s.prog.length then s else scriptExecuteInternal fuel (spawnSame s t th l) s.nextTid := by rw [exec] <;> rfl
theorem exec_waitthread (fuel : Nat) (s : State) (t : Nat) (th : Th) (l : Nat) :
    exec (fuel + 1) s t th (.waitthread l) =
      if l ≥ s.prog.length then s else
      match s.cur with
      | none => scriptExecuteInternal fuel (spawnNew s t l) s.nextTid
      | some c => scriptExecuteInternal fuel (regWait (stop fuel) (spawnNew s t l) s.nextTid 0 c) s.nextTid := by
  rw [exec] <;> rfl
theorem exec_pause (fuel : Nat) (s : State) (t : Nat) (th : Th) :
    exec (fuel + 1) s t th .pause = vmSuspend (stop fuel s t) t := by rw [exec] <;> rfl
theorem exec_waitParent (fuel : Nat) (s : State) (t : Nat) (th : Th) (ms : Nat) :
    exec (fuel + 1) s t th (.waitParent ms) =
      if th.parent == 0 || !s.alive th.parent || !s.hasVM th.parent then s
      else waitOnGuarded (stop fuel) s th.parent ms := by rw [exec] <;> rfl
theorem exec_waittillParent (fuel : Nat) (s : State) (t : Nat) (th : Th) (names : List Nat) :
    exec (fuel + 1) s t th (.waittillParent names) =
      if th.parent == 0 || !s.alive th.parent then s else
      match s.cur with
      | none => s
      | some c => names.foldl (fun s n => regWait (stop fuel) s th.parent n c) s := by rw [exec] <;> rfl
theorem exec_notifyParent (fuel : Nat) (s : State) (t : Nat) (th : Th) (n : Nat) :
    exec (fuel + 1) s t th (.notifyParent n) =
      if th.parent == 0 || !s.alive th.parent then s else unregister fuel s th.parent n := by rw [exec] <;> rfl
theorem exec_end (fuel : Nat) (s : State) (t : Nat) (th : Th) (ev : EndV) :
    exec (fuel + 1) s t th (.end_ ev) =
      deleteThread fuel ((endResult s th ev).setTh t (fun th => { th with call := none })) t := by
  cases ev <;> rw [exec] <;> rfl

end Morfuse.Sched
