import MorfuseModel.Sched.MachineHostFrame
import MorfuseModel.Sched.MachineEq
/-!
# More fuel does not change a completed run

`Agr a b`: `a` (the result with less fuel) has the fuel flag up, or `b = a`.  `fmAll`: for every function of the machine,
`Agr (f fuel s x) (f (fuel + 1) s x)`.  `fuel_mono_*`: a call that completes with fuel `f` returns the same state with any
`f' ≥ f`.  So the constant `defaultFuel` only decides *whether* a run completes, never *what* a completed run returns.
-/
namespace Morfuse.Sched
open State

def Agr (a b : State) : Prop := a.outOfFuel = true ∨ b = a

theorem Agr.refl (a : State) : Agr a a := Or.inr rfl

theorem Agr.bind {a b : State} (F F' : State → State) (h : Agr a b)
    (hst : a.outOfFuel = true → (F a).outOfFuel = true) (hF : Agr (F a) (F' a)) : Agr (F a) (F' b) := by
  rcases h with h | h
  · exact Or.inl (hst h)
  · subst h; exact hF

theorem Agr.map {a b : State} (K : State → State) (h : Agr a b)
    (hK : a.outOfFuel = true → (K a).outOfFuel = true) : Agr (K a) (K b) := Agr.bind K K h hK (Agr.refl _)

def A1 (g g' : State → Nat → State) : Prop := ∀ s x, Agr (g s x) (g' s x)
def A0 (g g' : State → State) : Prop := ∀ s, Agr (g s) (g' s)
def A2 (g g' : State → Nat → Nat → State) : Prop := ∀ s x y, Agr (g s x y) (g' s x y)
def A3 (g g' : State → Nat → Nat → Bool → State) : Prop := ∀ s x y z, Agr (g s x y z) (g' s x y z)

theorem foldl_agr {α : Type} (f f' : State → α → State)
    (hhr : ∀ s x, s.outOfFuel = true → (f s x).outOfFuel = true) (h : ∀ s x, Agr (f s x) (f' s x)) :
    ∀ (L : List α) (a b : State), Agr a b → Agr (L.foldl f a) (L.foldl f' b)
  | [], _, _, hab => hab
  | x :: L, a, b, hab =>
    foldl_agr f f' hhr h L _ _ (Agr.bind (fun s => f s x) (fun s => f' s x) hab (hhr a x) (h a x))

theorem stopStep_agr {cw cw' : State → Nat → State} (h : A1 cw cw') (s : State) (t : Nat) (th : Th) :
    Agr (stopStep cw s t th) (stopStep cw' s t th) := by
  unfold stopStep
  split
  · exact Agr.refl _
  · split
    · exact h _ _
    · exact Agr.refl _

theorem notifyLoop_agr {sn sn' : State → Nat → State} (hhr : HR1 sn) (h : A1 sn sn') (s : State) (stopped : List Nat) :
    Agr (notifyLoop sn s stopped) (notifyLoop sn' s stopped) := by
  unfold notifyLoop
  refine foldl_agr _ _ (fun s x ho => ?_) (fun s x => ?_) _ _ _ (Agr.refl s)
  · split
    · exact (hhr s x).oof ho
    · exact ho
  · split
    · exact h s x
    · exact Agr.refl _

theorem wakeLoop_agr {swf swf' : State → Nat → Nat → Bool → State} (hhr : HR3 swf) (h : A3 swf swf') (s : State)
    (name : Nat) (stopped : List Nat) : Agr (wakeLoop swf s name stopped) (wakeLoop swf' s name stopped) := by
  unfold wakeLoop
  refine foldl_agr _ _ (fun s x ho => ?_) (fun s x => ?_) _ _ _ (Agr.refl s)
  · split
    · exact (hhr s x name false).oof ho
    · exact ho
  · split
    · exact h s x name false
    · exact Agr.refl _

theorem killLoop_agr {swf swf' : State → Nat → Nat → Bool → State} (hhr : HR3 swf) (h : A3 swf swf') (s : State)
    (stopped : List (Nat × Nat)) : Agr (killLoop swf s stopped) (killLoop swf' s stopped) := by
  unfold killLoop
  refine foldl_agr _ _ (fun s x ho => ?_) (fun s x => ?_) _ _ _ (Agr.refl s)
  · split
    · exact (hhr s x.1 x.2 true).oof ho
    · exact ho
  · split
    · exact h s x.1 x.2 true
    · exact Agr.refl _

theorem cwaZero_agr {swf swf' : State → Nat → Nat → Bool → State} {sn sn' : State → Nat → State}
    (hrsn : HR1 sn) (hswf : A3 swf swf') (hsn : A1 sn sn') (s : State) (w : Nat) :
    Agr (cwaZero swf sn s w) (cwaZero swf' sn' s w) := by
  unfold cwaZero
  split
  · exact Agr.refl _
  · simp only
    refine Agr.bind (fun r => notifyLoop sn r _) (fun r => notifyLoop sn' r _) ?_
      (fun ho => (notifyLoop_hr hrsn _ _).oof ho) (notifyLoop_agr hrsn hsn _ _)
    split
    · exact hswf _ _ _ _
    · exact Agr.refl _

theorem cwaRest_agr {swf swf' : State → Nat → Nat → Bool → State} {sn sn' : State → Nat → State}
    (hrsn : HR1 sn) (hswf : A3 swf swf') (hsn : A1 sn sn') (s : State) (w : Nat) :
    Agr (cwaRest swf sn s w) (cwaRest swf' sn' s w) := by
  unfold cwaRest
  split
  · exact Agr.refl _
  · simp only
    exact Agr.bind (fun r => notifyLoop sn r _) (fun r => notifyLoop sn' r _) (hswf _ _ _ _)
      (fun ho => (notifyLoop_hr hrsn _ _).oof ho) (notifyLoop_agr hrsn hsn _ _)

theorem startTiming_agr {stp stp' : State → Nat → State} (h : A1 stp stp') (s : State) (t : Nat) :
    Agr (startTiming stp s t) (startTiming stp' s t) := by
  unfold startTiming
  refine Agr.map (fun r => if !r.alive t then r else addTiming (r.setTh t (fun th => { th with ts := .timing })) t 0)
    (h s t) (fun ho => ?_)
  split
  · exact ho
  · exact ho

def AgrP (a b : State × Bool) : Prop := a.1.outOfFuel = true ∨ b = a

theorem endOnLoop_agr {dt dt' : State → Nat → State} (hhr : HR1 dt) (h : A1 dt dt') (s : State) (src name : Nat)
    (listeners : List Nat) : AgrP (endOnLoop dt s src name listeners) (endOnLoop dt' s src name listeners) := by
  unfold endOnLoop
  generalize listeners.reverse = L
  suffices hs : ∀ (L : List Nat) (acc acc' : State × Bool), AgrP acc acc' →
      AgrP (L.foldl (fun (acc : State × Bool) l =>
        if acc.1.alive l then
          if l == src && (name == nameRemove || name == nameDelete || acc.2) then acc
          else (dt acc.1 l, acc.2 || (l == src))
        else acc) acc)
      (L.foldl (fun (acc : State × Bool) l =>
        if acc.1.alive l then
          if l == src && (name == nameRemove || name == nameDelete || acc.2) then acc
          else (dt' acc.1 l, acc.2 || (l == src))
        else acc) acc') from hs L (s, false) (s, false) (Or.inr rfl)
  intro L
  induction L with
  | nil => intro acc acc' h; exact h
  | cons l L ih =>
    intro acc acc' hacc
    simp only [List.foldl_cons]
    apply ih
    rcases hacc with ho | he
    · left
      split
      · split
        · exact ho
        · exact (hhr _ _).oof ho
      · exact ho
    · subst he
      split
      · split
        · exact Or.inr rfl
        · rcases h acc'.1 l with ho | he
          · exact Or.inl ho
          · right; rw [he]
      · exact Or.inr rfl

theorem unregEndOn_agr {dt dt' : State → Nat → State} (hhr : HR1 dt) (h : A1 dt dt') (s : State) (src name : Nat) :
    AgrP (unregEndOn dt s src name) (unregEndOn dt' s src name) := by
  unfold unregEndOn
  split
  · exact Or.inr rfl
  · split
    · exact Or.inr rfl
    · exact endOnLoop_agr hhr h _ _ _ _

theorem unregNotify_agr {swf swf' : State → Nat → Nat → Bool → State} {sn sn' : State → Nat → State}
    (hrswf : HR3 swf) (hswf : A3 swf swf') (hsn : A1 sn sn') (s : State) (src name : Nat) :
    Agr (unregNotify swf sn s src name) (unregNotify swf' sn' s src name) := by
  unfold unregNotify
  split
  · exact Agr.refl _
  · split
    · exact Agr.refl _
    · simp only
      refine Agr.bind (fun r => wakeLoop swf r name _) (fun r => wakeLoop swf' r name _) ?_
        (fun ho => (wakeLoop_hr hrswf _ _ _).oof ho) (wakeLoop_agr hrswf hswf _ _ _)
      split
      · exact hsn _ _
      · exact Agr.refl _

theorem uaRest_agr {swf swf' : State → Nat → Nat → Bool → State} {sn sn' : State → Nat → State}
    (hrswf : HR3 swf) (hswf : A3 swf swf') (hsn : A1 sn sn') (s : State) (src : Nat) :
    Agr (uaRest swf sn s src) (uaRest swf' sn' s src) := by
  unfold uaRest
  split
  · exact Agr.refl _
  · simp only
    exact Agr.bind (fun r => killLoop swf r _) (fun r => killLoop swf' r _) (hsn _ _)
      (fun ho => (killLoop_hr hrswf _ _).oof ho) (killLoop_agr hrswf hswf _ _)

theorem regWait_agr {stp stp' : State → Nat → State} (h : A1 stp stp') (s : State) (o n c : Nat) :
    Agr (regWait stp s o n c) (regWait stp' s o n c) := by
  unfold regWait
  simp only
  split
  · refine Agr.map (fun r => ({ (vmSuspend (r.setTh c (fun th => { th with ts := .waiting })) c) with
      waitFor := Tbl.push (vmSuspend (r.setTh c (fun th => { th with ts := .waiting })) c).waitFor (c, n) o } : State))
      (h _ c) (fun ho => ho)
  · exact Agr.refl _

theorem waitOn_agr {stp stp' : State → Nat → State} (h : A1 stp stp') (s : State) (p ms : Nat) :
    Agr (waitOn stp s p ms) (waitOn stp' s p ms) := by
  unfold waitOn
  exact Agr.map (fun r => vmSuspend (addTiming (r.setTh p (fun th => { th with ts := .timing })) p ms) p) (h s p)
    (fun ho => ho)

theorem waitOnGuarded_agr {stp stp' : State → Nat → State} (h : A1 stp stp') (s : State) (p ms : Nat) :
    Agr (waitOnGuarded stp s p ms) (waitOnGuarded stp' s p ms) := by
  unfold waitOnGuarded waitOn
  refine Agr.map (fun r => if !r.alive p then r
    else vmSuspend (addTiming (r.setTh p (fun th => { th with ts := .timing })) p ms) p) (h s p) (fun ho => ?_)
  split
  · exact ho
  · exact ho

theorem execIfAlive_agr {ev ev' : State → Nat → State} (h : A1 ev ev') (s : State) (t : Nat) :
    Agr (execIfAlive ev s t) (execIfAlive ev' s t) := by
  unfold execIfAlive
  split
  · exact h s t
  · exact Agr.refl _

/-- the statement for one fuel level: one more unit of fuel does not change a completed call -/
structure FMAll (n : Nat) : Prop where
  dt : A1 (deleteThread n) (deleteThread (n + 1))
  sn : A1 (stoppedNotify n) (stoppedNotify (n + 1))
  stp : A1 (stop n) (stop (n + 1))
  cwa : A1 (cancelWaitingAll n) (cancelWaitingAll (n + 1))
  swf : A3 (stoppedWaitFor n) (stoppedWaitFor (n + 1))
  ur : A2 (unregister n) (unregister (n + 1))
  ua : A1 (unregisterAll n) (unregisterAll (n + 1))
  sei : A1 (scriptExecuteInternal n) (scriptExecuteInternal (n + 1))
  er : A0 (executeRunning n) (executeRunning (n + 1))
  dr : A0 (drain n) (drain (n + 1))
  ev : A1 (execVM n) (execVM (n + 1))
  pr : A1 (process n) (process (n + 1))
  ex : ∀ s t th ins, Agr (exec n s t th ins) (exec (n + 1) s t th ins)

theorem fmAll_zero : FMAll 0 where
  dt := fun s t => by rw [deleteThread_zero]; exact Or.inl rfl
  sn := fun s t => by rw [stoppedNotify_zero]; exact Or.inl rfl
  stp := fun s t => by rw [stop_zero]; exact Or.inl rfl
  cwa := fun s t => by rw [cancelWaitingAll_zero]; exact Or.inl rfl
  swf := fun s t n d => by rw [stoppedWaitFor_zero]; exact Or.inl rfl
  ur := fun s t n => by rw [unregister_zero]; exact Or.inl rfl
  ua := fun s t => by rw [unregisterAll_zero]; exact Or.inl rfl
  sei := fun s t => by rw [scriptExecuteInternal_zero]; exact Or.inl rfl
  er := fun s => by rw [executeRunning_zero]; exact Or.inl rfl
  dr := fun s => by rw [drain_zero]; exact Or.inl rfl
  ev := fun s t => by rw [execVM_zero]; exact Or.inl rfl
  pr := fun s t => by rw [process_zero]; exact Or.inl rfl
  ex := fun s t th ins => by rw [exec_zero]; exact Or.inl rfl

theorem exec_fm_succ {n : Nat} (ih : FMAll n) (s : State) (t : Nat) (th : Th) (ins : Instr) :
    Agr (exec (n + 1) s t th ins) (exec (n + 1 + 1) s t th ins) := by
  have hr := hrAll n
  cases ins with
  | mark k => rw [exec_mark, exec_mark]; exact Agr.refl _
  | pparam i => rw [exec_pparam, exec_pparam]; exact Agr.refl _
  | wait ms => rw [exec_wait, exec_wait]; exact waitOn_agr ih.stp _ _ _
  | waittill o names =>
    rw [exec_waittill, exec_waittill]
    split
    · exact Agr.refl _
    · split
      · exact Agr.refl _
      · exact foldl_agr _ _ (fun s x ho => (regWait_hr hr.stp _ _ _ _).oof ho) (fun s x => regWait_agr ih.stp _ _ _ _) _ _ _
          (Agr.refl _)
  | waittillTimeout o m ms =>
    rw [exec_waittillTimeout, exec_waittillTimeout]
    split
    · exact Agr.refl _
    · split
      · exact Agr.refl _
      · rename_i c _
        exact Agr.map (fun r => postEvent r c (r.clock + ms)) (regWait_agr ih.stp _ _ _ _) (fun ho => ho)
  | notify o m =>
    rw [exec_notify, exec_notify]
    split
    · exact Agr.refl _
    · exact ih.ur _ _ _
  | endon o m => rw [exec_endon, exec_endon]; exact Agr.refl _
  | delete o =>
    rw [exec_delete, exec_delete]
    split
    · exact Agr.refl _
    · have h1 := ih.ur s o nameDelete
      have h2 := Agr.bind (fun r => unregister n r o nameRemove) (fun r => unregister (n + 1) r o nameRemove) h1
        (fun ho => (hr.ur _ _ _).oof ho) (ih.ur _ _ _)
      have h3 := Agr.bind (fun r => unregisterAll n r o) (fun r => unregisterAll (n + 1) r o) h2
        (fun ho => (hr.ua _ _).oof ho) (ih.ua _ _)
      have h4 := Agr.bind (fun r => cancelWaitingAll n r o) (fun r => cancelWaitingAll (n + 1) r o) h3
        (fun ho => (hr.cwa _ _).oof ho) (ih.cwa _ _)
      exact Agr.map (fun r => ({ r with objs := r.objs.erase o } : State)) h4 (fun ho => ho)
  | thread l =>
    rw [exec_thread, exec_thread]
    split
    · exact Agr.refl _
    · exact ih.sei _ _
  | waitthread l =>
    rw [exec_waitthread, exec_waitthread]
    split
    · exact Agr.refl _
    · split
      · exact ih.sei _ _
      · exact Agr.bind (fun r => scriptExecuteInternal n r s.nextTid) (fun r => scriptExecuteInternal (n + 1) r s.nextTid)
          (regWait_agr ih.stp _ _ _ _) (fun ho => (hr.sei _ _).oof ho) (ih.sei _ _)
  | pause =>
    rw [exec_pause, exec_pause]
    exact Agr.map (fun r => vmSuspend r t) (ih.stp _ _) (fun ho => ho)
  | waitParent ms =>
    rw [exec_waitParent, exec_waitParent]
    split
    · exact Agr.refl _
    · exact waitOnGuarded_agr ih.stp _ _ _
  | waittillParent names =>
    rw [exec_waittillParent, exec_waittillParent]
    split
    · exact Agr.refl _
    · split
      · exact Agr.refl _
      · exact foldl_agr _ _ (fun s x ho => (regWait_hr hr.stp _ _ _ _).oof ho) (fun s x => regWait_agr ih.stp _ _ _ _) _ _ _
          (Agr.refl _)
  | notifyParent m =>
    rw [exec_notifyParent, exec_notifyParent]
    split
    · exact Agr.refl _
    · exact ih.ur _ _ _
  | end_ ev => rw [exec_end, exec_end]; exact ih.dt _ _
  | spawn o => rw [exec_spawn, exec_spawn]; exact Agr.refl _

theorem fmAll_succ {n : Nat} (ih : FMAll n) : FMAll (n + 1) where
  dt := fun s t => by
    have hr := hrAll n
    rw [deleteThread_succ (n + 1), deleteThread_succ n]
    split
    · exact Agr.refl _
    · rename_i th _
      split
      · exact Agr.refl _
      · have h1 := stopStep_agr ih.cwa (s.setTh t (fun th => { th with hasVM := false })) t th
        have h2 := Agr.bind (fun r => unregister n (cancelEvents (notifyDelete r t) t) t nameDelete)
          (fun r => unregister (n + 1) (cancelEvents (notifyDelete r t) t) t nameDelete) h1
          (fun ho => (((notifyDelete_hr _ t).trans (cancelEvents_hr _ t)).trans (hr.ur _ _ _)).oof ho) (ih.ur _ _ _)
        have h3 := Agr.bind (fun r => unregister n r t nameRemove) (fun r => unregister (n + 1) r t nameRemove) h2
          (fun ho => (hr.ur _ _ _).oof ho) (ih.ur _ _ _)
        have h4 := Agr.bind (fun r => unregisterAll n r t) (fun r => unregisterAll (n + 1) r t) h3
          (fun ho => (hr.ua _ _).oof ho) (ih.ua _ _)
        have h5 := Agr.bind (fun r => cancelWaitingAll n r t) (fun r => cancelWaitingAll (n + 1) r t) h4
          (fun ho => (hr.cwa _ _).oof ho) (ih.cwa _ _)
        exact Agr.map (fun r => finishDelete r t) h5 (fun ho => (finishDelete_hr _ t).oof ho)
  sn := fun s l => by
    rw [stoppedNotify_succ (n + 1), stoppedNotify_succ n]
    split
    · split
      · exact ih.dt _ _
      · exact Agr.refl _
    · exact Agr.refl _
  stp := fun s t => by
    rw [stop_succ (n + 1), stop_succ n]
    split
    · exact Agr.refl _
    · exact stopStep_agr ih.cwa _ _ _
  cwa := fun s w => by
    have hr := hrAll n
    rw [cancelWaitingAll_succ (n + 1), cancelWaitingAll_succ n]
    exact Agr.bind (fun r => cwaRest (stoppedWaitFor n) (stoppedNotify n) r w)
      (fun r => cwaRest (stoppedWaitFor (n + 1)) (stoppedNotify (n + 1)) r w)
      (cwaZero_agr hr.sn ih.swf ih.sn s w) (fun ho => (cwaRest_hr hr.swf hr.sn _ _).oof ho)
      (cwaRest_agr hr.sn ih.swf ih.sn _ _)
  swf := fun s t name d => by
    rw [stoppedWaitFor_succ (n + 1), stoppedWaitFor_succ n]
    split
    · exact Agr.refl _
    · split
      · exact Agr.refl _
      · split
        · exact Agr.refl _
        · split
          · exact ih.dt _ _
          · split
            · split
              · split
                · exact ih.sei _ _
                · exact Agr.refl _
              · exact startTiming_agr ih.stp _ _
            · exact Agr.refl _
  ur := fun s src name => by
    have hr := hrAll n
    rw [unregister_succ (n + 1), unregister_succ n]
    rcases unregEndOn_agr hr.dt ih.dt s src name with ho | he
    · left
      split
      · exact ho
      · exact (unregNotify_hr hr.swf hr.sn _ _ _).oof ho
    · rw [he]
      split
      · exact Agr.refl _
      · exact unregNotify_agr hr.swf ih.swf ih.sn _ _ _
  ua := fun s src => by
    have hr := hrAll n
    rw [unregisterAll_succ (n + 1), unregisterAll_succ n]
    exact Agr.bind
      (fun r => uaRest (stoppedWaitFor n) (stoppedNotify n) { r with endOn := Tbl.removeOwner r.endOn src } src)
      (fun r => uaRest (stoppedWaitFor (n + 1)) (stoppedNotify (n + 1)) { r with endOn := Tbl.removeOwner r.endOn src } src)
      (ih.ur s src 0) (fun ho => (uaRest_hr hr.swf hr.sn _ _).oof ho) (uaRest_agr hr.swf ih.swf ih.sn _ _)
  sei := fun s t => by
    have hr := hrAll n
    rw [scriptExecuteInternal_succ (n + 1), scriptExecuteInternal_succ n]
    have h1 := ih.stp { s with cur := some t } t
    have h2 := Agr.bind (fun r => execIfAlive (execVM n) r t) (fun r => execIfAlive (execVM (n + 1)) r t) h1
      (fun ho => (execIfAlive_hr hr.ev _ _).oof ho) (execIfAlive_agr ih.ev _ _)
    exact Agr.bind (fun r => executeRunning n (restoreCur r s.cur)) (fun r => executeRunning (n + 1) (restoreCur r s.cur)) h2
      (fun ho => (hr.er _).oof ho) (ih.er _)
  er := fun s => by
    rw [executeRunning_succ (n + 1), executeRunning_succ n]
    split
    · exact Agr.refl _
    · split
      · exact Agr.refl _
      · exact ih.dr _
  dr := fun s => by
    have hr := hrAll n
    rw [drain_succ (n + 1), drain_succ n]
    split
    · exact Agr.refl _
    · exact Agr.bind (fun r => drain n r) (fun r => drain (n + 1) r) (ih.ev _ _) (fun ho => (hr.dr _).oof ho) (ih.dr _)
  ev := fun s t => by
    rw [execVM_succ (n + 1), execVM_succ n]
    exact Agr.map (fun r => vmEpilogue { r with depth := r.depth - 1 } t) (ih.pr _ _)
      (fun ho => (vmEpilogue_hr _ t).oof ho)
  pr := fun s t => by
    have hr := hrAll n
    rw [process_succ (n + 1), process_succ n]
    split
    · exact Agr.refl _
    · split
      · exact Agr.refl _
      · exact Agr.bind (fun r => process n r t) (fun r => process (n + 1) r t) (ih.ex _ _ _ _)
          (fun ho => (hr.pr _ _).oof ho) (ih.pr _ _)
  ex := exec_fm_succ ih

theorem fmAll : ∀ n, FMAll n
  | 0 => fmAll_zero
  | n + 1 => fmAll_succ (fmAll n)

/-! ### `fuel_mono`: a call that completes with fuel `n` returns the same state with any `m ≥ n` -/

theorem mono_of_step (g : Nat → State) (h : ∀ n, Agr (g n) (g (n + 1))) (n : Nat)
    (hn : (g n).outOfFuel = false) : ∀ k, g (n + k) = g n
  | 0 => rfl
  | k + 1 => by
    have ih := mono_of_step g h n hn k
    rcases h (n + k) with ho | he
    · rw [ih, hn] at ho; cases ho
    · rw [← ih]; exact he

theorem mono_of_step_le (g : Nat → State) (h : ∀ n, Agr (g n) (g (n + 1))) {n m : Nat} (hnm : n ≤ m)
    (hn : (g n).outOfFuel = false) : g m = g n := by
  obtain ⟨k, rfl⟩ := Nat.exists_eq_add_of_le hnm
  exact mono_of_step g h n hn k

/-- **`fuel_mono`**, for every function of the machine: if the call with fuel `n` did not run out of fuel, the call with
    any fuel `m ≥ n` returns exactly the same state (same output, same tables, flag down). -/
theorem fuel_mono {n m : Nat} (hnm : n ≤ m) :
    (∀ s t, (deleteThread n s t).outOfFuel = false → deleteThread m s t = deleteThread n s t) ∧
    (∀ s t, (stoppedNotify n s t).outOfFuel = false → stoppedNotify m s t = stoppedNotify n s t) ∧
    (∀ s t, (stop n s t).outOfFuel = false → stop m s t = stop n s t) ∧
    (∀ s t, (cancelWaitingAll n s t).outOfFuel = false → cancelWaitingAll m s t = cancelWaitingAll n s t) ∧
    (∀ s t a d, (stoppedWaitFor n s t a d).outOfFuel = false → stoppedWaitFor m s t a d = stoppedWaitFor n s t a d) ∧
    (∀ s o a, (unregister n s o a).outOfFuel = false → unregister m s o a = unregister n s o a) ∧
    (∀ s o, (unregisterAll n s o).outOfFuel = false → unregisterAll m s o = unregisterAll n s o) ∧
    (∀ s t, (scriptExecuteInternal n s t).outOfFuel = false → scriptExecuteInternal m s t = scriptExecuteInternal n s t) ∧
    (∀ s, (executeRunning n s).outOfFuel = false → executeRunning m s = executeRunning n s) ∧
    (∀ s, (drain n s).outOfFuel = false → drain m s = drain n s) ∧
    (∀ s t, (execVM n s t).outOfFuel = false → execVM m s t = execVM n s t) ∧
    (∀ s t, (process n s t).outOfFuel = false → process m s t = process n s t) ∧
    (∀ s t th ins, (exec n s t th ins).outOfFuel = false → exec m s t th ins = exec n s t th ins) :=
  ⟨fun s t => mono_of_step_le (fun k => deleteThread k s t) (fun k => (fmAll k).dt s t) hnm,
   fun s t => mono_of_step_le (fun k => stoppedNotify k s t) (fun k => (fmAll k).sn s t) hnm,
   fun s t => mono_of_step_le (fun k => stop k s t) (fun k => (fmAll k).stp s t) hnm,
   fun s t => mono_of_step_le (fun k => cancelWaitingAll k s t) (fun k => (fmAll k).cwa s t) hnm,
   fun s t a d => mono_of_step_le (fun k => stoppedWaitFor k s t a d) (fun k => (fmAll k).swf s t a d) hnm,
   fun s o a => mono_of_step_le (fun k => unregister k s o a) (fun k => (fmAll k).ur s o a) hnm,
   fun s o => mono_of_step_le (fun k => unregisterAll k s o) (fun k => (fmAll k).ua s o) hnm,
   fun s t => mono_of_step_le (fun k => scriptExecuteInternal k s t) (fun k => (fmAll k).sei s t) hnm,
   fun s => mono_of_step_le (fun k => executeRunning k s) (fun k => (fmAll k).er s) hnm,
   fun s => mono_of_step_le (fun k => drain k s) (fun k => (fmAll k).dr s) hnm,
   fun s t => mono_of_step_le (fun k => execVM k s t) (fun k => (fmAll k).ev s t) hnm,
   fun s t => mono_of_step_le (fun k => process k s t) (fun k => (fmAll k).pr s t) hnm,
   fun s t th ins => mono_of_step_le (fun k => exec k s t th ins) (fun k => (fmAll k).ex s t th ins) hnm⟩

/-- the host call's execution: whatever fuel `≥` the one it completed with, and in particular `defaultFuel` against any
    larger constant -/
theorem fuel_mono_default (s : State) (t : Nat) (m : Nat) (hm : defaultFuel ≤ m)
    (h : (scriptExecuteInternal defaultFuel s t).outOfFuel = false) :
    scriptExecuteInternal m s t = scriptExecuteInternal defaultFuel s t :=
  (fuel_mono hm).2.2.2.2.2.2.2.1 s t h

def fuelDemo : State :=
  { prog := [[.mark 1, .waitthread 1, .mark 2], [.wait 5, .end_ (.lit 7)]], progParams := [0, 0], threads := [(100, { label := 0, inst := 1 })], insts := [(1, [100])], nextTid := 101, nextInst := 2 }

/-- non-vacuity: the two-thread `waitthread` demo started by hand needs 10 units of fuel (9 are not enough), and with 10
    it returns the state that `defaultFuel = 4000` returns -/
example :
    (scriptExecuteInternal 9 fuelDemo 100).outOfFuel = true ∧ (scriptExecuteInternal 10 fuelDemo 100).outOfFuel = false ∧
      (scriptExecuteInternal 10 fuelDemo 100).out = (scriptExecuteInternal defaultFuel fuelDemo 100).out ∧
      (scriptExecuteInternal 10 fuelDemo 100).timer = (scriptExecuteInternal defaultFuel fuelDemo 100).timer := by
  decide +kernel

example : scriptExecuteInternal defaultFuel fuelDemo 100 = scriptExecuteInternal 10 fuelDemo 100 :=
  (fuel_mono (by decide : 10 ≤ defaultFuel)).2.2.2.2.2.2.2.1 fuelDemo 100 (by decide +kernel)

end Morfuse.Sched
