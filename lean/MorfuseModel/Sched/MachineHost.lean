import MorfuseModel.Sched.MachineInvAll
import MorfuseModel.Sched.MachineHostFrame
import MorfuseModel.Sched.Snapshot
import MorfuseModel.Sched.HostOps
/-!
# The machine at the host level: every host operation keeps the machine-level invariant

`HostOp` / `HostOp.apply` (`Sched/HostOps.lean`) are the commands of the driver (`lean/Driver/Sched.lean`) and
what the driver does to the machine state for each of them (the driver calls `HostOp.apply`).  `HInv` is the
invariant between two host operations:

* `Inv [] [] none` — the machine-level invariant of `MachineInvDefs` with no exemption;
* no current thread, execution-stack depth 0;
* the timer's dirty flag is sound (`TD`);
* the clock discipline: `lastClock ≤ clock`, `scaledTime = lastClock` (the clock moves only between two
  `Execute` calls, time scale 1); `m_time = lastClock` as well as long as no snapshot is loaded
  (`reachable_mtime`, unconditional).

`reachable_hinv`: every state reachable from the initial one by host operations has run out of fuel
or satisfies `HInv`.  Programs must be `ProgOK` (object ids < 100; `local.p0 waittill n` on a thread object
only with names other than the engine's `delete` / `remove` events); `ProgOK` is decidable and every generator
family of tools/vlib/schedgen.py satisfies it.

`save` / `load` are not `HostOp`s (they involve the snapshot held by the host); they are added, with their side
conditions, in `Sched/MachineHostSL.lean` (`ReachableSL`, `reachableSL_hinv3`, `reachableSL_inv`).
`reachable_inv_partial` keeps its name: it is the statement for histories without them.
-/
namespace Morfuse.Sched
open State

/-! ### `ProgOK` is decidable -/

instance (i : Instr) : Decidable i.ok := by
  cases i <;> unfold Instr.ok <;> infer_instance

instance (p : List (List Instr)) : Decidable (ProgOK p) := by
  unfold ProgOK; infer_instance

/-! ### the host operations: `HostOp`, `HostOp.apply` are in `Sched/HostOps.lean` (shared with the driver) -/

/-- the side condition of an operation: compiled programs are of class `ProgOK` -/
def HostOp.ok : HostOp → Prop
  | .script p _ => ProgOK p
  | _ => True

instance (op : HostOp) : Decidable op.ok := by
  cases op <;> unfold HostOp.ok <;> infer_instance

def runOps (s : State) (ops : List HostOp) : State := ops.foldl HostOp.apply s

/-- reachable from the initial state by host operations (programs of class `ProgOK`) -/
inductive Reachable : State → Prop
  | init : Reachable {}
  | step {s : State} (op : HostOp) : Reachable s → op.ok → Reachable (op.apply s)

theorem reachable_iff (s : State) : Reachable s ↔ ∃ ops : List HostOp, (∀ op ∈ ops, op.ok) ∧ s = runOps {} ops := by
  constructor
  · intro h
    induction h with
    | init => exact ⟨[], by simp, rfl⟩
    | step op _ hok ih =>
      obtain ⟨ops, h1, h2⟩ := ih
      refine ⟨ops ++ [op], ?_, ?_⟩
      · intro o ho
        rcases List.mem_append.1 ho with ho | ho
        · exact h1 o ho
        · simp at ho; subst ho; exact hok
      · rw [h2]; simp [runOps]
  · rintro ⟨ops, h1, h2⟩
    subst h2
    suffices hs : ∀ (ops : List HostOp) (s : State), Reachable s → (∀ op ∈ ops, op.ok) → Reachable (runOps s ops) from
      hs ops {} .init h1
    intro ops
    induction ops with
    | nil => intro s h _; exact h
    | cons op ops ih =>
      intro s h hok
      exact ih _ (.step op h (hok op List.mem_cons_self)) (fun o ho => hok o (List.mem_cons_of_mem _ ho))

/-! ### the invariant between two host operations -/

structure HInv (s : State) : Prop where
  inv : Inv [] [] none s
  cur : s.cur = none
  depth : s.depth = 0
  td : TD s.timer
  ck1 : s.lastClock ≤ s.clock
  ck2 : s.scaled = s.lastClock

theorem Ok.bind' {a b : State} {P R : Prop} (h : Ok a P) (hp : a.outOfFuel = true → b.outOfFuel = true)
    (k : P → Ok b R) : Ok b R := h.elim (fun o => Or.inl (hp o)) k

theorem ok_cases (s : State) (P : Prop) (h : s.outOfFuel = false → P) : Ok s P := by
  cases ho : s.outOfFuel with
  | true => exact Or.inl ho
  | false => exact Or.inr (h ho)

theorem Ok.get {s : State} {P : Prop} (h : Ok s P) (ho : s.outOfFuel = false) : P := by
  rcases h with h | h
  · rw [ho] at h; cases h
  · exact h

/-- a function that keeps `Inv` (modulo fuel) and satisfies the frame relation keeps `HInv` -/
theorem HInv.step {s s' : State} (h : HInv s) (hr : HR s s') (hi : Ok s' (Inv [] [] none s')) : Ok s' (HInv s') := by
  apply ok_cases
  intro ho
  have hc3 := hr.ht.c3
  simp only [Prod.mk.injEq] at hc3
  refine ⟨hi.get ho, hr.cur h.cur ho, by rw [hr.depth]; exact h.depth, hr.ht.td h.td, ?_, ?_⟩
  · rw [hc3.1, hc3.2.2]; exact h.ck1
  · rw [hc3.2.1, hc3.2.2]; exact h.ck2

/-- `P` through a fold of steps that each keep it modulo fuel -/
theorem ok_foldl {α : Type} (f : State → α → State) (P : State → Prop)
    (hp : ∀ s a, s.outOfFuel = true → (f s a).outOfFuel = true)
    (h : ∀ s a, P s → Ok (f s a) (P (f s a))) :
    ∀ (l : List α) (s : State), P s → Ok (l.foldl f s) (P (l.foldl f s)) := by
  have hoof : ∀ (l : List α) (s : State), s.outOfFuel = true → (l.foldl f s).outOfFuel = true := by
    intro l
    induction l with
    | nil => intro s h; exact h
    | cons a l ih => intro s h; exact ih _ (hp s a h)
  intro l
  induction l with
  | nil => intro s hs; exact Ok.pure hs
  | cons a l ih =>
    intro s hs
    simp only [List.foldl_cons]
    exact (h s a hs).bind' (hoof l _) (ih _)

/-! ### small updates that `Inv` does not see -/

/-- an update of fields of the record that no part of `Inv` reads (`attached`, `call`, …) -/
theorem Inv.setTh_frame {C W : List Nat} {top : Option Nat} {s : State} (h : Inv C W top s) (t : Nat) (f : Th → Th)
    (hpar : ∀ x, (f x).parent = x.parent) (hts : ∀ x, (f x).ts = x.ts) (hvm : ∀ x, (f x).vm = x.vm)
    (hhv : ∀ x, (f x).hasVM = x.hasVM) (hd : ∀ x, (f x).dead = x.dead) :
    Inv C W top (s.setTh t f) := by
  cases hth : thFind s.threads t with
  | none => exact h.setTh_none t f hth hpar
  | some th =>
    have r := h.th t th hth
    have i1 := h.setTh (C' := C) (W' := W) (top' := top) t f th s.timer hth hpar
      ⟨fun e => by rw [hts]; exact r.f1 (by rw [← hhv]; exact e),
       fun e => by rw [hhv, hvm]; exact r.f2 (by rw [← hd]; exact e),
       fun e => by rw [hts]; exact r.f3 (by rw [← hvm]; exact e),
       fun e => by rw [hhv]; exact r.f5 (by rw [← hvm]; exact e)⟩
      hd (h.tim.setTh_same t f hts) (fun x m _ => m) (fun x m _ => m) (Or.inr (Or.inl rfl))
      (fun ho => by
        rcases h.lnk.linkC t ho with m | ⟨th0, h0, hw0⟩
        · exact Or.inl m
        · rw [hth] at h0; cases h0; right; rw [hts]; exact hw0)
      (fun hw => h.lnk.linkW t th hth (by rw [← hts]; exact hw))
      (fun hw hv => h.lnk.f4 t th hth (by rw [← hts]; exact hw) (by rw [← hvm]; exact hv))
    exact i1.congr rfl rfl rfl rfl rfl rfl rfl rfl rfl

/-- the compiled program is replaced by another one of class `ProgOK` -/
theorem Inv.setProg {C W : List Nat} {top : Option Nat} {s : State} (h : Inv C W top s)
    (p : List (List Instr)) (ps : List Nat) (hp : ProgOK p) : Inv C W top { s with prog := p, progParams := ps } :=
  ⟨{ h.n with prog := hp }, h.th, h.tim, ⟨h.tab.mir, fun o n x hx => h.tab.aN o n x hx⟩,
    ⟨h.lnk.linkC, h.lnk.linkW, h.lnk.f4⟩⟩

/-! ### the initial state -/

theorem inv_init : Inv [] [] none ({} : State) := by
  refine ⟨⟨by simp, ?_, by decide, ?_, Tbl.WF.nil, Tbl.WF.nil, ?_, ?_, ?_, ?_, ?_, ?_, ?_, ?_⟩, ?_, ⟨?_, ?_, ?_⟩, ⟨?_, ?_⟩,
    ⟨?_, ?_, ?_⟩⟩
  · intro t th h; simp [thFind] at h
  · intro t th h; simp [thFind] at h
  · intro b hb; simp at hb
  · intro o ho; simp at ho
  · intro src n _ h; simp [Tbl.getD, Tbl.find] at h
  · intro src _; rfl
  · intro k x h; simp [Tbl.getD, Tbl.find] at h
  · intro o n h; simp [Tbl.getD, Tbl.find] at h
  · intro c h; simp at h
  · intro e he; simp at he
  · intro t th h; simp [thFind] at h
  · intro e he; simp at he
  · simp
  · intro t th h; simp [thFind] at h
  · intro o n; simp [Tbl.getD, Tbl.find]
  · intro o n x h; simp [Tbl.getD, Tbl.find] at h
  · intro t h; simp [Tbl.hasOwner] at h
  · intro t th h; simp [thFind] at h
  · intro t th h; simp [thFind] at h

theorem hinv_init : HInv ({} : State) :=
  ⟨inv_init, rfl, rfl, fun _ e he => by simp at he, Nat.le_refl _, rfl⟩

/-! ### destroying script instances (`~ScriptClass`, `Reset`, recompile) -/

/-- one iteration of `KillThreads` -/
def killStep (s : State) (t : Nat) : State :=
  deleteThread defaultFuel (s.setTh t (fun th => { th with attached := false })) t

theorem killStep_inv {s : State} (h : Inv [] [] none s) (t : Nat) :
    Ok (killStep s t) (Inv [] [] none (killStep s t)) :=
  (iAll defaultFuel).dt [] [] _ t
    ((h.setTh_frame t (fun th => { th with attached := false }) (fun _ => rfl) (fun _ => rfl) (fun _ => rfl) (fun _ => rfl) (fun _ => rfl)).consW t)

theorem killStep_hr (s : State) (t : Nat) : HR s (killStep s t) :=
  (HR.setTh s t _).trans ((hrAll defaultFuel).dt _ _)

theorem killInst_hr (s : State) (i : Nat) : HR s (killInst s i) := by
  unfold killInst
  split
  · exact HR.refl s
  · rename_i chain _
    exact (HR.of_eq (s := s) (s' := { s with insts := s.insts.filter (fun e => !(e.1 == i)) }) rfl rfl rfl).trans
      (HR.foldl killStep killStep_hr chain _)

theorem killInst_inv {s : State} (h : Inv [] [] none s) (i : Nat) :
    Ok (killInst s i) (Inv [] [] none (killInst s i)) := by
  unfold killInst
  split
  · exact Ok.pure h
  · exact ok_foldl _ (fun s => Inv [] [] none s) (fun s t => (killStep_hr s t).oof)
      (fun s t hs => killStep_inv hs t) _ _ (h.congr rfl rfl rfl rfl rfl rfl rfl rfl rfl)

theorem killAllInsts_hr (s : State) : HR s (killAllInsts s) := by
  unfold killAllInsts
  exact HR.foldl _ killInst_hr _ _

theorem killAllInsts_inv {s : State} (h : Inv [] [] none s) :
    Ok (killAllInsts s) (Inv [] [] none (killAllInsts s)) := by
  unfold killAllInsts
  exact ok_foldl _ (fun s => Inv [] [] none s) (fun s i => (killInst_hr s i).oof)
    (fun s i hs => killInst_inv hs i) _ _ h

theorem hostReset_hr (s : State) : HR s (hostReset s) :=
  (killAllInsts_hr s).trans (HR.of_eq rfl rfl rfl)

theorem hostReset_inv {s : State} (h : Inv [] [] none s) : Ok (hostReset s) (Inv [] [] none (hostReset s)) :=
  (killAllInsts_inv h).bind' id (fun i => Ok.pure (i.setProg [] [] (by intro b hb; simp at hb)))

theorem hostScript_hr (s : State) (p : List (List Instr)) (ps : List Nat) : HR s (hostScript s p ps) := by
  unfold hostScript
  split
  · exact HR.of_eq rfl rfl rfl
  · exact (killAllInsts_hr s).trans (HR.of_eq rfl rfl rfl)

theorem hostScript_inv {s : State} (h : Inv [] [] none s) (p : List (List Instr)) (ps : List Nat) (hp : ProgOK p) :
    Ok (hostScript s p ps) (Inv [] [] none (hostScript s p ps)) := by
  unfold hostScript
  split
  · exact Ok.pure (h.setProg p ps hp)
  · exact (killAllInsts_inv h).bind' id (fun i => Ok.pure (i.setProg p ps hp))

/-! ### host calls -/

/-- the state in which `ExecuteThread` has created the instance, the thread and the result cell -/
def callSetup (s : State) (label : Nat) (args : List V) : State :=
  { s with nextInst := s.nextInst + 1, nextTid := s.nextTid + 1, nextCall := s.nextCall + 1,
           insts := (s.nextInst, [s.nextTid]) :: s.insts,
           threads := s.threads ++ [(s.nextTid, ({ label := label, inst := s.nextInst, call := some s.nextCall, params := bindLoop (s.progParams.getD label 0) 0 args } : Th))],
           calls := s.calls ++ [(s.nextCall, .open_)] }

/-- `if (!returnValue.IsNone()) …`: a result cell that is still a pointer means the thread lives on -/
def callFinish (s : State) (c : Nat) : State := if s.getRet c == .open_ then s.setRet c .pending else s

theorem hostCall_eq (s : State) (label : Nat) (args : List V) :
    (hostCall s label args).1 =
      if label ≥ s.prog.length then s
      else callFinish (scriptExecuteInternal defaultFuel (callSetup s label args) s.nextTid) s.nextCall := by
  unfold hostCall
  split <;> rfl

theorem hostCall_status (s : State) (label : Nat) (args : List V) :
    (hostCall s label args).2 = hostCallStatus s label := by
  unfold hostCall hostCallStatus
  split <;> rfl

theorem callFinish_hr (s : State) (c : Nat) : HR s (callFinish s c) := by
  unfold callFinish
  split
  · exact HR.of_eq rfl rfl rfl
  · exact HR.refl s

theorem hostCall_hr (s : State) (label : Nat) (args : List V) : HR s (hostCall s label args).1 := by
  rw [hostCall_eq]
  split
  · exact HR.refl s
  · exact ((HR.of_eq (s := s) (s' := callSetup s label args) rfl rfl rfl).trans
      ((hrAll defaultFuel).sei _ _)).trans (callFinish_hr _ _)

theorem hostCall_inv {s : State} (h : Inv [] [] none s) (label : Nat) (args : List V) :
    Ok (hostCall s label args).1 (Inv [] [] none (hostCall s label args).1) := by
  rw [hostCall_eq]
  split
  · exact Ok.pure h
  · have i0 : Inv [] [] none (callSetup s label args) :=
      (h.spawn ({ label := label, inst := s.nextInst, call := some s.nextCall, params := bindLoop (s.progParams.getD label 0) 0 args } : Th) (Or.inl rfl) rfl rfl rfl rfl).congr
        rfl rfl rfl rfl rfl rfl rfl rfl rfl
    have hf : thFind (callSetup s label args).threads s.nextTid = some ({ label := label, inst := s.nextInst, call := some s.nextCall, params := bindLoop (s.progParams.getD label 0) 0 args } : Th) :=
      thFind_spawned _ (fresh_none h.n)
    refine ((iAll defaultFuel).sei [] _ s.nextTid _ (i0.consW _) hf rfl).bind' (callFinish_hr _ _).oof (fun p => ?_)
    unfold callFinish
    split
    · exact Ok.pure (p.1.congr rfl rfl rfl rfl rfl rfl rfl rfl rfl)
    · exact Ok.pure p.1

theorem hostCallV_hr (s : State) (label : Nat) : HR s (hostCallV s label) :=
  (hostCall_hr s label []).trans (HR.of_eq rfl rfl rfl)

theorem thFind_mapAll (g : Th → Th) (ths : List (Nat × Th)) (t : Nat) :
    thFind (ths.map (fun e => (e.1, g e.2))) t = (thFind ths t).map g := by
  induction ths with
  | nil => rfl
  | cons e ths ih =>
    rw [List.map_cons, thFind_cons, thFind_cons]
    split
    · rfl
    · exact ih

theorem aliveTh_mapAll (g : Th → Th) (hd : ∀ x, (g x).dead = x.dead) (ths : List (Nat × Th)) (l : Nat) :
    aliveTh (ths.map (fun e => (e.1, g e.2))) l = aliveTh ths l := by
  unfold aliveTh
  rw [List.any_map]
  congr 1
  funext e
  simp [hd]

/-- every record is rewritten in fields that no part of `Inv` reads -/
theorem Inv.mapAll {C W : List Nat} {top : Option Nat} {s : State} (h : Inv C W top s) (g : Th → Th)
    (hpar : ∀ x, (g x).parent = x.parent) (hts : ∀ x, (g x).ts = x.ts) (hvm : ∀ x, (g x).vm = x.vm)
    (hhv : ∀ x, (g x).hasVM = x.hasVM) (hd : ∀ x, (g x).dead = x.dead) :
    Inv C W top { s with threads := s.threads.map (fun e => (e.1, g e.2)) } := by
  have hfind : ∀ u th', thFind (s.threads.map (fun e => (e.1, g e.2))) u = some th' →
      ∃ th, thFind s.threads u = some th ∧ th' = g th := by
    intro u th' hu
    rw [thFind_mapAll] at hu
    cases hf : thFind s.threads u with
    | none => rw [hf] at hu; cases hu
    | some th => rw [hf] at hu; simp at hu; exact ⟨th, rfl, hu.symm⟩
  have hkeep : ∀ u th, thFind s.threads u = some th →
      thFind (s.threads.map (fun e => (e.1, g e.2))) u = some (g th) := by
    intro u th hu; rw [thFind_mapAll, hu]; rfl
  have hal : ∀ l, ({ s with threads := s.threads.map (fun e => (e.1, g e.2)) } : State).alive l = s.alive l :=
    State.alive_congr (fun l => aliveTh_mapAll g hd _ l) rfl
  refine ⟨{ h.n with nodup := ?_, range := ?_, parent := ?_ }, ?_, ⟨?_, h.tim.t2, ?_⟩, ⟨h.tab.mir, ?_⟩, ⟨?_, ?_, ?_⟩⟩
  · show ((s.threads.map (fun e => (e.1, g e.2))).map (·.1)).Nodup
    rw [List.map_map]; exact h.n.nodup
  · intro u th' hu
    obtain ⟨th, h1, _⟩ := hfind u th' hu
    exact h.n.range u th h1
  · intro u th' hu
    obtain ⟨th, h1, h2⟩ := hfind u th' hu
    rw [h2, hpar]; exact h.n.parent u th h1
  · intro u th' hu
    obtain ⟨th, h1, h2⟩ := hfind u th' hu
    have r := h.th u th h1
    subst h2
    exact ⟨fun e => by rw [hts]; exact r.f1 (by rw [← hhv]; exact e),
       fun e => by rw [hhv, hvm]; exact r.f2 (by rw [← hd]; exact e),
       fun e => by rw [hts]; exact r.f3 (by rw [← hvm]; exact e),
       fun e => by rw [hhv]; exact r.f5 (by rw [← hvm]; exact e)⟩
  · intro e he
    obtain ⟨th, h1, h2⟩ := h.tim.t1 e he
    exact ⟨g th, hkeep _ _ h1, by rw [hts]; exact h2⟩
  · intro u th' hu hti
    obtain ⟨th, h1, h2⟩ := hfind u th' hu
    subst h2
    exact h.tim.t3 u th h1 (by rw [← hts]; exact hti)
  · intro o n x hx
    obtain ⟨a1, a2⟩ := h.tab.aN o n x hx
    exact ⟨by rw [hal]; exact a1, by show aliveTh (s.threads.map _) x = true; rw [aliveTh_mapAll g hd]; exact a2⟩
  · intro u ho
    rcases h.lnk.linkC u ho with m | ⟨th, h1, h2⟩
    · exact Or.inl m
    · exact Or.inr ⟨g th, hkeep _ _ h1, by rw [hts]; exact h2⟩
  · intro u th' hu hw
    obtain ⟨th, h1, h2⟩ := hfind u th' hu
    subst h2
    exact h.lnk.linkW u th h1 (by rw [← hts]; exact hw)
  · intro u th' hu hw hv
    obtain ⟨th, h1, h2⟩ := hfind u th' hu
    subst h2
    exact h.lnk.f4 u th h1 (by rw [← hts]; exact hw) (by rw [← hvm]; exact hv)

/-- the `call` link of every record is only read by `end` -/
theorem Inv.mapCall {C W : List Nat} {top : Option Nat} {s : State} (h : Inv C W top s) (c : Nat) :
    Inv C W top { s with threads := s.threads.map (fun e => (e.1, if e.2.call == some c then { e.2 with call := none } else e.2)) } :=
  h.mapAll (fun x => if x.call == some c then { x with call := none } else x)
    (fun x => by split <;> rfl) (fun x => by split <;> rfl) (fun x => by split <;> rfl)
    (fun x => by split <;> rfl) (fun x => by split <;> rfl)

theorem hostCallV_inv {s : State} (h : Inv [] [] none s) (label : Nat) :
    Ok (hostCallV s label) (Inv [] [] none (hostCallV s label)) :=
  (hostCall_inv h label []).bind' id (fun i => Ok.pure (i.mapCall _))

/-! ### `ScriptContext::Execute` -/

/-- delivery of one `_cancelwaiting` event -/
def deliver (s : State) (t : Nat) : State :=
  if s.alive t && s.hasVM t then cancelWaitingAll defaultFuel s t else s

theorem processEvents_zero (s : State) : processEvents 0 s = { s with outOfFuel := true } := rfl

theorem processEvents_succ (fuel : Nat) (s : State) :
    processEvents (fuel + 1) s =
      match s.events with
      | [] => s
      | (t, due) :: rest =>
        if due > s.clock then s else processEvents fuel (deliver { s with events := rest } t) := rfl

theorem deliver_hr (s : State) (t : Nat) : HR s (deliver s t) := by
  unfold deliver
  split
  · exact (hrAll defaultFuel).cwa _ _
  · exact HR.refl s

theorem deliver_inv {s : State} (h : Inv [] [] none s) (t : Nat) : Ok (deliver s t) (Inv [] [] none (deliver s t)) := by
  unfold deliver
  split
  · exact ((iAll defaultFuel).cwa [] [] s t (h.consC t)).map (fun p => p.1)
  · exact Ok.pure h

theorem processEvents_hr : ∀ (fuel : Nat) (s : State), HR s (processEvents fuel s)
  | 0, s => HR.fuel s
  | fuel + 1, s => by
    rw [processEvents_succ]
    split
    · exact HR.refl s
    · split
      · exact HR.refl s
      · rename_i t due rest _ _
        exact ((HR.of_eq (s := s) (s' := { s with events := rest }) rfl rfl rfl).trans (deliver_hr _ _)).trans
          (processEvents_hr fuel _)

theorem processEvents_inv : ∀ (fuel : Nat) (s : State), Inv [] [] none s →
    Ok (processEvents fuel s) (Inv [] [] none (processEvents fuel s))
  | 0, s, _ => Or.inl rfl
  | fuel + 1, s, h => by
    rw [processEvents_succ]
    split
    · exact Ok.pure h
    · split
      · exact Ok.pure h
      · rename_i t due rest _ _
        have i0 : Inv [] [] none ({ s with events := rest } : State) := h.congr rfl rfl rfl rfl rfl rfl rfl rfl rfl
        exact (deliver_inv i0 t).bind' (processEvents_hr fuel _).oof (fun i1 => processEvents_inv fuel _ i1)

/-- the state in which `Frame()` and `SetTime()` have run -/
def frameSetTime (s : State) : State :=
  { s with scaled := s.scaled + (s.clock - s.lastClock), lastClock := s.clock, timer := s.timer.setTime s.clock }

theorem hostExecute_eq (s : State) :
    hostExecute s = executeRunning defaultFuel (processEvents defaultFuel (frameSetTime s)) := rfl

theorem frameSetTime_hinv {s : State} (h : HInv s) : HInv (frameSetTime s) := by
  refine ⟨?_, h.cur, h.depth, TD.setTime _ _, Nat.le_refl _, ?_⟩
  · exact (h.inv.setTimerSame (s.timer.setTime s.clock) rfl).congr rfl rfl rfl rfl rfl rfl rfl rfl rfl
  · show s.scaled + (s.clock - s.lastClock) = s.clock
    have := h.ck1; have := h.ck2; omega

theorem hostExecute_hinv {s : State} (h : HInv s) : Ok (hostExecute s) (HInv (hostExecute s)) := by
  rw [hostExecute_eq]
  have h0 := frameSetTime_hinv h
  have r1 := processEvents_hr defaultFuel (frameSetTime s)
  have r2 := (hrAll defaultFuel).er (processEvents defaultFuel (frameSetTime s))
  refine (h0.step r1 (processEvents_inv _ _ h0.inv)).bind' r2.oof (fun h1 => ?_)
  exact h1.step r2 (((iAll defaultFuel).er [] _ h1.inv).map (fun p => p.1))

/-! ### every reachable state -/

theorem HostOp.apply_hinv {s : State} (h : HInv s) (op : HostOp) (hok : op.ok) :
    Ok (op.apply s) (HInv (op.apply s)) := by
  cases op with
  | reset => exact Ok.pure hinv_init
  | script p ps => exact h.step (hostScript_hr s p ps) (hostScript_inv h.inv p ps hok)
  | call l args => exact h.step (hostCall_hr s l args) (hostCall_inv h.inv l args)
  | callv l => exact h.step (hostCallV_hr s l) (hostCallV_inv h.inv l)
  | advance k =>
    exact Ok.pure ⟨h.inv.congr rfl rfl rfl rfl rfl rfl rfl rfl rfl, h.cur, h.depth, h.td,
      Nat.le_trans h.ck1 (Nat.le_add_right _ _), h.ck2⟩
  | resetDirector => exact h.step (hostReset_hr s) (hostReset_inv h.inv)
  | execute => exact hostExecute_hinv h
  | step k =>
    exact hostExecute_hinv (s := { s with clock := s.clock + k })
      ⟨h.inv.congr rfl rfl rfl rfl rfl rfl rfl rfl rfl, h.cur, h.depth, h.td,
        Nat.le_trans h.ck1 (Nat.le_add_right _ _), h.ck2⟩
  | takeOut =>
    exact Ok.pure ⟨h.inv.congr rfl rfl rfl rfl rfl rfl rfl rfl rfl, h.cur, h.depth, h.td, h.ck1, h.ck2⟩

/-- running out of fuel is sticky at the host level too (except through `reset`, which starts afresh) -/
theorem HostOp.apply_oof {s : State} (op : HostOp) (hne : op ≠ .reset) (ho : s.outOfFuel = true) :
    (op.apply s).outOfFuel = true := by
  cases op with
  | reset => exact absurd rfl hne
  | script p ps => exact (hostScript_hr s p ps).oof ho
  | call l args => exact (hostCall_hr s l args).oof ho
  | callv l => exact (hostCallV_hr s l).oof ho
  | advance k => exact ho
  | resetDirector => exact (hostReset_hr s).oof ho
  | execute =>
    rw [HostOp.apply, hostExecute_eq]
    exact ((hrAll defaultFuel).er _).oof ((processEvents_hr _ _).oof ho)
  | step k =>
    rw [HostOp.apply, hostExecute_eq]
    exact ((hrAll defaultFuel).er _).oof ((processEvents_hr _ _).oof ho)
  | takeOut => exact ho

/-- **Every state reachable by host operations (without `save`/`load`) has run out of fuel or satisfies
    the host-level invariant.** -/
theorem reachable_hinv {s : State} (h : Reachable s) : Ok s (HInv s) := by
  induction h with
  | init => exact Ok.pure hinv_init
  | step op _ hok ih =>
    by_cases hr : op = .reset
    · subst hr; exact Ok.pure hinv_init
    · exact ih.bind' (HostOp.apply_oof op hr) (fun hi => HostOp.apply_hinv hi op hok)

/-- the machine-level invariant, with no exemption, in every reachable state -/
theorem reachable_inv_partial {s : State} (h : Reachable s) : s.outOfFuel = true ∨ Inv [] [] none s :=
  (reachable_hinv h).map (fun hi => hi.inv)

/-- `scaledTime` is the clock of the last frame, which is not ahead of the clock — with or without fuel -/
theorem reachable_scaled {s : State} (h : Reachable s) : s.scaled = s.lastClock ∧ s.lastClock ≤ s.clock := by
  induction h with
  | init => exact ⟨rfl, Nat.le_refl _⟩
  | @step s0 op _ _ ih =>
    have key : ∀ {a b : State}, HR a b → (a.scaled = a.lastClock ∧ a.lastClock ≤ a.clock) →
        (b.scaled = b.lastClock ∧ b.lastClock ≤ b.clock) := by
      intro a b hr e
      have hc := hr.ht.c3
      simp only [Prod.mk.injEq] at hc
      rw [hc.1, hc.2.1, hc.2.2]; exact e
    have hex : ∀ a : State, (a.scaled = a.lastClock ∧ a.lastClock ≤ a.clock) →
        ((hostExecute a).scaled = (hostExecute a).lastClock ∧ (hostExecute a).lastClock ≤ (hostExecute a).clock) := by
      intro a e
      rw [hostExecute_eq]
      refine key (((processEvents_hr defaultFuel (frameSetTime a))).trans ((hrAll defaultFuel).er _)) ⟨?_, Nat.le_refl _⟩
      show a.scaled + (a.clock - a.lastClock) = a.clock
      omega
    cases op with
    | reset => exact ⟨rfl, Nat.le_refl _⟩
    | script p ps => exact key (hostScript_hr _ p ps) ih
    | call l args => exact key (hostCall_hr _ l args) ih
    | callv l => exact key (hostCallV_hr _ l) ih
    | advance k => exact ⟨ih.1, Nat.le_trans ih.2 (Nat.le_add_right _ _)⟩
    | resetDirector => exact key (hostReset_hr _) ih
    | execute => exact hex _ ih
    | step k => exact hex ({ s0 with clock := s0.clock + k }) ⟨ih.1, Nat.le_trans ih.2 (Nat.le_add_right _ _)⟩
    | takeOut => exact ih

/-- the timer's `m_time` is the clock of the last frame — without `save`/`load`, with or without fuel -/
theorem reachable_mtime {s : State} (h : Reachable s) : s.timer.mtime = s.lastClock := by
  induction h with
  | init => rfl
  | step op _ _ ih =>
    have key : ∀ {a b : State}, HR a b → a.timer.mtime = a.lastClock → b.timer.mtime = b.lastClock := by
      intro a b hr e
      have hc := hr.ht.c3
      simp only [Prod.mk.injEq] at hc
      rw [hr.ht.mtime, hc.2.2]; exact e
    have hex : ∀ a : State, (hostExecute a).timer.mtime = (hostExecute a).lastClock := by
      intro a
      rw [hostExecute_eq]
      exact key (((processEvents_hr defaultFuel (frameSetTime a))).trans ((hrAll defaultFuel).er _)) rfl
    cases op with
    | reset => rfl
    | script p ps => exact key (hostScript_hr _ p ps) ih
    | call l args => exact key (hostCall_hr _ l args) ih
    | callv l => exact key (hostCallV_hr _ l) ih
    | advance k => exact ih
    | resetDirector => exact key (hostReset_hr _) ih
    | execute => exact hex _
    | step k => exact hex _
    | takeOut => exact ih

end Morfuse.Sched
