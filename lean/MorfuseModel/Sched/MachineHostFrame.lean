import MorfuseModel.Sched.MachineInvPres
import MorfuseModel.Sched.TimerLemmas
/-!
# Host-level frame facts of the machine: clocks, `m_time`, the dirty flag, the native stack depth

`HR s s'` relates the state before and after any function of the mutual block:

* the injected clock, `scaledTime` and the host's last-frame clock are not touched (only the host moves them);
* `m_time` of the timer is not touched (only `SetTime` in `ScriptContext::Execute` moves it);
* **the dirty flag is sound**: if "not dirty ⇒ no element is due" held before, it holds after
  (`AddElement` raises the flag exactly when the new element is already due, `GetNextElement` lowers it
  only after a scan that found nothing, `RemoveElement` leaves it alone);
* the execution-stack depth is restored; a call made with no current thread leaves no current thread.

Same induction over the fuel as `presAll` (same case structure).
-/
namespace Morfuse.Sched
open State

/-- "the timer's dirty flag is sound": not dirty ⇒ no element is due -/
def TD (tm : Timer) : Prop := tm.dirty = false → ∀ e ∈ tm.elems, tm.mtime < e.2

/-- the clock group of fields (and the stack depth) -/
def State.clk (s : State) : Nat × Nat × Nat × Nat × Bool := (s.clock, s.scaled, s.lastClock, s.depth, s.outOfFuel)

theorem TD.remove {tm : Timer} (h : TD tm) (e : Nat) : TD (tm.remove e) := by
  unfold Timer.remove
  split
  · intro hd x hx
    exact h hd x ((List.eraseIdx_sublist _ _).subset hx)
  · exact h

theorem TD.add {tm : Timer} (h : TD tm) (e due : Nat) : TD (tm.add e due) := by
  intro hd x hx
  simp only [Timer.add, Bool.or_eq_false_iff, decide_eq_false_iff_not] at hd
  simp only [Timer.add, List.mem_append, List.mem_singleton] at hx
  rcases hx with hx | hx
  · exact h hd.1 x hx
  · subst hx; show tm.mtime < due; omega

theorem TD.next {tm : Timer} (h : TD tm) : TD tm.next.2 := by
  cases hn : tm.next with
  | mk r tm' =>
    cases r with
    | none =>
      obtain ⟨h1, h2⟩ := Timer.next_none hn
      subst h2
      intro _ x hx; exact h1 x hx
    | some ed =>
      obtain ⟨e, d⟩ := ed
      obtain ⟨i, _, _, _, h2⟩ := Timer.next_some hn
      subst h2
      intro hd x hx
      exact h hd x ((List.eraseIdx_sublist _ _).subset hx)

theorem TD.setTime (tm : Timer) (t : Nat) : TD (tm.setTime t) := by
  intro hd; simp [Timer.setTime] at hd

theorem Timer.remove_mtime (tm : Timer) (e : Nat) : (tm.remove e).mtime = tm.mtime := by
  unfold Timer.remove; split <;> rfl
theorem Timer.add_mtime (tm : Timer) (e d : Nat) : (tm.add e d).mtime = tm.mtime := rfl
theorem Timer.next_mtime (tm : Timer) : tm.next.2.mtime = tm.mtime := by
  unfold Timer.next; split <;> rfl

/-- the part of `HR` that also holds between the intermediate states of `ScriptExecuteInternal`,
    the timer loop and `ScriptVM::Execute` -/
structure HT (s s' : State) : Prop where
  c3 : (s'.clock, s'.scaled, s'.lastClock) = (s.clock, s.scaled, s.lastClock)
  mtime : s'.timer.mtime = s.timer.mtime
  td : TD s.timer → TD s'.timer

theorem HT.refl (s : State) : HT s s := ⟨rfl, rfl, id⟩
theorem HT.trans {a b c : State} (h1 : HT a b) (h2 : HT b c) : HT a c :=
  ⟨h2.c3.trans h1.c3, h2.mtime.trans h1.mtime, fun h => h2.td (h1.td h)⟩
theorem HT.of_eq {s s' : State} (h1 : s'.timer = s.timer)
    (h2 : (s'.clock, s'.scaled, s'.lastClock) = (s.clock, s.scaled, s.lastClock)) : HT s s' :=
  ⟨h2, by rw [h1], fun h => by rw [h1]; exact h⟩

structure HR (s s' : State) : Prop where
  ht : HT s s'
  depth : s'.depth = s.depth
  oof : s.outOfFuel = true → s'.outOfFuel = true
  cur : s.cur = none → s'.outOfFuel = false → s'.cur = none

theorem HR.refl (s : State) : HR s s := ⟨HT.refl s, rfl, id, fun h _ => h⟩
theorem HR.trans {a b c : State} (h1 : HR a b) (h2 : HR b c) : HR a c :=
  ⟨h1.ht.trans h2.ht, h2.depth.trans h1.depth, fun h => h2.oof (h1.oof h), fun h hc => by
    have hb : b.outOfFuel = false := by
      cases hb : b.outOfFuel with
      | false => rfl
      | true => rw [h2.oof hb] at hc; cases hc
    exact h2.cur (h1.cur h hb) hc⟩

/-- a step that keeps the timer, the clocks, the depth, the fuel flag and the current thread -/
theorem HR.of_eq {s s' : State} (h1 : s'.timer = s.timer) (h2 : s'.clk = s.clk)
    (h3 : s'.cur = s.cur) : HR s s' := by
  unfold State.clk at h2
  simp only [Prod.mk.injEq] at h2
  exact ⟨HT.of_eq h1 (by rw [h2.1, h2.2.1, h2.2.2.1]), h2.2.2.2.1, fun h => by rw [h2.2.2.2.2]; exact h,
    fun h _ => by rw [h3]; exact h⟩

/-- a step that changes the timer only -/
theorem HR.of_timer {s : State} (tm : Timer) (h1 : tm.mtime = s.timer.mtime) (h2 : TD s.timer → TD tm) :
    HR s { s with timer := tm } := ⟨⟨rfl, h1, h2⟩, rfl, id, fun h _ => h⟩

theorem drain_cur_none : ∀ (fuel : Nat) (s : State), (drain fuel s).outOfFuel = false → (drain fuel s).cur = none
  | 0, s, h => by rw [drain_zero] at h; cases h
  | fuel + 1, s, h => by
    rw [drain_succ] at h ⊢
    split
    · rfl
    · rename_i t d tm hn
      rw [hn] at h
      exact drain_cur_none fuel _ h

theorem HR.fuel (s : State) : HR s { s with outOfFuel := true } :=
  ⟨HT.of_eq rfl rfl, rfl, fun _ => rfl, fun _ h => by cases h⟩

theorem HR.setTh (s : State) (t : Nat) (f : Th → Th) : HR s (s.setTh t f) := HR.of_eq rfl rfl rfl

theorem HR.removeFromInst (s : State) (t i : Nat) : HR s (removeFromInst s t i) := by
  rw [removeFromInst_frame]; exact HR.of_eq rfl rfl rfl
/-- functions of one / two / three extra arguments that satisfy `HR` -/
def HR1 (f : State → Nat → State) : Prop := ∀ s a, HR s (f s a)
def HR0 (f : State → State) : Prop := ∀ s, HR s (f s)
def HR2 (f : State → Nat → Nat → State) : Prop := ∀ s a b, HR s (f s a b)
def HR3 (f : State → Nat → Nat → Bool → State) : Prop := ∀ s a b c, HR s (f s a b c)

theorem HR.foldl {α : Type} (f : State → α → State) (hf : ∀ s a, HR s (f s a)) :
    ∀ (l : List α) (s : State), HR s (l.foldl f s)
  | [], s => HR.refl s
  | a :: l, s => (hf s a).trans (HR.foldl f hf l (f s a))

theorem stopStep_hr {cw : State → Nat → State} (hcw : HR1 cw) (s : State) (t : Nat) (th : Th) :
    HR s (stopStep cw s t th) := by
  unfold stopStep
  split
  · exact (HR.setTh s t _).trans (HR.of_timer (s := s.setTh t _) _ (Timer.remove_mtime _ _) (fun h => TD.remove h _))
  · split
    · exact (HR.setTh s t _).trans (hcw _ _)
    · exact HR.refl s

theorem notifyDelete_hr (s : State) (t : Nat) : HR s (notifyDelete s t) := by
  unfold notifyDelete
  split
  · exact HR.refl s
  · rename_i th _
    have h1 : HR s (if th.attached = true then removeFromInst (s.setTh t fun th => { th with vm := .destroyed }) t th.inst
        else s.setTh t fun th => { th with vm := .destroyed }) := by
      split
      · exact (HR.setTh s t _).trans (HR.removeFromInst _ _ _)
      · exact HR.setTh s t _
    simp only
    split
    · exact h1.trans (HR.setTh _ _ _)
    · exact h1

theorem finishDelete_hr (s : State) (t : Nat) : HR s (finishDelete s t) := by
  unfold finishDelete
  split
  · exact HR.refl s
  · split
    · exact HR.setTh s t _
    · exact HR.of_eq rfl rfl rfl

theorem cancelEvents_hr (s : State) (t : Nat) : HR s (cancelEvents s t) := HR.of_eq rfl rfl rfl
theorem postEvent_hr (s : State) (t d : Nat) : HR s (postEvent s t d) := HR.of_eq rfl rfl rfl
theorem addTiming_hr (s : State) (t d : Nat) : HR s (addTiming s t d) :=
  HR.of_timer _ (Timer.add_mtime _ _ _) (fun h => TD.add h _ _)
theorem vmSuspend_hr (s : State) (t : Nat) : HR s (vmSuspend s t) := HR.setTh s t _
theorem vmResume_hr (s : State) (t : Nat) : HR s (vmResume s t) := HR.setTh s t _

theorem notifyLoop_hr {sn : State → Nat → State} (hsn : HR1 sn) (s : State) (stopped : List Nat) :
    HR s (notifyLoop sn s stopped) := by
  unfold notifyLoop
  apply HR.foldl
  intro s a
  split
  · exact hsn s a
  · exact HR.refl s

theorem cwaZero_hr {swf : State → Nat → Nat → Bool → State} {sn : State → Nat → State}
    (hswf : HR3 swf) (hsn : HR1 sn) (s : State) (w : Nat) : HR s (cwaZero swf sn s w) := by
  unfold cwaZero
  split
  · exact HR.refl s
  · rename_i list _
    simp only [cancelWaitingSources_eq_purge]
    refine HR.trans ?_ (notifyLoop_hr hsn _ _)
    split
    · refine HR.trans ?_ (hswf _ _ _ _)
      exact HR.of_eq rfl rfl rfl
    · exact HR.of_eq rfl rfl rfl

theorem cwaRest_hr {swf : State → Nat → Nat → Bool → State} {sn : State → Nat → State}
    (hswf : HR3 swf) (hsn : HR1 sn) (s : State) (w : Nat) : HR s (cwaRest swf sn s w) := by
  unfold cwaRest
  split
  · exact HR.refl s
  · simp only [cwaSources_frame]
    refine HR.trans ?_ (notifyLoop_hr hsn _ _)
    refine HR.trans ?_ (hswf _ _ _ _)
    exact HR.of_eq rfl rfl rfl

theorem startTiming_hr {stp : State → Nat → State} (h : HR1 stp) (s : State) (t : Nat) :
    HR s (startTiming stp s t) := by
  unfold startTiming
  split
  · exact h s t
  · exact ((h s t).trans (HR.setTh _ _ _)).trans (addTiming_hr _ _ _)

theorem endOnLoop_hr {dt : State → Nat → State} (h : HR1 dt) (s : State) (src name : Nat)
    (listeners : List Nat) : HR s (endOnLoop dt s src name listeners).1 := by
  unfold endOnLoop
  generalize listeners.reverse = L
  suffices hs : ∀ (L : List Nat) (acc : State × Bool), HR s acc.1 →
      HR s (L.foldl (fun (acc : State × Bool) l =>
        if acc.1.alive l then
          if l == src && (name == nameRemove || name == nameDelete || acc.2) then acc
          else (dt acc.1 l, acc.2 || (l == src))
        else acc) acc).1 from hs L (s, false) (HR.refl s)
  intro L
  induction L with
  | nil => intro acc h; exact h
  | cons l L ih =>
    intro acc hacc
    simp only [List.foldl_cons]
    apply ih
    split
    · split
      · exact hacc
      · exact hacc.trans (h _ _)
    · exact hacc

theorem unregEndOn_hr {dt : State → Nat → State} (h : HR1 dt) (s : State) (src name : Nat) :
    HR s (unregEndOn dt s src name).1 := by
  unfold unregEndOn
  split
  · exact HR.refl s
  · split
    · exact HR.refl s
    · refine HR.trans ?_ (endOnLoop_hr h _ _ _ _)
      exact HR.of_eq rfl rfl rfl

theorem wakeLoop_hr {swf : State → Nat → Nat → Bool → State} (h : HR3 swf) (s : State) (name : Nat)
    (stopped : List Nat) : HR s (wakeLoop swf s name stopped) := by
  unfold wakeLoop
  apply HR.foldl
  intro s a
  split
  · exact h _ _ _ _
  · exact HR.refl s

theorem unregNotify_hr {swf : State → Nat → Nat → Bool → State} {sn : State → Nat → State}
    (hswf : HR3 swf) (hsn : HR1 sn) (s : State) (src name : Nat) :
    HR s (unregNotify swf sn s src name) := by
  unfold unregNotify
  split
  · exact HR.refl s
  · split
    · exact HR.refl s
    · simp only [unregisterTargets_eq_purge]
      refine HR.trans ?_ (wakeLoop_hr hswf _ _ _)
      split
      · refine HR.trans ?_ (hsn _ _)
        exact HR.of_eq rfl rfl rfl
      · exact HR.of_eq rfl rfl rfl

theorem killLoop_hr {swf : State → Nat → Nat → Bool → State} (h : HR3 swf) (s : State)
    (stopped : List (Nat × Nat)) : HR s (killLoop swf s stopped) := by
  unfold killLoop
  apply HR.foldl
  intro s a
  split
  · exact h _ _ _ _
  · exact HR.refl s

theorem uaRest_hr {swf : State → Nat → Nat → Bool → State} {sn : State → Nat → State}
    (hswf : HR3 swf) (hsn : HR1 sn) (s : State) (src : Nat) : HR s (uaRest swf sn s src) := by
  unfold uaRest
  split
  · exact HR.refl s
  · simp only
    refine HR.trans ?_ (killLoop_hr hswf _ _)
    refine HR.trans ?_ (hsn _ _)
    rw [uaTargets_frame]
    exact HR.of_eq rfl rfl rfl

theorem regWait_hr {stp : State → Nat → State} (h : HR1 stp) (s : State) (o n c : Nat) :
    HR s (regWait stp s o n c) := by
  unfold regWait
  simp only
  split
  · refine HR.trans (b := stp { s with notify := Tbl.push s.notify (o, n) c } c) ?_ ?_
    · refine HR.trans ?_ (h _ _)
      exact HR.of_eq rfl rfl rfl
    · exact HR.of_eq rfl rfl rfl
  · exact HR.of_eq rfl rfl rfl

theorem waitOn_hr {stp : State → Nat → State} (h : HR1 stp) (s : State) (p ms : Nat) :
    HR s (waitOn stp s p ms) := by
  unfold waitOn
  exact (((h s p).trans (HR.setTh _ _ _)).trans (addTiming_hr _ _ _)).trans (vmSuspend_hr _ _)

theorem waitOnGuarded_hr {stp : State → Nat → State} (h : HR1 stp) (s : State) (p ms : Nat) :
    HR s (waitOnGuarded stp s p ms) := by
  unfold waitOnGuarded
  split
  · exact h s p
  · exact waitOn_hr h s p ms

theorem setRet_hr (s : State) (c : Nat) (r : Ret) : HR s (s.setRet c r) := HR.of_eq rfl rfl rfl

theorem endResult_hr (s : State) (th : Th) (ev : EndV) : HR s (endResult s th ev) := by
  unfold endResult
  simp only
  split
  · exact HR.refl s
  · split <;> first | exact setRet_hr _ _ _ | exact HR.refl s

theorem restoreCur_ht (s : State) (c : Option Nat) : HT s (restoreCur s c) := HT.of_eq rfl rfl

theorem execIfAlive_hr {ev : State → Nat → State} (h : HR1 ev) (s : State) (t : Nat) :
    HR s (execIfAlive ev s t) := by
  unfold execIfAlive
  split
  · exact h s t
  · exact HR.refl s

theorem vmEpilogue_hr (s : State) (t : Nat) : HR s (vmEpilogue s t) := by
  unfold vmEpilogue
  split
  · exact HR.refl s
  · split
    · exact HR.setTh _ _ _
    · exact HR.of_eq rfl rfl rfl
    · exact HR.refl s

theorem vmPrologue_ht (s : State) (t : Nat) : HT s (vmPrologue s t) := HT.of_eq rfl rfl

/-- the statement for one fuel level -/
structure HRAll (fuel : Nat) : Prop where
  dt : HR1 (deleteThread fuel)
  sn : HR1 (stoppedNotify fuel)
  stp : HR1 (stop fuel)
  cwa : HR1 (cancelWaitingAll fuel)
  swf : HR3 (stoppedWaitFor fuel)
  ur : HR2 (unregister fuel)
  ua : HR1 (unregisterAll fuel)
  sei : HR1 (scriptExecuteInternal fuel)
  er : HR0 (executeRunning fuel)
  dr : HR0 (drain fuel)
  ev : HR1 (execVM fuel)
  pr : HR1 (process fuel)
  ex : ∀ s t th ins, HR s (exec fuel s t th ins)

theorem hrAll_zero : HRAll 0 where
  dt := fun s t => by rw [deleteThread_zero]; exact HR.fuel s
  sn := fun s t => by rw [stoppedNotify_zero]; exact HR.fuel s
  stp := fun s t => by rw [stop_zero]; exact HR.fuel s
  cwa := fun s t => by rw [cancelWaitingAll_zero]; exact HR.fuel s
  swf := fun s t n d => by rw [stoppedWaitFor_zero]; exact HR.fuel s
  ur := fun s t n => by rw [unregister_zero]; exact HR.fuel s
  ua := fun s t => by rw [unregisterAll_zero]; exact HR.fuel s
  sei := fun s t => by rw [scriptExecuteInternal_zero]; exact HR.fuel s
  er := fun s => by rw [executeRunning_zero]; exact HR.fuel s
  dr := fun s => by rw [drain_zero]; exact HR.fuel s
  ev := fun s t => by rw [execVM_zero]; exact HR.fuel s
  pr := fun s t => by rw [process_zero]; exact HR.fuel s
  ex := fun s t th ins => by rw [exec_zero]; exact HR.fuel s

theorem exec_hr_succ {fuel : Nat} (ih : HRAll fuel) (s : State) (t : Nat) (th : Th) (ins : Instr) :
    HR s (exec (fuel + 1) s t th ins) := by
  cases ins with
  | mark k => rw [exec_mark]; exact HR.of_eq rfl rfl rfl
  | pparam i => rw [exec_pparam]; exact HR.of_eq rfl rfl rfl
  | wait ms => rw [exec_wait]; exact waitOn_hr ih.stp _ _ _
  | waittill o names =>
    rw [exec_waittill]
    split
    · exact HR.refl s
    · split
      · exact HR.refl s
      · exact HR.foldl _ (fun s n => regWait_hr ih.stp _ _ _ _) _ _
  | waittillTimeout o n ms =>
    rw [exec_waittillTimeout]
    split
    · exact HR.refl s
    · split
      · exact HR.refl s
      · exact (regWait_hr ih.stp _ _ _ _).trans (postEvent_hr _ _ _)
  | notify o n =>
    rw [exec_notify]
    split
    · exact HR.refl s
    · exact ih.ur _ _ _
  | endon o n =>
    rw [exec_endon]
    split
    · exact HR.refl s
    · split
      · exact HR.refl s
      · exact HR.of_eq rfl rfl rfl
  | delete o =>
    rw [exec_delete]
    split
    · exact HR.refl s
    · refine HR.trans (b := cancelWaitingAll fuel (unregisterAll fuel (unregister fuel (unregister fuel s o nameDelete) o nameRemove) o) o) ?_ ?_
      · exact (((ih.ur _ _ _).trans (ih.ur _ _ _)).trans (ih.ua _ _)).trans (ih.cwa _ _)
      · exact HR.of_eq rfl rfl rfl
  | thread l =>
    rw [exec_thread]
    split
    · exact HR.refl s
    · refine HR.trans ?_ (ih.sei _ _)
      exact HR.of_eq rfl rfl rfl
  | waitthread l =>
    rw [exec_waitthread]
    split
    · exact HR.refl s
    · split
      · refine HR.trans ?_ (ih.sei _ _)
        exact HR.of_eq rfl rfl rfl
      · refine HR.trans ?_ (ih.sei _ _)
        refine HR.trans ?_ (regWait_hr ih.stp _ _ _ _)
        exact HR.of_eq rfl rfl rfl
  | pause => rw [exec_pause]; exact (ih.stp _ _).trans (vmSuspend_hr _ _)
  | waitParent ms =>
    rw [exec_waitParent]
    split
    · exact HR.refl s
    · exact waitOnGuarded_hr ih.stp _ _ _
  | waittillParent names =>
    rw [exec_waittillParent]
    split
    · exact HR.refl s
    · split
      · exact HR.refl s
      · exact HR.foldl _ (fun s n => regWait_hr ih.stp _ _ _ _) _ _
  | notifyParent n =>
    rw [exec_notifyParent]
    split
    · exact HR.refl s
    · exact ih.ur _ _ _
  | end_ ev =>
    rw [exec_end]
    exact ((endResult_hr _ _ _).trans (HR.setTh _ _ _)).trans (ih.dt _ _)
  | spawn o =>
    rw [exec_spawn]
    split
    · exact HR.refl s
    · exact HR.of_eq rfl rfl rfl

theorem hrAll_succ {fuel : Nat} (ih : HRAll fuel) : HRAll (fuel + 1) where
  dt := fun s t => by
    rw [deleteThread_succ]
    split
    · exact HR.refl s
    · split
      · exact HR.refl s
      · exact ((((((((HR.setTh s t _).trans (stopStep_hr ih.cwa _ _ _)).trans (notifyDelete_hr _ _)).trans
          (cancelEvents_hr _ _)).trans (ih.ur _ _ _)).trans (ih.ur _ _ _)).trans (ih.ua _ _)).trans
          (ih.cwa _ _)).trans (finishDelete_hr _ _)
  sn := fun s l => by
    rw [stoppedNotify_succ]
    split
    · split
      · exact ih.dt _ _
      · exact HR.refl s
    · exact HR.refl s
  stp := fun s t => by
    rw [stop_succ]
    split
    · exact HR.refl s
    · exact stopStep_hr ih.cwa _ _ _
  cwa := fun s w => by
    rw [cancelWaitingAll_succ]
    exact (cwaZero_hr ih.swf ih.sn _ _).trans (cwaRest_hr ih.swf ih.sn _ _)
  swf := fun s t name d => by
    rw [stoppedWaitFor_succ]
    split
    · exact HR.refl s
    · split
      · exact HR.refl s
      · split
        · exact HR.refl s
        · split
          · exact ih.dt _ _
          · split
            · split
              · split
                · exact (cancelEvents_hr _ _).trans (ih.sei _ _)
                · exact (cancelEvents_hr _ _).trans (vmResume_hr _ _)
              · exact (cancelEvents_hr _ _).trans (startTiming_hr ih.stp _ _)
            · exact cancelEvents_hr _ _
  ur := fun s src name => by
    rw [unregister_succ]
    split
    · exact unregEndOn_hr ih.dt _ _ _
    · exact (unregEndOn_hr ih.dt _ _ _).trans (unregNotify_hr ih.swf ih.sn _ _ _)
  ua := fun s src => by
    rw [unregisterAll_succ]
    refine HR.trans ?_ (uaRest_hr ih.swf ih.sn _ _)
    refine HR.trans (ih.ur s src 0) ?_
    exact HR.of_eq rfl rfl rfl
  sei := fun s t => by
    rw [scriptExecuteInternal_succ]
    have h1 := ih.stp { s with cur := some t } t
    have h2 := execIfAlive_hr ih.ev (stop fuel { s with cur := some t } t) t
    have h4 := ih.er (restoreCur (execIfAlive (execVM fuel) (stop fuel { s with cur := some t } t) t) s.cur)
    refine ⟨?_, ?_, ?_, ?_⟩
    · exact (((HT.of_eq (s := s) (s' := { s with cur := some t }) rfl rfl).trans h1.ht).trans h2.ht).trans
        ((restoreCur_ht _ _).trans h4.ht)
    · rw [h4.depth]; show (execIfAlive (execVM fuel) (stop fuel { s with cur := some t } t) t).depth = s.depth
      rw [h2.depth, h1.depth]
    · intro ho
      exact h4.oof (h2.oof (h1.oof ho))
    · intro hc
      apply h4.cur
      unfold restoreCur
      rw [hc]; rfl
  er := fun s => by
    rw [executeRunning_succ]
    split
    · exact HR.refl s
    · split
      · exact HR.refl s
      · exact ih.dr _
  dr := fun s => by
    rw [drain_succ]
    have hnm := Timer.next_mtime s.timer
    have hnd : TD s.timer → TD s.timer.next.2 := TD.next
    split
    · rename_i tm hn
      rw [hn] at hnm hnd
      exact ⟨⟨rfl, hnm, hnd⟩, rfl, id, fun _ _ => rfl⟩
    · rename_i t d tm hn
      rw [hn] at hnm hnd
      have h1 := ih.ev (({ s with timer := tm, cur := some t } : State).setTh t (fun th => { th with ts := .running })) t
      have h2 := ih.dr (execVM fuel (({ s with timer := tm, cur := some t } : State).setTh t
        (fun th => { th with ts := .running })) t)
      have h0 : HT s (({ s with timer := tm, cur := some t } : State).setTh t (fun th => { th with ts := .running })) :=
        ⟨rfl, hnm, hnd⟩
      refine ⟨(h0.trans h1.ht).trans h2.ht, ?_, ?_, ?_⟩
      · rw [h2.depth, h1.depth]; rfl
      · intro ho; exact h2.oof (h1.oof ho)
      · intro _
        exact drain_cur_none fuel _
  ev := fun s t => by
    rw [execVM_succ]
    have h1 := ih.pr (vmPrologue s t) t
    refine HR.trans ?_ (vmEpilogue_hr _ _)
    refine ⟨?_, ?_, ?_, ?_⟩
    · exact ((vmPrologue_ht s t).trans h1.ht).trans (HT.of_eq rfl rfl)
    · show (process fuel (vmPrologue s t) t).depth - 1 = s.depth
      rw [h1.depth]; show s.depth + 1 - 1 = s.depth; omega
    · exact h1.oof
    · intro hc
      exact h1.cur hc
  pr := fun s t => by
    rw [process_succ]
    split
    · exact HR.refl s
    · split
      · exact HR.refl s
      · exact ((HR.setTh s t _).trans (ih.ex _ _ _ _)).trans (ih.pr _ _)
  ex := exec_hr_succ ih

theorem hrAll : ∀ fuel, HRAll fuel
  | 0 => hrAll_zero
  | fuel + 1 => hrAll_succ (hrAll fuel)

end Morfuse.Sched
