import MorfuseModel.Sched.MachineHost
/-!
# Consequences of the host-level invariant used by the property files C06, C07, C13

Lemma level; the property statements themselves are in `Props/C06.lean`, `C07.lean`, `C13.lean`.
-/
namespace Morfuse.Sched
open State

/-! ### timer (C06) -/

/-- when the timer loop returns without having run out of fuel nothing in the timer is due -/
theorem drain_none_due : ∀ (fuel : Nat) (s : State), (drain fuel s).outOfFuel = false →
    ∀ e ∈ (drain fuel s).timer.elems, (drain fuel s).timer.mtime < e.2
  | 0, s, h => by rw [drain_zero] at h; cases h
  | fuel + 1, s, h => by
    rw [drain_succ] at h ⊢
    split
    · rename_i tm hn
      obtain ⟨h1, h2⟩ := Timer.next_none hn
      subst h2
      exact h1
    · rename_i t d tm hn
      rw [hn] at h
      exact drain_none_due fuel _ h

/-- `ExecuteRunning` called with no current thread and an empty native stack, on a timer whose dirty
    flag is sound: nothing is due afterwards -/
theorem executeRunning_none_due (fuel : Nat) (s : State) (hc : s.cur = none) (hd : s.depth = 0) (htd : TD s.timer)
    (ho : (executeRunning (fuel + 1) s).outOfFuel = false) :
    ∀ e ∈ (executeRunning (fuel + 1) s).timer.elems, (executeRunning (fuel + 1) s).timer.mtime < e.2 := by
  rw [executeRunning_succ] at ho ⊢
  have h1 : (s.cur.isSome || decide (s.depth > 0)) = false := by rw [hc, hd]; rfl
  simp only [h1, Bool.false_eq_true, if_false] at ho ⊢
  split
  · rename_i hdirty
    exact htd (by simpa using hdirty)
  · rename_i hdirty
    simp only [hdirty] at ho
    exact drain_none_due fuel s ho

theorem hostExecute_none_due {s : State} (h : HInv s) (ho : (hostExecute s).outOfFuel = false) :
    (hostExecute s).timer.mtime = s.clock ∧ ∀ e ∈ (hostExecute s).timer.elems, s.clock < e.2 := by
  have r1 := processEvents_hr defaultFuel (frameSetTime s)
  have r2 := (hrAll defaultFuel).er (processEvents defaultFuel (frameSetTime s))
  have hm : (hostExecute s).timer.mtime = s.clock := by
    rw [hostExecute_eq, r2.ht.mtime, r1.ht.mtime]; rfl
  refine ⟨hm, ?_⟩
  have h0 := frameSetTime_hinv h
  have hoX : (processEvents defaultFuel (frameSetTime s)).outOfFuel = false := by
    cases hx : (processEvents defaultFuel (frameSetTime s)).outOfFuel with
    | false => rfl
    | true => rw [hostExecute_eq, r2.oof hx] at ho; cases ho
  have hX : HInv (processEvents defaultFuel (frameSetTime s)) :=
    (h0.step r1 (processEvents_inv _ _ h0.inv)).get hoX
  have := executeRunning_none_due 3999 _ hX.cur hX.depth hX.td ho
  intro e he
  have h2 := this e he
  rw [← hm]; exact h2

/-- a top-level `ScriptExecuteInternal` (no current thread, empty native stack, sound dirty flag) ends with
    `ExecuteRunning`: nothing is due afterwards — a `wait 0` resumes inside the same host call -/
theorem sei_none_due (fuel : Nat) (s : State) (t : Nat) (hc : s.cur = none) (hd : s.depth = 0) (htd : TD s.timer)
    (ho : (scriptExecuteInternal (fuel + 1 + 1) s t).outOfFuel = false) :
    ∀ e ∈ (scriptExecuteInternal (fuel + 1 + 1) s t).timer.elems,
      (scriptExecuteInternal (fuel + 1 + 1) s t).timer.mtime < e.2 := by
  rw [scriptExecuteInternal_succ] at ho ⊢
  have h1 := (hrAll (fuel + 1)).stp { s with cur := some t } t
  have h2 := execIfAlive_hr (hrAll (fuel + 1)).ev (stop (fuel + 1) { s with cur := some t } t) t
  have h3 := restoreCur_ht (execIfAlive (execVM (fuel + 1)) (stop (fuel + 1) { s with cur := some t } t) t) s.cur
  apply executeRunning_none_due fuel _ ?_ ?_ ?_ ho
  · unfold restoreCur; rw [hc]; rfl
  · show (execIfAlive (execVM (fuel + 1)) (stop (fuel + 1) { s with cur := some t } t) t).depth = 0
    rw [h2.depth, h1.depth]; exact hd
  · exact h3.td (h2.ht.td (h1.ht.td htd))

theorem callFinish_timer (s : State) (c : Nat) : (callFinish s c).timer = s.timer := by
  unfold callFinish; split <;> rfl

theorem callFinish_oof (s : State) (c : Nat) : (callFinish s c).outOfFuel = s.outOfFuel := by
  unfold callFinish; split <;> rfl

theorem hostCall_none_due {s : State} (h : HInv s) (label : Nat) (args : List V) (hl : label < s.prog.length)
    (ho : (hostCall s label args).1.outOfFuel = false) :
    ∀ e ∈ (hostCall s label args).1.timer.elems, (hostCall s label args).1.timer.mtime < e.2 := by
  have hl' : ¬ label ≥ s.prog.length := by omega
  rw [hostCall_eq] at ho ⊢
  simp only [hl', if_false] at ho ⊢
  rw [callFinish_oof] at ho
  rw [callFinish_timer]
  exact sei_none_due 3998 (callSetup s label args) s.nextTid h.cur h.depth h.td ho

/-- `wait ms` executed by thread `t`: its old timer entry (if any) is removed by `Stop()`, then the
    element `(t, scaledTime + ms)` is appended -/
theorem exec_wait_timer (fuel : Nat) (s : State) (t : Nat) (th : Th) (ms : Nat) :
    (exec (fuel + 1) s t th (.wait ms)).timer.elems = (stop fuel s t).timer.elems ++ [(t, s.scaled + ms)] := by
  rw [exec_wait]
  have hc := ((hrAll fuel).stp s t).ht.c3
  simp only [Prod.mk.injEq] at hc
  show (stop fuel s t).timer.elems ++ [(t, (stop fuel s t).scaled + ms)] = _
  rw [hc.2.1]

/-- one iteration of the timer loop: the thread that is resumed is an element whose due time has been reached -/
theorem drain_resumes_due (fuel : Nat) (s : State) (t d : Nat) (tm : Timer) (hn : s.timer.next = (some (t, d), tm)) :
    (t, d) ∈ s.timer.elems ∧ d ≤ s.timer.mtime ∧
    (∀ e ∈ s.timer.elems, e.2 ≤ s.timer.mtime → d ≤ e.2) ∧
    drain (fuel + 1) s = drain fuel (execVM fuel (({ s with timer := tm, cur := some t } : State).setTh t
      (fun th => { th with ts := .running })) t) := by
  obtain ⟨i, hi, hd, hmin, _⟩ := Timer.next_some hn
  refine ⟨List.mem_of_getElem? hi, hd, ?_, ?_⟩
  · intro e he hdue
    obtain ⟨j, hj⟩ := List.mem_iff_getElem?.1 he
    exact (hmin j e.1 e.2 hj hdue).1
  · rw [drain_succ, hn]

theorem drain_stops (fuel : Nat) (s : State) (tm : Timer) (hn : s.timer.next = (none, tm)) :
    (∀ e ∈ s.timer.elems, s.timer.mtime < e.2) ∧ drain (fuel + 1) s = { s with timer := tm, cur := none } := by
  refine ⟨(Timer.next_none hn).1, ?_⟩
  rw [drain_succ, hn]

theorem Inv.timing_once {C W : List Nat} {top : Option Nat} {s : State} (h : Inv C W top s) {t : Nat} {th : Th}
    (hf : s.th? t = some th) (hts : th.ts = .timing) : (s.timer.elems.map (·.1)).count t = 1 := by
  rw [h.tim.t2.count, if_pos (h.tim.t3 t th hf hts)]

theorem Inv.timer_elem_live {C W : List Nat} {top : Option Nat} {s : State} (h : Inv C W top s) {e : Nat × Nat}
    (he : e ∈ s.timer.elems) :
    ∃ th, s.th? e.1 = some th ∧ th.ts = .timing ∧ th.hasVM = true ∧ th.dead = false := by
  obtain ⟨th, hf, hts⟩ := h.tim.t1 e he
  have r := h.th e.1 th hf
  have hv : th.hasVM = true := by
    cases hv : th.hasVM with
    | true => rfl
    | false => have := r.f1 hv; rw [hts] at this; cases this
  have hd : th.dead = false := by
    cases hd : th.dead with
    | false => rfl
    | true => have := (r.f2 hd).1; rw [hv] at this; cases this
  exact ⟨th, hf, hts, hv, hd⟩

/-! ### listener tables (C07) -/

theorem Inv.waiting_iff {top : Option Nat} {s : State} (h : Inv [] [] top s) (t : Nat) :
    (∃ th, s.th? t = some th ∧ th.ts = .waiting) ↔ Tbl.hasOwner s.waitFor t = true := by
  constructor
  · rintro ⟨th, hf, hw⟩
    rcases h.lnk.linkW t th hf hw with m | m
    · cases m
    · exact m
  · intro ho
    rcases h.lnk.linkC t ho with m | m
    · cases m
    · exact m

/-- every listener in a notify list is a live thread in state `waiting` that holds the mirror entry -/
theorem Inv.registered_waiting {top : Option Nat} {s : State} (h : Inv [] [] top s) {o n x : Nat}
    (hx : x ∈ Tbl.getD s.notify (o, n)) :
    s.alive o = true ∧ o ∈ Tbl.getD s.waitFor (x, n) ∧
      ∃ th, s.th? x = some th ∧ th.ts = .waiting ∧ th.dead = false ∧ th.hasVM = true := by
  obtain ⟨a1, a2⟩ := h.tab.aN o n x hx
  have hm : o ∈ Tbl.getD s.waitFor (x, n) := (h.tab.mir.mem_iff o n x).1 hx
  have ho : Tbl.hasOwner s.waitFor x = true := (h.n.wfW.hasOwner_iff x).2 ⟨n, List.ne_nil_of_mem hm⟩
  obtain ⟨th, hf, hw⟩ := (h.waiting_iff x).2 ho
  obtain ⟨th', hf', hd⟩ := (aliveTh_iff h.n.nodup x).1 a2
  rw [State.th?_eq] at hf
  rw [hf] at hf'; cases hf'
  have r := h.th x th hf
  have hv : th.hasVM = true := by
    cases hv : th.hasVM with
    | true => rfl
    | false => have := r.f1 hv; rw [hw] at this; cases this
  exact ⟨a1, hm, th, hf, hw, hd, hv⟩

/-- **no lost wake-up**: a `waiting` thread is registered with a live source -/
theorem Inv.waiting_has_source {top : Option Nat} {s : State} (h : Inv [] [] top s) {t : Nat} {th : Th}
    (hf : s.th? t = some th) (hw : th.ts = .waiting) :
    ∃ o n, t ∈ Tbl.getD s.notify (o, n) ∧ s.alive o = true := by
  have ho := (h.waiting_iff t).1 ⟨th, hf, hw⟩
  obtain ⟨n, hn⟩ := (h.n.wfW.hasOwner_iff t).1 ho
  obtain ⟨o, hmem⟩ := List.exists_mem_of_ne_nil _ hn
  have hx : t ∈ Tbl.getD s.notify (o, n) := (h.tab.mir.mem_iff o n t).2 hmem
  exact ⟨o, n, hx, (h.tab.aN o n t hx).1⟩

/-! ### quiescence (C13) -/

/-- a non-empty WF table has a key with a member -/
theorem Tbl.WF.exists_mem_of_ne_nil {T : Tbl} (h : Tbl.WF T) (hne : T ≠ []) :
    ∃ k x, x ∈ Tbl.getD T k := by
  cases T with
  | nil => exact absurd rfl hne
  | cons e T =>
    have hm : e ∈ e :: T := List.mem_cons_self
    obtain ⟨x, hx⟩ := List.exists_mem_of_ne_nil _ (h.nonempty e hm)
    refine ⟨e.1, x, ?_⟩
    rw [Tbl.find_eq_getD_of_some (Tbl.find_of_mem h.nodup (k := e.1) (l := e.2) hm)]
    exact hx

/-- no live thread record ⇒ the timer and both listener tables are empty -/
theorem Inv.quiescent_empty {top : Option Nat} {s : State} (h : Inv [] [] top s)
    (hq : ∀ t th, s.th? t = some th → th.dead = true) :
    s.timer.elems = [] ∧ s.notify = [] ∧ s.waitFor = [] := by
  have hN : s.notify = [] := by
    apply Classical.byContradiction
    intro hne
    obtain ⟨k, x, hx⟩ := h.n.wfN.exists_mem_of_ne_nil hne
    obtain ⟨_, _, th, hf, _, hd, _⟩ := h.registered_waiting (o := k.1) (n := k.2) hx
    rw [hq x th hf] at hd; cases hd
  refine ⟨?_, hN, ?_⟩
  · apply List.eq_nil_iff_forall_not_mem.2
    intro e he
    obtain ⟨th, hf, _, _, hd⟩ := h.timer_elem_live he
    rw [hq e.1 th hf] at hd; cases hd
  · apply Classical.byContradiction
    intro hne
    obtain ⟨k, o, ho⟩ := h.n.wfW.exists_mem_of_ne_nil hne
    have hx : k.1 ∈ Tbl.getD s.notify (o, k.2) := (h.tab.mir.mem_iff o k.2 k.1).2 ho
    rw [hN] at hx
    simp [Tbl.getD, Tbl.find] at hx

/-- a thread that is `timing` or `waiting` is a live thread with a live VM, and it holds a timer element
    resp. a wait-for entry -/
theorem Inv.suspended_live {top : Option Nat} {s : State} (h : Inv [] [] top s) {t : Nat} {th : Th}
    (hf : s.th? t = some th) (hs : th.ts = .timing ∨ th.ts = .waiting) :
    th.hasVM = true ∧ th.dead = false ∧ th.vm ≠ .destroyed ∧
      (th.ts = .timing → t ∈ s.timer.elems.map (·.1)) ∧
      (th.ts = .waiting → Tbl.hasOwner s.waitFor t = true) := by
  have r := h.th t th hf
  have hv : th.hasVM = true := by
    cases hv : th.hasVM with
    | true => rfl
    | false => have := r.f1 hv; rcases hs with hs | hs <;> (rw [hs] at this; cases this)
  have hd : th.dead = false := by
    cases hd : th.dead with
    | false => rfl
    | true => have := (r.f2 hd).1; rw [hv] at this; cases this
  refine ⟨hv, hd, (fun e => by have := r.f5 e; rw [hv] at this; cases this), fun e => h.tim.t3 t th hf e,
    fun e => (h.waiting_iff t).1 ⟨th, hf, e⟩⟩

end Morfuse.Sched
