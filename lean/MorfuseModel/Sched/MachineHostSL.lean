import MorfuseModel.Sched.MachineIdleHost
/-!
# `save` / `load` at the host level

`ReachableSL s k`: `s` is the machine state and `k` the snapshot held by the host after any list of driver
commands **including `save` and `load`**, under the explicit side conditions
* `save` is taken in a state that has not run out of fuel (a snapshot of an exhausted run is garbage);
* `load` happens when `Reset()` (`killAllInsts`) of the present state does not run out of fuel (`load` clears the
  flag), and every *object* that is a wait source in the snapshot still exists in the present context (the host
  owns its objects; the model does not archive them).
`reachableSL_hinv3`: every such state has run out of fuel or satisfies all host-level invariants (`HInv3`), and the
snapshot held was taken from a state satisfying them.  The timer's `m_time` after a `load` is the one of the
snapshot (`≤` the present frame clock, not `=`): that clause is not part of `HInv` (`reachable_mtime` is the
statement without `load`).
-/
namespace Morfuse.Sched
open State

/-! ### `Reset()` keeps everything -/

theorem killAllInsts_hinv3 {s : State} (h : HInv3 s) : Ok (killAllInsts s) (HInv3 (killAllInsts s)) := by
  refine (h.h2.h.step (killAllInsts_hr s) (killAllInsts_inv h.h2.h.inv)).map (fun hi => ⟨⟨hi, ?_⟩, ?_⟩)
  · exact (killAllInsts_j h.h2.h.inv.n h.h2.j).2
  · exact killAllInsts_w h.h2.h.inv.n h.h2.j h.w

theorem killFold_objs : ∀ (L : List Nat) (S : State), NInv S → (L.foldl killStep S).objs = S.objs
  | [], _, _ => rfl
  | t :: L, S, hn => (killFold_objs L _ (killStep_ninv hn t)).trans (killStep_q hn t).objs

theorem killInst_objs {s : State} (hn : NInv s) (i : Nat) : (killInst s i).objs = s.objs := by
  unfold killInst
  split
  · rfl
  · exact killFold_objs _ _ (hn.congr rfl rfl rfl rfl rfl rfl rfl rfl rfl)

theorem killAllInsts_objs {s : State} (hn : NInv s) (j : J [] s) : (killAllInsts s).objs = s.objs := by
  unfold killAllInsts
  generalize s.insts.map (·.1) = ids
  induction ids generalizing s with
  | nil => rfl
  | cons i ids ih =>
    simp only [List.foldl_cons]
    obtain ⟨n1, j1⟩ := killInst_j hn j i
    exact (ih n1 j1).trans (killInst_objs hn i)

theorem killStep_pres (s : State) (t : Nat) : Pres s (killStep s t) :=
  (Pres.setTh s t _).trans ((presAll defaultFuel).dt _ _)

theorem killInst_pres (s : State) (i : Nat) : Pres s (killInst s i) := by
  unfold killInst
  split
  · exact Pres.refl s
  · rename_i chain _
    exact (Pres.of_eq (s := s) (s' := { s with insts := s.insts.filter (fun e => !(e.1 == i)) }) rfl rfl rfl).trans
      (Pres.foldl killStep killStep_pres chain _)

theorem killAllInsts_pres (s : State) : Pres s (killAllInsts s) := by
  unfold killAllInsts
  exact Pres.foldl _ killInst_pres _ _

/-! ### the loaded state -/

/-- program and objects are replaced; the objects that are wait sources still exist -/
theorem Inv.setProgObjs {C W : List Nat} {top : Option Nat} {s : State} (h : Inv C W top s)
    (p : List (List Instr)) (ps : List Nat) (objs : List Nat) (hp : ProgOK p) (ho : ∀ o ∈ objs, o < 100)
    (hal : ∀ o n x, x ∈ Tbl.getD s.notify (o, n) → o < 100 →
      ({ s with prog := p, progParams := ps, objs := objs } : State).objAlive o = true) :
    Inv C W top { s with prog := p, progParams := ps, objs := objs } := by
  refine ⟨{ h.n with prog := hp, objs := ho }, h.th, h.tim, ⟨h.tab.mir, ?_⟩, ⟨h.lnk.linkC, h.lnk.linkW, h.lnk.f4⟩⟩
  intro o n x hx
  obtain ⟨a1, a2⟩ := h.tab.aN o n x hx
  refine ⟨?_, a2⟩
  by_cases hth : State.isThread o = true
  · rw [State.alive_thread _ hth] at a1 ⊢
    exact a1
  · have hth' : State.isThread o = false := by simpa using hth
    rw [State.alive_obj _ hth']
    apply hal o n x hx
    simpa [State.isThread] using hth'

theorem load_hinv3 {X s0 : State} (hX : HInv3 X) (hXe : X.events = []) (h0 : HInv3 s0)
    (hobj : ∀ o n x, x ∈ Tbl.getD s0.notify (o, n) → o < 100 → X.objAlive o = true) :
    HInv3 (load X (save s0)) := by
  have g := fun (x : Th) => ({ x with call := none } : Th)
  have i1 : Inv [] [] none ({ s0 with threads := s0.threads.map (fun e => (e.1, { e.2 with call := none })) } : State) :=
    h0.h2.h.inv.mapAll (fun x => { x with call := none }) (fun _ => rfl) (fun _ => rfl) (fun _ => rfl)
      (fun _ => rfl) (fun _ => rfl)
  have i2 := i1.setProgObjs X.prog X.progParams X.objs hX.h2.h.inv.n.prog hX.h2.h.inv.n.objs
    (fun o n x hx ho => hobj o n x hx ho)
  have i3 := i2.setCur none (fun x hx => by cases hx)
  have inv : Inv [] [] none (load X (save s0)) := i3.congr rfl rfl rfl rfl rfl rfl rfl rfl rfl
  have j1 := h0.h2.j.mapAll (fun x => { x with call := none }) (fun _ => rfl) (fun _ => rfl) (fun _ => rfl)
    (fun _ => rfl) (fun _ => rfl)
  have w1 := h0.w.mapAll (fun x => { x with call := none }) (fun _ => rfl) (fun _ => rfl)
  refine ⟨⟨⟨inv, rfl, rfl, h0.h2.h.td, hX.h2.h.ck1, hX.h2.h.ck2⟩, ⟨j1.a, j1.b, j1.c, j1.d, ?_⟩⟩, w1.congr rfl⟩
  intro ev he
  have he' : ev ∈ X.events := he
  rw [hXe] at he'; cases he'

/-! ### reachability with `save` / `load` -/

/-- the driver's `reset` starts a new context: the snapshot is forgotten -/
def keepSnap : HostOp → Option Snap → Option Snap
  | .reset, _ => none
  | _, k => k

inductive ReachableSL : State → Option Snap → Prop
  | init : ReachableSL {} none
  | step {s : State} {k : Option Snap} (op : HostOp) : ReachableSL s k → op.ok →
      ReachableSL (op.apply s) (keepSnap op k)
  | save {s : State} {k : Option Snap} : ReachableSL s k → s.outOfFuel = false → ReachableSL s (some (save s))
  | load {s : State} {k : Snap} : ReachableSL s (some k) → (killAllInsts s).outOfFuel = false →
      (∀ o n x, x ∈ Tbl.getD k.notify (o, n) → o < 100 → s.objAlive o = true) →
      ReachableSL (load (killAllInsts s) k) (some k)

/-- the snapshot held by the host was taken in a state with all the host-level invariants -/
def SnapOK : Option Snap → Prop
  | none => True
  | some k => ∃ s0, HInv3 s0 ∧ k = save s0

/-- **Every state reachable by the driver's commands, `save` and `load` included, has run out of fuel or
    satisfies all host-level invariants; the snapshot held is a snapshot of such a state.** -/
theorem reachableSL_hinv3 {s : State} {k : Option Snap} (h : ReachableSL s k) : Ok s (HInv3 s) ∧ SnapOK k := by
  induction h with
  | init => exact ⟨Ok.pure hinv3_init, trivial⟩
  | step op _ hok ih =>
    by_cases hr : op = .reset
    · subst hr; exact ⟨Ok.pure hinv3_init, trivial⟩
    · refine ⟨ih.1.bind' (HostOp.apply_oof op hr) (fun hi => HostOp.apply_hinv3 hi op hok), ?_⟩
      cases op <;> first | exact absurd rfl hr | exact ih.2
  | save _ ho ih => exact ⟨ih.1, _, ih.1.get ho, rfl⟩
  | @load s k _ ho hobj ih =>
    obtain ⟨s0, h0, hk⟩ := ih.2
    subst hk
    have hs : s.outOfFuel = false := by
      cases hs : s.outOfFuel with
      | false => rfl
      | true => rw [(killAllInsts_hr s).oof hs] at ho; cases ho
    have hi := ih.1.get hs
    have hX := (killAllInsts_hinv3 hi).get ho
    have hXe : (killAllInsts s).events = [] := ((killAllInsts_empty hi).get ho).2.2.1
    refine ⟨Ok.pure (load_hinv3 hX hXe h0 (fun o n x hx ho' => ?_)), s0, h0, rfl⟩
    unfold State.objAlive
    rw [killAllInsts_objs hi.h2.h.inv.n hi.h2.j]
    exact hobj o n x hx ho'

/-- the machine-level invariant in every state the driver can reach (all commands) -/
theorem reachableSL_inv {s : State} {k : Option Snap} (h : ReachableSL s k) : s.outOfFuel = true ∨ Inv [] [] none s :=
  (reachableSL_hinv3 h).1.map (fun hi => hi.h2.h.inv)

theorem Reachable.toSL {s : State} (h : Reachable s) : ReachableSL s none := by
  induction h with
  | init => exact .init
  | step op _ hok ih =>
    have := ReachableSL.step op ih hok
    cases op <;> exact this

end Morfuse.Sched
