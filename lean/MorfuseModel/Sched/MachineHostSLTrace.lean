import MorfuseModel.Sched.MachineHostSL
import MorfuseModel.Sched.MachineTimerTraceHost
import MorfuseModel.Sched.MachineNotifyTraceHost
import MorfuseModel.Sched.MachineLifeTraceHost
/-!
# The ledgers over all driver commands (`save` / `load` included)

`Ledgers s`: the four ghost ledgers of a state exist — a history of timer operations, of notify-table operations, of
thread-record creations/destructions, of instance creations/unlinkings, each replaying from the empty structure to the
state's.  `reachableSL_ledgers`: every state reachable with any driver commands has them, and so does the state in which
the held snapshot was taken; a `load` restarts the history from the snapshot's history (the loaded timer, notify table,
record ids and instance ids are the snapshot's).  `reachableSL_clocks`: `m_time ≤ lastClock = scaledTime ≤ clock` with all
commands; `reachableSL_timer_history`: the timer ledger can be chosen with `AddsLate`.  No fuel condition.
-/
namespace Morfuse.Sched
open State

structure Ledgers (s : State) : Prop where
  timer : ∃ ops : List TOp, timerRun {} ops = s.timer
  notify : ∃ ops : List NOp, nRun [] ops = s.notify
  threads : ∃ ops : List POp, pRun pool0T ops = some (absT s)
  insts : ∃ ops : List POp, pRun pool0I ops = some (absI s)

theorem ledgers_init : Ledgers ({} : State) := ⟨⟨[], rfl⟩, ⟨[], rfl⟩, ⟨[], rfl⟩, ⟨[], rfl⟩⟩

theorem timerHist_tt {s s' : State} (h : ∃ ops : List TOp, timerRun {} ops = s.timer) (r : TT s s') :
    ∃ ops : List TOp, timerRun {} ops = s'.timer := by
  obtain ⟨o, ho⟩ := h
  obtain ⟨o', hr, _, _⟩ := r.run
  exact ⟨o ++ o', by rw [timerRun_append, ho, hr]⟩

theorem HostOp.apply_timerHist (s : State) (op : HostOp) (hne : op ≠ .reset)
    (h : ∃ ops : List TOp, timerRun {} ops = s.timer) : ∃ ops : List TOp, timerRun {} ops = (op.apply s).timer := by
  have hex : ∀ a : State, (∃ ops : List TOp, timerRun {} ops = a.timer) →
      ∃ ops : List TOp, timerRun {} ops = (hostExecute a).timer := by
    intro a ha
    obtain ⟨o, ho⟩ := ha
    have hf : ∃ ops : List TOp, timerRun {} ops = (frameSetTime a).timer :=
      ⟨o ++ [.setTime a.clock], by rw [timerRun_append, ho]; rfl⟩
    exact timerHist_tt hf (hostExecute_tt a)
  cases op with
  | reset => exact absurd rfl hne
  | script p ps => exact timerHist_tt h (hostScript_tt s p ps)
  | call l args => exact timerHist_tt h (hostCall_tt s l args)
  | callv l => exact timerHist_tt h (hostCallV_tt s l)
  | advance k => exact h
  | resetDirector => exact timerHist_tt h (hostReset_tt s)
  | execute => exact hex s h
  | step k => exact hex { s with clock := s.clock + k } h
  | takeOut => exact h

theorem HostOp.apply_ledgers {s : State} (h : Ledgers s) (op : HostOp) : Ledgers (op.apply s) := by
  by_cases hr : op = .reset
  · subst hr; exact ledgers_init
  · obtain ⟨o2, h2⟩ := h.notify
    obtain ⟨p2, q2⟩ := HostOp.apply_nn s op hr
    obtain ⟨o3, h3⟩ := h.threads
    obtain ⟨o4, h4⟩ := h.insts
    have hl := HostOp.apply_ll s op hr
    obtain ⟨p3, q3⟩ := hl.th
    obtain ⟨p4, q4⟩ := hl.inst
    exact ⟨HostOp.apply_timerHist s op hr h.timer, ⟨o2 ++ p2, by rw [nRun_append, h2, q2]⟩,
      ⟨o3 ++ p3, pRun_append _ _ _ _ _ h3 q3⟩, ⟨o4 ++ p4, pRun_append _ _ _ _ _ h4 q4⟩⟩

/-- the loaded state has the ledgers of the state the snapshot was taken in -/
theorem load_ledgers (X s0 : State) (h : Ledgers s0) : Ledgers (load X (save s0)) := by
  refine ⟨h.timer, h.notify, ?_, h.insts⟩
  obtain ⟨o, ho⟩ := h.threads
  refine ⟨o, ?_⟩
  rw [ho]
  congr 1
  unfold absT
  simp [load, save, List.map_map, Function.comp]

def SnapLedgers : Option Snap → Prop
  | none => True
  | some k => ∃ s0, Ledgers s0 ∧ k = save s0

/-- **the ghost ledgers exist for every state the driver can reach, all commands included** -/
theorem reachableSL_ledgers {s : State} {k : Option Snap} (h : ReachableSL s k) : Ledgers s ∧ SnapLedgers k := by
  induction h with
  | init => exact ⟨ledgers_init, trivial⟩
  | step op _ _ ih =>
    refine ⟨HostOp.apply_ledgers ih.1 op, ?_⟩
    cases op <;> first | exact trivial | exact ih.2
  | save _ _ ih => exact ⟨ih.1, _, ih.1, rfl⟩
  | load _ _ _ ih =>
    obtain ⟨s0, h0, hk⟩ := ih.2
    subst hk
    exact ⟨load_ledgers _ s0 h0, s0, h0, rfl⟩

/-! ### the clocks and `AddsLate` with `save` / `load`

A `load` puts back the snapshot's timer with the snapshot's `m_time`, which is the frame clock of the moment of the
`save`, hence `≤` (not `=`) the present frame clock: the clock is the host's and keeps running (`reset` starts a new
context with clock 0, and drops the snapshot).  So `m_time = lastClock` (`reachable_mtime`) becomes `m_time ≤ lastClock`;
a loaded element may be overdue (due `<` the present frame time: it is resumed by the next drain) but every `add` of the
history — the snapshot's history followed by what happened since the load — still has due `≥ m_time` of its moment. -/

structure SLClocks (s : State) (k : Option Snap) : Prop where
  sc : s.scaled = s.lastClock
  lc : s.lastClock ≤ s.clock
  mt : s.timer.mtime ≤ s.lastClock
  snap : ∀ k0, k = some k0 → k0.timer.mtime ≤ s.lastClock

theorem SLClocks.hr {a b : State} {k : Option Snap} (h : SLClocks a k) (hr : HR a b) : SLClocks b k := by
  have hc := hr.ht.c3
  simp only [Prod.mk.injEq] at hc
  refine ⟨?_, ?_, ?_, ?_⟩
  · rw [hc.2.1, hc.2.2]; exact h.sc
  · rw [hc.1, hc.2.2]; exact h.lc
  · rw [hr.ht.mtime, hc.2.2]; exact h.mt
  · intro k0 hk; rw [hc.2.2]; exact h.snap k0 hk

theorem hostExecute_clocks (a : State) (k : Option Snap) (h : SLClocks a k) : SLClocks (hostExecute a) k := by
  rw [hostExecute_eq]
  refine SLClocks.hr ?_ (((processEvents_hr defaultFuel (frameSetTime a))).trans ((hrAll defaultFuel).er _))
  refine ⟨?_, Nat.le_refl _, Nat.le_refl _, fun k0 hk => Nat.le_trans (h.snap k0 hk) h.lc⟩
  show a.scaled + (a.clock - a.lastClock) = a.clock
  have := h.sc; have := h.lc; omega

/-- **the clocks with all commands**: `scaledTime` is the clock of the last frame; the timer's `m_time` and the held
    snapshot's `m_time` are not ahead of it — with or without fuel -/
theorem reachableSL_clocks {s : State} {k : Option Snap} (h : ReachableSL s k) : SLClocks s k := by
  induction h with
  | init => exact ⟨rfl, Nat.le_refl _, Nat.le_refl _, fun _ hk => by cases hk⟩
  | @step s0 k0 op _ _ ih =>
    cases op with
    | reset => exact ⟨rfl, Nat.le_refl _, Nat.le_refl _, fun _ hk => by cases hk⟩
    | script p ps => exact ih.hr (hostScript_hr _ p ps)
    | call l args => exact ih.hr (hostCall_hr _ l args)
    | callv l => exact ih.hr (hostCallV_hr _ l)
    | advance n => exact ⟨ih.sc, Nat.le_trans ih.lc (Nat.le_add_right _ _), ih.mt, ih.snap⟩
    | resetDirector => exact ih.hr (hostReset_hr _)
    | execute => exact hostExecute_clocks _ _ ih
    | step n =>
      exact hostExecute_clocks { s0 with clock := s0.clock + n } _
        ⟨ih.sc, Nat.le_trans ih.lc (Nat.le_add_right _ _), ih.mt, ih.snap⟩
    | takeOut => exact ⟨ih.sc, ih.lc, ih.mt, ih.snap⟩
  | save _ _ ih => exact ⟨ih.sc, ih.lc, ih.mt, fun k0 hk => by cases hk; exact ih.mt⟩
  | @load s0 k0 _ _ _ ih =>
    have h1 := ih.hr (killAllInsts_hr s0)
    exact ⟨h1.sc, h1.lc, h1.snap k0 rfl, h1.snap⟩

def SnapHist : Option Snap → Prop
  | none => True
  | some k => ∃ ops : List TOp, timerRun {} ops = k.timer ∧ AddsLate {} ops

/-- **the timer ledger with `AddsLate` exists for every state the driver can reach, all commands included** -/
theorem reachableSL_timer_history {s : State} {k : Option Snap} (h : ReachableSL s k) :
    (∃ ops, Hist s ops) ∧ SnapHist k := by
  induction h with
  | init => exact ⟨⟨[], rfl, trivial⟩, trivial⟩
  | @step s0 k0 op hreach _ ih =>
    obtain ⟨⟨ops, hh⟩, hk⟩ := ih
    have hc := reachableSL_clocks hreach
    have hm : s0.timer.mtime ≤ s0.scaled := by rw [hc.sc]; exact hc.mt
    have hex : ∀ a : State, Hist a ops → a.lastClock ≤ a.clock → a.scaled = a.lastClock →
        ∃ ops', Hist (hostExecute a) ops' := by
      intro a ha h1 h2
      have hf : Hist (frameSetTime a) (ops ++ [.setTime a.clock]) := by
        refine ⟨?_, ?_⟩
        · rw [timerRun_append, ha.run]; rfl
        · exact AddsLate.append _ _ _ ha.late ⟨trivial, trivial⟩
      obtain ⟨o', h'⟩ := hf.step (s' := hostExecute a) (by
        show a.clock ≤ a.scaled + (a.clock - a.lastClock); omega) (hostExecute_tt a)
      exact ⟨_, h'⟩
    cases op with
    | reset => exact ⟨⟨[], rfl, trivial⟩, trivial⟩
    | script p ps => obtain ⟨o, h'⟩ := hh.step hm (hostScript_tt s0 p ps); exact ⟨⟨_, h'⟩, hk⟩
    | call l args => obtain ⟨o, h'⟩ := hh.step hm (hostCall_tt s0 l args); exact ⟨⟨_, h'⟩, hk⟩
    | callv l => obtain ⟨o, h'⟩ := hh.step hm (hostCallV_tt s0 l); exact ⟨⟨_, h'⟩, hk⟩
    | advance n => exact ⟨⟨ops, hh.run, hh.late⟩, hk⟩
    | resetDirector => obtain ⟨o, h'⟩ := hh.step hm (hostReset_tt s0); exact ⟨⟨_, h'⟩, hk⟩
    | execute => exact ⟨hex s0 hh hc.lc hc.sc, hk⟩
    | step n =>
      exact ⟨hex { s0 with clock := s0.clock + n } ⟨hh.run, hh.late⟩
        (Nat.le_trans hc.lc (Nat.le_add_right _ _)) hc.sc, hk⟩
    | takeOut => exact ⟨⟨ops, hh.run, hh.late⟩, hk⟩
  | save _ _ ih =>
    obtain ⟨⟨ops, hh⟩, _⟩ := ih
    exact ⟨⟨ops, hh⟩, ops, hh.run, hh.late⟩
  | load _ _ _ ih =>
    obtain ⟨_, ops, h1, h2⟩ := ih
    exact ⟨⟨ops, h1, h2⟩, ops, h1, h2⟩

end Morfuse.Sched
