import MorfuseModel.Sched.MachineHostSL
import MorfuseModel.Sched.MachineTimerTraceHost
import MorfuseModel.Sched.MachineNotifyTraceHost
import MorfuseModel.Sched.MachineLifeTraceHost
/-!
# The ledgers over all driver commands (`save` / `load` included)

`Ledgers s`: the four ghost ledgers of a state exist — a history of timer operations, of notify-table operations, of
thread-record creations/destructions, of instance creations/unlinkings, each replaying from the empty structure to the
state's.  `reachableSL_ledgers`: every state reachable with any driver commands has them, and so does the state in which
the held snapshot was taken; a `load` restarts the history from the snapshot's history (the loaded timer, notify table,
record ids and instance ids are the snapshot's).  No fuel condition.
-/
namespace Morfuse.Sched
open State

structure Ledgers (s : State) : Prop where
  timer : ∃ ops : List TOp, timerRun {} ops = s.timer
  notify : ∃ ops : List NOp, nRun [] ops = s.notify
  threads : ∃ ops : List POp, pRun pool0T ops = some (absT s)
  insts : ∃ ops : List POp, pRun pool0I ops = some (absI s)

theorem ledgers_init : Ledgers ({} : State) := ⟨⟨[], rfl⟩, ⟨[], rfl⟩, ⟨[], rfl⟩, ⟨[], rfl⟩⟩

theorem timerHist_tt {s s' : State} (h : ∃ ops : List TOp, timerRun {} ops = s.timer) (r : TT s s') :
    ∃ ops : List TOp, timerRun {} ops = s'.timer := by
  obtain ⟨o, ho⟩ := h
  obtain ⟨o', hr, _, _⟩ := r.run
  exact ⟨o ++ o', by rw [timerRun_append, ho, hr]⟩

theorem HostOp.apply_timerHist (s : State) (op : HostOp) (hne : op ≠ .reset)
    (h : ∃ ops : List TOp, timerRun {} ops = s.timer) : ∃ ops : List TOp, timerRun {} ops = (op.apply s).timer := by
  have hex : ∀ a : State, (∃ ops : List TOp, timerRun {} ops = a.timer) →
      ∃ ops : List TOp, timerRun {} ops = (hostExecute a).timer := by
    intro a ha
    obtain ⟨o, ho⟩ := ha
    have hf : ∃ ops : List TOp, timerRun {} ops = (frameSetTime a).timer :=
      ⟨o ++ [.setTime a.clock], by rw [timerRun_append, ho]; rfl⟩
    exact timerHist_tt hf (hostExecute_tt a)
  cases op with
  | reset => exact absurd rfl hne
  | script p ps => exact timerHist_tt h (hostScript_tt s p ps)
  | call l args => exact timerHist_tt h (hostCall_tt s l args)
  | callv l => exact timerHist_tt h (hostCallV_tt s l)
  | advance k => exact h
  | resetDirector => exact timerHist_tt h (hostReset_tt s)
  | execute => exact hex s h
  | step k => exact hex { s with clock := s.clock + k } h
  | takeOut => exact h

theorem HostOp.apply_ledgers {s : State} (h : Ledgers s) (op : HostOp) : Ledgers (op.apply s) := by
  by_cases hr : op = .reset
  · subst hr; exact ledgers_init
  · obtain ⟨o2, h2⟩ := h.notify
    obtain ⟨p2, q2⟩ := HostOp.apply_nn s op hr
    obtain ⟨o3, h3⟩ := h.threads
    obtain ⟨o4, h4⟩ := h.insts
    have hl := HostOp.apply_ll s op hr
    obtain ⟨p3, q3⟩ := hl.th
    obtain ⟨p4, q4⟩ := hl.inst
    exact ⟨HostOp.apply_timerHist s op hr h.timer, ⟨o2 ++ p2, by rw [nRun_append, h2, q2]⟩,
      ⟨o3 ++ p3, pRun_append _ _ _ _ _ h3 q3⟩, ⟨o4 ++ p4, pRun_append _ _ _ _ _ h4 q4⟩⟩

/-- the loaded state has the ledgers of the state the snapshot was taken in -/
theorem load_ledgers (X s0 : State) (h : Ledgers s0) : Ledgers (load X (save s0)) := by
  refine ⟨h.timer, h.notify, ?_, h.insts⟩
  obtain ⟨o, ho⟩ := h.threads
  refine ⟨o, ?_⟩
  rw [ho]
  congr 1
  unfold absT
  simp [load, save, List.map_map, Function.comp]

def SnapLedgers : Option Snap → Prop
  | none => True
  | some k => ∃ s0, Ledgers s0 ∧ k = save s0

/-- **the ghost ledgers exist for every state the driver can reach, all commands included** -/
theorem reachableSL_ledgers {s : State} {k : Option Snap} (h : ReachableSL s k) : Ledgers s ∧ SnapLedgers k := by
  induction h with
  | init => exact ⟨ledgers_init, trivial⟩
  | step op _ _ ih =>
    refine ⟨HostOp.apply_ledgers ih.1 op, ?_⟩
    cases op <;> first | exact trivial | exact ih.2
  | save _ _ ih => exact ⟨ih.1, _, ih.1, rfl⟩
  | load _ _ _ ih =>
    obtain ⟨s0, h0, hk⟩ := ih.2
    subst hk
    exact ⟨load_ledgers _ s0 h0, s0, h0, rfl⟩

end Morfuse.Sched
