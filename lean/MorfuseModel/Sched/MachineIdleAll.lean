import MorfuseModel.Sched.MachineIdleQuiet
import MorfuseModel.Sched.MachineInstAll
/-!
# Complete idle threads through the executing half of the machine

Third pass, same skeleton as `MachineInstAll`: `W A s` (every record outside the active set `A` is a complete
idle thread).  `ScriptVM::Execute` of `t` is entered with `t` active and left with `t` complete idle or gone;
a created thread is active until its first `Execute` returns.  At the host level the active set is empty.
-/
namespace Morfuse.Sched
open State

def WR (A : List Nat) (s s' : State) : Prop := W A s → W A s'
theorem WR.trans {A : List Nat} {a b c : State} (h1 : WR A a b) (h2 : WR A b c) : WR A a c := fun h => h2 (h1 h)
theorem WR.frame {A : List Nat} {s s' : State} (e1 : s'.threads = s.threads) : WR A s s' :=
  fun h t th hf => h t th (by rw [← e1]; exact hf)

theorem W.congr {A : List Nat} {s s' : State} (h : W A s) (e1 : s'.threads = s.threads) : W A s' :=
  fun t th hf => h t th (by rw [← e1]; exact hf)

/-- statements -/
def WUr (f : State → Nat → Nat → State) : Prop :=
  ∀ A C W' s src name, Inv C W' none s → (C = [] ∨ name = 0 ∨ QSrc src name) → W A s → Ok (f s src name) (W A (f s src name))

def WSwf (f : State → Nat → Nat → Bool → State) : Prop :=
  ∀ A C W' s t name d, Inv C (t :: W') none s →
    (name ≠ 0 → d = false → C = [] ∧ ∀ th, thFind s.threads t = some th → th.ts = .waiting → th.vm = .idling) →
    W A s → Ok (f s t name d) (W A (f s t name d))

def WSei (f : State → Nat → State) : Prop :=
  ∀ A W' s t th, Inv [] (t :: W') none s → thFind s.threads t = some th → th.hasVM = true →
    (th.vm = .idling ∨ th.ts = .running) → W (t :: A) s → Ok (f s t) (W A (f s t))

def WEr (f : State → State) : Prop := ∀ A W' s, Inv [] W' none s → W A s → Ok (f s) (W A (f s))

def WEv (f : State → Nat → State) : Prop :=
  ∀ A W' s t th, Inv [] W' none s → thFind s.threads t = some th → th.hasVM = true → th.ts = .running →
    (s.cur = some t ∨ s.cur = none) → W (t :: A) s → Ok (f s t) (W A (f s t))

def WPr (f : State → Nat → State) : Prop :=
  ∀ A W' s t, Inv [] W' (some t) s → (s.cur = some t ∨ s.cur = none) →
    (∀ th, thFind s.threads t = some th → th.vm = .running → th.hasVM = true) → W (t :: A) s →
    Ok (f s t) (W (t :: A) (f s t))

def WEx (f : State → Nat → Th → Instr → State) : Prop :=
  ∀ A W' s t th0 th ins, Inv [] W' none s → thFind s.threads t = some th0 → th0.vm = .running →
    th0.hasVM = true → (th.parent = 0 ∨ 100 ≤ th.parent) → Instr.ok ins → (s.cur = some t ∨ s.cur = none) →
    W (t :: A) s → Ok (f s t th ins) (W (t :: A) (f s t th ins))

/-! ### small steps -/

/-- an update of a record that keeps `hasVM` and the VM state -/
theorem W.setTh {A : List Nat} {s : State} (h : W A s) (t : Nat) (f : Th → Th)
    (hhv : ∀ x, (f x).hasVM = x.hasVM := by intros; rfl) (hvm : ∀ x, (f x).vm = x.vm := by intros; rfl) :
    W A (s.setTh t f) := by
  intro u th' hu
  rw [State.setTh_threads, thFind_map_upd] at hu
  split at hu
  · rename_i hut; subst hut
    cases hf : thFind s.threads u with
    | none => rw [hf] at hu; simp at hu
    | some th => rw [hf] at hu; simp at hu; subst hu; rw [hhv, hvm]; exact h u th hf
  · exact h u th' hu

/-- any update of the record of an active thread -/
theorem W.setTh_active {A : List Nat} {s : State} (h : W A s) (t : Nat) (f : Th → Th) (ht : t ∈ A) :
    W A (s.setTh t f) := by
  intro u th' hu
  by_cases hut : u = t
  · right; rw [hut]; exact ht
  · rw [State.setTh_threads, thFind_map_upd] at hu
    simp [hut] at hu
    exact h u th' hu

theorem vmSuspend_w (A : List Nat) (s : State) (p : Nat) : WR A s (vmSuspend s p) := by
  intro h u th' hu
  unfold vmSuspend at hu
  rw [State.setTh_threads, thFind_map_upd] at hu
  split at hu
  · rename_i hut; subst hut
    cases hf : thFind s.threads u with
    | none => rw [hf] at hu; simp at hu
    | some th =>
      rw [hf] at hu; simp at hu; subst hu
      rcases h u th hf with ⟨c1, c2⟩ | m
      · left
        rw [if_neg (by rw [c2]; simp)]
        exact ⟨c1, c2⟩
      · exact Or.inr m
  · exact h u th' hu

theorem regWait_w (fuel : Nat) (A : List Nat) {s : State} (h : NInv s) (o n c : Nat) (hc : 100 ≤ c)
    (ho : o < 100 ∨ NameOK n) : WR A s (regWait (stop fuel) s o n c) := by
  unfold regWait
  simp only
  have h1 := pushNotify_ninv h o n c hc ho
  intro hw
  have w1 : W A ({ s with notify := Tbl.push s.notify (o, n) c } : State) := hw.congr rfl
  split
  · exact ((vmSuspend_w A _ c) (((wqAll fuel).stp A _ c h1).1 w1 |>.setTh c (fun th => { th with ts := .waiting }))).congr rfl
  · exact w1.congr rfl

theorem waitOn_w (fuel : Nat) (A : List Nat) {s : State} (h : NInv s) (p ms : Nat) :
    WR A s (waitOn (stop fuel) s p ms) := by
  unfold waitOn
  intro hw
  have a1 := ((wqAll fuel).stp A s p h).1 hw
  have a2 := a1.setTh p (fun th => { th with ts := .timing })
  have a3 : W A (addTiming ((stop fuel s p).setTh p fun th => { th with ts := .timing }) p ms) := a2.congr rfl
  exact vmSuspend_w A _ p a3

theorem waitOnGuarded_w (fuel : Nat) (A : List Nat) {s : State} (h : NInv s) (p ms : Nat) :
    WR A s (waitOnGuarded (stop fuel) s p ms) := by
  unfold waitOnGuarded
  split
  · exact ((wqAll fuel).stp A s p h).1
  · exact waitOn_w fuel A h p ms

theorem endResult_w (A : List Nat) (s : State) (th : Th) (ev : EndV) : WR A s (endResult s th ev) := by
  unfold endResult
  simp only
  split
  · exact id
  · split <;> first | exact WR.frame rfl | exact id

/-- a created thread is active -/
theorem W.spawn {A : List Nat} {s : State} (h : W A s) (r : Th) (t' : Nat) :
    W (t' :: A) ({ s with threads := s.threads ++ [(t', r)] } : State) := by
  intro u th hu
  simp only at hu
  rw [thFind_append] at hu
  cases hf : thFind s.threads u with
  | some x =>
    rw [hf] at hu; simp at hu; subst hu
    exact (h u x hf).elim Or.inl (fun m => Or.inr (List.mem_cons_of_mem _ m))
  | none =>
    rw [hf] at hu
    simp only at hu
    split at hu
    · rename_i hut; right; rw [hut]; exact List.mem_cons_self
    · cases hu

/-! ### the wake loop and `Unregister(name)` -/

theorem wakeFold_w {swf : State → Nat → Nat → Bool → State} (hp : Pres3 swf) (hswf : ISwf swf) (hj : WSwf swf)
    (A C W' : List Nat) (name : Nat) :
    ∀ (L : List Nat) (s : State), Inv C (L ++ W') none s → (name ≠ 0 → C = [] ∧ ∀ l ∈ L, IdleP s l) → W A s →
      Ok (L.foldl (fun s l => if s.alive l then swf s l name false else s) s)
        (W A (L.foldl (fun s l => if s.alive l then swf s l name false else s) s))
  | [], _, _, _, j => Ok.pure j
  | l :: L, s, h, hside, j => by
    simp only [List.foldl_cons]
    have hrest : ∀ s1 : State, Pres s1 (L.foldl (fun s l => if s.alive l then swf s l name false else s) s1) :=
      fun s1 => Pres.foldl _ (fun s a => by split; exact hp _ _ _ _; exact Pres.refl s) L s1
    by_cases ha : s.alive l = true
    · simp only [ha, if_true]
      have hpre : name ≠ 0 → false = false → C = [] ∧ ∀ th, thFind s.threads l = some th → th.ts = .waiting → th.vm = .idling := by
        intro hn _
        obtain ⟨hC, hI⟩ := hside hn
        refine ⟨hC, ?_⟩
        intro th hth hw
        rcases (hI l List.mem_cons_self).2 th hth with e | e
        · exact e
        · have r := h.th l th hth
          have := r.f1 (r.f5 e); rw [hw] at this; cases this
      refine ((hswf C (L ++ W') s l name false h hpre).and (hj A C (L ++ W') s l name false h hpre j)).bind (hrest _)
        (fun p => ?_)
      refine wakeFold_w hp hswf hj A C W' name L _ p.1.1 (fun hn => ?_) p.2
      obtain ⟨hC, hI⟩ := hside hn
      exact ⟨hC, fun l' hl' => (hI l' (List.mem_cons_of_mem _ hl')).of_g p.1.2⟩
    · simp only [ha]
      exact wakeFold_w hp hswf hj A C W' name L s (h.dropW_not_alive ha)
        (fun hn => ⟨(hside hn).1, fun l' hl' => (hside hn).2 l' (List.mem_cons_of_mem _ hl')⟩) j

theorem unregNotify_w {fuel : Nat} (hswf : ISwf (stoppedWaitFor fuel)) (hsn : ISn (stoppedNotify fuel))
    (hj : WSwf (stoppedWaitFor fuel)) {A C W' : List Nat} {s : State} (h : Inv C W' none s) (src name : Nat)
    (hside : C = [] ∨ name = 0 ∨ QSrc src name) (j : W A s) :
    Ok (unregNotify (stoppedWaitFor fuel) (stoppedNotify fuel) s src name)
      (W A (unregNotify (stoppedWaitFor fuel) (stoppedNotify fuel) s src name)) := by
  unfold unregNotify
  split
  · exact Ok.pure j
  · cases hf : Tbl.find s.notify (src, name) with
    | none => exact Ok.pure j
    | some list =>
      simp only [unregisterTargets_eq_purge, wakeLoop]
      obtain ⟨h1, hidle1⟩ := unregNotify_mid h src name list hf hside
      have j1 : W A ({ ({ s with waitFor := (Tbl.purge s.alive s.waitFor src name list []).1 } : State) with
            notify := Tbl.removeKey s.notify (src, name) }) := j.congr rfl
      have P := presAll fuel
      split
      · refine (hsn C _ _ src h1).bind ?_ (fun p2 => ?_)
        · exact Pres.foldl _ (fun s a => by split; exact P.swf _ _ _ _; exact Pres.refl s) _ _
        have g2 : G _ (stoppedNotify fuel _ src) := ((qAll fuel).sn [] _ src h1.n).toG
        exact wakeFold_w P.swf hswf hj A C W' name _ _ p2
          (fun hn => ⟨(hidle1 hn).1, fun l hl => ((hidle1 hn).2 l hl).of_g g2⟩) (((wqAll fuel).sn A _ src h1.n).1 j1)
      · exact wakeFold_w P.swf hswf hj A C W' name _ _ h1 hidle1 j1

theorem unregister_w_succ {fuel : Nat} (hj : WSwf (stoppedWaitFor fuel)) : WUr (unregister (fuel + 1)) := by
  intro A C W' s src name h hside j
  have I := iAll fuel
  rw [unregister_succ]
  have P := presAll fuel
  have j1 := (unregEndOn_wz (nAll fuel).dt (wqAll fuel).dt A h.n src name).1 j
  split
  · exact Ok.pure j1
  · refine (unregEndOn_inv P.dt I.dt h src name).bind (unregNotify_pres P.swf P.sn _ _ _) (fun p => ?_)
    exact unregNotify_w I.swf I.sn hj p src name hside j1

theorem stoppedWaitFor_w_succ {fuel : Nat} (hsei : WSei (scriptExecuteInternal fuel)) :
    WSwf (stoppedWaitFor (fuel + 1)) := by
  intro A C W' s t name d h hside j
  rw [stoppedWaitFor_succ]
  split
  · exact Ok.pure j
  · cases hf : s.th? t with
    | none => exact Ok.pure j
    | some th =>
      rw [State.th?_eq] at hf
      simp only
      split
      · exact Ok.pure j
      · rename_i hv
        have hvm : th.hasVM = true := by simpa using hv
        split
        · exact Ok.pure (((wqAll fuel).dt A s t h.n).1 j)
        · rename_i hd
          have hd' : d = false := by simpa using hd
          split
          · rename_i hw
            have hw' : th.ts = .waiting := by simpa using hw
            split
            · rename_i hname
              have hname' : name ≠ 0 := by simpa using hname
              obtain ⟨hC, hidle⟩ := hside hname' hd'
              subst hC
              have hvi := hidle th hf hw'
              simp only [hvi, beq_self_eq_true, if_true]
              have i1 : Inv [] (t :: W') none (cancelEvents s t) := cancelEvents_inv h t
              exact hsei A W' _ t th i1 hf hvm (Or.inl hvi)
                ((j.congr (s' := cancelEvents s t) rfl).mono (fun x m => List.mem_cons_of_mem _ m))
            · exact Ok.pure ((((cancelEvents_wz A s t).trans
                (startTiming_wz (wqAll fuel).stp A (cancelEvents_ninv h.n t) t)).1) j)
          · exact Ok.pure ((cancelEvents_wz A s t).1 j)

/-! ### instructions -/

structure WHx (fuel : Nat) : Prop where
  ur : WUr (unregister fuel)
  sei : WSei (scriptExecuteInternal fuel)

theorem WR.foldlN {α : Type} {A : List Nat} (f : State → α → State)
    (hn : ∀ s a, NInv s → NInv (f s a)) (hf : ∀ s a, NInv s → WR A s (f s a)) :
    ∀ (l : List α) (s : State), NInv s → WR A s (l.foldl f s)
  | [], _, _ => id
  | a :: l, s, h => (hf s a h).trans (WR.foldlN f hn hf l (f s a) (hn s a h))

theorem exec_w_succ {fuel : Nat} (jh : WHx fuel) : WEx (exec (fuel + 1)) := by
  intro A W' s t th0 th ins h hth0 hvm0 hhv0 hp hok hcur j
  have ih := iAll fuel
  have r : Running s t th0 := ⟨hth0, hvm0, hhv0⟩
  have ht : 100 ≤ t := (h.n.range t th0 hth0).1
  cases ins with
  | mark k => rw [exec_mark]; exact Ok.pure (j.congr rfl)
  | pparam i => rw [exec_pparam]; exact Ok.pure (j.congr rfl)
  | wait ms => rw [exec_wait]; exact Ok.pure (waitOn_w fuel _ h.n t ms j)
  | waittill o names =>
    rw [exec_waittill]
    split
    · exact Ok.pure j
    · rename_i hoa
      have hoa' : s.objAlive o = true := by simpa using hoa
      have ho : o < 100 := objAlive_lt h.n hoa'
      cases hc : s.cur with
      | none => exact Ok.pure j
      | some c =>
        have hc100 : 100 ≤ c := h.n.cur c hc
        simp only
        exact Ok.pure (WR.foldlN (fun s n => regWait (stop fuel) s o n c)
          (fun s n hs => regWait_ninv (nAll fuel).stp hs o n c hc100 (Or.inl ho))
          (fun s n hs => regWait_w fuel _ hs o n c hc100 (Or.inl ho)) names s h.n j)
  | waittillTimeout o n ms =>
    rw [exec_waittillTimeout]
    split
    · exact Ok.pure j
    · rename_i hoa
      have hoa' : s.objAlive o = true := by simpa using hoa
      have ho : o < 100 := objAlive_lt h.n hoa'
      cases hc : s.cur with
      | none => exact Ok.pure j
      | some c =>
        have hc100 : 100 ≤ c := h.n.cur c hc
        simp only
        exact Ok.pure ((regWait_w fuel _ h.n o n c hc100 (Or.inl ho) j).congr rfl)
  | notify o n =>
    rw [exec_notify]
    split
    · exact Ok.pure j
    · exact jh.ur _ [] W' s o n h (Or.inl rfl) j
  | endon o n =>
    rw [exec_endon]
    split
    · exact Ok.pure j
    · split
      · exact Ok.pure j
      · exact Ok.pure (j.congr rfl)
  | delete o =>
    rw [exec_delete]
    split
    · exact Ok.pure j
    · have P := presAll fuel
      refine ((ih.ur [] W' s o nameDelete h (Or.inl rfl)).and (jh.ur _ [] W' s o nameDelete h (Or.inl rfl) j)).bind ?_ (fun p1 => ?_)
      · exact Pres.trans (b := cancelWaitingAll fuel (unregisterAll fuel (unregister fuel (unregister fuel s o nameDelete) o nameRemove) o) o)
          (((P.ur _ o nameRemove).trans (P.ua _ o)).trans (P.cwa _ o)) (Pres.of_eq rfl rfl rfl)
      refine ((ih.ur [] W' _ o nameRemove p1.1.1 (Or.inl rfl)).and (jh.ur _ [] W' _ o nameRemove p1.1.1 (Or.inl rfl) p1.2)).bind ?_ (fun p2 => ?_)
      · exact Pres.trans (b := cancelWaitingAll fuel (unregisterAll fuel (unregister fuel (unregister fuel s o nameDelete) o nameRemove) o) o)
          ((P.ua _ o).trans (P.cwa _ o)) (Pres.of_eq rfl rfl rfl)
      have j3 := ((wqAll fuel).ua _ _ o p2.1.1.n).1 p2.2
      have n3 := (nAll fuel).ua _ o p2.1.1.n
      have j4 := ((wqAll fuel).cwa _ _ o n3).1 j3
      exact Ok.pure (j4.congr rfl)
  | thread l =>
    rw [exec_thread]
    split
    · exact Ok.pure j
    · obtain ⟨i1, g1, r1, hr1, hv1⟩ := spawnSame_inv h t th l ht
      have hrec : thFind (spawnSame s t th l).threads s.nextTid = some ({ label := l, inst := th.inst, params := bindLoop (s.progParams.getD l 0) 0 [], parent := t } : Th) :=
        thFind_spawned _ (fresh_none h.n)
      have j1 : W (s.nextTid :: t :: A) (spawnSame s t th l) := (j.spawn _ s.nextTid).congr rfl
      exact jh.sei _ W' _ s.nextTid _ (i1.consW _) hrec rfl (Or.inr rfl) j1
  | waitthread l =>
    rw [exec_waitthread]
    split
    · exact Ok.pure j
    · obtain ⟨i1, g1, r1, hr1, hv1, hd1⟩ := spawnNew_inv h t l ht
      have hrec : thFind (spawnNew s t l).threads s.nextTid = some ({ label := l, inst := s.nextInst, params := bindLoop (s.progParams.getD l 0) 0 [], parent := t } : Th) :=
        thFind_spawned _ (fresh_none h.n)
      have j1 : W (s.nextTid :: t :: A) (spawnNew s t l) := (j.spawn _ s.nextTid).congr rfl
      cases hc : s.cur with
      | none =>
        simp only
        exact jh.sei _ W' _ s.nextTid _ (i1.consW _) hrec rfl (Or.inr rfl) j1
      | some c =>
        have hct : c = t := by
          rcases hcur with e | e
          · rw [hc] at e; exact Option.some.inj e
          · rw [hc] at e; cases e
        subst hct
        simp only
        have hne : s.nextTid ≠ c := by have := (h.n.range c th0 r.find).2; omega
        have hkeep : thFind (spawnNew s c l).threads c = some th0 := by
          show thFind (s.threads ++ [_]) c = _
          rw [thFind_append, r.find]
        have r' : Running (spawnNew s c l) c th0 := ⟨hkeep, r.vm, r.hasVM⟩
        have halive : (spawnNew s c l).alive s.nextTid = true := by
          rw [State.alive_thread _ (by simp [State.isThread]; exact h.n.tid100)]
          exact (aliveTh_iff i1.n.nodup _).2 ⟨r1, hr1, hd1⟩
        have j2 := regWait_w fuel _ i1.n s.nextTid 0 c ht (Or.inr nameOK_zero) j1
        refine (regWait_inv (fuel := fuel) none s.nextTid 0 (i1.toTop c) (fun _ => ⟨th0, hkeep, r.vm, r.hasVM⟩)
          halive (Or.inr nameOK_zero) (Or.inr ⟨rfl, r'.noOwner i1⟩)).bind ((presAll fuel).sei _ _) (fun p => ?_)
        obtain ⟨p1, p2, _, _, p5, p6⟩ := p
        have hr2 : thFind (regWait (stop fuel) (spawnNew s c l) s.nextTid 0 c).threads s.nextTid = some ({ label := l, inst := s.nextInst, params := bindLoop (s.progParams.getD l 0) 0 [], parent := c } : Th) := by
          rw [p5 _ hne]; exact hrec
        exact jh.sei _ W' _ s.nextTid _ (p1.consW _) hr2 rfl (Or.inr rfl) j2
  | pause =>
    rw [exec_pause]
    exact Ok.pure (vmSuspend_w _ _ t (((wqAll fuel).stp _ s t h.n).1 j))
  | waitParent ms =>
    rw [exec_waitParent]
    split
    · exact Ok.pure j
    · exact Ok.pure (waitOnGuarded_w fuel _ h.n th.parent ms j)
  | waittillParent names =>
    rw [exec_waittillParent]
    split
    · exact Ok.pure j
    · cases hc : s.cur with
      | none => exact Ok.pure j
      | some c =>
        have hc100 : 100 ≤ c := h.n.cur c hc
        simp only
        exact Ok.pure (foldl_mem_inv (fun S => NInv S ∧ W (t :: A) S) (fun s n => regWait (stop fuel) s th.parent n c) names s
          (fun n hn S hS => ⟨regWait_ninv (nAll fuel).stp hS.1 th.parent n c hc100 (Or.inr (hok n hn)),
            regWait_w fuel _ hS.1 th.parent n c hc100 (Or.inr (hok n hn)) hS.2⟩) ⟨h.n, j⟩).2
  | notifyParent n =>
    rw [exec_notifyParent]
    split
    · exact Ok.pure j
    · exact jh.ur _ [] W' s _ n h (Or.inl rfl) j
  | end_ ev =>
    rw [exec_end]
    have n2 : NInv ((endResult s th ev).setTh t fun th => { th with call := none }) :=
      (endResult_ninv h.n th ev).setTh t _
    exact Ok.pure (((wqAll fuel).dt _ _ t n2).1 ((endResult_w _ s th ev j).setTh t (fun th => { th with call := none })))
  | spawn o =>
    rw [exec_spawn]
    split
    · exact Ok.pure j
    · exact Ok.pure (j.congr rfl)

/-! ### `Process`, `ScriptVM::Execute`, the timer loop, `ScriptExecuteInternal` -/

theorem process_w_succ {fuel : Nat} (hex : WEx (exec fuel)) (hpr : WPr (process fuel)) : WPr (process (fuel + 1)) := by
  intro A W' s t h hcur hvmhv j
  have I := iAll fuel
  rw [process_succ]
  cases hf : s.th? t with
  | none => exact Ok.pure j
  | some th =>
    rw [State.th?_eq] at hf
    simp only
    split
    · exact Ok.pure j
    · rename_i hv
      have hvm : th.vm = .running := by simpa using hv
      have hhv := hvmhv th hf hvm
      have hts : th.ts = .running := (h.th t th hf).f3 hvm
      have i0 : Inv [] W' none s :=
        h.dropTop (fun th1 h1 hw => by rw [hf] at h1; cases h1; rw [hts] at hw; cases hw)
      have i1 : Inv [] W' none (s.setTh t fun th => { th with pc := th.pc + 1 }) :=
        i0.setTh_plain t _ (fun _ => rfl) (fun _ => rfl) (fun _ => rfl)
          (fun th0 h0 => by have r := i0.th t th0 h0; exact ⟨r.f1, r.f2, r.f3, r.f5⟩) (fun _ => Or.inl rfl)
      have j1 : W (t :: A) (s.setTh t fun th => { th with pc := th.pc + 1 }) := j.setTh t _
      have hfind1 : thFind (s.setTh t fun th => { th with pc := th.pc + 1 }).threads t =
          some { th with pc := th.pc + 1 } := by
        rw [State.setTh_threads, thFind_map_upd]; simp [hf]
      have P := presAll fuel
      refine ((I.ex W' _ t _ th _ i1 hfind1 hvm hhv (h.n.parent t th hf) (h.n.prog.fetch _ _) hcur).and
        (hex A W' _ t _ th _ i1 hfind1 hvm hhv (h.n.parent t th hf) (h.n.prog.fetch _ _) hcur j1)).bind
        (P.pr _ _) (fun p => ?_)
      obtain ⟨p, pj⟩ := p
      have hcur1 : (exec fuel (s.setTh t fun th => { th with pc := th.pc + 1 }) t th
          ((s.prog.getD th.label []).getD th.pc (.end_ .none))).cur = some t ∨
          (exec fuel (s.setTh t fun th => { th with pc := th.pc + 1 }) t th
          ((s.prog.getD th.label []).getD th.pc (.end_ .none))).cur = none := by
        rcases p.2.cur with e | e
        · rw [e]; exact hcur
        · exact Or.inr e
      refine hpr A W' _ t p.1 hcur1 ?_ pj
      intro th' hth' hvm'
      rcases p.2.lost t _ hfind1 hhv with e | ⟨th2, e, e2⟩
      · rw [e] at hth'; cases hth'
      · rw [hth'] at e; cases e
        rcases e2 with e2 | e2
        · exact e2
        · have := ((p.1.th t th' hth').f2 e2).2
          rw [hvm'] at this; cases this

theorem thFind_vmEpilogue_ne (X : State) (t u : Nat) (h : u ≠ t) :
    thFind (vmEpilogue X t).threads u = thFind X.threads u := by
  cases hf : thFind X.threads t with
  | none => rw [vmEpilogue_none hf]
  | some th =>
    rw [vmEpilogue_some hf]
    split
    · rw [State.setTh_threads, thFind_map_upd]; simp [h]
    · simp only; rw [thFind_filter_ne]; simp [h]
    · rfl

theorem execVM_w_succ {fuel : Nat} (hpr : WPr (process fuel)) : WEv (execVM (fuel + 1)) := by
  intro A W' s t th h hth hhv hts hcur j
  have I := iAll fuel
  rw [execVM_succ]
  have r := h.th t th hth
  have hd : th.dead = false := by
    cases hdd : th.dead with
    | false => rfl
    | true => have := (r.f2 hdd).1; rw [hhv] at this; cases this
  have i0' : Inv [] W' none { (s.setTh t fun th => { th with vm := .running }) with timer := s.timer } :=
    h.setTh (C' := []) (W' := W') (top' := none) t (fun th => { th with vm := .running }) th s.timer hth
      (fun _ => rfl)
      ⟨fun hv => (by simp only at hv; rw [hhv] at hv; cases hv), fun hdd => (by simp only at hdd; rw [hd] at hdd; cases hdd),
        fun _ => hts, fun hv => (by cases hv)⟩
      (fun _ => rfl) (h.tim.setTh_same t _ (fun _ => rfl)) (fun x m _ => m) (fun x m _ => m) (Or.inl rfl)
      (fun ho => by
        rcases h.lnk.linkC t ho with m | ⟨th0, h0, hw0⟩
        · exact Or.inl m
        · rw [hth] at h0; cases h0; rw [hts] at hw0; cases hw0)
      (fun hw0 => by simp only at hw0; rw [hts] at hw0; cases hw0)
      (fun hw0 => by simp only at hw0; rw [hts] at hw0; cases hw0)
  have i0 : Inv [] W' none (vmPrologue s t) := i0'.congr rfl rfl rfl rfl rfl rfl rfl rfl rfl
  have j0 : W (t :: A) (vmPrologue s t) :=
    (j.setTh_active t (fun th => { th with vm := .running }) List.mem_cons_self).congr rfl
  have hthr0 : (vmPrologue s t).threads = s.threads.map (thUpd t fun th => { th with vm := .running }) := rfl
  have hfind0 : thFind (vmPrologue s t).threads t = some { th with vm := .running } := by
    rw [hthr0, thFind_map_upd]; simp [hth]
  have hpre : ∀ th', thFind (vmPrologue s t).threads t = some th' → th'.vm = .running → th'.hasVM = true :=
    fun th' h' _ => by rw [hfind0] at h'; cases h'; exact hhv
  refine ((I.pr W' _ t (i0.toTop t) hcur hpre).and (hpr A W' _ t (i0.toTop t) hcur hpre j0)).bind
    ((Pres.of_eq rfl rfl rfl : Pres (process fuel (vmPrologue s t) t)
      { (process fuel (vmPrologue s t) t) with depth := (process fuel (vmPrologue s t) t).depth - 1 }).trans
      (vmEpilogue_pres _ _)) (fun p => ?_)
  obtain ⟨⟨p1, p2, p3⟩, pw⟩ := p
  apply Ok.pure
  -- the state before the epilogue
  have pw' : W (t :: A) ({ (process fuel (vmPrologue s t) t) with depth := (process fuel (vmPrologue s t) t).depth - 1 } : State) :=
    pw.congr rfl
  intro u thu hu
  by_cases hut : u = t
  · subst hut
    left
    cases hP : thFind (process fuel (vmPrologue s u) u).threads u with
    | none =>
      have hP' : thFind ({ (process fuel (vmPrologue s u) u) with depth := (process fuel (vmPrologue s u) u).depth - 1 } : State).threads u = none := hP
      rw [vmEpilogue_none hP'] at hu
      rw [hP'] at hu; cases hu
    | some th1 =>
      have hP' : thFind ({ (process fuel (vmPrologue s u) u) with depth := (process fuel (vmPrologue s u) u).depth - 1 } : State).threads u = some th1 := hP
      have hnr : th1.vm ≠ .running := p3 th1 hP
      have r1 := p1.th u th1 hP
      have hv1 : th1.vm ≠ .destroyed → th1.hasVM = true := by
        intro hnd
        rcases p2.lost u _ hfind0 hhv with e | ⟨th2, e, e2⟩
        · rw [hP] at e; cases e
        · rw [hP] at e; cases e
          rcases e2 with e2 | e2
          · exact e2
          · exact absurd (r1.f2 e2).2 hnd
      rw [vmEpilogue_some hP'] at hu
      cases hv : th1.vm with
      | running => exact absurd hv hnr
      | suspended =>
        rw [hv] at hu
        simp only at hu
        rw [State.setTh_threads, thFind_map_upd] at hu
        simp [hP'] at hu
        subst hu
        exact ⟨hv1 (by rw [hv]; simp), rfl⟩
      | idling =>
        rw [hv] at hu
        simp only at hu
        rw [hP'] at hu; cases hu
        exact ⟨hv1 (by rw [hv]; simp), hv⟩
      | destroyed =>
        rw [hv] at hu
        simp only at hu
        rw [thFind_filter_ne] at hu
        simp at hu
  · rw [thFind_vmEpilogue_ne _ t u hut] at hu
    rcases pw' u thu hu with c | m
    · exact Or.inl c
    · rcases List.mem_cons.1 m with m | m
      · exact absurd m hut
      · exact Or.inr m

theorem drain_w_succ {fuel : Nat} (hev : WEv (execVM fuel)) (hdr : WEr (drain fuel)) : WEr (drain (fuel + 1)) := by
  intro A W' s h j
  have I := iAll fuel
  rw [drain_succ]
  cases hn : s.timer.next with
  | mk r tm =>
    cases r with
    | none => exact Ok.pure (j.congr rfl)
    | some ed =>
      obtain ⟨t, d⟩ := ed
      dsimp only
      obtain ⟨i, hi, _, _, htm⟩ := Timer.next_some hn
      have hmem : (t, d) ∈ s.timer.elems := List.mem_of_getElem? hi
      obtain ⟨th, hth, hts⟩ := h.tim.t1 (t, d) hmem
      have ht100 : 100 ≤ t := (h.n.range t th hth).1
      have rr := h.th t th hth
      have hhv : th.hasVM = true := by
        cases hv : th.hasVM with
        | true => rfl
        | false => have := rr.f1 hv; rw [hts] at this; cases this
      have i0 : Inv [] W' none ({ s with cur := some t } : State) :=
        h.setCur (some t) (fun x hx => by simp at hx; omega)
      have i1 : Inv [] W' none { (({ s with cur := some t } : State).setTh t fun th => { th with ts := .running }) with timer := tm } :=
        i0.setTh (C' := []) (W' := W') (top' := none) t (fun th => { th with ts := .running }) th tm hth
          (fun _ => rfl) (recOK_running rr) (fun _ => rfl)
          (h.tim.erase i t d hi _ (fun _ => by simp) tm (by rw [htm]))
          (fun x m _ => m) (fun x m _ => m) (Or.inl rfl)
          (fun ho => by
            rcases h.lnk.linkC t ho with m | ⟨th0, h0, hw0⟩
            · exact Or.inl m
            · rw [hth] at h0; cases h0; rw [hts] at hw0; cases hw0)
          (fun hw0 => by cases hw0) (fun hw0 => by cases hw0)
      have i1' : Inv [] W' none (({ s with timer := tm, cur := some t } : State).setTh t fun th => { th with ts := .running }) :=
        i1.congr rfl rfl rfl rfl rfl rfl rfl rfl rfl
      have j1' : W (t :: A) (({ s with timer := tm, cur := some t } : State).setTh t fun th => { th with ts := .running }) :=
        ((j.congr (s' := ({ s with timer := tm, cur := some t } : State)) rfl).setTh t _).mono
          (fun x m => List.mem_cons_of_mem _ m)
      have hfind1 : thFind (({ s with timer := tm, cur := some t } : State).setTh t fun th => { th with ts := .running }).threads t =
          some { th with ts := .running } := by
        rw [State.setTh_threads, thFind_map_upd]; simp [hth]
      have P := presAll fuel
      refine ((I.ev W' _ t _ i1' hfind1 hhv rfl (Or.inl rfl)).and
        (hev A W' _ t _ i1' hfind1 hhv rfl (Or.inl rfl) j1')).bind (P.dr _) (fun p => ?_)
      exact hdr A W' _ p.1.1 p.2

theorem executeRunning_w_succ {fuel : Nat} (hdr : WEr (drain fuel)) : WEr (executeRunning (fuel + 1)) := by
  intro A W' s h j
  rw [executeRunning_succ]
  split
  · exact Ok.pure j
  · split
    · exact Ok.pure j
    · exact hdr A W' s h j

theorem scriptExecuteInternal_w_succ {fuel : Nat} (hev : WEv (execVM fuel)) (her : WEr (executeRunning fuel)) :
    WSei (scriptExecuteInternal (fuel + 1)) := by
  intro A W' s t th h hth hhv hpre j
  have I := iAll fuel
  rw [scriptExecuteInternal_succ]
  have ht100 : 100 ≤ t := (h.n.range t th hth).1
  have P := presAll fuel
  have i0 : Inv [] (t :: W') none ({ s with cur := some t } : State) :=
    h.setCur (some t) (fun x hx => by simp at hx; omega)
  have j0 : W (t :: A) ({ s with cur := some t } : State) := j.congr rfl
  have q1 := (qAll fuel).stp [] ({ s with cur := some t } : State) t i0.n
  refine (I.stp [] W' _ t i0).bind ?_ (fun p1 => ?_)
  · exact ((execIfAlive_pres P.ev _ _).trans (restoreCur_pres _ _)).trans (P.er _)
  obtain ⟨i1, hrun⟩ := p1
  -- after `Stop()`: `t` is exempt only if it is executed next
  have hexec : Ok (execIfAlive (execVM fuel) (stop fuel { s with cur := some t } t) t)
      ((Inv [] W' none (execIfAlive (execVM fuel) (stop fuel { s with cur := some t } t) t) ∧
        G0 (stop fuel { s with cur := some t } t) (execIfAlive (execVM fuel) (stop fuel { s with cur := some t } t) t)) ∧
        W A (execIfAlive (execVM fuel) (stop fuel { s with cur := some t } t) t)) := by
    unfold execIfAlive
    split
    · rename_i hal
      rw [State.alive_thread _ (by simpa [State.isThread] using ht100)] at hal
      obtain ⟨th1, hth1, hd1⟩ := (aliveTh_iff i1.n.nodup t).1 hal
      have hvm1 : th1.hasVM = true := by
        rcases q1.lost t th hth hhv with e | ⟨th', e, e2⟩
        · rw [e] at hth1; cases hth1
        · rw [hth1] at e; cases e
          rcases e2 with e2 | e2 | e2
          · exact e2
          · rw [hd1] at e2; cases e2
          · cases e2
      have hcur1 : (stop fuel { s with cur := some t } t).cur = some t := by rw [q1.cur]
      have j1 : W (t :: A) (stop fuel { s with cur := some t } t) := ((wqAll fuel).stp _ _ t i0.n).1 j0
      exact ((I.ev W' _ t th1 i1 hth1 hvm1 (hrun th1 hth1) (Or.inl hcur1)).map (fun p => ⟨p.1, p.2.g0⟩)).and
        (hev A W' _ t th1 i1 hth1 hvm1 (hrun th1 hth1) (Or.inl hcur1) j1)
    · rename_i hal
      -- not executed: `t` was idle (then `Stop()` kept it complete idle or removed it) — a running thread's
      -- `Stop()` does nothing, so it would still be alive
      refine Ok.pure ⟨⟨i1, G0.of_eq rfl rfl rfl⟩, ?_⟩
      rcases hpre with hidle | hrunning
      · have j0' : W A ({ s with cur := some t } : State) := by
          intro u thu hu
          by_cases hut : u = t
          · subst hut
            have hu' : thFind s.threads u = some thu := hu
            rw [hth] at hu'; cases hu'
            exact Or.inl ⟨hhv, hidle⟩
          · rcases j0 u thu hu with c | m
            · exact Or.inl c
            · rcases List.mem_cons.1 m with m | m
              · exact absurd m hut
              · exact Or.inr m
        exact ((wqAll fuel).stp _ _ t i0.n).1 j0'
      · exfalso
        rcases stop_running fuel ({ s with cur := some t } : State) t th hth hrunning with e | e
        · rw [e] at hal
          apply hal
          rw [State.alive_thread _ (by simpa [State.isThread] using ht100)]
          have hd : th.dead = false := by
            cases hdd : th.dead with
            | false => rfl
            | true => have := ((h.th t th hth).f2 hdd).1; rw [hhv] at this; cases this
          exact (aliveTh_iff h.n.nodup t).2 ⟨th, hth, hd⟩
        · rw [e] at hal
          apply hal
          rw [State.alive_thread _ (by simpa [State.isThread] using ht100)]
          have hd : th.dead = false := by
            cases hdd : th.dead with
            | false => rfl
            | true => have := ((h.th t th hth).f2 hdd).1; rw [hhv] at this; cases this
          exact (aliveTh_iff h.n.nodup t).2 ⟨th, hth, hd⟩
  refine hexec.bind ((restoreCur_pres _ _).trans (P.er _)) (fun p2 => ?_)
  obtain ⟨⟨i2, g2⟩, j2⟩ := p2
  have i3 : Inv [] W' none (restoreCur (execIfAlive (execVM fuel) (stop fuel { s with cur := some t } t) t) s.cur) := by
    unfold restoreCur
    apply i2.setCur
    intro x hx
    cases hc : s.cur with
    | none => rw [hc] at hx; simp at hx
    | some c0 =>
      rw [hc] at hx
      simp only [Option.bind_some] at hx
      split at hx
      · simp at hx; subst hx; exact h.n.cur _ hc
      · simp at hx
  have j3 : W A (restoreCur (execIfAlive (execVM fuel) (stop fuel { s with cur := some t } t) t) s.cur) := by
    unfold restoreCur
    exact j2.congr rfl
  exact her A W' _ i3 j3

/-! ### the induction -/

structure WAll (fuel : Nat) : Prop where
  swf : WSwf (stoppedWaitFor fuel)
  ur : WUr (unregister fuel)
  sei : WSei (scriptExecuteInternal fuel)
  er : WEr (executeRunning fuel)
  dr : WEr (drain fuel)
  ev : WEv (execVM fuel)
  pr : WPr (process fuel)
  ex : WEx (exec fuel)

theorem wAll_zero : WAll 0 where
  swf := fun A C W' s t n d _ _ _ => by rw [stoppedWaitFor_zero]; exact Or.inl rfl
  ur := fun A C W' s t n _ _ _ => by rw [unregister_zero]; exact Or.inl rfl
  sei := fun A W' s t th _ _ _ _ _ => by rw [scriptExecuteInternal_zero]; exact Or.inl rfl
  er := fun A W' s _ _ => by rw [executeRunning_zero]; exact Or.inl rfl
  dr := fun A W' s _ _ => by rw [drain_zero]; exact Or.inl rfl
  ev := fun A W' s t th _ _ _ _ _ _ => by rw [execVM_zero]; exact Or.inl rfl
  pr := fun A W' s t _ _ _ _ => by rw [process_zero]; exact Or.inl rfl
  ex := fun A W' s t th0 th ins _ _ _ _ _ _ _ _ => by rw [exec_zero]; exact Or.inl rfl

theorem wAll_succ {fuel : Nat} (ih : WAll fuel) : WAll (fuel + 1) where
  swf := stoppedWaitFor_w_succ ih.sei
  ur := unregister_w_succ ih.swf
  sei := scriptExecuteInternal_w_succ ih.ev ih.er
  er := executeRunning_w_succ ih.dr
  dr := drain_w_succ ih.ev ih.dr
  ev := execVM_w_succ ih.pr
  pr := process_w_succ ih.ex ih.pr
  ex := exec_w_succ ⟨ih.ur, ih.sei⟩

/-- **Every record outside the active set stays a complete idle thread, through the executing half.** -/
theorem wAll : ∀ fuel, WAll fuel
  | 0 => wAll_zero
  | fuel + 1 => wAll_succ (wAll fuel)

end Morfuse.Sched
