import MorfuseModel.Sched.MachineIdleQuiet
import MorfuseModel.Sched.MachineInstAll
/-!
# Complete idle threads through the executing half of the machine

Third pass, same skeleton as `MachineInstAll`: `W A s` (every record outside the active set `A` is a complete
idle thread).  `ScriptVM::Execute` of `t` is entered with `t` active and left with `t` complete idle or gone;
a created thread is active until its first `Execute` returns.  At the host level the active set is empty.
-/
namespace Morfuse.Sched
open State

def WR (A : List Nat) (s s' : State) : Prop := W A s → W A s'
theorem WR.trans {A : List Nat} {a b c : State} (h1 : WR A a b) (h2 : WR A b c) : WR A a c := fun h => h2 (h1 h)
theorem WR.frame {A : List Nat} {s s' : State} (e1 : s'.threads = s.threads) : WR A s s' :=
  fun h t th hf => h t th (by rw [← e1]; exact hf)

theorem W.congr {A : List Nat} {s s' : State} (h : W A s) (e1 : s'.threads = s.threads) : W A s' :=
  fun t th hf => h t th (by rw [← e1]; exact hf)

/-- statements -/
def WUr (f : State → Nat → Nat → State) : Prop :=
  ∀ A C W' s src name, Inv C W' none s → (C = [] ∨ name = 0 ∨ 100 ≤ src) → W A s → Ok (f s src name) (W A (f s src name))

def WSwf (f : State → Nat → Nat → Bool → State) : Prop :=
  ∀ A C W' s t name d, Inv C (t :: W') none s →
    (name ≠ 0 → d = false → C = [] ∧ ∀ th, thFind s.threads t = some th → th.ts = .waiting → th.vm = .idling) →
    W A s → Ok (f s t name d) (W A (f s t name d))

def WSei (f : State → Nat → State) : Prop :=
  ∀ A W' s t th, Inv [] (t :: W') none s → thFind s.threads t = some th → th.hasVM = true →
    (th.vm = .idling ∨ th.ts = .running) → W (t :: A) s → Ok (f s t) (W A (f s t))

def WEr (f : State → State) : Prop := ∀ A W' s, Inv [] W' none s → W A s → Ok (f s) (W A (f s))

def WEv (f : State → Nat → State) : Prop :=
  ∀ A W' s t th, Inv [] W' none s → thFind s.threads t = some th → th.hasVM = true → th.ts = .running →
    (s.cur = some t ∨ s.cur = none) → W (t :: A) s → Ok (f s t) (W A (f s t))

def WPr (f : State → Nat → State) : Prop :=
  ∀ A W' s t, Inv [] W' (some t) s → (s.cur = some t ∨ s.cur = none) →
    (∀ th, thFind s.threads t = some th → th.vm = .running → th.hasVM = true) → W (t :: A) s →
    Ok (f s t) (W (t :: A) (f s t))

def WEx (f : State → Nat → Th → Instr → State) : Prop :=
  ∀ A W' s t th0 th ins, Inv [] W' none s → thFind s.threads t = some th0 → th0.vm = .running →
    th0.hasVM = true → (th.parent = 0 ∨ 100 ≤ th.parent) → Instr.ok ins → (s.cur = some t ∨ s.cur = none) →
    W (t :: A) s → Ok (f s t th ins) (W (t :: A) (f s t th ins))

/-! ### small steps -/

/-- an update of a record that keeps `hasVM` and the VM state -/
theorem W.setTh {A : List Nat} {s : State} (h : W A s) (t : Nat) (f : Th → Th)
    (hhv : ∀ x, (f x).hasVM = x.hasVM := by intros; rfl) (hvm : ∀ x, (f x).vm = x.vm := by intros; rfl) :
    W A (s.setTh t f) := by
  intro u th' hu
  rw [State.setTh_threads, thFind_map_upd] at hu
  split at hu
  · rename_i hut; subst hut
    cases hf : thFind s.threads u with
    | none => rw [hf] at hu; simp at hu
    | some th => rw [hf] at hu; simp at hu; subst hu; rw [hhv, hvm]; exact h u th hf
  · exact h u th' hu

/-- any update of the record of an active thread -/
theorem W.setTh_active {A : List Nat} {s : State} (h : W A s) (t : Nat) (f : Th → Th) (ht : t ∈ A) :
    W A (s.setTh t f) := by
  intro u th' hu
  by_cases hut : u = t
  · right; rw [hut]; exact ht
  · rw [State.setTh_threads, thFind_map_upd] at hu
    simp [hut] at hu
    exact h u th' hu

theorem vmSuspend_w (A : List Nat) (s : State) (p : Nat) : WR A s (vmSuspend s p) := by
  intro h u th' hu
  unfold vmSuspend at hu
  rw [State.setTh_threads, thFind_map_upd] at hu
  split at hu
  · rename_i hut; subst hut
    cases hf : thFind s.threads u with
    | none => rw [hf] at hu; simp at hu
    | some th =>
      rw [hf] at hu; simp at hu; subst hu
      rcases h u th hf with ⟨c1, c2⟩ | m
      · left
        rw [if_neg (by rw [c2]; simp)]
        exact ⟨c1, c2⟩
      · exact Or.inr m
  · exact h u th' hu

theorem regWait_w (fuel : Nat) (A : List Nat) {s : State} (h : NInv s) (o n c : Nat) (hc : 100 ≤ c)
    (ho : o < 100 ∨ n = 0) : WR A s (regWait (stop fuel) s o n c) := by
  unfold regWait
  simp only
  have h1 := pushNotify_ninv h o n c hc ho
  intro hw
  have w1 : W A ({ s with notify := Tbl.push s.notify (o, n) c } : State) := hw.congr rfl
  split
  · exact ((vmSuspend_w A _ c) (((wqAll fuel).stp A _ c h1).1 w1 |>.setTh c (fun th => { th with ts := .waiting }))).congr rfl
  · exact w1.congr rfl

theorem waitOn_w (fuel : Nat) (A : List Nat) {s : State} (h : NInv s) (p ms : Nat) :
    WR A s (waitOn (stop fuel) s p ms) := by
  unfold waitOn
  intro hw
  have a1 := ((wqAll fuel).stp A s p h).1 hw
  have a2 := a1.setTh p (fun th => { th with ts := .timing })
  have a3 : W A (addTiming ((stop fuel s p).setTh p fun th => { th with ts := .timing }) p ms) := a2.congr rfl
  exact vmSuspend_w A _ p a3

theorem waitOnGuarded_w (fuel : Nat) (A : List Nat) {s : State} (h : NInv s) (p ms : Nat) :
    WR A s (waitOnGuarded (stop fuel) s p ms) := by
  unfold waitOnGuarded
  split
  · exact ((wqAll fuel).stp A s p h).1
  · exact waitOn_w fuel A h p ms

theorem endResult_w (A : List Nat) (s : State) (th : Th) (ev : EndV) : WR A s (endResult s th ev) := by
  unfold endResult
  simp only
  split
  · exact id
  · split <;> first | exact WR.frame rfl | exact id

/-- a created thread is active -/
theorem W.spawn {A : List Nat} {s : State} (h : W A s) (r : Th) (t' : Nat) :
    W (t' :: A) ({ s with threads := s.threads ++ [(t', r)] } : State) := by
  intro u th hu
  simp only at hu
  rw [thFind_append] at hu
  cases hf : thFind s.threads u with
  | some x =>
    rw [hf] at hu; simp at hu; subst hu
    exact (h u x hf).elim Or.inl (fun m => Or.inr (List.mem_cons_of_mem _ m))
  | none =>
    rw [hf] at hu
    simp only at hu
    split at hu
    · rename_i hut; right; rw [hut]; exact List.mem_cons_self
    · cases hu

/-! ### the wake loop and `Unregister(name)` -/

theorem wakeFold_w {swf : State → Nat → Nat → Bool → State} (hp : Pres3 swf) (hswf : ISwf swf) (hj : WSwf swf)
    (A C W' : List Nat) (name : Nat) :
    ∀ (L : List Nat) (s : State), Inv C (L ++ W') none s → (name ≠ 0 → C = [] ∧ ∀ l ∈ L, IdleP s l) → W A s →
      Ok (L.foldl (fun s l => if s.alive l then swf s l name false else s) s)
        (W A (L.foldl (fun s l => if s.alive l then swf s l name false else s) s))
  | [], _, _, _, j => Ok.pure j
  | l :: L, s, h, hside, j => by
    simp only [List.foldl_cons]
    have hrest : ∀ s1 : State, Pres s1 (L.foldl (fun s l => if s.alive l then swf s l name false else s) s1) :=
      fun s1 => Pres.foldl _ (fun s a => by split; exact hp _ _ _ _; exact Pres.refl s) L s1
    by_cases ha : s.alive l = true
    · simp only [ha, if_true]
      have hpre : name ≠ 0 → false = false → C = [] ∧ ∀ th, thFind s.threads l = some th → th.ts = .waiting → th.vm = .idling := by
        intro hn _
        obtain ⟨hC, hI⟩ := hside hn
        refine ⟨hC, ?_⟩
        intro th hth hw
        rcases (hI l List.mem_cons_self).2 th hth with e | e
        · exact e
        · have r := h.th l th hth
          have := r.f1 (r.f5 e); rw [hw] at this; cases this
      refine ((hswf C (L ++ W') s l name false h hpre).and (hj A C (L ++ W') s l name false h hpre j)).bind (hrest _)
        (fun p => ?_)
      refine wakeFold_w hp hswf hj A C W' name L _ p.1.1 (fun hn => ?_) p.2
      obtain ⟨hC, hI⟩ := hside hn
      exact ⟨hC, fun l' hl' => (hI l' (List.mem_cons_of_mem _ hl')).of_g p.1.2⟩
    · simp only [ha]
      exact wakeFold_w hp hswf hj A C W' name L s (h.dropW_not_alive ha)
        (fun hn => ⟨(hside hn).1, fun l' hl' => (hside hn).2 l' (List.mem_cons_of_mem _ hl')⟩) j

theorem unregNotify_w {fuel : Nat} (hswf : ISwf (stoppedWaitFor fuel)) (hsn : ISn (stoppedNotify fuel))
    (hj : WSwf (stoppedWaitFor fuel)) {A C W' : List Nat} {s : State} (h : Inv C W' none s) (src name : Nat)
    (hside : C = [] ∨ name = 0 ∨ 100 ≤ src) (j : W A s) :
    Ok (unregNotify (stoppedWaitFor fuel) (stoppedNotify fuel) s src name)
      (W A (unregNotify (stoppedWaitFor fuel) (stoppedNotify fuel) s src name)) := by
  unfold unregNotify
  split
  · exact Ok.pure j
  · cases hf : Tbl.find s.notify (src, name) with
    | none => exact Ok.pure j
    | some list =>
      simp only [unregisterTargets_eq_purge, wakeLoop]
      obtain ⟨h1, hidle1⟩ := unregNotify_mid h src name list hf hside
      have j1 : W A ({ ({ s with waitFor := (Tbl.purge s.alive s.waitFor src name list []).1 } : State) with
            notify := Tbl.removeKey s.notify (src, name) }) := j.congr rfl
      have P := presAll fuel
      split
      · refine (hsn C _ _ src h1).bind ?_ (fun p2 => ?_)
        · exact Pres.foldl _ (fun s a => by split; exact P.swf _ _ _ _; exact Pres.refl s) _ _
        have g2 : G _ (stoppedNotify fuel _ src) := ((qAll fuel).sn [] _ src h1.n).toG
        exact wakeFold_w P.swf hswf hj A C W' name _ _ p2
          (fun hn => ⟨(hidle1 hn).1, fun l hl => ((hidle1 hn).2 l hl).of_g g2⟩) (((wqAll fuel).sn A _ src h1.n).1 j1)
      · exact wakeFold_w P.swf hswf hj A C W' name _ _ h1 hidle1 j1

theorem unregister_w_succ {fuel : Nat} (hj : WSwf (stoppedWaitFor fuel)) : WUr (unregister (fuel + 1)) := by
  intro A C W' s src name h hside j
  have I := iAll fuel
  rw [unregister_succ]
  have P := presAll fuel
  have j1 := (unregEndOn_wz (nAll fuel).dt (wqAll fuel).dt A h.n src name).1 j
  split
  · exact Ok.pure j1
  · refine (unregEndOn_inv P.dt I.dt h src name).bind (unregNotify_pres P.swf P.sn _ _ _) (fun p => ?_)
    exact unregNotify_w I.swf I.sn hj p src name hside j1

theorem stoppedWaitFor_w_succ {fuel : Nat} (hsei : WSei (scriptExecuteInternal fuel)) :
    WSwf (stoppedWaitFor (fuel + 1)) := by
  intro A C W' s t name d h hside j
  rw [stoppedWaitFor_succ]
  split
  · exact Ok.pure j
  · cases hf : s.th? t with
    | none => exact Ok.pure j
    | some th =>
      rw [State.th?_eq] at hf
      simp only
      split
      · exact Ok.pure j
      · rename_i hv
        have hvm : th.hasVM = true := by simpa using hv
        split
        · exact Ok.pure (((wqAll fuel).dt A s t h.n).1 j)
        · rename_i hd
          have hd' : d = false := by simpa using hd
          split
          · rename_i hw
            have hw' : th.ts = .waiting := by simpa using hw
            split
            · rename_i hname
              have hname' : name ≠ 0 := by simpa using hname
              obtain ⟨hC, hidle⟩ := hside hname' hd'
              subst hC
              have hvi := hidle th hf hw'
              simp only [hvi, beq_self_eq_true, if_true]
              have i1 : Inv [] (t :: W') none (cancelEvents s t) := cancelEvents_inv h t
              exact hsei A W' _ t th i1 hf hvm (Or.inl hvi)
                ((j.congr (s' := cancelEvents s t) rfl).mono (fun x m => List.mem_cons_of_mem _ m))
            · exact Ok.pure ((((cancelEvents_wz A s t).trans
                (startTiming_wz (wqAll fuel).stp A (cancelEvents_ninv h.n t) t)).1) j)
          · exact Ok.pure ((cancelEvents_wz A s t).1 j)

end Morfuse.Sched
