import MorfuseModel.Sched.MachineIdleAll
import MorfuseModel.Sched.MachineInstReset
/-!
# Between host operations every thread record is a complete idle thread

`reachable_hinv3`: in every reachable state (modulo fuel) `HInv2` holds and `W []`: every record has its VM
and the VM is idle.  Consequence: `Reset()` / recompile leave no record at all, and no queued event.
-/
namespace Morfuse.Sched
open State

theorem killStep_w {A : List Nat} {s : State} (h : NInv s) (w : W A s) (t : Nat) : W A (killStep s t) :=
  ((wqAll defaultFuel).dt A _ t (h.setTh t _)).1 (w.setTh t (fun th => { th with attached := false }))

theorem killFold_w {A : List Nat} : ∀ (L : List Nat) (S : State), NInv S → W A S → W A (L.foldl killStep S)
  | [], _, _, w => w
  | t :: L, S, hn, w => killFold_w L _ (killStep_ninv hn t) (killStep_w hn w t)

theorem killInst_w {A : List Nat} {s : State} (hn : NInv s) (w : W A s) (i : Nat) : W A (killInst s i) := by
  unfold killInst
  split
  · exact w
  · exact killFold_w _ _ (hn.congr rfl rfl rfl rfl rfl rfl rfl rfl rfl) (w.congr rfl)

theorem killAllInsts_w {s : State} (hn : NInv s) (j : J [] s) (w : W [] s) : W [] (killAllInsts s) := by
  unfold killAllInsts
  generalize s.insts.map (·.1) = ids
  induction ids generalizing s with
  | nil => exact w
  | cons i ids ih =>
    simp only [List.foldl_cons]
    obtain ⟨n1, j1⟩ := killInst_j hn j i
    exact ih n1 j1 (killInst_w hn w i)

theorem W.mapAll {A : List Nat} {s : State} (h : W A s) (g : Th → Th) (hhv : ∀ x, (g x).hasVM = x.hasVM)
    (hvm : ∀ x, (g x).vm = x.vm) : W A { s with threads := s.threads.map (fun e => (e.1, g e.2)) } := by
  intro u th' hu
  simp only at hu
  rw [thFind_mapAll] at hu
  cases hf : thFind s.threads u with
  | none => rw [hf] at hu; cases hu
  | some th =>
    rw [hf] at hu; simp at hu; subst hu
    rw [hhv, hvm]; exact h u th hf

theorem hostCall_w {s : State} (h : Inv [] [] none s) (w : W [] s) (label : Nat) (args : List V) :
    Ok (hostCall s label args).1 (W [] (hostCall s label args).1) := by
  rw [hostCall_eq]
  split
  · exact Ok.pure w
  · have i0 : Inv [] [] none (callSetup s label args) :=
      (h.spawn ({ label := label, inst := s.nextInst, call := some s.nextCall, params := bindLoop (s.progParams.getD label 0) 0 args } : Th) (Or.inl rfl) rfl rfl rfl rfl).congr
        rfl rfl rfl rfl rfl rfl rfl rfl rfl
    have w0 : W [s.nextTid] (callSetup s label args) := (w.spawn _ s.nextTid).congr rfl
    have hf : thFind (callSetup s label args).threads s.nextTid = some ({ label := label, inst := s.nextInst, call := some s.nextCall, params := bindLoop (s.progParams.getD label 0) 0 args } : Th) :=
      thFind_spawned _ (fresh_none h.n)
    refine ((wAll defaultFuel).sei [] [] _ s.nextTid _ (i0.consW _) hf rfl (Or.inr rfl) w0).bind' (callFinish_hr _ _).oof (fun p => ?_)
    unfold callFinish
    split
    · exact Ok.pure (p.congr rfl)
    · exact Ok.pure p

theorem deliver_w {s : State} (h : Inv [] [] none s) (w : W [] s) (t : Nat) : W [] (deliver s t) := by
  unfold deliver
  split
  · exact ((wqAll defaultFuel).cwa [] s t h.n).1 w
  · exact w

theorem processEvents_w : ∀ (fuel : Nat) (s : State), Inv [] [] none s → W [] s →
    Ok (processEvents fuel s) (W [] (processEvents fuel s))
  | 0, s, _, _ => Or.inl rfl
  | fuel + 1, s, h, w => by
    rw [processEvents_succ]
    split
    · exact Ok.pure w
    · split
      · exact Ok.pure w
      · rename_i t due rest _ _
        have i0 : Inv [] [] none ({ s with events := rest } : State) := h.congr rfl rfl rfl rfl rfl rfl rfl rfl rfl
        have w0 : W [] ({ s with events := rest } : State) := w.congr rfl
        exact (deliver_inv i0 t).bind' (processEvents_hr fuel _).oof
          (fun i1 => processEvents_w fuel _ i1 (deliver_w i0 w0 t))

structure HInv3 (s : State) : Prop where
  h2 : HInv2 s
  w : W [] s

theorem hinv3_init : HInv3 ({} : State) := ⟨hinv2_init, fun t th hf => by simp [thFind] at hf⟩

theorem HostOp.apply_hinv3 {s : State} (h : HInv3 s) (op : HostOp) (hok : op.ok) :
    Ok (op.apply s) (HInv3 (op.apply s)) := by
  have hb := HostOp.apply_hinv2 h.h2 op hok
  refine (hb.and ?_).map (fun p => ⟨p.1, p.2⟩)
  have hi := h.h2.h.inv
  cases op with
  | reset => exact Ok.pure hinv3_init.w
  | script p ps =>
    show Ok (hostScript s p ps) (W [] (hostScript s p ps))
    unfold hostScript
    split
    · exact Ok.pure (h.w.congr rfl)
    · exact Ok.pure ((killAllInsts_w hi.n h.h2.j h.w).congr rfl)
  | call l args => exact hostCall_w hi h.w l args
  | callv l =>
    show Ok (hostCallV s l) (W [] (hostCallV s l))
    unfold hostCallV
    exact (hostCall_w hi h.w l []).bind' id (fun p => Ok.pure (p.mapAll
      (fun x => if x.call == some s.nextCall then { x with call := none } else x) (fun x => by split <;> rfl)
      (fun x => by split <;> rfl)))
  | advance k => exact Ok.pure (h.w.congr rfl)
  | resetDirector => exact Ok.pure ((killAllInsts_w hi.n h.h2.j h.w).congr rfl)
  | execute =>
    show Ok (hostExecute s) (W [] (hostExecute s))
    rw [hostExecute_eq]
    have h0 := frameSetTime_hinv h.h2.h
    have w0 : W [] (frameSetTime s) := h.w.congr rfl
    have r1 := processEvents_hr defaultFuel (frameSetTime s)
    have r2 := (hrAll defaultFuel).er (processEvents defaultFuel (frameSetTime s))
    refine ((h0.step r1 (processEvents_inv _ _ h0.inv)).and (processEvents_w _ _ h0.inv w0)).bind' r2.oof (fun p => ?_)
    exact (wAll defaultFuel).er [] [] _ p.1.inv p.2
  | step k =>
    show Ok (hostExecute { s with clock := s.clock + k }) (W [] (hostExecute { s with clock := s.clock + k }))
    rw [hostExecute_eq]
    have hs : HInv ({ s with clock := s.clock + k } : State) :=
      ⟨hi.congr rfl rfl rfl rfl rfl rfl rfl rfl rfl, h.h2.h.cur, h.h2.h.depth, h.h2.h.td,
        Nat.le_trans h.h2.h.ck1 (Nat.le_add_right _ _), h.h2.h.ck2⟩
    have h0 := frameSetTime_hinv hs
    have w0 : W [] (frameSetTime { s with clock := s.clock + k }) := h.w.congr rfl
    have r1 := processEvents_hr defaultFuel (frameSetTime { s with clock := s.clock + k })
    have r2 := (hrAll defaultFuel).er (processEvents defaultFuel (frameSetTime { s with clock := s.clock + k }))
    refine ((h0.step r1 (processEvents_inv _ _ h0.inv)).and (processEvents_w _ _ h0.inv w0)).bind' r2.oof (fun p => ?_)
    exact (wAll defaultFuel).er [] [] _ p.1.inv p.2
  | takeOut => exact Ok.pure (h.w.congr rfl)

/-- **Every reachable state (without `save`/`load`) has run out of fuel or satisfies all host-level
    invariants: `Inv`, clocks, instance list, and every record is a complete idle thread.** -/
theorem reachable_hinv3 {s : State} (h : Reachable s) : Ok s (HInv3 s) := by
  induction h with
  | init => exact Ok.pure hinv3_init
  | step op _ hok ih =>
    by_cases hr : op = .reset
    · subst hr; exact Ok.pure hinv3_init
    · exact ih.bind' (HostOp.apply_oof op hr) (fun hi => HostOp.apply_hinv3 hi op hok)

theorem threads_nil_of_none {ths : List (Nat × Th)} (h : ∀ t, thFind ths t = none) : ths = [] := by
  cases ths with
  | nil => rfl
  | cons e l => have := h e.1; rw [thFind_cons] at this; simp at this

/-- `killAllInsts` from a state with all host invariants: nothing is left -/
theorem killAllInsts_empty {s : State} (h : HInv3 s) :
    Ok (killAllInsts s) ((killAllInsts s).threads = [] ∧ (killAllInsts s).insts = [] ∧ (killAllInsts s).events = [] ∧
      (killAllInsts s).timer.elems = [] ∧ (killAllInsts s).notify = [] ∧ (killAllInsts s).waitFor = []) := by
  have hw := killAllInsts_w h.h2.h.inv.n h.h2.j h.w
  have hj := (killAllInsts_j h.h2.h.inv.n h.h2.j).2
  refine (killAllInsts_clean h.h2).map (fun p => ?_)
  obtain ⟨p1, p2, p3, p4, p5⟩ := p
  have hth : (killAllInsts s).threads = [] := by
    apply threads_nil_of_none
    intro t
    cases hf : thFind (killAllInsts s).threads t with
    | none => rfl
    | some th =>
      rcases hw t th hf with ⟨c1, _⟩ | m
      · rw [p2 t th hf] at c1; cases c1
      · cases m
  refine ⟨hth, p1, ?_, p3, p4, p5⟩
  apply List.eq_nil_iff_forall_not_mem.2
  intro ev he
  obtain ⟨th, h1, _⟩ := hj.e ev he
  rw [hth] at h1
  simp [thFind] at h1

end Morfuse.Sched
