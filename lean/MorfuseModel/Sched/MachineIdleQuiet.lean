import MorfuseModel.Sched.MachineInstKeys
/-!
# Complete idle threads through the destruction cascades

`W A s`: every thread record is a *complete idle thread* (it has its VM and the VM is `idling`) or belongs
to the active set `A` (threads whose `ScriptVM::Execute` or destructor is on the native stack, threads
just created).  `FZ s s'` ("frozen"): no record appears, no record gets a VM back, and a record that had
already lost its VM keeps its VM state and `vmObj` flag — this is what makes `~ScriptThread` of a complete
idle thread end with the record removed (`NotifyDelete` sees `idling`, clears `vmObj`, nothing touches
it until `finishDelete`).  `wqAll`: both, for the quiet domain of `qAll`, every fuel, under `NInv` alone.
-/
namespace Morfuse.Sched
open State

def W (A : List Nat) (s : State) : Prop :=
  ∀ t th, thFind s.threads t = some th → (th.hasVM = true ∧ th.vm = .idling) ∨ t ∈ A

def FZ (s s' : State) : Prop :=
  ∀ u th', thFind s'.threads u = some th' → ∃ th, thFind s.threads u = some th ∧
    (th'.hasVM = true → th.hasVM = true) ∧ (th.hasVM = false → th'.vm = th.vm ∧ th'.vmObj = th.vmObj)

theorem FZ.refl (s : State) : FZ s s := fun _ th' h => ⟨th', h, id, fun _ => ⟨rfl, rfl⟩⟩

theorem FZ.trans {a b c : State} (h1 : FZ a b) (h2 : FZ b c) : FZ a c := by
  intro u thc hc
  obtain ⟨thb, hb, m2, f2⟩ := h2 u thc hc
  obtain ⟨tha, ha, m1, f1⟩ := h1 u thb hb
  refine ⟨tha, ha, fun h => m1 (m2 h), fun h => ?_⟩
  have hbv : thb.hasVM = false := by
    cases hv : thb.hasVM with
    | false => rfl
    | true => have := m1 hv; rw [h] at this; cases this
  obtain ⟨e1, e2⟩ := f1 h
  obtain ⟨e3, e4⟩ := f2 hbv
  exact ⟨e3.trans e1, e4.trans e2⟩

theorem FZ.of_threads {s s' : State} (e : s'.threads = s.threads) : FZ s s' := by
  intro u th' h; rw [e] at h; exact ⟨th', h, id, fun _ => ⟨rfl, rfl⟩⟩

theorem FZ.setTh (s : State) (t : Nat) (f : Th → Th) (hhv : ∀ x, (f x).hasVM = true → x.hasVM = true)
    (hfr : ∀ x, x.hasVM = false → (f x).vm = x.vm ∧ (f x).vmObj = x.vmObj) : FZ s (s.setTh t f) := by
  intro u th' h
  rw [State.setTh_threads, thFind_map_upd] at h
  split at h
  · rename_i hut; subst hut
    cases hf : thFind s.threads u with
    | none => rw [hf] at h; simp at h
    | some th => rw [hf] at h; simp at h; subst h; exact ⟨th, rfl, hhv th, hfr th⟩
  · exact ⟨th', h, id, fun _ => ⟨rfl, rfl⟩⟩

theorem FZ.filter (s : State) (t : Nat) : FZ s { s with threads := s.threads.filter (fun e => !(e.1 == t)) } := by
  intro u th' h
  simp only at h
  rw [thFind_filter_ne] at h
  split at h
  · cases h
  · exact ⟨th', h, id, fun _ => ⟨rfl, rfl⟩⟩

theorem W.mono {A B : List Nat} {s : State} (h : W A s) (hs : ∀ x ∈ A, x ∈ B) : W B s :=
  fun t th hf => (h t th hf).elim Or.inl (fun m => Or.inr (hs t m))

/-- both facts about a step -/
def WZ (A : List Nat) (s s' : State) : Prop := (W A s → W A s') ∧ FZ s s'

theorem WZ.refl (A : List Nat) (s : State) : WZ A s s := ⟨id, FZ.refl s⟩
theorem WZ.trans {A : List Nat} {a b c : State} (h1 : WZ A a b) (h2 : WZ A b c) : WZ A a c :=
  ⟨fun h => h2.1 (h1.1 h), h1.2.trans h2.2⟩
theorem WZ.frame {A : List Nat} {s s' : State} (e1 : s'.threads = s.threads) (_e2 : s'.insts = s.insts)
    (_e3 : s'.nextInst = s.nextInst) : WZ A s s' :=
  ⟨fun h t th hf => h t th (by rw [← e1]; exact hf), FZ.of_threads e1⟩
theorem WZ.fuel (A : List Nat) (s : State) : WZ A s { s with outOfFuel := true } := WZ.frame rfl rfl rfl

/-- a record update that keeps `hasVM`, the VM state and `vmObj` -/
theorem WZ.setTh (A : List Nat) (s : State) (t : Nat) (f : Th → Th)
    (hhv : ∀ x, (f x).hasVM = x.hasVM := by intros; rfl) (hvm : ∀ x, (f x).vm = x.vm := by intros; rfl)
    (hvo : ∀ x, (f x).vmObj = x.vmObj := by intros; rfl) : WZ A s (s.setTh t f) := by
  refine ⟨?_, FZ.setTh s t f (fun x h => by rw [← hhv]; exact h) (fun x _ => ⟨hvm x, hvo x⟩)⟩
  intro h u th' hu
  rw [State.setTh_threads, thFind_map_upd] at hu
  split at hu
  · rename_i hut; subst hut
    cases hf : thFind s.threads u with
    | none => rw [hf] at hu; simp at hu
    | some th =>
      rw [hf] at hu; simp at hu; subst hu
      rw [hhv, hvm]; exact h u th hf
  · exact h u th' hu

def WQ1 (f : State → Nat → State) : Prop := ∀ X s a, NInv s → WZ X s (f s a)
def WQ3 (f : State → Nat → Nat → Bool → State) : Prop :=
  ∀ X s t name d, NInv s → (name = 0 ∨ d = true) → WZ X s (f s t name d)

theorem WZ.foldl {α : Type} {X : List Nat} (f : State → α → State)
    (hn : ∀ s a, NInv s → NInv (f s a)) (hf : ∀ s a, NInv s → WZ X s (f s a)) :
    ∀ (l : List α) (s : State), NInv s → WZ X s (l.foldl f s)
  | [], s, _ => WZ.refl X s
  | a :: l, s, h => (hf s a h).trans (WZ.foldl f hn hf l (f s a) (hn s a h))

theorem stopStep_wz {cw : State → Nat → State} (hcw : WQ1 cw) (X : List Nat) {s : State}
    (h : NInv s) (t : Nat) (th : Th) : WZ X s (stopStep cw s t th) := by
  unfold stopStep
  split
  · exact (WZ.setTh X s t (fun th => { th with ts := .running })).trans (WZ.frame rfl rfl rfl)
  · split
    · exact (WZ.setTh X s t (fun th => { th with ts := .running })).trans (hcw X _ _ (h.setTh t _))
    · exact WZ.refl X s

theorem cancelEvents_wz (X : List Nat) (s : State) (t : Nat) : WZ X s (cancelEvents s t) := WZ.frame rfl rfl rfl

theorem notifyLoop_wz {sn : State → Nat → State} (hn : N1 sn) (hsn : WQ1 sn) (X : List Nat) {s : State}
    (h : NInv s) (stopped : List Nat) : WZ X s (notifyLoop sn s stopped) := by
  unfold notifyLoop
  apply WZ.foldl _ _ _ _ _ h
  · intro s a hs
    split
    · exact hn s a hs
    · exact hs
  · intro s a hs
    split
    · exact hsn X s a hs
    · exact WZ.refl X s

theorem cwaZero_wz {swf : State → Nat → Nat → Bool → State} {sn : State → Nat → State}
    (hn3 : N3 swf) (hn1 : N1 sn) (hswf : WQ3 swf) (hsn : WQ1 sn) (X : List Nat) {s : State} (h : NInv s) (w : Nat) :
    WZ X s (cwaZero swf sn s w) := by
  unfold cwaZero
  split
  · exact WZ.refl X s
  · rename_i list _
    simp only [cancelWaitingSources_eq_purge]
    have h1 : NInv ({ ({ s with notify := (Tbl.purge s.alive s.notify w 0 list []).1 } : State) with
        waitFor := Tbl.removeKey s.waitFor (w, 0) }) :=
      (h.setNotify _ (Tbl.purge_WF _ h.wfN _ _ _ _) (Tbl.Sub.purge _ _ _ _ _ _)).setWaitFor _
        (h.wfW.removeKey _) (Tbl.Sub.removeKey _ _)
    have q1 : WZ X s ({ ({ s with notify := (Tbl.purge s.alive s.notify w 0 list []).1 } : State) with
        waitFor := Tbl.removeKey s.waitFor (w, 0) }) := WZ.frame rfl rfl rfl
    split
    · exact (q1.trans (hswf X _ _ _ _ h1 (Or.inl rfl))).trans (notifyLoop_wz hn1 hsn X (hn3 _ _ _ _ h1) _)
    · exact q1.trans (notifyLoop_wz hn1 hsn X h1 _)

theorem cwaRest_wz {swf : State → Nat → Nat → Bool → State} {sn : State → Nat → State}
    (hn3 : N3 swf) (hn1 : N1 sn) (hswf : WQ3 swf) (hsn : WQ1 sn) (X : List Nat) {s : State} (h : NInv s) (w : Nat) :
    WZ X s (cwaRest swf sn s w) := by
  unfold cwaRest
  split
  · exact WZ.refl X s
  · simp only [cwaSources_frame]
    have h1 : NInv ({ ({ s with notify := (Tbl.multiPurge s.alive s.notify w (Tbl.keysOf s.waitFor w) []).1 } : State) with
        waitFor := Tbl.removeOwner s.waitFor w }) :=
      (h.setNotify _ (Tbl.multiPurge_WF _ _ _ _ _ h.wfN) (Tbl.Sub.multiPurge _ _ _ _ _)).setWaitFor _
        (h.wfW.removeOwner _) (Tbl.Sub.removeOwner _ _)
    have q1 : WZ X s ({ ({ s with notify := (Tbl.multiPurge s.alive s.notify w (Tbl.keysOf s.waitFor w) []).1 } : State) with
        waitFor := Tbl.removeOwner s.waitFor w }) := WZ.frame rfl rfl rfl
    exact (q1.trans (hswf X _ _ _ _ h1 (Or.inl rfl))).trans (notifyLoop_wz hn1 hsn X (hn3 _ _ _ _ h1) _)

theorem startTiming_wz {stp : State → Nat → State} (hstp : WQ1 stp) (X : List Nat) {s : State} (h : NInv s)
    (t : Nat) : WZ X s (startTiming stp s t) := by
  unfold startTiming
  split
  · exact hstp X s t h
  · exact ((hstp X s t h).trans (WZ.setTh X _ t (fun th => { th with ts := .timing }))).trans (WZ.frame rfl rfl rfl)

theorem endOnLoop_wz {dt : State → Nat → State} (hn : N1 dt) (hd : WQ1 dt) (X : List Nat) {s : State}
    (h : NInv s) (src name : Nat) (listeners : List Nat) : WZ X s (endOnLoop dt s src name listeners).1 := by
  unfold endOnLoop
  generalize listeners.reverse = L
  suffices hs : ∀ (L : List Nat) (acc : State × Bool), NInv acc.1 → WZ X s acc.1 →
      WZ X s (L.foldl (fun (acc : State × Bool) l =>
        if acc.1.alive l then
          if l == src && (name == nameRemove || name == nameDelete || acc.2) then acc
          else (dt acc.1 l, acc.2 || (l == src))
        else acc) acc).1 from hs L (s, false) h (WZ.refl X s)
  intro L
  induction L with
  | nil => intro acc _ h; exact h
  | cons l L ih =>
    intro acc hacc qacc
    simp only [List.foldl_cons]
    split
    · split
      · exact ih _ hacc qacc
      · exact ih _ (hn _ _ hacc) (qacc.trans (hd X _ _ hacc))
    · exact ih _ hacc qacc

theorem unregEndOn_wz {dt : State → Nat → State} (hn : N1 dt) (hd : WQ1 dt) (X : List Nat) {s : State}
    (h : NInv s) (src name : Nat) : WZ X s (unregEndOn dt s src name).1 := by
  unfold unregEndOn
  split
  · exact WZ.refl X s
  · split
    · exact WZ.refl X s
    · have h1 : NInv { s with endOn := Tbl.removeKey s.endOn (src, name) } :=
        h.setEndOn _ (fun o ho => Or.inl (Tbl.hasOwner_removeKey ho))
      have q1 : WZ X s { s with endOn := Tbl.removeKey s.endOn (src, name) } := WZ.frame rfl rfl rfl
      exact q1.trans (endOnLoop_wz hn hd X h1 _ _ _)

theorem wakeLoop_wz {swf : State → Nat → Nat → Bool → State} (hn : N3 swf) (hswf : WQ3 swf) (X : List Nat)
    {s : State} (h : NInv s) (stopped : List Nat) : WZ X s (wakeLoop swf s 0 stopped) := by
  unfold wakeLoop
  apply WZ.foldl _ _ _ _ _ h
  · intro s a hs
    split
    · exact hn _ _ _ _ hs
    · exact hs
  · intro s a hs
    split
    · exact hswf X _ _ _ _ hs (Or.inl rfl)
    · exact WZ.refl X s

theorem unregNotify_wz {swf : State → Nat → Nat → Bool → State} {sn : State → Nat → State}
    (hn3 : N3 swf) (hn1 : N1 sn) (hswf : WQ3 swf) (hsn : WQ1 sn) (X : List Nat) {s : State} (h : NInv s)
    (src name : Nat) (hq : name = 0 ∨ QSrc src name) : WZ X s (unregNotify swf sn s src name) := by
  unfold unregNotify
  split
  · exact WZ.refl X s
  · split
    · exact WZ.refl X s
    · rename_i list hfind
      have hname : name = 0 := by
        rcases hq with hq | hq
        · exact hq
        · exfalso
          have hk := h.n1 src name hq.1 (by rw [Tbl.find_eq_getD_of_some hfind]; exact h.wfN.find_ne_nil hfind)
          rcases hq.2 with e | e
          · exact hk.1 e
          · exact hk.2 e
      subst hname
      simp only [unregisterTargets_eq_purge]
      have h1 : NInv ({ ({ s with waitFor := (Tbl.purge s.alive s.waitFor src 0 list []).1 } : State) with
          notify := Tbl.removeKey s.notify (src, 0) }) :=
        (h.setWaitFor _ (Tbl.purge_WF _ h.wfW _ _ _ _) (Tbl.Sub.purge _ _ _ _ _ _)).setNotify _
          (h.wfN.removeKey _) (Tbl.Sub.removeKey _ _)
      have q1 : WZ X s ({ ({ s with waitFor := (Tbl.purge s.alive s.waitFor src 0 list []).1 } : State) with
          notify := Tbl.removeKey s.notify (src, 0) }) := WZ.frame rfl rfl rfl
      split
      · exact (q1.trans (hsn X _ _ h1)).trans (wakeLoop_wz hn3 hswf X (hn1 _ _ h1) _)
      · exact q1.trans (wakeLoop_wz hn3 hswf X h1 _)

theorem killLoop_wz {swf : State → Nat → Nat → Bool → State} (hn : N3 swf) (hswf : WQ3 swf) (X : List Nat)
    {s : State} (h : NInv s) (stopped : List (Nat × Nat)) : WZ X s (killLoop swf s stopped) := by
  unfold killLoop
  apply WZ.foldl _ _ _ _ _ h
  · intro s a hs
    split
    · exact hn _ _ _ _ hs
    · exact hs
  · intro s a hs
    split
    · exact hswf X _ _ _ _ hs (Or.inr rfl)
    · exact WZ.refl X s

theorem uaRest_wz {swf : State → Nat → Nat → Bool → State} {sn : State → Nat → State}
    (hn3 : N3 swf) (hn1 : N1 sn) (hswf : WQ3 swf) (hsn : WQ1 sn) (X : List Nat) {s : State} (h : NInv s)
    (src : Nat) : WZ X s (uaRest swf sn s src) := by
  unfold uaRest
  split
  · exact WZ.refl X s
  · simp only
    rw [uaTargets_frame]
    have h1 : NInv ({ ({ s with waitFor := (Tbl.multiPurge s.alive s.waitFor src (Tbl.keysOf s.notify src) []).1 } : State) with
        notify := Tbl.removeOwner s.notify src }) :=
      (h.setWaitFor _ (Tbl.multiPurge_WF _ _ _ _ _ h.wfW) (Tbl.Sub.multiPurge _ _ _ _ _)).setNotify _
        (h.wfN.removeOwner _) (Tbl.Sub.removeOwner _ _)
    have q1 : WZ X s ({ ({ s with waitFor := (Tbl.multiPurge s.alive s.waitFor src (Tbl.keysOf s.notify src) []).1 } : State) with
        notify := Tbl.removeOwner s.notify src }) := WZ.frame rfl rfl rfl
    exact (q1.trans (hsn X _ _ h1)).trans (killLoop_wz hn3 hswf X (hn1 _ _ h1) _)

/-! ### induction -/

structure WQAll (fuel : Nat) : Prop where
  dt : WQ1 (deleteThread fuel)
  sn : WQ1 (stoppedNotify fuel)
  stp : WQ1 (stop fuel)
  cwa : WQ1 (cancelWaitingAll fuel)
  swf : WQ3 (stoppedWaitFor fuel)
  ur : ∀ X s src name, NInv s → (name = 0 ∨ QSrc src name) → WZ X s (unregister fuel s src name)
  ua : WQ1 (unregisterAll fuel)

theorem wqAll_zero : WQAll 0 where
  dt := fun X s t _ => by rw [deleteThread_zero]; exact WZ.fuel X s
  sn := fun X s t _ => by rw [stoppedNotify_zero]; exact WZ.fuel X s
  stp := fun X s t _ => by rw [stop_zero]; exact WZ.fuel X s
  cwa := fun X s t _ => by rw [cancelWaitingAll_zero]; exact WZ.fuel X s
  swf := fun X s t n d _ _ => by rw [stoppedWaitFor_zero]; exact WZ.fuel X s
  ur := fun X s t n _ _ => by rw [unregister_zero]; exact WZ.fuel X s
  ua := fun X s t _ => by rw [unregisterAll_zero]; exact WZ.fuel X s

theorem thFind_notifyDelete_ne (s : State) (t u : Nat) (h : u ≠ t) :
    thFind (notifyDelete s t).threads u = thFind s.threads u := by
  unfold notifyDelete
  split
  · rfl
  · rename_i th _
    simp only
    have h1 : thFind (s.setTh t fun th => { th with vm := .destroyed }).threads u = thFind s.threads u := by
      rw [State.setTh_threads, thFind_map_upd]; simp [h]
    have h2 : thFind (if th.attached = true then removeFromInst (s.setTh t fun th => { th with vm := .destroyed }) t th.inst
        else s.setTh t fun th => { th with vm := .destroyed }).threads u = thFind s.threads u := by
      split
      · rw [removeFromInst_frame]; exact h1
      · exact h1
    split
    · rw [State.setTh_threads, thFind_map_upd]; simp [h]; exact h2
    · exact h2

/-- `NotifyDelete` of a thread whose VM is idle: the record (if any) is marked destroyed with `vmObj` cleared,
    `hasVM` is untouched; without a record nothing appears -/
theorem thFind_notifyDelete_self (s : State) (t : Nat) :
    (thFind s.threads t = none → thFind (notifyDelete s t).threads t = none) ∧
    (∀ th, thFind s.threads t = some th → ∃ th', thFind (notifyDelete s t).threads t = some th' ∧
      th'.hasVM = th.hasVM ∧ (th.vm = .idling → th'.vmObj = false)) := by
  unfold notifyDelete
  constructor
  · intro hn
    have : s.th? t = none := by rw [State.th?_eq]; exact hn
    rw [this]; exact hn
  · intro th hf
    have : s.th? t = some th := by rw [State.th?_eq]; exact hf
    rw [this]
    simp only
    have h1 : thFind (s.setTh t fun th => { th with vm := .destroyed }).threads t = some { th with vm := .destroyed } := by
      rw [State.setTh_threads, thFind_map_upd]; simp [hf]
    have h2 : thFind (if th.attached = true then removeFromInst (s.setTh t fun th => { th with vm := .destroyed }) t th.inst
        else s.setTh t fun th => { th with vm := .destroyed }).threads t = some { th with vm := .destroyed } := by
      split
      · rw [removeFromInst_frame]; exact h1
      · exact h1
    by_cases hv : th.vm = .idling
    · simp only [hv, beq_self_eq_true, if_true]
      refine ⟨{ th with vm := .destroyed, vmObj := false }, ?_, rfl, fun _ => rfl⟩
      rw [State.setTh_threads, thFind_map_upd]; simp [h2]
    · have hb : (th.vm == VS.idling) = false := by
        cases hvm : th.vm <;> simp_all
      simp only [hb, Bool.false_eq_true, if_false]
      exact ⟨{ th with vm := .destroyed }, h2, rfl, fun e => absurd e hv⟩

theorem finishDelete_fz (s : State) (t : Nat) : FZ s (finishDelete s t) := by
  unfold finishDelete
  split
  · exact FZ.refl s
  · split
    · exact FZ.setTh s t _ (fun _ h => h) (fun _ _ => ⟨rfl, rfl⟩)
    · exact FZ.filter s t

theorem thFind_finishDelete_ne (s : State) (t u : Nat) (h : u ≠ t) :
    thFind (finishDelete s t).threads u = thFind s.threads u := by
  unfold finishDelete
  split
  · rfl
  · split
    · rw [State.setTh_threads, thFind_map_upd]; simp [h]
    · simp only; rw [thFind_filter_ne]; simp [h]

/-- the whole of `~ScriptThread` -/
theorem deleteThread_wz_succ {fuel : Nat} (ih : WQAll fuel) : WQ1 (deleteThread (fuel + 1)) := by
  have n := nAll fuel
  intro X s t h
  rw [deleteThread_succ]
  cases hf : s.th? t with
  | none => exact WZ.refl X s
  | some th =>
    simp only
    split
    · exact WZ.refl X s
    · rename_i hvm
      have hvm' : th.hasVM = true := by simpa using hvm
      have hf' : thFind s.threads t = some th := by rw [← State.th?_eq]; exact hf
      have ht : 100 ≤ t := (h.range t th hf').1
      -- the states
      have h0 : NInv (s.setTh t fun th => { th with hasVM := false }) := h.setTh t _
      have h1 := stopStep_ninv n.cwa h0 t th
      have h2 := notifyDelete_ninv h1 t
      have h3 := cancelEvents_ninv h2 t
      have h4 := n.ur _ t nameDelete h3
      have h5 := n.ur _ t nameRemove h4
      have h6 := n.ua _ t h5
      -- frozen facts
      have f0 : FZ s (s.setTh t fun th => { th with hasVM := false }) :=
        FZ.setTh s t _ (fun _ hx => by cases hx) (fun _ _ => ⟨rfl, rfl⟩)
      have find0 : thFind (s.setTh t fun th => { th with hasVM := false }).threads t = some { th with hasVM := false } := by
        rw [State.setTh_threads, thFind_map_upd]; simp [hf']
      have w1 := fun (A : List Nat) => stopStep_wz ih.cwa A h0 t th
      have w3tail := fun (A : List Nat) =>
        ((((cancelEvents_wz A (notifyDelete (stopStep (cancelWaitingAll fuel)
            (s.setTh t fun th => { th with hasVM := false }) t th) t) t).trans
          (ih.ur A _ t nameDelete h3 (Or.inr ⟨ht, Or.inl rfl⟩))).trans (ih.ur A _ t nameRemove h4 (Or.inr ⟨ht, Or.inr rfl⟩))).trans
          (ih.ua A _ t h5)).trans (ih.cwa A _ t h6)
      -- abbreviations for the intermediate states
      generalize hs1 : stopStep (cancelWaitingAll fuel) (s.setTh t fun th => { th with hasVM := false }) t th = s1 at *
      generalize hs6 : cancelWaitingAll fuel (unregisterAll fuel (unregister fuel (unregister fuel
        (cancelEvents (notifyDelete s1 t) t) t nameDelete) t nameRemove) t) t = s6 at *
      have fz01 : FZ s s1 := f0.trans (w1 []).2
      -- `NotifyDelete`: frozen relative to `s` (where `t` still had its VM)
      have fz02 : FZ s (notifyDelete s1 t) := by
        intro u th2 h2'
        by_cases hut : u = t
        · subst hut
          cases h1r : thFind s1.threads u with
          | none => rw [(thFind_notifyDelete_self s1 u).1 h1r] at h2'; cases h2'
          | some th1 =>
            obtain ⟨th2', k1, k2, _⟩ := (thFind_notifyDelete_self s1 u).2 th1 h1r
            rw [h2'] at k1; cases k1
            obtain ⟨tha, ha, m, _⟩ := fz01 u th1 h1r
            rw [hf'] at ha; cases ha
            exact ⟨th, hf', fun _ => hvm', fun e => by rw [hvm'] at e; cases e⟩
        · rw [thFind_notifyDelete_ne s1 t u hut] at h2'
          exact fz01 u th2 h2'
      have fz26 : FZ (notifyDelete s1 t) s6 := (w3tail []).2
      have fz : FZ s (finishDelete s6 t) := (fz02.trans fz26).trans (finishDelete_fz s6 t)
      refine ⟨fun hw => ?_, fz⟩
      -- `W`: with `t` exempt all the way
      have hw0 : W (t :: X) (s.setTh t fun th => { th with hasVM := false }) := by
        intro u thu hu
        by_cases hut : u = t
        · right; rw [hut]; exact List.mem_cons_self
        · rw [State.setTh_threads, thFind_map_upd] at hu
          simp [hut] at hu
          exact (hw u thu hu).elim Or.inl (fun m => Or.inr (List.mem_cons_of_mem _ m))
      have hw1 : W (t :: X) s1 := (w1 (t :: X)).1 hw0
      have hw2 : W (t :: X) (notifyDelete s1 t) := by
        intro u thu hu
        by_cases hut : u = t
        · right; rw [hut]; exact List.mem_cons_self
        · rw [thFind_notifyDelete_ne s1 t u hut] at hu; exact hw1 u thu hu
      have hw6 : W (t :: X) s6 := (w3tail (t :: X)).1 hw2
      intro u thu hu
      by_cases hut : u = t
      · subst hut
        -- `t` still has a record at the very end: it was in `X` (its VM was not idle)
        rcases hw u th hf' with ⟨_, hidle⟩ | m
        · exfalso
          -- complete idle at the start: the record is removed
          obtain ⟨th6, h6r, _⟩ := finishDelete_fz s6 u u thu hu
          obtain ⟨th2, h2r, m26, fr26⟩ := fz26 u th6 h6r
          cases h1r : thFind s1.threads u with
          | none => rw [(thFind_notifyDelete_self s1 u).1 h1r] at h2r; cases h2r
          | some th1 =>
            obtain ⟨th0, h0r, _, fr01⟩ := (w1 []).2 u th1 h1r
            rw [find0] at h0r; cases h0r
            have hv1 : th1.vm = .idling := by rw [(fr01 rfl).1]; exact hidle
            have hhv1 : th1.hasVM = false := by
              cases hv : th1.hasVM with
              | false => rfl
              | true =>
                obtain ⟨th0', h0r', m01, _⟩ := (w1 []).2 u th1 h1r
                rw [find0] at h0r'; cases h0r'
                have := m01 hv; cases this
            obtain ⟨th2', k1, k2, k3⟩ := (thFind_notifyDelete_self s1 u).2 th1 h1r
            rw [h2r] at k1; cases k1
            have hvo6 : th6.vmObj = false := by rw [(fr26 (by rw [k2]; exact hhv1)).2]; exact k3 hv1
            -- `finishDelete` removes a record whose `vmObj` is cleared
            unfold finishDelete at hu
            have : s6.th? u = some th6 := by rw [State.th?_eq]; exact h6r
            rw [this] at hu
            simp only [hvo6, Bool.false_eq_true, if_false] at hu
            rw [thFind_filter_ne] at hu
            simp at hu
        · exact Or.inr m
      · rw [thFind_finishDelete_ne s6 t u hut] at hu
        rcases hw6 u thu hu with c | m
        · exact Or.inl c
        · rcases List.mem_cons.1 m with m | m
          · exact absurd m hut
          · exact Or.inr m

theorem wqAll_succ {fuel : Nat} (ih : WQAll fuel) : WQAll (fuel + 1) := by
  have n := nAll fuel
  refine ⟨deleteThread_wz_succ ih, ?_, ?_, ?_, ?_, ?_, ?_⟩
  · intro X s l h
    rw [stoppedNotify_succ]
    split
    · split
      · exact ih.dt X _ _ h
      · exact WZ.refl X s
    · exact WZ.refl X s
  · intro X s t h
    rw [stop_succ]
    split
    · exact WZ.refl X s
    · exact stopStep_wz ih.cwa X h _ _
  · intro X s w h
    rw [cancelWaitingAll_succ]
    exact (cwaZero_wz n.swf n.sn ih.swf ih.sn X h w).trans
      (cwaRest_wz n.swf n.sn ih.swf ih.sn X (cwaZero_ninv n.swf n.sn h w) w)
  · intro X s t name d h hq
    rw [stoppedWaitFor_succ]
    split
    · exact WZ.refl X s
    · cases hf : s.th? t with
      | none => exact WZ.refl X s
      | some th =>
        simp only
        split
        · exact WZ.refl X s
        · split
          · exact ih.dt X _ _ h
          · rename_i hd
            have hname : name = 0 := by
              rcases hq with hq | hq
              · exact hq
              · exact absurd hq hd
            subst hname
            split
            · simp only [bne_self_eq_false, Bool.false_eq_true, if_false]
              exact (cancelEvents_wz X s t).trans (startTiming_wz ih.stp X (cancelEvents_ninv h t) t)
            · exact cancelEvents_wz X s t
  · intro X s src name h hq
    rw [unregister_succ]
    have q1 := unregEndOn_wz n.dt ih.dt X h src name
    split
    · exact q1
    · exact q1.trans (unregNotify_wz n.swf n.sn ih.swf ih.sn X (unregEndOn_ninv n.dt h src name) src name hq)
  · intro X s src h
    rw [unregisterAll_succ]
    have h1 := n.ur s src 0 h
    have q1 := ih.ur X s src 0 h (Or.inl rfl)
    have h2 : NInv { (unregister fuel s src 0) with endOn := Tbl.removeOwner (unregister fuel s src 0).endOn src } :=
      h1.setEndOn _ (fun o ho => Or.inl (Tbl.hasOwner_removeOwner ho))
    have q2 : WZ X (unregister fuel s src 0)
        { (unregister fuel s src 0) with endOn := Tbl.removeOwner (unregister fuel s src 0).endOn src } :=
      WZ.frame rfl rfl rfl
    exact (q1.trans q2).trans (uaRest_wz n.swf n.sn ih.swf ih.sn X h2 src)

/-- **Every record outside the active set stays a complete idle thread through the destruction cascades.** -/
theorem wqAll : ∀ fuel, WQAll fuel
  | 0 => wqAll_zero
  | fuel + 1 => wqAll_succ (wqAll fuel)

end Morfuse.Sched
