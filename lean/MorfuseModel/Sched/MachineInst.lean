import MorfuseModel.Sched.MachineInvAll
/-!
# The instance-list invariant `J`: thread records ↔ chains of listed script instances

`J X s` (`X` = ids of script instances being destroyed by `~ScriptClass`, already unlinked from the
director's list while their threads are still being killed):

* `a` — every record that still has its VM belongs to an exempt instance or is in the chain of the
        *listed* instance `th.inst`;
* `b` — every listed instance has a non-empty, duplicate-free chain whose members are live records
        (not dead, VM not destroyed) of that very instance, attached;
* `c` — instance ids of records are below `nextInst`;
* `d` — exempt instances are old (`< nextInst`) and not listed;
* `e` — every queued `_cancelwaiting` event belongs to a thread record whose VM is not destroyed.

This file: the definition and its behaviour under the primitive steps (`removeFromInst`,
`NotifyDelete`, the end of `~ScriptThread`, `ScriptVM::Execute`'s epilogue, thread creation).
-/
namespace Morfuse.Sched
open State

/-- the chain of instance `i` in the director's list, `[]` when it is not listed -/
def instChain (L : List (Nat × List Nat)) (i : Nat) : List Nat := ((L.find? (·.1 == i)).map (·.2)).getD []

structure J (X : List Nat) (s : State) : Prop where
  a : ∀ t th, thFind s.threads t = some th → th.hasVM = true → th.inst ∈ X ∨ t ∈ instChain s.insts th.inst
  b : ∀ e ∈ s.insts, e.2 ≠ [] ∧ e.2.Nodup ∧ ∀ t ∈ e.2, ∃ th, thFind s.threads t = some th ∧ th.dead = false ∧
        th.vm ≠ .destroyed ∧ th.inst = e.1 ∧ th.attached = true
  c : ∀ t th, thFind s.threads t = some th → th.inst < s.nextInst
  d : ∀ i ∈ X, i < s.nextInst ∧ ∀ e ∈ s.insts, e.1 ≠ i
  e : ∀ ev ∈ s.events, ∃ th, thFind s.threads ev.1 = some th ∧ th.vm ≠ .destroyed

/-! ### list facts about the instance list -/

theorem instChain_cons (e : Nat × List Nat) (L : List (Nat × List Nat)) (i : Nat) :
    instChain (e :: L) i = if e.1 = i then e.2 else instChain L i := by
  unfold instChain
  by_cases h : e.1 = i
  · simp [h]
  · have : (e.1 == i) = false := by simpa using h
    simp [List.find?_cons, this, h]

theorem instChain_mem {L : List (Nat × List Nat)} {i u : Nat} (h : u ∈ instChain L i) :
    ∃ e ∈ L, e.1 = i ∧ instChain L i = e.2 := by
  induction L with
  | nil => simp [instChain] at h
  | cons e L ih =>
    rw [instChain_cons] at h ⊢
    split at h
    · rename_i he; exact ⟨e, List.mem_cons_self, he, by simp [he]⟩
    · rename_i he
      obtain ⟨e', hm, h1, h2⟩ := ih h
      exact ⟨e', List.mem_cons_of_mem _ hm, h1, by simp [he, h2]⟩

theorem instChain_filter_ne (L : List (Nat × List Nat)) (i j : Nat) (h : j ≠ i) :
    instChain (L.filter (fun e => !(e.1 == i))) j = instChain L j := by
  induction L with
  | nil => rfl
  | cons e L ih =>
    by_cases he : e.1 = i
    · have hb : (e.1 == i) = true := by simpa using he
      have hj : ¬ e.1 = j := by rw [he]; exact fun e' => h e'.symm
      simp only [List.filter_cons, hb, Bool.not_true, Bool.false_eq_true, if_false, instChain_cons, hj, ih]
    · have hb : (e.1 == i) = false := by simpa using he
      simp only [List.filter_cons, hb, Bool.not_false, if_true, instChain_cons, ih]

theorem instChain_map_ne (L : List (Nat × List Nat)) (i j : Nat) (g : Nat × List Nat → List Nat) (h : j ≠ i) :
    instChain (L.map (fun e => if e.1 == i then (e.1, g e) else e)) j = instChain L j := by
  induction L with
  | nil => rfl
  | cons e L ih =>
    by_cases he : e.1 = i
    · have hb : (e.1 == i) = true := by simpa using he
      have hj : ¬ e.1 = j := by rw [he]; exact fun e' => h e'.symm
      simp only [List.map_cons, hb, if_true, instChain_cons, hj, if_false, ih]
    · have hb : (e.1 == i) = false := by simpa using he
      simp only [List.map_cons, hb, Bool.false_eq_true, if_false, instChain_cons, ih]

theorem instChain_map_self (L : List (Nat × List Nat)) (i : Nat) (g : Nat × List Nat → List Nat) :
    instChain (L.map (fun e => if e.1 == i then (e.1, g e) else e)) i =
      match L.find? (·.1 == i) with
      | some e => g e
      | none => [] := by
  induction L with
  | nil => rfl
  | cons e L ih =>
    by_cases he : e.1 = i
    · have hb : (e.1 == i) = true := by simpa using he
      simp [List.map_cons, hb, instChain_cons, he, List.find?_cons]
    · have hb : (e.1 == i) = false := by simpa using he
      simp only [List.map_cons, hb, Bool.false_eq_true, if_false, instChain_cons, he, List.find?_cons, ih]

/-- `ScriptClass::RemoveThread` in normal form: the chain loses `t` (`erase`), the instance goes when
    nothing is left -/
def riInsts (L : List (Nat × List Nat)) (t i : Nat) : List (Nat × List Nat) :=
  match L.find? (·.1 == i) with
  | none => L
  | some e =>
    if e.2 = [] then L
    else if e.2.erase t = [] then L.filter (fun e => !(e.1 == i))
    else L.map (fun e' => if e'.1 == i then (e'.1, e.2.erase t) else e')

theorem map_key_congr (L : List (Nat × List Nat)) (i : Nat) (c : List Nat) :
    L.map (fun e => if e.1 == i then (i, c) else e) = L.map (fun e' => if e'.1 == i then (e'.1, c) else e') := by
  apply List.map_congr_left
  intro e _
  by_cases he : e.1 = i
  · simp [he]
  · have : (e.1 == i) = false := by simpa using he
    simp [this]

theorem removeFromInst_insts (s : State) (t i : Nat) : (removeFromInst s t i).insts = riInsts s.insts t i := by
  unfold removeFromInst riInsts
  cases hf : s.insts.find? (·.1 == i) with
  | none => rfl
  | some e =>
    obtain ⟨k, chain⟩ := e
    cases chain with
    | nil => simp
    | cons h rest =>
      simp only
      by_cases hh : h = t
      · subst hh
        simp only [beq_self_eq_true, if_true, List.erase_cons_head]
        cases rest with
        | nil => simp
        | cons r rs =>
          simp only [List.isEmpty_cons, Bool.false_eq_true, if_false, reduceCtorEq]
          exact map_key_congr _ _ _
      · have hb : (h == t) = false := by simpa using hh
        have he : (h :: rest).erase t = h :: rest.erase t := by simp [List.erase_cons, hb]
        simp only [hb, Bool.false_eq_true, if_false, he, reduceCtorEq]
        exact map_key_congr _ _ _

/-! ### frame and record updates -/

theorem J.congr {X : List Nat} {s s' : State} (h : J X s) (e1 : s'.threads = s.threads) (e2 : s'.insts = s.insts)
    (e3 : s'.nextInst = s.nextInst) (e4 : s'.events = s.events := by rfl) : J X s' :=
  ⟨by rw [e1, e2]; exact h.a, by rw [e1, e2]; exact h.b, by rw [e1, e3]; exact h.c, by rw [e2, e3]; exact h.d,
    by rw [e1, e4]; exact h.e⟩

/-- the event queue shrinks -/
theorem J.eventsSub {X : List Nat} {s s' : State} (h : J X s) (e1 : s'.threads = s.threads) (e2 : s'.insts = s.insts)
    (e3 : s'.nextInst = s.nextInst) (e4 : ∀ ev ∈ s'.events, ev ∈ s.events) : J X s' :=
  ⟨by rw [e1, e2]; exact h.a, by rw [e1, e2]; exact h.b, by rw [e1, e3]; exact h.c, by rw [e2, e3]; exact h.d,
    fun ev he => by rw [e1]; exact h.e ev (e4 ev he)⟩

/-- no queued event of thread `t` -/
def NoEv (s : State) (t : Nat) : Prop := ∀ ev ∈ s.events, ev.1 ≠ t

theorem J.noEv_of_destroyed {X : List Nat} {s : State} (h : J X s) {t : Nat}
    (hd : ∀ th, thFind s.threads t = some th → th.vm = .destroyed) : NoEv s t := by
  intro ev he hk
  obtain ⟨th, h1, h2⟩ := h.e ev he
  rw [hk] at h1
  exact h2 (hd th h1)

/-- a record update that keeps instance, attachment and death, does not give a VM back and does not
    destroy one -/
theorem J.setTh {X : List Nat} {s : State} (h : J X s) (t : Nat) (f : Th → Th)
    (hinst : ∀ x, (f x).inst = x.inst := by intros; rfl)
    (hatt : ∀ x, (f x).attached = x.attached := by intros; rfl)
    (hdead : ∀ x, (f x).dead = x.dead := by intros; rfl)
    (hhv : ∀ x, (f x).hasVM = true → x.hasVM = true := by intro x h; exact h)
    (hvm : ∀ x, (f x).vm = .destroyed → x.vm = .destroyed := by intro x h; exact h) :
    J X (s.setTh t f) := by
  have hfind : ∀ u th', thFind (s.setTh t f).threads u = some th' →
      ∃ th, thFind s.threads u = some th ∧ (th' = th ∨ th' = f th) := by
    intro u th' hu
    rw [State.setTh_threads, thFind_map_upd] at hu
    split at hu
    · rename_i hut
      subst hut
      cases hf' : thFind s.threads u with
      | none => simp [hf'] at hu
      | some th => simp [hf'] at hu; exact ⟨th, rfl, Or.inr hu.symm⟩
    · exact ⟨th', hu, Or.inl rfl⟩
  have hkeep : ∀ u th, thFind s.threads u = some th →
      ∃ th', thFind (s.setTh t f).threads u = some th' ∧ (th' = th ∨ th' = f th) := by
    intro u th hu
    rw [State.setTh_threads, thFind_map_upd]
    split
    · rename_i hut
      subst hut
      exact ⟨f th, by simp [hu], Or.inr rfl⟩
    · exact ⟨th, hu, Or.inl rfl⟩
  refine ⟨?_, ?_, ?_, h.d, ?_⟩
  · intro u th' hu hv
    obtain ⟨th, h1, h2⟩ := hfind u th' hu
    rcases h2 with h2 | h2
    · subst h2; exact h.a u _ h1 hv
    · subst h2; rw [hinst]; exact h.a u th h1 (hhv _ hv)
  · intro e he
    obtain ⟨b1, b2, b3⟩ := h.b e he
    refine ⟨b1, b2, ?_⟩
    intro u hu
    obtain ⟨th, h1, h2, h3, h4, h5⟩ := b3 u hu
    obtain ⟨th', k1, k2⟩ := hkeep u th h1
    rcases k2 with k2 | k2
    · subst k2; exact ⟨_, k1, h2, h3, h4, h5⟩
    · subst k2
      exact ⟨_, k1, by rw [hdead]; exact h2, fun e' => h3 (hvm _ e'), by rw [hinst]; exact h4, by rw [hatt]; exact h5⟩
  · intro u th' hu
    obtain ⟨th, h1, h2⟩ := hfind u th' hu
    rcases h2 with h2 | h2
    · subst h2; exact h.c u _ h1
    · subst h2; rw [hinst]; exact h.c u th h1
  · intro ev he
    obtain ⟨th, h1, h2⟩ := h.e ev he
    obtain ⟨th', k1, k2⟩ := hkeep ev.1 th h1
    rcases k2 with k2 | k2
    · subst k2; exact ⟨_, k1, h2⟩
    · subst k2; exact ⟨_, k1, fun e' => h2 (hvm _ e')⟩

/-- a thread in no chain -/
def Unchained (s : State) (t : Nat) : Prop := ∀ e ∈ s.insts, t ∉ e.2

theorem J.unchained_of_destroyed {X : List Nat} {s : State} (h : J X s) {t : Nat}
    (hd : ∀ th, thFind s.threads t = some th → th.vm = .destroyed) : Unchained s t := by
  intro e he hm
  obtain ⟨th, h1, _, h3, _, _⟩ := (h.b e he).2.2 t hm
  exact h3 (hd th h1)

/-- any update of the record of a thread that is in no chain and loses (or has lost) its VM -/
theorem J.setTh_unchained {X : List Nat} {s : State} (h : J X s) (t : Nat) (f : Th → Th) (hu : Unchained s t)
    (hinst : ∀ x, (f x).inst = x.inst) (hhv : ∀ x, (f x).hasVM = true → x.hasVM = true)
    (hev : NoEv s t ∨ ∀ x, (f x).vm = .destroyed → x.vm = .destroyed) :
    J X (s.setTh t f) := by
  have hne : ∀ u, u ≠ t → thFind (s.setTh t f).threads u = thFind s.threads u := by
    intro u hut
    rw [State.setTh_threads, thFind_map_upd]; simp [hut]
  refine ⟨?_, ?_, ?_, h.d, fun ev he => ?_⟩
  rotate_left 3
  · rcases hev with hev | hvm
    · rw [hne ev.1 (hev ev he)]; exact h.e ev he
    · obtain ⟨th, h1, h2⟩ := h.e ev he
      by_cases hut : ev.1 = t
      · refine ⟨f th, ?_, fun e' => h2 (hvm _ e')⟩
        rw [State.setTh_threads, thFind_map_upd, if_pos hut, ← hut, h1]; rfl
      · rw [hne ev.1 hut]; exact ⟨th, h1, h2⟩
  · intro u th' hf hv
    by_cases hut : u = t
    · subst hut
      rw [State.setTh_threads, thFind_map_upd] at hf
      simp only [if_true] at hf
      cases h0 : thFind s.threads u with
      | none => rw [h0] at hf; simp at hf
      | some th => rw [h0] at hf; simp at hf; subst hf; rw [hinst]; exact h.a u th h0 (hhv _ hv)
    · rw [hne u hut] at hf; exact h.a u th' hf hv
  · intro e he
    obtain ⟨b1, b2, b3⟩ := h.b e he
    refine ⟨b1, b2, ?_⟩
    intro u hm
    have hut : u ≠ t := fun e' => hu e he (e' ▸ hm)
    rw [hne u hut]; exact b3 u hm
  · intro u th' hf
    by_cases hut : u = t
    · subst hut
      rw [State.setTh_threads, thFind_map_upd] at hf
      simp only [if_true] at hf
      cases h0 : thFind s.threads u with
      | none => rw [h0] at hf; simp at hf
      | some th => rw [h0] at hf; simp at hf; subst hf; rw [hinst]; exact h.c u th h0
    · rw [hne u hut] at hf; exact h.c u th' hf

/-- the record of a thread that is in no chain disappears -/
theorem J.filterTh {X : List Nat} {s : State} (h : J X s) (t : Nat) (hu : Unchained s t) (hev : NoEv s t) :
    J X { s with threads := s.threads.filter (fun e => !(e.1 == t)) } := by
  refine ⟨?_, ?_, ?_, h.d, fun ev he => by
    obtain ⟨th, h1, h2⟩ := h.e ev he
    exact ⟨th, by simp only; rw [thFind_filter_ne]; simp [hev ev he, h1], h2⟩⟩
  · intro u th hf hv
    simp only at hf
    rw [thFind_filter_ne] at hf
    split at hf
    · cases hf
    · exact h.a u th hf hv
  · intro e he
    obtain ⟨b1, b2, b3⟩ := h.b e he
    refine ⟨b1, b2, ?_⟩
    intro u hm
    have hut : u ≠ t := fun e' => hu e he (e' ▸ hm)
    obtain ⟨th, h1, r⟩ := b3 u hm
    exact ⟨th, by simp only; rw [thFind_filter_ne]; simp [hut, h1], r⟩
  · intro u th hf
    simp only at hf
    rw [thFind_filter_ne] at hf
    split at hf
    · cases hf
    · exact h.c u th hf

/-! ### `ScriptClass::RemoveThread` of a thread that has lost its VM -/

theorem riInsts_keys (L : List (Nat × List Nat)) (t i : Nat) (e' : Nat × List Nat) (h : e' ∈ riInsts L t i) :
    ∃ e ∈ L, e.1 = e'.1 := by
  unfold riInsts at h
  split at h
  · exact ⟨e', h, rfl⟩
  · split at h
    · exact ⟨e', h, rfl⟩
    · split at h
      · exact ⟨e', (List.mem_filter.1 h).1, rfl⟩
      · obtain ⟨e, hm, rfl⟩ := List.mem_map.1 h
        refine ⟨e, hm, ?_⟩
        split <;> rfl

theorem instChain_riInsts_ne (L : List (Nat × List Nat)) (t i j : Nat) (h : j ≠ i) :
    instChain (riInsts L t i) j = instChain L j := by
  unfold riInsts
  split
  · rfl
  · split
    · rfl
    · split
      · exact instChain_filter_ne L i j h
      · exact instChain_map_ne L i j _ h

/-- the record of `t` is rewritten by `g` (its VM becomes `destroyed`) and `t` leaves the chain of its
    instance: `t` has no VM any more, so nothing refers to the chain entry -/
theorem J.unlink {X : List Nat} {s : State} (h : J X s) {t : Nat} {th : Th}
    (hf : thFind s.threads t = some th) (hv : th.hasVM = false) (g : Th → Th)
    (hginst : ∀ x, (g x).inst = x.inst) (hghv : ∀ x, (g x).hasVM = true → x.hasVM = true) (hev : NoEv s t) :
    J X (removeFromInst (s.setTh t g) t th.inst) := by
  rw [removeFromInst_frame, removeFromInst_insts]
  have hne : ∀ u, u ≠ t → thFind (s.setTh t g).threads u = thFind s.threads u := by
    intro u hut
    rw [State.setTh_threads, thFind_map_upd]; simp [hut]
  have hself : thFind (s.setTh t g).threads t = some (g th) := by
    rw [State.setTh_threads, thFind_map_upd]; simp [hf]
  -- a member of a chain of another instance is not `t`
  have hother : ∀ e ∈ s.insts, e.1 ≠ th.inst → ∀ u ∈ e.2, u ≠ t := by
    intro e he hk u hu hut
    subst hut
    obtain ⟨th0, h0, _, _, h4, _⟩ := (h.b e he).2.2 u hu
    rw [hf] at h0; cases h0
    exact hk h4.symm
  have hmember : ∀ e ∈ s.insts, ∀ u ∈ e.2, u ≠ t → ∃ th0, thFind (s.setTh t g).threads u = some th0 ∧
      th0.dead = false ∧ th0.vm ≠ .destroyed ∧ th0.inst = e.1 ∧ th0.attached = true := by
    intro e he u hu hut
    rw [hne u hut]; exact (h.b e he).2.2 u hu
  refine ⟨?_, ?_, ?_, ?_, fun ev he => by rw [hne ev.1 (hev ev he)]; exact h.e ev he⟩
  · intro u th' hu hvm
    show th'.inst ∈ X ∨ u ∈ instChain (riInsts s.insts t th.inst) th'.inst
    have hu' : thFind (s.setTh t g).threads u = some th' := hu
    by_cases hut : u = t
    · subst hut
      rw [hself] at hu'; cases hu'
      have := hghv th hvm; rw [hv] at this; cases this
    · rw [hne u hut] at hu'
      rcases h.a u th' hu' hvm with m | m
      · exact Or.inl m
      · right
        by_cases hi : th'.inst = th.inst
        · rw [hi] at m ⊢
          unfold instChain at m
          cases hfd : s.insts.find? (·.1 == th.inst) with
          | none => rw [hfd] at m; simp at m
          | some e0 =>
            rw [hfd] at m
            simp only [Option.map_some, Option.getD_some] at m
            have hme : u ∈ e0.2.erase t := (List.mem_erase_of_ne hut).2 m
            unfold riInsts
            simp only [hfd]
            rw [if_neg (List.ne_nil_of_mem m), if_neg (List.ne_nil_of_mem hme)]
            rw [instChain_map_self, hfd]
            exact hme
        · rw [instChain_riInsts_ne _ _ _ _ hi]; exact m
  · intro e' he'
    show e'.2 ≠ [] ∧ e'.2.Nodup ∧ ∀ u ∈ e'.2, ∃ th0, thFind (s.setTh t g).threads u = some th0 ∧ _
    have he'' : e' ∈ riInsts s.insts t th.inst := he'
    unfold riInsts at he''
    cases hfd : s.insts.find? (·.1 == th.inst) with
    | none =>
      rw [hfd] at he''
      simp only at he''
      have hk : e'.1 ≠ th.inst := by
        have := List.find?_eq_none.1 hfd e' he''
        simpa using this
      obtain ⟨b1, b2, _⟩ := h.b e' he''
      exact ⟨b1, b2, fun u hu => hmember e' he'' u hu (hother e' he'' hk u hu)⟩
    | some e0 =>
      rw [hfd] at he''
      simp only at he''
      have he0 : e0 ∈ s.insts := List.mem_of_find?_eq_some hfd
      have hk0 : e0.1 = th.inst := by simpa using List.find?_some hfd
      obtain ⟨c1, c2, c3⟩ := h.b e0 he0
      rw [if_neg c1] at he''
      split at he''
      · -- the instance goes
        obtain ⟨hm, hk⟩ := List.mem_filter.1 he''
        have hk : e'.1 ≠ th.inst := by simpa using hk
        obtain ⟨b1, b2, _⟩ := h.b e' hm
        exact ⟨b1, b2, fun u hu => hmember e' hm u hu (hother e' hm hk u hu)⟩
      · rename_i hne'
        obtain ⟨e, hm, rfl⟩ := List.mem_map.1 he''
        by_cases hk : e.1 = th.inst
        · have hb : (e.1 == th.inst) = true := by simpa using hk
          simp only [hb, if_true]
          refine ⟨hne', c2.erase t, ?_⟩
          intro u hu
          have hu2 := (c2.mem_erase_iff).1 hu
          obtain ⟨th0, k1, k2, k3, k4, k5⟩ := hmember e0 he0 u hu2.2 hu2.1
          exact ⟨th0, k1, k2, k3, by rw [k4, hk0, hk], k5⟩
        · have hb : (e.1 == th.inst) = false := by simpa using hk
          simp only [hb, Bool.false_eq_true, if_false]
          obtain ⟨b1, b2, _⟩ := h.b e hm
          exact ⟨b1, b2, fun u hu => hmember e hm u hu (hother e hm hk u hu)⟩
  · intro u th' hu
    have hu' : thFind (s.setTh t g).threads u = some th' := hu
    show th'.inst < s.nextInst
    by_cases hut : u = t
    · subst hut
      rw [hself] at hu'; cases hu'
      rw [hginst]; exact h.c u th hf
    · rw [hne u hut] at hu'; exact h.c u th' hu'
  · intro i hi
    refine ⟨(h.d i hi).1, ?_⟩
    intro e' he'
    obtain ⟨e, hm, hk⟩ := riInsts_keys s.insts t th.inst e' he'
    rw [← hk]; exact (h.d i hi).2 e hm

/-! ### `NotifyDelete`, the end of `~ScriptThread`, the epilogue of `ScriptVM::Execute` -/

theorem J.ndel {X : List Nat} {s : State} (h : J X s) {t : Nat} (hv : NoVM s t) (hev : NoEv s t) :
    J X (notifyDelete s t) := by
  unfold notifyDelete
  cases hf : s.th? t with
  | none => exact h
  | some th =>
    rw [State.th?_eq] at hf
    simp only
    have h2 : J X (if th.attached = true then removeFromInst (s.setTh t fun th => { th with vm := .destroyed }) t th.inst
        else s.setTh t fun th => { th with vm := .destroyed }) := by
      split
      · exact h.unlink hf (hv th hf) _ (fun _ => rfl) (fun _ hx => hx) hev
      · rename_i hatt
        refine h.setTh_unchained t (fun th => { th with vm := .destroyed }) ?_ (fun _ => rfl) (fun _ hx => hx) (Or.inl hev)
        intro e he hm
        obtain ⟨th0, h0, _, _, _, h5⟩ := (h.b e he).2.2 t hm
        rw [hf] at h0; cases h0
        exact hatt h5
    split
    · exact h2.setTh t _
    · exact h2

theorem J.fdel {X : List Nat} {s : State} (h : J X s) {t : Nat} (hg : Gone s t) : J X (finishDelete s t) := by
  have hu : Unchained s t := h.unchained_of_destroyed (fun th hf => (hg th hf).2)
  have hev : NoEv s t := h.noEv_of_destroyed (fun th hf => (hg th hf).2)
  unfold finishDelete
  split
  · exact h
  · split
    · exact h.setTh_unchained t (fun th => { th with dead := true }) hu (fun _ => rfl) (fun _ hx => hx) (Or.inl hev)
    · exact h.filterTh t hu hev

theorem J.epi {X : List Nat} {s : State} (h : J X s) (t : Nat) : J X (vmEpilogue s t) := by
  unfold vmEpilogue
  cases hf : s.th? t with
  | none => exact h
  | some th =>
    rw [State.th?_eq] at hf
    simp only
    split
    · exact h.setTh t _ (fun _ => rfl) (fun _ => rfl) (fun _ => rfl) (fun _ hx => hx) (fun _ hx => by cases hx)
    · rename_i hd
      exact h.filterTh t (h.unchained_of_destroyed (fun th0 h0 => by rw [hf] at h0; cases h0; exact hd))
        (h.noEv_of_destroyed (fun th0 h0 => by rw [hf] at h0; cases h0; exact hd))
    · exact h

/-! ### thread creation -/

theorem thFind_append_new {ths : List (Nat × Th)} {t' : Nat} (r : Th) (hfresh : thFind ths t' = none) (u : Nat) (th : Th) :
    thFind (ths ++ [(t', r)]) u = some th ↔ thFind ths u = some th ∨ (u = t' ∧ th = r) := by
  rw [thFind_append]
  cases hu : thFind ths u with
  | some x =>
    simp only
    constructor
    · intro e; exact Or.inl e
    · rintro (e | ⟨e1, _⟩)
      · exact e
      · rw [e1, hfresh] at hu; cases hu
  | none =>
    simp only
    constructor
    · intro e
      split at e
      · right; simp at e; exact ⟨by assumption, e.symm⟩
      · cases e
    · rintro (e | ⟨e1, e2⟩)
      · cases e
      · simp [e1, e2]

/-- a new thread joins the listed (or exempt) instance `i` -/
theorem J.spawnIn {X : List Nat} {s : State} (h : J X s) (hn : NInv s) (r : Th) (i : Nat) (hr : r.inst = i)
    (hd : r.dead = false) (hv : r.vm = .running) (ha : r.attached = true)
    (hi : i ∈ X ∨ ∃ u, u ∈ instChain s.insts i) (hlt : i < s.nextInst) :
    J X { s with nextTid := s.nextTid + 1, threads := s.threads ++ [(s.nextTid, r)],
                 insts := s.insts.map (fun e => if e.1 == i then (e.1, s.nextTid :: e.2) else e) } := by
  have hfresh : thFind s.threads s.nextTid = none := by
    cases hf : thFind s.threads s.nextTid with
    | none => rfl
    | some th0 => have := (hn.range _ _ hf).2; omega
  have hchain : ∀ j u, u ∈ instChain s.insts j →
      u ∈ instChain (s.insts.map (fun e => if e.1 == i then (e.1, s.nextTid :: e.2) else e)) j := by
    intro j u hu
    by_cases hj : j = i
    · subst hj
      rw [instChain_map_self]
      unfold instChain at hu
      cases hfd : s.insts.find? (·.1 == j) with
      | none => rw [hfd] at hu; simp at hu
      | some e0 => rw [hfd] at hu; simp at hu; exact List.mem_cons_of_mem _ hu
    · rw [instChain_map_ne _ _ _ _ hj]; exact hu
  refine ⟨?_, ?_, ?_, ?_, fun ev he => by
    obtain ⟨th, h1, h2⟩ := h.e ev he
    exact ⟨th, (thFind_append_new r hfresh _ th).2 (Or.inl h1), h2⟩⟩
  · intro u th hu hvm
    rcases (thFind_append_new r hfresh u th).1 hu with h1 | ⟨h1, h2⟩
    · rcases h.a u th h1 hvm with m | m
      · exact Or.inl m
      · exact Or.inr (hchain _ _ m)
    · subst h1; subst h2
      rw [hr]
      rcases hi with m | ⟨u0, hu0⟩
      · exact Or.inl m
      · right
        show s.nextTid ∈ instChain (s.insts.map _) i
        rw [instChain_map_self]
        unfold instChain at hu0
        cases hfd : s.insts.find? (·.1 == i) with
        | none => rw [hfd] at hu0; simp at hu0
        | some e0 => exact List.mem_cons_self
  · intro e' he'
    obtain ⟨e, hm, rfl⟩ := List.mem_map.1 he'
    obtain ⟨b1, b2, b3⟩ := h.b e hm
    have hold : ∀ u ∈ e.2, ∃ th, thFind (s.threads ++ [(s.nextTid, r)]) u = some th ∧ th.dead = false ∧
        th.vm ≠ .destroyed ∧ th.inst = e.1 ∧ th.attached = true := by
      intro u hu
      obtain ⟨th, k1, k⟩ := b3 u hu
      exact ⟨th, (thFind_append_new r hfresh u th).2 (Or.inl k1), k⟩
    by_cases hk : e.1 = i
    · have hb : (e.1 == i) = true := by simpa using hk
      simp only [hb, if_true]
      refine ⟨by simp, ?_, ?_⟩
      · refine List.nodup_cons.2 ⟨?_, b2⟩
        intro hm'
        obtain ⟨th, k1, _⟩ := b3 _ hm'
        rw [hfresh] at k1; cases k1
      · intro u hu
        rcases List.mem_cons.1 hu with hu | hu
        · subst hu
          exact ⟨r, (thFind_append_new r hfresh _ r).2 (Or.inr ⟨rfl, rfl⟩), hd, by rw [hv]; simp, by rw [hr, hk], ha⟩
        · exact hold u hu
    · have hb : (e.1 == i) = false := by simpa using hk
      simp only [hb, Bool.false_eq_true, if_false]
      exact ⟨b1, b2, hold⟩
  · intro u th hu
    rcases (thFind_append_new r hfresh u th).1 hu with h1 | ⟨_, h2⟩
    · exact h.c u th h1
    · subst h2; rw [hr]; exact hlt
  · intro i' hi'
    refine ⟨(h.d i' hi').1, ?_⟩
    intro e' he'
    obtain ⟨e, hm, rfl⟩ := List.mem_map.1 he'
    have := (h.d i' hi').2 e hm
    split <;> exact this

/-- a new thread with a new script instance of its own -/
theorem J.spawnFresh {X : List Nat} {s : State} (h : J X s) (hn : NInv s) (r : Th) (hr : r.inst = s.nextInst)
    (hd : r.dead = false) (hv : r.vm = .running) (ha : r.attached = true) :
    J X { s with nextTid := s.nextTid + 1, nextInst := s.nextInst + 1, threads := s.threads ++ [(s.nextTid, r)],
                 insts := (s.nextInst, [s.nextTid]) :: s.insts } := by
  have hfresh : thFind s.threads s.nextTid = none := by
    cases hf : thFind s.threads s.nextTid with
    | none => rfl
    | some th0 => have := (hn.range _ _ hf).2; omega
  refine ⟨?_, ?_, ?_, ?_, fun ev he => by
    obtain ⟨th, h1, h2⟩ := h.e ev he
    exact ⟨th, (thFind_append_new r hfresh _ th).2 (Or.inl h1), h2⟩⟩
  · intro u th hu hvm
    show th.inst ∈ X ∨ u ∈ instChain ((s.nextInst, [s.nextTid]) :: s.insts) th.inst
    rw [instChain_cons]
    rcases (thFind_append_new r hfresh u th).1 hu with h1 | ⟨h1, h2⟩
    · have := h.c u th h1
      have hne : ¬ s.nextInst = th.inst := by omega
      simp only [hne, if_false]
      exact h.a u th h1 hvm
    · subst h1; subst h2
      right; simp [hr]
  · intro e' he'
    rcases List.mem_cons.1 he' with he' | he'
    · subst he'
      refine ⟨by simp, by simp, ?_⟩
      intro u hu
      simp at hu; subst hu
      exact ⟨r, (thFind_append_new r hfresh _ r).2 (Or.inr ⟨rfl, rfl⟩), hd, by rw [hv]; simp, hr, ha⟩
    · obtain ⟨b1, b2, b3⟩ := h.b e' he'
      refine ⟨b1, b2, ?_⟩
      intro u hu
      obtain ⟨th, k1, k⟩ := b3 u hu
      exact ⟨th, (thFind_append_new r hfresh u th).2 (Or.inl k1), k⟩
  · intro u th hu
    show th.inst < s.nextInst + 1
    rcases (thFind_append_new r hfresh u th).1 hu with h1 | ⟨_, h2⟩
    · have := h.c u th h1; omega
    · subst h2; rw [hr]; omega
  · intro i' hi'
    have hd := h.d i' hi'
    refine ⟨by show i' < s.nextInst + 1; omega, ?_⟩
    intro e' he'
    rcases List.mem_cons.1 he' with he' | he'
    · subst he'; show s.nextInst ≠ i'; omega
    · exact hd.2 e' he'

end Morfuse.Sched
