import MorfuseModel.Sched.MachineInstQuiet
/-!
# `J` through the executing half of the machine (`Unregister` that wakes, `StoppedWaitFor`, instructions,
`Process`, `ScriptVM::Execute`, the timer loop, `ScriptExecuteInternal`)

Second pass over the skeleton of `MachineInv{Notify,Instr,Main,All}`: the statements have the hypotheses
of the first pass (`Inv …`, from which the intermediate states' `Inv` is obtained with the first-pass
lemmas) plus `J X s`, and conclude `J X` of the result (modulo fuel).  The destruction cascades inside are
covered by `jqAll` (no `Inv` needed).
-/
namespace Morfuse.Sched
open State

theorem Ok.and {a : State} {P R : Prop} (h1 : Ok a P) (h2 : Ok a R) : Ok a (P ∧ R) := by
  rcases h1 with h1 | h1
  · exact Or.inl h1
  · rcases h2 with h2 | h2
    · exact Or.inl h2
    · exact Or.inr ⟨h1, h2⟩

/-! ### statements -/

def JUr (f : State → Nat → Nat → State) : Prop :=
  ∀ X C W s src name, Inv C W none s → (C = [] ∨ name = 0 ∨ QSrc src name) → J X s → Ok (f s src name) (J X (f s src name))

def JSwf (f : State → Nat → Nat → Bool → State) : Prop :=
  ∀ X C W s t name d, Inv C (t :: W) none s →
    (name ≠ 0 → d = false → C = [] ∧ ∀ th, thFind s.threads t = some th → th.ts = .waiting → th.vm = .idling) →
    J X s → Ok (f s t name d) (J X (f s t name d))

def JSei (f : State → Nat → State) : Prop :=
  ∀ X W s t th, Inv [] (t :: W) none s → thFind s.threads t = some th → th.hasVM = true → J X s →
    Ok (f s t) (J X (f s t))

def JEr (f : State → State) : Prop := ∀ X W s, Inv [] W none s → J X s → Ok (f s) (J X (f s))

def JEv (f : State → Nat → State) : Prop :=
  ∀ X W s t th, Inv [] W none s → thFind s.threads t = some th → th.hasVM = true → th.ts = .running →
    (s.cur = some t ∨ s.cur = none) → J X s → Ok (f s t) (J X (f s t))

def JPr (f : State → Nat → State) : Prop :=
  ∀ X W s t, Inv [] W (some t) s → (s.cur = some t ∨ s.cur = none) →
    (∀ th, thFind s.threads t = some th → th.vm = .running → th.hasVM = true) → J X s →
    Ok (f s t) (J X (f s t))

def JEx (f : State → Nat → Th → Instr → State) : Prop :=
  ∀ X W s t th0 th ins, Inv [] W none s → thFind s.threads t = some th0 → th0.vm = .running →
    th0.hasVM = true → (th.parent = 0 ∨ 100 ≤ th.parent) → Instr.ok ins → (s.cur = some t ∨ s.cur = none) →
    th.inst = th0.inst → J X s → Ok (f s t th ins) (J X (f s t th ins))

/-! ### small steps -/

theorem vmSuspend_jr (X : List Nat) (s : State) (t : Nat) : JR X s (vmSuspend s t) := by
  unfold vmSuspend
  exact JR.setTh X s t _ (fun x => by split <;> rfl) (fun x => by split <;> rfl) (fun x => by split <;> rfl)
    (fun x hx => by split at hx <;> exact hx) (fun x hx => by
      split at hx
      · cases hx
      · exact hx)

theorem vmResume_jr (X : List Nat) (s : State) (t : Nat) : JR X s (vmResume s t) := by
  unfold vmResume
  exact JR.setTh X s t _ (fun x => by split <;> rfl) (fun x => by split <;> rfl) (fun x => by split <;> rfl)
    (fun x hx => by split at hx <;> exact hx) (fun x hx => by
      split at hx
      · cases hx
      · exact hx)

theorem pushNotify_ninv {s : State} (h : NInv s) (o n c : Nat) (hc : 100 ≤ c) (ho : o < 100 ∨ NameOK n) :
    NInv { s with notify := Tbl.push s.notify (o, n) c } := by
  refine { h with wfN := h.wfN.push _ _, n1 := ?_, nMem := ?_ }
  · intro src n' hsrc hne
    simp only [Tbl.getD_push] at hne
    split at hne
    · rename_i hk
      have : src = o ∧ n' = n := by simpa using hk
      rcases ho with ho | ho
      · omega
      · rw [this.2]; exact ho
    · exact h.n1 src n' hsrc hne
  · intro k x hx
    simp only [Tbl.getD_push] at hx
    split at hx
    · rcases List.mem_append.1 hx with hx | hx
      · exact h.nMem _ x hx
      · simp at hx; omega
    · exact h.nMem k x hx

theorem regWait_jr (fuel : Nat) (X : List Nat) {s : State} (h : NInv s) (o n c : Nat) (hc : 100 ≤ c)
    (ho : o < 100 ∨ NameOK n) : JR X s (regWait (stop fuel) s o n c) := by
  unfold regWait
  simp only
  have h1 := pushNotify_ninv h o n c hc ho
  have q1 : JR X s { s with notify := Tbl.push s.notify (o, n) c } := JR.frame rfl rfl rfl
  split
  · exact (((q1.trans ((jqAll fuel).stp X _ c h1)).trans (JR.setTh X _ c (fun th => { th with ts := .waiting }))).trans
      (vmSuspend_jr X _ c)).trans (JR.frame rfl rfl rfl)
  · exact q1.trans (JR.frame rfl rfl rfl)

theorem waitOn_jr (fuel : Nat) (X : List Nat) {s : State} (h : NInv s) (p ms : Nat) :
    JR X s (waitOn (stop fuel) s p ms) := by
  unfold waitOn
  have a1 := (jqAll fuel).stp X s p h
  have a2 := JR.setTh X (stop fuel s p) p (fun th => { th with ts := .timing })
  have a3 : JR X ((stop fuel s p).setTh p fun th => { th with ts := .timing })
      (addTiming ((stop fuel s p).setTh p fun th => { th with ts := .timing }) p ms) := JR.frame rfl rfl rfl
  exact ((a1.trans a2).trans a3).trans (vmSuspend_jr X _ p)

theorem waitOnGuarded_jr (fuel : Nat) (X : List Nat) {s : State} (h : NInv s) (p ms : Nat) :
    JR X s (waitOnGuarded (stop fuel) s p ms) := by
  unfold waitOnGuarded
  split
  · exact (jqAll fuel).stp X s p h
  · exact waitOn_jr fuel X h p ms

theorem endResult_jr (X : List Nat) (s : State) (th : Th) (ev : EndV) : JR X s (endResult s th ev) := by
  unfold endResult
  simp only
  split
  · exact JR.refl X s
  · split <;> first | exact JR.frame rfl rfl rfl | exact JR.refl X s

/-! ### the wake loop and `Unregister(name)` -/

theorem wakeFold_j {swf : State → Nat → Nat → Bool → State} (hp : Pres3 swf) (hswf : ISwf swf) (hj : JSwf swf)
    (X C W : List Nat) (name : Nat) :
    ∀ (L : List Nat) (s : State), Inv C (L ++ W) none s → (name ≠ 0 → C = [] ∧ ∀ l ∈ L, IdleP s l) → J X s →
      Ok (L.foldl (fun s l => if s.alive l then swf s l name false else s) s)
        (J X (L.foldl (fun s l => if s.alive l then swf s l name false else s) s))
  | [], _, _, _, j => Ok.pure j
  | l :: L, s, h, hside, j => by
    simp only [List.foldl_cons]
    have hrest : ∀ s1 : State, Pres s1 (L.foldl (fun s l => if s.alive l then swf s l name false else s) s1) :=
      fun s1 => Pres.foldl _ (fun s a => by split; exact hp _ _ _ _; exact Pres.refl s) L s1
    by_cases ha : s.alive l = true
    · simp only [ha, if_true]
      have hpre : name ≠ 0 → false = false → C = [] ∧ ∀ th, thFind s.threads l = some th → th.ts = .waiting → th.vm = .idling := by
        intro hn _
        obtain ⟨hC, hI⟩ := hside hn
        refine ⟨hC, ?_⟩
        intro th hth hw
        rcases (hI l List.mem_cons_self).2 th hth with e | e
        · exact e
        · have r := h.th l th hth
          have := r.f1 (r.f5 e); rw [hw] at this; cases this
      refine ((hswf C (L ++ W) s l name false h hpre).and (hj X C (L ++ W) s l name false h hpre j)).bind (hrest _)
        (fun p => ?_)
      refine wakeFold_j hp hswf hj X C W name L _ p.1.1 (fun hn => ?_) p.2
      obtain ⟨hC, hI⟩ := hside hn
      exact ⟨hC, fun l' hl' => (hI l' (List.mem_cons_of_mem _ hl')).of_g p.1.2⟩
    · simp only [ha]
      exact wakeFold_j hp hswf hj X C W name L s (h.dropW_not_alive ha)
        (fun hn => ⟨(hside hn).1, fun l' hl' => (hside hn).2 l' (List.mem_cons_of_mem _ hl')⟩) j

theorem unregNotify_j {fuel : Nat} (hswf : ISwf (stoppedWaitFor fuel)) (hsn : ISn (stoppedNotify fuel))
    (hj : JSwf (stoppedWaitFor fuel)) {X C W : List Nat} {s : State} (h : Inv C W none s) (src name : Nat)
    (hside : C = [] ∨ name = 0 ∨ QSrc src name) (j : J X s) :
    Ok (unregNotify (stoppedWaitFor fuel) (stoppedNotify fuel) s src name)
      (J X (unregNotify (stoppedWaitFor fuel) (stoppedNotify fuel) s src name)) := by
  unfold unregNotify
  split
  · exact Ok.pure j
  · cases hf : Tbl.find s.notify (src, name) with
    | none => exact Ok.pure j
    | some list =>
      simp only [unregisterTargets_eq_purge, wakeLoop]
      obtain ⟨h1, hidle1⟩ := unregNotify_mid h src name list hf hside
      have j1 : J X ({ ({ s with waitFor := (Tbl.purge s.alive s.waitFor src name list []).1 } : State) with
            notify := Tbl.removeKey s.notify (src, name) }) := j.congr rfl rfl rfl
      have P := presAll fuel
      split
      · refine (hsn C _ _ src h1).bind ?_ (fun p2 => ?_)
        · exact Pres.foldl _ (fun s a => by split; exact P.swf _ _ _ _; exact Pres.refl s) _ _
        have g2 : G _ (stoppedNotify fuel _ src) := ((qAll fuel).sn [] _ src h1.n).toG
        exact wakeFold_j P.swf hswf hj X C W name _ _ p2
          (fun hn => ⟨(hidle1 hn).1, fun l hl => ((hidle1 hn).2 l hl).of_g g2⟩) ((jqAll fuel).sn X _ src h1.n j1)
      · exact wakeFold_j P.swf hswf hj X C W name _ _ h1 hidle1 j1

theorem unregister_j_succ {fuel : Nat} (hj : JSwf (stoppedWaitFor fuel)) : JUr (unregister (fuel + 1)) := by
  intro X C W s src name h hside j
  have I := iAll fuel
  rw [unregister_succ]
  have P := presAll fuel
  have j1 := unregEndOn_jr (nAll fuel).dt (jqAll fuel).dt X h.n src name j
  split
  · exact Ok.pure j1
  · refine (unregEndOn_inv P.dt I.dt h src name).bind (unregNotify_pres P.swf P.sn _ _ _) (fun p => ?_)
    exact unregNotify_j I.swf I.sn hj p src name hside j1

/-! ### `StoppedWaitFor` -/

theorem stoppedWaitFor_j_succ {fuel : Nat} (hsei : JSei (scriptExecuteInternal fuel)) :
    JSwf (stoppedWaitFor (fuel + 1)) := by
  intro X C W s t name d h hside j
  rw [stoppedWaitFor_succ]
  split
  · exact Ok.pure j
  · cases hf : s.th? t with
    | none => exact Ok.pure j
    | some th =>
      rw [State.th?_eq] at hf
      simp only
      split
      · exact Ok.pure j
      · rename_i hv
        have hvm : th.hasVM = true := by simpa using hv
        split
        · exact Ok.pure ((jqAll fuel).dt X s t h.n j)
        · rename_i hd
          have hd' : d = false := by simpa using hd
          split
          · rename_i hw
            have hw' : th.ts = .waiting := by simpa using hw
            split
            · rename_i hname
              have hname' : name ≠ 0 := by simpa using hname
              obtain ⟨hC, hidle⟩ := hside hname' hd'
              subst hC
              have hvi := hidle th hf hw'
              simp only [hvi, beq_self_eq_true, if_true]
              have i1 : Inv [] (t :: W) none (cancelEvents s t) := cancelEvents_inv h t
              exact hsei X W _ t th i1 hf hvm (cancelEvents_jr X s t j)
            · exact Ok.pure (((cancelEvents_jr X s t).trans
                (startTiming_jr (jqAll fuel).stp X (cancelEvents_ninv h.n t) t)) j)
          · exact Ok.pure (cancelEvents_jr X s t j)

/-! ### instructions -/

structure JHx (fuel : Nat) : Prop where
  ur : JUr (unregister fuel)
  sei : JSei (scriptExecuteInternal fuel)

theorem exec_delete_j {fuel : Nat} (jh : JHx fuel) {X W : List Nat} {s : State} {t : Nat} {th : Th}
    (h : Inv [] W none s) (o : Nat) (j : J X s) :
    Ok (exec (fuel + 1) s t th (.delete o)) (J X (exec (fuel + 1) s t th (.delete o))) := by
  have ih := iAll fuel
  rw [exec_delete]
  split
  · exact Ok.pure j
  · have P := presAll fuel
    refine ((ih.ur [] W s o nameDelete h (Or.inl rfl)).and (jh.ur X [] W s o nameDelete h (Or.inl rfl) j)).bind ?_ (fun p1 => ?_)
    · exact Pres.trans (b := cancelWaitingAll fuel (unregisterAll fuel (unregister fuel (unregister fuel s o nameDelete) o nameRemove) o) o)
        (((P.ur _ o nameRemove).trans (P.ua _ o)).trans (P.cwa _ o)) (Pres.of_eq rfl rfl rfl)
    refine ((ih.ur [] W _ o nameRemove p1.1.1 (Or.inl rfl)).and (jh.ur X [] W _ o nameRemove p1.1.1 (Or.inl rfl) p1.2)).bind ?_ (fun p2 => ?_)
    · exact Pres.trans (b := cancelWaitingAll fuel (unregisterAll fuel (unregister fuel (unregister fuel s o nameDelete) o nameRemove) o) o)
        ((P.ua _ o).trans (P.cwa _ o)) (Pres.of_eq rfl rfl rfl)
    have j3 := (jqAll fuel).ua X _ o p2.1.1.n p2.2
    have n3 := (nAll fuel).ua _ o p2.1.1.n
    have j4 := (jqAll fuel).cwa X _ o n3 j3
    exact Ok.pure (j4.congr rfl rfl rfl)

theorem exec_thread_j {fuel : Nat} (jh : JHx fuel) {X W : List Nat} {s : State} {t : Nat} {th0 th : Th}
    (h : Inv [] W none s) (r : Running s t th0) (hinst : th.inst = th0.inst) (l : Nat) (j : J X s) :
    Ok (exec (fuel + 1) s t th (.thread l)) (J X (exec (fuel + 1) s t th (.thread l))) := by
  rw [exec_thread]
  split
  · exact Ok.pure j
  · have ht : 100 ≤ t := (h.n.range t th0 r.find).1
    obtain ⟨i1, g1, r1, hr1, hv1⟩ := spawnSame_inv h t th l ht
    have hi : th.inst ∈ X ∨ ∃ u, u ∈ instChain s.insts th.inst := by
      rw [hinst]
      rcases j.a t th0 r.find r.hasVM with m | m
      · exact Or.inl m
      · exact Or.inr ⟨t, m⟩
    have j1 : J X (spawnSame s t th l) :=
      (j.spawnIn h.n ({ label := l, inst := th.inst, params := bindLoop (s.progParams.getD l 0) 0 [], parent := t } : Th)
        th.inst rfl rfl rfl rfl hi (by rw [hinst]; exact j.c t th0 r.find)).congr rfl rfl rfl
    exact jh.sei X W _ s.nextTid r1 (i1.consW _) hr1 hv1 j1

theorem exec_waitthread_j {fuel : Nat} (jh : JHx fuel) {X W : List Nat} {s : State} {t : Nat} {th0 th : Th}
    (h : Inv [] W none s) (r : Running s t th0) (hcur : s.cur = some t ∨ s.cur = none) (l : Nat) (j : J X s) :
    Ok (exec (fuel + 1) s t th (.waitthread l)) (J X (exec (fuel + 1) s t th (.waitthread l))) := by
  rw [exec_waitthread]
  split
  · exact Ok.pure j
  · have ht : 100 ≤ t := (h.n.range t th0 r.find).1
    obtain ⟨i1, g1, r1, hr1, hv1, hd1⟩ := spawnNew_inv h t l ht
    have j1 : J X (spawnNew s t l) :=
      (j.spawnFresh h.n ({ label := l, inst := s.nextInst, params := bindLoop (s.progParams.getD l 0) 0 [], parent := t } : Th)
        rfl rfl rfl rfl).congr rfl rfl rfl
    cases hc : s.cur with
    | none =>
      simp only
      exact jh.sei X W _ s.nextTid r1 (i1.consW _) hr1 hv1 j1
    | some c =>
      have hct : c = t := by
        rcases hcur with e | e
        · rw [hc] at e; exact Option.some.inj e
        · rw [hc] at e; cases e
      subst hct
      simp only
      have hne : s.nextTid ≠ c := by have := (h.n.range c th0 r.find).2; omega
      have hkeep : thFind (spawnNew s c l).threads c = some th0 := by
        show thFind (s.threads ++ [_]) c = _
        rw [thFind_append, r.find]
      have r' : Running (spawnNew s c l) c th0 := ⟨hkeep, r.vm, r.hasVM⟩
      have halive : (spawnNew s c l).alive s.nextTid = true := by
        rw [State.alive_thread _ (by simp [State.isThread]; exact h.n.tid100)]
        exact (aliveTh_iff i1.n.nodup _).2 ⟨r1, hr1, hd1⟩
      have j2 : J X (regWait (stop fuel) (spawnNew s c l) s.nextTid 0 c) :=
        regWait_jr fuel X i1.n s.nextTid 0 c ht (Or.inr nameOK_zero) j1
      refine (regWait_inv (fuel := fuel) none s.nextTid 0 (i1.toTop c) (fun _ => ⟨th0, hkeep, r.vm, r.hasVM⟩)
        halive (Or.inr nameOK_zero) (Or.inr ⟨rfl, r'.noOwner i1⟩)).bind ((presAll fuel).sei _ _) (fun p => ?_)
      obtain ⟨p1, p2, _, _, p5, p6⟩ := p
      have hr2 : thFind (regWait (stop fuel) (spawnNew s c l) s.nextTid 0 c).threads s.nextTid = some r1 := by
        rw [p5 _ hne]; exact hr1
      exact jh.sei X W _ s.nextTid r1 (p1.consW _) hr2 hv1 j2

theorem exec_j_succ {fuel : Nat} (jh : JHx fuel) : JEx (exec (fuel + 1)) := by
  intro X W s t th0 th ins h hth0 hvm0 hhv0 hp hok hcur hinst j
  have r : Running s t th0 := ⟨hth0, hvm0, hhv0⟩
  have ht : 100 ≤ t := (h.n.range t th0 hth0).1
  cases ins with
  | mark k => rw [exec_mark]; exact Ok.pure (j.congr rfl rfl rfl)
  | pparam i => rw [exec_pparam]; exact Ok.pure (j.congr rfl rfl rfl)
  | wait ms => rw [exec_wait]; exact Ok.pure (waitOn_jr fuel X h.n t ms j)
  | waittill o names =>
    rw [exec_waittill]
    split
    · exact Ok.pure j
    · rename_i hoa
      have hoa' : s.objAlive o = true := by simpa using hoa
      have ho : o < 100 := objAlive_lt h.n hoa'
      cases hc : s.cur with
      | none => exact Ok.pure j
      | some c =>
        have hc100 : 100 ≤ c := h.n.cur c hc
        simp only
        exact Ok.pure (JR.foldl (X := X) (fun s n => regWait (stop fuel) s o n c)
          (fun s n hs => regWait_ninv (nAll fuel).stp hs o n c hc100 (Or.inl ho))
          (fun s n hs => regWait_jr fuel X hs o n c hc100 (Or.inl ho)) names s h.n j)
  | waittillTimeout o n ms =>
    rw [exec_waittillTimeout]
    split
    · exact Ok.pure j
    · rename_i hoa
      have hoa' : s.objAlive o = true := by simpa using hoa
      have ho : o < 100 := objAlive_lt h.n hoa'
      cases hc : s.cur with
      | none => exact Ok.pure j
      | some c =>
        have hc100 : 100 ≤ c := h.n.cur c hc
        have hct : c = t := by
          rcases hcur with e | e
          · rw [hc] at e; exact Option.some.inj e
          · rw [hc] at e; cases e
        subst hct
        simp only
        have j1 := regWait_jr fuel X h.n o n c hc100 (Or.inl ho) j
        refine (regWait_inv (fuel := fuel) (some c) o n (h.toTop c) (fun _ => ⟨th0, r.find, r.vm, r.hasVM⟩)
          (objAlive_alive h.n hoa') (Or.inl ho) (Or.inl rfl)).bind (postEvent_pres _ _ _) (fun p => ?_)
        obtain ⟨p1, _, p3, _⟩ := p
        -- the waiting thread is a record with a live VM
        obtain ⟨thc, hfc, hwc⟩ : ∃ th, thFind (regWait (stop fuel) s o n c).threads c = some th ∧ th.ts = .waiting := by
          rcases p1.lnk.linkC c p3 with m | m
          · cases m
          · exact m
        have rc := p1.th c thc hfc
        have hvc : thc.vm ≠ .destroyed := by
          intro e
          have := rc.f1 (rc.f5 e)
          rw [hwc] at this; cases this
        refine Ok.pure ⟨j1.a, j1.b, j1.c, j1.d, ?_⟩
        intro ev he
        have he' : ev ∈ (regWait (stop fuel) s o n c).events.takeWhile (fun e => e.2 ≤ (regWait (stop fuel) s o n c).clock + ms) ++
            (c, (regWait (stop fuel) s o n c).clock + ms) ::
              (regWait (stop fuel) s o n c).events.dropWhile (fun e => e.2 ≤ (regWait (stop fuel) s o n c).clock + ms) := he
        rcases List.mem_append.1 he' with hm | hm
        · exact j1.e ev ((List.takeWhile_sublist _).subset hm)
        · rcases List.mem_cons.1 hm with hm | hm
          · subst hm; exact ⟨thc, hfc, hvc⟩
          · exact j1.e ev ((List.dropWhile_sublist _).subset hm)
  | notify o n =>
    rw [exec_notify]
    split
    · exact Ok.pure j
    · exact jh.ur X [] W s o n h (Or.inl rfl) j
  | endon o n =>
    rw [exec_endon]
    split
    · exact Ok.pure j
    · split
      · exact Ok.pure j
      · exact Ok.pure (j.congr rfl rfl rfl)
  | delete o => exact exec_delete_j jh h o j
  | thread l => exact exec_thread_j jh h r hinst l j
  | waitthread l => exact exec_waitthread_j jh h r hcur l j
  | pause =>
    rw [exec_pause]
    exact Ok.pure ((((jqAll fuel).stp X s t h.n).trans (vmSuspend_jr X _ t)) j)
  | waitParent ms =>
    rw [exec_waitParent]
    split
    · exact Ok.pure j
    · exact Ok.pure (waitOnGuarded_jr fuel X h.n th.parent ms j)
  | waittillParent names =>
    rw [exec_waittillParent]
    split
    · exact Ok.pure j
    · cases hc : s.cur with
      | none => exact Ok.pure j
      | some c =>
        have hc100 : 100 ≤ c := h.n.cur c hc
        simp only
        exact Ok.pure (foldl_mem_inv (fun S => NInv S ∧ J X S) (fun s n => regWait (stop fuel) s th.parent n c) names s
          (fun n hn S hS => ⟨regWait_ninv (nAll fuel).stp hS.1 th.parent n c hc100 (Or.inr (hok n hn)),
            regWait_jr fuel X hS.1 th.parent n c hc100 (Or.inr (hok n hn)) hS.2⟩) ⟨h.n, j⟩).2
  | notifyParent n =>
    rw [exec_notifyParent]
    split
    · exact Ok.pure j
    · exact jh.ur X [] W s _ n h (Or.inl rfl) j
  | end_ ev =>
    rw [exec_end]
    have n2 : NInv ((endResult s th ev).setTh t fun th => { th with call := none }) :=
      (endResult_ninv h.n th ev).setTh t _
    exact Ok.pure ((((endResult_jr X s th ev).trans (JR.setTh X _ t (fun th => { th with call := none }))).trans
      ((jqAll fuel).dt X _ t n2)) j)
  | spawn o =>
    rw [exec_spawn]
    split
    · exact Ok.pure j
    · exact Ok.pure (j.congr rfl rfl rfl)

/-! ### `Process`, `ScriptVM::Execute`, the timer loop, `ScriptExecuteInternal` -/

theorem process_j_succ {fuel : Nat} (hex : JEx (exec fuel)) (hpr : JPr (process fuel)) : JPr (process (fuel + 1)) := by
  intro X W s t h hcur hvmhv j
  have I := iAll fuel
  rw [process_succ]
  cases hf : s.th? t with
  | none => exact Ok.pure j
  | some th =>
    rw [State.th?_eq] at hf
    simp only
    split
    · exact Ok.pure j
    · rename_i hv
      have hvm : th.vm = .running := by simpa using hv
      have hhv := hvmhv th hf hvm
      have hts : th.ts = .running := (h.th t th hf).f3 hvm
      have i0 : Inv [] W none s :=
        h.dropTop (fun th1 h1 hw => by rw [hf] at h1; cases h1; rw [hts] at hw; cases hw)
      have i1 : Inv [] W none (s.setTh t fun th => { th with pc := th.pc + 1 }) :=
        i0.setTh_plain t _ (fun _ => rfl) (fun _ => rfl) (fun _ => rfl)
          (fun th0 h0 => by have r := i0.th t th0 h0; exact ⟨r.f1, r.f2, r.f3, r.f5⟩) (fun _ => Or.inl rfl)
      have j1 : J X (s.setTh t fun th => { th with pc := th.pc + 1 }) := j.setTh t _
      have hfind1 : thFind (s.setTh t fun th => { th with pc := th.pc + 1 }).threads t =
          some { th with pc := th.pc + 1 } := by
        rw [State.setTh_threads, thFind_map_upd]; simp [hf]
      have P := presAll fuel
      refine ((I.ex W _ t _ th _ i1 hfind1 hvm hhv (h.n.parent t th hf) (h.n.prog.fetch _ _) hcur).and
        (hex X W _ t _ th _ i1 hfind1 hvm hhv (h.n.parent t th hf) (h.n.prog.fetch _ _) hcur rfl j1)).bind
        (P.pr _ _) (fun p => ?_)
      obtain ⟨p, pj⟩ := p
      have hcur1 : (exec fuel (s.setTh t fun th => { th with pc := th.pc + 1 }) t th
          ((s.prog.getD th.label []).getD th.pc (.end_ .none))).cur = some t ∨
          (exec fuel (s.setTh t fun th => { th with pc := th.pc + 1 }) t th
          ((s.prog.getD th.label []).getD th.pc (.end_ .none))).cur = none := by
        rcases p.2.cur with e | e
        · rw [e]; exact hcur
        · exact Or.inr e
      refine hpr X W _ t p.1 hcur1 ?_ pj
      intro th' hth' hvm'
      rcases p.2.lost t _ hfind1 hhv with e | ⟨th2, e, e2⟩
      · rw [e] at hth'; cases hth'
      · rw [hth'] at e; cases e
        rcases e2 with e2 | e2
        · exact e2
        · have := ((p.1.th t th' hth').f2 e2).2
          rw [hvm'] at this; cases this

theorem execVM_j_succ {fuel : Nat} (hpr : JPr (process fuel)) : JEv (execVM (fuel + 1)) := by
  intro X W s t th h hth hhv hts hcur j
  have I := iAll fuel
  rw [execVM_succ]
  have r := h.th t th hth
  have hd : th.dead = false := by
    cases hdd : th.dead with
    | false => rfl
    | true => have := (r.f2 hdd).1; rw [hhv] at this; cases this
  have i0' : Inv [] W none { (s.setTh t fun th => { th with vm := .running }) with timer := s.timer } :=
    h.setTh (C' := []) (W' := W) (top' := none) t (fun th => { th with vm := .running }) th s.timer hth
      (fun _ => rfl)
      ⟨fun hv => (by simp only at hv; rw [hhv] at hv; cases hv), fun hdd => (by simp only at hdd; rw [hd] at hdd; cases hdd),
        fun _ => hts, fun hv => (by cases hv)⟩
      (fun _ => rfl) (h.tim.setTh_same t _ (fun _ => rfl)) (fun x m _ => m) (fun x m _ => m) (Or.inl rfl)
      (fun ho => by
        rcases h.lnk.linkC t ho with m | ⟨th0, h0, hw0⟩
        · exact Or.inl m
        · rw [hth] at h0; cases h0; rw [hts] at hw0; cases hw0)
      (fun hw0 => by simp only at hw0; rw [hts] at hw0; cases hw0)
      (fun hw0 => by simp only at hw0; rw [hts] at hw0; cases hw0)
  have i0 : Inv [] W none (vmPrologue s t) := i0'.congr rfl rfl rfl rfl rfl rfl rfl rfl rfl
  have j0 : J X (vmPrologue s t) :=
    (j.setTh t (fun th => { th with vm := .running }) (fun _ => rfl) (fun _ => rfl) (fun _ => rfl) (fun _ hx => hx)
      (fun _ hx => by cases hx)).congr rfl rfl rfl
  have hthr0 : (vmPrologue s t).threads = s.threads.map (thUpd t fun th => { th with vm := .running }) := rfl
  have hfind0 : thFind (vmPrologue s t).threads t = some { th with vm := .running } := by
    rw [hthr0, thFind_map_upd]; simp [hth]
  refine (hpr X W _ t (i0.toTop t) hcur (fun th' h' _ => by rw [hfind0] at h'; cases h'; exact hhv) j0).bind
    ((Pres.of_eq rfl rfl rfl : Pres (process fuel (vmPrologue s t) t)
      { (process fuel (vmPrologue s t) t) with depth := (process fuel (vmPrologue s t) t).depth - 1 }).trans
      (vmEpilogue_pres _ _)) (fun p => ?_)
  exact Ok.pure ((p.congr (s' := { (process fuel (vmPrologue s t) t) with
      depth := (process fuel (vmPrologue s t) t).depth - 1 }) rfl rfl rfl).epi t)

theorem drain_j_succ {fuel : Nat} (hev : JEv (execVM fuel)) (hdr : JEr (drain fuel)) : JEr (drain (fuel + 1)) := by
  intro X W s h j
  have I := iAll fuel
  rw [drain_succ]
  cases hn : s.timer.next with
  | mk r tm =>
    cases r with
    | none => exact Ok.pure (j.congr rfl rfl rfl)
    | some ed =>
      obtain ⟨t, d⟩ := ed
      dsimp only
      obtain ⟨i, hi, _, _, htm⟩ := Timer.next_some hn
      have hmem : (t, d) ∈ s.timer.elems := List.mem_of_getElem? hi
      obtain ⟨th, hth, hts⟩ := h.tim.t1 (t, d) hmem
      have ht100 : 100 ≤ t := (h.n.range t th hth).1
      have rr := h.th t th hth
      have hhv : th.hasVM = true := by
        cases hv : th.hasVM with
        | true => rfl
        | false => have := rr.f1 hv; rw [hts] at this; cases this
      have i0 : Inv [] W none ({ s with cur := some t } : State) :=
        h.setCur (some t) (fun x hx => by simp at hx; omega)
      have i1 : Inv [] W none { (({ s with cur := some t } : State).setTh t fun th => { th with ts := .running }) with timer := tm } :=
        i0.setTh (C' := []) (W' := W) (top' := none) t (fun th => { th with ts := .running }) th tm hth
          (fun _ => rfl) (recOK_running rr) (fun _ => rfl)
          (h.tim.erase i t d hi _ (fun _ => by simp) tm (by rw [htm]))
          (fun x m _ => m) (fun x m _ => m) (Or.inl rfl)
          (fun ho => by
            rcases h.lnk.linkC t ho with m | ⟨th0, h0, hw0⟩
            · exact Or.inl m
            · rw [hth] at h0; cases h0; rw [hts] at hw0; cases hw0)
          (fun hw0 => by cases hw0) (fun hw0 => by cases hw0)
      have i1' : Inv [] W none (({ s with timer := tm, cur := some t } : State).setTh t fun th => { th with ts := .running }) :=
        i1.congr rfl rfl rfl rfl rfl rfl rfl rfl rfl
      have j1' : J X (({ s with timer := tm, cur := some t } : State).setTh t fun th => { th with ts := .running }) :=
        (j.congr (s' := ({ s with timer := tm, cur := some t } : State)) rfl rfl rfl).setTh t _
      have hfind1 : thFind (({ s with timer := tm, cur := some t } : State).setTh t fun th => { th with ts := .running }).threads t =
          some { th with ts := .running } := by
        rw [State.setTh_threads, thFind_map_upd]; simp [hth]
      have P := presAll fuel
      refine ((I.ev W _ t _ i1' hfind1 hhv rfl (Or.inl rfl)).and
        (hev X W _ t _ i1' hfind1 hhv rfl (Or.inl rfl) j1')).bind (P.dr _) (fun p => ?_)
      exact hdr X W _ p.1.1 p.2

theorem executeRunning_j_succ {fuel : Nat} (hdr : JEr (drain fuel)) : JEr (executeRunning (fuel + 1)) := by
  intro X W s h j
  rw [executeRunning_succ]
  split
  · exact Ok.pure j
  · split
    · exact Ok.pure j
    · exact hdr X W s h j

theorem scriptExecuteInternal_j_succ {fuel : Nat} (hev : JEv (execVM fuel)) (her : JEr (executeRunning fuel)) :
    JSei (scriptExecuteInternal (fuel + 1)) := by
  intro X W s t th h hth hhv j
  have I := iAll fuel
  rw [scriptExecuteInternal_succ]
  have ht100 : 100 ≤ t := (h.n.range t th hth).1
  have P := presAll fuel
  have i0 : Inv [] (t :: W) none ({ s with cur := some t } : State) :=
    h.setCur (some t) (fun x hx => by simp at hx; omega)
  have j0 : J X ({ s with cur := some t } : State) := j.congr rfl rfl rfl
  have q1 := (qAll fuel).stp [] ({ s with cur := some t } : State) t i0.n
  have j1 : J X (stop fuel { s with cur := some t } t) := (jqAll fuel).stp X _ t i0.n j0
  refine (I.stp [] W _ t i0).bind ?_ (fun p1 => ?_)
  · exact ((execIfAlive_pres P.ev _ _).trans (restoreCur_pres _ _)).trans (P.er _)
  obtain ⟨i1, hrun⟩ := p1
  have hexec : Ok (execIfAlive (execVM fuel) (stop fuel { s with cur := some t } t) t)
      ((Inv [] W none (execIfAlive (execVM fuel) (stop fuel { s with cur := some t } t) t) ∧
        G0 (stop fuel { s with cur := some t } t) (execIfAlive (execVM fuel) (stop fuel { s with cur := some t } t) t)) ∧
        J X (execIfAlive (execVM fuel) (stop fuel { s with cur := some t } t) t)) := by
    unfold execIfAlive
    split
    · rename_i hal
      rw [State.alive_thread _ (by simpa [State.isThread] using ht100)] at hal
      obtain ⟨th1, hth1, hd1⟩ := (aliveTh_iff i1.n.nodup t).1 hal
      have hvm1 : th1.hasVM = true := by
        rcases q1.lost t th hth hhv with e | ⟨th', e, e2⟩
        · rw [e] at hth1; cases hth1
        · rw [hth1] at e; cases e
          rcases e2 with e2 | e2 | e2
          · exact e2
          · rw [hd1] at e2; cases e2
          · cases e2
      have hcur1 : (stop fuel { s with cur := some t } t).cur = some t := by rw [q1.cur]
      exact ((I.ev W _ t th1 i1 hth1 hvm1 (hrun th1 hth1) (Or.inl hcur1)).map (fun p => ⟨p.1, p.2.g0⟩)).and
        (hev X W _ t th1 i1 hth1 hvm1 (hrun th1 hth1) (Or.inl hcur1) j1)
    · exact Ok.pure ⟨⟨i1, G0.of_eq rfl rfl rfl⟩, j1⟩
  refine hexec.bind ((restoreCur_pres _ _).trans (P.er _)) (fun p2 => ?_)
  obtain ⟨⟨i2, g2⟩, j2⟩ := p2
  have i3 : Inv [] W none (restoreCur (execIfAlive (execVM fuel) (stop fuel { s with cur := some t } t) t) s.cur) := by
    unfold restoreCur
    apply i2.setCur
    intro x hx
    cases hc : s.cur with
    | none => rw [hc] at hx; simp at hx
    | some c0 =>
      rw [hc] at hx
      simp only [Option.bind_some] at hx
      split at hx
      · simp at hx; subst hx; exact h.n.cur _ hc
      · simp at hx
  have j3 : J X (restoreCur (execIfAlive (execVM fuel) (stop fuel { s with cur := some t } t) t) s.cur) := by
    unfold restoreCur
    exact j2.congr rfl rfl rfl
  exact her X W _ i3 j3

/-! ### the induction -/

structure JAll (fuel : Nat) : Prop where
  swf : JSwf (stoppedWaitFor fuel)
  ur : JUr (unregister fuel)
  sei : JSei (scriptExecuteInternal fuel)
  er : JEr (executeRunning fuel)
  dr : JEr (drain fuel)
  ev : JEv (execVM fuel)
  pr : JPr (process fuel)
  ex : JEx (exec fuel)

theorem jAll_zero : JAll 0 where
  swf := fun X C W s t n d _ _ _ => by rw [stoppedWaitFor_zero]; exact Or.inl rfl
  ur := fun X C W s t n _ _ _ => by rw [unregister_zero]; exact Or.inl rfl
  sei := fun X W s t th _ _ _ _ => by rw [scriptExecuteInternal_zero]; exact Or.inl rfl
  er := fun X W s _ _ => by rw [executeRunning_zero]; exact Or.inl rfl
  dr := fun X W s _ _ => by rw [drain_zero]; exact Or.inl rfl
  ev := fun X W s t th _ _ _ _ _ _ => by rw [execVM_zero]; exact Or.inl rfl
  pr := fun X W s t _ _ _ _ => by rw [process_zero]; exact Or.inl rfl
  ex := fun X W s t th0 th ins _ _ _ _ _ _ _ _ _ => by rw [exec_zero]; exact Or.inl rfl

theorem jAll_succ {fuel : Nat} (ih : JAll fuel) : JAll (fuel + 1) where
  swf := stoppedWaitFor_j_succ ih.sei
  ur := unregister_j_succ ih.swf
  sei := scriptExecuteInternal_j_succ ih.ev ih.er
  er := executeRunning_j_succ ih.dr
  dr := drain_j_succ ih.ev ih.dr
  ev := execVM_j_succ ih.pr
  pr := process_j_succ ih.ex ih.pr
  ex := exec_j_succ ⟨ih.ur, ih.sei⟩

/-- **The instance-list invariant is kept by every function of the executing half, for every fuel**
    (the destruction cascades: `jqAll`). -/
theorem jAll : ∀ fuel, JAll fuel
  | 0 => jAll_zero
  | fuel + 1 => jAll_succ (jAll fuel)

end Morfuse.Sched
