import MorfuseModel.Sched.MachineInstKeys
import MorfuseModel.Sched.MachineInstHost
/-!
# The destruction cascades never touch the host's result slots

`CK s s'`: `s'.calls = s.calls`.  Same domain and skeleton as `qAll` / `jqAll` / `iqAll`: a thread that is
destroyed (not ended by `end`) leaves the slot of its host call as it was.
-/
namespace Morfuse.Sched
open State

def CK (_X : List Nat) (s s' : State) : Prop := s'.calls = s.calls

theorem CK.refl (X : List Nat) (s : State) : CK X s s := rfl
theorem CK.trans {X : List Nat} {a b c : State} (h1 : CK X a b) (h2 : CK X b c) : CK X a c :=
  Eq.trans h2 h1
theorem CK.frame {X : List Nat} {s s' : State} (_e1 : s'.threads = s.threads) (_e2 : s'.insts = s.insts)
    (_e3 : s'.nextInst = s.nextInst) (e4 : s'.calls = s.calls := by rfl) : CK X s s' := e4
theorem CK.fuel (X : List Nat) (s : State) : CK X s { s with outOfFuel := true } := rfl
theorem CK.setTh (X : List Nat) (s : State) (t : Nat) (f : Th → Th) : CK X s (s.setTh t f) := rfl

theorem notifyDelete_ck (X : List Nat) (s : State) (t : Nat) : CK X s (notifyDelete s t) := by
  unfold notifyDelete
  split
  · rfl
  · rename_i th _
    have h1 : CK X s (if th.attached = true then removeFromInst (s.setTh t fun th => { th with vm := .destroyed }) t th.inst
        else s.setTh t fun th => { th with vm := .destroyed }) := by
      split
      · rw [removeFromInst_frame]; rfl
      · rfl
    simp only
    split
    · exact h1
    · exact h1

theorem finishDelete_ck (X : List Nat) (s : State) (t : Nat) : CK X s (finishDelete s t) := by
  unfold finishDelete
  split
  · rfl
  · split <;> rfl

def CQ1 (f : State → Nat → State) : Prop := ∀ X s a, NInv s → CK X s (f s a)
def CQ3 (f : State → Nat → Nat → Bool → State) : Prop :=
  ∀ X s t name d, NInv s → (name = 0 ∨ d = true) → CK X s (f s t name d)

theorem CK.foldl {α : Type} {X : List Nat} (f : State → α → State)
    (hn : ∀ s a, NInv s → NInv (f s a)) (hf : ∀ s a, NInv s → CK X s (f s a)) :
    ∀ (l : List α) (s : State), NInv s → CK X s (l.foldl f s)
  | [], s, _ => CK.refl X s
  | a :: l, s, h => (hf s a h).trans (CK.foldl f hn hf l (f s a) (hn s a h))

theorem stopStep_ck {cw : State → Nat → State} (hcw : CQ1 cw) (X : List Nat) {s : State}
    (h : NInv s) (t : Nat) (th : Th) : CK X s (stopStep cw s t th) := by
  unfold stopStep
  split
  · exact (CK.setTh X s t (fun th => { th with ts := .running })).trans (CK.frame rfl rfl rfl)
  · split
    · exact (CK.setTh X s t (fun th => { th with ts := .running })).trans (hcw X _ _ (h.setTh t _))
    · exact CK.refl X s

theorem cancelEvents_ck (X : List Nat) (s : State) (t : Nat) : CK X s (cancelEvents s t) := CK.frame rfl rfl rfl

theorem notifyLoop_ck {sn : State → Nat → State} (hn : N1 sn) (hsn : CQ1 sn) (X : List Nat) {s : State}
    (h : NInv s) (stopped : List Nat) : CK X s (notifyLoop sn s stopped) := by
  unfold notifyLoop
  apply CK.foldl _ _ _ _ _ h
  · intro s a hs
    split
    · exact hn s a hs
    · exact hs
  · intro s a hs
    split
    · exact hsn X s a hs
    · exact CK.refl X s

theorem cwaZero_ck {swf : State → Nat → Nat → Bool → State} {sn : State → Nat → State}
    (hn3 : N3 swf) (hn1 : N1 sn) (hswf : CQ3 swf) (hsn : CQ1 sn) (X : List Nat) {s : State} (h : NInv s) (w : Nat) :
    CK X s (cwaZero swf sn s w) := by
  unfold cwaZero
  split
  · exact CK.refl X s
  · rename_i list _
    simp only [cancelWaitingSources_eq_purge]
    have h1 : NInv ({ ({ s with notify := (Tbl.purge s.alive s.notify w 0 list []).1 } : State) with
        waitFor := Tbl.removeKey s.waitFor (w, 0) }) :=
      (h.setNotify _ (Tbl.purge_WF _ h.wfN _ _ _ _) (Tbl.Sub.purge _ _ _ _ _ _)).setWaitFor _
        (h.wfW.removeKey _) (Tbl.Sub.removeKey _ _)
    have q1 : CK X s ({ ({ s with notify := (Tbl.purge s.alive s.notify w 0 list []).1 } : State) with
        waitFor := Tbl.removeKey s.waitFor (w, 0) }) := CK.frame rfl rfl rfl
    split
    · exact (q1.trans (hswf X _ _ _ _ h1 (Or.inl rfl))).trans (notifyLoop_ck hn1 hsn X (hn3 _ _ _ _ h1) _)
    · exact q1.trans (notifyLoop_ck hn1 hsn X h1 _)

theorem cwaRest_ck {swf : State → Nat → Nat → Bool → State} {sn : State → Nat → State}
    (hn3 : N3 swf) (hn1 : N1 sn) (hswf : CQ3 swf) (hsn : CQ1 sn) (X : List Nat) {s : State} (h : NInv s) (w : Nat) :
    CK X s (cwaRest swf sn s w) := by
  unfold cwaRest
  split
  · exact CK.refl X s
  · simp only [cwaSources_frame]
    have h1 : NInv ({ ({ s with notify := (Tbl.multiPurge s.alive s.notify w (Tbl.keysOf s.waitFor w) []).1 } : State) with
        waitFor := Tbl.removeOwner s.waitFor w }) :=
      (h.setNotify _ (Tbl.multiPurge_WF _ _ _ _ _ h.wfN) (Tbl.Sub.multiPurge _ _ _ _ _)).setWaitFor _
        (h.wfW.removeOwner _) (Tbl.Sub.removeOwner _ _)
    have q1 : CK X s ({ ({ s with notify := (Tbl.multiPurge s.alive s.notify w (Tbl.keysOf s.waitFor w) []).1 } : State) with
        waitFor := Tbl.removeOwner s.waitFor w }) := CK.frame rfl rfl rfl
    exact (q1.trans (hswf X _ _ _ _ h1 (Or.inl rfl))).trans (notifyLoop_ck hn1 hsn X (hn3 _ _ _ _ h1) _)

theorem startTiming_ck {stp : State → Nat → State} (hstp : CQ1 stp) (X : List Nat) {s : State} (h : NInv s)
    (t : Nat) : CK X s (startTiming stp s t) := by
  unfold startTiming
  split
  · exact hstp X s t h
  · exact ((hstp X s t h).trans (CK.setTh X _ t (fun th => { th with ts := .timing }))).trans (CK.frame rfl rfl rfl)

theorem endOnLoop_ck {dt : State → Nat → State} (hn : N1 dt) (hd : CQ1 dt) (X : List Nat) {s : State}
    (h : NInv s) (src name : Nat) (listeners : List Nat) : CK X s (endOnLoop dt s src name listeners).1 := by
  unfold endOnLoop
  generalize listeners.reverse = L
  suffices hs : ∀ (L : List Nat) (acc : State × Bool), NInv acc.1 → CK X s acc.1 →
      CK X s (L.foldl (fun (acc : State × Bool) l =>
        if acc.1.alive l then
          if l == src && (name == nameRemove || name == nameDelete || acc.2) then acc
          else (dt acc.1 l, acc.2 || (l == src))
        else acc) acc).1 from hs L (s, false) h (CK.refl X s)
  intro L
  induction L with
  | nil => intro acc _ h; exact h
  | cons l L ih =>
    intro acc hacc qacc
    simp only [List.foldl_cons]
    split
    · split
      · exact ih _ hacc qacc
      · exact ih _ (hn _ _ hacc) (qacc.trans (hd X _ _ hacc))
    · exact ih _ hacc qacc

theorem unregEndOn_ck {dt : State → Nat → State} (hn : N1 dt) (hd : CQ1 dt) (X : List Nat) {s : State}
    (h : NInv s) (src name : Nat) : CK X s (unregEndOn dt s src name).1 := by
  unfold unregEndOn
  split
  · exact CK.refl X s
  · split
    · exact CK.refl X s
    · have h1 : NInv { s with endOn := Tbl.removeKey s.endOn (src, name) } :=
        h.setEndOn _ (fun o ho => Or.inl (Tbl.hasOwner_removeKey ho))
      have q1 : CK X s { s with endOn := Tbl.removeKey s.endOn (src, name) } := CK.frame rfl rfl rfl
      exact q1.trans (endOnLoop_ck hn hd X h1 _ _ _)

theorem wakeLoop_ck {swf : State → Nat → Nat → Bool → State} (hn : N3 swf) (hswf : CQ3 swf) (X : List Nat)
    {s : State} (h : NInv s) (stopped : List Nat) : CK X s (wakeLoop swf s 0 stopped) := by
  unfold wakeLoop
  apply CK.foldl _ _ _ _ _ h
  · intro s a hs
    split
    · exact hn _ _ _ _ hs
    · exact hs
  · intro s a hs
    split
    · exact hswf X _ _ _ _ hs (Or.inl rfl)
    · exact CK.refl X s

theorem unregNotify_ck {swf : State → Nat → Nat → Bool → State} {sn : State → Nat → State}
    (hn3 : N3 swf) (hn1 : N1 sn) (hswf : CQ3 swf) (hsn : CQ1 sn) (X : List Nat) {s : State} (h : NInv s)
    (src name : Nat) (hq : name = 0 ∨ QSrc src name) : CK X s (unregNotify swf sn s src name) := by
  unfold unregNotify
  split
  · exact CK.refl X s
  · split
    · exact CK.refl X s
    · rename_i list hfind
      have hname : name = 0 := by
        rcases hq with hq | hq
        · exact hq
        · exfalso
          have hk := h.n1 src name hq.1 (by rw [Tbl.find_eq_getD_of_some hfind]; exact h.wfN.find_ne_nil hfind)
          rcases hq.2 with e | e
          · exact hk.1 e
          · exact hk.2 e
      subst hname
      simp only [unregisterTargets_eq_purge]
      have h1 : NInv ({ ({ s with waitFor := (Tbl.purge s.alive s.waitFor src 0 list []).1 } : State) with
          notify := Tbl.removeKey s.notify (src, 0) }) :=
        (h.setWaitFor _ (Tbl.purge_WF _ h.wfW _ _ _ _) (Tbl.Sub.purge _ _ _ _ _ _)).setNotify _
          (h.wfN.removeKey _) (Tbl.Sub.removeKey _ _)
      have q1 : CK X s ({ ({ s with waitFor := (Tbl.purge s.alive s.waitFor src 0 list []).1 } : State) with
          notify := Tbl.removeKey s.notify (src, 0) }) := CK.frame rfl rfl rfl
      split
      · exact (q1.trans (hsn X _ _ h1)).trans (wakeLoop_ck hn3 hswf X (hn1 _ _ h1) _)
      · exact q1.trans (wakeLoop_ck hn3 hswf X h1 _)

theorem killLoop_ck {swf : State → Nat → Nat → Bool → State} (hn : N3 swf) (hswf : CQ3 swf) (X : List Nat)
    {s : State} (h : NInv s) (stopped : List (Nat × Nat)) : CK X s (killLoop swf s stopped) := by
  unfold killLoop
  apply CK.foldl _ _ _ _ _ h
  · intro s a hs
    split
    · exact hn _ _ _ _ hs
    · exact hs
  · intro s a hs
    split
    · exact hswf X _ _ _ _ hs (Or.inr rfl)
    · exact CK.refl X s

theorem uaRest_ck {swf : State → Nat → Nat → Bool → State} {sn : State → Nat → State}
    (hn3 : N3 swf) (hn1 : N1 sn) (hswf : CQ3 swf) (hsn : CQ1 sn) (X : List Nat) {s : State} (h : NInv s)
    (src : Nat) : CK X s (uaRest swf sn s src) := by
  unfold uaRest
  split
  · exact CK.refl X s
  · simp only
    rw [uaTargets_frame]
    have h1 : NInv ({ ({ s with waitFor := (Tbl.multiPurge s.alive s.waitFor src (Tbl.keysOf s.notify src) []).1 } : State) with
        notify := Tbl.removeOwner s.notify src }) :=
      (h.setWaitFor _ (Tbl.multiPurge_WF _ _ _ _ _ h.wfW) (Tbl.Sub.multiPurge _ _ _ _ _)).setNotify _
        (h.wfN.removeOwner _) (Tbl.Sub.removeOwner _ _)
    have q1 : CK X s ({ ({ s with waitFor := (Tbl.multiPurge s.alive s.waitFor src (Tbl.keysOf s.notify src) []).1 } : State) with
        notify := Tbl.removeOwner s.notify src }) := CK.frame rfl rfl rfl
    exact (q1.trans (hsn X _ _ h1)).trans (killLoop_ck hn3 hswf X (hn1 _ _ h1) _)

/-! ### induction -/

structure CQAll (fuel : Nat) : Prop where
  dt : CQ1 (deleteThread fuel)
  sn : CQ1 (stoppedNotify fuel)
  stp : CQ1 (stop fuel)
  cwa : CQ1 (cancelWaitingAll fuel)
  swf : CQ3 (stoppedWaitFor fuel)
  ur : ∀ X s src name, NInv s → (name = 0 ∨ QSrc src name) → CK X s (unregister fuel s src name)
  ua : CQ1 (unregisterAll fuel)

theorem cqAll_zero : CQAll 0 where
  dt := fun X s t _ => by rw [deleteThread_zero]; exact CK.fuel X s
  sn := fun X s t _ => by rw [stoppedNotify_zero]; exact CK.fuel X s
  stp := fun X s t _ => by rw [stop_zero]; exact CK.fuel X s
  cwa := fun X s t _ => by rw [cancelWaitingAll_zero]; exact CK.fuel X s
  swf := fun X s t n d _ _ => by rw [stoppedWaitFor_zero]; exact CK.fuel X s
  ur := fun X s t n _ _ => by rw [unregister_zero]; exact CK.fuel X s
  ua := fun X s t _ => by rw [unregisterAll_zero]; exact CK.fuel X s

/-- the whole of `~ScriptThread` for a thread that has a record and a VM: the intermediate facts -/
theorem deleteThread_ck_succ {fuel : Nat} (ih : CQAll fuel) : CQ1 (deleteThread (fuel + 1)) := by
  have n := nAll fuel
  have q := qAll fuel
  intro X s t h
  rw [deleteThread_succ]
  cases hf : s.th? t with
  | none => exact CK.refl X s
  | some th =>
    simp only
    split
    · exact CK.refl X s
    · have hf' : thFind s.threads t = some th := by rw [← State.th?_eq]; exact hf
      have ht : 100 ≤ t := (h.range t th hf').1
      have h0 : NInv (s.setTh t fun th => { th with hasVM := false }) := h.setTh t _
      have j0 : CK X s (s.setTh t fun th => { th with hasVM := false }) :=
        CK.setTh X s t (fun th => { th with hasVM := false })
      have v0 : NoVM (s.setTh t fun th => { th with hasVM := false }) t := by
        intro th' hf1
        rw [State.setTh_threads, thFind_map_upd] at hf1
        simp [hf'] at hf1
        rw [← hf1]
      have h1 := stopStep_ninv n.cwa h0 t th
      have j1 := j0.trans (stopStep_ck ih.cwa X h0 t th)
      have v1 : NoVM _ t := v0.of_q (stopStep_q q.cwa [] h0 t th)
      have h2 := notifyDelete_ninv h1 t
      have j2 : CK X s (notifyDelete (stopStep (cancelWaitingAll fuel) (s.setTh t fun th => { th with hasVM := false }) t th) t) :=
        j1.trans (notifyDelete_ck X _ t)
      have g2 : Gone (notifyDelete (stopStep (cancelWaitingAll fuel) (s.setTh t fun th => { th with hasVM := false }) t th) t) t := by
        intro th' hf2
        have hv := (v1.of_q (notifyDelete_q [] _ t)) th' hf2
        refine ⟨hv, ?_⟩
        -- `NotifyDelete` leaves the VM destroyed
        unfold notifyDelete at hf2
        cases hf1 : (stopStep (cancelWaitingAll fuel) (s.setTh t fun th => { th with hasVM := false }) t th).th? t with
        | none =>
          rw [hf1] at hf2
          rw [State.th?_eq] at hf1
          rw [hf1] at hf2; cases hf2
        | some th1 =>
          rw [hf1] at hf2
          rw [State.th?_eq] at hf1
          simp only at hf2
          have hbase : ∀ (S : State), (∀ x, thFind S.threads t = some x → x.vm = .destroyed) →
              ∀ x, thFind (S.setTh t fun th => { th with vmObj := false }).threads t = some x → x.vm = .destroyed := by
            intro S hS x hx
            rw [State.setTh_threads, thFind_map_upd] at hx
            simp only [if_true] at hx
            cases hS0 : thFind S.threads t with
            | none => rw [hS0] at hx; simp at hx
            | some y => rw [hS0] at hx; simp at hx; rw [← hx]; exact hS y hS0
          have hd1 : ∀ x, thFind ((stopStep (cancelWaitingAll fuel) (s.setTh t fun th => { th with hasVM := false }) t th).setTh t
              fun th => { th with vm := .destroyed }).threads t = some x → x.vm = .destroyed := by
            intro x hx
            rw [State.setTh_threads, thFind_map_upd] at hx
            simp [hf1] at hx
            rw [← hx]
          have hd2 : ∀ x, thFind (if th1.attached = true then removeFromInst ((stopStep (cancelWaitingAll fuel)
              (s.setTh t fun th => { th with hasVM := false }) t th).setTh t fun th => { th with vm := .destroyed }) t th1.inst
              else (stopStep (cancelWaitingAll fuel) (s.setTh t fun th => { th with hasVM := false }) t th).setTh t
                fun th => { th with vm := .destroyed }).threads t = some x → x.vm = .destroyed := by
            split
            · rw [removeFromInst_frame]; exact hd1
            · exact hd1
          split at hf2
          · exact hbase _ hd2 th' hf2
          · exact hd2 th' hf2
      have h3 := cancelEvents_ninv h2 t
      have j3 := j2.trans (cancelEvents_ck X _ t)
      have g3 : Gone (cancelEvents (notifyDelete (stopStep (cancelWaitingAll fuel)
          (s.setTh t fun th => { th with hasVM := false }) t th) t) t) t := g2
      have h4 := n.ur _ t nameDelete h3
      have j4 := j3.trans (ih.ur X _ t nameDelete h3 (Or.inr ⟨ht, Or.inl rfl⟩))
      have g4 := g3.of_q (q.ur [] _ t nameDelete h3 (Or.inr ⟨ht, Or.inl rfl⟩))
      have h5 := n.ur _ t nameRemove h4
      have j5 := j4.trans (ih.ur X _ t nameRemove h4 (Or.inr ⟨ht, Or.inr rfl⟩))
      have g5 := g4.of_q (q.ur [] _ t nameRemove h4 (Or.inr ⟨ht, Or.inr rfl⟩))
      have h6 := n.ua _ t h5
      have j6 := j5.trans (ih.ua X _ t h5)
      have g6 := g5.of_q (q.ua [] _ t h5)
      have j7 := j6.trans (ih.cwa X _ t h6)
      have g7 := g6.of_q (q.cwa [] _ t h6)
      exact j7.trans (finishDelete_ck X _ t)

theorem cqAll_succ {fuel : Nat} (ih : CQAll fuel) : CQAll (fuel + 1) := by
  have n := nAll fuel
  refine ⟨deleteThread_ck_succ ih, ?_, ?_, ?_, ?_, ?_, ?_⟩
  · intro X s l h
    rw [stoppedNotify_succ]
    split
    · split
      · exact ih.dt X _ _ h
      · exact CK.refl X s
    · exact CK.refl X s
  · intro X s t h
    rw [stop_succ]
    split
    · exact CK.refl X s
    · exact stopStep_ck ih.cwa X h _ _
  · intro X s w h
    rw [cancelWaitingAll_succ]
    exact (cwaZero_ck n.swf n.sn ih.swf ih.sn X h w).trans
      (cwaRest_ck n.swf n.sn ih.swf ih.sn X (cwaZero_ninv n.swf n.sn h w) w)
  · intro X s t name d h hq
    rw [stoppedWaitFor_succ]
    split
    · exact CK.refl X s
    · cases hf : s.th? t with
      | none => exact CK.refl X s
      | some th =>
        simp only
        split
        · exact CK.refl X s
        · split
          · exact ih.dt X _ _ h
          · rename_i hd
            have hname : name = 0 := by
              rcases hq with hq | hq
              · exact hq
              · exact absurd hq hd
            subst hname
            split
            · simp only [bne_self_eq_false, Bool.false_eq_true, if_false]
              exact (cancelEvents_ck X s t).trans (startTiming_ck ih.stp X (cancelEvents_ninv h t) t)
            · exact cancelEvents_ck X s t
  · intro X s src name h hq
    rw [unregister_succ]
    have q1 := unregEndOn_ck n.dt ih.dt X h src name
    split
    · exact q1
    · exact q1.trans (unregNotify_ck n.swf n.sn ih.swf ih.sn X (unregEndOn_ninv n.dt h src name) src name hq)
  · intro X s src h
    rw [unregisterAll_succ]
    have h1 := n.ur s src 0 h
    have q1 := ih.ur X s src 0 h (Or.inl rfl)
    have h2 : NInv { (unregister fuel s src 0) with endOn := Tbl.removeOwner (unregister fuel s src 0).endOn src } :=
      h1.setEndOn _ (fun o ho => Or.inl (Tbl.hasOwner_removeOwner ho))
    have q2 : CK X (unregister fuel s src 0)
        { (unregister fuel s src 0) with endOn := Tbl.removeOwner (unregister fuel s src 0).endOn src } :=
      CK.frame rfl rfl rfl
    exact (q1.trans q2).trans (uaRest_ck n.swf n.sn ih.swf ih.sn X h2 src)

/-- **The destruction cascades leave every result slot alone, for every fuel, under `NInv` alone.** -/
theorem cqAll : ∀ fuel, CQAll fuel
  | 0 => cqAll_zero
  | fuel + 1 => cqAll_succ (cqAll fuel)

theorem killStep_ck {s : State} (h : NInv s) (t : Nat) : (killStep s t).calls = s.calls :=
  (CK.setTh [] s t _).trans ((cqAll defaultFuel).dt [] _ t (h.setTh t _))

theorem killFold_ck : ∀ (L : List Nat) (S : State), NInv S → (L.foldl killStep S).calls = S.calls
  | [], _, _ => rfl
  | t :: L, S, hn => (killFold_ck L _ (killStep_ninv hn t)).trans (killStep_ck hn t)

theorem killInst_ck {s : State} (hn : NInv s) (i : Nat) : (killInst s i).calls = s.calls := by
  unfold killInst
  split
  · rfl
  · exact killFold_ck _ _ (hn.congr rfl rfl rfl rfl rfl rfl rfl rfl rfl)

theorem killAllInsts_ck {s : State} (hn : NInv s) (j : J [] s) : (killAllInsts s).calls = s.calls := by
  unfold killAllInsts
  generalize s.insts.map (·.1) = ids
  induction ids generalizing s with
  | nil => rfl
  | cons i ids ih =>
    simp only [List.foldl_cons]
    obtain ⟨n1, j1⟩ := killInst_j hn j i
    exact (ih n1 j1).trans (killInst_ck hn i)

end Morfuse.Sched
