import MorfuseModel.Sched.MachineInstAll
import MorfuseModel.Sched.MachineHost
/-!
# The instance-list invariant at the host level

`J [] s` (no exempt instance) holds in every state reachable by host operations (modulo fuel):
`reachable_hinv2`.  `~ScriptClass` (`killInst`) is where the exemption is used: the instance is unlinked
first (`J [i]`), its threads are destroyed one by one, and when the last one is gone no record with a VM
refers to the instance any more (`J []` again) — for every fuel, no `Ok` needed, because a destructor that
has started always marks its VM destroyed before it returns.
-/
namespace Morfuse.Sched
open State

/-! ### `~ScriptThread` leaves no VM behind -/

theorem deleteThread_noVM (fuel : Nat) {s : State} (h : NInv s) (t : Nat) : NoVM (deleteThread (fuel + 1) s t) t := by
  have n := nAll fuel
  have q := qAll fuel
  rw [deleteThread_succ]
  cases hf : s.th? t with
  | none =>
    rw [State.th?_eq] at hf
    intro th' h'
    simp only at h'
    rw [hf] at h'; cases h'
  | some th =>
    rw [State.th?_eq] at hf
    simp only
    split
    · rename_i hv
      intro th' h'
      rw [hf] at h'; cases h'
      simpa using hv
    · have ht : 100 ≤ t := (h.range t th hf).1
      have h0 : NInv (s.setTh t fun th => { th with hasVM := false }) := h.setTh t _
      have v0 : NoVM (s.setTh t fun th => { th with hasVM := false }) t := by
        intro th' hf1
        rw [State.setTh_threads, thFind_map_upd] at hf1
        simp [hf] at hf1
        rw [← hf1]
      have h1 := stopStep_ninv n.cwa h0 t th
      have v1 : NoVM _ t := v0.of_q (stopStep_q q.cwa [] h0 t th)
      have h2 := notifyDelete_ninv h1 t
      have v2 : NoVM _ t := v1.of_q (notifyDelete_q [] _ t)
      have h3 := cancelEvents_ninv h2 t
      have v3 : NoVM _ t := v2.of_q (cancelEvents_q [] _ t)
      have h4 := n.ur _ t nameDelete h3
      have v4 := v3.of_q (q.ur [] _ t nameDelete h3 (Or.inr ⟨ht, Or.inl rfl⟩))
      have h5 := n.ur _ t nameRemove h4
      have v5 := v4.of_q (q.ur [] _ t nameRemove h4 (Or.inr ⟨ht, Or.inr rfl⟩))
      have h6 := n.ua _ t h5
      have v6 := v5.of_q (q.ua [] _ t h5)
      have v7 := v6.of_q (q.cwa [] _ t h6)
      exact v7.of_q (finishDelete_q [] _ t)

/-! ### `~ScriptClass` -/

theorem J.unchained_of_exempt {X : List Nat} {s : State} (h : J X s) {t : Nat}
    (ht : ∀ th, thFind s.threads t = some th → th.inst ∈ X) : Unchained s t := by
  intro e he hm
  obtain ⟨th, h1, _, _, h4, _⟩ := (h.b e he).2.2 t hm
  exact (h.d _ (ht th h1)).2 e he h4.symm

theorem killStep_ninv {s : State} (h : NInv s) (t : Nat) : NInv (killStep s t) :=
  (nAll defaultFuel).dt _ t (h.setTh t _)

theorem killStep_q {s : State} (h : NInv s) (t : Nat) : Q [] s (killStep s t) :=
  (Q.setTh s t (fun th => { th with attached := false })
    (fun th => ⟨Or.inl rfl, Or.inl rfl, id, id, rfl, fun hx => by cases hx⟩) (Or.inl fun _ hx => hx)).trans
    ((qAll defaultFuel).dt [] _ t (h.setTh t _))

theorem killStep_jx {X : List Nat} {s : State} (h : NInv s) (j : J X s) (t : Nat)
    (ht : ∀ th, thFind s.threads t = some th → th.inst ∈ X) : J X (killStep s t) :=
  (jqAll defaultFuel).dt X _ t (h.setTh t _)
    (j.setTh_unchained t (fun th => { th with attached := false }) (j.unchained_of_exempt ht) (fun _ => rfl)
      (fun _ hx => hx) (Or.inr fun _ hx => hx))

/-- the records with a VM that belong to instance `i` are all in `L` -/
def Rm (i : Nat) (s : State) (L : List Nat) : Prop :=
  ∀ u th, thFind s.threads u = some th → th.hasVM = true → th.inst = i → u ∈ L

theorem killFold_j (i : Nat) : ∀ (L : List Nat) (S : State), NInv S → J [i] S →
    (∀ t ∈ L, ∀ th, thFind S.threads t = some th → th.inst = i) → Rm i S L →
    NInv (L.foldl killStep S) ∧ J [i] (L.foldl killStep S) ∧ Rm i (L.foldl killStep S) []
  | [], _, hn, j, _, hr => ⟨hn, j, hr⟩
  | t :: L, S, hn, j, hinst, hr => by
    simp only [List.foldl_cons]
    have q := killStep_q hn t
    have hn' := killStep_ninv hn t
    have j' := killStep_jx hn j t (fun th hf => by rw [hinst t List.mem_cons_self th hf]; simp)
    have hv : NoVM (killStep S t) t := deleteThread_noVM 3999 (hn.setTh t _) t
    apply killFold_j i L _ hn' j'
    · intro u hu th' hf'
      obtain ⟨th, h1, qt⟩ := q.th u th' hf'
      rw [qt.inst]; exact hinst u (List.mem_cons_of_mem _ hu) th h1
    · intro u th' hf' hvm hi
      obtain ⟨th, h1, qt⟩ := q.th u th' hf'
      have hm := hr u th h1 (qt.hasVM hvm) (by rw [← qt.inst]; exact hi)
      rcases List.mem_cons.1 hm with e | e
      · subst e
        rw [hv th' hf'] at hvm; cases hvm
      · exact e

theorem killInst_j {s : State} (hn : NInv s) (j : J [] s) (i : Nat) : NInv (killInst s i) ∧ J [] (killInst s i) := by
  unfold killInst
  cases hfd : s.insts.find? (·.1 == i) with
  | none => exact ⟨hn, j⟩
  | some e0 =>
    obtain ⟨k, chain⟩ := e0
    simp only
    have hk : k = i := by simpa using List.find?_some hfd
    have he0 : (k, chain) ∈ s.insts := List.mem_of_find?_eq_some hfd
    have hchain : instChain s.insts i = chain := by unfold instChain; rw [hfd]; rfl
    have hn1 : NInv ({ s with insts := s.insts.filter (fun e => !(e.1 == i)) } : State) :=
      hn.congr rfl rfl rfl rfl rfl rfl rfl rfl rfl
    have j1 : J [i] ({ s with insts := s.insts.filter (fun e => !(e.1 == i)) } : State) := by
      refine ⟨?_, ?_, j.c, ?_, j.e⟩
      · intro u th hf hv
        by_cases hi : th.inst = i
        · left; simp [hi]
        · right
          show u ∈ instChain (s.insts.filter _) th.inst
          rw [instChain_filter_ne _ _ _ hi]
          rcases j.a u th hf hv with m | m
          · cases m
          · exact m
      · intro e he
        exact j.b e (List.mem_filter.1 he).1
      · intro i' hi'
        have : i' = i := by simpa using hi'
        subst this
        obtain ⟨th, h1, _, _, h4, _⟩ := (j.b _ he0).2.2 _ (List.getLast_mem (j.b _ he0).1)
        have h4' : th.inst = k := h4
        refine ⟨by show i' < s.nextInst; rw [← hk, ← h4']; exact j.c _ th h1, ?_⟩
        intro e he
        have := (List.mem_filter.1 he).2
        simpa using this
    have hinst : ∀ t ∈ chain, ∀ th, thFind s.threads t = some th → th.inst = i := by
      intro t ht th hf
      obtain ⟨th0, h0, _, _, h4, _⟩ := (j.b _ he0).2.2 t ht
      rw [hf] at h0; cases h0
      rw [h4, hk]
    have hr : Rm i ({ s with insts := s.insts.filter (fun e => !(e.1 == i)) } : State) chain := by
      intro u th hf hv hi
      rcases j.a u th hf hv with m | m
      · cases m
      · rw [hi, hchain] at m; exact m
    obtain ⟨n2, j2, r2⟩ := killFold_j i chain _ hn1 j1 hinst hr
    refine ⟨n2, ?_, j2.b, j2.c, (fun i' hi' => by cases hi'), j2.e⟩
    intro u th hf hv
    rcases j2.a u th hf hv with m | m
    · have hi : th.inst = i := by simpa using m
      have := r2 u th hf hv hi
      cases this
    · exact Or.inr m

theorem killAllInsts_j {s : State} (hn : NInv s) (j : J [] s) : NInv (killAllInsts s) ∧ J [] (killAllInsts s) := by
  unfold killAllInsts
  generalize s.insts.map (·.1) = ids
  induction ids generalizing s with
  | nil => exact ⟨hn, j⟩
  | cons i ids ih =>
    simp only [List.foldl_cons]
    obtain ⟨n1, j1⟩ := killInst_j hn j i
    exact ih n1 j1

/-! ### the other host operations -/

theorem J.mapAll {X : List Nat} {s : State} (h : J X s) (g : Th → Th)
    (hinst : ∀ x, (g x).inst = x.inst) (hatt : ∀ x, (g x).attached = x.attached) (hdead : ∀ x, (g x).dead = x.dead)
    (hhv : ∀ x, (g x).hasVM = x.hasVM) (hvm : ∀ x, (g x).vm = x.vm) :
    J X { s with threads := s.threads.map (fun e => (e.1, g e.2)) } := by
  have hfind : ∀ u th', thFind (s.threads.map (fun e => (e.1, g e.2))) u = some th' →
      ∃ th, thFind s.threads u = some th ∧ th' = g th := by
    intro u th' hu
    rw [thFind_mapAll] at hu
    cases hf : thFind s.threads u with
    | none => rw [hf] at hu; cases hu
    | some th => rw [hf] at hu; simp at hu; exact ⟨th, rfl, hu.symm⟩
  refine ⟨?_, ?_, ?_, h.d, fun ev he => by
    obtain ⟨th, k1, k2⟩ := h.e ev he
    exact ⟨g th, by show thFind (s.threads.map _) ev.1 = _; rw [thFind_mapAll, k1]; rfl, by rw [hvm]; exact k2⟩⟩
  · intro u th' hu hv
    obtain ⟨th, h1, h2⟩ := hfind u th' hu
    subst h2
    rw [hinst]; exact h.a u th h1 (by rw [← hhv]; exact hv)
  · intro e he
    obtain ⟨b1, b2, b3⟩ := h.b e he
    refine ⟨b1, b2, ?_⟩
    intro u hu
    obtain ⟨th, k1, k2, k3, k4, k5⟩ := b3 u hu
    exact ⟨g th, by show thFind (s.threads.map _) u = _; rw [thFind_mapAll, k1]; rfl, by rw [hdead]; exact k2,
      by rw [hvm]; exact k3, by rw [hinst]; exact k4, by rw [hatt]; exact k5⟩
  · intro u th' hu
    obtain ⟨th, h1, h2⟩ := hfind u th' hu
    subst h2
    rw [hinst]; exact h.c u th h1

theorem hostCall_j {s : State} (h : Inv [] [] none s) (j : J [] s) (label : Nat) (args : List V) :
    Ok (hostCall s label args).1 (J [] (hostCall s label args).1) := by
  rw [hostCall_eq]
  split
  · exact Ok.pure j
  · have i0 : Inv [] [] none (callSetup s label args) :=
      (h.spawn ({ label := label, inst := s.nextInst, call := some s.nextCall, params := bindLoop (s.progParams.getD label 0) 0 args } : Th) (Or.inl rfl) rfl rfl rfl rfl).congr
        rfl rfl rfl rfl rfl rfl rfl rfl rfl
    have j0 : J [] (callSetup s label args) :=
      (j.spawnFresh h.n ({ label := label, inst := s.nextInst, call := some s.nextCall, params := bindLoop (s.progParams.getD label 0) 0 args } : Th)
        rfl rfl rfl rfl).congr rfl rfl rfl
    have hf : thFind (callSetup s label args).threads s.nextTid = some ({ label := label, inst := s.nextInst, call := some s.nextCall, params := bindLoop (s.progParams.getD label 0) 0 args } : Th) :=
      thFind_spawned _ (fresh_none h.n)
    refine ((jAll defaultFuel).sei [] [] _ s.nextTid _ (i0.consW _) hf rfl j0).bind' (callFinish_hr _ _).oof (fun p => ?_)
    unfold callFinish
    split
    · exact Ok.pure (p.congr rfl rfl rfl)
    · exact Ok.pure p

theorem deliver_j {s : State} (h : Inv [] [] none s) (j : J [] s) (t : Nat) : J [] (deliver s t) := by
  unfold deliver
  split
  · exact (jqAll defaultFuel).cwa [] s t h.n j
  · exact j

theorem processEvents_j : ∀ (fuel : Nat) (s : State), Inv [] [] none s → J [] s →
    Ok (processEvents fuel s) (J [] (processEvents fuel s))
  | 0, s, _, _ => Or.inl rfl
  | fuel + 1, s, h, j => by
    rw [processEvents_succ]
    split
    · exact Ok.pure j
    · split
      · exact Ok.pure j
      · rename_i t due rest _ _
        have i0 : Inv [] [] none ({ s with events := rest } : State) := h.congr rfl rfl rfl rfl rfl rfl rfl rfl rfl
        rename_i hev _
        have j0 : J [] ({ s with events := rest } : State) :=
          j.eventsSub rfl rfl rfl (fun ev he => by rw [hev]; exact List.mem_cons_of_mem _ he)
        exact (deliver_inv i0 t).bind' (processEvents_hr fuel _).oof
          (fun i1 => processEvents_j fuel _ i1 (deliver_j i0 j0 t))

/-- the invariant between two host operations, with the instance list -/
structure HInv2 (s : State) : Prop where
  h : HInv s
  j : J [] s

theorem hinv2_init : HInv2 ({} : State) :=
  ⟨hinv_init, ⟨fun t th hf => by simp [thFind] at hf, fun e he => by simp at he,
    fun t th hf => by simp [thFind] at hf, (fun i hi => by cases hi), (fun ev he => by cases he)⟩⟩

theorem HostOp.apply_hinv2 {s : State} (h : HInv2 s) (op : HostOp) (hok : op.ok) :
    Ok (op.apply s) (HInv2 (op.apply s)) := by
  have hb := HostOp.apply_hinv h.h op hok
  refine (hb.and ?_).map (fun p => ⟨p.1, p.2⟩)
  have hi := h.h.inv
  cases op with
  | reset => exact Ok.pure hinv2_init.j
  | script p ps =>
    show Ok (hostScript s p ps) (J [] (hostScript s p ps))
    unfold hostScript
    split
    · exact Ok.pure (h.j.congr rfl rfl rfl)
    · exact Ok.pure ((killAllInsts_j hi.n h.j).2.congr rfl rfl rfl)
  | call l args => exact hostCall_j hi h.j l args
  | callv l =>
    show Ok (hostCallV s l) (J [] (hostCallV s l))
    unfold hostCallV
    exact (hostCall_j hi h.j l []).bind' id (fun p => Ok.pure (p.mapAll
      (fun x => if x.call == some s.nextCall then { x with call := none } else x) (fun x => by split <;> rfl)
      (fun x => by split <;> rfl) (fun x => by split <;> rfl) (fun x => by split <;> rfl) (fun x => by split <;> rfl)))
  | advance k => exact Ok.pure (h.j.congr rfl rfl rfl)
  | resetDirector => exact Ok.pure ((killAllInsts_j hi.n h.j).2.congr rfl rfl rfl)
  | execute =>
    show Ok (hostExecute s) (J [] (hostExecute s))
    rw [hostExecute_eq]
    have h0 := frameSetTime_hinv h.h
    have j0 : J [] (frameSetTime s) := h.j.congr rfl rfl rfl
    have r1 := processEvents_hr defaultFuel (frameSetTime s)
    have r2 := (hrAll defaultFuel).er (processEvents defaultFuel (frameSetTime s))
    refine ((h0.step r1 (processEvents_inv _ _ h0.inv)).and (processEvents_j _ _ h0.inv j0)).bind' r2.oof (fun p => ?_)
    exact (jAll defaultFuel).er [] [] _ p.1.inv p.2
  | step k =>
    show Ok (hostExecute { s with clock := s.clock + k }) (J [] (hostExecute { s with clock := s.clock + k }))
    rw [hostExecute_eq]
    have hs : HInv ({ s with clock := s.clock + k } : State) :=
      ⟨hi.congr rfl rfl rfl rfl rfl rfl rfl rfl rfl, h.h.cur, h.h.depth, h.h.td,
        Nat.le_trans h.h.ck1 (Nat.le_add_right _ _), h.h.ck2⟩
    have h0 := frameSetTime_hinv hs
    have j0 : J [] (frameSetTime { s with clock := s.clock + k }) := h.j.congr rfl rfl rfl
    have r1 := processEvents_hr defaultFuel (frameSetTime { s with clock := s.clock + k })
    have r2 := (hrAll defaultFuel).er (processEvents defaultFuel (frameSetTime { s with clock := s.clock + k }))
    refine ((h0.step r1 (processEvents_inv _ _ h0.inv)).and (processEvents_j _ _ h0.inv j0)).bind' r2.oof (fun p => ?_)
    exact (jAll defaultFuel).er [] [] _ p.1.inv p.2
  | takeOut => exact Ok.pure (h.j.congr rfl rfl rfl)

/-- **Every reachable state (without `save`/`load`) has run out of fuel or satisfies the host-level
    invariant including the instance list.** -/
theorem reachable_hinv2 {s : State} (h : Reachable s) : Ok s (HInv2 s) := by
  induction h with
  | init => exact Ok.pure hinv2_init
  | step op _ hok ih =>
    by_cases hr : op = .reset
    · subst hr; exact Ok.pure hinv2_init
    · exact ih.bind' (HostOp.apply_oof op hr) (fun hi => HostOp.apply_hinv2 hi op hok)

end Morfuse.Sched
