import MorfuseModel.Sched.MachineInstCalls
/-!
# The destruction cascades never write to the output

`OU s s'`: `s'.out = s.out`.  Clone of `MachineInstCalls.lean` (`cqAll`) with `calls` replaced by `out`: `~ScriptThread` with
all its cascades, hence `Reset()` (`killAllInsts`), prints nothing.  Used by `Props/C09.lean` (save / Reset / load).
-/
namespace Morfuse.Sched
open State

def OU (_X : List Nat) (s s' : State) : Prop := s'.out = s.out

theorem OU.refl (X : List Nat) (s : State) : OU X s s := rfl
theorem OU.trans {X : List Nat} {a b c : State} (h1 : OU X a b) (h2 : OU X b c) : OU X a c :=
  Eq.trans h2 h1
theorem OU.frame {X : List Nat} {s s' : State} (_e1 : s'.threads = s.threads) (_e2 : s'.insts = s.insts)
    (_e3 : s'.nextInst = s.nextInst) (e4 : s'.out = s.out := by rfl) : OU X s s' := e4
theorem OU.fuel (X : List Nat) (s : State) : OU X s { s with outOfFuel := true } := rfl
theorem OU.setTh (X : List Nat) (s : State) (t : Nat) (f : Th → Th) : OU X s (s.setTh t f) := rfl

theorem notifyDelete_ou (X : List Nat) (s : State) (t : Nat) : OU X s (notifyDelete s t) := by
  unfold notifyDelete
  split
  · rfl
  · rename_i th _
    have h1 : OU X s (if th.attached = true then removeFromInst (s.setTh t fun th => { th with vm := .destroyed }) t th.inst
        else s.setTh t fun th => { th with vm := .destroyed }) := by
      split
      · rw [removeFromInst_frame]; rfl
      · rfl
    simp only
    split
    · exact h1
    · exact h1

theorem finishDelete_ou (X : List Nat) (s : State) (t : Nat) : OU X s (finishDelete s t) := by
  unfold finishDelete
  split
  · rfl
  · split <;> rfl

def OQ1 (f : State → Nat → State) : Prop := ∀ X s a, NInv s → OU X s (f s a)
def OQ3 (f : State → Nat → Nat → Bool → State) : Prop :=
  ∀ X s t name d, NInv s → (name = 0 ∨ d = true) → OU X s (f s t name d)

theorem OU.foldl {α : Type} {X : List Nat} (f : State → α → State)
    (hn : ∀ s a, NInv s → NInv (f s a)) (hf : ∀ s a, NInv s → OU X s (f s a)) :
    ∀ (l : List α) (s : State), NInv s → OU X s (l.foldl f s)
  | [], s, _ => OU.refl X s
  | a :: l, s, h => (hf s a h).trans (OU.foldl f hn hf l (f s a) (hn s a h))

theorem stopStep_ou {cw : State → Nat → State} (hcw : OQ1 cw) (X : List Nat) {s : State}
    (h : NInv s) (t : Nat) (th : Th) : OU X s (stopStep cw s t th) := by
  unfold stopStep
  split
  · exact (OU.setTh X s t (fun th => { th with ts := .running })).trans (OU.frame rfl rfl rfl)
  · split
    · exact (OU.setTh X s t (fun th => { th with ts := .running })).trans (hcw X _ _ (h.setTh t _))
    · exact OU.refl X s

theorem cancelEvents_ou (X : List Nat) (s : State) (t : Nat) : OU X s (cancelEvents s t) := OU.frame rfl rfl rfl

theorem notifyLoop_ou {sn : State → Nat → State} (hn : N1 sn) (hsn : OQ1 sn) (X : List Nat) {s : State}
    (h : NInv s) (stopped : List Nat) : OU X s (notifyLoop sn s stopped) := by
  unfold notifyLoop
  apply OU.foldl _ _ _ _ _ h
  · intro s a hs
    split
    · exact hn s a hs
    · exact hs
  · intro s a hs
    split
    · exact hsn X s a hs
    · exact OU.refl X s

theorem cwaZero_ou {swf : State → Nat → Nat → Bool → State} {sn : State → Nat → State}
    (hn3 : N3 swf) (hn1 : N1 sn) (hswf : OQ3 swf) (hsn : OQ1 sn) (X : List Nat) {s : State} (h : NInv s) (w : Nat) :
    OU X s (cwaZero swf sn s w) := by
  unfold cwaZero
  split
  · exact OU.refl X s
  · rename_i list _
    simp only [cancelWaitingSources_eq_purge]
    have h1 : NInv ({ ({ s with notify := (Tbl.purge s.alive s.notify w 0 list []).1 } : State) with
        waitFor := Tbl.removeKey s.waitFor (w, 0) }) :=
      (h.setNotify _ (Tbl.purge_WF _ h.wfN _ _ _ _) (Tbl.Sub.purge _ _ _ _ _ _)).setWaitFor _
        (h.wfW.removeKey _) (Tbl.Sub.removeKey _ _)
    have q1 : OU X s ({ ({ s with notify := (Tbl.purge s.alive s.notify w 0 list []).1 } : State) with
        waitFor := Tbl.removeKey s.waitFor (w, 0) }) := OU.frame rfl rfl rfl
    split
    · exact (q1.trans (hswf X _ _ _ _ h1 (Or.inl rfl))).trans (notifyLoop_ou hn1 hsn X (hn3 _ _ _ _ h1) _)
    · exact q1.trans (notifyLoop_ou hn1 hsn X h1 _)

theorem cwaRest_ou {swf : State → Nat → Nat → Bool → State} {sn : State → Nat → State}
    (hn3 : N3 swf) (hn1 : N1 sn) (hswf : OQ3 swf) (hsn : OQ1 sn) (X : List Nat) {s : State} (h : NInv s) (w : Nat) :
    OU X s (cwaRest swf sn s w) := by
  unfold cwaRest
  split
  · exact OU.refl X s
  · simp only [cwaSources_frame]
    have h1 : NInv ({ ({ s with notify := (Tbl.multiPurge s.alive s.notify w (Tbl.keysOf s.waitFor w) []).1 } : State) with
        waitFor := Tbl.removeOwner s.waitFor w }) :=
      (h.setNotify _ (Tbl.multiPurge_WF _ _ _ _ _ h.wfN) (Tbl.Sub.multiPurge _ _ _ _ _)).setWaitFor _
        (h.wfW.removeOwner _) (Tbl.Sub.removeOwner _ _)
    have q1 : OU X s ({ ({ s with notify := (Tbl.multiPurge s.alive s.notify w (Tbl.keysOf s.waitFor w) []).1 } : State) with
        waitFor := Tbl.removeOwner s.waitFor w }) := OU.frame rfl rfl rfl
    exact (q1.trans (hswf X _ _ _ _ h1 (Or.inl rfl))).trans (notifyLoop_ou hn1 hsn X (hn3 _ _ _ _ h1) _)

theorem startTiming_ou {stp : State → Nat → State} (hstp : OQ1 stp) (X : List Nat) {s : State} (h : NInv s)
    (t : Nat) : OU X s (startTiming stp s t) := by
  unfold startTiming
  split
  · exact hstp X s t h
  · exact ((hstp X s t h).trans (OU.setTh X _ t (fun th => { th with ts := .timing }))).trans (OU.frame rfl rfl rfl)

theorem endOnLoop_ou {dt : State → Nat → State} (hn : N1 dt) (hd : OQ1 dt) (X : List Nat) {s : State}
    (h : NInv s) (src name : Nat) (listeners : List Nat) : OU X s (endOnLoop dt s src name listeners).1 := by
  unfold endOnLoop
  generalize listeners.reverse = L
  suffices hs : ∀ (L : List Nat) (acc : State × Bool), NInv acc.1 → OU X s acc.1 →
      OU X s (L.foldl (fun (acc : State × Bool) l =>
        if acc.1.alive l then
          if l == src && (name == nameRemove || name == nameDelete || acc.2) then acc
          else (dt acc.1 l, acc.2 || (l == src))
        else acc) acc).1 from hs L (s, false) h (OU.refl X s)
  intro L
  induction L with
  | nil => intro acc _ h; exact h
  | cons l L ih =>
    intro acc hacc qacc
    simp only [List.foldl_cons]
    split
    · split
      · exact ih _ hacc qacc
      · exact ih _ (hn _ _ hacc) (qacc.trans (hd X _ _ hacc))
    · exact ih _ hacc qacc

theorem unregEndOn_ou {dt : State → Nat → State} (hn : N1 dt) (hd : OQ1 dt) (X : List Nat) {s : State}
    (h : NInv s) (src name : Nat) : OU X s (unregEndOn dt s src name).1 := by
  unfold unregEndOn
  split
  · exact OU.refl X s
  · split
    · exact OU.refl X s
    · have h1 : NInv { s with endOn := Tbl.removeKey s.endOn (src, name) } :=
        h.setEndOn _ (fun o ho => Or.inl (Tbl.hasOwner_removeKey ho))
      have q1 : OU X s { s with endOn := Tbl.removeKey s.endOn (src, name) } := OU.frame rfl rfl rfl
      exact q1.trans (endOnLoop_ou hn hd X h1 _ _ _)

theorem wakeLoop_ou {swf : State → Nat → Nat → Bool → State} (hn : N3 swf) (hswf : OQ3 swf) (X : List Nat)
    {s : State} (h : NInv s) (stopped : List Nat) : OU X s (wakeLoop swf s 0 stopped) := by
  unfold wakeLoop
  apply OU.foldl _ _ _ _ _ h
  · intro s a hs
    split
    · exact hn _ _ _ _ hs
    · exact hs
  · intro s a hs
    split
    · exact hswf X _ _ _ _ hs (Or.inl rfl)
    · exact OU.refl X s

theorem unregNotify_ou {swf : State → Nat → Nat → Bool → State} {sn : State → Nat → State}
    (hn3 : N3 swf) (hn1 : N1 sn) (hswf : OQ3 swf) (hsn : OQ1 sn) (X : List Nat) {s : State} (h : NInv s)
    (src name : Nat) (hq : name = 0 ∨ QSrc src name) : OU X s (unregNotify swf sn s src name) := by
  unfold unregNotify
  split
  · exact OU.refl X s
  · split
    · exact OU.refl X s
    · rename_i list hfind
      have hname : name = 0 := by
        rcases hq with hq | hq
        · exact hq
        · exfalso
          have hk := h.n1 src name hq.1 (by rw [Tbl.find_eq_getD_of_some hfind]; exact h.wfN.find_ne_nil hfind)
          rcases hq.2 with e | e
          · exact hk.1 e
          · exact hk.2 e
      subst hname
      simp only [unregisterTargets_eq_purge]
      have h1 : NInv ({ ({ s with waitFor := (Tbl.purge s.alive s.waitFor src 0 list []).1 } : State) with
          notify := Tbl.removeKey s.notify (src, 0) }) :=
        (h.setWaitFor _ (Tbl.purge_WF _ h.wfW _ _ _ _) (Tbl.Sub.purge _ _ _ _ _ _)).setNotify _
          (h.wfN.removeKey _) (Tbl.Sub.removeKey _ _)
      have q1 : OU X s ({ ({ s with waitFor := (Tbl.purge s.alive s.waitFor src 0 list []).1 } : State) with
          notify := Tbl.removeKey s.notify (src, 0) }) := OU.frame rfl rfl rfl
      split
      · exact (q1.trans (hsn X _ _ h1)).trans (wakeLoop_ou hn3 hswf X (hn1 _ _ h1) _)
      · exact q1.trans (wakeLoop_ou hn3 hswf X h1 _)

theorem killLoop_ou {swf : State → Nat → Nat → Bool → State} (hn : N3 swf) (hswf : OQ3 swf) (X : List Nat)
    {s : State} (h : NInv s) (stopped : List (Nat × Nat)) : OU X s (killLoop swf s stopped) := by
  unfold killLoop
  apply OU.foldl _ _ _ _ _ h
  · intro s a hs
    split
    · exact hn _ _ _ _ hs
    · exact hs
  · intro s a hs
    split
    · exact hswf X _ _ _ _ hs (Or.inr rfl)
    · exact OU.refl X s

theorem uaRest_ou {swf : State → Nat → Nat → Bool → State} {sn : State → Nat → State}
    (hn3 : N3 swf) (hn1 : N1 sn) (hswf : OQ3 swf) (hsn : OQ1 sn) (X : List Nat) {s : State} (h : NInv s)
    (src : Nat) : OU X s (uaRest swf sn s src) := by
  unfold uaRest
  split
  · exact OU.refl X s
  · simp only
    rw [uaTargets_frame]
    have h1 : NInv ({ ({ s with waitFor := (Tbl.multiPurge s.alive s.waitFor src (Tbl.keysOf s.notify src) []).1 } : State) with
        notify := Tbl.removeOwner s.notify src }) :=
      (h.setWaitFor _ (Tbl.multiPurge_WF _ _ _ _ _ h.wfW) (Tbl.Sub.multiPurge _ _ _ _ _)).setNotify _
        (h.wfN.removeOwner _) (Tbl.Sub.removeOwner _ _)
    have q1 : OU X s ({ ({ s with waitFor := (Tbl.multiPurge s.alive s.waitFor src (Tbl.keysOf s.notify src) []).1 } : State) with
        notify := Tbl.removeOwner s.notify src }) := OU.frame rfl rfl rfl
    exact (q1.trans (hsn X _ _ h1)).trans (killLoop_ou hn3 hswf X (hn1 _ _ h1) _)

/-! ### induction -/

structure OQAll (fuel : Nat) : Prop where
  dt : OQ1 (deleteThread fuel)
  sn : OQ1 (stoppedNotify fuel)
  stp : OQ1 (stop fuel)
  cwa : OQ1 (cancelWaitingAll fuel)
  swf : OQ3 (stoppedWaitFor fuel)
  ur : ∀ X s src name, NInv s → (name = 0 ∨ QSrc src name) → OU X s (unregister fuel s src name)
  ua : OQ1 (unregisterAll fuel)

theorem oqAll_zero : OQAll 0 where
  dt := fun X s t _ => by rw [deleteThread_zero]; exact OU.fuel X s
  sn := fun X s t _ => by rw [stoppedNotify_zero]; exact OU.fuel X s
  stp := fun X s t _ => by rw [stop_zero]; exact OU.fuel X s
  cwa := fun X s t _ => by rw [cancelWaitingAll_zero]; exact OU.fuel X s
  swf := fun X s t n d _ _ => by rw [stoppedWaitFor_zero]; exact OU.fuel X s
  ur := fun X s t n _ _ => by rw [unregister_zero]; exact OU.fuel X s
  ua := fun X s t _ => by rw [unregisterAll_zero]; exact OU.fuel X s

/-- the whole of `~ScriptThread` for a thread that has a record and a VM: the intermediate facts -/
theorem deleteThread_ou_succ {fuel : Nat} (ih : OQAll fuel) : OQ1 (deleteThread (fuel + 1)) := by
  have n := nAll fuel
  have q := qAll fuel
  intro X s t h
  rw [deleteThread_succ]
  cases hf : s.th? t with
  | none => exact OU.refl X s
  | some th =>
    simp only
    split
    · exact OU.refl X s
    · have hf' : thFind s.threads t = some th := by rw [← State.th?_eq]; exact hf
      have ht : 100 ≤ t := (h.range t th hf').1
      have h0 : NInv (s.setTh t fun th => { th with hasVM := false }) := h.setTh t _
      have j0 : OU X s (s.setTh t fun th => { th with hasVM := false }) :=
        OU.setTh X s t (fun th => { th with hasVM := false })
      have v0 : NoVM (s.setTh t fun th => { th with hasVM := false }) t := by
        intro th' hf1
        rw [State.setTh_threads, thFind_map_upd] at hf1
        simp [hf'] at hf1
        rw [← hf1]
      have h1 := stopStep_ninv n.cwa h0 t th
      have j1 := j0.trans (stopStep_ou ih.cwa X h0 t th)
      have v1 : NoVM _ t := v0.of_q (stopStep_q q.cwa [] h0 t th)
      have h2 := notifyDelete_ninv h1 t
      have j2 : OU X s (notifyDelete (stopStep (cancelWaitingAll fuel) (s.setTh t fun th => { th with hasVM := false }) t th) t) :=
        j1.trans (notifyDelete_ou X _ t)
      have g2 : Gone (notifyDelete (stopStep (cancelWaitingAll fuel) (s.setTh t fun th => { th with hasVM := false }) t th) t) t := by
        intro th' hf2
        have hv := (v1.of_q (notifyDelete_q [] _ t)) th' hf2
        refine ⟨hv, ?_⟩
        -- `NotifyDelete` leaves the VM destroyed
        unfold notifyDelete at hf2
        cases hf1 : (stopStep (cancelWaitingAll fuel) (s.setTh t fun th => { th with hasVM := false }) t th).th? t with
        | none =>
          rw [hf1] at hf2
          rw [State.th?_eq] at hf1
          rw [hf1] at hf2; cases hf2
        | some th1 =>
          rw [hf1] at hf2
          rw [State.th?_eq] at hf1
          simp only at hf2
          have hbase : ∀ (S : State), (∀ x, thFind S.threads t = some x → x.vm = .destroyed) →
              ∀ x, thFind (S.setTh t fun th => { th with vmObj := false }).threads t = some x → x.vm = .destroyed := by
            intro S hS x hx
            rw [State.setTh_threads, thFind_map_upd] at hx
            simp only [if_true] at hx
            cases hS0 : thFind S.threads t with
            | none => rw [hS0] at hx; simp at hx
            | some y => rw [hS0] at hx; simp at hx; rw [← hx]; exact hS y hS0
          have hd1 : ∀ x, thFind ((stopStep (cancelWaitingAll fuel) (s.setTh t fun th => { th with hasVM := false }) t th).setTh t
              fun th => { th with vm := .destroyed }).threads t = some x → x.vm = .destroyed := by
            intro x hx
            rw [State.setTh_threads, thFind_map_upd] at hx
            simp [hf1] at hx
            rw [← hx]
          have hd2 : ∀ x, thFind (if th1.attached = true then removeFromInst ((stopStep (cancelWaitingAll fuel)
              (s.setTh t fun th => { th with hasVM := false }) t th).setTh t fun th => { th with vm := .destroyed }) t th1.inst
              else (stopStep (cancelWaitingAll fuel) (s.setTh t fun th => { th with hasVM := false }) t th).setTh t
                fun th => { th with vm := .destroyed }).threads t = some x → x.vm = .destroyed := by
            split
            · rw [removeFromInst_frame]; exact hd1
            · exact hd1
          split at hf2
          · exact hbase _ hd2 th' hf2
          · exact hd2 th' hf2
      have h3 := cancelEvents_ninv h2 t
      have j3 := j2.trans (cancelEvents_ou X _ t)
      have g3 : Gone (cancelEvents (notifyDelete (stopStep (cancelWaitingAll fuel)
          (s.setTh t fun th => { th with hasVM := false }) t th) t) t) t := g2
      have h4 := n.ur _ t nameDelete h3
      have j4 := j3.trans (ih.ur X _ t nameDelete h3 (Or.inr ⟨ht, Or.inl rfl⟩))
      have g4 := g3.of_q (q.ur [] _ t nameDelete h3 (Or.inr ⟨ht, Or.inl rfl⟩))
      have h5 := n.ur _ t nameRemove h4
      have j5 := j4.trans (ih.ur X _ t nameRemove h4 (Or.inr ⟨ht, Or.inr rfl⟩))
      have g5 := g4.of_q (q.ur [] _ t nameRemove h4 (Or.inr ⟨ht, Or.inr rfl⟩))
      have h6 := n.ua _ t h5
      have j6 := j5.trans (ih.ua X _ t h5)
      have g6 := g5.of_q (q.ua [] _ t h5)
      have j7 := j6.trans (ih.cwa X _ t h6)
      have g7 := g6.of_q (q.cwa [] _ t h6)
      exact j7.trans (finishDelete_ou X _ t)

theorem oqAll_succ {fuel : Nat} (ih : OQAll fuel) : OQAll (fuel + 1) := by
  have n := nAll fuel
  refine ⟨deleteThread_ou_succ ih, ?_, ?_, ?_, ?_, ?_, ?_⟩
  · intro X s l h
    rw [stoppedNotify_succ]
    split
    · split
      · exact ih.dt X _ _ h
      · exact OU.refl X s
    · exact OU.refl X s
  · intro X s t h
    rw [stop_succ]
    split
    · exact OU.refl X s
    · exact stopStep_ou ih.cwa X h _ _
  · intro X s w h
    rw [cancelWaitingAll_succ]
    exact (cwaZero_ou n.swf n.sn ih.swf ih.sn X h w).trans
      (cwaRest_ou n.swf n.sn ih.swf ih.sn X (cwaZero_ninv n.swf n.sn h w) w)
  · intro X s t name d h hq
    rw [stoppedWaitFor_succ]
    split
    · exact OU.refl X s
    · cases hf : s.th? t with
      | none => exact OU.refl X s
      | some th =>
        simp only
        split
        · exact OU.refl X s
        · split
          · exact ih.dt X _ _ h
          · rename_i hd
            have hname : name = 0 := by
              rcases hq with hq | hq
              · exact hq
              · exact absurd hq hd
            subst hname
            split
            · simp only [bne_self_eq_false, Bool.false_eq_true, if_false]
              exact (cancelEvents_ou X s t).trans (startTiming_ou ih.stp X (cancelEvents_ninv h t) t)
            · exact cancelEvents_ou X s t
  · intro X s src name h hq
    rw [unregister_succ]
    have q1 := unregEndOn_ou n.dt ih.dt X h src name
    split
    · exact q1
    · exact q1.trans (unregNotify_ou n.swf n.sn ih.swf ih.sn X (unregEndOn_ninv n.dt h src name) src name hq)
  · intro X s src h
    rw [unregisterAll_succ]
    have h1 := n.ur s src 0 h
    have q1 := ih.ur X s src 0 h (Or.inl rfl)
    have h2 : NInv { (unregister fuel s src 0) with endOn := Tbl.removeOwner (unregister fuel s src 0).endOn src } :=
      h1.setEndOn _ (fun o ho => Or.inl (Tbl.hasOwner_removeOwner ho))
    have q2 : OU X (unregister fuel s src 0)
        { (unregister fuel s src 0) with endOn := Tbl.removeOwner (unregister fuel s src 0).endOn src } :=
      OU.frame rfl rfl rfl
    exact (q1.trans q2).trans (uaRest_ou n.swf n.sn ih.swf ih.sn X h2 src)

/-- **The destruction cascades leave every result slot alone, for every fuel, under `NInv` alone.** -/
theorem oqAll : ∀ fuel, OQAll fuel
  | 0 => oqAll_zero
  | fuel + 1 => oqAll_succ (oqAll fuel)

theorem killStep_ou {s : State} (h : NInv s) (t : Nat) : (killStep s t).out = s.out :=
  (OU.setTh [] s t _).trans ((oqAll defaultFuel).dt [] _ t (h.setTh t _))

theorem killFold_ou : ∀ (L : List Nat) (S : State), NInv S → (L.foldl killStep S).out = S.out
  | [], _, _ => rfl
  | t :: L, S, hn => (killFold_ou L _ (killStep_ninv hn t)).trans (killStep_ou hn t)

theorem killInst_ou {s : State} (hn : NInv s) (i : Nat) : (killInst s i).out = s.out := by
  unfold killInst
  split
  · rfl
  · exact killFold_ou _ _ (hn.congr rfl rfl rfl rfl rfl rfl rfl rfl rfl)

theorem killAllInsts_ou {s : State} (hn : NInv s) (j : J [] s) : (killAllInsts s).out = s.out := by
  unfold killAllInsts
  generalize s.insts.map (·.1) = ids
  induction ids generalizing s with
  | nil => rfl
  | cons i ids ih =>
    simp only [List.foldl_cons]
    obtain ⟨n1, j1⟩ := killInst_j hn j i
    exact (ih n1 j1).trans (killInst_ou hn i)

end Morfuse.Sched
