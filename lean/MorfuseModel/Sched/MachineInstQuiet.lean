import MorfuseModel.Sched.MachineInst
/-!
# `J` through the destruction cascades (the quiet half of the machine)

Same domain and same skeleton as `qAll` (`MachineInvQuiet.lean`): `deleteThread`, `stoppedNotify`, `stop`,
`cancelWaitingAll`, `unregisterAll`, and `stoppedWaitFor` / `unregister` in the calls the cascades make
(channel 0, `bDeleting`, a thread as source).  Under `NInv` alone — no fuel condition, no `Inv` — these keep
`J`: the only steps that touch what `J` reads are `hasVM := false`, `NotifyDelete` (the thread has lost its VM
by then: `NoVM`, kept by the quiet steps in between) and the end of the destructor (the VM is destroyed by
then: `Gone`).
-/
namespace Morfuse.Sched
open State

/-- `f` keeps `J X` -/
def JR (X : List Nat) (s s' : State) : Prop := J X s → J X s'

theorem JR.refl (X : List Nat) (s : State) : JR X s s := id
theorem JR.trans {X : List Nat} {a b c : State} (h1 : JR X a b) (h2 : JR X b c) : JR X a c := fun h => h2 (h1 h)
theorem JR.frame {X : List Nat} {s s' : State} (e1 : s'.threads = s.threads) (e2 : s'.insts = s.insts)
    (e3 : s'.nextInst = s.nextInst) (e4 : s'.events = s.events := by rfl) : JR X s s' := fun h => h.congr e1 e2 e3 e4
theorem JR.fuel (X : List Nat) (s : State) : JR X s { s with outOfFuel := true } := JR.frame rfl rfl rfl

theorem JR.setTh (X : List Nat) (s : State) (t : Nat) (f : Th → Th)
    (hinst : ∀ x, (f x).inst = x.inst := by intros; rfl)
    (hatt : ∀ x, (f x).attached = x.attached := by intros; rfl)
    (hdead : ∀ x, (f x).dead = x.dead := by intros; rfl)
    (hhv : ∀ x, (f x).hasVM = true → x.hasVM = true := by intro x h; exact h)
    (hvm : ∀ x, (f x).vm = .destroyed → x.vm = .destroyed := by intro x h; exact h) :
    JR X s (s.setTh t f) := fun h => h.setTh t f hinst hatt hdead hhv hvm

def JQ1 (f : State → Nat → State) : Prop := ∀ X s a, NInv s → JR X s (f s a)
def JQ3 (f : State → Nat → Nat → Bool → State) : Prop :=
  ∀ X s t name d, NInv s → (name = 0 ∨ d = true) → JR X s (f s t name d)

theorem JR.foldl {α : Type} {X : List Nat} (f : State → α → State)
    (hn : ∀ s a, NInv s → NInv (f s a)) (hf : ∀ s a, NInv s → JR X s (f s a)) :
    ∀ (l : List α) (s : State), NInv s → JR X s (l.foldl f s)
  | [], s, _ => JR.refl X s
  | a :: l, s, h => (hf s a h).trans (JR.foldl f hn hf l (f s a) (hn s a h))

theorem stopStep_jr {cw : State → Nat → State} (hcw : JQ1 cw) (X : List Nat) {s : State}
    (h : NInv s) (t : Nat) (th : Th) : JR X s (stopStep cw s t th) := by
  unfold stopStep
  split
  · exact (JR.setTh X s t (fun th => { th with ts := .running })).trans (JR.frame rfl rfl rfl)
  · split
    · exact (JR.setTh X s t (fun th => { th with ts := .running })).trans (hcw X _ _ (h.setTh t _))
    · exact JR.refl X s

theorem cancelEvents_jr (X : List Nat) (s : State) (t : Nat) : JR X s (cancelEvents s t) :=
  fun h => h.eventsSub rfl rfl rfl (fun ev he => (List.mem_filter.1 he).1)

theorem cancelEvents_noEv (s : State) (t : Nat) : NoEv (cancelEvents s t) t := by
  intro ev he hk
  have := (List.mem_filter.1 he).2
  simp [hk] at this

/-- `CancelPendingEvents` only touches the queue, `NotifyDelete` never reads it -/
theorem cancelEvents_notifyDelete (s : State) (t : Nat) :
    cancelEvents (notifyDelete s t) t = notifyDelete (cancelEvents s t) t := by
  unfold notifyDelete
  have hth : (cancelEvents s t).th? t = s.th? t := rfl
  rw [hth]
  cases hf : s.th? t with
  | none => rfl
  | some th =>
    simp only
    have hri : ∀ (S : State) (i : Nat), cancelEvents (removeFromInst S t i) t = removeFromInst (cancelEvents S t) t i := by
      intro S i
      rw [removeFromInst_frame S, removeFromInst_frame (cancelEvents S t), removeFromInst_insts, removeFromInst_insts]
      rfl
    by_cases ha : th.attached = true
    · simp only [ha, if_true]
      by_cases hv : (th.vm == VS.idling) = true
      · simp only [hv, if_true]
        have h1 := hri (s.setTh t fun th => { th with vm := .destroyed }) th.inst
        have h2 : (cancelEvents s t).setTh t (fun th => { th with vm := VS.destroyed }) =
            cancelEvents (s.setTh t fun th => { th with vm := .destroyed }) t := rfl
        rw [h2, ← h1]; rfl
      · simp only [hv]
        have h1 := hri (s.setTh t fun th => { th with vm := .destroyed }) th.inst
        have h2 : (cancelEvents s t).setTh t (fun th => { th with vm := VS.destroyed }) =
            cancelEvents (s.setTh t fun th => { th with vm := .destroyed }) t := rfl
        rw [h2, ← h1]
        simp only [Bool.false_eq_true, if_false]
    · simp only [ha]
      by_cases hv : (th.vm == VS.idling) = true
      · simp only [hv, if_true]; rfl
      · simp only [hv]; rfl

theorem notifyLoop_jr {sn : State → Nat → State} (hn : N1 sn) (hsn : JQ1 sn) (X : List Nat) {s : State}
    (h : NInv s) (stopped : List Nat) : JR X s (notifyLoop sn s stopped) := by
  unfold notifyLoop
  apply JR.foldl _ _ _ _ _ h
  · intro s a hs
    split
    · exact hn s a hs
    · exact hs
  · intro s a hs
    split
    · exact hsn X s a hs
    · exact JR.refl X s

theorem cwaZero_jr {swf : State → Nat → Nat → Bool → State} {sn : State → Nat → State}
    (hn3 : N3 swf) (hn1 : N1 sn) (hswf : JQ3 swf) (hsn : JQ1 sn) (X : List Nat) {s : State} (h : NInv s) (w : Nat) :
    JR X s (cwaZero swf sn s w) := by
  unfold cwaZero
  split
  · exact JR.refl X s
  · rename_i list _
    simp only [cancelWaitingSources_eq_purge]
    have h1 : NInv ({ ({ s with notify := (Tbl.purge s.alive s.notify w 0 list []).1 } : State) with
        waitFor := Tbl.removeKey s.waitFor (w, 0) }) :=
      (h.setNotify _ (Tbl.purge_WF _ h.wfN _ _ _ _) (Tbl.Sub.purge _ _ _ _ _ _)).setWaitFor _
        (h.wfW.removeKey _) (Tbl.Sub.removeKey _ _)
    have q1 : JR X s ({ ({ s with notify := (Tbl.purge s.alive s.notify w 0 list []).1 } : State) with
        waitFor := Tbl.removeKey s.waitFor (w, 0) }) := JR.frame rfl rfl rfl
    split
    · exact (q1.trans (hswf X _ _ _ _ h1 (Or.inl rfl))).trans (notifyLoop_jr hn1 hsn X (hn3 _ _ _ _ h1) _)
    · exact q1.trans (notifyLoop_jr hn1 hsn X h1 _)

theorem cwaRest_jr {swf : State → Nat → Nat → Bool → State} {sn : State → Nat → State}
    (hn3 : N3 swf) (hn1 : N1 sn) (hswf : JQ3 swf) (hsn : JQ1 sn) (X : List Nat) {s : State} (h : NInv s) (w : Nat) :
    JR X s (cwaRest swf sn s w) := by
  unfold cwaRest
  split
  · exact JR.refl X s
  · simp only [cwaSources_frame]
    have h1 : NInv ({ ({ s with notify := (Tbl.multiPurge s.alive s.notify w (Tbl.keysOf s.waitFor w) []).1 } : State) with
        waitFor := Tbl.removeOwner s.waitFor w }) :=
      (h.setNotify _ (Tbl.multiPurge_WF _ _ _ _ _ h.wfN) (Tbl.Sub.multiPurge _ _ _ _ _)).setWaitFor _
        (h.wfW.removeOwner _) (Tbl.Sub.removeOwner _ _)
    have q1 : JR X s ({ ({ s with notify := (Tbl.multiPurge s.alive s.notify w (Tbl.keysOf s.waitFor w) []).1 } : State) with
        waitFor := Tbl.removeOwner s.waitFor w }) := JR.frame rfl rfl rfl
    exact (q1.trans (hswf X _ _ _ _ h1 (Or.inl rfl))).trans (notifyLoop_jr hn1 hsn X (hn3 _ _ _ _ h1) _)

theorem startTiming_jr {stp : State → Nat → State} (hstp : JQ1 stp) (X : List Nat) {s : State} (h : NInv s)
    (t : Nat) : JR X s (startTiming stp s t) := by
  unfold startTiming
  split
  · exact hstp X s t h
  · exact ((hstp X s t h).trans (JR.setTh X _ t (fun th => { th with ts := .timing }))).trans (JR.frame rfl rfl rfl)

theorem endOnLoop_jr {dt : State → Nat → State} (hn : N1 dt) (hd : JQ1 dt) (X : List Nat) {s : State}
    (h : NInv s) (src name : Nat) (listeners : List Nat) : JR X s (endOnLoop dt s src name listeners).1 := by
  unfold endOnLoop
  generalize listeners.reverse = L
  suffices hs : ∀ (L : List Nat) (acc : State × Bool), NInv acc.1 → JR X s acc.1 →
      JR X s (L.foldl (fun (acc : State × Bool) l =>
        if acc.1.alive l then
          if l == src && (name == nameRemove || name == nameDelete || acc.2) then acc
          else (dt acc.1 l, acc.2 || (l == src))
        else acc) acc).1 from hs L (s, false) h (JR.refl X s)
  intro L
  induction L with
  | nil => intro acc _ h; exact h
  | cons l L ih =>
    intro acc hacc qacc
    simp only [List.foldl_cons]
    split
    · split
      · exact ih _ hacc qacc
      · exact ih _ (hn _ _ hacc) (qacc.trans (hd X _ _ hacc))
    · exact ih _ hacc qacc

theorem unregEndOn_jr {dt : State → Nat → State} (hn : N1 dt) (hd : JQ1 dt) (X : List Nat) {s : State}
    (h : NInv s) (src name : Nat) : JR X s (unregEndOn dt s src name).1 := by
  unfold unregEndOn
  split
  · exact JR.refl X s
  · split
    · exact JR.refl X s
    · have h1 : NInv { s with endOn := Tbl.removeKey s.endOn (src, name) } :=
        h.setEndOn _ (fun o ho => Or.inl (Tbl.hasOwner_removeKey ho))
      have q1 : JR X s { s with endOn := Tbl.removeKey s.endOn (src, name) } := JR.frame rfl rfl rfl
      exact q1.trans (endOnLoop_jr hn hd X h1 _ _ _)

theorem wakeLoop_jr {swf : State → Nat → Nat → Bool → State} (hn : N3 swf) (hswf : JQ3 swf) (X : List Nat)
    {s : State} (h : NInv s) (stopped : List Nat) : JR X s (wakeLoop swf s 0 stopped) := by
  unfold wakeLoop
  apply JR.foldl _ _ _ _ _ h
  · intro s a hs
    split
    · exact hn _ _ _ _ hs
    · exact hs
  · intro s a hs
    split
    · exact hswf X _ _ _ _ hs (Or.inl rfl)
    · exact JR.refl X s

theorem unregNotify_jr {swf : State → Nat → Nat → Bool → State} {sn : State → Nat → State}
    (hn3 : N3 swf) (hn1 : N1 sn) (hswf : JQ3 swf) (hsn : JQ1 sn) (X : List Nat) {s : State} (h : NInv s)
    (src name : Nat) (hq : name = 0 ∨ QSrc src name) : JR X s (unregNotify swf sn s src name) := by
  unfold unregNotify
  split
  · exact JR.refl X s
  · split
    · exact JR.refl X s
    · rename_i list hfind
      have hname : name = 0 := by
        rcases hq with hq | hq
        · exact hq
        · exfalso
          have hk := h.n1 src name hq.1 (by rw [Tbl.find_eq_getD_of_some hfind]; exact h.wfN.find_ne_nil hfind)
          rcases hq.2 with e | e
          · exact hk.1 e
          · exact hk.2 e
      subst hname
      simp only [unregisterTargets_eq_purge]
      have h1 : NInv ({ ({ s with waitFor := (Tbl.purge s.alive s.waitFor src 0 list []).1 } : State) with
          notify := Tbl.removeKey s.notify (src, 0) }) :=
        (h.setWaitFor _ (Tbl.purge_WF _ h.wfW _ _ _ _) (Tbl.Sub.purge _ _ _ _ _ _)).setNotify _
          (h.wfN.removeKey _) (Tbl.Sub.removeKey _ _)
      have q1 : JR X s ({ ({ s with waitFor := (Tbl.purge s.alive s.waitFor src 0 list []).1 } : State) with
          notify := Tbl.removeKey s.notify (src, 0) }) := JR.frame rfl rfl rfl
      split
      · exact (q1.trans (hsn X _ _ h1)).trans (wakeLoop_jr hn3 hswf X (hn1 _ _ h1) _)
      · exact q1.trans (wakeLoop_jr hn3 hswf X h1 _)

theorem killLoop_jr {swf : State → Nat → Nat → Bool → State} (hn : N3 swf) (hswf : JQ3 swf) (X : List Nat)
    {s : State} (h : NInv s) (stopped : List (Nat × Nat)) : JR X s (killLoop swf s stopped) := by
  unfold killLoop
  apply JR.foldl _ _ _ _ _ h
  · intro s a hs
    split
    · exact hn _ _ _ _ hs
    · exact hs
  · intro s a hs
    split
    · exact hswf X _ _ _ _ hs (Or.inr rfl)
    · exact JR.refl X s

theorem uaRest_jr {swf : State → Nat → Nat → Bool → State} {sn : State → Nat → State}
    (hn3 : N3 swf) (hn1 : N1 sn) (hswf : JQ3 swf) (hsn : JQ1 sn) (X : List Nat) {s : State} (h : NInv s)
    (src : Nat) : JR X s (uaRest swf sn s src) := by
  unfold uaRest
  split
  · exact JR.refl X s
  · simp only
    rw [uaTargets_frame]
    have h1 : NInv ({ ({ s with waitFor := (Tbl.multiPurge s.alive s.waitFor src (Tbl.keysOf s.notify src) []).1 } : State) with
        notify := Tbl.removeOwner s.notify src }) :=
      (h.setWaitFor _ (Tbl.multiPurge_WF _ _ _ _ _ h.wfW) (Tbl.Sub.multiPurge _ _ _ _ _)).setNotify _
        (h.wfN.removeOwner _) (Tbl.Sub.removeOwner _ _)
    have q1 : JR X s ({ ({ s with waitFor := (Tbl.multiPurge s.alive s.waitFor src (Tbl.keysOf s.notify src) []).1 } : State) with
        notify := Tbl.removeOwner s.notify src }) := JR.frame rfl rfl rfl
    exact (q1.trans (hsn X _ _ h1)).trans (killLoop_jr hn3 hswf X (hn1 _ _ h1) _)

/-! ### induction -/

structure JQAll (fuel : Nat) : Prop where
  dt : JQ1 (deleteThread fuel)
  sn : JQ1 (stoppedNotify fuel)
  stp : JQ1 (stop fuel)
  cwa : JQ1 (cancelWaitingAll fuel)
  swf : JQ3 (stoppedWaitFor fuel)
  ur : ∀ X s src name, NInv s → (name = 0 ∨ QSrc src name) → JR X s (unregister fuel s src name)
  ua : JQ1 (unregisterAll fuel)

theorem jqAll_zero : JQAll 0 where
  dt := fun X s t _ => by rw [deleteThread_zero]; exact JR.fuel X s
  sn := fun X s t _ => by rw [stoppedNotify_zero]; exact JR.fuel X s
  stp := fun X s t _ => by rw [stop_zero]; exact JR.fuel X s
  cwa := fun X s t _ => by rw [cancelWaitingAll_zero]; exact JR.fuel X s
  swf := fun X s t n d _ _ => by rw [stoppedWaitFor_zero]; exact JR.fuel X s
  ur := fun X s t n _ _ => by rw [unregister_zero]; exact JR.fuel X s
  ua := fun X s t _ => by rw [unregisterAll_zero]; exact JR.fuel X s

/-- the whole of `~ScriptThread` for a thread that has a record and a VM: the intermediate facts -/
theorem deleteThread_jr_succ {fuel : Nat} (ih : JQAll fuel) : JQ1 (deleteThread (fuel + 1)) := by
  have n := nAll fuel
  have q := qAll fuel
  intro X s t h
  rw [deleteThread_succ]
  cases hf : s.th? t with
  | none => exact JR.refl X s
  | some th =>
    simp only
    split
    · exact JR.refl X s
    · have hf' : thFind s.threads t = some th := by rw [← State.th?_eq]; exact hf
      have ht : 100 ≤ t := (h.range t th hf').1
      have h0 : NInv (s.setTh t fun th => { th with hasVM := false }) := h.setTh t _
      have j0 : JR X s (s.setTh t fun th => { th with hasVM := false }) :=
        JR.setTh X s t (fun th => { th with hasVM := false }) (fun _ => rfl) (fun _ => rfl) (fun _ => rfl)
          (fun _ hx => by cases hx) (fun _ hx => hx)
      have v0 : NoVM (s.setTh t fun th => { th with hasVM := false }) t := by
        intro th' hf1
        rw [State.setTh_threads, thFind_map_upd] at hf1
        simp [hf'] at hf1
        rw [← hf1]
      have h1 := stopStep_ninv n.cwa h0 t th
      have j1 := j0.trans (stopStep_jr ih.cwa X h0 t th)
      have v1 : NoVM _ t := v0.of_q (stopStep_q q.cwa [] h0 t th)
      have h2 := notifyDelete_ninv h1 t
      have j3 : JR X s (cancelEvents (notifyDelete (stopStep (cancelWaitingAll fuel)
          (s.setTh t fun th => { th with hasVM := false }) t th) t) t) := by
        intro hj
        rw [cancelEvents_notifyDelete]
        exact (cancelEvents_jr X _ t (j1 hj)).ndel (v1.of_q (cancelEvents_q [] _ t)) (cancelEvents_noEv _ t)
      have g2 : Gone (notifyDelete (stopStep (cancelWaitingAll fuel) (s.setTh t fun th => { th with hasVM := false }) t th) t) t := by
        intro th' hf2
        have hv := (v1.of_q (notifyDelete_q [] _ t)) th' hf2
        refine ⟨hv, ?_⟩
        -- `NotifyDelete` leaves the VM destroyed
        unfold notifyDelete at hf2
        cases hf1 : (stopStep (cancelWaitingAll fuel) (s.setTh t fun th => { th with hasVM := false }) t th).th? t with
        | none =>
          rw [hf1] at hf2
          rw [State.th?_eq] at hf1
          rw [hf1] at hf2; cases hf2
        | some th1 =>
          rw [hf1] at hf2
          rw [State.th?_eq] at hf1
          simp only at hf2
          have hbase : ∀ (S : State), (∀ x, thFind S.threads t = some x → x.vm = .destroyed) →
              ∀ x, thFind (S.setTh t fun th => { th with vmObj := false }).threads t = some x → x.vm = .destroyed := by
            intro S hS x hx
            rw [State.setTh_threads, thFind_map_upd] at hx
            simp only [if_true] at hx
            cases hS0 : thFind S.threads t with
            | none => rw [hS0] at hx; simp at hx
            | some y => rw [hS0] at hx; simp at hx; rw [← hx]; exact hS y hS0
          have hd1 : ∀ x, thFind ((stopStep (cancelWaitingAll fuel) (s.setTh t fun th => { th with hasVM := false }) t th).setTh t
              fun th => { th with vm := .destroyed }).threads t = some x → x.vm = .destroyed := by
            intro x hx
            rw [State.setTh_threads, thFind_map_upd] at hx
            simp [hf1] at hx
            rw [← hx]
          have hd2 : ∀ x, thFind (if th1.attached = true then removeFromInst ((stopStep (cancelWaitingAll fuel)
              (s.setTh t fun th => { th with hasVM := false }) t th).setTh t fun th => { th with vm := .destroyed }) t th1.inst
              else (stopStep (cancelWaitingAll fuel) (s.setTh t fun th => { th with hasVM := false }) t th).setTh t
                fun th => { th with vm := .destroyed }).threads t = some x → x.vm = .destroyed := by
            split
            · rw [removeFromInst_frame]; exact hd1
            · exact hd1
          split at hf2
          · exact hbase _ hd2 th' hf2
          · exact hd2 th' hf2
      have h3 := cancelEvents_ninv h2 t
      have g3 : Gone (cancelEvents (notifyDelete (stopStep (cancelWaitingAll fuel)
          (s.setTh t fun th => { th with hasVM := false }) t th) t) t) t := g2
      have h4 := n.ur _ t nameDelete h3
      have j4 := j3.trans (ih.ur X _ t nameDelete h3 (Or.inr ⟨ht, Or.inl rfl⟩))
      have g4 := g3.of_q (q.ur [] _ t nameDelete h3 (Or.inr ⟨ht, Or.inl rfl⟩))
      have h5 := n.ur _ t nameRemove h4
      have j5 := j4.trans (ih.ur X _ t nameRemove h4 (Or.inr ⟨ht, Or.inr rfl⟩))
      have g5 := g4.of_q (q.ur [] _ t nameRemove h4 (Or.inr ⟨ht, Or.inr rfl⟩))
      have h6 := n.ua _ t h5
      have j6 := j5.trans (ih.ua X _ t h5)
      have g6 := g5.of_q (q.ua [] _ t h5)
      have j7 := j6.trans (ih.cwa X _ t h6)
      have g7 := g6.of_q (q.cwa [] _ t h6)
      exact fun hj => (j7 hj).fdel g7

theorem jqAll_succ {fuel : Nat} (ih : JQAll fuel) : JQAll (fuel + 1) := by
  have n := nAll fuel
  refine ⟨deleteThread_jr_succ ih, ?_, ?_, ?_, ?_, ?_, ?_⟩
  · intro X s l h
    rw [stoppedNotify_succ]
    split
    · split
      · exact ih.dt X _ _ h
      · exact JR.refl X s
    · exact JR.refl X s
  · intro X s t h
    rw [stop_succ]
    split
    · exact JR.refl X s
    · exact stopStep_jr ih.cwa X h _ _
  · intro X s w h
    rw [cancelWaitingAll_succ]
    exact (cwaZero_jr n.swf n.sn ih.swf ih.sn X h w).trans
      (cwaRest_jr n.swf n.sn ih.swf ih.sn X (cwaZero_ninv n.swf n.sn h w) w)
  · intro X s t name d h hq
    rw [stoppedWaitFor_succ]
    split
    · exact JR.refl X s
    · cases hf : s.th? t with
      | none => exact JR.refl X s
      | some th =>
        simp only
        split
        · exact JR.refl X s
        · split
          · exact ih.dt X _ _ h
          · rename_i hd
            have hname : name = 0 := by
              rcases hq with hq | hq
              · exact hq
              · exact absurd hq hd
            subst hname
            split
            · simp only [bne_self_eq_false, Bool.false_eq_true, if_false]
              exact (cancelEvents_jr X s t).trans (startTiming_jr ih.stp X (cancelEvents_ninv h t) t)
            · exact cancelEvents_jr X s t
  · intro X s src name h hq
    rw [unregister_succ]
    have q1 := unregEndOn_jr n.dt ih.dt X h src name
    split
    · exact q1
    · exact q1.trans (unregNotify_jr n.swf n.sn ih.swf ih.sn X (unregEndOn_ninv n.dt h src name) src name hq)
  · intro X s src h
    rw [unregisterAll_succ]
    have h1 := n.ur s src 0 h
    have q1 := ih.ur X s src 0 h (Or.inl rfl)
    have h2 : NInv { (unregister fuel s src 0) with endOn := Tbl.removeOwner (unregister fuel s src 0).endOn src } :=
      h1.setEndOn _ (fun o ho => Or.inl (Tbl.hasOwner_removeOwner ho))
    have q2 : JR X (unregister fuel s src 0)
        { (unregister fuel s src 0) with endOn := Tbl.removeOwner (unregister fuel s src 0).endOn src } :=
      JR.frame rfl rfl rfl
    exact (q1.trans q2).trans (uaRest_jr n.swf n.sn ih.swf ih.sn X h2 src)

/-- **`J` is kept by every destruction cascade, for every fuel, under `NInv` alone.** -/
theorem jqAll : ∀ fuel, JQAll fuel
  | 0 => jqAll_zero
  | fuel + 1 => jqAll_succ (jqAll fuel)

end Morfuse.Sched
