import MorfuseModel.Sched.MachineInstKeys
import MorfuseModel.Sched.MachineInstHost
import MorfuseModel.Sched.MachineHostProps
/-!
# `Reset` / recompile leave no script instance and no thread with a VM

`killAllInsts` destroys every instance that is listed when it starts; the destruction cascades list no new
instance (`iqAll`), so the list is empty afterwards; with the instance-list invariant no record has a VM
then, hence the timer and the listener tables are empty.
-/
namespace Morfuse.Sched
open State

theorem killStep_ik {s : State} (h : NInv s) (t : Nat) : IK [] s (killStep s t) :=
  (IK.setTh [] s t _).trans ((iqAll defaultFuel).dt [] _ t (h.setTh t _))

theorem killFold_ik : ∀ (L : List Nat) (S : State), NInv S → IK [] S (L.foldl killStep S)
  | [], S, _ => IK.refl [] S
  | t :: L, S, hn => (killStep_ik hn t).trans (killFold_ik L _ (killStep_ninv hn t))

/-- after `~ScriptClass` of instance `i` it is not listed, and nothing else became listed -/
theorem killInst_keys {s : State} (hn : NInv s) (i : Nat) :
    ∀ e' ∈ (killInst s i).insts, e'.1 ≠ i ∧ ∃ e ∈ s.insts, e.1 = e'.1 := by
  unfold killInst
  cases hfd : s.insts.find? (·.1 == i) with
  | none =>
    intro e' he'
    have := List.find?_eq_none.1 hfd e' he'
    exact ⟨by simpa using this, e', he', rfl⟩
  | some e0 =>
    simp only
    intro e' he'
    have hn1 : NInv ({ s with insts := s.insts.filter (fun e => !(e.1 == i)) } : State) :=
      hn.congr rfl rfl rfl rfl rfl rfl rfl rfl rfl
    obtain ⟨e1, h1, h2⟩ := killFold_ik e0.2 _ hn1 e' he'
    obtain ⟨hm, hk⟩ := List.mem_filter.1 h1
    exact ⟨by rw [← h2]; simpa using hk, e1, hm, h2⟩

theorem killAll_insts_nil : ∀ (ids : List Nat) (S : State), NInv S → J [] S → (∀ e ∈ S.insts, e.1 ∈ ids) →
    (ids.foldl (fun s i => killInst s i) S).insts = []
  | [], S, _, _, hk => List.eq_nil_iff_forall_not_mem.2 (fun e he => by have := hk e he; cases this)
  | i :: ids, S, hn, j, hk => by
    simp only [List.foldl_cons]
    obtain ⟨n1, j1⟩ := killInst_j hn j i
    apply killAll_insts_nil ids _ n1 j1
    intro e' he'
    obtain ⟨hne, e, hm, h2⟩ := killInst_keys hn i e' he'
    have := hk e hm
    rw [h2] at this
    rcases List.mem_cons.1 this with h3 | h3
    · exact absurd h3 hne
    · exact h3

theorem killAllInsts_insts {s : State} (hn : NInv s) (j : J [] s) : (killAllInsts s).insts = [] := by
  unfold killAllInsts
  exact killAll_insts_nil _ s hn j (fun e he => List.mem_map.2 ⟨e, he, rfl⟩)

/-- a state with the invariants and an empty instance list: no VM, no timed wait, no registration -/
theorem clean_of_no_insts {s : State} (h : Inv [] [] none s) (j : J [] s) (hI : s.insts = []) :
    (∀ t th, s.th? t = some th → th.hasVM = false) ∧ s.timer.elems = [] ∧ s.notify = [] ∧ s.waitFor = [] := by
  have hv : ∀ t th, s.th? t = some th → th.hasVM = false := by
    intro t th hf
    cases hvm : th.hasVM with
    | false => rfl
    | true =>
      rcases j.a t th hf hvm with m | m
      · cases m
      · rw [hI] at m; simp [instChain] at m
  have hN : s.notify = [] := by
    apply Classical.byContradiction
    intro hne
    obtain ⟨k, x, hx⟩ := h.n.wfN.exists_mem_of_ne_nil hne
    obtain ⟨_, _, th, hf, _, _, hvm⟩ := h.registered_waiting (o := k.1) (n := k.2) hx
    rw [hv x th hf] at hvm; cases hvm
  refine ⟨hv, ?_, hN, ?_⟩
  · apply List.eq_nil_iff_forall_not_mem.2
    intro e he
    obtain ⟨th, hf, _, hvm, _⟩ := h.timer_elem_live he
    rw [hv e.1 th hf] at hvm; cases hvm
  · apply Classical.byContradiction
    intro hne
    obtain ⟨k, o, ho⟩ := h.n.wfW.exists_mem_of_ne_nil hne
    have hx : k.1 ∈ Tbl.getD s.notify (o, k.2) := (h.tab.mir.mem_iff o k.2 k.1).2 ho
    rw [hN] at hx
    simp [Tbl.getD, Tbl.find] at hx

/-- `killAllInsts` from a state with the host invariants -/
theorem killAllInsts_clean {s : State} (h : HInv2 s) :
    Ok (killAllInsts s) ((killAllInsts s).insts = [] ∧
      (∀ t th, (killAllInsts s).th? t = some th → th.hasVM = false) ∧ (killAllInsts s).timer.elems = [] ∧
      (killAllInsts s).notify = [] ∧ (killAllInsts s).waitFor = []) := by
  have hI := killAllInsts_insts h.h.inv.n h.j
  have j1 := (killAllInsts_j h.h.inv.n h.j).2
  exact (killAllInsts_inv h.h.inv).map (fun i1 => ⟨hI, clean_of_no_insts i1 j1 hI⟩)

end Morfuse.Sched
