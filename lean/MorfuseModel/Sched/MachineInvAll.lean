import MorfuseModel.Sched.MachineInvMain
/-!
# The timer loop, `ScriptExecuteInternal`, and the induction over the whole mutual block
-/
namespace Morfuse.Sched
open State

/-- the timer keeps its elements (only `m_time` / the dirty flag change) -/
theorem Inv.setTimerSame {C W : List Nat} {top : Option Nat} {s : State} (h : Inv C W top s) (tm : Timer)
    (he : tm.elems = s.timer.elems) : Inv C W top { s with timer := tm } :=
  ⟨h.n.timer tm (by rw [he]; exact fun e h => h), h.th, h.tim.congr_elems he,
    ⟨h.tab.mir, fun o n x hx => h.tab.aN o n x hx⟩, ⟨h.lnk.linkC, h.lnk.linkW, h.lnk.f4⟩⟩

theorem drain_inv_succ {fuel : Nat} (hev : IEv (execVM fuel)) (hdr : IDr (drain fuel)) :
    IDr (drain (fuel + 1)) := by
  intro W s h
  rw [drain_succ]
  cases hn : s.timer.next with
  | mk r tm =>
    cases r with
    | none =>
      dsimp only
      obtain ⟨_, htm⟩ := Timer.next_none hn
      have i1 : Inv [] W none ({ s with timer := tm } : State) := h.setTimerSame tm (by rw [htm])
      exact Ok.pure ⟨i1.setCur none (by simp), G0.of_eq rfl rfl rfl, rfl⟩
    | some ed =>
      obtain ⟨t, d⟩ := ed
      dsimp only
      obtain ⟨i, hi, _, _, htm⟩ := Timer.next_some hn
      have hmem : (t, d) ∈ s.timer.elems := List.mem_of_getElem? hi
      obtain ⟨th, hth, hts⟩ := h.tim.t1 (t, d) hmem
      have ht100 : 100 ≤ t := (h.n.range t th hth).1
      have rr := h.th t th hth
      have hhv : th.hasVM = true := by
        cases hv : th.hasVM with
        | true => rfl
        | false => have := rr.f1 hv; rw [hts] at this; cases this
      have i0 : Inv [] W none ({ s with cur := some t } : State) :=
        h.setCur (some t) (fun x hx => by simp at hx; omega)
      have i1 : Inv [] W none { (({ s with cur := some t } : State).setTh t fun th => { th with ts := .running }) with timer := tm } :=
        i0.setTh (C' := []) (W' := W) (top' := none) t (fun th => { th with ts := .running }) th tm hth
          (fun _ => rfl) (recOK_running rr) (fun _ => rfl)
          (h.tim.erase i t d hi _ (fun _ => by simp) tm (by rw [htm]))
          (fun x m _ => m) (fun x m _ => m) (Or.inl rfl)
          (fun ho => by
            rcases h.lnk.linkC t ho with m | ⟨th0, h0, hw0⟩
            · exact Or.inl m
            · rw [hth] at h0; cases h0; rw [hts] at hw0; cases hw0)
          (fun hw0 => by cases hw0) (fun hw0 => by cases hw0)
      have i1' : Inv [] W none (({ s with timer := tm, cur := some t } : State).setTh t fun th => { th with ts := .running }) :=
        i1.congr rfl rfl rfl rfl rfl rfl rfl rfl rfl
      have hfind1 : thFind (({ s with timer := tm, cur := some t } : State).setTh t fun th => { th with ts := .running }).threads t =
          some { th with ts := .running } := by
        rw [State.setTh_threads, thFind_map_upd]; simp [hth]
      have g1 : G0 s (({ s with timer := tm, cur := some t } : State).setTh t fun th => { th with ts := .running }) :=
        (G0.setTh s t (fun th => { th with ts := .running }) (fun _ => rfl) (fun _ => rfl) (fun _ _ hi => hi)).congr
          rfl rfl rfl rfl rfl rfl
      have P := presAll fuel
      refine (hev W _ t _ i1' hfind1 hhv rfl (Or.inl rfl)).bind (P.dr _) (fun p => ?_)
      refine (hdr W _ p.1).map (fun q => ⟨q.1, ?_, q.2.2⟩)
      exact G0.trans h.n g1 (G0.trans i1'.n p.2.g0 q.2.1)

theorem executeRunning_inv_succ {fuel : Nat} (hdr : IDr (drain fuel)) : IEr (executeRunning (fuel + 1)) := by
  intro W s h
  rw [executeRunning_succ]
  split
  · exact Ok.pure ⟨h, G.refl s⟩
  · rename_i hc
    split
    · exact Ok.pure ⟨h, G.refl s⟩
    · refine (hdr W s h).map (fun p => ⟨p.1, p.2.1.withCur (Or.inr p.2.2)⟩)

theorem scriptExecuteInternal_inv_succ {fuel : Nat} (hstp : IStp (stop fuel)) (hev : IEv (execVM fuel))
    (her : IEr (executeRunning fuel)) : ISei (scriptExecuteInternal (fuel + 1)) := by
  intro W s t th h hth hhv
  rw [scriptExecuteInternal_succ]
  have ht100 : 100 ≤ t := (h.n.range t th hth).1
  have P := presAll fuel
  have i0 : Inv [] (t :: W) none ({ s with cur := some t } : State) :=
    h.setCur (some t) (fun x hx => by simp at hx; omega)
  have q1 := (qAll fuel).stp [] ({ s with cur := some t } : State) t i0.n
  refine (hstp [] W _ t i0).bind ?_ (fun p1 => ?_)
  · exact ((execIfAlive_pres P.ev _ _).trans (restoreCur_pres _ _)).trans (P.er _)
  obtain ⟨i1, hrun⟩ := p1
  -- the execution, if the thread survived its own `Stop()`
  have hexec : Ok (execIfAlive (execVM fuel) (stop fuel { s with cur := some t } t) t)
      (Inv [] W none (execIfAlive (execVM fuel) (stop fuel { s with cur := some t } t) t) ∧
        G0 (stop fuel { s with cur := some t } t) (execIfAlive (execVM fuel) (stop fuel { s with cur := some t } t) t)) := by
    unfold execIfAlive
    split
    · rename_i hal
      rw [State.alive_thread _ (by simpa [State.isThread] using ht100)] at hal
      obtain ⟨th1, hth1, hd1⟩ := (aliveTh_iff i1.n.nodup t).1 hal
      have hvm1 : th1.hasVM = true := by
        rcases q1.lost t th hth hhv with e | ⟨th', e, e2⟩
        · rw [e] at hth1; cases hth1
        · rw [hth1] at e; cases e
          rcases e2 with e2 | e2 | e2
          · exact e2
          · rw [hd1] at e2; cases e2
          · cases e2
      have hcur1 : (stop fuel { s with cur := some t } t).cur = some t := by rw [q1.cur]
      exact (hev W _ t th1 i1 hth1 hvm1 (hrun th1 hth1) (Or.inl hcur1)).map (fun p => ⟨p.1, p.2.g0⟩)
    · exact Ok.pure ⟨i1, G0.of_eq rfl rfl rfl⟩
  refine hexec.bind ((restoreCur_pres _ _).trans (P.er _)) (fun p2 => ?_)
  obtain ⟨i2, g2⟩ := p2
  have i3 : Inv [] W none (restoreCur (execIfAlive (execVM fuel) (stop fuel { s with cur := some t } t) t) s.cur) := by
    unfold restoreCur
    apply i2.setCur
    intro x hx
    cases hc : s.cur with
    | none => rw [hc] at hx; simp at hx
    | some c0 =>
      rw [hc] at hx
      simp only [Option.bind_some] at hx
      split at hx
      · simp at hx; subst hx; exact h.n.cur _ hc
      · simp at hx
  have g3 : G s (restoreCur (execIfAlive (execVM fuel) (stop fuel { s with cur := some t } t) t) s.cur) := by
    have g01 : G0 s (stop fuel { s with cur := some t } t) := q1.toG.g0.congr rfl rfl rfl rfl rfl rfl
    have g02 := G0.trans h.n g01 g2
    refine (g02.congr (b' := restoreCur _ s.cur) rfl rfl rfl rfl rfl rfl).withCur ?_
    unfold restoreCur
    cases hc : s.cur with
    | none => left; rfl
    | some c0 =>
      simp only [Option.bind_some]
      split
      · left; rfl
      · right; rfl
  exact (her W _ i3).map (fun p => ⟨p.1, G.trans h.n g3 p.2⟩)

/-! ### the induction -/

structure IAll (fuel : Nat) : Prop where
  dt : IDt (deleteThread fuel)
  sn : ISn (stoppedNotify fuel)
  stp : IStp (stop fuel)
  cwa : ICwa (cancelWaitingAll fuel)
  swf : ISwf (stoppedWaitFor fuel)
  ur : IUr (unregister fuel)
  ua : IUa (unregisterAll fuel)
  sei : ISei (scriptExecuteInternal fuel)
  er : IEr (executeRunning fuel)
  dr : IDr (drain fuel)
  ev : IEv (execVM fuel)
  pr : IPr (process fuel)
  ex : IEx (exec fuel)

theorem iAll_zero : IAll 0 where
  dt := fun C W s t _ => by rw [deleteThread_zero]; exact Or.inl rfl
  sn := fun C W s t _ => by rw [stoppedNotify_zero]; exact Or.inl rfl
  stp := fun C W s t _ => by rw [stop_zero]; exact Or.inl rfl
  cwa := fun C W s t _ => by rw [cancelWaitingAll_zero]; exact Or.inl rfl
  swf := fun C W s t n d _ _ => by rw [stoppedWaitFor_zero]; exact Or.inl rfl
  ur := fun C W s t n _ _ => by rw [unregister_zero]; exact Or.inl rfl
  ua := fun C W s t _ => by rw [unregisterAll_zero]; exact Or.inl rfl
  sei := fun W s t th _ _ _ => by rw [scriptExecuteInternal_zero]; exact Or.inl rfl
  er := fun W s _ => by rw [executeRunning_zero]; exact Or.inl rfl
  dr := fun W s _ => by rw [drain_zero]; exact Or.inl rfl
  ev := fun W s t th _ _ _ _ _ => by rw [execVM_zero]; exact Or.inl rfl
  pr := fun W s t _ _ _ => by rw [process_zero]; exact Or.inl rfl
  ex := fun W s t th0 th ins _ _ _ _ _ _ _ => by rw [exec_zero]; exact Or.inl rfl

theorem iAll_succ {fuel : Nat} (ih : IAll fuel) : IAll (fuel + 1) where
  dt := deleteThread_inv_succ ih.cwa ih.ur ih.ua
  sn := stoppedNotify_inv_succ ih.dt
  stp := stop_inv_succ (qAll fuel).cwa ih.cwa
  cwa := cancelWaitingAll_inv_succ ih.swf ih.sn
  swf := stoppedWaitFor_inv_succ ih.dt ih.stp ih.sei
  ur := unregister_inv_succ ih.dt ih.swf ih.sn
  ua := unregisterAll_inv_succ ih.ur ih.swf ih.sn
  sei := scriptExecuteInternal_inv_succ ih.stp ih.ev ih.er
  er := executeRunning_inv_succ ih.dr
  dr := drain_inv_succ ih.ev ih.dr
  ev := execVM_inv_succ ih.pr
  pr := process_inv_succ ih.ex ih.pr
  ex := exec_inv_succ ⟨ih.stp, ih.ur, ih.ua, ih.cwa, ih.dt, ih.sei⟩

/-- **The machine-level invariant is kept by every function of the mutual block, for every fuel.** -/
theorem iAll : ∀ fuel, IAll fuel
  | 0 => iAll_zero
  | fuel + 1 => iAll_succ (iAll fuel)

end Morfuse.Sched
