import MorfuseModel.Sched.MachineEq
import MorfuseModel.Sched.TablesLemmas
/-!
# Views of the machine state used by the machine-level invariants

* threads as a partial function `thFind : id ↦ record` with the effect of the three list updates the
  machine performs (`setTh` = map, record removal = filter, creation = append of a fresh id);
* the listener tables as functions `key ↦ list` (`Tbl.getD`) plus well-formedness (distinct keys, no
  empty list), under which `find`, `hasOwner`, `keysOf` are determined by the function view.
-/
namespace Morfuse.Sched

/-! ### threads -/

def thFind (ths : List (Nat × Th)) (t : Nat) : Option Th := (ths.find? (·.1 == t)).map (·.2)

theorem State.th?_eq (s : State) (t : Nat) : s.th? t = thFind s.threads t := rfl

def thUpd (t : Nat) (f : Th → Th) (e : Nat × Th) : Nat × Th := if e.1 == t then (e.1, f e.2) else e

theorem State.setTh_threads (s : State) (t : Nat) (f : Th → Th) :
    (s.setTh t f).threads = s.threads.map (thUpd t f) := rfl

theorem thUpd_fst (t : Nat) (f : Th → Th) (e : Nat × Th) : (thUpd t f e).1 = e.1 := by
  unfold thUpd; split <;> rfl

theorem thFind_nil (t : Nat) : thFind [] t = none := rfl

theorem thFind_cons (e : Nat × Th) (ths : List (Nat × Th)) (t : Nat) :
    thFind (e :: ths) t = if e.1 = t then some e.2 else thFind ths t := by
  unfold thFind
  by_cases h : e.1 = t
  · simp [h]
  · have : (e.1 == t) = false := by simpa using h
    simp [this, h]

theorem thFind_map_upd (ths : List (Nat × Th)) (t : Nat) (f : Th → Th) (u : Nat) :
    thFind (ths.map (thUpd t f)) u = if u = t then (thFind ths t).map f else thFind ths u := by
  induction ths with
  | nil => simp [thFind_nil]
  | cons e ths ih =>
    simp only [List.map_cons, thFind_cons, thUpd_fst, ih]
    by_cases he : e.1 = u
    · subst he
      by_cases ht : e.1 = t
      · simp [ht, thUpd]
      · have : (e.1 == t) = false := by simpa using ht
        simp [ht, thUpd, this]
    · simp only [he, if_false]
      by_cases hu : u = t
      · subst hu; simp [he]
      · simp [hu]

theorem thFind_filter_ne (ths : List (Nat × Th)) (t u : Nat) :
    thFind (ths.filter (fun e => !(e.1 == t))) u = if u = t then none else thFind ths u := by
  induction ths with
  | nil => simp [thFind_nil]
  | cons e ths ih =>
    by_cases he : e.1 = t
    · have hb : (e.1 == t) = true := by simpa using he
      simp only [List.filter_cons, hb, Bool.not_true, Bool.false_eq_true, if_false, ih, thFind_cons]
      by_cases hu : u = t
      · simp [hu]
      · have : ¬ e.1 = u := by rw [he]; exact fun h => hu h.symm
        simp [hu, this]
    · have hb : (e.1 == t) = false := by simpa using he
      simp only [List.filter_cons, hb, Bool.not_false, if_true, thFind_cons, ih]
      by_cases hu : u = t
      · subst hu; simp [he]
      · simp [hu]

theorem thFind_append (ths : List (Nat × Th)) (t' : Nat) (th : Th) (u : Nat) :
    thFind (ths ++ [(t', th)]) u =
      match thFind ths u with
      | some x => some x
      | none => if u = t' then some th else none := by
  induction ths with
  | nil =>
    simp only [List.nil_append, thFind_cons, thFind_nil]
    by_cases h : t' = u
    · simp [h]
    · have : ¬ u = t' := fun e => h e.symm
      simp [h, this]
  | cons e ths ih =>
    simp only [List.cons_append, thFind_cons, ih]
    by_cases he : e.1 = u <;> simp [he]

theorem thFind_some_mem {ths : List (Nat × Th)} {t : Nat} {th : Th} (h : thFind ths t = some th) :
    (t, th) ∈ ths := by
  unfold thFind at h
  cases hf : ths.find? (·.1 == t) with
  | none => simp [hf] at h
  | some e =>
    simp [hf] at h
    have hm := List.mem_of_find?_eq_some hf
    have hk := List.find?_some hf
    have : e.1 = t := by simpa using hk
    cases e with | mk a b => simp at this h; subst this; subst h; exact hm

theorem thFind_none_iff {ths : List (Nat × Th)} {t : Nat} :
    thFind ths t = none ↔ t ∉ ths.map (·.1) := by
  induction ths with
  | nil => simp [thFind_nil]
  | cons e ths ih =>
    simp only [thFind_cons, List.map_cons, List.mem_cons, not_or]
    by_cases he : e.1 = t
    · simp [he]
    · simp only [he, if_false, ih]
      constructor
      · intro h; exact ⟨fun e' => he e'.symm, h⟩
      · intro h; exact h.2

theorem thFind_of_mem {ths : List (Nat × Th)} (hn : (ths.map (·.1)).Nodup) {t : Nat} {th : Th}
    (h : (t, th) ∈ ths) : thFind ths t = some th := by
  induction ths with
  | nil => simp at h
  | cons e ths ih =>
    simp only [List.map_cons, List.nodup_cons] at hn
    rw [thFind_cons]
    rcases List.mem_cons.1 h with h | h
    · subst h; simp
    · have : ¬ e.1 = t := by
        intro e'; apply hn.1; rw [e']
        exact List.mem_map.2 ⟨(t, th), h, rfl⟩
      simp only [this, if_false]
      exact ih hn.2 h

theorem map_upd_keys (ths : List (Nat × Th)) (t : Nat) (f : Th → Th) :
    (ths.map (thUpd t f)).map (·.1) = ths.map (·.1) := by
  rw [List.map_map]
  apply List.map_congr_left
  intro e _; exact thUpd_fst t f e

/-- a thread is alive (weak references to it are non-null): it has a record that is not `dead` -/
def aliveTh (ths : List (Nat × Th)) (l : Nat) : Bool := ths.any (fun e => e.1 == l && !e.2.dead)

theorem State.alive_thread (s : State) {l : Nat} (h : State.isThread l = true) :
    s.alive l = aliveTh s.threads l := by
  unfold State.alive; simp [h, aliveTh]

theorem State.alive_obj (s : State) {l : Nat} (h : State.isThread l = false) :
    s.alive l = s.objAlive l := by
  unfold State.alive; simp [h]

theorem aliveTh_iff {ths : List (Nat × Th)} (hn : (ths.map (·.1)).Nodup) (l : Nat) :
    aliveTh ths l = true ↔ ∃ th, thFind ths l = some th ∧ th.dead = false := by
  unfold aliveTh
  simp only [List.any_eq_true, Bool.and_eq_true, beq_iff_eq, Bool.not_eq_eq_eq_not, Bool.not_true]
  constructor
  · rintro ⟨e, hm, he, hd⟩
    refine ⟨e.2, ?_, hd⟩
    apply thFind_of_mem hn
    rw [← he]; exact hm
  · rintro ⟨th, hf, hd⟩
    exact ⟨(l, th), thFind_some_mem hf, rfl, hd⟩

theorem aliveTh_false_of_none {ths : List (Nat × Th)} {l : Nat} (h : thFind ths l = none) :
    aliveTh ths l = false := by
  unfold aliveTh
  rw [Bool.eq_false_iff]
  intro ha
  simp only [List.any_eq_true, Bool.and_eq_true, beq_iff_eq] at ha
  obtain ⟨e, hm, he, _⟩ := ha
  have := thFind_none_iff.1 h
  apply this
  exact List.mem_map.2 ⟨e, hm, he⟩

theorem State.hasVM_eq (s : State) (t : Nat) :
    s.hasVM t = match thFind s.threads t with | some th => th.hasVM | none => false := rfl

/-! ### tables -/

namespace Tbl

/-- distinct keys, no empty list -/
structure WF (t : Tbl) : Prop where
  nodup : (t.map (·.1)).Nodup
  nonempty : ∀ e ∈ t, e.2 ≠ []

theorem WF.nil : WF [] := ⟨by simp, by simp⟩

theorem find_eq_getD_of_some {t : Tbl} {k : Key} {l : List Nat} (h : find t k = some l) : getD t k = l := by
  simp [getD, h]

theorem mem_of_find {t : Tbl} {k : Key} {l : List Nat} (h : find t k = some l) : (k, l) ∈ t := by
  unfold find at h
  cases hf : t.find? (·.1 == k) with
  | none => simp [hf] at h
  | some e =>
    simp [hf] at h
    have hm := List.mem_of_find?_eq_some hf
    have hk : e.1 = k := by simpa using List.find?_some hf
    cases e with | mk a b => simp at hk h; subst hk; subst h; exact hm

theorem find_of_mem {t : Tbl} (hn : (t.map (·.1)).Nodup) {k : Key} {l : List Nat} (h : (k, l) ∈ t) :
    find t k = some l := by
  induction t with
  | nil => simp at h
  | cons e t ih =>
    simp only [List.map_cons, List.nodup_cons] at hn
    unfold find
    rcases List.mem_cons.1 h with h | h
    · subst h; simp
    · have : ¬ e.1 = k := by
        intro e'; apply hn.1; rw [e']
        exact List.mem_map.2 ⟨(k, l), h, rfl⟩
      have hb : (e.1 == k) = false := by simpa using this
      simp only [List.find?_cons, hb]
      exact ih hn.2 h

theorem find_none_iff {t : Tbl} {k : Key} : find t k = none ↔ k ∉ t.map (·.1) := by
  unfold find
  simp only [Option.map_eq_none_iff, List.find?_eq_none, List.mem_map, not_exists, not_and]
  constructor
  · intro h e hm he; have := h e hm; simp [he] at this
  · intro h e hm; have := h e hm; simpa using this

theorem WF.find_ne_nil {t : Tbl} (h : WF t) {k : Key} {l : List Nat} (hf : find t k = some l) : l ≠ [] :=
  h.nonempty _ (mem_of_find hf)

theorem WF.getD_eq_nil_iff {t : Tbl} (h : WF t) (k : Key) : getD t k = [] ↔ find t k = none := by
  constructor
  · intro hg
    cases hf : find t k with
    | none => rfl
    | some l =>
      exfalso
      have := find_eq_getD_of_some hf
      exact h.find_ne_nil hf (by rw [← this]; exact hg)
  · intro hf; exact find_eq_none_getD hf

theorem WF.find_iff {t : Tbl} (h : WF t) (k : Key) (l : List Nat) :
    find t k = some l ↔ getD t k = l ∧ l ≠ [] := by
  constructor
  · intro hf; exact ⟨find_eq_getD_of_some hf, h.find_ne_nil hf⟩
  · rintro ⟨hg, hne⟩
    cases hf : find t k with
    | none => exfalso; apply hne; rw [← hg]; exact find_eq_none_getD hf
    | some l' => rw [← hg, find_eq_getD_of_some hf]

theorem WF.hasOwner_iff {t : Tbl} (h : WF t) (o : Nat) :
    hasOwner t o = true ↔ ∃ n, getD t (o, n) ≠ [] := by
  unfold hasOwner
  simp only [List.any_eq_true, beq_iff_eq]
  constructor
  · rintro ⟨e, hm, ho⟩
    refine ⟨e.1.2, ?_⟩
    have hk : e.1 = (o, e.1.2) := by rw [← ho]
    have hf : find t (o, e.1.2) = some e.2 := find_of_mem h.nodup (by rw [← hk]; exact hm)
    rw [find_eq_getD_of_some hf]
    exact h.nonempty e hm
  · rintro ⟨n, hn⟩
    cases hf : find t (o, n) with
    | none => exact absurd (find_eq_none_getD hf) hn
    | some l => exact ⟨((o, n), l), mem_of_find hf, rfl⟩

theorem WF.hasOwner_false_iff {t : Tbl} (h : WF t) (o : Nat) :
    hasOwner t o = false ↔ ∀ n, getD t (o, n) = [] := by
  rw [← Bool.not_eq_true, h.hasOwner_iff]
  simp

theorem WF.mem_keysOf_iff {t : Tbl} (h : WF t) (o n : Nat) (l : List Nat) :
    (n, l) ∈ keysOf t o ↔ getD t (o, n) = l ∧ l ≠ [] := by
  rw [← h.find_iff]
  constructor
  · intro hm; exact find_of_mem h.nodup (mem_keysOf hm)
  · intro hf
    unfold keysOf
    simp only [List.mem_map, List.mem_filter, beq_iff_eq]
    exact ⟨((o, n), l), ⟨mem_of_find hf, rfl⟩, rfl⟩

/-! well-formedness is kept by every table update of the machine -/

theorem WF.removeKey {t : Tbl} (h : WF t) (k : Key) : WF (removeKey t k) := by
  unfold Tbl.removeKey
  refine ⟨?_, ?_⟩
  · exact (List.filter_sublist.map _).nodup h.nodup
  · intro e he; exact h.nonempty e (List.mem_filter.1 he).1

theorem WF.removeOwner {t : Tbl} (h : WF t) (o : Nat) : WF (removeOwner t o) := by
  unfold Tbl.removeOwner
  refine ⟨?_, ?_⟩
  · exact (List.filter_sublist.map _).nodup h.nodup
  · intro e he; exact h.nonempty e (List.mem_filter.1 he).1

theorem map_upd_keys (t : Tbl) (k : Key) (f : List Nat → List Nat) :
    (t.map (fun e => if e.1 == k then (e.1, f e.2) else e)).map (·.1) = t.map (·.1) := by
  rw [List.map_map]
  apply List.map_congr_left
  intro e _
  simp only [Function.comp]
  split <;> rfl

theorem WF.push {t : Tbl} (h : WF t) (k : Key) (x : Nat) : WF (push t k x) := by
  unfold Tbl.push
  split
  · refine ⟨by rw [map_upd_keys t k (· ++ [x])]; exact h.nodup, ?_⟩
    intro e he
    simp only [List.mem_map] at he
    obtain ⟨e0, hm, rfl⟩ := he
    split
    · simp
    · exact h.nonempty e0 hm
  · rename_i hk
    refine ⟨?_, ?_⟩
    · rw [List.map_append, List.nodup_append]
      refine ⟨h.nodup, by simp, ?_⟩
      intro a ha b hb
      simp at hb; subst hb
      intro e; subst e
      apply hk
      simp only [List.any_eq_true, beq_iff_eq]
      obtain ⟨e, hm, he⟩ := List.mem_map.1 ha
      exact ⟨e, hm, he⟩
    · intro e he
      rcases List.mem_append.1 he with he | he
      · exact h.nonempty e he
      · simp at he; subst he; simp

theorem WF.pushUnique {t : Tbl} (h : WF t) (k : Key) (x : Nat) : WF (pushUnique t k x) := by
  unfold Tbl.pushUnique; split
  · exact h
  · exact h.push k x

theorem WF.removeAll {t : Tbl} (h : WF t) (k : Key) (x : Nat) : WF (removeAll t k x).1 := by
  unfold Tbl.removeAll
  split
  · exact h
  · simp only
    split
    · exact h.removeKey k
    · rename_i l hf hne
      refine ⟨by rw [map_upd_keys t k (fun _ => l.filter (· != x))]; exact h.nodup, ?_⟩
      intro e he
      simp only [List.mem_map] at he
      obtain ⟨e0, hm, rfl⟩ := he
      split
      · simp only; intro hnil; apply hne; rw [hnil]; rfl
      · exact h.nonempty e0 hm

end Tbl
end Morfuse.Sched
